/-
  C04 — no input can make a decoder or parser misbehave.

  "proof (partial)": memory safety, undefined behaviour, uninitialised reads, leaks and deadlock of the COMPILED C are
  observed (ASan/UBSan/assert build, valgrind, watchdog, counting allocator: tools/props/c04.py + harness/c04_*.c),
  not proved. What is proved here is the arithmetic / termination / return-code LOGIC that is meant to guarantee them,
  on the executable models, bridged to the source by Gen/C04.lean (regenerated on every run).

  Models used: Model/RangeDec, Model/Lzma, Model/LzDict (b-c03), Model/LzmaCode (b-c11), Model/Vli, Model/Container
  (b-c02), Model/IndexSpec (b-c13), Model/BcjX86 (b-c15), Model/C04Sym (this property).
  Only property theorems and non-vacuity examples live here; helper lemmas are in Lemmas/.
-/
import XzVerif.Gen.C04
import XzVerif.Model.C04Sym
import XzVerif.Model.Lzma
import XzVerif.Model.LzmaCode
import XzVerif.Model.Vli
import XzVerif.Model.Container
import XzVerif.Model.IndexSpec
import XzVerif.Lemmas.C04Rc
import XzVerif.Lemmas.C04Walk
import XzVerif.Lemmas.FileInfoSeek
import XzVerif.Lemmas.C04Misc
import XzVerif.Lemmas.C03Dict
import XzVerif.Lemmas.C03Rc
import XzVerif.Lemmas.LzmaCode
import XzVerif.Lemmas.BitWordsBcjX86
import XzVerif.Model.Lzma2
import XzVerif.Model.XzDecode
import XzVerif.Model.Alone
import XzVerif.Model.Lzip
import XzVerif.Model.Auto
import XzVerif.Model.FileInfo
import XzVerif.Model.Simple
import XzVerif.Model.XzConcat
import XzVerif.Lemmas.C04CheckedTop
import XzVerif.Lemmas.C04Fuel

namespace XzVerif.C04
open XzVerif XzVerif.C04Sym

/-! ## Bridges: the constants the theorems use are the constants of the source (Gen/C04.lean is regenerated) -/

/-- THE BRIDGE FOR `LZMA_IN_REQUIRED`: the property needs the constant the code uses in its fast-path guard
    (`rc_is_fast_allowed`: more than LZMA_IN_REQUIRED bytes remain) to be AT LEAST the worst-case consumption of one symbol,
    which is 20 bytes (`in_required_20`, `in_required_20_decoder`: proved for the model, and attained — see the example after
    `in_required_20_decoder`). Any larger value is equally safe (the fast loop is merely left a little earlier); a smaller one
    breaks this obligation. -/
theorem gen_in_required : 20 ≤ Gen.C04.LZMA_IN_REQUIRED := by decide

/-- Every other constant and array size the theorems below mention equals what the compiled source says today. -/
theorem gen_constants :
    Gen.C04.RC_TOP_VALUE = RangeDec.RC_TOP_VALUE ∧ Gen.C04.RC_SHIFT_BITS = RangeDec.RC_SHIFT_BITS
    ∧ Gen.C04.RC_BIT_MODEL_TOTAL = RangeDec.RC_BIT_MODEL_TOTAL ∧ Gen.C04.RC_BIT_MODEL_TOTAL_BITS = RangeDec.RC_BIT_MODEL_TOTAL_BITS
    ∧ Gen.C04.RC_MOVE_BITS = RangeDec.RC_MOVE_BITS ∧ 2 ^ Gen.C04.RC_TOP_BITS = RangeDec.RC_TOP_VALUE
    ∧ Gen.C04.LZMA_LCLP_MAX = Lzma.LZMA_LCLP_MAX ∧ Gen.C04.LZMA_PB_MAX = Lzma.LZMA_PB_MAX
    ∧ Gen.C04.LITERAL_CODER_SIZE = Lzma.LITERAL_CODER_SIZE ∧ Gen.C04.STATES = Lzma.STATES ∧ Gen.C04.LIT_STATES = Lzma.LIT_STATES
    ∧ Gen.C04.POS_STATES_MAX = Lzma.POS_STATES_MAX ∧ Gen.C04.DIST_STATES = Lzma.DIST_STATES ∧ Gen.C04.DIST_SLOTS = Lzma.DIST_SLOTS
    ∧ Gen.C04.DIST_MODEL_START = Lzma.DIST_MODEL_START ∧ Gen.C04.DIST_MODEL_END = Lzma.DIST_MODEL_END
    ∧ Gen.C04.FULL_DISTANCES = Lzma.FULL_DISTANCES ∧ Gen.C04.ALIGN_BITS = Lzma.ALIGN_BITS ∧ Gen.C04.ALIGN_SIZE = Lzma.ALIGN_SIZE
    ∧ Gen.C04.MATCH_LEN_MIN = Lzma.MATCH_LEN_MIN ∧ Gen.C04.MATCH_LEN_MAX = LzDict.MATCH_LEN_MAX
    ∧ Gen.C04.LEN_LOW_SYMBOLS = Lzma.LEN_LOW_SYMBOLS ∧ Gen.C04.LEN_MID_SYMBOLS = Lzma.LEN_MID_SYMBOLS
    ∧ Gen.C04.LEN_HIGH_SYMBOLS = Lzma.LEN_HIGH_SYMBOLS
    ∧ Gen.C04.LZ_DICT_REPEAT_MAX = LzDict.LZ_DICT_REPEAT_MAX ∧ Gen.C04.LZ_DICT_INIT_POS = LzDict.LZ_DICT_INIT_POS
    ∧ Gen.C04.LZ_DICT_EXTRA ≤ LzDict.LZ_DICT_EXTRA ∧ Gen.C04.LZ_DICT_REPEAT_MAX % 32 = 0
    ∧ Gen.C04.MATCH_LEN_MAX ≤ Gen.C04.LZ_DICT_REPEAT_MAX
    ∧ Gen.C04.LZMA_VLI_BYTES_MAX = Vli.VLI_BYTES_MAX ∧ Gen.C04.LZMA_VLI_MAX = Vli.VLI_MAX
    ∧ Gen.C04.LZMA_BLOCK_HEADER_SIZE_MIN = Container.BLOCK_HEADER_SIZE_MIN
    ∧ Gen.C04.LZMA_BLOCK_HEADER_SIZE_MAX = Container.BLOCK_HEADER_SIZE_MAX
    ∧ Gen.C04.LZMA_STREAM_HEADER_SIZE = C04Sym.STREAM_HEADER_SIZE
    ∧ Gen.C04.retOK = LzmaCode.LZMA_OK ∧ Gen.C04.retSTREAM_END = LzmaCode.LZMA_STREAM_END
    ∧ Gen.C04.retBUF_ERROR = LzmaCode.LZMA_BUF_ERROR ∧ Gen.C04.retPROG_ERROR = LzmaCode.LZMA_PROG_ERROR
    ∧ Gen.C04.retSEEK_NEEDED = LzmaCode.LZMA_SEEK_NEEDED ∧ Gen.C04.retTIMED_OUT = LzmaCode.LZMA_TIMED_OUT
    ∧ Gen.C04.retINTERNAL1 = LzmaCode.LZMA_RET_INTERNAL1 := by
  decide

/-- The probability arrays of `lzma_lzma1_decoder` (sizeof taken from the compiled struct) have exactly the sizes the
    index theorems assume. -/
theorem gen_array_sizes :
    Gen.C04.nLiteral = Lzma.LITERAL_CODER_SIZE <<< Lzma.LZMA_LCLP_MAX
    ∧ Gen.C04.nIsMatch = Lzma.STATES * Lzma.POS_STATES_MAX ∧ Gen.C04.nIsRep0Long = Lzma.STATES * Lzma.POS_STATES_MAX
    ∧ Gen.C04.nIsRep = Lzma.STATES
    ∧ Gen.C04.nDistSlot = Lzma.DIST_STATES * Lzma.DIST_SLOTS ∧ Gen.C04.nDistSlotRow = Lzma.DIST_SLOTS
    ∧ Gen.C04.nPosSpecial = Lzma.FULL_DISTANCES - Lzma.DIST_MODEL_END ∧ Gen.C04.nPosAlign = Lzma.ALIGN_SIZE
    ∧ Gen.C04.nLenLow = Lzma.POS_STATES_MAX * Lzma.LEN_LOW_SYMBOLS ∧ Gen.C04.nLenLowRow = Lzma.LEN_LOW_SYMBOLS
    ∧ Gen.C04.nLenMid = Lzma.POS_STATES_MAX * Lzma.LEN_MID_SYMBOLS ∧ Gen.C04.nLenHigh = Lzma.LEN_HIGH_SYMBOLS
    ∧ Gen.C04.sizeofProbability = 2 := by
  decide

/-- The REAL `literal_mask_calc` / `literal_subcoder` macros, tabulated by the probe for every valid (lc, lp) over the
    effective domain (low lp bits of pos × high lc bits of prev_byte, all other bits set), agree with the model's formula;
    (random full-width arguments are compared in the check's index grid.) -/
theorem gen_literal_table : Gen.C04.litTable = litTableModel := by
  decide +kernel

/-- The REAL `get_dist_state` for every match length 2..273 agrees with the model. -/
theorem gen_dist_state : Gen.C04.distStateTable = (List.range 272).map (fun i => Lzma.getDistState (i + 2)) := by
  decide +kernel

/-! ## Probability-array indices

  The theorems of this section are inequalities between the CLOSED FORMULAS of the index expressions (bridged to the real
  macros by `gen_literal_table`, `gen_dist_state` and the index grid of the check). That the EXECUTABLE decoder model,
  which indexes its arrays with totalised accessors (`getD`, `setIfInBounds`, `get!`), only ever computes indices that
  satisfy them — on every input — is `decoder_accesses_in_bounds` (section "Array accesses of the executable decoder
  models" below). -/

/-- `literal_subcoder(coder->literal, lc, literal_mask, dict.pos, dict_get0(&dict))[sub]`: for lc + lp ≤ 4, EVERY
    position and previous byte, and every node `sub < 0x300` of the sub-coder (plain: 1..0xFF; matched: 0x100 + …,
    0x200 + …), the index is below `0x300 << (lc + lp)` — the part `literal_init` initialises — which is at most the
    size of the C array. -/
theorem prob_indices_in_bounds_literal (lc lp pos prev sub : Nat) (h : lc + lp ≤ Gen.C04.LZMA_LCLP_MAX)
    (hs : sub < Gen.C04.LITERAL_CODER_SIZE) :
    Lzma.literalSubcoder lc lp pos prev + sub < Gen.C04.LITERAL_CODER_SIZE <<< (lc + lp)
    ∧ Gen.C04.LITERAL_CODER_SIZE <<< (lc + lp) ≤ Gen.C04.nLiteral := by
  have := literal_index_lt lc lp pos prev sub h hs
  exact ⟨this.1, this.2⟩

/-- All other probability indices: `state` stays below STATES under every update, `pos_state = dict.pos & pos_mask`
    is below POS_STATES_MAX for pb ≤ 4, `get_dist_state(len)` below DIST_STATES, bit-tree nodes stay inside their
    row, `pos_special + rep0 - symbol - 1 + node` lies in `[0, 114)`, `pos_align[offset + symbol]` in `[1, 16)`. -/
theorem prob_indices_in_bounds :
    -- state machine: every update keeps `state < STATES` (rows of is_match/is_rep/is_rep0/is_rep1/is_rep2/is_rep0_long)
    (∀ s, s < Gen.C04.STATES →
        Lzma.updateLiteralNormal s < Gen.C04.STATES ∧ Lzma.updateLiteralMatched s < Gen.C04.STATES
        ∧ Lzma.updateMatch s < Gen.C04.STATES ∧ Lzma.updateLongRep s < Gen.C04.STATES ∧ Lzma.updateShortRep s < Gen.C04.STATES)
    -- pos_state
    ∧ (∀ pos pb, pb ≤ Gen.C04.LZMA_PB_MAX → pos &&& ((1 <<< pb) - 1) < Gen.C04.POS_STATES_MAX)
    -- flat index of the two-dimensional arrays
    ∧ (∀ state posState, state < Gen.C04.STATES → posState < Gen.C04.POS_STATES_MAX →
        state * Gen.C04.POS_STATES_MAX + posState < Gen.C04.nIsMatch)
    -- dist_slot[get_dist_state(len)][node], node of a 6-level bit tree
    ∧ (∀ len node, node < Gen.C04.DIST_SLOTS →
        Lzma.getDistState len < Gen.C04.DIST_STATES
        ∧ Lzma.getDistState len * Gen.C04.nDistSlotRow + node < Gen.C04.nDistSlot)
    -- pos_special: slots 4..13, nodes of the reverse bit tree with `limit = (slot >> 1) - 1` levels
    ∧ (∀ slot, slot < Gen.C04.DIST_MODEL_END → Gen.C04.DIST_MODEL_START ≤ slot → ∀ m, m < 32 → 1 ≤ m → m < 2 ^ ((slot >>> 1) - 1) →
        slot + 1 ≤ ((2 + (slot &&& 1)) <<< ((slot >>> 1) - 1)) + m
        ∧ ((2 + (slot &&& 1)) <<< ((slot >>> 1) - 1)) + m - slot - 1 < Gen.C04.nPosSpecial)
    -- pos_align[offset + symbol]
    ∧ (∀ offset sym, (offset = 1 ∨ offset = 2 ∨ offset = 4 ∨ offset = 8) → sym < offset →
        1 ≤ offset + sym ∧ offset + sym < Gen.C04.nPosAlign)
    -- length coders: low[pos_state][node], mid[pos_state][node] (node < 8), high[node] (node < 256)
    ∧ (∀ posState node, posState < Gen.C04.POS_STATES_MAX → node < Gen.C04.LEN_LOW_SYMBOLS →
        posState * Gen.C04.nLenLowRow + node < Gen.C04.nLenLow ∧ posState * Gen.C04.nLenLowRow + node < Gen.C04.nLenMid)
    ∧ Gen.C04.LEN_HIGH_SYMBOLS ≤ Gen.C04.nLenHigh := by
  refine ⟨?_, ?_, ?_, ?_, ?_, ?_, ?_, ?_⟩
  · intro s hs
    simp only [Gen.C04.STATES] at hs
    have : s = 0 ∨ s = 1 ∨ s = 2 ∨ s = 3 ∨ s = 4 ∨ s = 5 ∨ s = 6 ∨ s = 7 ∨ s = 8 ∨ s = 9 ∨ s = 10 ∨ s = 11 := by omega
    rcases this with e | e | e | e | e | e | e | e | e | e | e | e <;> subst e <;> decide
  · intro pos pb hpb
    exact pos_state_lt pos pb hpb
  · intro state posState hs hp
    simp only [Gen.C04.STATES, Gen.C04.POS_STATES_MAX, Gen.C04.nIsMatch] at *; omega
  · intro len node hn
    unfold Lzma.getDistState
    simp only [Gen.C04.DIST_SLOTS, Gen.C04.DIST_STATES, Gen.C04.nDistSlotRow, Gen.C04.nDistSlot, Lzma.DIST_STATES,
      Lzma.MATCH_LEN_MIN] at *
    split <;> omega
  · intro slot h1 h2 m hm1 hm2 hm3
    exact pos_special_index slot h1 m hm1 ⟨h2, hm2, hm3⟩
  · intro offset sym ho hs
    simp only [Gen.C04.nPosAlign]; omega
  · intro posState node hp hn
    simp only [Gen.C04.POS_STATES_MAX, Gen.C04.LEN_LOW_SYMBOLS, Gen.C04.nLenLowRow, Gen.C04.nLenLow, Gen.C04.nLenMid] at *
    omega
  · decide

/-- A bit tree of `n` levels starts at node 1 and moves to `2·node + bit`: every node it reads a probability at is
    in `[1, 2^n)` (so `rc_bittree3/6/8` and the `len_decode` loops stay inside rows of 8, 64, 256 elements). -/
theorem bittree_nodes_in_row (bits : List Bool) (n : Nat) (h : bits.length < n) :
    1 ≤ treeNode bits ∧ treeNode bits < 2 ^ n :=
  treeNode_bounds bits n h

/-- Probabilities never leave [31, 2017] (so `bound = (range >> 11) * prob` is never 0 and never the whole range). -/
theorem prob_range_inv (p : Nat) (h : RangeDec.ProbInv p) :
    RangeDec.ProbInv (RangeDec.probUpdate0 p) ∧ RangeDec.ProbInv (RangeDec.probUpdate1 p) ∧ RangeDec.ProbInv RangeDec.PROB_INIT :=
  ⟨RangeDec.probInv_update0 h, RangeDec.probInv_update1 h, RangeDec.probInv_init⟩

/-! ## LZMA_IN_REQUIRED -/

/-- Every path through one LZMA symbol (203 shapes, read off `lzma_decode`) ends with a probability bit and the bits
    before it are within the range-shrink budget `budgetOk` (this includes the worst case named in the source, 22
    probability bits + 26 direct bits, and the 23-probability-bit path of dist_slot 12/13). -/
theorem symbol_shapes_ok : symbolShapes.all shapeOk = true := by decide +kernel

/-- One LZMA symbol, whatever its path, the probabilities (in [31, 2017]) and the decoded bit values, started from
    any range a previous symbol or `rc_reset` can leave (≥ 8192·31, normalised or not), reads at most 20 bytes (a statement
    about the model alone; `gen_in_required` ties 20 to the code's `LZMA_IN_REQUIRED`); and it leaves a range ≥ 8192·31 again, so the bound holds for every symbol of a stream. -/
theorem in_required_20 (ops : List Op) (r : Nat) (hshape : shapeOf ops ∈ symbolShapes) (hok : OpsOk ops)
    (hlo : 253952 ≤ r) (hhi : r < RangeDec.U32) :
    (runR r ops).2 ≤ 20 ∧ 253952 ≤ (runR r ops).1 ∧ (runR r ops).1 < RangeDec.U32 := by
  have hs : shapeOk (shapeOf ops) = true := List.all_eq_true.mp symbol_shapes_ok _ hshape
  exact symbol_bound_of_shape ops r hs hok.to0 hlo hhi

/-- Hence the fast loop never reads past `in_size`: it runs only while `rc_is_fast_allowed()`, i.e. while more than
    LZMA_IN_REQUIRED bytes remain — with the value of LZMA_IN_REQUIRED the source has today, whatever it is, as long as
    `gen_in_required` holds (the proof uses nothing else about the constant). -/
theorem fast_loop_stays_in_input (ops : List Op) (r avail : Nat) (hshape : shapeOf ops ∈ symbolShapes) (hok : OpsOk ops)
    (hlo : 253952 ≤ r) (hhi : r < RangeDec.U32) (hfast : fastAllowed avail Gen.C04.LZMA_IN_REQUIRED = true) :
    (runR r ops).2 < avail := by
  have := (in_required_20 ops r hshape hok hlo hhi).1
  have h20 := gen_in_required
  generalize Gen.C04.LZMA_IN_REQUIRED = R at hfast h20
  unfold fastAllowed at hfast
  split at hfast
  · simp at hfast
  · omega

/-- The ranges the theorem starts from are the real ones: `rc_reset` gives 2^32 - 1, and the range model follows
    `bitCore` / `directCore` / `normalizeL` of Model/RangeDec.lean step by step (each normalisation = one byte). -/
theorem range_model_is_rangedec (rc : RangeDec.Rc) (p : Nat) (inp rest : List UInt8) (rc' : RangeDec.Rc)
    (h : RangeDec.normalizeL rc inp = some (rc', rest)) :
    inp.length = rest.length + (normR rc.range).2 ∧ rc'.range = (normR rc.range).1
    ∧ (RangeDec.bitCore rc' p).2.1.range = opR rc'.range { kind := .prob, p := p, bit := (RangeDec.bitCore rc' p).1 == 1 }
    ∧ (RangeDec.directCore rc').2.range = opR rc'.range { kind := .direct }
    ∧ 253952 ≤ RangeDec.Rc.reset.range ∧ RangeDec.Rc.reset.range < RangeDec.U32 := by
  obtain ⟨h1, h2⟩ := normalizeL_bytes rc inp rc' rest h
  exact ⟨h1, h2, bitCore_range rc' p, directCore_range rc', by decide, by decide⟩

/-- THE SAME BOUND ON THE EXECUTABLE DECODER MODEL of b-c03 (`Lzma.decodeSymbol`: one symbol from SEQ_IS_MATCH up to its
    output step, with the bounds-checked `rc_*_safe` primitives). From any range a finished symbol or `rc_reset` leaves
    (≥ 8192·31, < 2^32) and a probability array whose slots are in [31, 2017], a symbol decode that completes has consumed at
    most 20 input bytes (≤ the code's LZMA_IN_REQUIRED by `gen_in_required`); and it leaves a range and probabilities satisfying the same conditions, so the
    bound holds for every symbol of a stream (`rc_reset` gives range 2^32 − 1, `lzma_decoder_reset` gives probabilities 1024).
    Proof (Lemmas/C04Walk.lean): a walk through the monadic code of `decodeSymbol` showing that the bits it decodes form one of
    the 203 `symbolShapes`, that range and cursor evolve exactly as `runR` says, and that every probability used is in
    [31, 2017] — or is the 0 that the MODEL reads for an index outside its array, for which `rc_bit` decodes 1 and leaves the
    range unchanged (this theorem makes no assumption on lc/lp/pb, so it has to cover that case; from the states a decoder
    actually reaches no index is ever outside its array: `decoder_accesses_in_bounds` below); then `in_required_20`'s
    budget argument (`symbol_shapes_ok`). No assumption on lc/lp/pb, state, dictionary or input.
    (The end-of-payload marker's final normalisation is excluded exactly as in the C code, which leaves the fast loop for
    it — `goto eopm`: that path does not return normally from `decodeSymbol`.) -/
theorem in_required_20_decoder (s s' : Lzma.St) (eopmValid : Bool) (pend : Lzma.Pending)
    (hlo : 253952 ≤ s.range) (hhi : s.range < RangeDec.U32)
    (hp : ∀ i, i < s.probs.size → RangeDec.ProbInv (s.probs.getD i 0))
    (h : Lzma.decodeSymbol eopmValid s = .ok pend s') :
    s.inPos ≤ s'.inPos ∧ s'.inPos ≤ s.inPos + 20
    ∧ 253952 ≤ s'.range ∧ s'.range < RangeDec.U32
    ∧ (∀ i, i < s'.probs.size → RangeDec.ProbInv (s'.probs.getD i 0)) :=
  decodeSymbol_bytes symbol_shapes_ok eopmValid s s' pend hlo hhi hp h

/-- Hence the C fast loop (the non-`_safe` macros, entered only while `rc_is_fast_allowed()`: more than LZMA_IN_REQUIRED
    bytes remain) never reads at or past `in_size` while decoding a symbol: the cursor after the symbol is still inside
    the input. -/
theorem fast_loop_stays_in_input_decoder (s s' : Lzma.St) (eopmValid : Bool) (pend : Lzma.Pending)
    (hlo : 253952 ≤ s.range) (hhi : s.range < RangeDec.U32)
    (hp : ∀ i, i < s.probs.size → RangeDec.ProbInv (s.probs.getD i 0))
    (hfast : fastAllowed (s.inp.size - s.inPos) Gen.C04.LZMA_IN_REQUIRED = true)
    (h : Lzma.decodeSymbol eopmValid s = .ok pend s') :
    s'.inPos < s.inp.size := by
  have hb := (in_required_20_decoder s s' eopmValid pend hlo hhi hp h).2.1
  have h20 := gen_in_required
  generalize Gen.C04.LZMA_IN_REQUIRED = R at hfast h20
  unfold fastAllowed at hfast
  split at hfast
  · simp at hfast
  · omega

/-- non-vacuity of the hypotheses: the state after `rc_reset` + `lzma_decoder_reset` (range 2^32 − 1, all probabilities 1024) -/
example : 253952 ≤ RangeDec.UINT32_MAX ∧ RangeDec.UINT32_MAX < RangeDec.U32
    ∧ ∀ i, i < (Array.replicate (Lzma.probsSize 3 0) RangeDec.PROB_INIT).size →
        RangeDec.ProbInv ((Array.replicate (Lzma.probsSize 3 0) RangeDec.PROB_INIT).getD i 0) := by
  refine ⟨by decide, by decide, fun i hi => ?_⟩
  simp only [Array.size_replicate] at hi
  simp [Array.getD, hi, RangeDec.ProbInv, RangeDec.PROB_INIT]

/-- non-vacuity: the longest path (match, 10-bit length, slot 63: 26 direct + 4 align bits) is in the grammar, and with
    the most range-shrinking choices it really reads 19 or 20 bytes -/
example : (List.replicate 18 P ++ List.replicate 26 D ++ List.replicate 4 P) ∈ symbolShapes := by decide +kernel
example : (runR 253952 ((List.replicate 18 ({ kind := .prob, p := 31 } : Op)) ++ List.replicate 26 { kind := .direct }
            ++ List.replicate 4 { kind := .prob, p := 31 })).2 = 20 := by decide +kernel

/-! ## Dictionary indices (lemmas of Lemmas/C03Dict.lean over Model/LzDict.lean, restated with the source's constants)

  Closed-formula level: GIVEN `PosInv` and `distance < dict.full`. That every `dict_get` / `dict_repeat` / `dict_put` /
  `dict_write` of a decoding run happens in such a state — and that the index expressions below are then inside the
  buffer at each of these calls — is part of `decoder_accesses_in_bounds`. -/

/-- Under the position invariant `PosInv` every index the LZ decoder computes is inside the allocation of
    `size + LZ_DICT_EXTRA` bytes: `dict_get` / `dict_get0` (below `size`), `dict_repeat` (reads `back + i`, writes
    `pos + i`, `i < left`, never past `limit`; the memcpy/SSE2 branch is taken only when source and destination do not
    overlap; the 32-byte SSE2 blocks end within the LZ_DICT_EXTRA slack), and the wrap `memcpy`. -/
theorem dict_indices_in_bounds {p : LzDict.DictPos} (h : LzDict.PosInv p) (d len : Nat) (hd : d < p.full)
    (hl : len ≤ Gen.C04.MATCH_LEN_MAX) :
    p.getIndex d < p.size ∧ 1 ≤ p.pos ∧ p.pos - 1 < p.size
    ∧ p.repeatBack d + p.repeatLeft len ≤ p.size ∧ p.pos + p.repeatLeft len ≤ p.limit
    ∧ (p.repeatLeft len ≤ d →
        (p.repeatBack d + p.repeatLeft len ≤ p.pos ∨ p.pos + p.repeatLeft len ≤ p.repeatBack d)
        ∧ LzDict.Dict.sse2WriteEnd p.pos (p.repeatLeft len) ≤ p.size + LzDict.LZ_DICT_EXTRA
        ∧ p.repeatBack d + (LzDict.Dict.sse2WriteEnd p.pos (p.repeatLeft len) - p.pos) ≤ p.size + LzDict.LZ_DICT_EXTRA)
    ∧ LzDict.LZ_DICT_REPEAT_MAX ≤ p.size - LzDict.LZ_DICT_REPEAT_MAX := by
  have hl' : len ≤ LzDict.LZ_DICT_REPEAT_MAX := by
    simp only [Gen.C04.MATCH_LEN_MAX] at hl; simp only [LzDict.LZ_DICT_REPEAT_MAX]; omega
  have r := LzDict.repeat_bounds h d len hd hl'
  simp only [] at r
  refine ⟨(LzDict.getIndex_lt h d hd).1, (LzDict.get0_lt h).1, (LzDict.get0_lt h).2, r.1, r.2.1, ?_, (LzDict.wrap_copy_bounds h).1⟩
  intro hle
  exact ⟨r.2.2.2.1 hle, (r.2.2.2.2 hle).1, (r.2.2.2.2 hle).2⟩

/-- `PosInv` holds initially and is kept by every step the decoder takes (`dict_put` / `dict_repeat` / `dict_write`
    advance by at most `limit - pos`; `decode_buffer` wraps and recomputes the limit; reset). -/
theorem dict_inv_preserved :
    (∀ dictSize presetLen, LzDict.PosInv (LzDict.DictPos.init dictSize presetLen))
    ∧ (∀ p : LzDict.DictPos, LzDict.PosInv p → ∀ n, n ≤ p.avail → LzDict.PosInv (p.advance n))
    ∧ (∀ p : LzDict.DictPos, LzDict.PosInv p → ∀ n, LzDict.PosInv (p.wrap.setLimit n))
    ∧ (∀ p : LzDict.DictPos, LzDict.PosInv p → LzDict.LZ_DICT_INIT_POS ≤ p.limit → LzDict.PosInv p.reset) :=
  ⟨LzDict.posInv_init, fun _ h n hn => LzDict.posInv_advance h n hn, fun _ h n => LzDict.posInv_wrap_setLimit h n,
   fun _ h hl => LzDict.posInv_reset h hl⟩

/-- non-vacuity: a dictionary that has wrapped, write position near the start, so that distances ≥ pos read from the end -/
example : LzDict.PosInv { pos := 300, full := 4096, limit := 400, size := 4672, hasWrapped := true, needReset := false } :=
  { size_ge := by decide, pos_le_limit := by decide, limit_le_size := by decide, full_le := by decide,
    not_wrapped := (by intro h; cases h), wrapped := (by intro _; decide) }

/-! ## Array accesses of the executable decoder models (audit finding F-05)

  Model/Lzma.lean and Model/Lzma2.lean — the functions the drivers run — index their arrays with TOTALISED accessors:
  `probs.getD idx 0` / `probs.setIfInBounds idx p` (`rcBit`), `hist.get! i` behind `if distance < hist.size … else 0`
  (`dictGet`, `copyBytes`), `if h : off < src.size then src[off] else 0` (`appendSlice`, the input byte of `lzma2Loop`).
  Lemmas/C04Checked.lean defines INSTRUMENTED variants (`rcBitC`, `dictGetC`, `dictGet0C`, `putC`, `copyBytesC`,
  `repeatNC`, `decodeSymbolC`, `doWriteC`, `lzmaCallC`, `decodeBufferC`, `dictWriteC`, `lzma2LoopC`, `Coder.codeC`,
  `lzmaDecodeC`, `lzma2DecodeC`, `rawDecodeC`): the same programs statement by statement, but every array access goes through
  the PARTIAL accessor `a[i]'h` / `a.set i v h` (Lean demands `h : i < a.size`), and where no run-time test supplies `h` the
  variant stops with the distinguished outcome `oob` (`none` at call level). Every probability access additionally names the
  C MEMBER ARRAY of `lzma_lzma1_decoder` it is meant for — `rcBitC (lo, ext) idx` tests `lo ≤ idx < lo + ext` besides
  `idx < probs.size`; the members `M_IS_MATCH … M_LITERAL` are listed, with the sizes the compiled struct has, in
  `member_table_matches_code` below — so an index that strays from `is_match[][]` into `is_rep[]` (inside the flat model
  array, outside its own C array) is `oob` too (audit S-4). The dictionary operations additionally test,
  at every call, the precondition `distance < dict.full` and the C-LEVEL INDEX EXPRESSIONS of lz_decoder.h against the
  buffer size — `dict_get`: `getIndex distance < size`; `dict_get0`: `1 ≤ pos ∧ pos − 1 < size`; `dict_put`: `pos < size`;
  `dict_repeat`: `back + left ≤ size ∧ pos + left ≤ size`; `dict_write`: `pos + n ≤ size` — i.e. the expressions that
  `LzDict.Dict.get/get0/put/repeat/write` hand to `getD`/`setIfInBounds` (the executable decoders keep the produced bytes in
  a growing history instead of the cyclic buffer, so these expressions would otherwise not occur in a run).

  The theorems say: on EVERY input the checked function returns `some` of exactly what the executable function returns.
  Hence no access is out of bounds, no totalised default is ever taken, and the instrumentation changes nothing.
  Proof (Lemmas/C04Checked{Rc,Sym,Call,Lz,L2,Top}.lean): a simulation logic `Sim` between the two monads; a walk through
  `decodeSymbol` discharging every probability index by the layout lemmas (`probsSize lc lp`, lc + lp ≤ 4, pb ≤ 4,
  state < 12; bit-tree nodes by induction) and every dictionary read by `RepsOk` + `dict.full ≤ |history|` + `PosInv`
  (`getIndex_lt`, `get0_lt`, `repeat_bounds` of Lemmas/C03Dict.lean; match lengths ≤ MATCH_LEN_MAX are carried along);
  preservation of the access invariant `Live` through the output step, the main loop, `lzma_decode`, `decode_buffer`;
  for LZMA2 a sequence-aware invariant `A2` next to `L2R` of Props/C03 `reps_invariant_lzma2`. -/

/-- ONE SYMBOL and ONE CALL of `lzma_decode`. From every state satisfying the access invariant
    (`Lzma.Live`: probability array of size `probsSize lc lp` with lc + lp ≤ 4, pb ≤ 4, state < 12; `dict.full ≤` bytes in
    the history; `RepsOk`; `PosInv`) the checked symbol decoder yields exactly the outcome of `decodeSymbol` — normal or
    exit, never `oob` — and a normal return re-establishes the invariant together with what its output step needs
    (`WriteOk`: `rep0 < dict.full` for SEQ_SHORTREP/SEQ_COPY, copy length ≤ MATCH_LEN_MAX). From every state satisfying
    `AccSt` (stuck for good, or `Live` with a well-formed pending output step) the checked `lzma_decode` call is the
    executable call, and `AccSt` holds again afterwards unless the call returned LZMA_STREAM_END (an accepted
    end-of-payload marker leaves `rep0 = UINT32_MAX`; `lzma_code` never calls the coder again then) — and in the LZMA2
    chunk configuration `NoEopm`, where no marker can be accepted, in every case. -/
theorem symbol_decoder_accesses_in_bounds :
    (∀ (ev : Bool) (s : Lzma.St), Lzma.Live s →
        Lzma.decodeSymbolC ev s = Lzma.liftR (Lzma.decodeSymbol ev s)
        ∧ ∀ act s', Lzma.decodeSymbol ev s = .ok act s' → Lzma.Live s' ∧ Lzma.WriteOk act s')
    ∧ (∀ (p : Lzma.Pending) (s : Lzma.St), Lzma.Live s → Lzma.WriteOk p s →
        Lzma.doWriteC p s = Lzma.liftR (Lzma.doWrite p s))
    ∧ (∀ s : Lzma.St, Lzma.AccSt s →
        Lzma.lzmaCallC s = some (Lzma.lzmaCall s)
        ∧ ((Lzma.lzmaCall s).1 ≠ .streamEnd → Lzma.AccSt (Lzma.lzmaCall s).2)
        ∧ (Lzma.NoEopm s → Lzma.AccSt (Lzma.lzmaCall s).2)) :=
  ⟨fun ev s h => ⟨(Lzma.decodeSymbol_acc ev s h).1, fun act s' e =>
      ⟨((Lzma.decodeSymbol_acc ev s h).2 act s' e).1, ((Lzma.decodeSymbol_acc ev s h).2 act s' e).2.1⟩⟩,
   fun p s h hw => (Lzma.doWrite_acc p s h hw).1,
   fun s h => ⟨(Lzma.lzmaCall_acc s h).1, (Lzma.lzmaCall_acc s h).2.1, (Lzma.lzmaCall_acc s h).2.2.1⟩⟩

/-- The member table the checked decoder tests against IS the layout of the compiled `lzma_lzma1_decoder`: each member's extent
    equals the element count the probe reads off the C struct (`sizeof(member) / sizeof(probability)`, Gen/C04.lean), the
    members are adjacent in declaration order and tile the flat model array from 0 to `P_LITERAL`, and `literal` has room for
    the largest `0x300 << (lc + lp)`. -/
theorem member_table_matches_code :
    Lzma.M_IS_MATCH = (Lzma.P_IS_MATCH, Gen.C04.nIsMatch) ∧ Lzma.M_IS_REP.2 = Gen.C04.nIsRep ∧ Lzma.M_IS_REP0.2 = Gen.C04.nIsRep
    ∧ Lzma.M_IS_REP1.2 = Gen.C04.nIsRep ∧ Lzma.M_IS_REP2.2 = Gen.C04.nIsRep ∧ Lzma.M_IS_REP0_LONG.2 = Gen.C04.nIsRep0Long
    ∧ Lzma.M_DIST_SLOT.2 = Gen.C04.nDistSlot ∧ Lzma.M_POS_SPECIAL.2 = Gen.C04.nPosSpecial ∧ Lzma.M_POS_ALIGN.2 = Gen.C04.nPosAlign
    ∧ (∀ b, (Lzma.M_LEN_LOW b).2 = Gen.C04.nLenLow ∧ (Lzma.M_LEN_MID b).2 = Gen.C04.nLenMid ∧ (Lzma.M_LEN_HIGH b).2 = Gen.C04.nLenHigh
          ∧ (Lzma.M_LEN_CHOICE b).2 = 1 ∧ (Lzma.M_LEN_CHOICE2 b).2 = 1)
    ∧ Lzma.M_LITERAL.2 = Gen.C04.nLiteral
    -- adjacency: each member starts where the previous one ends
    ∧ Lzma.M_IS_MATCH.1 = 0 ∧ Lzma.M_IS_MATCH.1 + Lzma.M_IS_MATCH.2 = Lzma.M_IS_REP.1 ∧ Lzma.M_IS_REP.1 + Lzma.M_IS_REP.2 = Lzma.M_IS_REP0.1
    ∧ Lzma.M_IS_REP0.1 + Lzma.M_IS_REP0.2 = Lzma.M_IS_REP1.1 ∧ Lzma.M_IS_REP1.1 + Lzma.M_IS_REP1.2 = Lzma.M_IS_REP2.1
    ∧ Lzma.M_IS_REP2.1 + Lzma.M_IS_REP2.2 = Lzma.M_IS_REP0_LONG.1 ∧ Lzma.M_IS_REP0_LONG.1 + Lzma.M_IS_REP0_LONG.2 = Lzma.M_DIST_SLOT.1
    ∧ Lzma.M_DIST_SLOT.1 + Lzma.M_DIST_SLOT.2 = Lzma.M_POS_SPECIAL.1 ∧ Lzma.M_POS_SPECIAL.1 + Lzma.M_POS_SPECIAL.2 = Lzma.M_POS_ALIGN.1
    ∧ Lzma.M_POS_ALIGN.1 + Lzma.M_POS_ALIGN.2 = (Lzma.M_LEN_CHOICE Lzma.P_MATCH_LEN).1
    ∧ (∀ b, (Lzma.M_LEN_CHOICE b).1 = b ∧ (Lzma.M_LEN_CHOICE b).1 + 1 = (Lzma.M_LEN_CHOICE2 b).1
          ∧ (Lzma.M_LEN_CHOICE2 b).1 + 1 = (Lzma.M_LEN_LOW b).1 ∧ (Lzma.M_LEN_LOW b).1 + (Lzma.M_LEN_LOW b).2 = (Lzma.M_LEN_MID b).1
          ∧ (Lzma.M_LEN_MID b).1 + (Lzma.M_LEN_MID b).2 = (Lzma.M_LEN_HIGH b).1
          ∧ (Lzma.M_LEN_HIGH b).1 + (Lzma.M_LEN_HIGH b).2 = b + Lzma.LEN_CODER_SIZE)
    ∧ Lzma.P_MATCH_LEN + Lzma.LEN_CODER_SIZE = Lzma.P_REP_LEN ∧ Lzma.P_REP_LEN + Lzma.LEN_CODER_SIZE = Lzma.M_LITERAL.1 := by
  refine ⟨by decide, by decide, by decide, by decide, by decide, by decide, by decide, by decide, by decide, ?_, by decide,
    by decide, by decide, by decide, by decide, by decide, by decide, by decide, by decide, by decide, by decide, ?_,
    by decide, by decide⟩
  · intro b; exact ⟨rfl, rfl, rfl, rfl, rfl⟩
  · intro b
    show b + 0 = b ∧ b + 0 + 1 = b + 1 ∧ b + 1 + 1 = b + 2 ∧ b + 2 + 16 * 8 = b + 130 ∧ b + 130 + 16 * 8 = b + 258
      ∧ b + 258 + 256 = b + 514
    omega

/-- EVERY ARRAY ACCESS PERFORMED BY THE EXECUTABLE DECODER MODELS IS WITHIN THE ARRAY, ON EVERY INPUT.
    (1) `lzmaDecode` (LZMA1 as used by the .lzma / .lz / raw decoders) for every VALID lc/lp/pb — `lzma_decoder_init`,
        `lzma_lzma_lclppb_decode` and the .lz header decoder refuse the others before a decoder exists —, every dictionary
        size, known or unknown uncompressed size, `allow_eopm`, input, preset dictionary and output limit;
    (2) `lzma2Decode` for every dictionary size, input, preset dictionary and output limit;
    (3) `rawDecode` (`lzma_raw_decoder` + one `lzma_code`) for every chain, incl. the initialisation errors;
    (4) an LZMA2 coder after ANY sequence of earlier `code` calls (any output slicing, whatever they returned);
    (5) any coder that `lzma_raw_decoder_init` produced, after any sequence of calls none of which returned
        LZMA_STREAM_END (what `lzma_code` / `lzma_raw_buffer_decode` can make):
    the checked function (partial accessors + per-MEMBER bounds of every probability access + C-level dictionary index
    tests, `none` = some access out of bounds of the model array, of its own C member array, or of the dictionary buffer)
    returns `some` of exactly the executable function's result. -/
theorem decoder_accesses_in_bounds :
    (∀ (props : Lzma.Props), props.valid = true → ∀ (dictSize : Nat) (uncompSize : Option Nat) (allowEopm : Bool)
        (input presetDict : List UInt8) (outCap : Nat),
        Lzma.lzmaDecodeC props dictSize uncompSize allowEopm input presetDict outCap
          = some (Lzma.lzmaDecode props dictSize uncompSize allowEopm input presetDict outCap))
    ∧ (∀ (dictSize : Nat) (input presetDict : List UInt8) (outCap : Nat),
        Lzma2.lzma2DecodeC dictSize input presetDict outCap = some (Lzma2.lzma2Decode dictSize input presetDict outCap))
    ∧ (∀ (ch : Lzma2.Chain) (input : List UInt8) (outCap : Nat),
        Lzma2.rawDecodeC ch input outCap = some (Lzma2.rawDecode ch input outCap))
    ∧ (∀ (dictSize : Nat) (preset : List UInt8) (input : ByteArray) (calls : List Nat) (cap : Nat),
        (calls.foldl (fun (c : Lzma2.Coder) cap => (c.code cap).2) (Lzma2.Coder.initLzma2 dictSize preset input)).codeC cap
          = some ((calls.foldl (fun (c : Lzma2.Coder) cap => (c.code cap).2) (Lzma2.Coder.initLzma2 dictSize preset input)).code cap))
    ∧ (∀ (last : Lzma2.LastFilter) (input : ByteArray) (c0 : Lzma2.Coder), last.init input = .ok c0 →
        ∀ (calls : List Nat), Lzma2.callsNoEnd c0 calls → ∀ cap,
        (calls.foldl (fun (c : Lzma2.Coder) cap => (c.code cap).2) c0).codeC cap
          = some ((calls.foldl (fun (c : Lzma2.Coder) cap => (c.code cap).2) c0).code cap)) :=
  ⟨fun props hv d u a i p c => Lzma2.lzmaDecode_checked props hv d u a i p c,
   fun d i p c => Lzma2.lzma2Decode_checked d i p c,
   fun ch i c => Lzma2.rawDecode_checked ch i c,
   fun d p i calls cap => Lzma2.lzma2_calls_checked d p i calls cap,
   fun last i c0 h calls hn cap => Lzma2.raw_calls_checked last i c0 h calls hn cap⟩

/-- the invariant behind (4): what holds of an LZMA2 coder between any two calls — `SInv` (rep registers / dictionary
    positions, Props/C03 `reps_invariant_lzma2`) and `A2` (probability array sized for the stored lc/lp/pb unless a
    properties byte is still to come before the next symbol; a pending SEQ_SHORTREP/SEQ_COPY exists only in SEQ_LZMA and has
    a valid distance; `dict.full ≤` bytes in the history; the stored lc/lp/pb valid) -/
theorem lzma2_access_invariant (dictSize : Nat) (preset : List UInt8) (input : ByteArray) (calls : List Nat) :
    (calls.foldl (fun (c : Lzma2.Coder) cap => (c.code cap).2) (Lzma2.Coder.initLzma2 dictSize preset input)).Acc2 :=
  Lzma2.Coder.acc2_calls calls _ (Lzma2.Coder.acc2_init dictSize preset input)

/-- non-vacuity of the instrumentation: outside the invariant the checked functions DO report `oob` — a probability read
    from the empty array of a fresh LZMA2 coder (no properties byte seen yet), `dict_get` on an empty dictionary, and a
    symbol decode from that fresh state (where the executable model silently reads the default 0). -/
example : (∃ s', Lzma.rcBitC Lzma.M_IS_MATCH 0 (Lzma2.initLzma2 4096 [] (ByteArray.mk #[])) = .error .oob s')
    ∧ Lzma.dictGetC (Lzma2.initLzma2 4096 [] (ByteArray.mk #[])) 0 = none
    ∧ (∃ s', Lzma.decodeSymbolC false (Lzma2.initLzma2 4096 [] (ByteArray.mk #[0, 0, 0, 0, 0, 0, 0, 0])) = .error .oob s') :=
  ⟨⟨_, rfl⟩, by decide, ⟨_, rfl⟩⟩

/-- … and the member test is live: after `lzma_decoder_reset` the flat index 192 is accepted as `is_rep[0]` but reported when it
    is meant as `is_match[12][0]` (inside the flat model array, outside the C member array) -/
example : (match Lzma.rcBitC Lzma.M_IS_MATCH Lzma.P_IS_REP
              ((Lzma2.initLzma2 4096 [] (ByteArray.mk #[])).resetLzma { lc := 0, lp := 0, pb := 0 }) with
           | .error .oob _ => true | _ => false) = true
    ∧ (match Lzma.rcBitC Lzma.M_IS_REP Lzma.P_IS_REP
              ((Lzma2.initLzma2 4096 [] (ByteArray.mk #[])).resetLzma { lc := 0, lp := 0, pb := 0 }) with
           | .ok _ _ => true | _ => false) = true := by
  decide +kernel

/-- … and the checked whole-input functions do run: the LZMA2 end marker alone; one uncompressed chunk -/
example : Lzma2.lzma2DecodeC 4096 [0x00] = some { ret := .streamEnd, out := [], consumed := 1 }
    ∧ Lzma2.lzma2DecodeC 4096 [0x01, 0x00, 0x01, 0x41, 0x42, 0x00] = some { ret := .streamEnd, out := [0x41, 0x42], consumed := 6 } := by
  decide +kernel

/-! ## VLI, Block Header, Index -/

/-- `lzma_vli_decode`: at most LZMA_VLI_BYTES_MAX = 9 bytes are used and the value never exceeds LZMA_VLI_MAX = 2^63 - 1
    (single-call form); in the multi-call loop the value always fits in `7 · vli_pos` bits with `vli_pos ≤ 9`, so no
    shift reaches 64 bits and bit 63 is never set. -/
theorem vli_no_overflow :
    (∀ (b r : List UInt8) (v : Nat), Vli.vliDecode b = some (v, r) →
        v ≤ Gen.C04.LZMA_VLI_MAX ∧ r.length + 1 ≤ b.length ∧ b.length ≤ r.length + Gen.C04.LZMA_VLI_BYTES_MAX)
    ∧ (∀ (inp : List UInt8) (vli pos used : Nat), pos < Gen.C04.LZMA_VLI_BYTES_MAX → vli < 2 ^ (7 * pos) →
        (Vli.vliDecLoop inp vli pos used).2.1 ≤ Gen.C04.LZMA_VLI_MAX
        ∧ (Vli.vliDecLoop inp vli pos used).2.2.1 ≤ Gen.C04.LZMA_VLI_BYTES_MAX
        ∧ (Vli.vliDecLoop inp vli pos used).2.2.2 ≤ used + inp.length) := by
  constructor
  · intro b r v h
    have := vliDecodeAux_bound b 0 v r h (by omega)
    simp only [Gen.C04.LZMA_VLI_MAX, Gen.C04.LZMA_VLI_BYTES_MAX]
    have e : (2 : Nat) ^ (7 * (9 - 0)) = 9223372036854775808 := by decide
    rw [e] at this
    omega
  · intro inp vli pos used hp hv
    obtain ⟨h1, h2, h3⟩ := vliDecLoop_bound inp vli pos used hp hv
    simp only [Gen.C04.LZMA_VLI_MAX, Gen.C04.LZMA_VLI_BYTES_MAX]
    refine ⟨?_, h2, h3⟩
    have : (2 : Nat) ^ (7 * (Vli.vliDecLoop inp vli pos used).2.2.1) ≤ 2 ^ 63 :=
      Nat.pow_le_pow_right (by omega) (by omega)
    have e : (2 : Nat) ^ 63 = 9223372036854775808 := by decide
    omega

/-- non-vacuity: the largest VLI takes nine bytes and is accepted; a tenth byte is refused -/
example : Vli.vliDecode [0xFF, 0xFF, 0xFF, 0xFF, 0xFF, 0xFF, 0xFF, 0xFF, 0x7F, 0x55] = some (9223372036854775807, [0x55]) := by decide
example : Vli.vliDecode [0xFF, 0xFF, 0xFF, 0xFF, 0xFF, 0xFF, 0xFF, 0xFF, 0xFF, 0x01] = none := by decide

/-- `lzma_block_header_size_decode(in[0])` for a Block (first byte ≠ 0x00) is a multiple of four in
    [LZMA_BLOCK_HEADER_SIZE_MIN, LZMA_BLOCK_HEADER_SIZE_MAX]; a successful `lzma_block_header_decode` implies exactly
    that size relation; and the decoder looks at no byte beyond `header_size`: appending anything to the header does
    not change the result. -/
theorem block_header_size_bounds :
    (∀ b0 : UInt8, b0 ≠ 0 →
        Gen.C04.LZMA_BLOCK_HEADER_SIZE_MIN ≤ (b0.toNat + 1) * 4 ∧ (b0.toNat + 1) * 4 ≤ Gen.C04.LZMA_BLOCK_HEADER_SIZE_MAX
        ∧ (b0.toNat + 1) * 4 % 4 = 0)
    ∧ (∀ (hs check : Nat) (b : List UInt8) (hdr : Container.BlockHeader), Container.blockHeaderDecodeWith hs check b = .ok hdr →
        hs = ((b.getD 0 0).toNat + 1) * 4 ∧ hs ≤ b.length ∧ hs ≤ Gen.C04.LZMA_BLOCK_HEADER_SIZE_MAX)
    ∧ (∀ (hs check : Nat) (b e : List UInt8), b.length = hs → 4 ≤ hs →
        Container.blockHeaderDecodeWith hs check (b ++ e) = Container.blockHeaderDecodeWith hs check b) := by
  refine ⟨?_, ?_, fun hs c b e hl h4 => blockHeader_no_overread hs c b e hl h4⟩
  · intro b0 h0
    have h1 : b0.toNat < 256 := UInt8.toNat_lt_size b0
    have h2 : b0.toNat ≠ 0 := fun h => h0 (by
      apply UInt8.toNat_inj.mp; simpa using h)
    simp only [Gen.C04.LZMA_BLOCK_HEADER_SIZE_MIN, Gen.C04.LZMA_BLOCK_HEADER_SIZE_MAX]
    omega
  · intro hs check b hdr h
    unfold Container.blockHeaderDecodeWith at h
    have hb : (b.getD 0 0).toNat < 256 := UInt8.toNat_lt_size _
    split at h
    · cases h
    · rename_i h1
      split at h
      · cases h
      · rename_i h2
        simp only [Gen.C04.LZMA_BLOCK_HEADER_SIZE_MAX]
        omega

/-- non-vacuity: the Block Header of tests/files/good-1-check-crc32.xz decodes -/
example : (Container.blockHeaderDecodeWith 12 1 [0x02, 0x00, 0x21, 0x01, 0x08, 0x00, 0x00, 0x00, 0xD8, 0x0F, 0x23, 0x13]).isOk = true := by
  decide +kernel

/-- Index decoder: the Number of Records is checked against the memory limit BEFORE anything depending on it is
    allocated: if `lzma_index_memusage(1, count) > memlimit` the result is LZMA_MEMLIMIT_ERROR with no index, whatever
    the index operations (`prealloc`, `append`) would do — the result does not mention them; conversely an index is
    only ever returned when the count passed the check. -/
theorem index_count_memlimit_before_alloc {σ : Type} (ops : Index.DecOps σ) (memlimit : Nat) (b0 : UInt8) (rest : List UInt8)
    (count u0 : Nat) (h0 : b0.toNat = 0) (hc : Index.vliDecodeGo rest 0 0 1 = .done count u0) :
    (Index.memusage 1 count > max 1 memlimit →
        Index.decodeG ops memlimit (b0 :: rest) = ⟨.memlimitError, u0, none, Index.memusage 1 count⟩)
    ∧ ((Index.decodeG ops memlimit (b0 :: rest)).index.isSome → Index.memusage 1 count ≤ max 1 memlimit) := by
  constructor
  · intro hm
    unfold Index.decodeG
    simp [h0, hc, hm]
  · intro hs
    by_contra hm
    have hm' : Index.memusage 1 count > max 1 memlimit := by omega
    unfold Index.decodeG at hs
    simp [h0, hc, hm'] at hs

/-- non-vacuity: an Index announcing 2^40 Records under a 1000-byte limit is refused at the count -/
example : (Index.decodeG Index.Spec.decOps 1000 [0, 0x80, 0x80, 0x80, 0x80, 0x80, 0x20, 5, 5]).ret = .memlimitError := by decide

/-! ## lzma_code: no-progress rule and return codes -/

open LzmaCode in
/-- If two consecutive `lzma_code` calls both reach the coder and the coder returns LZMA_OK without consuming or
    producing anything both times (e.g. the caller supplies no input and no output space), the SECOND call returns
    LZMA_BUF_ERROR. So a caller that stops supplying input/output is told so by the second call after the coder's
    last progress — never an endless LZMA_OK. (Coders never return LZMA_BUF_ERROR themselves; LZMA_TIMED_OUT of the
    threaded decoder is not an idle LZMA_OK and is the one documented exception, bounded by the timeout.) -/
theorem no_progress_finite (s : Stream) (c1 c2 : Call) (a1 a2 : InnerArgs) (r1 r2 : Resp)
    (hlaw : ∀ a, (c2.code a).ret ≠ LZMA_BUF_ERROR)
    (h1 : (step s c1).called = some (a1, r1)) (hidle1 : r1.idle = true)
    (h2 : (step (step s c1).strm c2).called = some (a2, r2)) (hidle2 : r2.idle = true) :
    (step (step s c1).strm c2).ret = Gen.C04.retBUF_ERROR := by
  obtain ⟨i1, _, _, _, _, _, _, _, heq1⟩ := lzmaCode_called h1
  obtain ⟨i2, hi2, _, _, ha2, hsw2, _, _, _⟩ := lzmaCode_called h2
  have hint : (step s c1).strm.internal
      = some (classify { i1 with sequence := seqOfAction c1.action, availIn := (advance (c1.apply s) r1).availIn } r1).1 := by
    unfold step; rw [heq1]
  rw [apply_internal, hint] at hi2
  have hi2' := Option.some.inj hi2
  have hne := (seqSwitch_ok_seq ha2 hsw2).1
  have habe : i2.allowBufError = true := by
    rcases classify_abe { i1 with sequence := seqOfAction c1.action, availIn := (advance (c1.apply s) r1).availIn } r1 with h | h
    · rw [hi2'] at h; exact absurd h hne
    · rw [hi2'] at h; rw [h]; exact hidle1
  show (lzmaCode c2.code (c2.apply (step s c1).strm) c2.action).ret = LZMA_BUF_ERROR
  rw [lzmaCode_buf_error_iff c2.code _ c2.action (hlaw _)]
  exact ⟨i2, a2, r2, by rw [apply_internal, hint, hi2'], h2, hidle2, habe⟩

open LzmaCode in
/-- non-vacuity: a coder that idles, called twice without input or output space: LZMA_OK, then LZMA_BUF_ERROR -/
example :
    let i : Internal := { hasCode := true, sequence := .run, availIn := 0, supported := 9, allowBufError := false }
    let s : Stream := { nextIn := none, availIn := 0, totalIn := 0, nextOut := none, availOut := 0, totalOut := 0,
                        reserved := {}, internal := some i }
    let c : Call := { action := 0, nextIn := none, availIn := 0, nextOut := none, availOut := 0,
                      code := fun _ => ⟨0, 0, LZMA_OK⟩ }
    (step s c).ret = LZMA_OK ∧ (step (step s c).strm c).ret = LZMA_BUF_ERROR
    ∧ (∃ a r, (step s c).called = some (a, r) ∧ r.idle = true) := by
  refine ⟨by decide, by decide, ⟨_, _, rfl, by decide⟩⟩

open LzmaCode in
/-- Every value `lzma_code` returns is one of the documented `lzma_ret` codes 0..12 (LZMA_OK … LZMA_SEEK_NEEDED),
    provided the coder behind it returns documented codes or LZMA_TIMED_OUT; in particular LZMA_TIMED_OUT
    (= LZMA_RET_INTERNAL1) never escapes. -/
theorem ret_is_documented (code : InnerArgs → Resp) (strm : Stream) (action : Nat)
    (hcoder : ∀ a, (code a).ret ≤ Gen.C04.retSEEK_NEEDED ∨ (code a).ret = Gen.C04.retTIMED_OUT) :
    (lzmaCode code strm action).ret ≤ Gen.C04.retSEEK_NEEDED
    ∧ (lzmaCode code strm action).ret ≠ Gen.C04.retINTERNAL1 := by
  have key : (lzmaCode code strm action).ret ≤ 12 := by
    cases hc : (lzmaCode code strm action).called with
    | none =>
      rcases lzmaCode_not_called_ret hc with h | h | h <;> rw [h] <;> decide
    | some ar =>
      obtain ⟨a, r⟩ := ar
      obtain ⟨i, _, _, _, _, _, _, hr, heq⟩ := lzmaCode_called hc
      rw [heq]
      exact classify_ret_documented _ r (by rw [hr]; exact hcoder a)
  simp only [Gen.C04.retSEEK_NEEDED, Gen.C04.retINTERNAL1]
  omega

/-! ## file_info: seek requests -/

/-- The `file_target_pos` arithmetic of the C code in isolation (local model of Model/C04Sym.lean; the statement on the
    executable file-info model is `seek_within_file_model` below): `file_target_pos` starts at `file_size` and each
    assignment to it is a guarded subtraction (the one addition of 12 directly undoes part of the subtraction before it),
    and both `seek_to_pos` call sites pass a value ≤ `file_target_pos`. -/
theorem seek_within_file (fileSize : Nat) (steps : List TargetStep) :
    ∀ t ∈ targetTrace fileSize steps, ∀ p ∈ seekTargets t, p ≤ fileSize := by
  intro t ht p hp
  have hle := targetTrace_le steps fileSize t ht
  unfold seekTargets at hp
  simp only [List.mem_append, List.mem_singleton] at hp
  rcases hp with hp | hp
  · unfold reverseSeek at hp
    split at hp
    · rename_i ts q hq
      split at hq
      · cases hq
      · simp only [Option.some.injEq, Prod.mk.injEq] at hq
        simp only [List.mem_singleton] at hp
        omega
    · simp at hp
  · omega

/-- `reverse_seek` of this file and of the file-info model of b-c13 (Model/FileInfo.lean) are the same arithmetic:
    the position handed to `seek_to_pos` is `tempStart = file_target_pos - temp_size`. -/
theorem reverse_seek_models_agree (st : Index.FI) :
    (match Index.reverseSeek st with
     | .ok st' => reverseSeek st.target = some (st'.tempSize, st'.tempStart) ∧ st'.target = st.target
     | .error _ => reverseSeek st.target = none) := by
  unfold Index.reverseSeek reverseSeek
  simp only [Index.STREAM_HEADER_SIZE, Index.TEMP_SIZE, C04Sym.STREAM_HEADER_SIZE, C04Sym.TEMP_SIZE]
  by_cases h : st.target < 2 * 12
  · simp [h]
  · simp only [h, if_false]
    trivial

/-- THE FULL STATEMENT ON THE FILE-INFO MODEL of b-c13 (`Index.fileInfo`, Model/FileInfo.lean — the function the C13 driver
    runs and compares with `lzma_file_info_decoder` on every check). `Index.fileInfoT` (Lemmas/FileInfoSeek.lean) is the same
    code with the `seek_to_pos()` call sites made visible — `reverse_seek` in SEQ_PADDING_SEEK / SEQ_PADDING_DECODE / before
    SEQ_HEADER_DECODE, and the seek to the start of the Index in SEQ_FOOTER — each request recorded as (position, number of
    bytes then read from there: `temp_size` for `fill_temp`, `backward_size` for the Index).
    For EVERY file content and memory limit: the traced decoder returns exactly what `fileInfo` returns, and every request
    satisfies `position + length ≤ file_size` — no seek outside the file, no read past its end. -/
theorem seek_within_file_model (memlimit : Nat) (file : Array UInt8) :
    (Index.fileInfoT memlimit file).1 = Index.fileInfo memlimit file
    ∧ ∀ q ∈ (Index.fileInfoT memlimit file).2, q.1 + q.2 ≤ file.size :=
  ⟨Index.fileInfoT_fst memlimit file, Index.fileInfoT_seeks memlimit file⟩

/-- the empty .xz file (`xz < /dev/null`, 32 bytes) -/
def emptyXz : Array UInt8 :=
  #[0xfd, 0x37, 0x7a, 0x58, 0x5a, 0x00, 0x00, 0x04, 0xe6, 0xd6, 0xb4, 0x46, 0x00, 0x00, 0x00, 0x00, 0x1c, 0xdf, 0x44, 0x21,
    0x1f, 0xb6, 0xf3, 0x7d, 0x01, 0x00, 0x00, 0x00, 0x00, 0x04, 0x59, 0x5a]

/-- non-vacuity: on the empty .xz file the decoder succeeds after ONE request — seek to 12, read the remaining 20 bytes
    (Index + Stream Footer); on two such Streams concatenated, seek to 12 and read 52 bytes -/
example : (Index.fileInfoT 1000000 emptyXz).2 = [(12, 20)] ∧ (Index.fileInfoT 1000000 emptyXz).1.1 = .streamEnd := by
  decide +kernel
example : (Index.fileInfoT 1000000 (emptyXz ++ emptyXz)).2 = [(12, 52)] := by decide +kernel

/-- non-vacuity: a two-Stream walk (padding, footer, index, blocks, header of the second Stream, then the first) -/
example : targetTrace 1000 [.padding 4 8, .footer, .index 24, .blocks 400, .headerBack, .headerDone, .footer, .index 24, .blocks 476]
    = [1000, 996, 984, 960, 548, 560, 548, 536, 512, 24] := by decide

/-! ## Termination -/

/-- The only loop of the filters without a syntactic bound, the inner `while (true)` of `x86_code()`, exits within two
    iterations for every operand and position, encoder and decoder, under the invariant the outer loop maintains
    (`prev_mask ∈ {0, 2, 4, 8}` and the byte a set mask bit points at is neither 0x00 nor 0xFF in the operand — that is
    what the bit records; Props/C15 `x86_mask_tracks`/`x86_mask_meaning`): more iterations ("fuel") never change the
    result. Word-level fact by `bv_decide` (Lemmas/BitWordsBcjX86.lean, b-c15). -/
theorem x86_inner_loop_terminates (enc : Bool) (pc5 mask src : BitVec 32) (fuel : Nat)
    (hm : mask = 0#32 ∨ mask = 2#32 ∨ mask = 4#32 ∨ mask = 8#32)
    (h3 : mask = 2#32 → Bcj.test86 (Bcj.u8 (src >>> 16)) = false)
    (h2 : mask = 4#32 → Bcj.test86 (Bcj.u8 (src >>> 8)) = false)
    (h1 : mask = 8#32 → Bcj.test86 (Bcj.u8 src) = false) :
    Bcj.x86Loop enc pc5 mask (fuel + 2) src = Bcj.x86Loop enc pc5 mask 2 src :=
  BitWords.x86_loop_two enc pc5 mask src fuel hm h3 h2 h1

/-- non-vacuity: an operand whose inspected byte (0x12) is not 00/FF -/
example : Bcj.x86Loop false 0x1005#32 2#32 7 0x00123456#32 = Bcj.x86Loop false 0x1005#32 2#32 2 0x00123456#32 :=
  x86_inner_loop_terminates false _ _ _ 5 (by decide) (by decide) (by decide) (by decide)

/-! ### no fuel is ever exhausted (audit finding F-03)

  Several decoder / parser models recurse on an explicit `fuel : Nat` with an out-of-fuel branch `| 0, … => v₀`; Lean's
  acceptance of such a definition says nothing about whether `v₀` ever surfaces. For each of them the theorem below shows
  that the out-of-fuel branch is never REACHED once the fuel exceeds a stated measure of the arguments, in particular with
  the amount the top-level caller supplies. Since `v₀` (`.progError` etc.) is also a legitimate result of other branches
  (e.g. of the abstract payload decoder), "result ≠ v₀" — the form Props/C03 `fuel_never_exhausted` proves for the raw
  LZMA1/LZMA2 decoders `symLoop` / `lzma2Loop` / `decodeBuffer` — is not available here; instead every loop `f` gets an
  Option-valued instrumented twin `f?` (same code; `none` on the `0` branch, propagated) and the theorem is

        measure(args) < fuel  →  f? fuel args = some (f fuel args)           and        f? (F(args)) args = some (top-level def.)

  for ALL inputs and all abstract parameters. (Fuel INDEPENDENCE, `f (fuel + k) args = f fuel args`, is kept as the companion
  theorems `decoder_fuel_independent` / `index_iterator_fuel_independent`; alone it would also be satisfied by a loop that
  stutters and runs out of every fuel.)
  The measures: a Block consumes ≥ 4 bytes, a Stream that lets the loop continue ≥ 12 bytes, an .lz member ≥ 18 bytes, an
  Index Record ≥ 1 byte; `lzma_vli_size` shifts by 7 bits; the file-info decoder's `file_target_pos` strictly decreases
  from one Stream to the next (measure `fiMeasure`).

  STRUCTURALLY recursive decoders / parsers (no fuel at all; accepted by Lean's structural termination check, so they
  return for every input by construction): `XzDecode.padCheck` (on the padding count), `XzDecode.matchBytes` (expected
  bytes), `XzDecode.indexRecords` (Records still to read), `XzDecode.streamPadding` (input), `Vli.vliDecodeAux` =
  `vliDecode` and `Vli.vliDecLoop` (input; `vliDecodeMulti` is not recursive), `Index.vliDecodeGo` (input),
  `Index.matchBytes`, `Index.decodeRecords` (Record count; `Index.decodeG` is not recursive), `Index.trailingZeros`,
  `Index.HashSt.records`, `Container.headerDecodeFilters` (Number of Filters), `Container.validateChainLoop`,
  `Container.indexAppendAll`, `Lzip.idString`, `XzConcat.leadingZeros`; `XzDecode.blockDecode`, `indexHashDecode`,
  `indexAndFooter`, `streamOne`, `Alone.aloneDecode`, `Auto.autoDecode`, `Container.blockHeaderDecode`,
  `Container.filterFlagsDecode`, `LzmaCode.lzmaCode` are not recursive. The full table with file:line, and the fuel results
  for the models of other properties (`Memlimit.*` of C09, `XzStruct.walkChunks/validateBlocks` of C02), is the header of
  Lemmas/C04Fuel.lean. The x86 BCJ loop is `x86_inner_loop_terminates` above; the check's stage P additionally refuses any
  `partial def` in the imported models. -/

/-- THE OUT-OF-FUEL BRANCH OF THE CONTAINER, INDEX AND VLI DECODER MODELS IS NEVER REACHED, for every input (direct form, audit
    S-3). For each fuelled loop `f`, `f?` is its instrumented twin (Lemmas/C04FuelReach*.lean): the same code with the `0`
    branch returning `none` and `none` propagated through every recursive call, so `f? fuel x = none` iff evaluating
    `f fuel x` reaches the out-of-fuel branch. With more fuel than the stated measure — in particular with the amount each
    top-level caller supplies — the twin returns `some` of exactly the model's result:
    `.xz` Blocks of a Stream (`blocksLoop`; fuel from `streamOne`), Streams of a file (`xzLoop`; `xzCall`), the concatenation
    machine of C16 (`XzConcat.xzLoop`, for every one-Stream decoder that consumes something when it succeeds — which
    `XzDecode.streamOne` does), `.lz` members (`lzipLoop`), the file-info Stream loop (`Index.streamLoop`; `fileInfo`),
    `lzma_vli_size` of IndexSpec (`vliSizeGo`, 10 units).
    TWO LOOPS DO REACH THEIR `0` BRANCH WITH THE FUEL THEIR CALLER SUPPLIES, and the statement says so: `Vli.vliSizeAux` (8 units:
    for a 9-byte VLI the `0` branch is the base case that counts the last byte) and `Container.indexDecodeRecords` (`r1.length`
    units: on an EMPTY remaining input with Records still owed the `0` branch gives the LZMA_DATA_ERROR that `vliDecode []`
    gives one line later). For them: with ONE MORE unit the branch is never reached and the result is the model's. -/
theorem decoder_fuel_never_exhausted :
    (∀ (E : XzDecode.Env) (fl : XzDecode.Flags) (hdr : Container.StreamFlags) (fuel : Nat) (blocks : XzDecode.HashInfo)
        (inp : List UInt8) (outCap : Nat), inp.length < fuel →
        XzDecode.blocksLoop? E fl hdr fuel blocks inp outCap = some (XzDecode.blocksLoop E fl hdr fuel blocks inp outCap))
    ∧ (∀ (E : XzDecode.Env) (fl : XzDecode.Flags) (hdr : Container.StreamFlags) (inp : List UInt8) (outCap : Nat),
        XzDecode.blocksLoop? E fl hdr (inp.length + 1) [] (inp.drop Container.STREAM_HEADER_SIZE) outCap
          = some (XzDecode.blocksLoop E fl hdr (inp.length + 1) [] (inp.drop Container.STREAM_HEADER_SIZE) outCap))
    ∧ (∀ (E : XzDecode.Env) (fl : XzDecode.Flags) (fuel : Nat) (first : Bool) (inp : List UInt8) (outCap : Nat),
        inp.length < fuel → XzDecode.xzLoop? E fl fuel first inp outCap = some (XzDecode.xzLoop E fl fuel first inp outCap))
    ∧ (∀ (E : XzDecode.Env) (fl : XzDecode.Flags) (inp : List UInt8) (outCap : Nat),
        XzDecode.xzLoop? E fl (inp.length + 1) true inp outCap = some (XzDecode.xzCall E fl inp outCap))
    ∧ (∀ (X1 : XzConcat.One), XzConcat.Progress X1 → ∀ (cfg : XzConcat.Cfg) (inp : List UInt8),
        XzConcat.xzLoop? X1 cfg (inp.length + 1) true inp = some (XzConcat.xzDecode X1 cfg inp))
    ∧ (∀ (E : XzDecode.Env) (fl : XzDecode.Flags) (first : Bool) (outCap : Nat),
        XzConcat.Progress (fun inp => XzDecode.streamOne E fl first inp outCap))
    ∧ (∀ (P : Alone.Payload) (cfg : Lzip.Cfg) (inp : List UInt8),
        Lzip.lzipLoop? P cfg (inp.length + 1) true inp = some (Lzip.lzipDecode P cfg inp))
    ∧ (∀ (fuel count : Nat) (a : Container.IndexAcc) (b : List UInt8), b.length < fuel →
        Container.indexDecodeRecords? fuel count a b = some (Container.indexDecodeRecords fuel count a b))
    ∧ (∀ (count : Nat) (a : Container.IndexAcc) (r1 : List UInt8),
        Container.indexDecodeRecords? (r1.length + 1) count a r1 = some (Container.indexDecodeRecords r1.length count a r1))
    ∧ (∀ v : Nat, ¬ v > Vli.VLI_MAX → Vli.vliSizeAux? 9 v = some (Vli.vliSize v))
    ∧ (∀ v : Nat, ¬ v > Index.VLI_MAX → Index.vliSizeGo? 10 v 0 = some (Index.vliSize v))
    ∧ (∀ (file : Array UInt8) (ml fc fuel : Nat) (ns : Bool) (st : Index.FI), Index.fiMeasure ns st < fuel →
        Index.streamLoop? file ml fc fuel ns st = some (Index.streamLoop file ml fc fuel ns st))
    ∧ (∀ (file : Array UInt8) (ml fc : Nat),
        Index.streamLoop? file ml fc (file.size + 2) true
            { target := file.size, tempStart := 0, tempPos := 0, tempSize := 0, streamPadding := 0, combined := none }
          = some (Index.streamLoop file ml fc (file.size + 2) true
            { target := file.size, tempStart := 0, tempPos := 0, tempSize := 0, streamPadding := 0, combined := none })) :=
  ⟨XzDecode.blocksLoop_reach, XzDecode.streamOne_reach, XzDecode.xzLoop_reach, XzDecode.xzCall_reach,
   fun X1 hX cfg inp => XzConcat.xzDecode_reach X1 hX cfg inp, XzConcat.streamOne_progress,
   Lzip.lzipDecode_reach, Container.indexDecodeRecords_reach, Container.indexDecode_reach, Vli.vliSize_reach,
   Index.vliSize_reach, fun file ml fc => Index.streamLoop_reach file ml fc, Index.fileInfo_reach⟩

/-- … and neither is that of the fuelled loops of the Index iterator / locate models (property C13's models; `Inv` is C13's
    well-formedness invariant of `lzma_index`, preserved by every operation: Props/C13), with the fuel their callers supply:
    the listing loop (`iterAllGo`, `iterFuel i` units: every unit spent yields a list item and a listing has fewer items than
    `iterFuel i`), the Stream search of the iterator in both models (`nextStreamFrom`, one unit per Stream + 1), the binary
    search of `lzma_index_iter_locate` (`bsearch`, the interval shrinks). -/
theorem index_iterator_fuel_never_exhausted :
    (∀ {i : Index.Impl.Index}, Index.Impl.Inv i → ∀ (mode : Nat),
        Index.Impl.iterAllGo? i mode (Index.Impl.iterFuel i) Index.Impl.Iter.rewind = some (Index.Impl.iterAll i mode))
    ∧ (∀ (i : Index.Impl.Index) (mode fuel : Nat) (it : Index.Impl.Iter), (Index.Impl.iterAllGo i mode fuel it).length < fuel →
        Index.Impl.iterAllGo? i mode fuel it = some (Index.Impl.iterAllGo i mode fuel it))
    ∧ (∀ {i : Index.Impl.Index}, Index.Impl.Inv i → ∀ (mode si : Nat),
        Index.Impl.nextStreamFrom? i mode (i.streams.count + 1) si = some (Index.Impl.nextStreamFrom i mode (i.streams.count + 1) si))
    ∧ (∀ (g : Index.Impl.Group) (t fuel left right : Nat), right - left < fuel →
        Index.Impl.bsearch? g t fuel left right = some (Index.Impl.bsearch g t fuel left right))
    ∧ (∀ (g : Index.Impl.Group) (t : Nat),
        Index.Impl.bsearch? g t (g.records.size + 1) 0 g.last = some (Index.Impl.bsearch g t (g.records.size + 1) 0 g.last))
    ∧ (∀ (i : Index.Index) (mode fuel si : Nat), i.length - si < fuel →
        Index.Spec.nextStreamFrom? i mode fuel si = some (Index.Spec.nextStreamFrom i mode fuel si))
    ∧ (∀ (i : Index.Index) (mode si : Nat),
        Index.Spec.nextStreamFrom? i mode (i.length + 1) si = some (Index.Spec.nextStreamFrom i mode (i.length + 1) si)) :=
  ⟨fun hi mode => Index.Impl.iterAll_reach hi mode, Index.Impl.iterAllGo_reach_of_length,
   fun hi mode si => Index.Impl.nextStreamFrom_reach hi mode si, Index.Impl.bsearch_reach, Index.Impl.iterLocate_reach,
   Index.Spec.nextStreamFrom_reach, Index.Spec.advance_reach⟩

/-- COMPANION (fuel independence; by itself it would also hold for a loop that stutters — audit S-3 — which is why
    `decoder_fuel_never_exhausted` above states the direct form). From the supplied amount upward the result does not depend on the fuel:
    `.xz` — Blocks of a Stream (`blocksLoop`, fuel from `streamOne`), Streams of a file (`xzLoop`, fuel from `xzCall`),
    hence `xzCall` / `xzDecode` / `xzBufferDecode`; the concatenation machine of C16 (`XzConcat.xzLoop`, for every
    one-Stream decoder that consumes something when it succeeds — which `XzDecode.streamOne` does); `.lz` members
    (`lzipLoop`); the Records loop of the Index decoder (`Container.indexDecodeRecords`); `lzma_vli_size` in both models;
    the Stream loop of the file-info decoder (`Index.streamLoop`, fuel from `Index.fileInfo`). -/
theorem decoder_fuel_independent :
    (∀ (E : XzDecode.Env) (fl : XzDecode.Flags) (hdr : Container.StreamFlags) (fuel : Nat) (blocks : XzDecode.HashInfo)
        (inp : List UInt8) (outCap : Nat), inp.length < fuel →
        ∀ k, XzDecode.blocksLoop E fl hdr (fuel + k) blocks inp outCap = XzDecode.blocksLoop E fl hdr fuel blocks inp outCap)
    ∧ (∀ (E : XzDecode.Env) (fl : XzDecode.Flags) (fuel : Nat) (first : Bool) (inp : List UInt8) (outCap : Nat),
        inp.length < fuel → ∀ k, XzDecode.xzLoop E fl (fuel + k) first inp outCap = XzDecode.xzLoop E fl fuel first inp outCap)
    ∧ (∀ (E : XzDecode.Env) (fl : XzDecode.Flags) (inp : List UInt8) (outCap k : Nat),
        XzDecode.xzLoop E fl (inp.length + 1 + k) true inp outCap = XzDecode.xzCall E fl inp outCap)
    ∧ (∀ (X1 : XzConcat.One), XzConcat.Progress X1 → ∀ (cfg : XzConcat.Cfg) (inp : List UInt8) (k : Nat),
        XzConcat.xzLoop X1 cfg (inp.length + 1 + k) true inp = XzConcat.xzDecode X1 cfg inp)
    ∧ (∀ (E : XzDecode.Env) (fl : XzDecode.Flags) (first : Bool) (outCap : Nat),
        XzConcat.Progress (fun inp => XzDecode.streamOne E fl first inp outCap))
    ∧ (∀ (P : Alone.Payload) (cfg : Lzip.Cfg) (inp : List UInt8) (k : Nat),
        Lzip.lzipLoop P cfg (inp.length + 1 + k) true inp = Lzip.lzipDecode P cfg inp)
    ∧ (∀ (count : Nat) (a : Container.IndexAcc) (r1 : List UInt8) (k : Nat),
        Container.indexDecodeRecords (r1.length + k) count a r1 = Container.indexDecodeRecords r1.length count a r1)
    ∧ (∀ v k : Nat, (if v > Vli.VLI_MAX then 0 else Vli.vliSizeAux (8 + k) v) = Vli.vliSize v)
    ∧ (∀ v k : Nat, (if v > Index.VLI_MAX then 0 else Index.vliSizeGo (10 + k) v 0) = Index.vliSize v)
    ∧ (∀ (file : Array UInt8) (ml fc k : Nat),
        Index.streamLoop file ml fc (file.size + 2 + k) true
            { target := file.size, tempStart := 0, tempPos := 0, tempSize := 0, streamPadding := 0, combined := none }
          = Index.streamLoop file ml fc (file.size + 2) true
            { target := file.size, tempStart := 0, tempPos := 0, tempSize := 0, streamPadding := 0, combined := none }) :=
  ⟨XzDecode.blocksLoop_fuel, XzDecode.xzLoop_fuel, XzDecode.xzCall_fuel,
   fun X1 hX cfg inp k => XzConcat.xzDecode_fuel X1 hX cfg inp k, XzConcat.streamOne_progress,
   Lzip.lzipDecode_fuel, Container.indexDecode_supplies_enough, Vli.vliSize_fuel, Index.vliSize_fuel,
   Index.fileInfo_supplies_enough⟩

/-- COMPANION (fuel independence) for the fuelled loops of the Index iterator / locate models (property C13's models; `Inv` is C13's
    well-formedness invariant of `lzma_index`, preserved by every operation: Props/C13): the listing loop with
    `iterFuel`, the Stream search, the binary search of `lzma_index_iter_locate`. -/
theorem index_iterator_fuel_independent :
    (∀ {i : Index.Impl.Index}, Index.Impl.Inv i → ∀ (mode k : Nat),
        Index.Impl.iterAllGo i mode (Index.Impl.iterFuel i + k) Index.Impl.Iter.rewind = Index.Impl.iterAll i mode)
    ∧ (∀ {i : Index.Impl.Index}, Index.Impl.Inv i → ∀ (mode si k : Nat),
        Index.Impl.nextStreamFrom i mode (i.streams.count + 1 + k) si = Index.Impl.nextStreamFrom i mode (i.streams.count + 1) si)
    ∧ (∀ (g : Index.Impl.Group) (t k : Nat),
        Index.Impl.bsearch g t (g.records.size + 1 + k) 0 g.last = Index.Impl.bsearch g t (g.records.size + 1) 0 g.last)
    ∧ (∀ (i : Index.Index) (mode si k : Nat),
        Index.Spec.nextStreamFrom i mode (i.length + 1 + k) si = Index.Spec.nextStreamFrom i mode (i.length + 1) si) :=
  ⟨fun hi mode k => Index.Impl.iterAll_supplies_enough hi mode k,
   fun hi mode si k => Index.Impl.nextStreamFrom_fuel hi mode si k,
   Index.Impl.iterLocate_supplies_enough, Index.Spec.advance_supplies_enough⟩

/-- an environment for the examples (the empty .xz file has no Block, so the payload decoder is never called) -/
def toyEnv : XzDecode.Env :=
  { payload := fun _ _ _ => { ret := .streamEnd, out := [], consumed := 0 }, checkSupported := fun _ => true, check := fun _ _ => [] }

/-- non-vacuity: with too little fuel the out-of-fuel value DOES surface (so the theorems above are about something): two
    concatenated empty .xz files need two units of `xzLoop` fuel; with one unit the result is the out-of-fuel LZMA_PROG_ERROR,
    with the amount `xzCall` supplies (65) it is LZMA_STREAM_END with all 64 bytes consumed -/
example : (XzDecode.xzLoop toyEnv { concatenated := true } 1 true (emptyXz ++ emptyXz).toList 0).ret = .progError
    ∧ (XzDecode.xzCall toyEnv { concatenated := true } (emptyXz ++ emptyXz).toList 0).ret = .streamEnd
    ∧ (XzDecode.xzCall toyEnv { concatenated := true } (emptyXz ++ emptyXz).toList 0).consumed = 64 := by
  decide +kernel

/-- … and the instrumented twins DO report a reached out-of-fuel branch: `xzLoop?` with one unit on two Streams; `vliSizeAux?`
    with the 8 units `vliSize` supplies on a 9-byte VLI (base case of the model), but not with 9; `indexDecodeRecords?` with
    `r1.length = 0` units on an empty input that still owes a Record, but not with one more -/
example : (XzDecode.xzLoop? toyEnv { concatenated := true } 1 true (emptyXz ++ emptyXz).toList 0).isNone = true
    ∧ (XzDecode.xzLoop? toyEnv { concatenated := true } 65 true (emptyXz ++ emptyXz).toList 0).isSome = true
    ∧ Vli.vliSizeAux? 8 (2 ^ 62) = none ∧ Vli.vliSizeAux? 9 (2 ^ 62) = some 9 ∧ Vli.vliSize (2 ^ 62) = 9
    ∧ (Container.indexDecodeRecords? 0 1 {} []).isNone = true ∧ (Container.indexDecodeRecords? 1 1 {} []).isSome = true := by
  decide +kernel

end XzVerif.C04
