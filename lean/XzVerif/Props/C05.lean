/-
  C05 — corruption and truncation are never reported as success with different data (container level).
-/
import XzVerif.Model.XzDecode

namespace XzVerif.C05
open XzVerif XzVerif.Container XzVerif.XzDecode

end XzVerif.C05
