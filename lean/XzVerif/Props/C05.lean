/-
  C05 — corruption and truncation are never reported as success with different data (container level).

  The model is Model/XzDecode.lean (whole-buffer .xz decoder mirroring stream_decoder.c / block_decoder.c / index_hash.c),
  parametric in the payload decoder and in the check function (`Env`), so every theorem below holds for the real
  LZMA2/BCJ/delta chain and for CRC32/CRC64/SHA-256 alike.  Grammar and stage lemmas: Lemmas/XzDecode.lean,
  Lemmas/XzDecodeStream.lean, Lemmas/XzFlip.lean, Lemmas/CrcFlip.lean; the .lz part rests on Lemmas/C16.lean (b-c16).
  A universal "any damage is detected" statement is false for every fixed-size check, so the theorems say exactly what
  acceptance implies and which damage is always caught.
-/
import XzVerif.Lemmas.XzDecodeStream
import XzVerif.Lemmas.XzFlip
import XzVerif.Lemmas.XzLocal
import XzVerif.Lemmas.XzFlipWhole
import XzVerif.Lemmas.C16
import XzVerif.Lemmas.XzStd
import XzVerif.Lemmas.XzConcatFlip
import XzVerif.Lemmas.CrcBurst
import XzVerif.Lemmas.XzDamage
import XzVerif.Props.C16

namespace XzVerif.C05
open XzVerif XzVerif.Container XzVerif.XzDecode XzVerif.CrcFlip

/-! ## What acceptance implies -/

/-- **accept_implies_checked.**  If `lzma_stream_decoder` + `lzma_code(LZMA_FINISH)` ends with LZMA_STREAM_END on `b`, then
    `b` has the structure `ValidXz` (Lemmas/XzDecodeStream.lean), i.e. for every Stream:
    * the Stream Header decodes (magic, CRC32, reserved bits) — `ValidStream`;
    * every Block (`BlocksRun.block`): its header decodes (CRC32, header padding zero, filter chain valid); the payload
      decoder finished; Compressed/Uncompressed Size fields, when present, equal the real sizes; Block Padding is zero;
      the stored Check equals `E.check` of the Block's output whenever the ID is supported and LZMA_IGNORE_CHECK is
      off (`BlockFacts`);
    * the Index field is byte for byte the canonical encoding of the (Unpadded Size, Uncompressed Size) pairs of the
      Blocks that were decoded: Records = Blocks, Index Padding zero, CRC32 right (`FooterFacts.index_bytes`);
      [the C code compares SHA-256 digests of the pairs; the model compares the lists — collision-freeness assumed];
    * the Stream Footer decodes (magic, CRC32), Backward Size = real size of the Index, footer flags = header flags;
    * Stream Padding (with LZMA_CONCATENATED) is a multiple of four zero bytes. -/
theorem accept_implies_checked (E : Env) (fl : Flags) (b : List UInt8) (cap : Nat) (r : DRes)
    (h : xzDecode E fl b cap = r) (hr : r.ret = .streamEnd) : ValidXz E fl b cap r.out r.consumed := by
  unfold xzDecode at h
  simp only [] at h
  split at h
  · subst h; simp at hr
  · subst h
    exact xzLoop_streamEnd E fl _ _ _ _ _ rfl hr

/-- The same for `lzma_stream_buffer_decode` (success is LZMA_OK there). -/
theorem accept_implies_checked_buffer (E : Env) (flags : Nat) (b : List UInt8) (cap : Nat) (r : DRes)
    (h : xzBufferDecode E flags b cap = r) (hr : r.ret = .ok) :
    ValidXz E (Flags.ofNat flags) b cap r.out r.consumed := by
  unfold xzBufferDecode at h
  split at h
  · subst h; simp at hr
  · split at h
    · subst h; simp at hr
    · simp only [] at h
      split at h
      · rename_i e _ hev
        subst h
        simp only [] at hr
        -- an informational return is never LZMA_OK
        have hin := xzLoop_events E (Flags.ofNat flags) (b.length + 1) true b cap e (by
          have : (xzCall E (Flags.ofNat flags) b cap).events = e :: _ := hev
          unfold xzCall at this
          rw [this]; simp)
        rcases hin with h1 | h1 | h1 <;> (rw [h1] at hr; simp at hr)
      · split at h
        · rename_i hse
          subst h
          exact xzLoop_streamEnd E _ _ _ _ _ (xzCall E (Flags.ofNat flags) b cap) rfl hse
        · split at h
          · subst h
            simp only [] at hr
            split at hr <;> simp at hr
          · rename_i h1 h2
            subst h
            exact absurd hr h2

/-- An accepted Block's stored Check is the check of exactly the bytes that were output (supported ID, no
    LZMA_IGNORE_CHECK): the link between "accepted" and "the data is what the Check was computed from". -/
theorem accepted_block_check (E : Env) (check hs : Nat) (h : BlockHeader) (inp : List UInt8) (cap : Nat)
    (hb : (blockDecode E check false hs h inp cap).ret = .streamEnd) (hc : check ≠ 0) (hsup : E.checkSupported check = true) :
    let b := blockDecode E check false hs h inp cap
    (inp.drop (b.compressed + blockPadLen b.compressed)).take (checkSize check) = E.check check b.out :=
  (blockDecode_streamEnd E check false hs h inp cap _ rfl hb).check_ok hc rfl hsup

/-! ## Damage inside Compressed Data -/

/-- **payload_damage_needs_collision** (Block level; Block Header with a Compressed Size field, as written by the threaded
    encoder and `lzma_block_buffer_encode`).  Two Blocks with the same header and the same bytes after the Compressed
    Data (Block Padding, Check, …) whose Compressed Data may differ arbitrarily: if both are accepted, either they decode
    to the same output or the two outputs are a collision of the integrity check. -/
theorem payload_damage_needs_collision (E : Env) (check hs : Nat) (h : BlockHeader) (c : Nat)
    (hcs : h.compressedSize = some c) (comp comp' tail : List UInt8) (cap : Nat)
    (hl : comp.length = c) (hl' : comp'.length = c)
    (hc : check ≠ 0) (hsup : E.checkSupported check = true)
    (hb : (blockDecode E check false hs h (comp ++ tail) cap).ret = .streamEnd)
    (hb' : (blockDecode E check false hs h (comp' ++ tail) cap).ret = .streamEnd) :
    let o := (blockDecode E check false hs h (comp ++ tail) cap).out
    let o' := (blockDecode E check false hs h (comp' ++ tail) cap).out
    o' = o ∨ (o' ≠ o ∧ E.check check o' = E.check check o) := by
  intro o o'
  have F := blockDecode_streamEnd E check false hs h _ cap _ rfl hb
  have F' := blockDecode_streamEnd E check false hs h _ cap _ rfl hb'
  have e1 := F.csize_field c hcs
  have e2 := F'.csize_field c hcs
  have k1 := F.check_ok hc rfl hsup
  have k2 := F'.check_ok hc rfl hsup
  rw [← e1] at k1
  rw [← e2] at k2
  have d1 : List.drop (c + blockPadLen c) (comp ++ tail) = List.drop (blockPadLen c) tail := by
    rw [← List.drop_drop, ← hl, List.drop_left']; rfl
  have d2 : List.drop (c + blockPadLen c) (comp' ++ tail) = List.drop (blockPadLen c) tail := by
    rw [← List.drop_drop, ← hl', List.drop_left']; rfl
  rw [d1] at k1
  rw [d2] at k2
  by_cases heq : o' = o
  · exact Or.inl heq
  · exact Or.inr ⟨heq, by rw [← k2, ← k1]⟩

/-- **payload_damage_needs_collision, whole file** (replaces the former `payload_damage_needs_collision_statement`, which was
    false as written: its mask was unconstrained, and without "the Stream is the whole file" a Block whose header has no
    Compressed Size can be overwritten IN PLACE by a shorter payload followed by its honest Check, an Index and a Stream Footer;
    the decoder then answers LZMA_STREAM_END with other data and `total_in < file size`, no collision involved).

    Corrected hypotheses:
    * `FileDamage E fl b b' cap hdr out` (Lemmas/XzDamage.lean): `b` is one declaratively valid Stream that fills the whole file
      and decodes to `out`; `b'` has the same Stream Header and equals `b` except that the Compressed Data of each Block of `b`
      is replaced by arbitrary bytes of the same length (`PayloadDamage` follows the parse of `b`: Block Header, Block Padding,
      Check of every Block and everything from the Index on are the same bytes);
    * no LZMA_CONCATENATED, no LZMA_IGNORE_CHECK, the Check is a supported one other than None;
    * `b'` is accepted and the decoder consumed all of it (`consumed = length`: what `xz -d` demands).
    Then `b` is accepted with output `out`, and `b'` decodes to the same `out` — or a Check collision TIED TO THE TWO FILES is
    exhibited: for some Block number `i`, Block `i` of `b` has Compressed Data `cB` decoding to `oB`, Block `i` of `b'` has
    Compressed Data `cB'` (same length) decoding to `oB'`, `oB ≠ oB'`, and the two outputs have the same Check value
    (`BlockAt E fl hdr inp cap i c o`, Lemmas/XzDamage.lean: Block `i` of the declarative walk from `inp` has Compressed Data `c`,
    `c` is what the payload decoder maps to `o`, and the Block's Check field equals `E.check id o`).  The disjunct is NOT the
    closed statement "some two byte strings collide" (true of every fixed-size Check): its witnesses are the outputs of the same
    Block of the two files.  (The unchanged footer pins the Index, the Index bytes determine the Records
    (`indexEncode_injective`), the Records pin every Block boundary, and each unchanged Check field relates the two outputs of its
    Block.) -/
theorem payload_damage_needs_collision_whole (E : Env) (hloc : PayloadLocal E) (hbd : PayloadBounded E) (fl : Flags)
    (hnc : fl.concatenated = false) (hign : fl.ignoreCheck = false) (b b' : List UInt8) (cap : Nat)
    (hdr : StreamFlags) (out : List UInt8) (hdmg : FileDamage E fl b b' cap hdr out)
    (hck : hdr.check ≠ 0) (hsup : E.checkSupported hdr.check = true)
    (hr' : (xzDecode E fl b' cap).ret = .streamEnd) (hall' : (xzDecode E fl b' cap).consumed = b'.length) :
    ((xzDecode E fl b cap).ret = .streamEnd ∧ (xzDecode E fl b cap).out = out ∧ (xzDecode E fl b cap).consumed = b.length)
    ∧ ((xzDecode E fl b' cap).out = out
        ∨ ∃ (i : Nat) (cB cB' oB oB' : List UInt8),
            BlockAt E fl hdr (b.drop STREAM_HEADER_SIZE) cap i cB oB ∧
            BlockAt E fl hdr (b'.drop STREAM_HEADER_SIZE) cap i cB' oB' ∧
            cB.length = cB'.length ∧ oB ≠ oB' ∧ E.check hdr.check oB = E.check hdr.check oB') :=
  payload_damage_tethered E hloc hbd fl hnc hign b b' cap hdr out hdmg hck hsup hr' hall'

/-! ## Single-bit damage outside Compressed Data -/

/-- **crc32_single_bit**: CRC32 detects every single-bit error (any message, any bit, any initial value). -/
theorem crc32_single_bit (m : List UInt8) (i : Nat) (hi : i < 8 * m.length) (init : BitVec 32) :
    Crc.crc32Ref (flipBit m i) init ≠ Crc.crc32Ref m init := crc32Ref_flip_ne m i hi init

/-- CRC64 detects every single-bit error. -/
theorem crc64_single_bit (m : List UInt8) (i : Nat) (hi : i < 8 * m.length) (init : BitVec 64) :
    Crc.crc64Ref (flipBit m i) init ≠ Crc.crc64Ref m init := crc64Ref_flip_ne m i hi init

/-- **crc32_burst_detected**: CRC32 detects every error burst confined to 32 consecutive bits.  The two messages differ only
    inside the window `x`/`y`; the bytewise xor of the windows, read as a little-endian number, is the error pattern `E < 2^32`
    shifted by `p` bit positions (bit order = the order in which the reflected CRC consumes the bits: LSB of each byte first).
    (A burst of length ≤ 32 is x^p·e(x) with deg e < 32; it cannot be a multiple of the degree-32 polynomial.) -/
theorem crc32_burst_detected (a t x y : List UInt8) (hlen : x.length = y.length) (p E : Nat) (hE0 : E ≠ 0) (hE : E < 2 ^ 32)
    (hxor : Crc.leN (List.zipWith (· ^^^ ·) x y) = 2 ^ p * E) (init : BitVec 32) :
    Crc.crc32Ref (a ++ x ++ t) init ≠ Crc.crc32Ref (a ++ y ++ t) init :=
  Crc.crc32_burst a t x y hlen p E hE0 hE hxor init

/-- CRC64 detects every error burst confined to 64 consecutive bits. -/
theorem crc64_burst_detected (a t x y : List UInt8) (hlen : x.length = y.length) (p E : Nat) (hE0 : E ≠ 0) (hE : E < 2 ^ 64)
    (hxor : Crc.leN (List.zipWith (· ^^^ ·) x y) = 2 ^ p * E) (init : BitVec 64) :
    Crc.crc64Ref (a ++ x ++ t) init ≠ Crc.crc64Ref (a ++ y ++ t) init :=
  Crc.crc64_burst a t x y hlen p E hE0 hE hxor init

/-- Positional form: two different messages of equal length that agree outside the five bytes starting at byte `s / 8`, the
    difference inside that window being a pattern of at most 32 bits starting at bit `s`, have different CRC32s. -/
theorem crc32_burst_detected_at (m m' : List UInt8) (hlen : m.length = m'.length) (hne : m ≠ m') (s E : Nat) (hE : E < 2 ^ 32)
    (hout : ∀ i, (i < s / 8 ∨ s / 8 + 5 ≤ i) → m[i]? = m'[i]?)
    (hwin : Crc.leN (List.zipWith (· ^^^ ·) ((m.drop (s / 8)).take 5) ((m'.drop (s / 8)).take 5)) = 2 ^ (s % 8) * E)
    (init : BitVec 32) : Crc.crc32Ref m init ≠ Crc.crc32Ref m' init :=
  Crc.crc32_burst_at' m m' hlen hne s E hE hout hwin init

/-- a 3-bit burst across a byte boundary (bits 15..16 of a 4-byte message): the hypotheses are satisfiable -/
example : Crc.crc32Ref [0x11, 0x22, 0x33, 0x44] 0 ≠ Crc.crc32Ref [0x11, 0xA2, 0x32, 0x44] 0 :=
  crc32_burst_detected [0x11] [0x44] [0x22, 0x33] [0xA2, 0x32] rfl 7 3 (by decide) (by decide) (by decide +kernel) 0

/-- **header_bitflip_rejected (Stream Header, whole file).**  If the Stream Header of `b` is valid, flipping any one of
    its 96 bits makes `lzma_stream_decoder` (any flags) reject the file. -/
theorem stream_header_bitflip_rejected (E : Env) (fl : Flags) (b : List UInt8) (cap : Nat) (hdr : StreamFlags)
    (hok : streamHeaderDecode (b.take STREAM_HEADER_SIZE) = .ok hdr) (i : Nat) (hi : i < 96) :
    (xzDecode E fl (flipBit b i) cap).ret ≠ .streamEnd := by
  obtain ⟨e, he⟩ := streamHeaderDecode_flip _ hdr hok i hi
  have hs : (streamOne E fl true (flipBit b i) cap).ret ≠ .streamEnd := by
    unfold streamOne
    split
    · simp
    · rw [flipBit_take, he]
      simp only []
      split
      · simp
      · exact streamHeaderDecode_error_ne _ _ he
  exact xzDecode_ne_of_streamOne E fl _ cap hs

/-- Stream Footer: every single-bit flip is rejected by the footer decoder (magic, or CRC32 over Backward Size and flags). -/
theorem stream_footer_bitflip_rejected (x : List UInt8) (r : StreamFlags × Nat) (hok : streamFooterDecode x = .ok r)
    (i : Nat) (hi : i < 96) : ∃ e, streamFooterDecode (flipBit x i) = .error e := streamFooterDecode_flip x r hok i hi

/-- Block Header: every single-bit flip except in the Block Header Size byte gives LZMA_DATA_ERROR (CRC32). -/
theorem block_header_bitflip_rejected (hs check : Nat) (b : List UInt8) (h : BlockHeader)
    (hok : blockHeaderDecodeWith hs check b = .ok h) (i : Nat) (hlo : 8 ≤ i) (hhi : i < 8 * hs) :
    blockHeaderDecodeWith hs check (flipBit b i) = .error .dataError := blockHeaderDecodeWith_flip hs check b h hok i hlo hhi

/-- Index: an accepted Index field with any one bit flipped is rejected (for the same Blocks). -/
theorem index_bitflip_rejected (blocks : HashInfo) (inp : List UInt8) (ic : Nat)
    (h : indexHashDecode blocks inp = ⟨.streamEnd, ic⟩) (i : Nat) (hi : i < 8 * ic) :
    (indexHashDecode blocks (flipBit inp i)).ret ≠ .streamEnd := indexHashDecode_flip blocks inp ic h i hi

/-- Block Padding and Check field (Check ID None or supported, no LZMA_IGNORE_CHECK): an accepted Block with one bit
    flipped anywhere after its Compressed Data is rejected.  `PayloadLocal`: the raw decoder's verdict depends only on
    the bytes it consumed. -/
theorem block_tail_bitflip_rejected (E : Env) (hloc : PayloadLocal E) (check hs : Nat) (h : BlockHeader)
    (inp : List UInt8) (cap : Nat) (hb : (blockDecode E check false hs h inp cap).ret = .streamEnd)
    (hsup : check ≠ 0 → E.checkSupported check = true)
    (hwf : (blockDecode E check false hs h inp cap).compressed
      ≤ (inp.take (min inp.length (compressedLimit hs check h.compressedSize))).length)
    (i : Nat) (hlo : 8 * (blockDecode E check false hs h inp cap).compressed ≤ i)
    (hhi : i < 8 * (blockDecode E check false hs h inp cap).consumed) :
    (blockDecode E check false hs h (flipBit inp i) cap).ret ≠ .streamEnd :=
  blockDecode_tail_flip E hloc check hs h inp cap _ rfl hb hsup hwf i hlo hhi

/-- **header_bitflip_rejected (Index and Stream Footer, whole file).**  Without LZMA_CONCATENATED: an accepted file ends
    with an Index field (canonical encoding of the decoded Blocks, `12 + c` bytes into the Stream) and the Stream Footer;
    flipping any one bit of either — except in the Index Indicator byte — makes the decoder reject the file. -/
theorem index_footer_bitflip_rejected (E : Env) (hloc : PayloadLocal E) (hbd : PayloadBounded E) (fl : Flags)
    (hnc : fl.concatenated = false) (b : List UInt8) (cap : Nat) (hr : (xzDecode E fl b cap).ret = .streamEnd) :
    ∃ (c : Nat) (final : HashInfo),
      (xzDecode E fl b cap).consumed = STREAM_HEADER_SIZE + c + indexHashSize final + STREAM_HEADER_SIZE ∧
      (b.drop (STREAM_HEADER_SIZE + c)).take (indexHashSize final) = indexEncode final ∧
      ∀ (i : Nat), 8 * (STREAM_HEADER_SIZE + c + 1) ≤ i → i < 8 * (xzDecode E fl b cap).consumed →
        (xzDecode E fl (flipBit b i) cap).ret ≠ .streamEnd := by
  have e1 := xzDecode_single E fl hnc b cap hr
  rw [e1] at hr ⊢
  obtain ⟨c, final, h1, h2, h3⟩ := streamOne_index_footer_flip E hloc hbd fl true b cap hr
  exact ⟨c, final, h1, h2, fun i hlo hhi => xzDecode_ne_of_streamOne E fl _ cap (h3 i hlo hhi)⟩

/-- **header_bitflip_rejected (Block Header, Block Padding, Check — whole file).**  Without LZMA_CONCATENATED and
    LZMA_IGNORE_CHECK, Check ID None or supported: flipping one protected bit (`ProtectedBit`: any Block Header bit
    except the Block Header Size byte, any Block Padding bit, any Check bit) of any Block of an accepted file makes the
    decoder reject the file.  `j` counts bits from the end of the Stream Header. -/
theorem block_fields_bitflip_rejected (E : Env) (hloc : PayloadLocal E) (hbd : PayloadBounded E) (fl : Flags)
    (hnc : fl.concatenated = false) (hign : fl.ignoreCheck = false) (b : List UInt8) (cap : Nat)
    (hr : (xzDecode E fl b cap).ret = .streamEnd)
    (hsup : ∀ hdr, streamHeaderDecode (b.take STREAM_HEADER_SIZE) = .ok hdr → hdr.check ≠ 0 → E.checkSupported hdr.check = true) :
    ∃ (hdr : StreamFlags) (c : Nat) (final : HashInfo),
      streamHeaderDecode (b.take STREAM_HEADER_SIZE) = .ok hdr ∧
      BlocksRun E fl hdr [] (b.drop STREAM_HEADER_SIZE) cap (xzDecode E fl b cap).out c final ∧
      ∀ (j : Nat), ProtectedBit E fl hdr (b.drop STREAM_HEADER_SIZE) cap j → j < 8 * c →
        (xzDecode E fl (flipBit b (8 * STREAM_HEADER_SIZE + j)) cap).ret ≠ .streamEnd := by
  have e1 := xzDecode_single E fl hnc b cap hr
  rw [e1] at hr ⊢
  obtain ⟨hdr, c, final, h1, h2, h3⟩ := streamOne_blocks_flip E hloc hbd fl hign true b cap hr hsup
  exact ⟨hdr, c, final, h1, h2, fun j hp hj => xzDecode_ne_of_streamOne E fl _ cap (h3 j hp hj)⟩

/-- The whole-file form: every single-bit flip in Stream Header, Block Header, Block Padding, Check (supported ID, no
    LZMA_IGNORE_CHECK), Index, Stream Footer or (LZMA_CONCATENATED) Stream Padding of an accepted file is rejected.
    Proved for the whole file, without LZMA_CONCATENATED: Stream Header (`stream_header_bitflip_rejected`), every Block's
    header / padding / Check (`block_fields_bitflip_rejected`), Index and Stream Footer (`index_footer_bitflip_rejected`).
    The Streams after the first and Stream Padding under LZMA_CONCATENATED: `header_bitflip_rejected_partial` below.
    Not covered by a theorem — and the reason why this universally quantified form (any mask) stays a `def`: the two kinds of
    byte whose flip changes the parse instead of failing a CRC — the Block Header Size byte and the Index Indicator — for
    which rejection is not a theorem of the format (a CRC32 coincidence would have to be excluded).  The correspondence run
    checks all of them exhaustively on the real decoder (`per_field_bitflips` in the evidence). -/
def header_bitflip_rejected_statement : Prop :=
  ∀ (E : Env) (fl : Flags) (b : List UInt8) (cap : Nat) (payloadMask : List Bool) (i : Nat),
    PayloadLocal E → fl.ignoreCheck = false → (xzDecode E fl b cap).ret = .streamEnd →
    i < 8 * (xzDecode E fl b cap).consumed → payloadMask.getD (i / 8) false = false →
    (xzDecode E fl (flipBit b i) cap).ret ≠ .streamEnd

/-! ## Truncation -/

/-- **Acceptance is local** (Lemmas/XzLocal.lean): an accepted Stream is accepted with the same output and length inside
    any input that agrees with it on the consumed bytes — in particular with anything appended. -/
theorem accepted_stream_extends (E : Env) (hloc : PayloadLocal E) (hbd : PayloadBounded E) (fl : Flags) (first : Bool)
    (p t : List UInt8) (cap : Nat) (h : (streamOne E fl first p cap).ret = .streamEnd) :
    streamOne E fl first (p ++ t) cap = streamOne E fl first p cap := by
  obtain ⟨_, _, _, _, _, _, _, _, _, hle⟩ := streamOne_streamEnd E fl first p cap _ rfl h
  apply streamOne_local E hloc hbd fl first p (p ++ t) cap h
  rw [List.take_append_of_le_length hle]

/-- **prefix_free / truncation_is_never_stream_end.**  Without LZMA_CONCATENATED: if `b` is accepted and its Stream is `n`
    bytes long, then no proper prefix of those `n` bytes is accepted — a file cut short inside the Stream is never
    reported as complete.  Hypotheses on the (abstract) payload decoder: its verdict depends only on the bytes it
    consumed (`PayloadLocal`) and it does not claim more bytes than it was given (`PayloadBounded`). -/
theorem prefix_free (E : Env) (hloc : PayloadLocal E) (hbd : PayloadBounded E) (fl : Flags) (hnc : fl.concatenated = false)
    (b p : List UInt8) (cap : Nat) (hr : (xzDecode E fl b cap).ret = .streamEnd)
    (hp : p <+: b) (hlt : p.length < (xzDecode E fl b cap).consumed) :
    (xzDecode E fl p cap).ret ≠ .streamEnd := by
  intro hc
  obtain ⟨t, ht⟩ := hp
  have e1 := xzDecode_single E fl hnc b cap hr
  have e2 := xzDecode_single E fl hnc p cap hc
  rw [e1] at hlt
  rw [e2] at hc
  have hx := accepted_stream_extends E hloc hbd fl true p t cap hc
  rw [ht] at hx
  rw [hx] at hlt
  obtain ⟨_, _, _, _, _, _, _, _, _, hle⟩ := streamOne_streamEnd E fl true p cap _ rfl hc
  omega

/-- The same through `lzma_code`: a proper prefix of an accepted Stream ends in an error code, and (this is the part
    that is a theorem about the wrapper) never in LZMA_OK/LZMA_STREAM_END: `xzDecode` maps "wants more input" to
    LZMA_BUF_ERROR. -/
theorem truncation_is_never_stream_end (E : Env) (hloc : PayloadLocal E) (hbd : PayloadBounded E) (fl : Flags)
    (hnc : fl.concatenated = false) (b : List UInt8) (cap : Nat) (hr : (xzDecode E fl b cap).ret = .streamEnd)
    (n : Nat) (hn : n < (xzDecode E fl b cap).consumed) :
    (xzDecode E fl (b.take n) cap).ret ≠ .streamEnd ∧ (xzDecode E fl (b.take n) cap).ret ≠ .ok := by
  constructor
  · apply prefix_free E hloc hbd fl hnc b (b.take n) cap hr (List.take_prefix n b)
    rw [List.length_take]; omega
  · unfold xzDecode
    simp only []
    split
    · simp
    · rename_i h; exact h

/-! ## The concrete decoder: no hypotheses left

  `XzEnv.stdEnv` is the environment of this liblzma build: payload = the raw filter chains of Model/Lzma2.lean
  (`Lzma2.rawDecode`: LZMA1/LZMA2 last, delta/BCJ models in front), checks = CRC32/CRC64/SHA-256 models.
  Its payload decoder satisfies both hypotheses (`Lemmas/LzmaCausal*.lean`: a lock-step simulation of two runs of the range
  decoder / LZMA / LZMA2 / LZ-layer loops on inputs that agree on the consumed prefix), so the container theorems above hold
  for the model that the correspondence run compares with the C code, without assumptions. -/

/-- The real payload decoder is local: if the raw chain returns LZMA_STREAM_END on `x` having consumed `n ≤ |x|` bytes, it
    returns the very same result (code, output, consumed) on every `y` with the same first `n` bytes. -/
theorem payload_local_std : PayloadLocal XzEnv.stdEnv := XzEnv.payloadLocal_std

/-- The real payload decoder never claims more input than it was given. -/
theorem payload_bounded_std : PayloadBounded XzEnv.stdEnv := XzEnv.payloadBounded_std

/-- `accepted_stream_extends` for the concrete decoder: an accepted Stream is accepted, with the same output and length, whatever
    bytes follow it. -/
theorem accepted_stream_extends_std (fl : Flags) (first : Bool) (p t : List UInt8) (cap : Nat)
    (h : (streamOne XzEnv.stdEnv fl first p cap).ret = .streamEnd) :
    streamOne XzEnv.stdEnv fl first (p ++ t) cap = streamOne XzEnv.stdEnv fl first p cap :=
  accepted_stream_extends XzEnv.stdEnv payload_local_std payload_bounded_std fl first p t cap h

/-- `prefix_free` for the concrete decoder (no LZMA_CONCATENATED): no proper prefix of an accepted Stream is accepted. -/
theorem prefix_free_std (fl : Flags) (hnc : fl.concatenated = false) (b p : List UInt8) (cap : Nat)
    (hr : (xzDecode XzEnv.stdEnv fl b cap).ret = .streamEnd) (hp : p <+: b)
    (hlt : p.length < (xzDecode XzEnv.stdEnv fl b cap).consumed) :
    (xzDecode XzEnv.stdEnv fl p cap).ret ≠ .streamEnd :=
  prefix_free XzEnv.stdEnv payload_local_std payload_bounded_std fl hnc b p cap hr hp hlt

/-- `truncation_is_never_stream_end` for the concrete decoder: a file cut anywhere inside its (only) Stream is reported neither
    as LZMA_STREAM_END nor as LZMA_OK. -/
theorem truncation_is_never_stream_end_std (fl : Flags) (hnc : fl.concatenated = false) (b : List UInt8) (cap : Nat)
    (hr : (xzDecode XzEnv.stdEnv fl b cap).ret = .streamEnd) (n : Nat) (hn : n < (xzDecode XzEnv.stdEnv fl b cap).consumed) :
    (xzDecode XzEnv.stdEnv fl (b.take n) cap).ret ≠ .streamEnd ∧ (xzDecode XzEnv.stdEnv fl (b.take n) cap).ret ≠ .ok :=
  truncation_is_never_stream_end XzEnv.stdEnv payload_local_std payload_bounded_std fl hnc b cap hr n hn

/-- `payload_damage_needs_collision_whole` for the concrete decoder (CRC32, CRC64 or SHA-256). -/
theorem payload_damage_needs_collision_whole_std (fl : Flags) (hnc : fl.concatenated = false) (hign : fl.ignoreCheck = false)
    (b b' : List UInt8) (cap : Nat) (hdr : StreamFlags) (out : List UInt8)
    (hdmg : FileDamage XzEnv.stdEnv fl b b' cap hdr out) (hck : hdr.check ≠ 0)
    (hsup : XzEnv.stdEnv.checkSupported hdr.check = true)
    (hr' : (xzDecode XzEnv.stdEnv fl b' cap).ret = .streamEnd)
    (hall' : (xzDecode XzEnv.stdEnv fl b' cap).consumed = b'.length) :
    ((xzDecode XzEnv.stdEnv fl b cap).ret = .streamEnd ∧ (xzDecode XzEnv.stdEnv fl b cap).out = out
        ∧ (xzDecode XzEnv.stdEnv fl b cap).consumed = b.length)
    ∧ ((xzDecode XzEnv.stdEnv fl b' cap).out = out
        ∨ ∃ (i : Nat) (cB cB' oB oB' : List UInt8),
            BlockAt XzEnv.stdEnv fl hdr (b.drop STREAM_HEADER_SIZE) cap i cB oB ∧
            BlockAt XzEnv.stdEnv fl hdr (b'.drop STREAM_HEADER_SIZE) cap i cB' oB' ∧
            cB.length = cB'.length ∧ oB ≠ oB' ∧ XzEnv.stdEnv.check hdr.check oB = XzEnv.stdEnv.check hdr.check oB') :=
  payload_damage_needs_collision_whole XzEnv.stdEnv payload_local_std payload_bounded_std fl hnc hign b b' cap hdr out hdmg hck hsup
    hr' hall'

/-- `block_tail_bitflip_rejected` for the concrete decoder (Block Padding and Check field); the side condition `hwf` of the
    parametric theorem follows from `payload_bounded_std`. -/
theorem block_tail_bitflip_rejected_std (check hs : Nat) (h : BlockHeader)
    (inp : List UInt8) (cap : Nat) (hb : (blockDecode XzEnv.stdEnv check false hs h inp cap).ret = .streamEnd)
    (hsup : check ≠ 0 → XzEnv.stdEnv.checkSupported check = true)
    (i : Nat) (hlo : 8 * (blockDecode XzEnv.stdEnv check false hs h inp cap).compressed ≤ i)
    (hhi : i < 8 * (blockDecode XzEnv.stdEnv check false hs h inp cap).consumed) :
    (blockDecode XzEnv.stdEnv check false hs h (flipBit inp i) cap).ret ≠ .streamEnd := by
  have F := blockDecode_streamEnd XzEnv.stdEnv check false hs h inp cap _ rfl hb
  have hwf : (blockDecode XzEnv.stdEnv check false hs h inp cap).compressed
      ≤ (inp.take (min inp.length (compressedLimit hs check h.compressedSize))).length := by
    rw [F.compressed_eq]; unfold payloadCall; exact payload_bounded_std _ _ _
  exact block_tail_bitflip_rejected XzEnv.stdEnv payload_local_std check hs h inp cap hb hsup hwf i hlo hhi

/-- `index_footer_bitflip_rejected` for the concrete decoder (Index and Stream Footer of the whole file). -/
theorem index_footer_bitflip_rejected_std (fl : Flags) (hnc : fl.concatenated = false) (b : List UInt8) (cap : Nat)
    (hr : (xzDecode XzEnv.stdEnv fl b cap).ret = .streamEnd) :
    ∃ (c : Nat) (final : HashInfo),
      (xzDecode XzEnv.stdEnv fl b cap).consumed = STREAM_HEADER_SIZE + c + indexHashSize final + STREAM_HEADER_SIZE ∧
      (b.drop (STREAM_HEADER_SIZE + c)).take (indexHashSize final) = indexEncode final ∧
      ∀ (i : Nat), 8 * (STREAM_HEADER_SIZE + c + 1) ≤ i → i < 8 * (xzDecode XzEnv.stdEnv fl b cap).consumed →
        (xzDecode XzEnv.stdEnv fl (flipBit b i) cap).ret ≠ .streamEnd :=
  index_footer_bitflip_rejected XzEnv.stdEnv payload_local_std payload_bounded_std fl hnc b cap hr

/-- `block_fields_bitflip_rejected` for the concrete decoder (every Block's header, padding and Check; all Check IDs of the
    format that liblzma supports). -/
theorem block_fields_bitflip_rejected_std (fl : Flags) (hnc : fl.concatenated = false) (hign : fl.ignoreCheck = false)
    (b : List UInt8) (cap : Nat) (hr : (xzDecode XzEnv.stdEnv fl b cap).ret = .streamEnd)
    (hsup : ∀ hdr, streamHeaderDecode (b.take STREAM_HEADER_SIZE) = .ok hdr → hdr.check ≠ 0 →
      XzEnv.stdEnv.checkSupported hdr.check = true) :
    ∃ (hdr : StreamFlags) (c : Nat) (final : HashInfo),
      streamHeaderDecode (b.take STREAM_HEADER_SIZE) = .ok hdr ∧
      BlocksRun XzEnv.stdEnv fl hdr [] (b.drop STREAM_HEADER_SIZE) cap (xzDecode XzEnv.stdEnv fl b cap).out c final ∧
      ∀ (j : Nat), ProtectedBit XzEnv.stdEnv fl hdr (b.drop STREAM_HEADER_SIZE) cap j → j < 8 * c →
        (xzDecode XzEnv.stdEnv fl (flipBit b (8 * STREAM_HEADER_SIZE + j)) cap).ret ≠ .streamEnd :=
  block_fields_bitflip_rejected XzEnv.stdEnv payload_local_std payload_bounded_std fl hnc hign b cap hr hsup

/-! ## Single-bit damage under LZMA_CONCATENATED: later Streams and Stream Padding

  `XzBit E fl first inp cap i` (Lemmas/XzConcatFlip.lean) locates bit `i` in a (possibly concatenated) file as the decoder walks
  it: `here` = in the Stream at the front, at a bit whose flip that Stream's decoder rejects (supplied by the single-Stream
  theorems: `XzBit.of_header`, `concat_index_footer_bit`, `concat_block_field_bit`); `padding` = in the zero bytes that follow
  the Stream at the front; `later` = recursively in what follows a Stream and a Stream Padding of 4k bytes. -/

/-- **header_bitflip_rejected, all Streams and Stream Padding (what is proved of `header_bitflip_rejected_statement`).**
    Any flags (in particular LZMA_CONCATENATED): a flip at a located bit makes `lzma_stream_decoder` + `lzma_code(FINISH)`
    reject the file. Located bits are: in ANY Stream of the file, the Stream Header, every Block Header bit except the size
    byte, Block Padding, Check, the Index except its indicator byte, the Stream Footer; and every bit of Stream Padding
    (a damaged padding byte either breaks the multiple-of-four rule or is taken for the start of a Stream, which it cannot be). -/
theorem header_bitflip_rejected_partial (E : Env) (hloc : PayloadLocal E) (hbd : PayloadBounded E) (fl : Flags)
    (b : List UInt8) (cap : Nat) (i : Nat) (hbit : XzBit E fl true b cap i) :
    (xzDecode E fl (flipBit b i) cap).ret ≠ .streamEnd := by
  have h := xzLoop_flip E hloc hbd fl hbit ((flipBit b i).length + 1)
  unfold xzDecode xzCall
  simp only []
  split
  · simp
  · exact h

/-- Index / Stream Footer bits of the Stream at the front are located bits. -/
theorem concat_index_footer_bit (E : Env) (hloc : PayloadLocal E) (hbd : PayloadBounded E) (fl : Flags) (first : Bool)
    (inp : List UInt8) (cap : Nat) (hs : (streamOne E fl first inp cap).ret = .streamEnd) :
    ∃ (c : Nat) (final : HashInfo),
      (streamOne E fl first inp cap).consumed = STREAM_HEADER_SIZE + c + indexHashSize final + STREAM_HEADER_SIZE ∧
      ∀ (i : Nat), 8 * (STREAM_HEADER_SIZE + c + 1) ≤ i → i < 8 * (streamOne E fl first inp cap).consumed →
        XzBit E fl first inp cap i := by
  obtain ⟨c, final, h1, _, h3⟩ := streamOne_index_footer_flip E hloc hbd fl first inp cap hs
  exact ⟨c, final, h1, fun i hlo hhi => XzBit.here first inp cap i (h3 i hlo hhi)⟩

/-- Block Header / Block Padding / Check bits of the Stream at the front are located bits. -/
theorem concat_block_field_bit (E : Env) (hloc : PayloadLocal E) (hbd : PayloadBounded E) (fl : Flags)
    (hign : fl.ignoreCheck = false) (first : Bool) (inp : List UInt8) (cap : Nat)
    (hs : (streamOne E fl first inp cap).ret = .streamEnd)
    (hsup : ∀ hdr, streamHeaderDecode (inp.take STREAM_HEADER_SIZE) = .ok hdr → hdr.check ≠ 0 → E.checkSupported hdr.check = true) :
    ∃ (hdr : StreamFlags) (c : Nat) (final : HashInfo),
      streamHeaderDecode (inp.take STREAM_HEADER_SIZE) = .ok hdr ∧
      BlocksRun E fl hdr [] (inp.drop STREAM_HEADER_SIZE) cap (streamOne E fl first inp cap).out c final ∧
      ∀ (j : Nat), ProtectedBit E fl hdr (inp.drop STREAM_HEADER_SIZE) cap j → j < 8 * c →
        XzBit E fl first inp cap (8 * STREAM_HEADER_SIZE + j) := by
  obtain ⟨hdr, c, final, h1, h2, h3⟩ := streamOne_blocks_flip E hloc hbd fl hign first inp cap hs hsup
  exact ⟨hdr, c, final, h1, h2, fun j hp hj => XzBit.here first inp cap _ (h3 j hp hj)⟩

/-- The same for the concrete decoder (no hypotheses on the payload decoder). -/
theorem header_bitflip_rejected_std (fl : Flags) (b : List UInt8) (cap : Nat) (i : Nat)
    (hbit : XzBit XzEnv.stdEnv fl true b cap i) : (xzDecode XzEnv.stdEnv fl (flipBit b i) cap).ret ≠ .streamEnd :=
  header_bitflip_rejected_partial XzEnv.stdEnv payload_local_std payload_bounded_std fl b cap i hbit

/-! ## Truncation of .lzma and .lz files

  For both legacy formats a decoder that has answered LZMA_STREAM_END on `b` having consumed `n` bytes answers something else on
  every proper prefix of those `n` bytes: a file that ends inside the stream is never reported as complete.  Parametric in the
  LZMA1 payload decoder `P` (which must be causal and must not claim more than it was given); `*_model` instantiates it with
  the concrete model `Lzma.lzmaDecode` of Model/Lzma.lean, for which both properties are proved (Lemmas/LzmaCausal*.lean).
  For .lzma this covers both ways a stream ends: end marker (unknown size) and known uncompressed size (with or without marker).
  With LZMA_CONCATENATED a .lz prefix that ends exactly at a member boundary IS a complete file; that case is excluded. -/

theorem alone_consumed_le (P : Alone.Payload) (hb : ∀ o r, (P o r).consumed ≤ r.length) (cfg : Alone.Cfg) (inp : List UInt8)
    (h : (Alone.aloneDecode P cfg inp).ret = .streamEnd) : (Alone.aloneDecode P cfg inp).consumed ≤ inp.length := by
  unfold Alone.aloneDecode at h ⊢
  cases inp with
  | nil => simp [Alone.needMore] at h
  | cons p r1 =>
    simp only [] at h ⊢
    cases hl : Alone.lclppbDecode p.toNat with
    | none => rw [hl] at h; simp [Alone.fail] at h
    | some t =>
      obtain ⟨lc, lp, pb⟩ := t
      rw [hl] at h
      simp only [] at h ⊢
      by_cases h4 : r1.length < 4
      · rw [if_pos h4] at h; simp [Alone.needMore] at h
      rw [if_neg h4] at h ⊢
      by_cases hpk : (cfg.picky && !Alone.pickyDictOk (Alone.leNat (r1.take 4))) = true
      · rw [if_pos hpk] at h; simp [Alone.fail] at h
      rw [if_neg hpk] at h ⊢
      by_cases h8 : (r1.drop 4).length < 8
      · rw [if_pos h8] at h; simp [Alone.needMore] at h
      rw [if_neg h8] at h ⊢
      by_cases hps : (cfg.picky && !Alone.pickySizeOk (Alone.leNat ((r1.drop 4).take 8))) = true
      · rw [if_pos hps] at h; simp [Alone.fail] at h
      rw [if_neg hps] at h ⊢
      by_cases hm : cfg.memK + Alone.leNat (r1.take 4) > Alone.effMemlimit cfg.memlimit
      · rw [if_pos hm] at h; simp at h
      rw [if_neg hm] at h ⊢
      have := hb (Alone.aloneOpts lc lp pb (Alone.leNat (r1.take 4)) (Alone.leNat ((r1.drop 4).take 8))) ((r1.drop 4).drop 8)
      simp only [List.length_drop, List.length_cons] at this h4 h8 ⊢
      omega

/-- **prefix_free for .lzma** (`lzma_alone_decoder`, also inside the auto decoder). -/
theorem lzma_prefix_free (P : Alone.Payload) (hP : C16L.Causal P) (hb : ∀ o r, (P o r).consumed ≤ r.length) (cfg : Alone.Cfg)
    (b p : List UInt8) (hr : (Alone.aloneDecode P cfg b).ret = .streamEnd) (hp : p <+: b)
    (hlt : p.length < (Alone.aloneDecode P cfg b).consumed) : (Alone.aloneDecode P cfg p).ret ≠ .streamEnd := by
  intro hc
  obtain ⟨t, rfl⟩ := hp
  have e := C16L.alone_stops P hP cfg p t hc
  rw [e] at hlt
  have := alone_consumed_le P hb cfg p hc
  omega

/-- the same as truncation: cutting an accepted .lzma file anywhere inside the consumed bytes is not accepted -/
theorem lzma_truncation_is_never_stream_end (P : Alone.Payload) (hP : C16L.Causal P) (hb : ∀ o r, (P o r).consumed ≤ r.length)
    (cfg : Alone.Cfg) (b : List UInt8) (hr : (Alone.aloneDecode P cfg b).ret = .streamEnd) (n : Nat)
    (hn : n < (Alone.aloneDecode P cfg b).consumed) : (Alone.aloneDecode P cfg (b.take n)).ret ≠ .streamEnd :=
  lzma_prefix_free P hP hb cfg b (b.take n) hr (List.take_prefix n b) (by rw [List.length_take]; omega)

/-- **prefix_free for .lz** (`lzma_lzip_decoder` without LZMA_CONCATENATED). -/
theorem lzip_prefix_free (P : Alone.Payload) (hP : C16L.Causal P) (cfg : Lzip.Cfg) (hc : cfg.concatenated = false)
    (b p : List UInt8) (hr : (Lzip.lzipDecode P cfg b).ret = .streamEnd) (hp : p <+: b)
    (hlt : p.length < (Lzip.lzipDecode P cfg b).consumed) : (Lzip.lzipDecode P cfg p).ret ≠ .streamEnd := by
  intro hcp
  obtain ⟨t, rfl⟩ := hp
  have e := C16L.lzip_stops P hP cfg hc p t hcp
  rw [e] at hlt
  rcases C16L.lzipDecode_single P cfg hc p with ⟨o, m, hv, he⟩ | ⟨_, hne⟩
  · have := (C16L.validMember_bounds hv).2
    rw [he] at hlt
    simp only [] at hlt
    omega
  · exact hne hcp

theorem lzip_truncation_is_never_stream_end (P : Alone.Payload) (hP : C16L.Causal P) (cfg : Lzip.Cfg)
    (hc : cfg.concatenated = false) (b : List UInt8) (hr : (Lzip.lzipDecode P cfg b).ret = .streamEnd) (n : Nat)
    (hn : n < (Lzip.lzipDecode P cfg b).consumed) : (Lzip.lzipDecode P cfg (b.take n)).ret ≠ .streamEnd :=
  lzip_prefix_free P hP cfg hc b (b.take n) hr (List.take_prefix n b) (by rw [List.length_take]; omega)

/-- **.lzma truncation for the concrete decoder model**: no hypotheses left. -/
theorem lzma_prefix_free_model (cfg : Alone.Cfg) (b p : List UInt8)
    (hr : (Alone.aloneDecode C16.lzmaPayload cfg b).ret = .streamEnd) (hp : p <+: b)
    (hlt : p.length < (Alone.aloneDecode C16.lzmaPayload cfg b).consumed) :
    (Alone.aloneDecode C16.lzmaPayload cfg p).ret ≠ .streamEnd :=
  lzma_prefix_free C16.lzmaPayload C16.lzma_payload_causal C16.lzma_payload_bounded cfg b p hr hp hlt

/-- **.lz truncation for the concrete decoder model** (no LZMA_CONCATENATED). -/
theorem lzip_prefix_free_model (cfg : Lzip.Cfg) (hc : cfg.concatenated = false) (b p : List UInt8)
    (hr : (Lzip.lzipDecode C16.lzmaPayload cfg b).ret = .streamEnd) (hp : p <+: b)
    (hlt : p.length < (Lzip.lzipDecode C16.lzmaPayload cfg b).consumed) :
    (Lzip.lzipDecode C16.lzmaPayload cfg p).ret ≠ .streamEnd :=
  lzip_prefix_free C16.lzmaPayload C16.lzma_payload_causal cfg hc b p hr hp hlt

/-! ## .lz -/

/-- **lzip_footer_enforced.**  If `lzma_lzip_decoder` (no LZMA_CONCATENATED) answers LZMA_STREAM_END, the input starts
    with a member whose footer fields equal the actual values: CRC32 of the output (unless LZMA_IGNORE_CHECK), Data size,
    and for version 1 the Member size (`ValidMemberAt` / `BodyOk` / `FooterOk` of Lemmas/C16.lean). -/
theorem lzip_footer_enforced (P : Alone.Payload) (cfg : Lzip.Cfg) (hc : cfg.concatenated = false) (inp : List UInt8)
    (h : (Lzip.lzipDecode P cfg inp).ret = .streamEnd) :
    ∃ (v c : UInt8) (r2 : List UInt8) (ds : Nat),
      inp = Lzip.magic ++ v :: c :: r2 ∧ v.toNat ≤ 1 ∧ Lzip.dictSizeOfCode c.toNat = some ds ∧
      (P (Lzip.lzipOpts ds) r2).ret = .streamEnd ∧ (Lzip.lzipDecode P cfg inp).out = (P (Lzip.lzipOpts ds) r2).out ∧
      Lzip.footerSize v.toNat ≤ (r2.drop (P (Lzip.lzipOpts ds) r2).consumed).length ∧
      (cfg.ignoreCheck = false →
        Lzip.crc32 (P (Lzip.lzipOpts ds) r2).out = Alone.leNat ((r2.drop (P (Lzip.lzipOpts ds) r2).consumed).take 4)) ∧
      (P (Lzip.lzipOpts ds) r2).out.length = Alone.leNat (((r2.drop (P (Lzip.lzipOpts ds) r2).consumed).drop 4).take 8) ∧
      (v.toNat > 0 → 6 + (P (Lzip.lzipOpts ds) r2).consumed + Lzip.footerSize v.toNat
        = Alone.leNat (((r2.drop (P (Lzip.lzipOpts ds) r2).consumed).drop 12).take 8)) := by
  rcases C16L.lzipDecode_single P cfg hc inp with ⟨out, n, hv, he⟩ | ⟨_, hne⟩
  · obtain ⟨v, c, r2, hinp, hv1, ds, hds, _, hret, hout, ⟨hfl, hcrc, hsz, hms⟩, _⟩ := hv
    refine ⟨v, c, r2, ds, hinp, hv1, hds, hret, by rw [he, hout], hfl, hcrc, hsz, hms⟩
  · exact absurd h hne

/-! ## Non-vacuity: concrete files, checked by kernel evaluation -/

/-- A toy payload format for the examples: `[n, b₁ … bₙ]` decodes to `b₁ … bₙ` and consumes `n + 1` bytes. -/
def toyPayload (_ : List Filter) (inp : List UInt8) (_ : Nat) : PRes :=
  match inp with
  | [] => { ret := .ok, out := [], consumed := 0 }
  | n :: t => if t.length < n.toNat then { ret := .ok, out := [], consumed := inp.length }
              else { ret := .streamEnd, out := t.take n.toNat, consumed := n.toNat + 1 }

def toyEnv : Env := { payload := toyPayload, checkSupported := fun c => c == 1, check := fun _ d => le32 (crc32 d) }

/-- tests/files/good-0-empty.xz -/
def emptyXz : List UInt8 :=
  [0xfd, 0x37, 0x7a, 0x58, 0x5a, 0x00, 0x00, 0x01, 0x69, 0x22, 0xde, 0x36, 0x00, 0x00, 0x00, 0x00, 0x1c, 0xdf, 0x44, 0x21,
   0x90, 0x42, 0x99, 0x0d, 0x01, 0x00, 0x00, 0x00, 0x00, 0x01, 0x59, 0x5a]

/-- header, one Block (header 12 bytes, toy payload `03 'a' 'b' 'c'`, CRC32 of "abc"), Index, footer -/
def toyXz : List UInt8 :=
  [0xfd, 0x37, 0x7a, 0x58, 0x5a, 0x00, 0x00, 0x01, 0x69, 0x22, 0xde, 0x36, 0x02, 0x00, 0x21, 0x01, 0x00, 0x00, 0x00, 0x00,
   0x37, 0x27, 0x97, 0xd6, 0x03, 0x61, 0x62, 0x63, 0xc2, 0x41, 0x24, 0x35, 0x00, 0x01, 0x14, 0x03, 0xc4, 0x33, 0x21, 0x97,
   0x90, 0x42, 0x99, 0x0d, 0x01, 0x00, 0x00, 0x00, 0x00, 0x01, 0x59, 0x5a]

example : (xzDecode toyEnv {} emptyXz).ret = .streamEnd ∧ (xzDecode toyEnv {} emptyXz).consumed = 32 := by decide +kernel
example : xzDecode toyEnv {} toyXz = { ret := .streamEnd, out := [0x61, 0x62, 0x63], consumed := 52 } := by decide +kernel

-- every hypothesis of the theorems above is met by these files: a valid Stream Header …
example : ∃ hdr, streamHeaderDecode (toyXz.take STREAM_HEADER_SIZE) = .ok hdr := ⟨⟨0, 1⟩, by decide +kernel⟩
-- … so each of its 96 bits is protected (`stream_header_bitflip_rejected`); e.g. bit 50 (a Stream Flags bit), bit 3 (magic)
example : (xzDecode toyEnv {} (flipBit toyXz 50)).ret = .dataError := by decide +kernel
example : (xzDecode toyEnv {} (flipBit toyXz 3)).ret = .formatError := by decide +kernel
-- Block Header (bit 113 = filter properties), Compressed Data (bit 200), Check (bit 230), Index (bit 270), footer (bit 400)
example : [113, 200, 230, 270, 400].map (fun i => (xzDecode toyEnv {} (flipBit toyXz i)).ret)
    = [.dataError, .dataError, .dataError, .dataError, .dataError] := by decide +kernel
-- bit 113 = 96 + 17 is a `ProtectedBit` (Block Header, not the size byte), as `block_fields_bitflip_rejected` requires
example : ProtectedBit toyEnv {} ⟨0, 1⟩ (toyXz.drop STREAM_HEADER_SIZE) UNLIMITED 17 :=
  ProtectedBit.header _ _ 0x02 ((toyXz.drop STREAM_HEADER_SIZE).drop 1) 17 (by decide +kernel) (by decide) (by decide)
-- every proper prefix is reported as LZMA_BUF_ERROR (`prefix_free`), the whole file is accepted
example : (List.range 52).all (fun n => (xzDecode toyEnv {} (toyXz.take n)).ret == .bufError) = true := by decide +kernel
-- lzma_stream_buffer_decode: success is LZMA_OK; a truncated buffer is LZMA_DATA_ERROR with the positions restored
example : xzBufferDecode toyEnv 0 toyXz = { ret := .ok, out := [0x61, 0x62, 0x63], consumed := 52 } := by decide +kernel
example : xzBufferDecode toyEnv 0 (toyXz.take 40) = { ret := .dataError, out := [], consumed := 0 } := by decide +kernel
/-! ### LZMA_CONCATENATED: two toy Streams with four bytes of Stream Padding between them -/

def toyConcat : List UInt8 := toyXz ++ [0, 0, 0, 0] ++ toyXz
def flConcat : Flags := { concatenated := true }

example : xzDecode toyEnv flConcat toyConcat = { ret := .streamEnd, out := [0x61, 0x62, 0x63, 0x61, 0x62, 0x63], consumed := 108 } := by
  decide +kernel

/-- bit 427 lies in the second padding byte: a located bit (`XzBit.padding`) … -/
example : XzBit toyEnv flConcat true toyConcat UNLIMITED 427 :=
  XzBit.padding true toyConcat UNLIMITED 427 4 toyXz (by decide +kernel) rfl (by decide +kernel) (by decide +kernel) (by decide +kernel)
/-- … bit 416 in the first padding byte (then the damaged byte is taken for the start of a Stream) … -/
example : XzBit toyEnv flConcat true toyConcat UNLIMITED 416 :=
  XzBit.padding true toyConcat UNLIMITED 416 4 toyXz (by decide +kernel) rfl (by decide +kernel) (by decide +kernel) (by decide +kernel)
/-- … bit 50 of the SECOND Stream's header (`XzBit.later` + `XzBit.of_header`): file bit 8·56 + 50 -/
example : XzBit toyEnv flConcat true toyConcat UNLIMITED (8 * (52 + 4) + 50) := by
  have h := XzBit.later true toyConcat UNLIMITED 4 50 (E := toyEnv) (fl := flConcat) (by decide +kernel) rfl (by decide +kernel)
    (by decide +kernel) (XzBit.of_header toyEnv flConcat false _ _ (by decide +kernel) 50 (by decide))
  have e : 8 * ((streamOne toyEnv flConcat true toyConcat UNLIMITED).consumed + 4) + 50 = 8 * (52 + 4) + 50 := by decide +kernel
  rw [e] at h
  exact h
/-- … and the decoder indeed rejects all three (as `header_bitflip_rejected_partial` says it must) -/
example : [427, 416, 8 * (52 + 4) + 50].map (fun i => (xzDecode toyEnv flConcat (flipBit toyConcat i)).ret)
    = [.dataError, .dataError, .dataError] := by decide +kernel

/-! ### whole-file payload damage: the hypothesis `FileDamage` is inhabited -/

/-- the toy file with the four bytes of its Compressed Data overwritten -/
def toyXzDamaged : List UInt8 := toyXz.take 24 ++ [0x03, 0x78, 0x79, 0x7a] ++ toyXz.drop 28

example : FileDamage toyEnv {} toyXz toyXzDamaged UNLIMITED ⟨0, 1⟩ [0x61, 0x62, 0x63] := by
  refine ⟨20, [⟨20, 3⟩], indexAndFooter ⟨0, 1⟩ [⟨20, 3⟩] (toyXz.drop 32), by decide, by decide +kernel, by decide +kernel,
    ?_, ?_, by decide +kernel⟩
  · exact PayloadDamage.block (E := toyEnv) (fl := {}) (hdr := ⟨0, 1⟩) [] (toyXz.drop 12) (toyXzDamaged.drop 12) UNLIMITED
      0x02 [0, 33, 1, 0, 0, 0, 0, 55, 39, 151, 214] { compressedSize := none, uncompressedSize := none, filters := [⟨0x21, [0]⟩] }
      [3, 97, 98, 99] [97, 98, 99] [] [194, 65, 36, 53] (toyXz.drop 32) [] 0 [⟨20, 3⟩] [3, 0x78, 0x79, 0x7a] (toyXz.drop 32)
      (by decide +kernel) (by decide) (by decide +kernel) ⟨1, by decide +kernel⟩
      ⟨(by decide +kernel), (by intro x hx; cases hx), (by intro u hu; cases hu), (by decide), (by decide),
        (by intro _ _ _; decide +kernel)⟩
      ⟨(by decide), (by decide), (by decide), (by unfold HashLimits; decide +kernel)⟩ (by decide) (by decide +kernel)
      (PayloadDamage.done _ _ _)
  · exact indexAndFooter_streamEnd ⟨0, 1⟩ [⟨20, 3⟩] (toyXz.drop 32) _ rfl (by decide +kernel)

/-- (this damaged toy file is rejected — its CRC32 no longer matches; an ACCEPTED damaged file, i.e. a genuine CRC32 collision,
    is `collA`/`collB` at the end of this file) -/
example : (xzDecode toyEnv {} toyXzDamaged).ret = .dataError := by decide +kernel

/-! ### the concrete decoder model on tests/files/good-1-check-crc32.xz -/

def good1 : List UInt8 :=
  [253, 55, 122, 88, 90, 0, 0, 1, 105, 34, 222, 54, 2, 0, 33, 1, 8, 0, 0, 0, 216, 15, 35, 19, 1, 0, 5, 72, 101, 108, 108, 111,
   10, 2, 0, 6, 87, 111, 114, 108, 100, 33, 10, 0, 67, 163, 162, 21, 0, 1, 36, 13, 48, 40, 223, 175, 144, 66, 153, 13, 1, 0, 0,
   0, 0, 1, 89, 90]

/-- accepted by `stdEnv` (real LZMA2 model, CRC32 model) — the hypothesis of every `_std` theorem is satisfiable — … -/
example : (xzDecode XzEnv.stdEnv {} good1).ret = .streamEnd ∧ (xzDecode XzEnv.stdEnv {} good1).consumed = 68 := by decide +kernel
/-- … a flip in the Block Header (bit 150), in the Check (bit 370), in the Index (bit 400) is rejected, every truncation too -/
example : [150, 370, 400].map (fun i => (xzDecode XzEnv.stdEnv {} (flipBit good1 i)).ret) = [.dataError, .dataError, .dataError] := by
  decide +kernel
example : (List.range 68).all (fun n => (xzDecode XzEnv.stdEnv {} (good1.take n)).ret == .bufError) = true := by decide +kernel

-- the toy payload decoder satisfies `PayloadBounded` (a hypothesis of `prefix_free`)
theorem toyEnv_payload_bounded : PayloadBounded toyEnv := by
  intro fs x cap
  show (toyPayload fs x cap).consumed ≤ x.length
  unfold toyPayload
  cases x with
  | nil => simp
  | cons n t => simp only []; split <;> simp only [List.length_cons] <;> omega

/-- the weaker extension property, for comparison -/
def PayloadExtends (E : Env) : Prop :=
  ∀ (fs : List Filter) (x t : List UInt8) (cap : Nat),
    (E.payload fs x cap).ret = .streamEnd → E.payload fs (x ++ t) cap = E.payload fs x cap

example : PayloadExtends toyEnv := by
  intro fs x t cap h
  show toyPayload fs (x ++ t) cap = toyPayload fs x cap
  cases x with
  | nil => simp [toyEnv, toyPayload] at h
  | cons n t' =>
    simp only [toyEnv, toyPayload] at h
    by_cases hl : t'.length < n.toNat
    · rw [if_pos hl] at h; simp at h
    · simp only [toyPayload, List.cons_append, List.length_append]
      rw [if_neg hl, if_neg (by omega)]
      rw [List.take_append_of_le_length (by omega)]

-- … and `PayloadLocal`, the other hypothesis of `prefix_free` and `block_tail_bitflip_rejected`
theorem toyEnv_payload_local : PayloadLocal toyEnv := by
  intro fs x y cap h hb ht
  show toyPayload fs y cap = toyPayload fs x cap
  have h' : (toyPayload fs x cap).ret = .streamEnd := h
  have hb' : (toyPayload fs x cap).consumed ≤ x.length := hb
  have ht' : x.take (toyPayload fs x cap).consumed = y.take (toyPayload fs x cap).consumed := ht
  cases x with
  | nil => simp [toyPayload] at h'
  | cons n t =>
    simp only [toyPayload] at h' hb' ht' ⊢
    by_cases hl : t.length < n.toNat
    · rw [if_pos hl] at h'; simp at h'
    · rw [if_neg hl] at ht' ⊢
      simp only [] at ht'
      cases y with
      | nil => simp at ht'
      | cons m t' =>
        rw [List.take_succ_cons, List.take_succ_cons] at ht'
        simp only [List.cons.injEq] at ht'
        obtain ⟨e1, e2⟩ := ht'
        subst e1
        have hlen : n.toNat ≤ t'.length := by
          have := congrArg List.length e2
          rw [List.length_take, List.length_take] at this
          omega
        simp only []
        rw [if_neg (by omega), e2]

/-! ### whole-file payload damage with an ACCEPTED damaged file: a genuine, file-tethered CRC32 collision

  `[1,2,3,4,5]` and `[64,4,114,223,4]` have the same CRC32 (0x470B99F4).  `collA` is a toy file whose only Block has the
  Compressed Data `05 01 02 03 04 05`; `collB` is `collA` with those six bytes overwritten by `05 40 04 72 DF 04`.  Both are
  accepted, as whole files, with different outputs — so `payload_damage_needs_collision_whole` must produce (and does produce)
  its second disjunct, with Block 0 of the two files as witnesses. -/

def collA : List UInt8 :=
  toyXz.take 24 ++ [5, 1, 2, 3, 4, 5] ++ [0, 0] ++ le32 (crc32 [1, 2, 3, 4, 5])
    ++ ([0, 1, 0x16, 5] ++ le32 (crc32 [0, 1, 0x16, 5])) ++ toyXz.drop 40
def collB : List UInt8 :=
  toyXz.take 24 ++ [5, 64, 4, 114, 223, 4] ++ [0, 0] ++ le32 (crc32 [1, 2, 3, 4, 5])
    ++ ([0, 1, 0x16, 5] ++ le32 (crc32 [0, 1, 0x16, 5])) ++ toyXz.drop 40

example : xzDecode toyEnv {} collA = { ret := .streamEnd, out := [1, 2, 3, 4, 5], consumed := 56 } := by decide +kernel
example : xzDecode toyEnv {} collB = { ret := .streamEnd, out := [64, 4, 114, 223, 4], consumed := 56 } := by decide +kernel

theorem collAB_fileDamage : FileDamage toyEnv {} collA collB UNLIMITED ⟨0, 1⟩ [1, 2, 3, 4, 5] := by
  refine ⟨24, [⟨22, 5⟩], indexAndFooter ⟨0, 1⟩ [⟨22, 5⟩] (collA.drop 36), by decide, by decide +kernel, by decide +kernel,
    ?_, ?_, by decide +kernel⟩
  · exact PayloadDamage.block (E := toyEnv) (fl := {}) (hdr := ⟨0, 1⟩) [] (collA.drop 12) (collB.drop 12) UNLIMITED
      0x02 [0, 33, 1, 0, 0, 0, 0, 55, 39, 151, 214] { compressedSize := none, uncompressedSize := none, filters := [⟨0x21, [0]⟩] }
      [5, 1, 2, 3, 4, 5] [1, 2, 3, 4, 5] [0, 0] [244, 153, 11, 71] (collA.drop 36) [] 0 [⟨22, 5⟩] [5, 64, 4, 114, 223, 4]
      (collA.drop 36)
      (by decide +kernel) (by decide) (by decide +kernel) ⟨1, by decide +kernel⟩
      ⟨(by decide +kernel), (by intro x hx; cases hx), (by intro u hu; cases hu), (by decide), (by decide),
        (by intro _ _ _; decide +kernel)⟩
      ⟨(by decide), (by decide), (by decide), (by unfold HashLimits; decide +kernel)⟩ (by decide) (by decide +kernel)
      (PayloadDamage.done _ _ _)
  · exact indexAndFooter_streamEnd ⟨0, 1⟩ [⟨22, 5⟩] (collA.drop 36) _ rfl (by decide +kernel)

/-- the theorem applied to the pair: the outputs differ, so it yields the tethered collision -/
theorem collAB_collision :
    ∃ (i : Nat) (cB cB' oB oB' : List UInt8),
      BlockAt toyEnv {} ⟨0, 1⟩ (collA.drop STREAM_HEADER_SIZE) UNLIMITED i cB oB ∧
      BlockAt toyEnv {} ⟨0, 1⟩ (collB.drop STREAM_HEADER_SIZE) UNLIMITED i cB' oB' ∧
      cB.length = cB'.length ∧ oB ≠ oB' ∧ toyEnv.check 1 oB = toyEnv.check 1 oB' := by
  have h := payload_damage_needs_collision_whole toyEnv toyEnv_payload_local toyEnv_payload_bounded {} rfl rfl collA collB
    UNLIMITED ⟨0, 1⟩ [1, 2, 3, 4, 5] collAB_fileDamage (by decide) (by decide) (by decide +kernel) (by decide +kernel)
  rcases h.2 with h2 | h2
  · exact absurd h2 (by decide +kernel)
  · exact h2

/-- … and the witnesses can only be the two outputs of Block 0: every `BlockAt` of these one-Block files at index 0 with these
    Compressed Data has these outputs (here checked directly) -/
example : BlockAt toyEnv {} ⟨0, 1⟩ (collB.drop STREAM_HEADER_SIZE) UNLIMITED 0 [5, 64, 4, 114, 223, 4] [64, 4, 114, 223, 4] :=
  BlockAt.here (collB.drop 12) UNLIMITED 0x02 [0, 33, 1, 0, 0, 0, 0, 55, 39, 151, 214]
    { compressedSize := none, uncompressedSize := none, filters := [⟨0x21, [0]⟩] }
    [5, 64, 4, 114, 223, 4] [64, 4, 114, 223, 4] [0, 0] [244, 153, 11, 71] (collB.drop 36)
    (by decide +kernel) (by decide) (by decide +kernel)
    ⟨(by decide +kernel), (by intro x hx; cases hx), (by intro u hu; cases hu), (by decide), (by decide),
      (by intro _ _ _; decide +kernel)⟩

end XzVerif.C05
