/-
  C05 — corruption and truncation are never reported as success with different data (container level).

  The model is Model/XzDecode.lean (whole-buffer .xz decoder mirroring stream_decoder.c / block_decoder.c / index_hash.c),
  parametric in the payload decoder and in the check function (`Env`), so every theorem below holds for the real
  LZMA2/BCJ/delta chain and for CRC32/CRC64/SHA-256 alike.  Grammar and stage lemmas: Lemmas/XzDecode*.lean.
  A universal "any damage is detected" statement is false for every fixed-size check, so the theorems say exactly what
  acceptance implies and which damage is always caught.  Helper lemmas live in Lemmas/.
-/
import XzVerif.Lemmas.XzDecodeStream
import XzVerif.Lemmas.CrcFlip

namespace XzVerif.C05
open XzVerif XzVerif.Container XzVerif.XzDecode XzVerif.Crc

/-- **accept_implies_checked.**  If `lzma_stream_decoder` + `lzma_code(LZMA_FINISH)` ends with LZMA_STREAM_END on `b`, then
    `b` has the structure `ValidXz` (Lemmas/XzDecodeStream.lean), i.e. for every Stream:
    * the Stream Header decodes (magic, CRC32, reserved bits) — `ValidStream`;
    * every Block (`BlocksRun.block`): its header decodes (CRC32, header padding zero, filter chain valid); the payload
      decoder finished; Compressed/Uncompressed Size fields, when present, equal the real sizes; Block Padding is zero;
      the stored Check equals `E.check` of the Block's output whenever the ID is supported and LZMA_IGNORE_CHECK is
      off (`BlockFacts`);
    * the Index field is byte for byte the canonical encoding of the (Unpadded Size, Uncompressed Size) pairs of the
      Blocks that were decoded: Records = Blocks, Index Padding zero, CRC32 right (`FooterFacts.index_bytes`);
      [the C code compares SHA-256 digests of the pairs; the model compares the lists — collision-freeness assumed];
    * the Stream Footer decodes (magic, CRC32), Backward Size = real size of the Index, footer flags = header flags;
    * Stream Padding (with LZMA_CONCATENATED) is a multiple of four zero bytes. -/
theorem accept_implies_checked (E : Env) (fl : Flags) (b : List UInt8) (cap : Nat) (r : DRes)
    (h : xzDecode E fl b cap = r) (hr : r.ret = .streamEnd) : ValidXz E fl b cap r.out r.consumed := by
  unfold xzDecode at h
  simp only [] at h
  split at h
  · subst h; simp at hr
  · subst h
    exact xzLoop_streamEnd E fl _ _ _ _ _ rfl hr

/-- The same for `lzma_stream_buffer_decode` (success is LZMA_OK there). -/
theorem accept_implies_checked_buffer (E : Env) (flags : Nat) (b : List UInt8) (cap : Nat) (r : DRes)
    (h : xzBufferDecode E flags b cap = r) (hr : r.ret = .ok) :
    ValidXz E (Flags.ofNat flags) b cap r.out r.consumed := by
  unfold xzBufferDecode at h
  split at h
  · subst h; simp at hr
  · split at h
    · subst h; simp at hr
    · simp only [] at h
      split at h
      · rename_i e _ hev
        subst h
        simp only [] at hr
        -- an informational return is never LZMA_OK
        have hin := xzLoop_events E (Flags.ofNat flags) (b.length + 1) true b cap e (by
          have : (xzCall E (Flags.ofNat flags) b cap).events = e :: _ := hev
          unfold xzCall at this
          rw [this]; simp)
        rcases hin with h1 | h1 | h1 <;> (rw [h1] at hr; simp at hr)
      · split at h
        · rename_i hse
          subst h
          exact xzLoop_streamEnd E _ _ _ _ _ (xzCall E (Flags.ofNat flags) b cap) rfl hse
        · split at h
          · subst h
            simp only [] at hr
            split at hr <;> simp at hr
          · rename_i h1 h2
            subst h
            exact absurd hr h2

end XzVerif.C05
