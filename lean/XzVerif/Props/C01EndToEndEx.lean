/-
  C01 end to end: further kernel-evaluated instances of the theorems of Props/C01EndToEnd.lean (kept in a file of their own
  so that neither file takes long to check):
    * chain delta(1) → ARM BCJ → LZMA2 with SHA-256, multi-call encoder, a piece coded as literal, literal, match;
    * single-call encoder with CRC64 where the LZMA2 output (15 bytes) exceeds `lzma2_bound(9) = 13`: the uncompressed fall-back;
  (Props/C01EndToEndEx2.lean: single-call encoder where the LZMA2 stream fits; .lzma.)
  In each case ALL hypotheses of the theorem are established (the parser's contract by evaluating the chunker twin
  `rawEncodeK` in the kernel), so the conclusion — the decoder model returns the input — holds for the concrete bytes.
-/
import XzVerif.Props.C01EndToEnd

namespace XzVerif.C01E2E
open XzVerif XzVerif.Container XzVerif.XzDecode XzVerif.XzEncode XzVerif.XzEncEnv XzVerif.XzEnv XzVerif.E2E
open XzVerif.LzmaEnc XzVerif.Lzma2Enc

def aaa (n : Nat) : List UInt8 := List.replicate n 0x61

/-- 9 bytes: `encode_init` literal, a literal, a match of 7 at distance 1; 20 bytes: literal, a match of 19; else literals -/
def ex2Parser : Parser := fun p d buf =>
  if buf.size = 9 then
    #[{ kind := 0, back := 4294967295, len := 1, pos := 1, ra := 0 }, { kind := 0, back := 4, len := 7, pos := 2, ra := 0 }]
  else if buf.size = 20 then #[{ kind := 0, back := 4, len := 19, pos := 1, ra := 0 }]
  else literalParser p d buf

/-! ### delta → ARM → LZMA2, SHA-256 (the LZMA layer sees 61 00 00 00 00 00 00 00 00: the trace is valid for THAT) -/

def ex2Cfg : Cfg := { check := 10, filters := [.delta 1, .bcj FILTER_ARM 0, .lzma2 4096] }

def ex2Table : List (List UInt8 × List UInt8) := [(aaa 9, [224, 0, 8, 0, 7, 0, 0, 48, 128, 35, 211, 166, 64, 0, 0])]

def ex2Out : List UInt8 :=
  [253, 55, 122, 88, 90, 0, 0, 10, 225, 251, 12, 161, 3, 2, 3, 1, 0, 7, 0, 33, 1, 0, 0, 0, 65, 93, 209, 41, 224,
   0, 8, 0, 7, 0, 0, 48, 128, 35, 211, 166, 64, 0, 0, 0, 242, 172, 169, 59, 128, 202, 230, 129, 34, 31, 4, 69, 250, 78,
   44, 174, 138, 31, 159, 143, 161, 225, 116, 29, 150, 57, 202, 173, 34, 47, 83, 125, 0, 1, 63, 9, 179, 39, 132, 1, 24,
   155, 75, 154, 1, 0, 0, 0, 0, 10, 89, 90]

theorem ex2Table_ok : ∀ e ∈ ex2Table, rawEncodeK exP ex2Parser ex2Cfg.filters e.1 = some e.2 := by decide +kernel

theorem ex2Out_table : streamEncodeST (tableEnv exP ex2Table) ex2Cfg [aaa 9] = .ok ex2Out := by decide +kernel

theorem ex2_roundtrip :
    streamEncodeST (stdEncEnv exP ex2Parser) ex2Cfg [aaa 9] = .ok ex2Out ∧
    xzDecode stdEnv {} ex2Out = { ret := .streamEnd, out := aaa 9, consumed := ex2Out.length,
                                  events := headerEvents stdEnv {} ex2Cfg.check } := by
  obtain ⟨hacc, henc⟩ := stream_of_table exP ex2Parser ex2Cfg [aaa 9] ex2Table ex2Table_ok (by decide +kernel)
  have he : streamEncodeST (stdEncEnv exP ex2Parser) ex2Cfg [aaa 9] = .ok ex2Out := by rw [henc]; exact ex2Out_table
  have := (xz_roundtrip_std exP ex2Parser ex2Cfg [aaa 9] ex2Out {} UNLIMITED (by decide)
    (fun d hd _ => ⟨hacc d hd, fun h => by simp [ex2Cfg, isX86, FILTER_ARM, FILTER_X86] at h⟩) he (by decide)).1
  exact ⟨he, by simpa using this⟩

/-! ### single-call encoder, CRC64: the LZMA2 stream is longer than `lzma2_bound`, the Block is stored -/

def ex3Cfg : Cfg := { check := 4, filters := [.lzma2 4096] }

def ex3Out : List UInt8 :=
  [253, 55, 122, 88, 90, 0, 0, 4, 230, 214, 180, 70, 2, 192, 13, 9, 33, 1, 0, 0, 92, 148, 216, 67, 1, 0, 8, 97,
   97, 97, 97, 97, 97, 97, 97, 97, 0, 0, 0, 0, 151, 79, 137, 91, 83, 147, 90, 214, 0, 1, 33, 9, 108, 24, 197, 213, 31,
   182, 243, 125, 1, 0, 0, 0, 0, 4, 89, 90]

theorem ex3_payload : rawEncodeK exP ex2Parser ex3Cfg.filters (aaa 9) = some [224, 0, 8, 0, 7, 0, 0, 48, 153, 122, 9, 185, 133, 0, 0] := by
  decide +kernel

theorem ex3Out_table :
    streamBufferEncode (tableEnv exP [(aaa 9, [224, 0, 8, 0, 7, 0, 0, 48, 153, 122, 9, 185, 133, 0, 0])]) ex3Cfg (aaa 9) 200
      = .ok ex3Out := by decide +kernel

theorem ex3_roundtrip :
    streamBufferEncode (stdEncEnv exP ex2Parser) ex3Cfg (aaa 9) 200 = .ok ex3Out ∧
    xzDecode stdEnv {} ex3Out = { ret := .streamEnd, out := aaa 9, consumed := ex3Out.length,
                                  events := headerEvents stdEnv {} ex3Cfg.check } := by
  obtain ⟨hacc, henc⟩ := buffer_of_table exP ex2Parser ex3Cfg (aaa 9) _ 200 ex3_payload
  have he : streamBufferEncode (stdEncEnv exP ex2Parser) ex3Cfg (aaa 9) 200 = .ok ex3Out := by rw [henc]; exact ex3Out_table
  exact ⟨he, (xz_roundtrip_std_buffer exP ex2Parser ex3Cfg (aaa 9) ex3Out 200 {} UNLIMITED (by decide)
    (fun _ => ⟨hacc, fun h => by simp [ex3Cfg, isX86] at h⟩) he (by decide)).1⟩

end XzVerif.C01E2E
