/-
  Bridges for the BCJ filters (C15): the per-instruction loop bodies of src/liblzma/simple/{arm,armthumb,powerpc,sparc,
  arm64}.c, REGENERATED on every run into Gen/Kernels.lean (BitVec mode of tools/c2lean.py), equal the hand-written word
  functions of Model/Bcj.lean — `armWord`, `thumbCond`/`thumbConv`, `powerpcWord`, `sparcWord`, `arm64Word` — that the
  theorems of Props/C15.lean are stated over, for EVERY byte quadruple, position and direction.  The bit-vector facts are
  discharged by `bv_decide` in Lemmas/BitWordsKernels.lean (namespace XzVerif.BitWords); here they are only restated.
  Not regenerated: the loop drivers (`size &= ~3`, stride, return value — `Bcj.blockCode`, `Bcj.thumbGo`), ia64.c (table +
  inner loops over a variable byte position), x86.c and riscv.c (state across iterations / many-way instruction decoding).
-/
import XzVerif.Gen.Kernels
import XzVerif.Lemmas.BitWordsKernels
import XzVerif.Model.Bcj

namespace XzVerif.KernelsBcj
open XzVerif XzVerif.Gen XzVerif.Bcj XzVerif.BitWords

/-- arm.c: bytes 0..2 of `armWord` are stored; byte 3 is never written and `armWord` leaves it alone -/
theorem arm_word_eq (b0 b1 b2 b3 : BitVec 8) (i : BitVec 64) (enc : Bool) (now : BitVec 32) :
    Kernels.arm_word b0 b1 b2 b3 i enc now
      = (0, (getB (armWord enc (now + i.setWidth 32) (word4 b0 b1 b2 b3)) 0).setWidth 8,
            (getB (armWord enc (now + i.setWidth 32) (word4 b0 b1 b2 b3)) 1).setWidth 8,
            (getB (armWord enc (now + i.setWidth 32) (word4 b0 b1 b2 b3)) 2).setWidth 8)
      ∧ (getB (armWord enc (now + i.setWidth 32) (word4 b0 b1 b2 b3)) 3).setWidth 8 = b3 :=
  BitWords.arm_word_eq b0 b1 b2 b3 i enc now

/-- armthumb.c -/
theorem armthumb_word_eq (b0 b1 b2 b3 : BitVec 8) (i : BitVec 64) (enc : Bool) (now : BitVec 32) :
    Kernels.armthumb_word b0 b1 b2 b3 i enc now
      = if thumbCond (UInt8.ofBitVec b1) (UInt8.ofBitVec b3) then
          (0, (thumbConv enc (now + i.setWidth 32) (UInt8.ofBitVec b0) (UInt8.ofBitVec b1) (UInt8.ofBitVec b2) (UInt8.ofBitVec b3)).1.toBitVec,
              (thumbConv enc (now + i.setWidth 32) (UInt8.ofBitVec b0) (UInt8.ofBitVec b1) (UInt8.ofBitVec b2) (UInt8.ofBitVec b3)).2.1.toBitVec,
              (thumbConv enc (now + i.setWidth 32) (UInt8.ofBitVec b0) (UInt8.ofBitVec b1) (UInt8.ofBitVec b2) (UInt8.ofBitVec b3)).2.2.1.toBitVec,
              (thumbConv enc (now + i.setWidth 32) (UInt8.ofBitVec b0) (UInt8.ofBitVec b1) (UInt8.ofBitVec b2) (UInt8.ofBitVec b3)).2.2.2.toBitVec,
              i + 2#64)
        else (0, b0, b1, b2, b3, i) :=
  BitWords.armthumb_word_eq b0 b1 b2 b3 i enc now

/-- powerpc.c -/
theorem powerpc_word_eq (b0 b1 b2 b3 : BitVec 8) (i : BitVec 64) (enc : Bool) (now : BitVec 32) :
    Kernels.powerpc_word b0 b1 b2 b3 i enc now
      = (0, (getB (powerpcWord enc (now + i.setWidth 32) (word4 b0 b1 b2 b3)) 0).setWidth 8,
            (getB (powerpcWord enc (now + i.setWidth 32) (word4 b0 b1 b2 b3)) 1).setWidth 8,
            (getB (powerpcWord enc (now + i.setWidth 32) (word4 b0 b1 b2 b3)) 2).setWidth 8,
            (getB (powerpcWord enc (now + i.setWidth 32) (word4 b0 b1 b2 b3)) 3).setWidth 8) :=
  BitWords.powerpc_word_eq b0 b1 b2 b3 i enc now

/-- sparc.c -/
theorem sparc_word_eq (b0 b1 b2 b3 : BitVec 8) (i : BitVec 64) (enc : Bool) (now : BitVec 32) :
    Kernels.sparc_word b0 b1 b2 b3 i enc now
      = (0, (getB (sparcWord enc (now + i.setWidth 32) (word4 b0 b1 b2 b3)) 0).setWidth 8,
            (getB (sparcWord enc (now + i.setWidth 32) (word4 b0 b1 b2 b3)) 1).setWidth 8,
            (getB (sparcWord enc (now + i.setWidth 32) (word4 b0 b1 b2 b3)) 2).setWidth 8,
            (getB (sparcWord enc (now + i.setWidth 32) (word4 b0 b1 b2 b3)) 3).setWidth 8) :=
  BitWords.sparc_word_eq b0 b1 b2 b3 i enc now

/-- arm64.c (`instr` = `read32le(buffer + i)`, `pc` = `now_pos + i`; the result is what `write32le` stores) -/
theorem arm64_word_eq (instr pc : BitVec 32) (enc : Bool) :
    (Kernels.arm64_word instr enc pc).1 = 0 ∧ (Kernels.arm64_word instr enc pc).2.1 = arm64Word enc pc instr :=
  BitWords.arm64_word_eq instr pc enc

end XzVerif.KernelsBcj
