/-
  C06 — slicing independence of the LZMA symbol decoder with its resume points, the LZ window, and the LZMA2 / LZMA1 raw decoders
  (the part of C06 that Props/C06.lean lists as "C-vs-C oracle only").

  Model: `Model/LzmaResume.lean` — the call-level form of the one-shot decoders of Model/Lzma.lean / Model/Lzma2.lean: one call
  (`callR kind buf outSize r`) sees the input offered so far and a total output allowance, can stop at every byte fetch (`rc_read_init`,
  every `rc_normalize_safe` of a symbol, every LZMA2 header byte, `dict_write`) and at every output step (`dict_put`, `dict_repeat`
  with the remaining length), and a later call resumes there; everything `lzma_decode` / `lzma2_decode` / `decode_buffer` recompute per
  call (`eopm_is_valid`, `might_finish_without_eopm`, the clamped `dict.limit`, the end-of-call accounting and checks, `in_used` against
  the chunk's compressed size, the window limit) is recomputed per call. Sliced runs: `runSlicedR kind input pieces start`, a piece
  `(k, cap)` = "`k` more input bytes and `cap` more bytes of output space become available, then one call"; `(1, 1)` repeated is
  byte-at-a-time, `(0, 0)` an empty call.

  WHAT IS PROVED (kernel proofs; helper files Lemmas/LzmaResume*.lean):
   1. the resumable model given everything at once IS the one-shot model (`oneshot_*`);
   2. symbol level: a symbol decoded to its end is the same function of the bytes it read under any longer input (`symbol_decoder_local`);
      an LZ window copy stopped by the limit and resumed = the copy done at once (`lz_copy_resumes`);
   3. call level ("absorption"): `lzma_decode` with more input and a larger limit = `lzma_decode` with less, followed — if that returned
      LZMA_OK — by `lzma_decode` with more (`lzma_call_absorbs`); the same for `lzma2_decode` up to the chunk-overrun error
      (`lzma2_call_absorbs`); a call that stopped for lack of input is idle (`lzma_call_idle`, `lzma2_call_idle`);
   4. MAIN (`lzma2_slicing_independent_all`, `lzma1_slicing_independent_all`): for EVERY input (valid or not) and ANY two slicings
      (arbitrary pieces, zeros included, any total room, any number of window wraps) whose runs are settled, the LZMA2 (LZMA1) decoder
      ends with the same status, and — unless the chunk-overrun error was raised — has written the same output and consumed the same
      number of bytes; each run equals one call with the whole input and a larger allowance (`lzma2_sliced_eq_single_call`). The
      earlier, restricted forms (`lzma2_slicing_independent`, `lzma1_slicing_independent`: no window wrap, `FreeRoom`) are kept because
      they were the first stage; the link to the ONE-SHOT model of Model/Lzma2.lean is proved here under the no-wrap bound / `StuckAtWrap`
      exception (`lzma2_sliced_eq_oneshot`, `lzma2_window_sliced_eq_oneshot(_ended)`) and WITHOUT any restriction in
      Props/C06SliceCoder.lean (`oneshot_lzma2_all`, `lzma2_window_sliced_eq_oneshot_all`).
   5. the resume point inside a symbol: re-decoding = continuing the suspended continuation (`resume_is_continuation`).
   6. non-vacuity: a real LZMA2 stream whole / byte-at-a-time / one byte of room per call / ragged (`Lemmas/LzmaResumeExample.lean`),
      and the chunk-overrun counterexample (`Lemmas/LzmaResumeExample2.lean`: same status, different consumed/output).
      LZMA1 in ANY configuration (also known size + end marker allowed, the F1 area): `lzma1_window_slicing_independent_any`.
  WHAT IS NOT COVERED: (d) that liblzma's saved
  `sequence` + locals (`symbol`, `offset`, `len`, `limit`, `probs`) denote the continuation of 5 — C-vs-C oracle only; (e) nothing on the slicing side: both protocols are covered —
  cumulative resources (`runSlicedR`) and exact per-call windows that may shrink (`runSlicedX`), and Props/C06SliceCoder.lean restates the
  result for `Coder.runSliced (lzCoder kind)` in the generic framework of Model/Coder.lean; and gives the link to the one-shot models without any
  restriction (`oneshot_lzma1_all`, `oneshot_lzma2_all`, `lzma2_window_sliced_eq_oneshot_all`; the restricted links below are earlier stages); (f) the non-last filters of a chain, the containers, the encoders.
-/
import XzVerif.Lemmas.LzmaResumeIdle
import XzVerif.Lemmas.LzmaResumeIdle1
import XzVerif.Lemmas.LzmaResumeIdle2
import XzVerif.Lemmas.LzmaResumeL1
import XzVerif.Lemmas.LzmaResumeL2
import XzVerif.Lemmas.LzmaResumeInst1
import XzVerif.Lemmas.LzmaResumeOneShot
import XzVerif.Lemmas.LzmaResumeExample2
import XzVerif.Lemmas.LzmaResumeExample3
import XzVerif.Lemmas.LzmaResumeWrap1
import XzVerif.Lemmas.LzmaResumeWrap2
import XzVerif.Lemmas.LzmaResumeWTop
import XzVerif.Lemmas.LzmaResumeProc
import XzVerif.Lemmas.LzmaResumeXTop
import XzVerif.Lemmas.LzmaResumeHist
import XzVerif.Lemmas.LzmaResumeOneShotW
import XzVerif.Lemmas.LzmaResumeInst1Q

namespace XzVerif.C06Slice
open XzVerif XzVerif.LzDict XzVerif.Lzma XzVerif.Lzma2 XzVerif.LzmaR

/-! ## 1. the resumable model refines the one-shot model -/

/-- `Lzma2.lzma2Decode` (the model C03's correspondence ties to liblzma) is the resumable model called once with everything. -/
theorem oneshot_lzma2 (dictSize : Nat) (preset input : List UInt8) (outCap : Nat)
    (hnw : min preset.length (roundDictSize dictSize) + outCap < roundDictSize dictSize) :
    lzma2Decode dictSize input preset outCap =
      { ret := (callR .lzma2 (toBuf input) outCap (initLzma2R dictSize preset)).1,
        out := (callR .lzma2 (toBuf input) outCap (initLzma2R dictSize preset)).2.output,
        consumed := (callR .lzma2 (toBuf input) outCap (initLzma2R dictSize preset)).2.s.inPos } :=
  lzma2Decode_eq_callR_nowrap dictSize preset input outCap hnw

theorem oneshot_lzma1 (props : Props) (dictSize : Nat) (uncomp : Option Nat) (allowEopm : Bool) (preset input : List UInt8) (outCap : Nat)
    (hnw : min preset.length (roundDictSize dictSize) + outCap < roundDictSize dictSize) :
    lzmaDecode props dictSize uncomp allowEopm input preset outCap =
      { ret := (callR .lzma1 (toBuf input) outCap (initLzma1R props dictSize uncomp allowEopm preset)).1,
        out := (callR .lzma1 (toBuf input) outCap (initLzma1R props dictSize uncomp allowEopm preset)).2.output,
        consumed := (callR .lzma1 (toBuf input) outCap (initLzma1R props dictSize uncomp allowEopm preset)).2.s.inPos } :=
  lzmaDecode_eq_callR_nowrap props dictSize uncomp allowEopm preset input outCap hnw

/-! ## 2. symbol decoder and LZ window -/

/-- A symbol decoded to its end (or to an error) without running out of input is the same under every longer input, every dictionary
    limit and every value of the `uncompressed_size` member: the symbol decoder is a function of its start state and the bytes it reads. -/
theorem symbol_decoder_local (ev : Bool) (s : St) (b b' : ByteArray) (L L' : Nat) (v v' : Option Nat)
    (hag : Agree b.size b b') (hpos : s.inPos ≤ b.size) (hns : NotStarved (decodeSymbol ev (ov b L v s))) :
    decodeSymbol ev (ov b' L' v' s) = mapSt (ov b' L' v') (decodeSymbol ev (ov b L v s)) :=
  decodeSymbol_transport ev s b b' L L' v v' hag hpos hns

/-- **LZ window, output direction.** An output step (`dict_put` of a literal / short rep, `dict_repeat` of a match) refused or cut
    short by the limit `L` and resumed under a larger limit `L'` — for a match with the REMAINING length `q` — equals the step done
    under `L'` at once. -/
theorem lz_copy_resumes (p q : Pending) (s u : St) (b b' : ByteArray) (L L' : Nat) (v v' : Option Nat)
    (hL : L ≤ L') (hpos : s.dp.pos ≤ L) (h : doWrite p (ov b L v s) = .error (.outFull q) u) :
    doWrite p (ov b' L' v' s) = doWrite q (ov b' L' v' u) :=
  doWrite_full_transport p q s u b b' L L' v v' hL hpos h

/-! ## 3. call level -/

/-- **`lzma_decode` absorbs.** (`L1Absorb`, Lemmas/LzmaResumeDefs.lean.) -/
theorem lzma_call_absorbs : L1Absorb := l1Absorb

/-- frame and replay invariant of one `lzma_decode` call -/
theorem lzma_call_frame : L1Spec := l1Spec

/-- **`lzma2_decode` absorbs** (interface `CodeAbsorb`: frame, "stopped with an error ⇒ so does the larger call" up to the overrun
    error, "asked for a dictionary reset ⇒ the larger call stops at the same place", "stopped for lack of resources ⇒ the larger call
    = continuing"). -/
theorem lzma2_call_absorbs : CodeAbsorb P2 lzma2CallR := codeAbsorb_lzma2' l1Absorb

theorem lzma1_call_absorbs : CodeAbsorb P1 lzmaCallR := codeAbsorb_lzma1 l1Absorb l1Spec

/-- a call that returned LZMA_OK without reaching its limit stopped for lack of input; calling it again with the same input changes nothing -/
theorem lzma_call_idle : L1Idle := l1Idle
theorem lzma2_call_idle : CodeIdle P2 lzma2CallR := codeIdle_lzma2 l1Idle
theorem lzma1_call_idle : CodeIdle P1 lzmaCallR := codeIdle_lzma1

/-! ## 4. sliced runs -/

/-- the dictionary window cannot wrap: preset dictionary + total output room stay below the (rounded) dictionary size -/
def NoWrapRoom (dictSize : Nat) (preset : List UInt8) (M : Nat) : Prop :=
  min preset.length (roundDictSize dictSize) + M < roundDictSize dictSize

/-- **LZMA2, main theorem.** Two sliced runs over the same input — any pieces `(k, cap)`, zeros allowed, every call after the first
    with some free output room, total room `≤ M` within the no-wrap bound — that are both settled (ended with LZMA_STREAM_END or an
    error, or returned LZMA_OK having been offered all the input with output room to spare) end with the same status; and unless both
    raised the chunk-overrun LZMA_DATA_ERROR they have written the same output and consumed the same number of input bytes. -/
theorem lzma2_slicing_independent (dictSize : Nat) (preset input : List UInt8) (M : Nat) (hM : NoWrapRoom dictSize preset M)
    (k1 cap1 k2 cap2 : Nat) (sl1 sl2 : List (Nat × Nat))
    (hfr1 : FreeRoom .lzma2 input sl1 (runPieceR .lzma2 input { r := initLzma2R dictSize preset } k1 cap1))
    (hfr2 : FreeRoom .lzma2 input sl2 (runPieceR .lzma2 input { r := initLzma2R dictSize preset } k2 cap2))
    (hset1 : Settled (runSlicedR .lzma2 input ((k1, cap1) :: sl1) { r := initLzma2R dictSize preset }))
    (hset2 : Settled (runSlicedR .lzma2 input ((k2, cap2) :: sl2) { r := initLzma2R dictSize preset }))
    (hM1 : (runSlicedR .lzma2 input ((k1, cap1) :: sl1) { r := initLzma2R dictSize preset }).room ≤ M)
    (hM2 : (runSlicedR .lzma2 input ((k2, cap2) :: sl2) { r := initLzma2R dictSize preset }).room ≤ M) :
    let X1 := runSlicedR .lzma2 input ((k1, cap1) :: sl1) { r := initLzma2R dictSize preset }
    let X2 := runSlicedR .lzma2 input ((k2, cap2) :: sl2) { r := initLzma2R dictSize preset }
    X1.ret = X2.ret
    ∧ (X1.r.overrun = false ∨ X2.r.overrun = false → X1.r.output = X2.r.output ∧ X1.r.s.inPos = X2.r.s.inPos) := by
  intro X1 X2
  have hi0 := inv_initLzma2R (P := P2) (M := M) dictSize preset (p2_init dictSize preset) hM
  have hf0 := fullOk_initLzma2R dictSize preset
  have e1 := sliced_settled_eq_whole lzma2_call_absorbs lzma2_call_idle input hi0 hf0 k1 cap1 sl1 hfr1 hset1 (max X1.room X2.room)
    (Nat.le_max_left _ _) (Nat.max_le.mpr ⟨hM1, hM2⟩)
  have e2 := sliced_settled_eq_whole lzma2_call_absorbs lzma2_call_idle input hi0 hf0 k2 cap2 sl2 hfr2 hset2 (max X1.room X2.room)
    (Nat.le_max_right _ _) (Nat.max_le.mpr ⟨hM1, hM2⟩)
  have e := e1.trans e2.symm
  refine ⟨?_, ?_⟩
  · rcases e with h | h
    · exact h.1
    · exact h.1.trans h.2.1.symm
  · intro hno
    rcases e with h | h
    · exact ⟨norm_output h.2, norm_inPos h.2⟩
    · rcases hno with hn | hn
      · have := h.2.2.1; rw [show X1.r.overrun = false from hn] at this; cases this
      · have := h.2.2.2; rw [show X2.r.overrun = false from hn] at this; cases this

/-- … and each of them equals the ONE-SHOT model `Lzma2.lzma2Decode` given the whole input and any output allowance `Nstar` between
    the run's room and the no-wrap bound: same status; same output and consumed count unless the run raised the chunk-overrun error. -/
theorem lzma2_sliced_eq_oneshot (dictSize : Nat) (preset input : List UInt8) (M : Nat) (hM : NoWrapRoom dictSize preset M)
    (k cap : Nat) (sl : List (Nat × Nat))
    (hfr : FreeRoom .lzma2 input sl (runPieceR .lzma2 input { r := initLzma2R dictSize preset } k cap))
    (hset : Settled (runSlicedR .lzma2 input ((k, cap) :: sl) { r := initLzma2R dictSize preset }))
    (Nstar : Nat) (hN : (runSlicedR .lzma2 input ((k, cap) :: sl) { r := initLzma2R dictSize preset }).room ≤ Nstar) (hNM : Nstar ≤ M) :
    let X := runSlicedR .lzma2 input ((k, cap) :: sl) { r := initLzma2R dictSize preset }
    X.ret = (lzma2Decode dictSize input preset Nstar).ret
    ∧ (X.r.overrun = false →
        X.r.output = (lzma2Decode dictSize input preset Nstar).out ∧ X.r.s.inPos = (lzma2Decode dictSize input preset Nstar).consumed) := by
  intro X
  have hi0 := inv_initLzma2R (P := P2) (M := M) dictSize preset (p2_init dictSize preset) hM
  have hf0 := fullOk_initLzma2R dictSize preset
  have e := sliced_settled_eq_whole lzma2_call_absorbs lzma2_call_idle input hi0 hf0 k cap sl hfr hset Nstar hN hNM
  have hnw : min preset.length (roundDictSize dictSize) + Nstar < roundDictSize dictSize := by
    have : min preset.length (roundDictSize dictSize) + M < roundDictSize dictSize := hM
    omega
  rw [oneshot_lzma2 dictSize preset input Nstar hnw]
  refine ⟨?_, ?_⟩
  · rcases e with h | h
    · exact h.1
    · exact h.1.trans h.2.1.symm
  · intro hno
    rcases e with h | h
    · exact ⟨norm_output h.2, norm_inPos h.2⟩
    · have := h.2.2.1; rw [show X.r.overrun = false from hno] at this; cases this

/-- **LZMA1** (as the last filter of a raw chain, `.lzma`/`.lz` payload): the same theorem. `uncomp = none` (end marker required) or
    `allowEopm = false` (known size, no end marker) — see restriction (c) in the header. No chunk-overrun error exists here. -/
theorem lzma1_slicing_independent (props : Props) (dictSize : Nat) (uncomp : Option Nat) (allowEopm : Bool)
    (hcfg : uncomp = none ∨ allowEopm = false) (preset input : List UInt8) (M : Nat) (hM : NoWrapRoom dictSize preset M)
    (k1 cap1 k2 cap2 : Nat) (sl1 sl2 : List (Nat × Nat))
    (hfr1 : FreeRoom .lzma1 input sl1 (runPieceR .lzma1 input { r := initLzma1R props dictSize uncomp allowEopm preset } k1 cap1))
    (hfr2 : FreeRoom .lzma1 input sl2 (runPieceR .lzma1 input { r := initLzma1R props dictSize uncomp allowEopm preset } k2 cap2))
    (hset1 : Settled (runSlicedR .lzma1 input ((k1, cap1) :: sl1) { r := initLzma1R props dictSize uncomp allowEopm preset }))
    (hset2 : Settled (runSlicedR .lzma1 input ((k2, cap2) :: sl2) { r := initLzma1R props dictSize uncomp allowEopm preset }))
    (hM1 : (runSlicedR .lzma1 input ((k1, cap1) :: sl1) { r := initLzma1R props dictSize uncomp allowEopm preset }).room ≤ M)
    (hM2 : (runSlicedR .lzma1 input ((k2, cap2) :: sl2) { r := initLzma1R props dictSize uncomp allowEopm preset }).room ≤ M) :
    let X1 := runSlicedR .lzma1 input ((k1, cap1) :: sl1) { r := initLzma1R props dictSize uncomp allowEopm preset }
    let X2 := runSlicedR .lzma1 input ((k2, cap2) :: sl2) { r := initLzma1R props dictSize uncomp allowEopm preset }
    X1.ret = X2.ret
    ∧ (X1.r.overrun = false ∨ X2.r.overrun = false → X1.r.output = X2.r.output ∧ X1.r.s.inPos = X2.r.s.inPos) := by
  intro X1 X2
  have hi0 := inv_initLzma1R (P := P1) (M := M) props dictSize uncomp allowEopm preset
    (p1_init props dictSize uncomp allowEopm preset hcfg) hM
  have hf0 := fullOk_initLzma1R props dictSize uncomp allowEopm preset
  have e1 := sliced_settled_eq_whole lzma1_call_absorbs lzma1_call_idle input hi0 hf0 k1 cap1 sl1 hfr1 hset1 (max X1.room X2.room)
    (Nat.le_max_left _ _) (Nat.max_le.mpr ⟨hM1, hM2⟩)
  have e2 := sliced_settled_eq_whole lzma1_call_absorbs lzma1_call_idle input hi0 hf0 k2 cap2 sl2 hfr2 hset2 (max X1.room X2.room)
    (Nat.le_max_right _ _) (Nat.max_le.mpr ⟨hM1, hM2⟩)
  have e := e1.trans e2.symm
  refine ⟨?_, ?_⟩
  · rcases e with h | h
    · exact h.1
    · exact h.1.trans h.2.1.symm
  · intro hno
    rcases e with h | h
    · exact ⟨norm_output h.2, norm_inPos h.2⟩
    · rcases hno with hn | hn
      · have := h.2.2.1; rw [show X1.r.overrun = false from hn] at this; cases this
      · have := h.2.2.2; rw [show X2.r.overrun = false from hn] at this; cases this

theorem lzma1_sliced_eq_oneshot (props : Props) (dictSize : Nat) (uncomp : Option Nat) (allowEopm : Bool)
    (hcfg : uncomp = none ∨ allowEopm = false) (preset input : List UInt8) (M : Nat) (hM : NoWrapRoom dictSize preset M)
    (k cap : Nat) (sl : List (Nat × Nat))
    (hfr : FreeRoom .lzma1 input sl (runPieceR .lzma1 input { r := initLzma1R props dictSize uncomp allowEopm preset } k cap))
    (hset : Settled (runSlicedR .lzma1 input ((k, cap) :: sl) { r := initLzma1R props dictSize uncomp allowEopm preset }))
    (Nstar : Nat)
    (hN : (runSlicedR .lzma1 input ((k, cap) :: sl) { r := initLzma1R props dictSize uncomp allowEopm preset }).room ≤ Nstar)
    (hNM : Nstar ≤ M) :
    let X := runSlicedR .lzma1 input ((k, cap) :: sl) { r := initLzma1R props dictSize uncomp allowEopm preset }
    X.ret = (lzmaDecode props dictSize uncomp allowEopm input preset Nstar).ret
    ∧ (X.r.overrun = false →
        X.r.output = (lzmaDecode props dictSize uncomp allowEopm input preset Nstar).out
        ∧ X.r.s.inPos = (lzmaDecode props dictSize uncomp allowEopm input preset Nstar).consumed) := by
  intro X
  have hi0 := inv_initLzma1R (P := P1) (M := M) props dictSize uncomp allowEopm preset
    (p1_init props dictSize uncomp allowEopm preset hcfg) hM
  have hf0 := fullOk_initLzma1R props dictSize uncomp allowEopm preset
  have e := sliced_settled_eq_whole lzma1_call_absorbs lzma1_call_idle input hi0 hf0 k cap sl hfr hset Nstar hN hNM
  have hnw : min preset.length (roundDictSize dictSize) + Nstar < roundDictSize dictSize := by
    have : min preset.length (roundDictSize dictSize) + M < roundDictSize dictSize := hM
    omega
  rw [oneshot_lzma1 props dictSize uncomp allowEopm preset input Nstar hnw]
  refine ⟨?_, ?_⟩
  · rcases e with h | h
    · exact h.1
    · exact h.1.trans h.2.1.symm
  · intro hno
    rcases e with h | h
    · exact ⟨norm_output h.2, norm_inPos h.2⟩
    · have := h.2.2.1; rw [show X.r.overrun = false from hno] at this; cases this

/-! ## 4b. the same WITHOUT the no-wrap bound and WITHOUT `FreeRoom`

  `decode_buffer` wraps the window at `pos == size`; a call with more input can do work at the very end of the window (header bytes, the
  bits of one more symbol) that a call with less input does only after the wrap. `dict.size` and `LZ_DICT_REPEAT_MAX` are multiples of 16
  and `lc + lp ≤ 4`, `pb ≤ 4`, so `dict.pos & pos_mask` and the literal context agree on both sides of the wrap
  (`Lemmas/LzmaResumeAlign.lean`); `lzma_call_wraps` / `lzma2_call_wraps` say that a call made with NO room at the end of the window
  commutes with the wrap, and the LZ layer (`Lemmas/LzmaResumeWLz.lean`) uses that. States are compared up to a pending wrap (`EqvW`).
  The top-level induction runs from the last call backwards, so calls with no free output room are allowed. -/

/-- `lzma_decode` with no room at the end of the window, then wrap, then `lzma_decode` = wrap, then `lzma_decode`. -/
theorem lzma_call_wraps : L1Wrap := l1Wrap

theorem lzma1_call_wraps : CodeWrap P1 lzmaCallR := codeWrap_lzma1

theorem lzma_call_keeps_props : L1Lclppb := fun r =>
  ⟨(Wrap1.kp_lzmaCallR r).lc, (Wrap1.kp_lzmaCallR r).lp, (Wrap1.kp_lzmaCallR r).pb⟩

/-- the LZMA2 layer with the extra invariant "the remembered properties are valid" (`P2'`) -/
theorem lzma2_call_absorbs' : CodeAbsorb P2' lzma2CallR := codeAbsorb_lzma2'' l1Absorb
theorem lzma2_call_idle' : CodeIdle P2' lzma2CallR := codeIdle_lzma2'' l1Idle
theorem lzma2_call_wraps : CodeWrap P2' lzma2CallR := codeWrap_lzma2 l1Wrap lzma_call_keeps_props

/-- **LZMA2, main theorem, unrestricted.** For every dictionary size, preset dictionary, input (valid or not) and ANY two slicings —
    arbitrary pieces `(k, cap)`, zeros and calls without free room included, any total room, the window may wrap any number of times —
    whose runs are settled (ended with LZMA_STREAM_END / an error, or LZMA_OK with all input offered and room to spare): same status; and
    unless both ended with the chunk-overrun LZMA_DATA_ERROR, the same output bytes and the same consumed count. -/
theorem lzma2_slicing_independent_all (dictSize : Nat) (preset input : List UInt8) (sl1 sl2 : List (Nat × Nat))
    (hset1 : Settled (runSlicedR .lzma2 input sl1 { r := initLzma2R dictSize preset }))
    (hset2 : Settled (runSlicedR .lzma2 input sl2 { r := initLzma2R dictSize preset })) :
    let X1 := runSlicedR .lzma2 input sl1 { r := initLzma2R dictSize preset }
    let X2 := runSlicedR .lzma2 input sl2 { r := initLzma2R dictSize preset }
    X1.ret = X2.ret
    ∧ (X1.r.overrun = false ∨ X2.r.overrun = false → X1.r.output = X2.r.output ∧ X1.r.s.inPos = X2.r.s.inPos) := by
  intro X1 X2
  have hi0 := invW_initLzma2R (P := P2') dictSize preset (p2'_init dictSize preset)
  have e1 := sliced_settled_eq_whole_w' lzma2_call_absorbs' lzma2_call_wraps lzma2_call_idle' input hi0 sl1 hset1
    (max X1.room X2.room + 1) (Nat.lt_succ_of_le (Nat.le_max_left _ _))
  have e2 := sliced_settled_eq_whole_w' lzma2_call_absorbs' lzma2_call_wraps lzma2_call_idle' input hi0 sl2 hset2
    (max X1.room X2.room + 1) (Nat.lt_succ_of_le (Nat.le_max_right _ _))
  have e := e1.trans e2.symm
  refine ⟨?_, ?_⟩
  · rcases e with h | h
    · exact h.1
    · exact h.1.trans h.2.1.symm
  · intro hno
    rcases e with h | h
    · exact ⟨normW_output h.2, normW_inPos h.2⟩
    · rcases hno with hn | hn
      · have := h.2.2.1; rw [show X1.r.overrun = false from hn] at this; cases this
      · have := h.2.2.2; rw [show X2.r.overrun = false from hn] at this; cases this

/-- … and every settled sliced run equals ONE call of the resumable model with the whole input and any larger output allowance
    (e.g. `Lzma.UNLIMITED`): same status, and unless the chunk-overrun error was raised, same output and consumed count. -/
theorem lzma2_sliced_eq_single_call (dictSize : Nat) (preset input : List UInt8) (sl : List (Nat × Nat))
    (hset : Settled (runSlicedR .lzma2 input sl { r := initLzma2R dictSize preset }))
    (Nstar : Nat) (hN : (runSlicedR .lzma2 input sl { r := initLzma2R dictSize preset }).room < Nstar) :
    let X := runSlicedR .lzma2 input sl { r := initLzma2R dictSize preset }
    let Y := callR .lzma2 (toBuf input) Nstar (initLzma2R dictSize preset)
    X.ret = Y.1 ∧ (X.r.overrun = false → X.r.output = Y.2.output ∧ X.r.s.inPos = Y.2.s.inPos) := by
  intro X Y
  have hi0 := invW_initLzma2R (P := P2') dictSize preset (p2'_init dictSize preset)
  have e := sliced_settled_eq_whole_w' lzma2_call_absorbs' lzma2_call_wraps lzma2_call_idle' input hi0 sl hset Nstar hN
  refine ⟨?_, ?_⟩
  · rcases e with h | h
    · exact h.1
    · exact h.1.trans h.2.1.symm
  · intro hno
    rcases e with h | h
    · exact ⟨normW_output h.2, normW_inPos h.2⟩
    · have := h.2.2.1; rw [show X.r.overrun = false from hno] at this; cases this

/-- **LZMA1, unrestricted in window and slicing** (valid `lc/lp/pb`; unknown size, or known size without end marker). -/
theorem lzma1_slicing_independent_all (props : Props) (hv : props.valid = true) (dictSize : Nat) (uncomp : Option Nat) (allowEopm : Bool)
    (hcfg : uncomp = none ∨ allowEopm = false) (preset input : List UInt8) (sl1 sl2 : List (Nat × Nat))
    (hset1 : Settled (runSlicedR .lzma1 input sl1 { r := initLzma1R props dictSize uncomp allowEopm preset }))
    (hset2 : Settled (runSlicedR .lzma1 input sl2 { r := initLzma1R props dictSize uncomp allowEopm preset })) :
    let X1 := runSlicedR .lzma1 input sl1 { r := initLzma1R props dictSize uncomp allowEopm preset }
    let X2 := runSlicedR .lzma1 input sl2 { r := initLzma1R props dictSize uncomp allowEopm preset }
    X1.ret = X2.ret
    ∧ (X1.r.overrun = false ∨ X2.r.overrun = false → X1.r.output = X2.r.output ∧ X1.r.s.inPos = X2.r.s.inPos) := by
  intro X1 X2
  have hi0 := invW_initLzma1R (P := P1) props dictSize uncomp allowEopm preset hv (p1_init props dictSize uncomp allowEopm preset hcfg)
  have e1 := sliced_settled_eq_whole_w' lzma1_call_absorbs lzma1_call_wraps lzma1_call_idle input hi0 sl1 hset1
    (max X1.room X2.room + 1) (Nat.lt_succ_of_le (Nat.le_max_left _ _))
  have e2 := sliced_settled_eq_whole_w' lzma1_call_absorbs lzma1_call_wraps lzma1_call_idle input hi0 sl2 hset2
    (max X1.room X2.room + 1) (Nat.lt_succ_of_le (Nat.le_max_right _ _))
  have e := e1.trans e2.symm
  refine ⟨?_, ?_⟩
  · rcases e with h | h
    · exact h.1
    · exact h.1.trans h.2.1.symm
  · intro hno
    rcases e with h | h
    · exact ⟨normW_output h.2, normW_inPos h.2⟩
    · rcases hno with hn | hn
      · have := h.2.2.1; rw [show X1.r.overrun = false from hn] at this; cases this
      · have := h.2.2.2; rw [show X2.r.overrun = false from hn] at this; cases this

/-! ## 4b′. exact per-call windows (the `lzma_code` protocol: `avail_in`, `avail_out` per call; windows may shrink)

  `runSlicedX` (Model/LzmaResumeRun.lean): the piece `(inLen, cap)` offers the next `inLen` unconsumed input bytes and exactly `cap` bytes
  of output space; what a call leaves unconsumed is offered again, unused output space is not carried over. `settled` as in
  `Coder.Run` of Model/Coder.lean. -/

/-- **LZMA2, any two settled exact-window slicings** (arbitrary `(avail_in, avail_out)` per call, zeros included): same status; unless
    both raised the chunk-overrun error: same output, same consumed count. -/
theorem lzma2_window_slicing_independent (dictSize : Nat) (preset input : List UInt8) (sl1 sl2 : List (Nat × Nat))
    (hset1 : (runSlicedX .lzma2 input sl1 { r := initLzma2R dictSize preset }).settled = true)
    (hset2 : (runSlicedX .lzma2 input sl2 { r := initLzma2R dictSize preset }).settled = true) :
    let X1 := runSlicedX .lzma2 input sl1 { r := initLzma2R dictSize preset }
    let X2 := runSlicedX .lzma2 input sl2 { r := initLzma2R dictSize preset }
    X1.ret = X2.ret
    ∧ ((X1.r.overrun = false ∨ X2.r.overrun = false) → X1.r.output = X2.r.output ∧ X1.r.s.inPos = X2.r.s.inPos) :=
  two_xslicings_agree_obs lzma2_call_absorbs' lzma2_call_wraps lzma2_call_idle' input
    (invW_initLzma2R (P := P2') dictSize preset (p2'_init dictSize preset)) sl1 sl2 hset1 hset2

theorem lzma1_window_slicing_independent (props : Props) (hv : props.valid = true) (dictSize : Nat) (uncomp : Option Nat) (allowEopm : Bool)
    (hcfg : uncomp = none ∨ allowEopm = false) (preset input : List UInt8) (sl1 sl2 : List (Nat × Nat))
    (hset1 : (runSlicedX .lzma1 input sl1 { r := initLzma1R props dictSize uncomp allowEopm preset }).settled = true)
    (hset2 : (runSlicedX .lzma1 input sl2 { r := initLzma1R props dictSize uncomp allowEopm preset }).settled = true) :
    let X1 := runSlicedX .lzma1 input sl1 { r := initLzma1R props dictSize uncomp allowEopm preset }
    let X2 := runSlicedX .lzma1 input sl2 { r := initLzma1R props dictSize uncomp allowEopm preset }
    X1.ret = X2.ret
    ∧ ((X1.r.overrun = false ∨ X2.r.overrun = false) → X1.r.output = X2.r.output ∧ X1.r.s.inPos = X2.r.s.inPos) :=
  two_xslicings_agree_obs lzma1_call_absorbs lzma1_call_wraps lzma1_call_idle input
    (invW_initLzma1R (P := P1) props dictSize uncomp allowEopm preset hv (p1_init props dictSize uncomp allowEopm preset hcfg))
    sl1 sl2 hset1 hset2

/-- **LZMA1 in ANY configuration** — also "known uncompressed size AND end marker allowed" (`.lzma` files with known size,
    LZMA1EXT + ALLOW_EOPM; the configuration of the historical defect F1, where `eopm_is_valid` was forgotten between calls): the
    restriction `hcfg` is replaced by the range-decoder/probability invariant `RcQR` (range ≥ 2^16, probabilities in [31, 2017]),
    which holds from initialisation on: after the known-size test has normalised the range decoder, the re-entry at SEQ_IS_MATCH cannot
    run out of input. Call level: `l1AbsorbQ`, `l1IdleQ`, `l1WrapQ` (Lemmas/LzmaResumeL1Q.lean, Idle1Q, Wrap1Q). -/
theorem lzma1_window_slicing_independent_any (props : Props) (hv : props.valid = true) (dictSize : Nat) (uncomp : Option Nat)
    (allowEopm : Bool) (preset input : List UInt8) (sl1 sl2 : List (Nat × Nat))
    (hset1 : (runSlicedX .lzma1 input sl1 { r := initLzma1R props dictSize uncomp allowEopm preset }).settled = true)
    (hset2 : (runSlicedX .lzma1 input sl2 { r := initLzma1R props dictSize uncomp allowEopm preset }).settled = true) :
    let X1 := runSlicedX .lzma1 input sl1 { r := initLzma1R props dictSize uncomp allowEopm preset }
    let X2 := runSlicedX .lzma1 input sl2 { r := initLzma1R props dictSize uncomp allowEopm preset }
    X1.ret = X2.ret
    ∧ ((X1.r.overrun = false ∨ X2.r.overrun = false) → X1.r.output = X2.r.output ∧ X1.r.s.inPos = X2.r.s.inPos) :=
  two_xslicings_agree_obs codeAbsorb_lzma1Q' codeWrap_lzma1Q' codeIdle_lzma1Q input
    (invW_initLzma1R (P := P1Q) props dictSize uncomp allowEopm preset hv (p1q_init props dictSize uncomp allowEopm preset))
    sl1 sl2 hset1 hset2

/-- the same for growing-resource slicings (`runSlicedR`) -/
theorem lzma1_slicing_independent_any (props : Props) (hv : props.valid = true) (dictSize : Nat) (uncomp : Option Nat) (allowEopm : Bool)
    (preset input : List UInt8) (sl1 sl2 : List (Nat × Nat))
    (hset1 : Settled (runSlicedR .lzma1 input sl1 { r := initLzma1R props dictSize uncomp allowEopm preset }))
    (hset2 : Settled (runSlicedR .lzma1 input sl2 { r := initLzma1R props dictSize uncomp allowEopm preset }))
    (hno : (runSlicedR .lzma1 input sl1 { r := initLzma1R props dictSize uncomp allowEopm preset }).r.overrun = false
      ∨ (runSlicedR .lzma1 input sl2 { r := initLzma1R props dictSize uncomp allowEopm preset }).r.overrun = false) :
    let X1 := runSlicedR .lzma1 input sl1 { r := initLzma1R props dictSize uncomp allowEopm preset }
    let X2 := runSlicedR .lzma1 input sl2 { r := initLzma1R props dictSize uncomp allowEopm preset }
    X1.ret = X2.ret ∧ X1.r.output = X2.r.output ∧ X1.r.s.inPos = X2.r.s.inPos :=
  two_slicings_agree_settled_obs_w' codeAbsorb_lzma1Q' codeWrap_lzma1Q' codeIdle_lzma1Q input
    (invW_initLzma1R (P := P1Q) props dictSize uncomp allowEopm preset hv (p1q_init props dictSize uncomp allowEopm preset))
    sl1 sl2 hset1 hset2 hno

/-- `RSt.output` (what the theorems compare) IS the concatenation of what the individual calls wrote: the history is append-only. -/
theorem output_is_concatenation (kind : Kind) (input : List UInt8) (sl : List (Nat × Nat)) (x : XRun)
    (h : x.r.s.outBase ≤ x.r.s.hist.size) :
    (runSlicedX kind input sl x).r.output = x.r.output ++ (outsX kind input sl x).flatten :=
  runSlicedX_output kind input sl x h

/-- … and a settled exact-window run agrees with the ONE-SHOT model `Lzma2.lzma2Decode` on the whole input with any allowance `Nstar`
    above everything the run offered (e.g. the default `Lzma.UNLIMITED`), provided the one-shot run did not starve exactly at the end
    of the window (`StuckAtWrap`, see Lemmas/LzmaResumeOneShotW.lean — the one situation in which the link between the two models is
    not proved; it cannot occur when the one-shot status is LZMA_STREAM_END or an error). -/
theorem lzma2_window_sliced_eq_oneshot (dictSize : Nat) (preset input : List UInt8) (sl : List (Nat × Nat))
    (hset : (runSlicedX .lzma2 input sl { r := initLzma2R dictSize preset }).settled = true)
    (Nstar : Nat) (hN : maxRoomX .lzma2 input sl { r := initLzma2R dictSize preset } < Nstar)
    (hns : ¬ StuckAtWrap ((Coder.initLzma2 dictSize preset (toBuf input)).code Nstar).2) :
    let X := runSlicedX .lzma2 input sl { r := initLzma2R dictSize preset }
    X.ret = (lzma2Decode dictSize input preset Nstar).ret
    ∧ (X.r.overrun = false →
        X.r.output = (lzma2Decode dictSize input preset Nstar).out ∧ X.r.s.inPos = (lzma2Decode dictSize input preset Nstar).consumed) := by
  intro X
  have e := xsliced_settled_eq_whole lzma2_call_absorbs' lzma2_call_wraps lzma2_call_idle' input
    (invW_initLzma2R (P := P2') dictSize preset (p2'_init dictSize preset)) sl hset Nstar hN
  rw [lzma2Decode_eq_callR_unlessStuckAtWrap dictSize preset input Nstar hns]
  refine ⟨?_, ?_⟩
  · rcases e with h | h
    · exact h.1
    · exact h.1.trans h.2.1.symm
  · intro hno
    rcases e with h | h
    · exact ⟨normW_output h.2, normW_inPos h.2⟩
    · have := h.2.2.1; rw [show X.r.overrun = false from hno] at this; cases this

/-- For streams that END (one-shot status LZMA_STREAM_END or an error) the link is unconditional: every settled exact-window run over
    the input returns what `lzma2Decode` returns for the whole input and any allowance above what the run offered. -/
theorem lzma2_window_sliced_eq_oneshot_ended (dictSize : Nat) (preset input : List UInt8) (sl : List (Nat × Nat))
    (hset : (runSlicedX .lzma2 input sl { r := initLzma2R dictSize preset }).settled = true)
    (Nstar : Nat) (hN : maxRoomX .lzma2 input sl { r := initLzma2R dictSize preset } < Nstar)
    (hend : (lzma2Decode dictSize input preset Nstar).ret ≠ .ok) :
    let X := runSlicedX .lzma2 input sl { r := initLzma2R dictSize preset }
    X.ret = (lzma2Decode dictSize input preset Nstar).ret
    ∧ (X.r.overrun = false →
        X.r.output = (lzma2Decode dictSize input preset Nstar).out ∧ X.r.s.inPos = (lzma2Decode dictSize input preset Nstar).consumed) := by
  intro X
  have e := xsliced_settled_eq_whole lzma2_call_absorbs' lzma2_call_wraps lzma2_call_idle' input
    (invW_initLzma2R (P := P2') dictSize preset (p2'_init dictSize preset)) sl hset Nstar hN
  rw [lzma2Decode_eq_callR_of_ended dictSize preset input Nstar hend]
  refine ⟨?_, ?_⟩
  · rcases e with h | h
    · exact h.1
    · exact h.1.trans h.2.1.symm
  · intro hno
    rcases e with h | h
    · exact ⟨normW_output h.2, normW_inPos h.2⟩
    · have := h.2.2.1; rw [show X.r.overrun = false from hno] at this; cases this

theorem lzma1_window_sliced_eq_oneshot_ended (props : Props) (hv : props.valid = true) (dictSize : Nat) (uncomp : Option Nat)
    (allowEopm : Bool) (preset input : List UInt8) (sl : List (Nat × Nat))
    (hset : (runSlicedX .lzma1 input sl { r := initLzma1R props dictSize uncomp allowEopm preset }).settled = true)
    (Nstar : Nat) (hN : maxRoomX .lzma1 input sl { r := initLzma1R props dictSize uncomp allowEopm preset } < Nstar)
    (hend : (lzmaDecode props dictSize uncomp allowEopm input preset Nstar).ret ≠ .ok) :
    let X := runSlicedX .lzma1 input sl { r := initLzma1R props dictSize uncomp allowEopm preset }
    X.ret = (lzmaDecode props dictSize uncomp allowEopm input preset Nstar).ret
    ∧ X.r.output = (lzmaDecode props dictSize uncomp allowEopm input preset Nstar).out
    ∧ X.r.s.inPos = (lzmaDecode props dictSize uncomp allowEopm input preset Nstar).consumed := by
  intro X
  have e := xsliced_settled_eq_whole codeAbsorb_lzma1Q' codeWrap_lzma1Q' codeIdle_lzma1Q input
    (invW_initLzma1R (P := P1Q) props dictSize uncomp allowEopm preset hv (p1q_init props dictSize uncomp allowEopm preset))
    sl hset Nstar hN
  rw [lzmaDecode_eq_callR_of_ended props dictSize uncomp allowEopm preset input Nstar hend]
  rcases e with h | h
  · exact ⟨h.1, normW_output h.2, normW_inPos h.2⟩
  · -- the overrun flag is never set by the LZMA1 coder: both flags equal the initial `false`
    exfalso
    have h0 : (callR .lzma1 (toBuf input) Nstar (initLzma1R props dictSize uncomp allowEopm preset)).2.overrun = false :=
      lzma1_overrun_false _ _ _ rfl
    have := h.2.2.2
    rw [h0] at this
    cases this

/-! ## 4c. the resume point inside a symbol

  `Model/LzmaResume.lean` represents "stopped inside a symbol" by the saved members and re-decodes the symbol over the longer input.
  `Lemmas/LzmaResumeProc.lean` gives the continuation semantics of the SAME monadic text (`decodeSymbolP`: every byte fetch suspends,
  the saved resume state is the continuation) and shows that the two agree: -/

/-- Continuing the continuation that was suspended when the input `s.inp` ran out, over a longer input `inp'`, is decoding the symbol again
    from its start state over `inp'`. (That liblzma's saved `sequence` + locals denote this continuation is not a theorem here.) -/
theorem resume_is_continuation (ev : Bool) (s : St) (inp' : ByteArray) (hag : Agree s.inp.size s.inp inp') (hpos : s.inPos ≤ s.inp.size) :
    mapSt (fun t => St.withInp t inp') (Proc.run inp' (Proc.susp s.inp (Proc.decodeSymbolP ev s))) = decodeSymbol ev (St.withInp s inp') :=
  Proc.resume_is_redecode_view ev s inp' hag hpos

/-! ## 5. non-vacuity -/

/-- a real LZMA2 stream (liblzma's encoding of "aaaaaaaaaa": one LZMA chunk, a literal and a match): whole; one byte in / one byte of room
    per call; all input and one byte of room per call; ragged with empty calls — all `LZMA_STREAM_END`, 10 bytes, 14 consumed; and the
    one-shot model agrees (kernel-evaluated in Lemmas/LzmaResumeExample.lean) -/
example : showRun (runSlicedR .lzma2 exStream [(14, 100)] { r := initLzma2R 4096 [] }) = (.streamEnd, exPlain, 14, true) := ex_whole
example : showRun (runSlicedR .lzma2 exStream (List.replicate 16 (1, 1)) { r := initLzma2R 4096 [] }) = (.streamEnd, exPlain, 14, true) :=
  ex_bytewise
example : showRun (runSlicedR .lzma2 exStream ((14, 1) :: List.replicate 9 (0, 1)) { r := initLzma2R 4096 [] })
    = (.streamEnd, exPlain, 14, false) := ex_out1
example : lzma2Decode 4096 exStream = { ret := .streamEnd, out := exPlain, consumed := 14 } := ex_oneshot
/-- the hypotheses of the main theorem are satisfiable by these runs: no-wrap bound for room ≤ 100 with a 4096-byte dictionary -/
example : NoWrapRoom 4096 [] 100 := by unfold NoWrapRoom; decide
/-- the chunk-overrun counterexample: status equal, consumed count and output differ (15/12 bytes whole, 14/11 bytewise, 14/10 with one
    byte of room per call), all three flagged `overrun` -/
example : showRun' (runSlicedR .lzma2 exOverrun [(22, 100)] { r := initLzma2R 4096 [] }) = (.dataError, exPlain ++ [0, 0], 15, true) :=
  ex_overrun_whole
example : showRun' (runSlicedR .lzma2 exOverrun (List.replicate 16 (1, 1)) { r := initLzma2R 4096 [] })
    = (.dataError, exPlain ++ [0], 14, true) := ex_overrun_bytewise

/-- exact windows (`avail_in = avail_out = 1` per call; ragged with empty calls, calls without room, shrinking windows): settled, same
    result; a truncated input settles with LZMA_OK at the same place under every slicing -/
example : showX (runSlicedX .lzma2 exStream (List.replicate 30 (1, 1)) { r := initLzma2R 4096 [] }) = (.streamEnd, exPlain, 14, true, false) :=
  ex_x_bytewise
example : showX (runSlicedX .lzma2 exStream [(5, 0), (0, 3), (9, 2), (2, 0), (1, 1), (9, 1), (9, 9), (9, 9)] { r := initLzma2R 4096 [] })
    = (.streamEnd, exPlain, 14, true, false) := ex_x_ragged
example : showX (runSlicedX .lzma2 (exStream.take 12) [(5, 0), (0, 3), (9, 2), (2, 0), (1, 1), (9, 1), (9, 9)] { r := initLzma2R 4096 [] })
    = (.ok, [97], 12, true, false) := ex_x_truncated

end XzVerif.C06Slice
