/-
  C20 — xzgrep/xzdiff act as grep/diff on decompressed data; names are data.
  The theorems are about the interpreter of Model/Shell.lean applied to the script text in Gen/C20.lean
  (cut from src/scripts/xzgrep.in and xzdiff.in on every run).  Helper lemmas: Lemmas/Shell.lean.
-/
import XzVerif.Model.Shell
import XzVerif.Lemmas.Shell
import XzVerif.Lemmas.ShellStatus
import XzVerif.Lemmas.ShellGlob
import XzVerif.Gen.C20

set_option linter.unusedSimpArgs false

namespace XzVerif.C20
open XzVerif.Shell XzVerif.Gen.C20

/-! ## bridges: what the script text is, according to the model's own parsers -/

/-- The `escape` shell word of xzgrep, read by the sh reader and parsed by the sed parser, is the program
    `s/'/'\''/g ; $s/X$/'/`. -/
theorem escape_program_parses : (litWord grepEscapeSrc).bind sedParse = some escapeCmds := by decide

/-- xzdiff carries the same `escape` program. -/
theorem escape_program_xzdiff : (litWord diffEscapeSrc).bind sedParse = some escapeCmds := by decide

/-- The label-escaping program is `s/[&\|]/\\&/g ; $!s/$/\\/`. -/
theorem label_program_parses : (litWord labelSedSrc).bind sedParse = some labelCmds := by decide

/-- Every quoting site feeds the escape program through `printf '%sX\n'` (the X protects trailing newlines). -/
theorem sites_use_guarded_format :
    (grepSites ++ [diffSite]).all (fun s => litWord s.fmt == some [37, 115, 88, 92, 110]) = true := by decide

/-- The escaping path of every xzgrep site is selected by `*'*`: exactly the values that contain a quote. -/
theorem sites_guard_is_any_quote :
    grepSites.all (fun s => parseAlts s.guard == some [[.star, .cls false [39], .star]]) = true := by decide

/-! ## the escape pipeline -/

theorem printf_guarded (v : Bytes) : printfS [37, 115, 88, 92, 110] v = some (v ++ [88, 10]) := by
  simp [printfS, NL]

/-- `$(printf '%sX\n' "$v" | sed "$escape")` is `v` with every `'` replaced by `'\''`, followed by `'`. -/
theorem escape_subst_value (esc fmt : Bytes) (he : (litWord esc).bind sedParse = some escapeCmds)
    (hf : litWord fmt = some [37, 115, 88, 92, 110]) (v : Bytes) :
    printfSedSubst esc fmt v = some (v.flatMap escQ ++ [39]) := by
  unfold printfSedSubst
  cases hp : litWord esc with
  | none => simp [hp] at he
  | some prog =>
    simp only [hp, Option.bind_some] at he
    simp only [hf, Option.bind_eq_bind, Option.bind_some, printf_guarded, sedRun, he, Option.map_some, Option.pure_def]
    have := sedStream_escape v []
    simp only [List.flatMap_nil, List.nil_append] at this
    rw [this, cmdSubst_append_nl _ _ (by decide)]

/-- **escape_quotes_exactly.** For every byte string `s` without NUL (newlines, quotes, backslashes, `$`, backquote,
    `;`, `&`, `|` included) and every quoting site of xzgrep/xzdiff: the text ` '`++`$(printf '%sX\n' "$s" | sed "$escape")`
    is read by the shell as exactly one word, equal to `s`, all literal — nothing is expanded or executed. -/
theorem escape_quotes_exactly (s : Bytes) (h0 : (0 : UInt8) ∉ s) (site : QuoteSite) (hs : site ∈ grepSites ++ [diffSite]) :
    ∃ q, printfSedSubst grepEscapeSrc site.fmt s = some q ∧ printfSedSubst diffEscapeSrc site.fmt s = some q ∧
      shWordsLit ([SP, SQ] ++ q) = some [s] := by
  have hf : litWord site.fmt = some [37, 115, 88, 92, 110] := by
    have := List.all_eq_true.mp sites_use_guarded_format site hs
    simpa using this
  refine ⟨s.flatMap escQ ++ [39], escape_subst_value _ _ escape_program_parses hf s,
    escape_subst_value _ _ escape_program_xzdiff hf s, ?_⟩
  have e : [SP, SQ] ++ (s.flatMap escQ ++ [39]) = SP :: Q s := by simp [Q, SQ]
  obtain ⟨g, w⟩ := read_sp_quoted s h0 {} good_init
  simp only [shWordsLit, shWords, e, finish_good _ g, w]
  simp [RS.wordsDone, Word.litOnly?]

/-- **plain_quote_exact.** The fast path: a value without `'` (and without NUL) between plain quotes is read as itself. -/
theorem plain_quote_exact (s : Bytes) (h0 : (0 : UInt8) ∉ s) (hq : SQ ∉ s) :
    shWordsLit ([SP, SQ] ++ s ++ [SQ]) = some [s] := by
  have e : [SP, SQ] ++ s ++ [SQ] = SP :: Q s := by simp [Q, flatMap_escQ_of_no_quote s hq]
  obtain ⟨g, w⟩ := read_sp_quoted s h0 {} good_init
  simp only [shWordsLit, shWords, e, finish_good _ g, w]
  simp [RS.wordsDone, Word.litOnly?]

/-- non-vacuity: a hostile name goes through the real literals and comes back. `a'$(x);\n` -/
example : (printfSedSubst grepEscapeSrc siteOperands.fmt [97, 39, 36, 40, 120, 41, 59, 10]).bind
    (fun q => shWordsLit ([SP, SQ] ++ q)) = some [[97, 39, 36, 40, 120, 41, 59, 10]] := by decide

/-! ## the quoting sites of xzgrep: both paths produce the canonical quoted form `Q v` -/

abbrev vOne : Bytes := [49]                                        -- $1
abbrev vOption : Bytes := [111, 112, 116, 105, 111, 110]           -- $option
abbrev vOptarg : Bytes := [111, 112, 116, 97, 114, 103]            -- $optarg
abbrev vOperands : Bytes := [111, 112, 101, 114, 97, 110, 100, 115] -- $operands
abbrev vGrep : Bytes := [103, 114, 101, 112]                       -- $grep
abbrev vI : Bytes := [105]                                         -- $i
def env0 : VarEnv := fun _ => []

theorem caseMatch_any_quote (g : Bytes) (hg : parseAlts g = some [[.star, .cls false [39], .star]]) (v : Bytes) :
    caseMatch g v = some (v.contains SQ) := by
  simp [caseMatch, hg, globMatch_star_lit_star, SQ]

/-- A site whose guard is `*'*` and whose two branches read as the words `pw` / `plw`. -/
theorem site_value_of (site : QuoteSite) (env : VarEnv) (pw plw : Word)
    (hg : parseAlts site.guard = some [[.star, .cls false [39], .star]])
    (hf : litWord site.fmt = some [37, 115, 88, 92, 110])
    (hpre : shWords site.pre = .ok [pw]) (hplain : shWords site.plain = .ok [plw]) :
    site.value grepEscapeSrc env =
      some (if (env site.var).contains SQ then pw.subst env ++ ((env site.var).flatMap escQ ++ [39]) else plw.subst env) := by
  unfold QuoteSite.value
  simp only [caseMatch_any_quote _ hg, Option.bind_eq_bind, Option.bind_some]
  by_cases h : SQ ∈ env site.var
  · simp [h, evalWordSrc, hpre, escape_subst_value _ _ escape_program_parses hf]
  · simp [h, evalWordSrc, hplain]

theorem optarg_value (env : VarEnv) : siteOptarg.value grepEscapeSrc env = some (SP :: Q (env vOne)) := by
  have h := site_value_of siteOptarg env [.lit [32, 39]] [.lit [32, 39], .var [49], .lit [39]]
    (by decide) (by decide) (by decide) (by decide)
  rw [h]
  have hv : siteOptarg.var = [49] := rfl
  rw [hv]
  by_cases hq : SQ ∈ env [49]
  · simp [hq, Word.subst, Q, SQ, SP]
  · simp [hq, Word.subst, Q, flatMap_escQ_of_no_quote _ hq, SQ, SP]

theorem operands_value (env : VarEnv) :
    siteOperands.value grepEscapeSrc env = some (env vOperands ++ SP :: Q (env vOption)) := by
  have h := site_value_of siteOperands env [.var vOperands, .lit [32, 39]] [.var vOperands, .lit [32, 39], .var vOption, .lit [39]]
    (by decide) (by decide) (by decide) (by decide)
  rw [h]
  have hv : siteOperands.var = vOption := rfl
  rw [hv]
  by_cases hq : SQ ∈ env vOption
  · simp [hq, Word.subst, Q, SQ, SP]
  · simp [hq, Word.subst, Q, flatMap_escQ_of_no_quote _ hq, SQ, SP]

theorem option_value (env : VarEnv) : siteOption.value grepEscapeSrc env = some (Q (env vOption)) := by
  have h := site_value_of siteOption env [.lit [39]] [.lit [39], .var vOption, .lit [39]]
    (by decide) (by decide) (by decide) (by decide)
  rw [h]
  have hv : siteOption.var = vOption := rfl
  rw [hv]
  by_cases hq : SQ ∈ env vOption
  · simp [hq, Word.subst, Q, SQ]
  · simp [hq, Word.subst, Q, flatMap_escQ_of_no_quote _ hq, SQ]

theorem pattern_value (env : VarEnv) :
    sitePattern.value grepEscapeSrc env = some (env vGrep ++ [32, 45, 101, 32] ++ Q (env vOne)) := by
  have h := site_value_of sitePattern env [.var vGrep, .lit [32, 45, 101, 32, 39]] [.var vGrep, .lit [32, 45, 101, 32, 39], .var vOne, .lit [39]]
    (by decide) (by decide) (by decide) (by decide)
  rw [h]
  have hv : sitePattern.var = vOne := rfl
  rw [hv]
  by_cases hq : SQ ∈ env vOne
  · simp [hq, Word.subst, Q, SQ]
  · simp [hq, Word.subst, Q, flatMap_escQ_of_no_quote _ hq, SQ]

/-- `-*'*` (xzdiff's guard): a dash followed by anything that contains a quote. -/
theorem globMatch_dash_star_quote_star (w : Bytes) :
    globMatch [.cls false [45], .star, .cls false [39], .star] (45 :: w) = w.contains 39 := by
  have h : globMatch [.cls false [45], .star, .cls false [39], .star] (45 :: w)
      = (([45] : Bytes).contains 45 != false && globMatch [.star, .cls false [39], .star] w) := by simp only [globMatch]
  rw [h, globMatch_star_lit_star]; simp

/-- **xzdiff option quoting.** Every option of xzdiff/xzcmp (an argument that starts with `-`) is appended to `$cmp`
    in the canonical quoted form, whichever of the two arms (`-*'*` escaping, `-?*` plain) takes it. -/
theorem xzdiff_option_value (env : VarEnv) (w : Bytes) (hv : env vOne = 45 :: w) :
    diffSite.value diffEscapeSrc env = some (env [99, 109, 112] ++ SP :: Q (45 :: w)) := by
  have hg : parseAlts diffSite.guard = some [[.cls false [45], .star, .cls false [39], .star]] := by decide
  have hf : litWord diffSite.fmt = some [37, 115, 88, 92, 110] := by decide
  have hpre : shWords diffSite.pre = .ok [[.var [99, 109, 112], .lit [32, 39]]] := by decide
  have hplain : shWords diffSite.plain = .ok [[.var [99, 109, 112], .lit [32, 39], .var vOne, .lit [39]]] := by decide
  have hvar : diffSite.var = vOne := rfl
  unfold QuoteSite.value
  simp only [hvar, hv, caseMatch, hg, Option.map_some, List.any_cons, List.any_nil, Bool.or_false,
    globMatch_dash_star_quote_star, Option.bind_eq_bind, Option.bind_some]
  by_cases hq : (39 : UInt8) ∈ w
  · simp [hq, evalWordSrc, hpre, escape_subst_value _ _ escape_program_xzdiff hf, Word.subst, Q, hv, SQ, SP, escQ]
  · have hq' : SQ ∉ (45 :: w : Bytes) := by simp [SQ, hq]
    simp [hq, evalWordSrc, hplain, Word.subst, Q, hv, flatMap_escQ_of_no_quote _ hq', SQ, SP]

/-! ## operands and the grep command line, as `eval` reads them -/

/-- The variable `operands` after the option loop has met the operands `ops`, in order (script site at
    `siteOperands.line`, run once per operand). -/
def buildOperands : Bytes → List Bytes → Option Bytes
  | acc, [] => some acc
  | acc, o :: os =>
      (siteOperands.value grepEscapeSrc ((env0.set vOperands acc).set vOption o)).bind fun acc' => buildOperands acc' os

theorem buildOperands_eq (acc : Bytes) (ops : List Bytes) :
    buildOperands acc ops = some (acc ++ ops.flatMap fun o => SP :: Q o) := by
  induction ops generalizing acc with
  | nil => simp [buildOperands]
  | cons o os ih => simp [buildOperands, operands_value, ih, VarEnv.set]

/-- After a Good state, ` ${1+"$@"}` adds the word "all remaining arguments" and the text ends. -/
theorem finish_args_tail (st : RS) (hg : st.Good) :
    finish (readFrom st [32, 36, 123, 49, 43, 34, 36, 64, 34, 125]) = .ok (st.wordsDone ++ [[.args]]) := by
  obtain ⟨mode, done, segs, lit, name⟩ := st
  obtain ⟨hopen, hsegs, hlit⟩ := hg
  simp only [] at hsegs hlit
  subst hsegs
  rcases hopen with h | h <;> simp only [] at h <;> subst h
  · have hl : lit = [] := hlit rfl
    subst hl
    simp [readFrom, step, stepUnq, isOperator, isExpansion, argsPat, finish, RS.wordsDone, RS.endWord, RS.curWord,
      RS.flushLit, SP, TAB, NL, SQ, DQ, BSL, DOLLAR, BQ]
  · simp [readFrom, step, stepUnq, isOperator, isExpansion, argsPat, finish, RS.wordsDone, RS.endWord, RS.curWord,
      RS.flushLit, SP, TAB, NL, SQ, DQ, BSL, DOLLAR, BQ]

/-- **operands_preserved.** For every list of operands (patterns and file names: any bytes but NUL), the text the script
    passes to `eval "set -- $operands "'${1+"$@"}'` is read as `set`, `--`, then exactly the original operands, in order,
    each one literal word, then the remaining arguments. -/
theorem operands_preserved (ops : List Bytes) (h0 : ∀ o ∈ ops, (0 : UInt8) ∉ o) :
    ∃ operands t, buildOperands [] ops = some operands ∧
      evalWordSrc evalSetOperandsSrc (env0.set vOperands operands) = some t ∧
      shWords t = .ok ([[.lit [115, 101, 116]], [.lit [45, 45]]] ++ ops.map (fun o => [Seg.lit o]) ++ [[.args]]) := by
  refine ⟨_, [115, 101, 116, 32, 45, 45, 32] ++ ([] ++ ops.flatMap fun o => SP :: Q o) ++ [32, 36, 123, 49, 43, 34, 36, 64, 34, 125],
    buildOperands_eq [] ops, ?_, ?_⟩
  · have hw : shWords evalSetOperandsSrc
        = .ok [[.lit [115, 101, 116, 32, 45, 45, 32], .var vOperands, .lit [32, 36, 123, 49, 43, 34, 36, 64, 34, 125]]] := by decide
    simp [evalWordSrc, hw, Word.subst, VarEnv.set]
  · simp only [List.nil_append]
    have h1 : readFrom {} [115, 101, 116, 32, 45, 45, 32] = ⟨.blank, [[.lit [115, 101, 116]], [.lit [45, 45]]], [], [], []⟩ := by decide
    have g1 : RS.Good ⟨.blank, [[.lit [115, 101, 116]], [.lit [45, 45]]], [], [], []⟩ := by simp [RS.Good, RS.open_]
    obtain ⟨g2, w2⟩ := read_quoted_list ops h0 _ g1
    unfold shWords
    rw [readFrom_append, readFrom_append, h1, finish_args_tail _ g2, w2]
    simp [RS.wordsDone]

/-- non-vacuity on the real literals: operands `a b`, `it's`, `$(x)` come back as three literal words. -/
example : ((buildOperands [] [[97, 32, 98], [105, 116, 39, 115], [36, 40, 120, 41]]).bind
      (fun ops => evalWordSrc evalSetOperandsSrc (env0.set vOperands ops))).map shWords
    = some (.ok [[.lit [115, 101, 116]], [.lit [45, 45]], [.lit [97, 32, 98]], [.lit [105, 116, 39, 115]], [.lit [36, 40, 120, 41]], [.args]]) := by
  decide

/-- The option-splitting site (`-Fiv` → `-F` `-iv`): `arg2=-\'$(expr … | sed "$escape")`, then
    `eval "set -- $arg2 "'${1+"$@"}'`: the re-inserted argument is `-` followed by the remaining option bytes. -/
theorem split_option_requoted (rest : Bytes) (h0 : (0 : UInt8) ∉ rest) :
    ∃ pre q t, litWord splitPrefixSrc = some pre ∧
      ((litWord grepEscapeSrc).bind fun prog => (sedRun prog (rest ++ splitGuardSuffix ++ [NL])).map cmdSubst) = some q ∧
      evalWordSrc evalSetArg2Src (env0.set [97, 114, 103, 50] (pre ++ q)) = some t ∧
      shWords t = .ok [[.lit [115, 101, 116]], [.lit [45, 45]], [.lit (45 :: rest)], [.args]] := by
  have hp : litWord splitPrefixSrc = some [45, 39] := by decide
  refine ⟨[45, 39], rest.flatMap escQ ++ [39],
    [115, 101, 116, 32, 45, 45, 32] ++ ([45, 39] ++ (rest.flatMap escQ ++ [39])) ++ [32, 36, 123, 49, 43, 34, 36, 64, 34, 125],
    hp, ?_, ?_, ?_⟩
  · cases hl : litWord grepEscapeSrc with
    | none => have := escape_program_parses; simp [hl] at this
    | some prog =>
      have he := escape_program_parses
      simp only [hl, Option.bind_some] at he
      have := sedStream_escape rest []
      simp only [List.flatMap_nil, List.nil_append] at this
      have e : rest ++ splitGuardSuffix ++ [NL] = rest ++ [88, 10] := by simp [splitGuardSuffix, NL]
      simp only [Option.bind_some, sedRun, he, Option.map_some, e, this]
      rw [cmdSubst_append_nl _ _ (by decide)]
  · have hw : shWords evalSetArg2Src
        = .ok [[.lit [115, 101, 116, 32, 45, 45, 32], .var [97, 114, 103, 50], .lit [32, 36, 123, 49, 43, 34, 36, 64, 34, 125]]] := by decide
    simp [evalWordSrc, hw, Word.subst, VarEnv.set]
  · have h1 : readFrom {} [115, 101, 116, 32, 45, 45, 32, 45] = ⟨.word, [[.lit [115, 101, 116]], [.lit [45, 45]]], [], [45], []⟩ := by decide
    have e : ([115, 101, 116, 32, 45, 45, 32] : Bytes) ++ ([45, 39] ++ (rest.flatMap escQ ++ [39]))
        = [115, 101, 116, 32, 45, 45, 32, 45] ++ ([SQ] ++ rest.flatMap escQ ++ [SQ]) := by simp [SQ]
    unfold shWords
    rw [readFrom_append, e, readFrom_append, h1, read_quoted rest h0 _ (Or.inr rfl)]
    rw [finish_args_tail _ (by simp [RS.Good, RS.open_])]
    simp [RS.wordsDone, RS.endWord, RS.curWord]

/-! ## the grep command line -/

/-- One round of the option loop: `option` (and its argument, if it takes one) re-quoted by the script's sites and
    appended by `grep="$grep $option$optarg"`. -/
def buildGrep : Bytes → List (Bytes × Option Bytes) → Option Bytes
  | g, [] => some g
  | g, (o, a) :: rest =>
      (siteOption.value grepEscapeSrc (env0.set vOption o)).bind fun option' =>
      (match a with
        | none => some []
        | some x => siteOptarg.value grepEscapeSrc (env0.set vOne x)).bind fun optarg' =>
      (evalWordSrc grepAppendSrc (((env0.set vGrep g).set vOption option').set vOptarg optarg')).bind fun g' =>
      buildGrep g' rest

/-- `grep="$grep -e 'PATTERN'"` when the pattern is the first operand. -/
def addPattern (g : Bytes) : Option Bytes → Option Bytes
  | none => some g
  | some p => sitePattern.value grepEscapeSrc ((env0.set vGrep g).set vOne p)

def optWords (opts : List (Bytes × Option Bytes)) : List Bytes := opts.flatMap fun (o, a) => o :: a.toList

theorem buildGrep_eq (g : Bytes) (opts : List (Bytes × Option Bytes)) :
    buildGrep g opts = some (g ++ (optWords opts).flatMap fun o => SP :: Q o) := by
  have hw : shWords grepAppendSrc = .ok [[.var vGrep, .lit [32], .var vOption, .var vOptarg]] := by decide
  induction opts generalizing g with
  | nil => simp [buildGrep, optWords]
  | cons oa rest ih =>
    obtain ⟨o, a⟩ := oa
    cases a with
    | none => simp [buildGrep, option_value, evalWordSrc, hw, Word.subst, VarEnv.set, ih, optWords, SP]
    | some x => simp [buildGrep, option_value, optarg_value, evalWordSrc, hw, Word.subst, VarEnv.set, ih, optWords, SP]

theorem read_dash_e (st : RS) (hg : st.Good) :
    (readFrom st [32, 45, 101, 32]).Good ∧ (readFrom st [32, 45, 101, 32]).mode = .blank ∧
      (readFrom st [32, 45, 101, 32]).wordsDone = st.wordsDone ++ [[.lit [45, 101]]] := by
  obtain ⟨mode, done, segs, lit, name⟩ := st
  obtain ⟨hopen, hsegs, hlit⟩ := hg
  simp only [] at hsegs hlit
  subst hsegs
  rcases hopen with h | h <;> simp only [] at h <;> subst h
  · have hl : lit = [] := hlit rfl
    subst hl
    simp [readFrom, step, stepUnq, isOperator, isExpansion, RS.Good, RS.open_, RS.wordsDone, RS.endWord, RS.curWord,
      RS.push, SP, TAB, NL, SQ, DQ, BSL, DOLLAR, BQ]
  · simp [readFrom, step, stepUnq, isOperator, isExpansion, RS.Good, RS.open_, RS.wordsDone, RS.endWord, RS.curWord,
      RS.push, SP, TAB, NL, SQ, DQ, BSL, DOLLAR, BQ]

/-- The fixed tails of the four `eval "$grep…"` commands, read after a Good state. -/
theorem finish_tail_q (st : RS) (hg : st.Good) :
    finish (readFrom st [32, 45, 113]) = .ok (st.wordsDone ++ [[.lit [45, 113]]]) := by
  obtain ⟨mode, done, segs, lit, name⟩ := st
  obtain ⟨hopen, hsegs, hlit⟩ := hg
  simp only [] at hsegs hlit
  subst hsegs
  rcases hopen with h | h <;> simp only [] at h <;> subst h
  · have hl : lit = [] := hlit rfl
    subst hl
    simp [readFrom, step, stepUnq, isOperator, isExpansion, finish, RS.wordsDone, RS.endWord, RS.curWord,
      RS.push, SP, TAB, NL, SQ, DQ, BSL, DOLLAR, BQ]
  · simp [readFrom, step, stepUnq, isOperator, isExpansion, finish, RS.wordsDone, RS.endWord, RS.curWord,
      RS.push, SP, TAB, NL, SQ, DQ, BSL, DOLLAR, BQ]

theorem finish_tail_H (st : RS) (hg : st.Good) :
    finish (readFrom st [32, 45, 72]) = .ok (st.wordsDone ++ [[.lit [45, 72]]]) := by
  obtain ⟨mode, done, segs, lit, name⟩ := st
  obtain ⟨hopen, hsegs, hlit⟩ := hg
  simp only [] at hsegs hlit
  subst hsegs
  rcases hopen with h | h <;> simp only [] at h <;> subst h
  · have hl : lit = [] := hlit rfl
    subst hl
    simp [readFrom, step, stepUnq, isOperator, isExpansion, finish, RS.wordsDone, RS.endWord, RS.curWord,
      RS.push, SP, TAB, NL, SQ, DQ, BSL, DOLLAR, BQ]
  · simp [readFrom, step, stepUnq, isOperator, isExpansion, finish, RS.wordsDone, RS.endWord, RS.curWord,
      RS.push, SP, TAB, NL, SQ, DQ, BSL, DOLLAR, BQ]

/-- ` -H --label "$i"`: the file name is the opaque variable word `"$i"`. -/
theorem finish_tail_label (st : RS) (hg : st.Good) :
    finish (readFrom st [32, 45, 72, 32, 45, 45, 108, 97, 98, 101, 108, 32, 34, 36, 105, 34])
      = .ok (st.wordsDone ++ [[.lit [45, 72]], [.lit [45, 45, 108, 97, 98, 101, 108]], [.var vI]]) := by
  obtain ⟨mode, done, segs, lit, name⟩ := st
  obtain ⟨hopen, hsegs, hlit⟩ := hg
  simp only [] at hsegs hlit
  subst hsegs
  rcases hopen with h | h <;> simp only [] at h <;> subst h
  · have hl : lit = [] := hlit rfl
    subst hl
    simp [readFrom, step, stepUnq, stepDq, isOperator, isExpansion, isNameByte, isDigit, finish, RS.wordsDone, RS.endWord,
      RS.curWord, RS.flushLit, RS.push, SP, TAB, NL, SQ, DQ, BSL, DOLLAR, BQ]
  · simp [readFrom, step, stepUnq, stepDq, isOperator, isExpansion, isNameByte, isDigit, finish, RS.wordsDone, RS.endWord,
      RS.curWord, RS.flushLit, RS.push, SP, TAB, NL, SQ, DQ, BSL, DOLLAR, BQ]

theorem wordsDone_after_quoted (st : RS) (hg : st.Good) (hm : st.mode = .blank) (p : Bytes) :
    ({ st with mode := .word, lit := st.lit ++ p } : RS).wordsDone = st.wordsDone ++ [[.lit p]] := by
  obtain ⟨mode, done, segs, lit, name⟩ := st
  obtain ⟨_, hsegs, hlit⟩ := hg
  simp only [] at hsegs hlit hm
  subst hsegs hm
  have hl : lit = [] := hlit rfl
  subst hl
  simp [RS.wordsDone, RS.endWord, RS.curWord]

/-- **grep_eval_words** (no command from a name). Whatever options, option arguments and pattern were given (any bytes
    but NUL), each of the script's `eval "$grep …"` commands is read by the shell as: the words of the base grep command,
    then exactly the given options/arguments as literal words, then `-e` and the pattern, then the script's own fixed
    tail. Nothing else is expanded or executed, and the file name occurs only as the opaque word `"$i"`. -/
theorem grep_eval_words (g0 : Bytes) (hg0 : (readFrom {} g0).Good)
    (opts : List (Bytes × Option Bytes)) (pat : Option Bytes)
    (h0 : ∀ o ∈ optWords opts, (0 : UInt8) ∉ o) (hp : ∀ p ∈ pat, (0 : UInt8) ∉ p)
    (src : Bytes) (hsrc : src ∈ grepEvalSrcs) :
    ∃ grep t tail, (buildGrep g0 opts).bind (addPattern · pat) = some grep ∧
      evalWordSrc src (env0.set vGrep grep) = some t ∧
      shWords t = .ok ((readFrom {} g0).wordsDone ++ (optWords opts).map (fun o => [Seg.lit o])
                        ++ (match pat with | none => [] | some p => [[.lit [45, 101]], [.lit p]]) ++ tail) ∧
      tail ∈ [[], [[Seg.lit [45, 113]]], [[Seg.lit [45, 72]]], [[Seg.lit [45, 72]], [.lit [45, 45, 108, 97, 98, 101, 108]], [.var vI]]] := by
  -- the value of $grep and the reader state after it
  obtain ⟨g1, w1⟩ := read_quoted_list (optWords opts) h0 _ hg0
  have hgrep : ∃ grep, (buildGrep g0 opts).bind (addPattern · pat) = some grep ∧ (readFrom {} grep).Good ∧
      (readFrom {} grep).wordsDone = (readFrom {} g0).wordsDone ++ (optWords opts).map (fun o => [Seg.lit o])
        ++ (match pat with | none => [] | some p => [[.lit [45, 101]], [.lit p]]) := by
    cases pat with
    | none =>
      refine ⟨g0 ++ (optWords opts).flatMap (fun o => SP :: Q o), by simp [buildGrep_eq, addPattern], ?_, ?_⟩
      · rw [readFrom_append]; exact g1
      · rw [readFrom_append, w1]; simp
    | some p =>
      have hp0 : (0 : UInt8) ∉ p := hp p rfl
      refine ⟨g0 ++ (optWords opts).flatMap (fun o => SP :: Q o) ++ [32, 45, 101, 32] ++ Q p,
        by simp [buildGrep_eq, addPattern, pattern_value, VarEnv.set], ?_, ?_⟩
      · rw [readFrom_append, readFrom_append, readFrom_append]
        obtain ⟨g2, m2, _⟩ := read_dash_e _ g1
        rw [Q, read_quoted p hp0 _ (Or.inl m2)]
        exact ⟨Or.inr rfl, g2.2.1, by simp⟩
      · rw [readFrom_append, readFrom_append, readFrom_append]
        obtain ⟨g2, m2, w2⟩ := read_dash_e _ g1
        rw [Q, read_quoted p hp0 _ (Or.inl m2)]
        rw [wordsDone_after_quoted _ g2 m2, w2, w1]; simp
  obtain ⟨grep, hb, gg, wg⟩ := hgrep
  simp only [grepEvalSrcs, List.mem_cons, List.not_mem_nil, or_false] at hsrc
  rcases hsrc with rfl | rfl | rfl | rfl
  · refine ⟨grep, grep ++ [32, 45, 113], [[Seg.lit [45, 113]]], hb, ?_, ?_, by simp⟩
    · have hw : shWords [34, 36, 103, 114, 101, 112, 32, 45, 113, 34] = .ok [[.var vGrep, .lit [32, 45, 113]]] := by decide
      simp [evalWordSrc, hw, Word.subst, VarEnv.set]
    · unfold shWords; rw [readFrom_append, finish_tail_q _ gg, wg]
  · refine ⟨grep, grep, [], hb, ?_, ?_, by simp⟩
    · have hw : shWords [34, 36, 103, 114, 101, 112, 34] = .ok [[.var vGrep]] := by decide
      simp [evalWordSrc, hw, Word.subst, VarEnv.set]
    · unfold shWords; rw [finish_good _ gg, wg]; simp
  · refine ⟨grep, grep ++ [32, 45, 72], [[Seg.lit [45, 72]]], hb, ?_, ?_, by simp⟩
    · have hw : shWords [34, 36, 103, 114, 101, 112, 32, 45, 72, 34] = .ok [[.var vGrep, .lit [32, 45, 72]]] := by decide
      simp [evalWordSrc, hw, Word.subst, VarEnv.set]
    · unfold shWords; rw [readFrom_append, finish_tail_H _ gg, wg]
  · refine ⟨grep, grep ++ [32, 45, 72, 32, 45, 45, 108, 97, 98, 101, 108, 32, 34, 36, 105, 34],
      [[Seg.lit [45, 72]], [.lit [45, 45, 108, 97, 98, 101, 108]], [.var vI]], hb, ?_, ?_, by simp⟩
    · have hw : shWords [34, 36, 103, 114, 101, 112, 32, 45, 72, 32, 45, 45, 108, 97, 98, 101, 108, 32, 92, 34, 92, 36, 105, 92, 34, 34]
          = .ok [[.var vGrep, .lit [32, 45, 72, 32, 45, 45, 108, 97, 98, 101, 108, 32, 34, 36, 105, 34]]] := by decide
      simp [evalWordSrc, hw, Word.subst, VarEnv.set]
    · unfold shWords; rw [readFrom_append, finish_tail_label _ gg, wg]

/-- non-vacuity: the default base commands of xzgrep/xzegrep/xzfgrep leave the reader in a Good state. -/
example : (readFrom {} [103, 114, 101, 112]).Good ∧ (readFrom {} [103, 114, 101, 112, 32, 45, 69]).Good
    ∧ (readFrom {} [103, 114, 101, 112, 32, 45, 70]).Good := by
  refine ⟨?_, ?_, ?_⟩ <;> simp [RS.Good, RS.open_] <;> decide

/-! ## xzdiff/xzcmp: the command line as `eval` reads it -/

abbrev vCmp : Bytes := [99, 109, 112]

/-- `$cmp` after the option loop of xzdiff: every option re-quoted by the script's site, then `cmp="$cmp --"`. -/
def buildCmp : Bytes → List Bytes → Option Bytes
  | c, [] => evalWordSrc cmpDashDashSrc (env0.set vCmp c)
  | c, o :: os => (diffSite.value diffEscapeSrc ((env0.set vCmp c).set vOne o)).bind fun c' => buildCmp c' os

theorem buildCmp_eq (c : Bytes) (opts : List Bytes) (hd : ∀ o ∈ opts, ∃ w, o = 45 :: w) :
    buildCmp c opts = some (c ++ (opts.flatMap fun o => SP :: Q o) ++ [32, 45, 45]) := by
  have hw : shWords cmpDashDashSrc = .ok [[.var vCmp, .lit [32, 45, 45]]] := by decide
  induction opts generalizing c with
  | nil => simp [buildCmp, evalWordSrc, hw, Word.subst, VarEnv.set]
  | cons o os ih =>
    obtain ⟨w, rfl⟩ := hd o (by simp)
    have hos : ∀ x ∈ os, ∃ w, x = 45 :: w := fun x hx => hd x (by simp [hx])
    have hv := xzdiff_option_value ((env0.set vCmp c).set vOne (45 :: w)) w (by simp [VarEnv.set])
    simp only [buildCmp, hv, Option.bind_some, ih _ hos]
    simp [VarEnv.set]

/-- Reading a fixed tail (concrete bytes) after a Good state, by computation. -/
macro "tail_tac" : tactic => `(tactic| (
  intro st hg
  obtain ⟨mode, done, segs, lit, name⟩ := st
  obtain ⟨hopen, hsegs, hlit⟩ := hg
  simp only [] at hsegs hlit
  subst hsegs
  rcases hopen with h | h <;> simp only [] at h <;> subst h
  · have hl : lit = [] := hlit rfl
    subst hl
    simp [readFrom, step, stepUnq, stepDq, isOperator, isExpansion, isNameByte, isDigit, finish, RS.wordsDone, RS.endWord,
      RS.curWord, RS.flushLit, RS.push, SP, TAB, NL, SQ, DQ, BSL, DOLLAR, BQ]
  · simp [readFrom, step, stepUnq, stepDq, isOperator, isExpansion, isNameByte, isDigit, finish, RS.wordsDone, RS.endWord,
      RS.curWord, RS.flushLit, RS.push, SP, TAB, NL, SQ, DQ, BSL, DOLLAR, BQ]))

-- ` -- - "$FILE"`
theorem cmp_tail_1 : ∀ st : RS, st.Good → finish (readFrom st [32, 45, 45, 32, 45, 32, 34, 36, 70, 73, 76, 69, 34])
    = .ok (st.wordsDone ++ [[.lit [45, 45]], [.lit [45]], [.var [70, 73, 76, 69]]]) := by tail_tac
theorem cmp_tail_2 : ∀ st : RS, st.Good → finish (readFrom st [32, 45, 45, 32, 45, 32, 45])
    = .ok (st.wordsDone ++ [[.lit [45, 45]], [.lit [45]], [.lit [45]]]) := by tail_tac
theorem cmp_tail_3 : ∀ st : RS, st.Good → finish (readFrom st [32, 45, 45, 32, 47, 100, 101, 118, 47, 102, 100, 47, 53, 32, 45])
    = .ok (st.wordsDone ++ [[.lit [45, 45]], [.lit [47, 100, 101, 118, 47, 102, 100, 47, 53]], [.lit [45]]]) := by tail_tac
theorem cmp_tail_4 : ∀ st : RS, st.Good → finish (readFrom st [32, 45, 45, 32, 45, 32, 34, 36, 116, 109, 112, 47, 36, 70, 34])
    = .ok (st.wordsDone ++ [[.lit [45, 45]], [.lit [45]], [.var [116, 109, 112], .lit [47], .var [70]]]) := by tail_tac
theorem cmp_tail_5 : ∀ st : RS, st.Good → finish (readFrom st [32, 45, 45, 32, 45, 32, 34, 36, 50, 34])
    = .ok (st.wordsDone ++ [[.lit [45, 45]], [.lit [45]], [.var [50]]]) := by tail_tac
theorem cmp_tail_6 : ∀ st : RS, st.Good → finish (readFrom st [32, 45, 45, 32, 34, 36, 49, 34, 32, 45])
    = .ok (st.wordsDone ++ [[.lit [45, 45]], [.var [49]], [.lit [45]]]) := by tail_tac
theorem cmp_tail_7 : ∀ st : RS, st.Good → finish (readFrom st [32, 45, 45, 32, 34, 36, 49, 34, 32, 34, 36, 50, 34])
    = .ok (st.wordsDone ++ [[.lit [45, 45]], [.var [49]], [.var [50]]]) := by tail_tac


/-- **cmp_eval_words** (xzdiff/xzcmp: no command from a name). Whatever options were given (arguments starting with `-`,
    any bytes but NUL), each `eval "$cmp" …` of xzdiff is read by the shell as: the words of the base diff/cmp command,
    exactly the given options as literal words, `--`, and then only `-`, `/dev/fd/5` or the opaque words `"$1"`, `"$2"`,
    `"$FILE"`, `"$tmp/$F"` — file names never reach the shell grammar. -/
theorem cmp_eval_words (c0 : Bytes) (hc0 : (readFrom {} c0).Good) (opts : List Bytes)
    (hd : ∀ o ∈ opts, ∃ w, o = 45 :: w) (h0 : ∀ o ∈ opts, (0 : UInt8) ∉ o) (src : Bytes) (hsrc : src ∈ cmpEvalSrcs) :
    ∃ cmp t tail, buildCmp c0 opts = some cmp ∧ evalArgs src (env0.set vCmp cmp) = some t ∧
      shWords t = .ok ((readFrom {} c0).wordsDone ++ opts.map (fun o => [Seg.lit o]) ++ [[.lit [45, 45]]] ++ tail) ∧
      tail ∈ [[[Seg.lit [45]], [.var [70, 73, 76, 69]]], [[.lit [45]], [.lit [45]]],
              [[.lit [47, 100, 101, 118, 47, 102, 100, 47, 53]], [.lit [45]]],
              [[.lit [45]], [.var [116, 109, 112], .lit [47], .var [70]]], [[.lit [45]], [.var [50]]],
              [[.var [49]], [.lit [45]]], [[.var [49]], [.var [50]]]] := by
  obtain ⟨g1, w1⟩ := read_quoted_list opts h0 _ hc0
  have hb := buildCmp_eq c0 opts hd
  simp only [cmpEvalSrcs, List.mem_cons, List.not_mem_nil, or_false] at hsrc
  rcases hsrc with rfl | rfl | rfl | rfl | rfl | rfl | rfl
  · refine ⟨_, c0 ++ (opts.flatMap fun o => SP :: Q o) ++ [32, 45, 45, 32, 45, 32, 34, 36, 70, 73, 76, 69, 34], [[Seg.lit [45]], [.var [70, 73, 76, 69]]], hb, ?_, ?_, by simp⟩
    · have hw : shWords [34, 36, 99, 109, 112, 34, 32, 45, 32, 39, 34, 36, 70, 73, 76, 69, 34, 39] = .ok [[.var vCmp], [.lit [45]], [.lit [34, 36, 70, 73, 76, 69, 34]]] := by decide
      simp [evalArgs, joinSp, hw, Word.subst, VarEnv.set, SP]
    · unfold shWords; rw [readFrom_append, readFrom_append, cmp_tail_1 _ g1, w1]; simp
  · refine ⟨_, c0 ++ (opts.flatMap fun o => SP :: Q o) ++ [32, 45, 45, 32, 45, 32, 45], [[Seg.lit [45]], [.lit [45]]], hb, ?_, ?_, by simp⟩
    · have hw : shWords [34, 36, 99, 109, 112, 34, 32, 45, 32, 45] = .ok [[.var vCmp], [.lit [45]], [.lit [45]]] := by decide
      simp [evalArgs, joinSp, hw, Word.subst, VarEnv.set, SP]
    · unfold shWords; rw [readFrom_append, readFrom_append, cmp_tail_2 _ g1, w1]; simp
  · refine ⟨_, c0 ++ (opts.flatMap fun o => SP :: Q o) ++ [32, 45, 45, 32, 47, 100, 101, 118, 47, 102, 100, 47, 53, 32, 45], [[Seg.lit [47, 100, 101, 118, 47, 102, 100, 47, 53]], [.lit [45]]], hb, ?_, ?_, by simp⟩
    · have hw : shWords [34, 36, 99, 109, 112, 34, 32, 47, 100, 101, 118, 47, 102, 100, 47, 53, 32, 45] = .ok [[.var vCmp], [.lit [47, 100, 101, 118, 47, 102, 100, 47, 53]], [.lit [45]]] := by decide
      simp [evalArgs, joinSp, hw, Word.subst, VarEnv.set, SP]
    · unfold shWords; rw [readFrom_append, readFrom_append, cmp_tail_3 _ g1, w1]; simp
  · refine ⟨_, c0 ++ (opts.flatMap fun o => SP :: Q o) ++ [32, 45, 45, 32, 45, 32, 34, 36, 116, 109, 112, 47, 36, 70, 34], [[Seg.lit [45]], [.var [116, 109, 112], .lit [47], .var [70]]], hb, ?_, ?_, by simp⟩
    · have hw : shWords [34, 36, 99, 109, 112, 34, 32, 45, 32, 39, 34, 36, 116, 109, 112, 47, 36, 70, 34, 39] = .ok [[.var vCmp], [.lit [45]], [.lit [34, 36, 116, 109, 112, 47, 36, 70, 34]]] := by decide
      simp [evalArgs, joinSp, hw, Word.subst, VarEnv.set, SP]
    · unfold shWords; rw [readFrom_append, readFrom_append, cmp_tail_4 _ g1, w1]; simp
  · refine ⟨_, c0 ++ (opts.flatMap fun o => SP :: Q o) ++ [32, 45, 45, 32, 45, 32, 34, 36, 50, 34], [[Seg.lit [45]], [.var [50]]], hb, ?_, ?_, by simp⟩
    · have hw : shWords [34, 36, 99, 109, 112, 34, 32, 45, 32, 39, 34, 36, 50, 34, 39] = .ok [[.var vCmp], [.lit [45]], [.lit [34, 36, 50, 34]]] := by decide
      simp [evalArgs, joinSp, hw, Word.subst, VarEnv.set, SP]
    · unfold shWords; rw [readFrom_append, readFrom_append, cmp_tail_5 _ g1, w1]; simp
  · refine ⟨_, c0 ++ (opts.flatMap fun o => SP :: Q o) ++ [32, 45, 45, 32, 34, 36, 49, 34, 32, 45], [[Seg.var [49]], [.lit [45]]], hb, ?_, ?_, by simp⟩
    · have hw : shWords [34, 36, 99, 109, 112, 34, 32, 39, 34, 36, 49, 34, 39, 32, 45] = .ok [[.var vCmp], [.lit [34, 36, 49, 34]], [.lit [45]]] := by decide
      simp [evalArgs, joinSp, hw, Word.subst, VarEnv.set, SP]
    · unfold shWords; rw [readFrom_append, readFrom_append, cmp_tail_6 _ g1, w1]; simp
  · refine ⟨_, c0 ++ (opts.flatMap fun o => SP :: Q o) ++ [32, 45, 45, 32, 34, 36, 49, 34, 32, 34, 36, 50, 34], [[Seg.var [49]], [.var [50]]], hb, ?_, ?_, by simp⟩
    · have hw : shWords [34, 36, 99, 109, 112, 34, 32, 39, 34, 36, 49, 34, 39, 32, 39, 34, 36, 50, 34, 39] = .ok [[.var vCmp], [.lit [34, 36, 49, 34]], [.lit [34, 36, 50, 34]]] := by decide
      simp [evalArgs, joinSp, hw, Word.subst, VarEnv.set, SP]
    · unfold shWords; rw [readFrom_append, readFrom_append, cmp_tail_7 _ g1, w1]; simp

example : (readFrom {} [100, 105, 102, 102]).Good ∧ (readFrom {} [99, 109, 112]).Good := by
  refine ⟨?_, ?_⟩ <;> simp [RS.Good, RS.open_] <;> decide


/-! ## the sed fallback that labels output lines with the file name -/

def labelSrc : LabelSrc := ⟨labelSuffixSrc, labelGuardPats, labelPrintfFmt, labelSedSrc, labelScriptSrc⟩

theorem printf_line (v : Bytes) : printfS [37, 115, 92, 110] v = some (v ++ [10]) := by
  simp [printfS, NL]

theorem label_guard (v : Bytes) :
    caseMatch labelGuardPats v = some (v.contains 10 || v.contains 38 || v.contains 92 || v.contains 124) := by
  have hp : parseAlts labelGuardPats = some [[.star, .cls false [10], .star], [.star, .cls false [38], .star],
      [.star, .cls false [92], .star], [.star, .cls false [124], .star]] := by decide
  simp [caseMatch, hp, globMatch_star_lit_star, Bool.or_assoc]

theorem label_subst_value (name : Bytes) :
    printfSedSubst labelSedSrc labelPrintfFmt (name ++ [58]) = some ((name ++ [58]).flatMap escN) := by
  unfold printfSedSubst
  have hf : litWord labelPrintfFmt = some [37, 115, 92, 110] := by decide
  cases hp : litWord labelSedSrc with
  | none => have := label_program_parses; simp [hp] at this
  | some prog =>
    have he := label_program_parses
    simp only [hp, Option.bind_some] at he
    simp only [hf, Option.bind_eq_bind, Option.bind_some, printf_line, sedRun, he, Option.map_some, Option.pure_def]
    have := sedStream_label name []
    simp only [List.flatMap_nil, List.nil_append] at this
    have e : name ++ [58] ++ [10] = name ++ [58, 10] := by simp
    rw [e, this, cmdSubst_append_nl _ _ (by decide)]
    simp [escN, escL, NL]

/-- **label_escape_exact.** For every file name (newlines, `&`, `\`, `|` included) the `sed_script` that xzgrep builds
    when grep has no `--label` is one single command `s|^|…|` whose replacement denotes `name:` byte for byte — no
    unescaped delimiter or newline, no `&` — so every line of grep's output is prefixed with exactly `name:`. -/
theorem label_escape_exact (name : Bytes) :
    ∃ script, labelSrc.sedScript name = some script ∧
      sedParse script = some [prefixCmd (name ++ [58])] ∧
      ∀ line last, (sedParse script).map (fun cmds => runCmds cmds line last) = some (name ++ [58] ++ line) := by
  have hsuf : ∀ (env : VarEnv) (x : Bytes), evalWordSrc labelSuffixSrc (env.set [105] x) = some (x ++ [58]) := by
    intro env x
    have h : shWords labelSuffixSrc = .ok [[.var vI, .lit [58]]] := by decide
    simp [evalWordSrc, h, Word.subst, VarEnv.set]
  have hscr : ∀ (env : VarEnv) (x : Bytes),
      evalWordSrc labelScriptSrc (env.set [105] x) = some ([115, 124, 94, 124] ++ x ++ [124]) := by
    intro env x
    have h : shWords labelScriptSrc = .ok [[.lit [115, 124, 94, 124], .var vI, .lit [124]]] := by decide
    simp [evalWordSrc, h, Word.subst, VarEnv.set]
  have hval : labelSrc.sedScript name = some ([115, 124, 94, 124] ++ (name ++ [58]).flatMap escN ++ [124]) := by
    unfold LabelSrc.sedScript
    simp only [labelSrc, hsuf, hscr, label_guard, Option.bind_eq_bind, Option.bind_some]
    cases hb : ((name ++ [58]).contains 10 || (name ++ [58]).contains 38 || (name ++ [58]).contains 92 || (name ++ [58]).contains 124)
    · have hid : (name ++ [58]).flatMap escN = name ++ [58] := by
        apply flatMap_escN_id
        intro c hc
        simp only [Bool.or_eq_false_iff, List.contains_eq_mem, decide_eq_false_iff_not] at hb
        obtain ⟨⟨⟨h1, h2⟩, h3⟩, h4⟩ := hb
        refine ⟨?_, ?_, ?_, ?_⟩ <;> intro e <;> subst e <;> contradiction
      simp only [Bool.false_eq_true, if_false, Option.bind_some, hid]
    · simp only [if_true, label_subst_value, Option.bind_some]
  refine ⟨_, hval, parse_prefix_script _, ?_⟩
  intro line last
  rw [parse_prefix_script]
  simp [runCmds_prefix]

/-- non-vacuity on the real literals: the name `a&b|c\` newline `d` gives a script that prefixes `x` correctly. -/
example : (labelSrc.sedScript [97, 38, 98, 124, 99, 92, 10, 100]).bind (fun sc => sedRun sc [120, 10])
    = some [97, 38, 98, 124, 99, 92, 10, 100, 58, 120, 10] := by decide

/-! ## exit statuses -/

/-- The status block of xzgrep (as cut from the script) computes `grepFileStep`. -/
theorem grep_file_status_eq (e : Env) :
    Flow.verdict (runStmts grepFileStatus e) = grepFileStep e.r (if e.xzEmpty then none else some e.xz) e.res := by
  rw [gs_eq]
  obtain ⟨r, xz, sed, res, num, cmp, pipe, xzEmpty⟩ := e
  simp only [runStmts, gs1_run, gs2_run, gs3_run, grepFileStep, pipeStatus]
  by_cases h0 : r ≥ 128 <;> by_cases h1 : xzEmpty = true <;> by_cases h2 : xz ≥ 128 <;> by_cases h3 : xz = 141 <;>
    by_cases h4 : xz > 0 <;> simp [Flow.verdict, *]

/-- The sed-fallback block computes `grepSedStatus`: sed's failure raises the status to at least 2. -/
theorem grep_sed_status_eq (e : Env) : runStmts grepSedStatusStmts e = .exit (grepSedStatus e.r e.pipe) := by
  obtain ⟨r, xz, sed, res, num, cmp, pipe, xzEmpty⟩ := e
  by_cases h0 : pipe = 0 <;> by_cases h1 : pipe < 2 <;> by_cases h2 : r < 2 <;> by_cases h3 : r < pipe <;>
    simp [grepSedStatusStmts, runStmts, Stmt.run, runArms, runSimples, Simple.run, Cond.eval, CmpOp.eval, Opnd.eval,
      Env.get, Env.put, Act.run, grepSedStatus, *] <;>
    (try split) <;> (try simp_all) <;> (try omega)

/-- xzdiff: the loop plus the final `exit $cmp_status` compute `diffFinal`. -/
theorem diff_status_eq (e : Env) (nums : List Nat) :
    (match diffLoop diffStatusBody e nums with
      | .exit k => Flow.exit k
      | .go e' => runStmts diffStatusFinal e'
      | .next e' => runStmts diffStatusFinal e') = .exit (diffFinal e.cmp nums) := by
  induction nums generalizing e with
  | nil => simp [diffLoop, diffStatusFinal, runStmts, Stmt.run, Simple.run, Act.run, Opnd.eval, Env.get, diffFinal]
  | cons n ns ih =>
    simp only [diffLoop, diff_body_run]
    by_cases h : n = 0 ∨ n = pipeStatus
    · have := ih { e with num := n }
      simp only [h, if_true, this, diffFinal, List.all_cons]
      simp [h]
    · simp [h, diffFinal]

/-- **status_combination.** xzgrep's final status over any list of files (no signals involved), starting from `res=1`:
    0 iff no file had an error and at least one matched; 1 iff no error and no match; ≥ 2 iff some file had an
    error (grep/sed status ≥ 2 or a non-zero decompressor status). -/
theorem status_combination (fs : List (Nat × Option Nat)) (hns : ∀ f ∈ fs, noSignal f) :
    (grepFold fs 1 = 0 ↔ (∀ f ∈ fs, ¬ fileErr f) ∧ ∃ f ∈ fs, f.1 = 0) ∧
    (grepFold fs 1 = 1 ↔ (∀ f ∈ fs, ¬ fileErr f) ∧ ∀ f ∈ fs, f.1 ≠ 0) ∧
    (grepFold fs 1 ≥ 2 ↔ ∃ f ∈ fs, fileErr f) := by
  obtain ⟨_, hB, hC⟩ := grepFold_spec fs hns 1
  by_cases he : ∃ f ∈ fs, fileErr f
  · have h2 := hB he
    have hne : ¬ ∀ f ∈ fs, ¬ fileErr f := fun h => by obtain ⟨f, hf, e⟩ := he; exact h f hf e
    refine ⟨⟨fun h => by omega, fun h => absurd h.1 hne⟩, ⟨fun h => by omega, fun h => absurd h.1 hne⟩, ⟨fun _ => he, fun _ => h2⟩⟩
  · have hall : ∀ f ∈ fs, ¬ fileErr f := fun f hf e => he ⟨f, hf, e⟩
    have hv := hC hall (by omega)
    simp only [Nat.succ_ne_zero, false_or] at hv
    by_cases hm : ∃ f ∈ fs, f.1 = 0
    · simp only [hm, if_true] at hv
      refine ⟨⟨fun _ => ⟨hall, hm⟩, fun _ => hv⟩, ⟨fun h => by omega, fun h => ?_⟩, ⟨fun h => by omega, fun h => absurd h he⟩⟩
      obtain ⟨f, hf, h0⟩ := hm
      exact absurd h0 (h.2 f hf)
    · simp only [hm, if_false] at hv
      refine ⟨⟨fun h => by omega, fun h => absurd h.2 hm⟩, ⟨fun _ => ⟨hall, fun f hf h0 => hm ⟨f, hf, h0⟩⟩, fun _ => hv⟩,
        ⟨fun h => by omega, fun h => absurd h he⟩⟩

/-! ## suffix dispatch -/

/-- The documented table (xzgrep.1 / xzdiff.1: "suffix supported by gzip, bzip2, lzop, zstd, lz4"; anything else goes to xz,
    which passes non-.xz/.lzma/.lz data through unchanged because of `-f`). -/
def gzipSuffixes : List Bytes := [[45, 122], [45, 90], [46, 122], [46, 90], [95, 122], [45, 103, 122], [46, 103, 122], [46, 116, 97, 122], [46, 116, 103, 122]]   -- -z .z -Z .Z _z -gz .gz .taz .tgz
def bzip2SuffixesGrep : List Bytes := [[45, 98, 122, 50], [46, 98, 122, 50], [45, 116, 98, 122], [46, 116, 98, 122], [46, 116, 98, 122, 50]]   -- -bz2 .bz2 -tbz .tbz .tbz2
def bzip2SuffixesDiff : List Bytes := [[45, 98, 122, 50], [46, 98, 122, 50], [46, 116, 98, 122], [46, 116, 98, 122, 50]]   -- -bz2 .bz2 .tbz .tbz2
def lzopSuffixesGrep : List Bytes := [[45, 108, 122, 111], [46, 108, 122, 111], [45, 116, 122, 111], [46, 116, 122, 111]]   -- -lzo .lzo -tzo .tzo
def lzopSuffixesDiff : List Bytes := [[45, 108, 122, 111], [46, 108, 122, 111], [46, 116, 122, 111]]   -- -lzo .lzo .tzo
def zstdSuffixesGrep : List Bytes := [[45, 122, 115, 116], [46, 122, 115, 116], [45, 116, 122, 115, 116], [46, 116, 122, 115, 116]]   -- -zst .zst -tzst .tzst
def zstdSuffixesDiff : List Bytes := [[45, 122, 115, 116], [46, 122, 115, 116], [46, 116, 122, 115, 116]]   -- -zst .zst .tzst
def lz4Suffixes : List Bytes := [[45, 108, 122, 52], [46, 108, 122, 52]]   -- -lz4 .lz4

def endsIn (L : List Bytes) (name : Bytes) : Bool := L.any fun t => t.isSuffixOf name

/-- The decompressor command word xzgrep is documented to pick for a file name (script words, `$xz` = xz --format=auto). -/
def specGrepDecompressor (name : Bytes) : Bytes :=
  if endsIn gzipSuffixes name then [34, 103, 122, 105, 112, 32, 45, 99, 100, 102, 34]            -- "gzip -cdf"
  else if endsIn bzip2SuffixesGrep name then [34, 98, 122, 105, 112, 50, 32, 45, 99, 100, 102, 34]  -- "bzip2 -cdf"
  else if endsIn lzopSuffixesGrep name then [34, 108, 122, 111, 112, 32, 45, 99, 100, 102, 34]   -- "lzop -cdf"
  else if endsIn zstdSuffixesGrep name then [34, 122, 115, 116, 100, 32, 45, 99, 100, 102, 113, 34]   -- "zstd -cdfq"
  else if endsIn lz4Suffixes name then [34, 108, 122, 52, 32, 45, 99, 100, 102, 34]        -- "lz4 -cdf"
  else [34, 36, 120, 122, 32, 45, 99, 100, 102, 113, 81, 34]                                         -- "$xz -cdfqQ"

/-- The program xzdiff picks for an operand when two operands are given (`none`: stay with `$xz -qQ`). -/
def specDiffDecompressor (name : Bytes) : Option Bytes :=
  if endsIn bzip2SuffixesDiff name then some [98, 122, 105, 112, 50]       -- bzip2
  else if endsIn gzipSuffixes name then some [103, 122, 105, 112]       -- gzip
  else if endsIn lzopSuffixesDiff name then some [108, 122, 111, 112]   -- lzop
  else if endsIn zstdSuffixesDiff name then some [39, 122, 115, 116, 100, 32, 45, 113, 39]   -- 'zstd -q'
  else if endsIn lz4Suffixes name then some [108, 122, 52]        -- lz4
  else none

/-- One arm of a dispatch `case`: its alternatives are `*`+fixed sets and stand for the suffix table `spec`. -/
theorem arm_matches (gs : List Glob) (spec : List Bytes)
    (h : (armSuffixes gs).map (fun L => L.all (spec.contains ·) && spec.all (L.contains ·)) = some true) (name : Bytes) :
    gs.any (globMatch · name) = endsIn spec name := by
  cases hL : armSuffixes gs with
  | none => simp [hL] at h
  | some L =>
    simp only [hL, Option.map_some, Option.some.injEq] at h
    rw [any_globMatch_armSuffixes gs L hL, any_suffix_congr L spec h]; rfl

/-- **suffix_dispatch (xzgrep).** For every file name, the `case $i in … esac` of xzgrep (patterns as cut from the script)
    selects the decompressor of the documented suffix table. -/
theorem suffix_dispatch (name : Bytes) : dispatch grepDispatch name = some (some (specGrepDecompressor name)) := by
  have hp : grepDispatch.mapM (fun (pr : Bytes × Bytes) => (parseAlts pr.1).map fun gs => (gs, pr.2)) = some
      [([[.star, .cls false [45, 46], .cls false [122, 90]], [.star, .cls false [95], .cls false [122]],
         [.star, .cls false [45, 46], .cls false [103], .cls false [122]],
         [.star, .cls false [46], .cls false [116], .cls false [97, 103], .cls false [122]]], [34, 103, 122, 105, 112, 32, 45, 99, 100, 102, 34]),
       ([[.star, .cls false [45, 46], .cls false [98], .cls false [122], .cls false [50]],
         [.star, .cls false [45, 46], .cls false [116], .cls false [98], .cls false [122]],
         [.star, .cls false [46], .cls false [116], .cls false [98], .cls false [122], .cls false [50]]], [34, 98, 122, 105, 112, 50, 32, 45, 99, 100, 102, 34]),
       ([[.star, .cls false [45, 46], .cls false [108], .cls false [122], .cls false [111]],
         [.star, .cls false [45, 46], .cls false [116], .cls false [122], .cls false [111]]], [34, 108, 122, 111, 112, 32, 45, 99, 100, 102, 34]),
       ([[.star, .cls false [45, 46], .cls false [122], .cls false [115], .cls false [116]],
         [.star, .cls false [45, 46], .cls false [116], .cls false [122], .cls false [115], .cls false [116]]], [34, 122, 115, 116, 100, 32, 45, 99, 100, 102, 113, 34]),
       ([[.star, .cls false [45, 46], .cls false [108], .cls false [122], .cls false [52]]], [34, 108, 122, 52, 32, 45, 99, 100, 102, 34]),
       ([[.star]], [34, 36, 120, 122, 32, 45, 99, 100, 102, 113, 81, 34])] := by decide
  simp only [dispatch, hp, Option.map_some, caseSelect, specGrepDecompressor]
  rw [arm_matches _ gzipSuffixes (by decide), arm_matches _ bzip2SuffixesGrep (by decide),
    arm_matches _ lzopSuffixesGrep (by decide), arm_matches _ zstdSuffixesGrep (by decide),
    arm_matches _ lz4Suffixes (by decide)]
  have hstar : [[GAtom.star]].any (globMatch · name) = true := by
    simp [globMatch_star, anySuffix_isEmpty]
  simp only [hstar, if_true]
  repeat' split
  all_goals rfl

/-- **suffix_dispatch (xzdiff, two operands).** Both operands go through the same table. -/
theorem suffix_dispatch_xzdiff (name : Bytes) :
    dispatch diffDispatch1 name = some (specDiffDecompressor name) ∧ dispatch diffDispatch2 name = some (specDiffDecompressor name) := by
  have h12 : diffDispatch2 = diffDispatch1 := by decide
  have hp : diffDispatch1.mapM (fun (pr : Bytes × Bytes) => (parseAlts pr.1).map fun gs => (gs, pr.2)) = some
      [([[.star, .cls false [45, 46], .cls false [98], .cls false [122], .cls false [50]],
         [.star, .cls false [46], .cls false [116], .cls false [98], .cls false [122]],
         [.star, .cls false [46], .cls false [116], .cls false [98], .cls false [122], .cls false [50]]], [98, 122, 105, 112, 50]),
       ([[.star, .cls false [45, 46], .cls false [122, 90]], [.star, .cls false [95], .cls false [122]],
         [.star, .cls false [45, 46], .cls false [103], .cls false [122]],
         [.star, .cls false [46], .cls false [116], .cls false [97, 103], .cls false [122]]], [103, 122, 105, 112]),
       ([[.star, .cls false [45, 46], .cls false [108], .cls false [122], .cls false [111]],
         [.star, .cls false [46], .cls false [116], .cls false [122], .cls false [111]]], [108, 122, 111, 112]),
       ([[.star, .cls false [45, 46], .cls false [122], .cls false [115], .cls false [116]],
         [.star, .cls false [46], .cls false [116], .cls false [122], .cls false [115], .cls false [116]]], [39, 122, 115, 116, 100, 32, 45, 113, 39]),
       ([[.star, .cls false [45, 46], .cls false [108], .cls false [122], .cls false [52]]], [108, 122, 52])] := by decide
  rw [h12]
  refine ⟨?_, ?_⟩ <;>
  · simp only [dispatch, hp, Option.map_some, caseSelect, specDiffDecompressor]
    rw [arm_matches _ bzip2SuffixesDiff (by decide), arm_matches _ gzipSuffixes (by decide),
      arm_matches _ lzopSuffixesDiff (by decide), arm_matches _ zstdSuffixesDiff (by decide),
      arm_matches _ lz4Suffixes (by decide)]
    repeat' split
    all_goals rfl

/-- The three copies of xzdiff's "is this operand compressed" pattern list are identical. -/
theorem xzdiff_compressed_patterns_agree : diffCompressedPats.all (· == diffCompressedPats.headD []) = true := by decide

/-- non-vacuity: `a.tgz` → gzip, `a.tar.xz` → xz, `x-tzst` → zstd, on the real literals. -/
example : dispatch grepDispatch [97, 46, 116, 103, 122] = some (some [34, 103, 122, 105, 112, 32, 45, 99, 100, 102, 34]) ∧
    dispatch grepDispatch [97, 46, 116, 97, 114, 46, 120, 122] = some (some [34, 36, 120, 122, 32, 45, 99, 100, 102, 113, 81, 34]) ∧
    dispatch grepDispatch [120, 45, 116, 122, 115, 116] = some (some [34, 122, 115, 116, 100, 32, 45, 99, 100, 102, 113, 34]) := by decide

end XzVerif.C20
