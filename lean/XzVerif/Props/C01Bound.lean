/-
  C01, the uncompressed fallback of the single-call and threaded Block encoders (block_buffer_encoder.c
  `block_encode_uncompressed`, reached from lzma_easy_buffer_encode / lzma_stream_buffer_encode / lzma_block_buffer_encode /
  lzma_block_uncomp_encode and from the MT encoder's workers): the code stores `lzma2_bound(uncompressed_size)` as the
  Block's Compressed Size (Block Header field, Block Padding, Index record) instead of counting what it writes. That is
  only right if `lzma2_bound` is EXACT: the value, as the source computes it today (`Gen.Kernels.lzma2_bound`, translated
  from the clang AST on every run), must equal the number of bytes the chunk loop writes — for every size, in particular
  for exact multiples of LZMA2_CHUNK_MAX, where "round up" and "divide and add one" differ.
-/
import XzVerif.Gen.Kernels
import XzVerif.Lemmas.C02Uncomp

namespace XzVerif.C01
open XzVerif XzVerif.Container

/-- `lzma2_bound(n)`, when it is not the overflow answer 0, is exactly the size of the uncompressed-chunk encoding of any
    `n` bytes: 3 header bytes per started 64 KiB chunk, the bytes, one end marker. -/
theorem uncomp_block_compressed_size (data : List UInt8) (hn : data.length < 18446744073709551616)
    (hb : Gen.Kernels.lzma2_bound data.length ≠ 0) :
    Gen.Kernels.lzma2_bound data.length = (lzma2UncompressedChunks data).length := by
  rw [lzma2UncompressedChunks_length, uncompressedChunksSize_eq]
  generalize data.length = n at *
  unfold Gen.Kernels.lzma2_bound at hb ⊢
  by_cases h1 : n > 9223372036854774716
  · rw [if_pos h1] at hb; exact absurd rfl hb
  · rw [if_neg h1] at hb ⊢
    simp only [] at hb ⊢
    split at hb
    · exact absurd rfl hb
    · rename_i h2
      rw [if_neg h2]
      omega

/-- closed form of `lzma2_bound` as the source computes it today (no 64-bit wrap-around happens below the guard) -/
theorem lzma2_bound_closed (n : Nat) (h : n + ((n + 65535) / 65536 * 3 + 1) ≤ 9223372036854774716) :
    Gen.Kernels.lzma2_bound n = n + ((n + 65535) / 65536 * 3 + 1) := by
  have hn : n ≤ 9223372036854774716 := by omega
  generalize hq : (n + 65535) / 65536 = q at h
  have hq3 : q * 3 + 1 ≤ 9223372036854774716 := by omega
  have m1 : (n + 65536) % 18446744073709551616 = n + 65536 := Nat.mod_eq_of_lt (by omega)
  have m2 : (n + 65536 + 18446744073709551616 - 1) % 18446744073709551616 = n + 65535 := by omega
  have m3 : q * 3 % 18446744073709551616 = q * 3 := Nat.mod_eq_of_lt (by omega)
  have m4 : (q * 3 + 1) % 18446744073709551616 = q * 3 + 1 := Nat.mod_eq_of_lt (by omega)
  have m5 : (9223372036854774716 + 18446744073709551616 - (q * 3 + 1)) % 18446744073709551616 = 9223372036854774716 - (q * 3 + 1) := by omega
  have m6 : (n + (q * 3 + 1)) % 18446744073709551616 = n + (q * 3 + 1) := Nat.mod_eq_of_lt (by omega)
  unfold Gen.Kernels.lzma2_bound
  rw [if_neg (by omega)]
  simp only [m1, m2, hq, m3, m4, m5, m6]
  rw [if_neg (by omega)]

/-- multiples of LZMA2_CHUNK_MAX are where the two ways of counting chunks differ: `k` chunks, not `k + 1` -/
theorem uncomp_block_compressed_size_multiple (k : Nat) (hk : k < 140731046199283) :
    Gen.Kernels.lzma2_bound (k * 65536) = k * 65536 + k * 3 + 1 := by
  have e : (k * 65536 + 65535) / 65536 = k := by omega
  rw [lzma2_bound_closed _ (by rw [e]; omega), e]; omega

example : Gen.Kernels.lzma2_bound (13 * 65536) = 13 * 65536 + 13 * 3 + 1 := by decide

end XzVerif.C01
