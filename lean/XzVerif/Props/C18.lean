/-
  C18 — the command-line tools deliver exactly the library's decoding, whatever the sink.

  Model: Model/Sparse.lean (file_io.c io_open_dest_real / io_write / io_close, coder.c coder_normal /
  coder_passthru / coder_run, main.c exit status, xzdec.c). Constants and the finite-domain behaviour of the real
  code are regenerated into Gen/C18.lean on every run; the `gen_*` theorems bridge them to the model.
  The theorems quantify over every configuration `cfg` (buffer size > 0), every destination and every write
  sequence; Model/SparseCfg.lean instantiates `genCfg` from the regenerated constants.
-/
import XzVerif.Lemmas.Sparse
import XzVerif.Lemmas.SparseCoder
import XzVerif.Model.SparseCfg
import XzVerif.Lemmas.XzArgs

namespace XzVerif.C18
open XzVerif.Sparse

/-! ### Bridges to the regenerated facts about the real code -/

/-- `is_sparse()` looks at the whole buffer: `io_buf.u64` covers `IO_BUFFER_SIZE` bytes, which is not zero. -/
theorem gen_buffer_words :
    Gen.C18.u64Words * 8 = Gen.C18.ioBufferSize ∧ Gen.C18.ioBufSizeof = Gen.C18.ioBufferSize
      ∧ 0 < Gen.C18.ioBufferSize ∧ 2 ≤ Gen.C18.offTBits := by decide

/-- Tabulated over all 2·8192 one-byte-nonzero buffers and the all-zero buffer: the real `is_sparse()` accepts
    exactly the all-zero buffer (as `Sparse.isSparse` does). -/
theorem gen_is_sparse : Gen.C18.isSparseAllZero = true ∧ Gen.C18.isSparseMissed = [] := by decide

theorem gen_ret_codes : Gen.C18.lzmaRet = Ret.all.map Ret.code := by decide

theorem gen_exit_codes : Gen.C18.exitCodes = [Exit.success.code, Exit.error.code, Exit.warning.code] := by decide

/-- The real `set_exit_status()` on all (old, new) pairs equals `Sparse.setExit`. -/
theorem gen_set_exit : Gen.C18.setExitTable.all setExitRowOk = true ∧ Gen.C18.setExitTable.length = 6 := by decide

/-- The real `io_open_dest_real()` + `io_close_dest()` on standard output, run on real descriptors for
    (regular | pipe) × O_APPEND × O_NONBLOCK × offset (<,=,>) size × --no-sparse × (compress | decompress),
    agree with `Sparse.openStdout` / `Sparse.ioCloseDest` on the sparse decision, the flags while open, the offset
    after opening and the flags after closing. -/
theorem gen_open_table : Gen.C18.openTable.all openRowOk = true ∧ Gen.C18.openTable.length = 64 := by
  decide +kernel

/-- The probe's own experiment is sound (a successful close materialises the hole), and the failing close either
    drops or materialises the pending hole — nothing else. -/
theorem gen_close_probe :
    Gen.C18.okCloseSize = Gen.C18.ioBufferSize ∧ Gen.C18.failClosePending = Gen.C18.ioBufferSize
      ∧ Gen.C18.failCloseTrouble = false ∧ Gen.C18.msgErrorsDuringProbe = 0
      ∧ (Gen.C18.failCloseSize = 0 ∨ Gen.C18.failCloseSize = Gen.C18.failClosePending) := by decide

/-- The real `io_close(pair, success = false)` on standard output materialises a pending hole
    (so that the zeros decoded before an error are not lost; see `sparse_exact_on_error`). -/
theorem gen_fail_flush : genCfg.failFlush = true := by decide

/-- The real `message_warning()` / `message_error()` (message.c) at every verbosity level V_SILENT … V_DEBUG leave the
    exit status `Sparse.messageExit` says — E_WARNING / E_ERROR whether or not the text was printed. -/
theorem gen_msg_exit :
    Gen.C18.msgExitTable.all msgExitRowOk = true ∧ Gen.C18.msgExitTable.map (·.1) = [0, 1, 2, 3, 4]
      ∧ Gen.C18.verbosityLevels = [0, 1, 2, 3, 4] := by decide

/-- All the theorems below need from the build's constants: the I/O buffer is not empty (its actual size — 8 KiB in
    xz 5.8 — is a parameter of the model, `Cfg.bufSize`, and every theorem holds for every positive size). -/
theorem gen_cfg : 0 < genCfg.bufSize ∧ 0 < genCfg.pendingMax := by decide

/-! ### The sparse writer -/

/-- **sparse_exact.** A regular file positioned at its end, O_APPEND off, sparse mode on, no hole pending:
    for every sequence of `io_write` calls, after `io_close(success)` the file is exactly the old content followed
    by all bytes written — every zero run reproduced, exact final size (all-zero and trailing-zero output
    included) — no call fails, and the offset is at the end (so a following file of the same run continues correctly).
    No bound on the buffer lengths is needed (the tool only passes `≤ IO_BUFFER_SIZE`). -/
theorem sparse_exact (cfg : Cfg) (hB : 0 < cfg.bufSize) (s : St) (ws : List (List UInt8))
    (hreg : s.dest.kind = .regular) (hna : s.dest.flags.append = false)
    (hend : s.dest.offset = s.dest.content.length) (hs : s.trySparse = true) (hp : s.pending = 0) :
    (ioWrites cfg s ws).2 = false ∧
    (ioClose cfg (ioWrites cfg s ws).1 true).dest.content = s.dest.content ++ ws.flatten ∧
    (ioClose cfg (ioWrites cfg s ws).1 true).dest.offset = (s.dest.content ++ ws.flatten).length := by
  have h0 : Inv s.dest.content [] s := ⟨hreg, hna, hend, by simp [hp, zeros], hs⟩
  obtain ⟨h1, h2⟩ := ioWrites_inv cfg hB ws h0
  obtain ⟨c1, c2, _⟩ := ioClose_success_inv cfg h2
  exact ⟨h1, by simpa using c1, by simpa using c2⟩

/-- The same when the coding failed (`io_close(pair, false)`): on standard output with the measured behaviour
    `failFlush` nothing decoded before the error is lost either. -/
theorem sparse_exact_on_error (cfg : Cfg) (hB : 0 < cfg.bufSize) (hf : cfg.failFlush = true) (s : St)
    (ws : List (List UInt8)) (hreg : s.dest.kind = .regular) (hna : s.dest.flags.append = false)
    (hend : s.dest.offset = s.dest.content.length) (hs : s.trySparse = true) (hp : s.pending = 0)
    (hout : s.isStdout = true) :
    (ioClose cfg (ioWrites cfg s ws).1 false).dest.content = s.dest.content ++ ws.flatten := by
  have h0 : Inv s.dest.content [] s := ⟨hreg, hna, hend, by simp [hp, zeros], hs⟩
  obtain ⟨_, h2⟩ := ioWrites_inv cfg hB ws h0
  have hio : (ioWrites cfg s ws).1.isStdout = true := by rw [(ioWrites_frame cfg ws s).isStdout]; exact hout
  have : ioClose cfg (ioWrites cfg s ws).1 false = ioClose cfg (ioWrites cfg s ws).1 true := by
    unfold ioClose; simp [hf, hio]
  rw [this]
  simpa using (ioClose_success_inv cfg h2).1

/-- Without that behaviour (xz ≤ 5.8.1) exactly the pending hole — whole all-zero buffers — is missing. -/
theorem sparse_on_error_without_flush (cfg : Cfg) (hB : 0 < cfg.bufSize) (hf : cfg.failFlush = false) (s : St)
    (ws : List (List UInt8)) (hreg : s.dest.kind = .regular) (hna : s.dest.flags.append = false)
    (hend : s.dest.offset = s.dest.content.length) (hs : s.trySparse = true) (hp : s.pending = 0) :
    ∃ k, (ioClose cfg (ioWrites cfg s ws).1 false).dest.content ++ zeros k = s.dest.content ++ ws.flatten := by
  have h0 : Inv s.dest.content [] s := ⟨hreg, hna, hend, by simp [hp, zeros], hs⟩
  obtain ⟨_, h2⟩ := ioWrites_inv cfg hB ws h0
  refine ⟨(ioWrites cfg s ws).1.pending, ?_⟩
  have : (ioClose cfg (ioWrites cfg s ws).1 false).dest.content = (ioWrites cfg s ws).1.dest.content := by
    unfold ioClose; simp [hf]
  rw [this]
  simpa using h2.data

/-- **any_sparse_strategy_exact** (refinement to the abstract specification). Whatever strategy a sparse writer uses —
    whole buffers, 4 KiB sub-blocks, byte-exact runs — if its `write`/`lseek` trace is a partition of the output `W` into
    written ranges and skipped all-zero ranges, every skipped range being followed by a later write (`traceDelivers`), then
    on a regular file that was positioned at its end the result is exactly the old content followed by `W`.
    Stage K accepts an implementation trace that differs from `ioWrite`'s when it satisfies `traceDelivers`. -/
theorem any_sparse_strategy_exact (t : List Ev) (W : List UInt8) (d : Dest) (hreg : d.kind = .regular)
    (hna : d.flags.append = false) (hend : d.offset = d.content.length) (h : traceDelivers t W false = true) :
    (replayTrace t W d).content = d.content ++ W ∧ (replayTrace t W d).offset = (d.content ++ W).length := by
  simpa [zeros] using replay_delivers t W d 0 false hreg hna (by simpa using hend) (fun _ => rfl) h

/-- **sparse_off_when_unsafe.** Sparse mode is switched on for standard output exactly when `--no-sparse` is not
    given, the mode is decompression, standard output is a regular file, and either O_APPEND is set or the offset
    is the end of the file. Otherwise (pipe, not at EOF, …) every `io_write` is a plain `write`: the destination
    receives the bytes by `write` semantics alone. -/
theorem sparse_off_when_unsafe (cfg : Cfg) (noSparse : Bool) (mode : Mode) (d : Dest) :
    ((openStdout noSparse mode d).trySparse = true ↔ sparseOk noSparse mode d) ∧
    (¬ sparseOk noSparse mode d → ∀ ws : List (List UInt8),
      (ioWrites cfg (openStdout noSparse mode d) ws).2 = false ∧
      (ioWrites cfg (openStdout noSparse mode d) ws).1.pending = 0 ∧
      (ioWrites cfg (openStdout noSparse mode d) ws).1.dest.content = expectedContent d ws.flatten) := by
  obtain ⟨hk, hc, hp, _, _, hiff, _, hoff⟩ := openStdout_spec noSparse mode d
  refine ⟨hiff, ?_⟩
  intro hno ws
  have hts : (openStdout noSparse mode d).trySparse = false := by
    cases h : (openStdout noSparse mode d).trySparse with
    | false => rfl
    | true => exact absurd (hiff.mp h) hno
  obtain ⟨p1, p2⟩ := plain_writes cfg ws _ hts
  obtain ⟨ho, ha⟩ := hoff hts
  refine ⟨p1, ?_, ?_⟩
  · have := ioWrites_pending cfg ws _ hts
    rw [this, hp]
  · rw [p2]
    simp only [expectedContent, hk, hc, ho, ha]

/-- **delivered_exact** (all sinks). Whatever standard output is — pipe, regular file at any offset, O_APPEND or
    not, `--no-sparse` or not — after a successful run it holds exactly what plain `write` calls of the same bytes
    would have produced, and no `io_write` fails. -/
theorem delivered_exact (cfg : Cfg) (hB : 0 < cfg.bufSize) (noSparse : Bool) (mode : Mode) (d : Dest)
    (ws : List (List UInt8)) :
    (ioWrites cfg (openStdout noSparse mode d) ws).2 = false ∧
    (ioClose cfg (ioWrites cfg (openStdout noSparse mode d) ws).1 true).dest.content = expectedContent d ws.flatten ∧
    (ioClose cfg (ioWrites cfg (openStdout noSparse mode d) ws).1 true).dest.kind = d.kind := by
  obtain ⟨hk, hc, hp, _, _, hiff, hon, _⟩ := openStdout_spec noSparse mode d
  by_cases hts : (openStdout noSparse mode d).trySparse = true
  · obtain ⟨hna, hoff⟩ := hon hts
    have hso := hiff.mp hts
    have hreg : (openStdout noSparse mode d).dest.kind = .regular := by rw [hk]; exact hso.2.2.1
    obtain ⟨e1, e2, _⟩ := sparse_exact cfg hB (openStdout noSparse mode d) ws hreg hna (by rw [hoff, hc]) hts hp
    have h0 : Inv (openStdout noSparse mode d).dest.content [] (openStdout noSparse mode d) :=
      ⟨hreg, hna, by rw [hoff, hc], by simp [hp, zeros], hts⟩
    obtain ⟨_, h2⟩ := ioWrites_inv cfg hB ws h0
    refine ⟨e1, ?_, ?_⟩
    · rw [e2, hc]
      -- appending at the end is what `expectedContent` prescribes for O_APPEND or offset = size
      have hreg' := hso.2.2.1
      simp only [expectedContent, hreg']
      cases hW : ws.flatten with
      | nil => simp
      | cons w rest =>
        have : (if d.flags.append = true then d.content.length else d.offset) = d.content.length := by
          rcases hso.2.2.2 with h | h <;> simp [h]
        rw [this]
        have := overwriteAt_past_end d.content (w :: rest) 0
        simp [zeros] at this
        simp [this]
    · rw [(ioClose_success_inv cfg h2).2.2, hso.2.2.1]
  · have hno : ¬ sparseOk noSparse mode d := fun h => hts (hiff.mpr h)
    obtain ⟨p1, p0, p2⟩ := (sparse_off_when_unsafe cfg noSparse mode d).2 hno ws
    have hts' : (openStdout noSparse mode d).trySparse = false := by simpa using hts
    have hfr := ioWrites_frame cfg ws (openStdout noSparse mode d)
    refine ⟨p1, ?_, ?_⟩
    · rw [← p2]
      unfold ioClose
      simp [hfr.sparse, hts']
    · have : (ioClose cfg (ioWrites cfg (openStdout noSparse mode d) ws).1 true).dest.kind
          = (ioWrites cfg (openStdout noSparse mode d) ws).1.dest.kind := by
        unfold ioClose; simp [hfr.sparse, hts']
      rw [this, hfr.kind, hk]

/-- **append_flag_restored.** The O_APPEND and O_NONBLOCK state of standard output after `io_close` equals the state
    before `io_open_dest`, on success and on failure, whatever was written (also when the writes stopped at an
    error), and `restore_stdout_flags` is clear again. -/
theorem append_flag_restored (cfg : Cfg) (noSparse : Bool) (mode : Mode) (d : Dest) (ws : List (List UInt8))
    (success : Bool) :
    (ioClose cfg (ioWrites cfg (openStdout noSparse mode d) ws).1 success).dest.flags = d.flags ∧
    (ioClose cfg (ioWrites cfg (openStdout noSparse mode d) ws).1 success).restoreFlags = false := by
  obtain ⟨_, _, _, _, hfl, _⟩ := openStdout_spec noSparse mode d
  have hfr := ioWrites_frame cfg ws (openStdout noSparse mode d)
  have key := ioClose_flags cfg (ioWrites cfg (openStdout noSparse mode d) ws).1 success
  rw [key.1, hfr.restore, hfr.saved, hfr.flags]
  refine ⟨?_, key.2⟩
  rcases hfl with ⟨h1, h2⟩ | ⟨h1, h2⟩ <;> simp [h1, h2]

/-! ### coder_normal: what is handed to io_write -/

/-- **output_is_lib_prefix.** The bytes handed to `io_write` by `coder_normal` are exactly the bytes the library
    produced up to and including the `lzma_code` call that ended the loop — all of them also when that call
    reported an error, none from later calls; if the loop is left early (signal, read error) they are a prefix.
    The run counts as successful iff the final value is LZMA_STREAM_END and the trailing-input rule passes. When every
    call's output fits the free space of `out_buf`, every write is a full buffer except possibly the last. -/
theorem output_is_lib_prefix (cfg : Cfg) (allowTrailing trailing : Bool) (steps : List Step) :
    (libFinal steps ≠ none →
      (coderNormal cfg allowTrailing trailing steps []).writes.flatten = libOutput steps) ∧
    (∃ rest, (coderNormal cfg allowTrailing trailing steps []).writes.flatten ++ rest = libOutput steps) ∧
    ((coderNormal cfg allowTrailing trailing steps []).success = true ↔
      (libFinal steps = some .streamEnd ∧ (allowTrailing = true ∨ trailing = false))) ∧
    (stepsFit cfg steps 0 = true →
      fullThenLast cfg.bufSize (coderNormal cfg allowTrailing trailing steps []).writes) := by
  refine ⟨fun h => by simpa using coderNormal_writes cfg allowTrailing trailing steps [] h, ?_, ?_, ?_⟩
  · simpa using coderNormal_prefix cfg allowTrailing trailing steps []
  · rw [coderNormal_success]; simp [libSuccess]
  · intro h; exact coderNormal_sizes cfg allowTrailing trailing steps [] (by simpa using h)

/-- The `io_write` sequence depends only on the bytes the library produced — not on how many `lzma_code` calls it
    took or where they stopped (threads, timeouts, input chunking): full buffers, then the remainder. The model driver
    uses one canonical call sequence; by this theorem any other fitting sequence with the same output gives the same
    writes, hence the same `lseek`/`write` trace. -/
theorem writes_determined_by_output (cfg : Cfg) (hB : 0 < cfg.bufSize) (allowTrailing trailing : Bool)
    (steps : List Step) (hfit : stepsFit cfg steps 0 = true) (hfin : libFinal steps ≠ none) :
    (coderNormal cfg allowTrailing trailing steps []).writes = splitFull cfg.bufSize (libOutput steps) := by
  simpa using coderNormal_writes_split cfg hB allowTrailing trailing steps [] (by simpa using hB) (by simpa using hfit) hfin

/-- The canonical call sequence the model driver builds from a library result `(warnings, output, final value)` is a
    legitimate one: it fits the buffer, produces exactly that output, ends with that value and has that many warnings.
    Together with `writes_determined_by_output` the driver's answer is the model's answer for EVERY fitting call
    sequence with that result. -/
theorem driver_steps_legitimate (cfg : Cfg) (hB : 0 < cfg.bufSize) (warn : Nat) (out : List UInt8) (ret : Ret)
    (hr : ret.stops = true) :
    libOutput (canonicalSteps cfg warn out ret) = out ∧ libFinal (canonicalSteps cfg warn out ret) = some ret ∧
    libWarnings (canonicalSteps cfg warn out ret) = warn ∧ stepsFit cfg (canonicalSteps cfg warn out ret) 0 = true :=
  canonicalSteps_spec cfg hB warn out ret hr

/-- End to end for `xz -dc` on one recognised file whose headers decoded: standard output receives exactly the
    library's output (placed by `write` semantics) when the run succeeds, and also when it fails provided the
    real `io_close` has the `failFlush` behaviour; the flags of standard output are as before. -/
theorem xz_stdout_delivers (cfg : Cfg) (hB : 0 < cfg.bufSize) (hf : cfg.failFlush = true) (o : Opts) (fi : FileIn)
    (out : Dest) (hm : o.mode = .decompress) (hso : o.toStdout = true) (hk : fi.fmtKnown = true)
    (hi : fi.initRet = .ok ∨ fi.initRet = .streamEnd) (hfin : libFinal fi.steps ≠ none) :
    (xzFile cfg o fi out).out.content = expectedContent out (libOutput fi.steps) ∧
    (xzFile cfg o fi out).out.flags = out.flags := by
  have hinit : (fi.initRet != .ok && fi.initRet != .streamEnd) = false := by
    rcases hi with h | h <;> simp [h]
  have hw := coderNormal_writes cfg (allowOf o fi) fi.trailing fi.steps [] hfin
  simp only [List.nil_append] at hw
  unfold xzFile xzFileWith
  simp only [hk, hinit, hm, hso]
  simp only [Bool.not_true, Bool.false_eq_true, if_false, if_true]
  have hne : (Mode.decompress == Mode.test) = false := by decide
  simp only [hne, Bool.false_eq_true, if_false]
  refine ⟨?_, (append_flag_restored cfg o.noSparse .decompress out _ _).1⟩
  cases hsucc : (coderNormal cfg (allowOf o fi) fi.trailing fi.steps []).success with
  | true =>
    have := (delivered_exact cfg hB o.noSparse .decompress out
      (coderNormal cfg (allowOf o fi) fi.trailing fi.steps []).writes).2.1
    rw [hw] at this
    exact this
  | false =>
    -- failure: same content as a successful close, by `failFlush` (sparse) or because nothing is pending (plain)
    have hclose : ∀ s : St, s.isStdout = true → ioClose cfg s false = ioClose cfg s true := by
      intro s hs; unfold ioClose; simp [hf, hs]
    have hio : (ioWrites cfg (openStdout o.noSparse .decompress out)
        (coderNormal cfg (allowOf o fi) fi.trailing fi.steps []).writes).1.isStdout = true := by
      rw [(ioWrites_frame cfg _ _).isStdout]; exact (openStdout_spec o.noSparse .decompress out).2.2.2.1
    rw [hclose _ hio]
    have := (delivered_exact cfg hB o.noSparse .decompress out
      (coderNormal cfg (allowOf o fi) fi.trailing fi.steps []).writes).2.1
    rw [hw] at this
    exact this

/-- `xz -d FILE` (new file, not standard output): the file survives exactly when the headers decoded, the library
    ended with LZMA_STREAM_END and the trailing-input rule passed — and then it holds exactly the library's output. -/
theorem new_file_iff_complete (cfg : Cfg) (hB : 0 < cfg.bufSize) (o : Opts) (fi : FileIn) (out : Dest)
    (hm : o.mode = .decompress) (hso : o.toStdout = false) (hk : fi.fmtKnown = true) :
    (xzFile cfg o fi out).created =
      (if (fi.initRet = .ok ∨ fi.initRet = .streamEnd) ∧ libSuccess (allowOf o fi) fi.trailing fi.steps = true
        then some (libOutput fi.steps) else none) ∧
    (xzFile cfg o fi out).out = out := by
  unfold xzFile xzFileWith
  have hne : (Mode.decompress == Mode.test) = false := by decide
  by_cases hi : fi.initRet = .ok ∨ fi.initRet = .streamEnd
  · have hinit : (fi.initRet != .ok && fi.initRet != .streamEnd) = false := by
      rcases hi with h | h <;> simp [h]
    simp only [hk, hinit, hm, hso, hne, Bool.not_true, Bool.false_eq_true, if_false, hi, true_and]
    rw [coderNormal_success]
    cases hs : libSuccess (allowOf o fi) fi.trailing fi.steps with
    | false => simp
    | true =>
      have hfin : libFinal fi.steps ≠ none := by
        intro h; simp [libSuccess, h] at hs
      have hw := coderNormal_writes cfg (allowOf o fi) fi.trailing fi.steps [] hfin
      simp only [List.nil_append] at hw
      simp only [if_true, and_true]
      congr 1
      have := new_file_content cfg hB o.noSparse .decompress
        (coderNormal cfg (allowOf o fi) fi.trailing fi.steps []).writes
      rw [this, hw]
  · have hinit : (fi.initRet != .ok && fi.initRet != .streamEnd) = true := by
      simp only [not_or] at hi; simp [hi.1, hi.2]
    simp [hk, hinit, hi]

/-! ### Exit status -/

/-- **exit_status_iff.** `xz` exits 0 iff no error and no un-suppressed warning was reported, 1 iff some error
    was reported, 2 iff only warnings were reported and `--no-warn` is not in effect. -/
theorem exit_status_iff (noWarn : Bool) (msgs : List Msg) :
    (finalExit noWarn (exitOfMsgs msgs) = 0 ↔ Msg.error ∉ msgs ∧ (Msg.warning ∉ msgs ∨ noWarn = true)) ∧
    (finalExit noWarn (exitOfMsgs msgs) = 1 ↔ Msg.error ∈ msgs) ∧
    (finalExit noWarn (exitOfMsgs msgs) = 2 ↔ Msg.error ∉ msgs ∧ Msg.warning ∈ msgs ∧ noWarn = false) := by
  rw [exitOfMsgs_eq]
  by_cases he : Msg.error ∈ msgs <;> by_cases hw : Msg.warning ∈ msgs <;> cases noWarn <;>
    simp [he, hw, finalExit, Exit.code]

/-- Which files make `xz -d` or `xz -t` report an error: unrecognised format (unless passed through), a header-decoding
    failure, or a library run that does not end in LZMA_STREAM_END with the trailing-input rule satisfied.
    LZMA_UNSUPPORTED_CHECK alone never does — it is a warning. -/
theorem xz_file_error_iff (cfg : Cfg) (o : Opts) (fi : FileIn) (out : Dest) (hfin : libFinal fi.steps ≠ none) :
    (Msg.error ∈ (xzFile cfg o fi out).msgs ↔
      ¬ ((fi.fmtKnown = false ∧ o.mode = .decompress ∧ o.toStdout = true ∧ o.force = true) ∨
         (fi.fmtKnown = true ∧ (fi.initRet = .ok ∨ fi.initRet = .streamEnd)
            ∧ libSuccess (allowOf o fi) fi.trailing fi.steps = true))) ∧
    (Msg.warning ∈ (xzFile cfg o fi out).msgs →
      fi.fmtKnown = true ∧ (0 < fi.initWarn ∨ 0 < libWarnings fi.steps)) := by
  rw [xzFile_msgs, coderNormal_msgs]
  cases hk : fi.fmtKnown with
  | false =>
    cases hm : o.mode <;> cases hs : o.toStdout <;> cases hfo : o.force <;> simp_all
  | true =>
    have hne : libFinal fi.steps = none ↔ False := ⟨fun h => hfin h, False.elim⟩
    by_cases hi : fi.initRet = .ok ∨ fi.initRet = .streamEnd
    · cases hsu : libSuccess (allowOf o fi) fi.trailing fi.steps <;>
        simp [hi, hne, List.mem_replicate] <;> omega
    · simp [hi, List.mem_replicate]
      omega

/-! ### Verbosity -/

/-- **verdict_independent_of_verbosity.** `-q` / `-v`, however often, change only what is printed: the bytes delivered,
    the files created, the system calls, the messages raised and the exit status of a run are the same at every
    verbosity level (in particular `-qq` cannot turn an error or a warning into exit status 0). -/
theorem verdict_independent_of_verbosity (cfg : Cfg) (o : Opts) (v : Nat) (files : List FileIn) (out : Dest) :
    xzRun cfg { o with verbosity := v } files out = xzRun cfg o files out ∧
    xzExit { o with verbosity := v } (xzRun cfg { o with verbosity := v } files out) = xzExit o (xzRun cfg o files out) ∧
    xzExit o (xzRun cfg o files out) = finalExit o.noWarn (exitOfMsgs (xzRun cfg o files out).msgs) := by
  have hrun : ∀ (files : List FileIn) (prev : Bool) (out : Dest),
      xzRunFrom cfg { o with verbosity := v } prev files out = xzRunFrom cfg o prev files out := by
    intro files
    induction files with
    | nil => intro _ _; rfl
    | cons fi rest ih =>
      intro prev out
      simp only [xzRunFrom]
      have h1 : coderInitFlag { o with verbosity := v } fi prev = coderInitFlag o fi prev := rfl
      have h2 : ∀ a, xzFileWith cfg { o with verbosity := v } fi out a = xzFileWith cfg o fi out a := fun _ => rfl
      rw [h1, h2, ih]
  have h := hrun files false out
  refine ⟨h, ?_, rfl⟩
  unfold xzRun at *
  rw [h]
  rfl

/-- Only the number of diagnostic lines depends on the level: errors are printed from V_ERROR up, warnings from V_WARNING up. -/
theorem printed_iff (verbosity : Nat) (m : Msg) :
    m.printed verbosity = true ↔ (m = .error ∧ 1 ≤ verbosity) ∨ (m = .warning ∧ 2 ≤ verbosity) := by
  cases m <;> simp [Msg.printed, Msg.level] <;> exact ⟨of_decide_eq_true, decide_eq_true⟩

/-! ### Option order and the environment -/

/-- **config_independent_of_option_order.** Options are applied one by one in the order XZ_DEFAULTS, XZ_OPT, command
    line, each assigning only its own variable; so any two orders of the same options (each variable set at most once)
    give the same configuration — in particular it does not matter whether `-d` / `-t` comes before or after
    `--flush-timeout=N`, `--block-size`, `-T`, `--memlimit`, nor which of them sit in the environment. -/
theorem config_independent_of_option_order (l1 l2 : List XzArgs.Arg) (hp : l1.Perm l2)
    (hn : (l1.map XzArgs.Arg.slot).Nodup) (c : XzArgs.Conf) :
    l1.foldl XzArgs.parseStep c = l2.foldl XzArgs.parseStep c :=
  XzArgs.foldl_perm hp hn c

/-- The same for the three sources: moving options between XZ_DEFAULTS, XZ_OPT and the command line changes nothing. -/
theorem config_independent_of_option_source (d1 o1 c1 d2 o2 c2 : List XzArgs.Arg)
    (hp : (d1 ++ o1 ++ c1).Perm (d2 ++ o2 ++ c2)) (hn : ((d1 ++ o1 ++ c1).map XzArgs.Arg.slot).Nodup) :
    XzArgs.parseArgs d1 o1 c1 = XzArgs.parseArgs d2 o2 c2 :=
  XzArgs.foldl_perm hp hn {}

/-- **no_flush_when_not_compressing.** The operation mode is the LAST mode option of the whole option sequence (compress
    if there is none), the flush timeout the last `--flush-timeout`; the timeout is in force only if that final mode is
    compress. So `xz --flush-timeout=N -d`, `xz -d --flush-timeout=N` and `XZ_OPT=--flush-timeout=N xz -d` all decompress with
    no flush timer: input arriving slowly through a pipe is just waited for. -/
theorem no_flush_when_not_compressing (l : List XzArgs.Arg) :
    ((l.foldl XzArgs.parseStep {}).mode =
        ((l.filterMap fun a => match a with | .mode m => some m | _ => none).getLast?).getD .compress) ∧
    ((l.foldl XzArgs.parseStep {}).mode ≠ .compress → XzArgs.effectiveFlushTimeout (l.foldl XzArgs.parseStep {}) = 0) := by
  refine ⟨XzArgs.mode_of_foldl l {}, ?_⟩
  intro h
  simp [XzArgs.effectiveFlushTimeout, h]

example : XzArgs.effectiveFlushTimeout (XzArgs.parseArgs [] [.flushTimeout 100] [.threads 1, .mode .decompress, .toStdout]) = 0
    ∧ XzArgs.effectiveFlushTimeout (XzArgs.parseArgs [] [] [.flushTimeout 100, .toStdout]) = 100 := by decide

/-! ### Several files in one invocation -/

/-- `allow_trailing_input` is per file: whatever the previous file of the invocation left in the static variable
    (a .lz file leaves `true`), `coder_init` starts from `false`; only `--single-stream` and a detected .lz format set it. -/
theorem allow_trailing_not_inherited (o : Opts) (fi : FileIn) (previous : Bool) :
    coderInitFlag o fi previous = allowOf o fi ∧
    (allowOf o fi = true ↔ (o.single = true ∨ (fi.fmtKnown = true ∧ fi.isLzip = true))) := by
  refine ⟨rfl, ?_⟩
  cases h1 : o.single <;> cases h2 : fi.fmtKnown <;> cases h3 : fi.isLzip <;>
    simp [allowOf, coderInitFlag, resetAllowTrailing, h1, h2, h3]

/-- **multi_file_is_fold.** A run over several files is the fold of single-file runs over the same standard output:
    each file is decoded, judged (trailing-input rule included), written and reported exactly as if it were the only
    file — independent of the files before it and of the initial value of the static flag; the outputs concatenate,
    the messages (hence the exit status: the worst per-file status) accumulate. -/
theorem multi_file_is_fold (cfg : Cfg) (o : Opts) (files : List FileIn) :
    ∀ (previous : Bool) (out : Dest), xzRunFrom cfg o previous files out = xzRunFold cfg o files out := by
  induction files with
  | nil => intro _ _; rfl
  | cons fi rest ih =>
    intro previous out
    simp only [xzRunFrom, xzRunFold, xzFile, (allow_trailing_not_inherited o fi previous).1, ih]

/-- The exit status of a multi-file run is the worst per-file status: 1 iff some file reported an error, else 2 iff some
    file reported a warning (and no `--no-warn`), else 0. -/
theorem multi_file_exit (cfg : Cfg) (o : Opts) (files : List FileIn) (out : Dest) :
    (xzExit o (xzRun cfg o files out) = 1 ↔ ∃ m ∈ (xzRunFold cfg o files out).msgs, m = Msg.error) ∧
    (xzExit o (xzRun cfg o files out) = 0 ↔
      (Msg.error ∉ (xzRunFold cfg o files out).msgs ∧ (Msg.warning ∉ (xzRunFold cfg o files out).msgs ∨ o.noWarn = true))) := by
  unfold xzExit xzRun
  rw [multi_file_is_fold]
  show (finalExit o.noWarn (exitOfMsgs _) = 1 ↔ _) ∧ (finalExit o.noWarn (exitOfMsgs _) = 0 ↔ _)
  obtain ⟨h0, h1, _⟩ := exit_status_iff o.noWarn (xzRunFold cfg o files out).msgs
  exact ⟨by simpa using h1, h0⟩

/-- xzdec / lzmadec: exit status 0 iff every file decodes to LZMA_STREAM_END (lzmadec: and nothing trails), otherwise 1;
    on success standard output holds every file's output in order. Whatever a failing file produced before its
    error is written too (`xzdecRun` appends it before stopping). -/
theorem xzdec_exit_iff (lzmadec : Bool) (files : List (List UInt8 × Ret × Bool)) :
    ((xzdecRun lzmadec files).2 = 0 ↔ ∀ f ∈ files, xzdecFileOk lzmadec f.2.1 f.2.2 = true) ∧
    ((xzdecRun lzmadec files).2 = 0 ∨ (xzdecRun lzmadec files).2 = 1) ∧
    ((xzdecRun lzmadec files).2 = 0 → (xzdecRun lzmadec files).1 = (files.map (·.1)).flatten) :=
  xzdecRun_spec lzmadec files

/-! ### Non-vacuity: the hypotheses are satisfiable and the model really creates holes -/

/-- A toy buffer size 4: data, two all-zero buffers, data → one `lseek(+8)` instead of eight zero bytes written,
    same file. -/
example :
    let cfg : Cfg := { bufSize := 4, pendingMax := 2 ^ 62, failFlush := true }
    let d : Dest := { kind := .regular, content := [9], offset := 1, flags := { append := false, nonblock := false } }
    let s := openStdout false .decompress d
    let r := ioClose cfg (ioWrites cfg s [[1, 2, 3, 4], [0, 0, 0, 0], [0, 0, 0, 0], [5, 0]]).1 true
    s.trySparse = true ∧ r.dest.content = [9, 1, 2, 3, 4, 0, 0, 0, 0, 0, 0, 0, 0, 5, 0] ∧
    r.trace = [.setfl false true, .seekCur 0 1, .write 4, .seekCur 8 13, .write 2, .setfl false false] ∧
    r.dest.flags = d.flags := by decide

/-- All-zero output ending in a hole: `lseek(pending - 1)` + one zero byte gives the exact size. -/
example :
    let cfg : Cfg := { bufSize := 4, pendingMax := 2 ^ 62, failFlush := true }
    let d : Dest := { kind := .regular, content := [], offset := 0, flags := { append := true, nonblock := true } }
    let r := ioClose cfg (ioWrites cfg (openStdout false .decompress d) [[0, 0, 0, 0], [0, 0, 0, 0], []]).1 true
    r.dest.content = [0, 0, 0, 0, 0, 0, 0, 0] ∧
    r.trace = [.seekEnd 0, .setfl false true, .seekCur 7 7, .write 1, .setfl true true] ∧ r.dest.flags = d.flags := by
  decide

/-- Not at the end of the file: sparse stays off and the bytes overwrite in place. -/
example :
    let d : Dest := { kind := .regular, content := [7, 7, 7, 7, 7, 7], offset := 1, flags := { append := false, nonblock := true } }
    ¬ sparseOk false .decompress d ∧
    (ioClose stdCfg (ioWrites { stdCfg with bufSize := 2 } (openStdout false .decompress d) [[0, 0], [0, 0]]).1 true).dest.content
      = [7, 0, 0, 0, 0, 7] := by
  refine ⟨by simp [sparseOk], by decide⟩

/-- `coder_normal`: an error after 5 bytes with a 4-byte buffer: one full write, then the remaining byte, then nothing. -/
example :
    let cfg : Cfg := { bufSize := 4, pendingMax := 2 ^ 62, failFlush := true }
    let steps : List Step := [⟨[1, 2, 3], .ok⟩, ⟨[4], .ok⟩, ⟨[5], .dataError⟩, ⟨[6, 6], .streamEnd⟩]
    (coderNormal cfg false false steps []).writes = [[1, 2, 3, 4], [5]] ∧ libOutput steps = [1, 2, 3, 4, 5] ∧
    (coderNormal cfg false false steps []).success = false ∧ stepsFit cfg steps 0 = true := by decide

example : finalExit false (exitOfMsgs [.warning, .error, .warning]) = 1 ∧ finalExit false (exitOfMsgs [.warning]) = 2
    ∧ finalExit true (exitOfMsgs [.warning]) = 0 := by decide

end XzVerif.C18
