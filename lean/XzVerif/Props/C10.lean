/-
  C10 — allocation failure at any point is reported cleanly and nothing leaks.

  All statements are about the executable model `Model/Alloc.lean` (heap of live block ids, arbitrary failure
  oracle `fail : Nat → Bool`, `lzma_next_coder` trees, one allocation script per coder / API call) and hold for
  ALL failure oracles, ALL histories of API calls and ALL size tables `S`. The tie to the C code is the trace
  replay of tools/props/c10.py (every k-th allocation of every scenario, plus random subsets).

  `Good h L` (Lemmas/Alloc.lean): no block that was not live has ever been freed (`bad = false`), the live
  blocks of `h` are exactly the multiset `L`, without duplicates, all older than the next allocation.
-/
import XzVerif.Lemmas.AllocWorld

namespace XzVerif.C10
open XzVerif.Alloc

variable (S : Sizes)

/-! ### the general invariant -/

/-- Every history of API calls preserves ownership: whatever failed, the live blocks are exactly what the
    handle and the caller-owned indexes own, plus the untouched rest `F` of the heap. -/
theorem history_preserves_ownership (ops : List Op) (w : World) (fail : Oracle) (h : Heap) (F : List Nat)
    (hg : Good h (w.ids ++ F)) :
    Good (runOps S ops w fail h).2 ((runOps S ops w fail h).1.2.ids ++ F) :=
  spec_runOps S ops w fail h F hg

/-! ### end_balances -/

/-- Any sequence of public inits of different coders on one handle, coding calls, `lzma_filters_update`,
    failures, re-inits, index operations ..., finally `lzma_end` (and `lzma_index_end` of what the caller still
    owns): the heap after equals the heap before, for every failure oracle. -/
theorem end_balances (ops : List Op) (fail : Oracle) (h : Heap) (hw : HeapWF h) :
    let r := (runOps S ops {} >>= fun r => cleanup r.2) fail h
    r.2.live.Perm h.live ∧ r.2.bad = false := by
  have hs : Spec (runOps S ops {} >>= fun r => cleanup r.2) ([] : List Nat) (fun _ => []) :=
    Spec.bind (Spec.conseq (spec_runOps S ops {}) (by intro i; rfl) (fun _ => CEq.rfl')) (fun r => spec_cleanup r.2)
  have g := hs fail h h.live (good_of_wf hw)
  exact ⟨CEq.perm (by simpa using g.2.1), g.1⟩

/-- the same from an arbitrary reachable state `w` -/
theorem end_balances_from (ops : List Op) (w : World) (fail : Oracle) (h : Heap) (F : List Nat)
    (hg : Good h (w.ids ++ F)) :
    Good ((runOps S ops w >>= fun r => cleanup r.2) fail h).2 F := by
  have hs : Spec (runOps S ops w >>= fun r => cleanup r.2) w.ids (fun _ => []) :=
    Spec.bind (spec_runOps S ops w) (fun r => spec_cleanup r.2)
  simpa using hs fail h F hg

/-! ### no_double_free -/

/-- No script ever frees a block that is not live (free of a non-live id sets `bad` in the model): after every
    history, under every failure oracle, `bad` is still false. (Every prefix of a history is a history.) -/
theorem no_double_free (ops : List Op) (fail : Oracle) (h : Heap) (hw : HeapWF h) :
    (runOps S ops {} fail h).2.bad = false :=
  (spec_runOps S ops {} fail h h.live (good_of_wf hw)).1

/-- ... and no block is ever owned twice (no aliasing that a later `end` could free twice). -/
theorem owned_blocks_distinct (ops : List Op) (fail : Oracle) (h : Heap) (hw : HeapWF h) :
    ∀ i, ((runOps S ops {} fail h).1.2.ids ++ h.live).count i ≤ 1 :=
  (spec_runOps S ops {} fail h h.live (good_of_wf hw)).2.2.1

/-! ### init_fail_leaves_nothing -/

/-- A public init function that does not return `LZMA_OK` (in particular `LZMA_MEM_ERROR` after ANY pattern
    of allocation failures) leaves `strm->internal == NULL`, the caller's objects as they were, and NOTHING
    allocated that was not allocated before the call — even if the handle held another coder before. -/
theorem init_fail_leaves_nothing (op : Op) (hop : isInit op = true) (w : World) (fail : Oracle) (h : Heap)
    (F : List Nat) (hg : Good h (w.ids ++ F)) (hr : (runOp S w op fail h).1.1 ≠ OK) :
    (runOp S w op fail h).1.2.strm = none ∧ (runOp S w op fail h).1.2.ix = w.ix
      ∧ Good (runOp S w op fail h).2 (ixListIds w.ix ++ F) := by
  obtain ⟨nop, he⟩ := runOp_init_eq S op hop w
  have hg' : Good (runOp S w op fail h).2 ((runOp S w op fail h).1.2.ids ++ F) := wsafe_runOp S op w fail h F hg
  rw [he] at hr hg' ⊢
  obtain ⟨h1, h2⟩ := strmInit_fail S nop w fail h hr
  refine ⟨h1, h2, ?_⟩
  have : (strmInit S nop w fail h).1.2.ids = ixListIds w.ix := by
    rw [World.ids_def, h1, h2]; rfl
  rwa [this] at hg'

/-! ### reinit_reuse_sound -/

/-- `lzma_next_coder_init` with the SAME init function: the coder is kept, nothing is freed or allocated. -/
theorem reinit_same_keeps_coder (i : Nat) (n : Node) (hn : n.init = i) : Alloc.guard i n = pure (OK, n) := by
  unfold Alloc.guard; simp [hn]

/-- ... and the coder struct itself is reused, not reallocated. -/
theorem reinit_same_reuses_struct (sz : Nat) (fresh : NodeOp) (i self : Nat) (bufs : List (Option Nat)) (data : List Nat)
    (opts : List (Option Nat)) (ix0 ix1 : Option Index) (s0 s1 : Node) :
    allocSelf sz fresh (.mk i self bufs data opts ix0 ix1 s0 s1) = pure (OK, .mk i self bufs data opts ix0 ix1 s0 s1) := rfl

/-- `lzma_next_coder_init` with a DIFFERENT init function: the whole old chain is ended first — every block
    it owned is freed (exactly once) — and the slot is left as `{init = new, coder = NULL}`. -/
theorem reinit_different_ends_old_chain (i : Nat) (n : Node) (hn : n.init ≠ i) (fail : Oracle) (h : Heap) (F : List Nat)
    (hg : Good h (n.ids ++ F)) :
    (Alloc.guard i n fail h).1 = (OK, Node.null i) ∧ Good (Alloc.guard i n fail h).2 F := by
  have hne : (n.init != i) = true := by simpa using hn
  have h2 : (Alloc.guard i n fail h).1 = (OK, Node.null i) := by unfold Alloc.guard; simp [hne]
  refine ⟨h2, ?_⟩
  have : Good (Alloc.guard i n fail h).2 ((Alloc.guard i n fail h).1.2.ids ++ F) := safe_guard i n fail h F hg
  rw [h2] at this
  simpa using this

/-! ### filters_copy_atomic, index_*_atomic -/

/-- `lzma_filters_copy`: on failure nothing stays allocated and there is no result to write to the destination
    (the model returns `none`; the C code only `memcpy`s to `real_dest` on the success path); on success the
    new option structs are exactly the new live blocks. -/
theorem filters_copy_atomic (sizes : List (Option Nat)) (fail : Oracle) (h : Heap) (F : List Nat) (hg : Good h F) :
    match (filtersCopy sizes fail h).1 with
    | none => Good (filtersCopy sizes fail h).2 F
    | some d => Good (filtersCopy sizes fail h).2 (optIds d ++ F) := by
  have := spec_filtersCopy sizes fail h F (by simpa using hg)
  cases hc : (filtersCopy sizes fail h).1 with
  | none => rw [hc] at this; simpa [optPost] using this
  | some d => rw [hc] at this; simpa [optPost] using this

theorem filters_copy_fail_heap_unchanged (sizes : List (Option Nat)) (fail : Oracle) (h : Heap) (hw : HeapWF h)
    (hn : (filtersCopy sizes fail h).1 = none) : (filtersCopy sizes fail h).2.live.Perm h.live := by
  have := filters_copy_atomic sizes fail h h.live (by simpa using good_of_wf hw)
  rw [hn] at this
  exact CEq.perm this.2.1

/-- `lzma_index_append`: a failing call returns the index unchanged, and allocates nothing. -/
theorem index_append_atomic (i : Index) (fail : Oracle) (h : Heap) (F : List Nat) (hg : Good h (i.ids ++ F))
    (hr : (indexAppend S i fail h).1.1 ≠ OK) :
    (indexAppend S i fail h).1.2 = i ∧ Good (indexAppend S i fail h).2 (i.ids ++ F) := by
  have hgood : Good (indexAppend S i fail h).2 ((indexAppend S i fail h).1.2.ids ++ F) := spec_indexAppend S i fail h F hg
  have hval : (indexAppend S i fail h).1.2 = i := by
    unfold indexAppend at hr ⊢
    split
    · rename_i hc; simp [hc, OK] at hr
    · rename_i hc
      simp only [hc, run_bind] at hr ⊢
      cases ha : (alloc (some (S.indexGroup + i.prealloc * S.indexRecord)) fail h).1 with
      | none => simp [ha]
      | some g => simp [ha, OK] at hr
  exact ⟨hval, by rw [hval] at hgood; exact hgood⟩

/-- `lzma_index_cat`: the allocation happens before either index is modified: a failing call returns both
    indexes unchanged and the heap as it was. -/
theorem index_cat_atomic (d s : Index) (fail : Oracle) (h : Heap) (F : List Nat) (hg : Good h (d.ids ++ s.ids ++ F))
    (e : Ret) (d' s' : Index) (hr : (indexCat S d s fail h).1 = .fail e d' s') :
    d' = d ∧ s' = s ∧ Good (indexCat S d s fail h).2 (d.ids ++ s.ids ++ F) := by
  have hgood : Good (indexCat S d s fail h).2 ((indexCat S d s fail h).1.ids ++ F) :=
    spec_indexCat S d s fail h F (by simpa using hg)
  have hval : d' = d ∧ s' = s := by
    unfold indexCat at hr
    simp only [] at hr
    generalize hsh : (d.lastG.isSome && decide (d.lastUsed < d.lastAlloc)) = shrink at hr
    cases shrink with
    | false => simp [pure_bind'] at hr
    | true =>
      simp only [Bool.true_and, if_true, run_bind] at hr
      cases ha : (alloc (some (S.indexGroup + d.lastUsed * S.indexRecord)) fail h).1 with
      | none => simp [ha] at hr; exact ⟨hr.2.1.symm, hr.2.2.symm⟩
      | some g => simp [ha] at hr
  obtain ⟨rfl, rfl⟩ := hval
  rw [hr] at hgood
  exact ⟨rfl, rfl, by simpa [CatRes.ids] using hgood⟩

/-- `lzma_index_dup`: when it returns NULL everything it had allocated for the partial copy has been freed. -/
theorem index_dup_unwinds (src : Index) (fail : Oracle) (h : Heap) (F : List Nat) (hg : Good h F)
    (hr : (indexDup S src fail h).1 = none) : Good (indexDup S src fail h).2 F := by
  have := spec_indexDup S src fail h F (by simpa using hg)
  rw [hr] at this
  simpa using this

/-! ### caller_objects_untouched -/

/-- Calls on the handle (all inits, coding with an encoder, `lzma_filters_update`, `lzma_end`) never touch the
    caller-owned `lzma_index` objects — whether they fail or not. (Filter arrays passed to them are plain
    inputs of the model: they cannot be modified by construction; the harness compares their bytes.) -/
theorem caller_objects_untouched (op : Op) (hop : isHandleOp op = true) (w : World) (fail : Oracle) (h : Heap) :
    (runOp S w op fail h).1.2.ix = w.ix := by
  cases op <;> simp [isHandleOp, isInit] at hop <;>
    first
    | exact strmInit_ix S _ w fail h
    | exact onRoot_ix _ w fail h
    | (simp only [runOp]; split <;> first | rfl | exact onRoot_ix _ w fail h)
    | (simp only [runOp, run_bind, run_pure]; exact lzmaEnd_ix _ _ _)

/-! ### encoder_update_atomic -/

/-- `stream_encoder_update` copies the new chain to a temporary first: if that copy fails, the encoder is
    exactly as before (same coder tree, same option array) and nothing stays allocated. -/
theorem encoder_update_atomic (cur c : Chain) (n : Node) (fail : Oracle) (h : Heap) (F : List Nat) (hg : Good h (n.ids ++ F))
    (hc : (filtersCopy (c.map (optSizeCopy S)) fail h).1 = none) :
    (streamEncoderUpdate S cur c n fail h).1 = (MEM_ERROR, n) ∧ Good (streamEncoderUpdate S cur c n fail h).2 (n.ids ++ F) := by
  have hv : (streamEncoderUpdate S cur c n fail h).1 = (MEM_ERROR, n) := by
    unfold streamEncoderUpdate replaceOpts
    simp only [run_bind, hc, run_pure]
  refine ⟨hv, ?_⟩
  have := safe_streamEncoderUpdate S cur c n fail h F hg
  rw [hv] at this
  exact this

/-- ... and ANY failing update (whatever allocation failed, or a REFUSED change: mid-Block change of the Filter IDs, an
    update inside an LZMA2 chunk, an update after the last Block — all of which free the temporary copy) leaves the encoder's own
    filter-option array, its coder struct and its init function as they were: the encoder stays usable. -/
theorem encoder_update_keeps_options (cur c : Chain) (i self : Nat) (bufs : List (Option Nat)) (data : List Nat)
    (opts : List (Option Nat)) (ix0 ix1 : Option Index) (s0 s1 : Node) (fail : Oracle) (h : Heap)
    (hr : (streamEncoderUpdate S cur c (.mk i self bufs data opts ix0 ix1 s0 s1) fail h).1.1 ≠ OK) :
    ∃ bufs' data' ix0' ix1' s0' s1',
      (streamEncoderUpdate S cur c (.mk i self bufs data opts ix0 ix1 s0 s1) fail h).1.2 = .mk i self bufs' data' opts ix0' ix1' s0' s1' :=
  streamEncoderUpdate_fail_keeps S cur c i self bufs data opts ix0 ix1 s0 s1 fail h hr

/-! ### non-vacuity: concrete histories evaluated by the kernel -/

/-- a small size table for the examples (the theorems hold for every table) -/
def exS : Sizes :=
  { internal := 104, streamEnc := 1504, streamDec := 1416, blockEnc := 224, blockDec := 248, aloneEnc := 112, aloneDec := 232,
    lzipDec := 280, autoDec := 96, indexEnc := 336, indexDec := 72, fileInfo := 8544, microEnc := 88, microDec := 104,
    indexHash := 320, lzEnc := 240, lzDec := 4288, lzma1Enc := 249552, lzma1Dec := 28352, lzma2Enc := 65704, lzma2Dec := 184,
    delta := 352, simple := 144, simpleX86 := 8, index := 80, indexStream := 168, indexGroup := 64, indexRecord := 16,
    optLzma := 112, optDelta := 40, optBcj := 4, strAlloc := 800, indexGroupSize := 512, dictRepeatMax := 288, dictExtra := 32,
    memcmplenExtra := 8, opts := 4096, loopInputMax := 4097, matchLenMax := 273, lzma2ChunkMax := 65536, hash2Size := 1024,
    hash3Size := 65536, memusageBase := 32768 }

def exChain : Chain := [.bcj 0 none, .delta 4, .lzma true 65536 4 32 1]

/-- stream encoder, data, re-init as a stream decoder on the same handle, decode two Blocks, `lzma_end`:
    with the 9th allocation failing the init reports LZMA_MEM_ERROR, later calls still work, and at the end
    the heap is empty and `bad` is false. -/
def exHistory : List Op :=
  [.streamEncoder exChain, .encode exChain 0 100, .streamDecoder NOLIMIT, .decode (.xz exChain 2 1) 0, .aloneDecoder,
   .decode (.lzma 65536) 0, .ixInit 0, .ixAppend 0 3, .ixDup 1 0, .ixCat 0 1]

example : ((runOps exS exHistory {} >>= fun r => cleanup r.2) (fun k => k == 9) {}).2.live = [] := by decide +kernel
example : ((runOps exS exHistory {} >>= fun r => cleanup r.2) (fun k => k == 9) {}).2.bad = false := by decide +kernel
-- the failure is really hit: the first call returns LZMA_MEM_ERROR (5), the re-init on the same handle succeeds
example : (runOps exS exHistory {} (fun k => k == 9) {}).1.1.take 3 = [MEM_ERROR, PROG_ERROR, OK] := by decide +kernel
-- and without failures everything succeeds and the handle + two indexes own blocks before the clean-up
example : (runOps exS exHistory {} (fun _ => false) {}).1.1 = [OK, OK, OK, STREAM_END, OK, STREAM_END, OK, OK, OK, OK] := by
  decide +kernel
example : (runOps exS exHistory {} (fun _ => false) {}).2.live.length = 10 := by decide +kernel
-- every second allocation failing: still balanced
example : ((runOps exS exHistory {} >>= fun r => cleanup r.2) (fun k => k % 2 == 1) {}).2.live = [] := by decide +kernel
-- the empty heap is a sane start
example : HeapWF {} := ⟨rfl, List.nodup_nil, by intro i hi; cases hi⟩

end XzVerif.C10
