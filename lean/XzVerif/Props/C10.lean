/- C10 — placeholder while the model is being validated against the implementation; replaced by the real theorems. -/
import XzVerif.Model.Alloc
namespace XzVerif.C10
open XzVerif.Alloc
theorem placeholder : OK = 0 := rfl
end XzVerif.C10
