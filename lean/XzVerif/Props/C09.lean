/-
  C09 — memory limits are honoured and memory estimates are upper bounds.
-/
import XzVerif.Model.Memusage
import XzVerif.Model.MemusageBuild
import XzVerif.Model.Memlimit
import XzVerif.Model.XzAdjust
import XzVerif.Gen.C09

namespace XzVerif.C09
open XzVerif.Memusage

/-- The #defines the model hard-codes are the ones the source has today. -/
theorem gen_constants :
    Gen.C09.memusageBase = MEMUSAGE_BASE ∧ Gen.C09.lzDictRepeatMax = LZ_DICT_REPEAT_MAX ∧ Gen.C09.filtersMax = FILTERS_MAX
    ∧ Gen.C09.threadsMax = THREADS_MAX ∧ Gen.C09.dictSizeMin = DICT_SIZE_MIN ∧ Gen.C09.lclpMax = LCLP_MAX ∧ Gen.C09.pbMax = PB_MAX
    ∧ Gen.C09.deltaDistMin = DELTA_DIST_MIN ∧ Gen.C09.deltaDistMax = DELTA_DIST_MAX ∧ Gen.C09.matchLenMin = MATCH_LEN_MIN
    ∧ Gen.C09.matchLenMax = MATCH_LEN_MAX ∧ Gen.C09.encOpts = OPTS ∧ Gen.C09.loopInputMax = LOOP_INPUT_MAX
    ∧ Gen.C09.lzma2ChunkMax = LZMA2_CHUNK_MAX ∧ Gen.C09.lzma2HeaderUncompressed = LZMA2_HEADER_UNCOMPRESSED
    ∧ Gen.C09.hash2Size = HASH_2_SIZE ∧ Gen.C09.hash3Size = HASH_3_SIZE ∧ Gen.C09.indexGroupSize = INDEX_GROUP_SIZE
    ∧ Gen.C09.compressedSizeMax = COMPRESSED_SIZE_MAX ∧ Gen.C09.headersBound = HEADERS_BOUND ∧ Gen.C09.blockSizeMax = BLOCK_SIZE_MAX
    ∧ Gen.C09.sizeMax = UINT64_MAX ∧ Gen.C09.vliMax = VLI_MAX ∧ Gen.C09.outqBufsPerThread = 2 := by decide

end XzVerif.C09
