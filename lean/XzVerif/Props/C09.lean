/-
  C09 — memory limits are honoured and memory estimates are upper bounds.
  Only the property theorems and non-vacuity examples live here; helper lemmas are in Lemmas/Memusage.lean and
  Lemmas/Memlimit.lean. The theorems quantify over every `Build` (sizeof table) that satisfies the inequalities
  `Build.Ok`; `gen_build_ok` checks them for the table regenerated from the build under test.
-/
import XzVerif.Model.Memusage
import XzVerif.Model.MemusageBuild
import XzVerif.Model.Memlimit
import XzVerif.Model.MemlimitPre
import XzVerif.Model.XzAdjust
import XzVerif.Lemmas.Memusage
import XzVerif.Lemmas.MemIndex
import XzVerif.Lemmas.Memlimit
import XzVerif.Lemmas.XzAdjust
import XzVerif.Lemmas.MemlimitRun
import XzVerif.Lemmas.MemlimitPeakRun
import XzVerif.Lemmas.MemMt
import XzVerif.Gen.C09

namespace XzVerif.C09
open XzVerif.Memusage

/-! ## Bridge to the regenerated constants -/

/-- The #defines the model hard-codes are the ones the source has today. -/
theorem gen_constants :
    Gen.C09.memusageBase = MEMUSAGE_BASE ∧ Gen.C09.lzDictRepeatMax = LZ_DICT_REPEAT_MAX ∧ Gen.C09.filtersMax = FILTERS_MAX
    ∧ Gen.C09.threadsMax = THREADS_MAX ∧ Gen.C09.dictSizeMin = DICT_SIZE_MIN ∧ Gen.C09.lclpMax = LCLP_MAX ∧ Gen.C09.pbMax = PB_MAX
    ∧ Gen.C09.deltaDistMin = DELTA_DIST_MIN ∧ Gen.C09.deltaDistMax = DELTA_DIST_MAX ∧ Gen.C09.matchLenMin = MATCH_LEN_MIN
    ∧ Gen.C09.matchLenMax = MATCH_LEN_MAX ∧ Gen.C09.encOpts = OPTS ∧ Gen.C09.loopInputMax = LOOP_INPUT_MAX
    ∧ Gen.C09.lzma2ChunkMax = LZMA2_CHUNK_MAX ∧ Gen.C09.lzma2HeaderUncompressed = LZMA2_HEADER_UNCOMPRESSED
    ∧ Gen.C09.hash2Size = HASH_2_SIZE ∧ Gen.C09.hash3Size = HASH_3_SIZE ∧ Gen.C09.indexGroupSize = INDEX_GROUP_SIZE
    ∧ Gen.C09.compressedSizeMax = COMPRESSED_SIZE_MAX ∧ Gen.C09.headersBound = HEADERS_BOUND ∧ Gen.C09.blockSizeMax = BLOCK_SIZE_MAX
    ∧ Gen.C09.sizeMax = UINT64_MAX ∧ Gen.C09.vliMax = VLI_MAX ∧ Gen.C09.outqBufsPerThread = 2
    ∧ Gen.C09.idLzma1 = ID_LZMA1 ∧ Gen.C09.idLzma1Ext = ID_LZMA1EXT ∧ Gen.C09.idLzma2 = ID_LZMA2 ∧ Gen.C09.idDelta = ID_DELTA
    ∧ Gen.C09.idX86 = 4 ∧ Gen.C09.idPowerpc = 5 ∧ Gen.C09.idIa64 = 6 ∧ Gen.C09.idArm = 7 ∧ Gen.C09.idArmthumb = 8
    ∧ Gen.C09.idSparc = 9 ∧ Gen.C09.idArm64 = 10 ∧ Gen.C09.idRiscv = 11
    ∧ Gen.C09.mfHc3 = MF_HC3 ∧ Gen.C09.mfHc4 = MF_HC4 ∧ Gen.C09.mfBt2 = MF_BT2 ∧ Gen.C09.mfBt3 = MF_BT3 ∧ Gen.C09.mfBt4 = MF_BT4
    ∧ Gen.C09.modeFast = MODE_FAST ∧ Gen.C09.modeNormal = MODE_NORMAL
    ∧ Gen.C09.retOk = 0 ∧ Gen.C09.retStreamEnd = 1 ∧ Gen.C09.retMemlimitError = 6 ∧ Gen.C09.retFormatError = 7
    ∧ Gen.C09.retOptionsError = 8 ∧ Gen.C09.retDataError = 9 ∧ Gen.C09.retBufError = 10 ∧ Gen.C09.retProgError = 11 := by decide

/-- The struct sizes of the build under test satisfy what the estimate functions assume
    (fixed overheads fit in LZMA_MEMUSAGE_BASE, a BCJ coder fits in 1 KiB). -/
theorem gen_build_ok : thisBuild.Ok := by
  constructor <;> decide

/-! ## Estimates are upper bounds: decoders -/

/-- Everything `lzma_raw_decoder_init` requests from the allocator — for ANY filter chain and also when it fails half
    way — is at most `lzma_raw_decoder_memusage()` of that chain, whenever the latter is not UINT64_MAX.
    (The 4 KiB minimum and the 16-byte rounding of the dictionary, which the estimate ignores, are absorbed by
    LZMA_MEMUSAGE_BASE.) -/
theorem decoder_alloc_le_estimate (b : Build) (hb : b.Ok) (fs : List Filter) (m : Nat)
    (hm : rawDecoderMemusage b fs = some m) : (rawDecoderInit b fs).2.sum ≤ m := by
  unfold rawDecoderMemusage rawCoderMemusage at hm
  split at hm
  · rename_i hok
    cases hs : sumOpt (fs.map (filterDecMemusage b)) with
    | none => simp [hs] at hm
    | some total =>
      simp only [hs, Option.some.injEq] at hm
      have hlen := chainOk_length hok
      have h1 := sumOpt_map_allocs_le (filterDecMemusage b) (filterDecAllocs b) 4096
        (fun f u h => filterDecAllocs_le b hb.bcj f u h) fs total hs
      have h2 := rawDecInitTrace_sum_le b fs
      unfold rawDecoderInit
      simp only [rawDecoderAllocs] at h2
      have : 4096 * fs.length ≤ MEMUSAGE_BASE := by
        simp only [FILTERS_MAX] at hlen
        simp only [MEMUSAGE_BASE]; omega
      split
      · simp
      · split
        · simp
        · omega
  · cases hm

/-- The allocation list of a chain whose filters all initialise successfully is what the initialisation requests. -/
theorem rawDecoderInit_ok_allocs (b : Build) (fs : List Filter) (h : (rawDecInitTrace b fs).1 = 0) :
    (rawDecInitTrace b fs).2 = rawDecoderAllocs b fs := by
  induction fs with
  | nil => simp [rawDecInitTrace, rawDecoderAllocs]
  | cons f rest ih =>
    simp only [rawDecInitTrace] at h ⊢
    split at h
    · rename_i hne; simp at h; exact absurd h hne
    · rename_i hne
      simp only [hne, ↓reduceIte, rawDecoderAllocs, List.map_cons, List.flatten_cons] at h ⊢
      rw [ih h]; rfl

/-! ## Estimates are upper bounds: encoders -/

/-- Full-strength statement: everything `lzma_raw_encoder_init` requests is at most `lzma_raw_encoder_memusage()`.
    It is FALSE for the code as it is (see `encoder_estimate_counterexample`): `lzma2_encoder_init` enlarges
    `before_size` for dictionaries below LZMA2_CHUNK_MAX - OPTS = 60 KiB, `lzma_lzma2_encoder_memusage` does not. -/
def encoder_alloc_le_estimate_statement : Prop :=
  ∀ (b : Build), b.Ok → ∀ (fs : List Filter) (m : Nat), rawEncoderMemusage b fs = some m → (rawEncoderInit b fs).2.sum ≤ m

/-- What holds: the statement for every chain whose LZMA2 filter (if any) has a dictionary of at least 60 KiB
    (LZMA1 chains, BCJ and delta filters are unrestricted). Missing for the full statement: LZMA2 with
    `dict_size < LZMA2_CHUNK_MAX - OPTS`, where the code really under-reports (known finding
    C09:lzma2-encoder-memusage-small-dict). -/
theorem encoder_alloc_le_estimate_partial (b : Build) (hb : b.Ok) (fs : List Filter) (m : Nat)
    (hm : rawEncoderMemusage b fs = some m) (hd : ∀ f ∈ fs, lzma2DictBigEnough f) :
    (rawEncoderInit b fs).2.sum ≤ m := by
  unfold rawEncoderMemusage rawCoderMemusage at hm
  split at hm
  · rename_i hok
    cases hs : sumOpt (fs.map (filterEncMemusage b)) with
    | none => simp [hs] at hm
    | some total =>
      simp only [hs, Option.some.injEq] at hm
      have hlen := chainOk_length hok
      have hs' : sumOpt (fs.reverse.map (filterEncMemusage b)) = some total := by
        rw [List.map_reverse, sumOpt_reverse]; exact hs
      have h1 := rawEncInitTrace_le b hb.bcj fs.reverse total hs' (fun f hf => hd f (List.mem_reverse.mp hf))
      have hx := hb.xzEnc
      unfold rawEncoderInit
      have : b.memcmplenExtra * fs.reverse.length ≤ MEMUSAGE_BASE := by
        simp only [FILTERS_MAX] at hlen
        simp only [List.length_reverse]
        have : b.memcmplenExtra * fs.length ≤ b.memcmplenExtra * 4 := Nat.mul_le_mul_left _ hlen
        have h4 := hb.encSlack
        omega
      split
      · simp
      · split
        · simp
        · omega
  · cases hm

/-- The counterexample on this build: LZMA2 encoder, 4 KiB dictionary, bt4, nice 64: the estimate is 1452555 bytes,
    the initialisation requests 1505811 bytes. -/
theorem encoder_estimate_counterexample :
    rawEncoderMemusage thisBuild [.lzma2 { dict := 4096 }] = some 1452555
    ∧ (rawEncoderInit thisBuild [.lzma2 { dict := 4096 }]).2.sum = 1505811 := by
  constructor <;> decide +kernel

theorem encoder_alloc_le_estimate_statement_false : ¬ encoder_alloc_le_estimate_statement := by
  intro h
  have h1 := h thisBuild gen_build_ok [.lzma2 { dict := 4096 }] 1452555 encoder_estimate_counterexample.1
  rw [encoder_estimate_counterexample.2] at h1
  omega


/-! ## Estimates are upper bounds: the threaded encoder -/

/-- `lzma_stream_encoder_mt`: for EVERY thread count, EVERY `options->block_size` — including 0, for which `get_options`
    substitutes `lzma_mt_block_size(filters)`; the input buffers, the output buffers
    (`lzma_block_buffer_bound64(block size)`) and the estimate all use that effective value — and every chain whose
    LZMA2 dictionary is at least 60 KiB (cf. `encoder_estimate_counterexample`), everything that can be allocated at
    the same time (`streamEncoderMtAllocs`: coder, `threads` array, Index, three kinds of option copies, per worker the
    input buffer + Block encoder + filter chain, 2·threads output buffers, Index encoder, Record groups) plus
    lzma_internal is at most `lzma_stream_encoder_mt_memusage()` plus the Index Record groups AFTER THE FIRST — the Index
    grows by one 8 KiB group per 512 Blocks and is not part of the estimate. -/
theorem mt_encoder_alloc_le_estimate (b : Build) (hb : b.Ok) (threads blockSizeOpt : Nat) (fs : List Filter)
    (nblocks est : Nat) (al : List Nat) (hest : streamEncoderMtMemusage b threads blockSizeOpt fs = some est)
    (hal : streamEncoderMtAllocs b threads blockSizeOpt fs nblocks = some al)
    (hd : ∀ f ∈ fs, lzma2DictBigEnough f) :
    b.szInternal + al.sum ≤ est + ((nblocks + INDEX_GROUP_SIZE - 1) / INDEX_GROUP_SIZE - 1)
      * (b.szIndexGroup + INDEX_GROUP_SIZE * b.szIndexRecord) :=
  mtEnc_alloc_le b hb threads blockSizeOpt fs nblocks est al hest hal hd

/-- Up to 512 Blocks the estimate alone is an upper bound. -/
theorem mt_encoder_alloc_le_estimate_512 (b : Build) (hb : b.Ok) (threads blockSizeOpt : Nat) (fs : List Filter)
    (nblocks est : Nat) (al : List Nat) (hn : nblocks ≤ INDEX_GROUP_SIZE)
    (hest : streamEncoderMtMemusage b threads blockSizeOpt fs = some est)
    (hal : streamEncoderMtAllocs b threads blockSizeOpt fs nblocks = some al)
    (hd : ∀ f ∈ fs, lzma2DictBigEnough f) : b.szInternal + al.sum ≤ est := by
  have h := mtEnc_alloc_le b hb threads blockSizeOpt fs nblocks est al hest hal hd
  have hg : (nblocks + INDEX_GROUP_SIZE - 1) / INDEX_GROUP_SIZE - 1 = 0 := by simp only [INDEX_GROUP_SIZE] at hn ⊢; omega
  rw [hg] at h
  omega

/-- Non-vacuity on this build: 3 threads, automatic block size (3 MiB for a 1 MiB dictionary), 2 Blocks done:
    41 requests, 55 274 813 bytes (+ 104 of lzma_internal) ≤ estimate 55 395 789. With `threads × options->block_size`
    (= 0) in place of threads × the effective block size the estimate would be 9 437 184 bytes lower — far below the
    allocations. -/
theorem mt_encoder_estimate_example :
    streamEncoderMtMemusage thisBuild 3 0 [.lzma2 { dict := 1048576, mode := 1, nice := 32, mf := 4 }] = some 55395789
    ∧ ((streamEncoderMtAllocs thisBuild 3 0 [.lzma2 { dict := 1048576, mode := 1, nice := 32, mf := 4 }] 2).map
        (fun l => (l.length, l.sum))) = some (41, 55274813)
    ∧ 55274813 > 55395789 - 3 * 3145728 := by
  decide +kernel

/-! ## Estimates are upper bounds: lzma_index -/

/-- An index built by `lzma_index_init` and `n` calls of `lzma_index_append` (the encoders, or an application): the
    bytes allocated (base struct, Stream, ceil(n/512) groups of 512 Records) never exceed
    `lzma_index_memusage(1, n)`, and the index holds exactly `n` Records. -/
theorem index_alloc_le_memusage (b : Build) (n m : Nat) (hm : indexMemusage b 1 n = some m) :
    (Idx.appendN b n Idx.init).1.liveBytes b ≤ m ∧ (Idx.appendN b n Idx.init).1.blocks = n := by
  have hinv := appendN_inv b n Idx.init 0 init_inv
  obtain ⟨s, hs, _, hsi⟩ := hinv
  rw [Nat.zero_add] at hsi
  obtain ⟨hlen, hbytes, hblocks⟩ := sinv_facts b s n hsi
  simp only [Idx.liveBytes, Idx.blocks, hs, List.map_cons, List.map_nil, List.sum_cons, List.sum_nil, streamBytes, hbytes,
    hblocks, Nat.add_zero, and_true]
  simp only [indexMemusage] at hm
  split at hm
  · cases hm
  · simp only [Option.some.injEq] at hm
    subst hm
    rw [← hlen]
    have : s.length * (b.szIndexGroup + INDEX_GROUP_SIZE * b.szIndexRecord)
        ≤ s.length * (b.szIndexGroup + INDEX_GROUP_SIZE * b.szIndexRecord + 4 * b.szVoidPtr) :=
      Nat.mul_le_mul_left _ (Nat.le_add_right _ _)
    omega

/-- The Index decoder preallocates exactly the announced number of Records (`lzma_index_prealloc(count)`): one group of
    `n` Records, which is again below `lzma_index_memusage(1, n)` — the amount SEQ_MEMUSAGE compared with the limit. -/
theorem index_decoder_alloc_le_memusage (b : Build) (n m : Nat) (hn : 0 < n) (hm : indexMemusage b 1 n = some m) :
    b.szIndex + b.szIndexStream + (b.szIndexGroup + n * b.szIndexRecord) ≤ m := by
  simp only [indexMemusage] at hm
  split at hm
  · cases hm
  · simp only [Option.some.injEq] at hm
    subst hm
    have hg : 1 ≤ (n + INDEX_GROUP_SIZE - 1) / INDEX_GROUP_SIZE := by simp only [INDEX_GROUP_SIZE]; omega
    have hn' : n ≤ (n + INDEX_GROUP_SIZE - 1) / INDEX_GROUP_SIZE * INDEX_GROUP_SIZE := by simp only [INDEX_GROUP_SIZE]; omega
    have h1 : n * b.szIndexRecord ≤ (n + INDEX_GROUP_SIZE - 1) / INDEX_GROUP_SIZE * INDEX_GROUP_SIZE * b.szIndexRecord :=
      Nat.mul_le_mul_right _ hn'
    generalize (n + INDEX_GROUP_SIZE - 1) / INDEX_GROUP_SIZE = g at *
    have h2 : g * (b.szIndexGroup + INDEX_GROUP_SIZE * b.szIndexRecord + 4 * b.szVoidPtr)
        = g * b.szIndexGroup + g * INDEX_GROUP_SIZE * b.szIndexRecord + g * (4 * b.szVoidPtr) := by
      rw [Nat.mul_add, Nat.mul_add, Nat.mul_assoc]
    have h3 : b.szIndexGroup ≤ g * b.szIndexGroup := Nat.le_mul_of_pos_left _ hg
    omega

/-- Full-strength statement for every history of init / append / cat: bytes allocated ≤ `lzma_index_memused()`.
    FALSE for the code as it is: after `lzma_index_cat` every Stream can own a partly used group of full size, while
    the formula counts only ceil(total Records / 512) full groups plus one bare group header per Stream (known finding
    C09:index-memused-after-cat; `index_cat_counterexample`). -/
def index_cat_alloc_le_memusage_statement : Prop :=
  ∀ (b : Build), b.Ok → ∀ (n1 n2 : Nat) (m : Nat),
    let d := ((Idx.appendN b n1 Idx.init).1.cat b (Idx.appendN b n2 Idx.init).1).1
    indexMemusage b d.streams.length d.blocks = some m → d.liveBytes b ≤ m

/-- 1000 Records, then cat of an index with 513 Records: 33056 bytes stay allocated, `lzma_index_memused` = 25568. -/
theorem index_cat_counterexample :
    let d := ((Idx.appendN thisBuild 1000 Idx.init).1.cat thisBuild (Idx.appendN thisBuild 513 Idx.init).1).1
    d.streams.length = 2 ∧ d.blocks = 1513 ∧ indexMemusage thisBuild 2 1513 = some 25568
    ∧ d.liveBytes thisBuild = 33056 := by
  decide +kernel

theorem index_cat_alloc_le_memusage_statement_false : ¬ index_cat_alloc_le_memusage_statement := by
  intro h
  have hc := index_cat_counterexample
  simp only at hc
  have h1 := h thisBuild gen_build_ok 1000 513 25568
  simp only [hc.1, hc.2.1] at h1
  have h2 := h1 hc.2.2.1
  rw [hc.2.2.2] at h2
  omega

/-! ## Memory limits: SEQ_BLOCK_INIT of the .xz Stream decoder -/

open XzVerif.Memlimit

/-- The limit is compared BEFORE anything of the Block's filter chain is allocated: when the estimate of the chain exceeds
    the limit, SEQ_BLOCK_INIT returns LZMA_MEMLIMIT_ERROR, records the needed amount (what `lzma_memusage()` then
    returns), performs no allocation at all (the request list is unchanged; only the filter options decoded from the
    header are freed), keeps the coders of earlier Blocks as they are and leaves the limit alone. -/
theorem memlimit_no_alloc_beyond (b : Build) (c : Core) (opt : Nat) (fs : List Filter) (m : Nat)
    (hm : rawDecoderMemusage b fs = some m) (hgt : m > c.memlimit) :
    ∃ c', blockInit b c opt fs = (.memlimit, c') ∧ c'.memusage = m ∧ c'.memlimit = c.memlimit
      ∧ c'.heap.reqs = c.heap.reqs ∧ c'.heap.peak = c.heap.peak ∧ c'.chain = c.chain ∧ c'.blockAlloc = c.blockAlloc := by
  refine ⟨{ c with memusage := m, heap := c.heap.free opt }, ?_, rfl, rfl, rfl, rfl, rfl, rfl⟩
  simp [blockInit, hm, hgt]

/-- Conversely a Block decoder is only ever initialised for a chain whose estimate is within the limit, and that
    estimate is what `lzma_memusage()` reports afterwards. -/
theorem block_init_within_limit (b : Build) (c : Core) (opt : Nat) (fs : List Filter) (k : Nat) (c' : Core)
    (h : blockInit b c opt fs = (.done k, c')) (hk : k ≠ 8) :
    rawDecoderMemusage b fs = some c'.memusage ∧ c'.memusage ≤ c.memlimit ∧ c'.memlimit = c.memlimit := by
  simp only [blockInit] at h
  cases hm : rawDecoderMemusage b fs with
  | none => simp [hm] at h; exact absurd h.1.symm hk
  | some m =>
    simp only [hm] at h
    by_cases hgt : m > c.memlimit
    · simp [hgt] at h
    · simp only [hgt, ↓reduceIte] at h
      cases hbs : blockInitScript b c.blockAlloc c.chain fs with
      | mk r rest =>
        cases rest with
        | mk ops ch =>
          simp only [hbs, Prod.mk.injEq, InitResult.done.injEq] at h
          obtain ⟨_, hc⟩ := h
          subst hc
          exact ⟨rfl, by simp; omega, rfl⟩

/-- Estimate as an upper bound at the level of the whole single-threaded .xz decoder: on a fresh decoder, after
    SEQ_BLOCK_INIT of the first Block (whatever its return code) the live bytes — lzma_internal, Stream coder, Index hash,
    Block decoder and the complete filter chain — are at most `lzma_raw_decoder_memusage()` of the chain, which is what
    `lzma_memusage()` reports and what was compared with the limit: nothing beyond the limit is ever live. -/
theorem stream_decoder_alloc_le_estimate (b : Build) (hb : b.Ok) (c : Core) (opt : Nat) (fs : List Filter) (m k : Nat)
    (c' : Core) (hchain : c.chain = []) (hblk : c.blockAlloc = false)
    (hlive : c.heap.live = b.szInternal + b.szStreamDecoder + b.szIndexHash + opt)
    (hm : rawDecoderMemusage b fs = some m) (h : blockInit b c opt fs = (.done k, c')) :
    c'.heap.live ≤ m ∧ c'.memusage = m ∧ m ≤ c.memlimit :=
  stream_decoder_first_block_le_estimate b hb c opt fs m k c' hchain hblk hlive hm h

/-- Restartability of SEQ_BLOCK_INIT (any Block Header `hdr`, any script of `lzma_memlimit_set` calls): if the run
    that starts with a too small limit, gets LZMA_MEMLIMIT_ERROR (possibly several times) and has its limit raised by
    the application finally leaves the step with a code `k` other than LZMA_MEMLIMIT_ERROR, then a decoder in the same
    situation whose limit is never the obstacle leaves it with the same code, with the same coders allocated and the
    same number of live bytes. (`k ≠ 11` only excludes running out of the model's fuel.) -/
theorem memlimit_restartable (b : Build) (check : Nat) (hdr : List UInt8) (fuel : Nat) (r r' : Run) (k : Nat)
    (h : blockInitLoop b check hdr fuel r = (k, r')) (h6 : k ≠ 6) (h11 : k ≠ 11)
    (cu cu' : Core) (ku : Nat) (hsim : Core.Sim r.core cu) (hu : blockAttempt b check hdr cu = (.done ku, cu')) :
    k = ku ∧ r'.core.chain = cu'.chain ∧ r'.core.heap.live = cu'.heap.live ∧ r'.core.blockAlloc = cu'.blockAlloc := by
  have := retryLoop_transparent Core.Sim (blockAttempt b check hdr) (blockAttempt_restartable b check hdr)
    fuel r k r' h h6 h11 cu ku cu' hsim hu
  exact ⟨this.1, this.2.2.1, this.2.1, this.2.2.2⟩

/-- The same for SEQ_CODER_INIT of the .lzma and .lz decoders … -/
theorem memlimit_restartable_coder (b : Build) (o : LzmaOpts) (fuel : Nat) (r r' : Run) (k : Nat)
    (h : coderInitLoop b o fuel r = (k, r')) (h6 : k ≠ 6) (h11 : k ≠ 11)
    (cu cu' : Core) (ku : Nat) (hsim : Core.SimU r.core cu) (hu : coderAttempt b o cu = (.done ku, cu')) :
    k = ku ∧ r'.core.chain = cu'.chain ∧ r'.core.heap.live = cu'.heap.live ∧ r'.core.memusage = cu'.memusage := by
  have := retryLoop_transparent Core.SimU (coderAttempt b o) (coderAttempt_restartable b o)
    fuel r k r' h h6 h11 cu ku cu' hsim hu
  exact ⟨this.1, this.2.1.2.1, this.2.1.1, this.2.2⟩

/-- … and for SEQ_MEMUSAGE of the Index decoder. -/
theorem memlimit_restartable_index (fuel : Nat) (r r' : Run) (k : Nat)
    (h : retryLoop indexAttempt fuel r = (k, r')) (h6 : k ≠ 6) (h11 : k ≠ 11)
    (cu cu' : Core) (ku : Nat) (hsim : Core.SimU r.core cu) (hu : indexAttempt cu = (.done ku, cu')) :
    k = ku ∧ r'.core.heap.live = cu'.heap.live ∧ r'.core.memusage = cu'.memusage := by
  have := retryLoop_transparent Core.SimU indexAttempt indexAttempt_restartable fuel r k r' h h6 h11 cu ku cu' hsim hu
  exact ⟨this.1, this.2.1.1, this.2.2⟩


/-! ## Whole-run restartability -/

/-- What a finished run delivers to the application: the final return code, the Blocks (for .lzma/.lz: the stream)
    that were handed to a payload decoder — the decoded output is a function of these, the payload decoders being
    C03's subject —, the number of input bytes consumed, and the LZMA_NO_CHECK / LZMA_UNSUPPORTED_CHECK /
    LZMA_GET_CHECK notifications. -/
def runResult (x : Nat × Run) : Nat × List (List UInt8) × Nat × List Nat :=
  (x.1, x.2.decoded, x.2.consumed, chks x.2.out)

/-- The decoders also end in the same allocation state. -/
def sameCoders (x y : Nat × Run) : Prop :=
  x.2.core.chain = y.2.core.chain ∧ x.2.core.heap.live = y.2.core.heap.live ∧ x.2.core.blockAlloc = y.2.core.blockAlloc

theorem agree_result {s1 s2 : List SetTok} {x y : Nat × Run} (h : Agree Core.Sim s1 s2 x y) (hn : NeededOnly s1)
    (hy : y.1 ≠ 6) : (x.1 = 6 ∧ x.2.sets = []) ∨ (runResult x = runResult y ∧ sameCoders x y) := by
  rcases h with g | g | ⟨hc, hsim, hcons, hdec, hchk⟩
  · exact Or.inl (gaveUp_needed s1 _ _ hn g)
  · exact absurd g.1 hy
  · right
    refine ⟨?_, hsim.2.1, hsim.1, hsim.2.2⟩
    simp only [runResult, hc, hcons, hdec, hchk]

/-- WHOLE-RUN RESTARTABILITY, single-threaded .xz decoder (`lzma_stream_decoder` + `lzma_code` until it stops), for
    EVERY input file (any number of Streams and Blocks with any filter chains, valid or not), every `flags`, every
    initial limit `l1` and every number `n` of times the application is prepared to answer LZMA_MEMLIMIT_ERROR with
    `lzma_memlimit_set(strm, lzma_memusage(strm))`:
    either the script ran out (the run ends with LZMA_MEMLIMIT_ERROR and no token is left), or the run ends with exactly
    the result — return code, Blocks decoded (hence output), bytes consumed, check notifications — and the same coders
    allocated as ANY run of the same file that does not end with LZMA_MEMLIMIT_ERROR, in particular the run whose
    limit `l2` is never reached. -/
theorem memlimit_run_restartable (b : Build) (flags l1 n l2 : Nat) (s2 : List SetTok) (inp : List UInt8)
    (hu : (xzRun b flags l2 s2 inp).1 ≠ 6) :
    ((xzRun b flags l1 (List.replicate n .needed) inp).1 = 6 ∧ (xzRun b flags l1 (List.replicate n .needed) inp).2.sets = [])
    ∨ (runResult (xzRun b flags l1 (List.replicate n .needed) inp) = runResult (xzRun b flags l2 s2 inp)
        ∧ sameCoders (xzRun b flags l1 (List.replicate n .needed) inp) (xzRun b flags l2 s2 inp)) :=
  agree_result (xzRun_agree b flags l1 l2 _ s2 inp) (neededOnly_replicate n) hu

/-- The same for ARBITRARY scripts on both sides (values below / above / equal to the needed amount, rejected calls in
    between): two runs of one file agree unless one of them GAVE UP, i.e. ended with LZMA_MEMLIMIT_ERROR after a
    `lzma_memlimit_set` dialogue in which no value was accepted. -/
theorem memlimit_run_restartable_scripts (b : Build) (flags l1 l2 : Nat) (s1 s2 : List SetTok) (inp : List UInt8) :
    GaveUp s1 (xzRun b flags l1 s1 inp).1 (xzRun b flags l1 s1 inp).2
    ∨ GaveUp s2 (xzRun b flags l2 s2 inp).1 (xzRun b flags l2 s2 inp).2
    ∨ (runResult (xzRun b flags l1 s1 inp) = runResult (xzRun b flags l2 s2 inp)
        ∧ sameCoders (xzRun b flags l1 s1 inp) (xzRun b flags l2 s2 inp)) := by
  rcases xzRun_agree b flags l1 l2 s1 s2 inp with g | g | ⟨hc, hsim, hcons, hdec, hchk⟩
  · exact Or.inl g
  · exact Or.inr (Or.inl g)
  · exact Or.inr (Or.inr ⟨by simp only [runResult, hc, hcons, hdec, hchk], hsim.2.1, hsim.1, hsim.2.2⟩)

/-- … `lzma_alone_decoder` … -/
theorem memlimit_run_restartable_alone (b : Build) (l1 n l2 : Nat) (s2 : List SetTok) (inp : List UInt8)
    (hu : (aloneRun b l2 s2 inp).1 ≠ 6) :
    ((aloneRun b l1 (List.replicate n .needed) inp).1 = 6 ∧ (aloneRun b l1 (List.replicate n .needed) inp).2.sets = [])
    ∨ (runResult (aloneRun b l1 (List.replicate n .needed) inp) = runResult (aloneRun b l2 s2 inp)
        ∧ sameCoders (aloneRun b l1 (List.replicate n .needed) inp) (aloneRun b l2 s2 inp)) :=
  agree_result (aloneRun_agree b l1 l2 _ s2 inp) (neededOnly_replicate n) hu

/-- … `lzma_lzip_decoder` … -/
theorem memlimit_run_restartable_lzip (b : Build) (flags l1 n l2 : Nat) (s2 : List SetTok) (inp : List UInt8)
    (hu : (lzipRun b flags l2 s2 inp).1 ≠ 6) :
    ((lzipRun b flags l1 (List.replicate n .needed) inp).1 = 6 ∧ (lzipRun b flags l1 (List.replicate n .needed) inp).2.sets = [])
    ∨ (runResult (lzipRun b flags l1 (List.replicate n .needed) inp) = runResult (lzipRun b flags l2 s2 inp)
        ∧ sameCoders (lzipRun b flags l1 (List.replicate n .needed) inp) (lzipRun b flags l2 s2 inp)) :=
  agree_result (lzipRun_agree b flags l1 l2 _ s2 inp) (neededOnly_replicate n) hu

/-- … `lzma_auto_decoder` (whatever format the first byte selects) … -/
theorem memlimit_run_restartable_auto (b : Build) (flags l1 n l2 : Nat) (s2 : List SetTok) (inp : List UInt8)
    (hu : (autoRun b flags l2 s2 inp).1 ≠ 6) :
    ((autoRun b flags l1 (List.replicate n .needed) inp).1 = 6 ∧ (autoRun b flags l1 (List.replicate n .needed) inp).2.sets = [])
    ∨ (runResult (autoRun b flags l1 (List.replicate n .needed) inp) = runResult (autoRun b flags l2 s2 inp)
        ∧ sameCoders (autoRun b flags l1 (List.replicate n .needed) inp) (autoRun b flags l2 s2 inp)) :=
  agree_result (autoRun_agree b flags l1 l2 _ s2 inp) (neededOnly_replicate n) hu

/-- … and `lzma_index_decoder`. -/
theorem memlimit_run_restartable_index (b : Build) (l1 n l2 : Nat) (s2 : List SetTok) (inp : List UInt8)
    (hu : (indexRun b l2 s2 inp).1 ≠ 6) :
    ((indexRun b l1 (List.replicate n .needed) inp).1 = 6 ∧ (indexRun b l1 (List.replicate n .needed) inp).2.sets = [])
    ∨ (runResult (indexRun b l1 (List.replicate n .needed) inp) = runResult (indexRun b l2 s2 inp)
        ∧ sameCoders (indexRun b l1 (List.replicate n .needed) inp) (indexRun b l2 s2 inp)) :=
  agree_result (indexRun_agree b l1 l2 _ s2 inp) (neededOnly_replicate n) hu

/-- AT NO POINT of a run of the single-threaded .xz decoder — any file, any initial limit, any script of limit changes —
    are more bytes live than max(LZMA_MEMUSAGE_BASE, the limit in force): the invariant `CoreInv` (peak of the counting
    allocator ≤ max(LZMA_MEMUSAGE_BASE, memlimit), old chain + new header options within the limit, chain = the nodes
    of the last accepted Block) holds after every step, the limit is only ever raised, and the coders of the previous
    Block are freed before bigger ones are allocated (`chainScript_spec`). Stated for the final state, whose `peak` is
    the maximum over the whole run. -/
theorem memlimit_run_peak (b : Build) (hb : b.Ok) (flags limit : Nat) (sets : List SetTok) (inp : List UInt8) :
    (xzRun b flags limit sets inp).2.core.heap.peak ≤ max MEMUSAGE_BASE (xzRun b flags limit sets inp).2.core.memlimit := by
  have := (xzRun_peak b hb flags limit sets inp).peak
  omega

/-- The same for `.lzma`, `.lz`, for `lzma_auto_decoder` (its own struct, which LZMA_MEMUSAGE_BASE need not cover, is the
    fixed allowance) … -/
theorem memlimit_run_peak_others (b : Build) (hb : b.Ok) (flags limit : Nat) (sets : List SetTok) (inp : List UInt8) :
    (aloneRun b limit sets inp).2.core.heap.peak ≤ max MEMUSAGE_BASE (aloneRun b limit sets inp).2.core.memlimit
    ∧ (lzipRun b flags limit sets inp).2.core.heap.peak ≤ max MEMUSAGE_BASE (lzipRun b flags limit sets inp).2.core.memlimit
    ∧ (autoRun b flags limit sets inp).2.core.heap.peak
        ≤ max MEMUSAGE_BASE (autoRun b flags limit sets inp).2.core.memlimit + b.szAutoDecoder := by
  have h1 := aloneRun_peak b hb limit sets inp
  have h2 := lzipRun_peak b hb flags limit sets inp
  have h3 := autoRun_peak b hb flags limit sets inp
  unfold PeakOk at h1 h2 h3
  exact ⟨by omega, by omega, h3⟩

/-- … and for the Index decoder (allowance: lzma_internal + the Index decoder struct; `lzma_index_memusage` of the
    announced Record count must not be UINT64_MAX, which a limit below UINT64_MAX guarantees). -/
theorem memlimit_run_peak_index (b : Build) (limit : Nat) (sets : List SetTok) (inp : List UInt8)
    (hlim : (indexRun b limit sets inp).2.core.memlimit < UINT64_MAX) :
    (indexRun b limit sets inp).2.core.heap.peak
      ≤ max (b.szInternal + b.szIndexDecoder + b.szIndex + b.szIndexStream)
            ((indexRun b limit sets inp).2.core.memlimit + b.szInternal + b.szIndexDecoder) :=
  indexRun_peak b limit sets inp hlim

/-- The .lzma / .lz decoders allocate the LZMA1 decoder only when the recorded estimate is within the limit. -/
theorem coder_init_within_limit (b : Build) (o : LzmaOpts) (c c' : Core) (k : Nat)
    (h : coderAttempt b o c = (.done k, c')) : c.memusage ≤ c.memlimit := by
  simp only [coderAttempt] at h
  by_cases hgt : c.memusage > c.memlimit
  · simp [hgt] at h
  · omega

/-! ## lzma_memlimit_set -/

/-- `lzma_memlimit_set(strm, v)` on the stream / .lzma / .lz / index decoders: 0 means 1; a value below the current
    `lzma_memusage()` is rejected with LZMA_MEMLIMIT_ERROR and the limit stays what it was; any other value becomes
    the limit. -/
theorem memconfig_rejects_low (usage limit v : Nat) :
    ((if v = 0 then 1 else v) < usage → memlimitSet usage limit v = (6, limit))
    ∧ (usage ≤ (if v = 0 then 1 else v) → memlimitSet usage limit v = (0, if v = 0 then 1 else v)) := by
  constructor <;> intro h <;> simp only [memlimitSet]
  · simp [h]
  · have : ¬ ((if v = 0 then 1 else v) < usage) := by omega
    simp [this]

theorem memlimitSet_accepted (usage limit v l : Nat) (h : memlimitSet usage limit v = (0, l)) : usage ≤ l := by
  simp only [memlimitSet] at h
  by_cases hlt : (if v = 0 then 1 else v) < usage
  · simp [hlt] at h
  · simp only [hlt, ↓reduceIte, Prod.mk.injEq, true_and] at h
    omega

/-- After a token script the limit is only ever replaced by an accepted value, which is at least the usage. -/
theorem trySets_accepts_only_sufficient (usage : Nat) : ∀ (sets : List SetTok) (limit : Nat) (evs : List (Nat × Nat × Nat))
    (l : Nat) (rest : List SetTok), trySets usage limit sets = (evs, some l, rest) → usage ≤ l := by
  intro sets
  induction sets with
  | nil => intro limit evs l rest h; simp [trySets] at h
  | cons t ts ih =>
    intro limit evs l rest h
    simp only [trySets] at h
    cases hms : memlimitSet usage limit (t.value usage) with
    | mk r l' =>
      simp only [hms] at h
      by_cases hr0 : r = 0
      · subst hr0
        simp only [↓reduceIte, Prod.mk.injEq, Option.some.injEq] at h
        obtain ⟨_, h2, _⟩ := h
        subst h2
        exact memlimitSet_accepted usage limit _ _ hms
      · simp only [hr0, ↓reduceIte] at h
        cases hr : trySets usage limit ts with
        | mk ev2 r2 =>
          cases r2 with
          | mk res2 rem2 =>
            simp only [hr, Prod.mk.injEq] at h
            obtain ⟨_, h2, _⟩ := h
            subst h2
            exact ih limit ev2 l rem2 hr

/-! ## Threaded decoder (no worker-thread schedules: the limit checks only) -/

/-- `memlimit_stop` is never exceeded by the estimate of a Block that gets decoded: SEQ_BLOCK_INIT passes only when
    the chain's estimate is at most the (possibly raised) limit; and threaded mode is chosen only when filters, input
    buffer and output buffer together fit `memlimit_threading` (otherwise direct mode, which is guarded by
    `memlimit_stop` alone). -/
theorem mt_threading_limit (b : Build) (m check : Nat) (cs us : Option Nat) :
    ∀ (fuel : Nat) (r r' : MtRun), mtBlockInitLoop b m check cs us fuel r = (0, r') → m ≤ r'.core.memlimitStop := by
  intro fuel
  induction fuel with
  | zero => intro r r' h; simp [mtBlockInitLoop] at h
  | succ fuel ih =>
    intro r r' h
    simp only [mtBlockInitLoop] at h
    by_cases hgt : m > r.core.memlimitStop
    · simp only [hgt, ↓reduceIte] at h
      cases hh : mtHandleMemlimit r with
      | mk r2 ok =>
        simp only [hh] at h
        cases ok with
        | false => simp at h
        | true => simp only [↓reduceIte] at h; exact ih r2 r' h
    · simp only [hgt, ↓reduceIte] at h
      split at h <;> (simp only [Prod.mk.injEq, true_and] at h; subst h; simp; omega)

theorem mt_threaded_only_within_threading_limit (b : Build) (c : MtCore) (m check cs us : Nat)
    (h : mtThreaded b c m check (some cs) (some us) = true) :
    m + (Container.ceil4 cs + Container.checkSize check + outbufMemusage b us) ≤ c.memlimitThreading := by
  simp only [mtThreaded] at h
  split at h
  · simp at h
  · split at h
    · simp at h
    · simpa using h


/-- ALLOCATION-LEVEL bound of the threaded decoder for the part that does not depend on thread schedules: a Block that
    is decoded single-threaded ("direct mode": no sizes in its header, or chain + buffers above memlimit_threading).
    SEQ_BLOCK_INIT lets it through only if its chain estimate `m` is at most `stop` = memlimit_stop
    (`mt_threading_limit`); then SEQ_BLOCK_DIRECT_INIT, started from ANY state the threaded part may have left behind
    (`cache` bytes of cached output buffers, `thr` bytes held by worker threads, an older direct-mode decoder),
    ends with only the fixed structs and the new single-threaded decoder live — at most max(LZMA_MEMUSAGE_BASE, stop)
    bytes —, and every allocation it makes happens with at most that much live: the cached output buffers
    (`lzma_outq_clear_cache`) and the workers (`threads_end`) are released FIRST. -/
theorem mt_direct_alloc_le_stop (b : Build) (hb : b.Ok) (mm : MtMem) (opt : Nat) (fs : List Filter) (m stop : Nat)
    (hm : rawDecoderMemusage b fs = some m) (hstop : m ≤ stop) (hopt : opt ≤ 4 * b.optMax)
    (hacc : MtAcc b (b.szInternal + b.szStreamDecoderMt + b.szIndexHash) opt mm)
    (hroom : b.szInternal + b.szStreamDecoderMt + b.szIndexHash + b.szBlockDecoder + 4 * b.optMax + chainBytes mm.chain
              ≤ max MEMUSAGE_BASE stop) :
    (mtDirectInit b mm opt fs).2.heap.live ≤ max MEMUSAGE_BASE stop
    ∧ (mtDirectInit b mm opt fs).2.heap.peak ≤ max mm.heap.peak (max MEMUSAGE_BASE stop)
    ∧ (mtDirectInit b mm opt fs).2.cache = 0 ∧ (mtDirectInit b mm opt fs).2.thr = 0
    ∧ MtAcc b (b.szInternal + b.szStreamDecoderMt + b.szIndexHash) 0 (mtDirectInit b mm opt fs).2
    ∧ b.szInternal + b.szStreamDecoderMt + b.szIndexHash + b.szBlockDecoder + 4 * b.optMax
        + chainBytes (mtDirectInit b mm opt fs).2.chain ≤ max MEMUSAGE_BASE stop := by
  obtain ⟨h1, h2, h3, h4, h5, h6⟩ := mtDirectInit_le_stop b hb mm opt fs m stop hm hstop hopt hacc hroom
  exact ⟨h4, h5, h2, h3, h1, h6⟩

/-- The order matters: the same script WITHOUT its first call (`lzma_outq_clear_cache`) leaves the cached output
    buffer allocated next to the 8 MiB single-threaded decoder — above a memlimit_stop that the Block fits. -/
theorem mt_direct_needs_cache_clear :
    let b := thisBuild
    let fs : List Filter := [.lzma2 { dict := 8388608 }]
    let base := b.szInternal + b.szStreamDecoderMt + b.szIndexHash
    let mm : MtMem := { heap := { live := base + 1048640 + 112, peak := 0, reqs := [] }, cache := 1048640 }
    rawDecoderMemusage b fs = some 8454808
    ∧ (mm.heap.apply (mtDirectInitScript b mm 112 fs).2.1).live ≤ 8454808
    ∧ (mm.heap.apply (mtDirectInitScript b mm 112 fs).2.1.tail).live > 8454808 + MEMUSAGE_BASE := by
  decide +kernel

/-- Full statement wanted by the property for the threaded decoder: after LZMA_MEMLIMIT_ERROR `lzma_memusage()` tells
    the needed amount. FALSE for the code as it is (known finding C09:mtdec-memusage-after-memlimit-error): the model,
    like the code, reports `max(mem_direct_mode, LZMA_MEMUSAGE_BASE)`. -/
def mt_memusage_reports_needed_statement : Prop :=
  ∀ (c : MtCore) (m : Nat), m > c.memlimitStop → c.memusage ≥ m

theorem mt_memusage_reports_needed_statement_false : ¬ mt_memusage_reports_needed_statement := by
  intro h
  have := h (MtCore.init 0 1000) 8454808 (by decide)
  revert this
  decide

/-! ## xz: coder_set_compression_settings -/

open XzVerif.XzAdjust

/-- Soundness of xz's automatic adjustment. Whenever `coder_set_compression_settings` returns instead of failing:
    * the limit it enforced is the configured one (--memlimit-compress, or the -T0 default for multithreaded mode);
    * the memory usage of the FINAL settings — `lzma_stream_encoder_mt_memusage` with the final thread count and Block
      size when still multithreaded, else `lzma_raw_encoder_memusage` of every chain — is within that limit, unless
      the limit was only the automatic default for -T0 (soft), in which case exactly one thread is left;
    * the number of threads only went down (never below 1);
    * the chains are unchanged except that an LZMA1/LZMA2 dictionary may have shrunk, never below 1 MiB. -/
theorem xz_adjust_sound (b : Build) (c : Config) (hthr : 1 ≤ c.threads)
    (t : Nat) (mt : Bool) (cs : List (Nat × List Filter)) (usage limit : Nat) (soft : Bool) (msgs : List String)
    (h : coderSetCompressionSettings b c = .ok t mt cs usage limit soft msgs) :
    limit = (if isMtPath c then mtencGet c else memlimitGet c)
    ∧ (soft = false → usage ≤ limit)
    ∧ (soft = true → mtencIsDefault c = true ∧ t = 1 ∧ mt = true)
    ∧ t ≤ c.threads ∧ 1 ≤ t
    ∧ Forall2 ChainLe cs c.chains
    ∧ (c.mode = .compress → ∃ bs, (mt = true → mtBlockSizeFor c = some bs) ∧ usage = usageOf b mt t bs cs) := by
  simp only [coderSetCompressionSettings] at h
  by_cases hmt : isMtPath c
  · simp only [hmt, ↓reduceIte] at h ⊢
    cases hbs : mtBlockSizeFor c with
    | none => simp [hbs] at h
    | some bs =>
      simp only [hbs] at h
      cases hu0 : maxOpt (mtUsages b c.threads bs c.chains) with
      | none => simp [hu0] at h
      | some usage0 =>
        simp only [hu0] at h
        by_cases hle : usage0 ≤ mtencGet c
        · simp only [hle, ↓reduceIte, Outcome.ok.injEq] at h
          obtain ⟨h1, h2, h3, h4, h5, h6, _⟩ := h
          subst h1; subst h2; subst h3; subst h4; subst h5; subst h6
          refine ⟨rfl, fun _ => hle, by simp, Nat.le_refl _, hthr, forall2_refl _, fun _ => ⟨bs, fun _ => rfl, ?_⟩⟩
          simp [usageOf, hu0]
        · simp only [hle, ↓reduceIte, stageMt] at h
          cases hrt : reduceThreads b bs c.chains (mtencGet c) c.threads with
          | inl res =>
            cases res with
            | none => simp [hrt] at h
            | some tu =>
              obtain ⟨t', u⟩ := tu
              simp only [hrt, Outcome.ok.injEq] at h
              obtain ⟨h1, h2, h3, h4, h5, h6, _⟩ := h
              subst h1; subst h2; subst h3; subst h4; subst h5; subst h6
              have sp := reduceThreads_inl b bs c.chains (mtencGet c) c.threads t' u hrt
              refine ⟨rfl, fun _ => sp.2.2.1, by simp, by omega, sp.2.1, forall2_refl _, fun _ => ⟨bs, fun _ => rfl, ?_⟩⟩
              simp only [usageOf, ↓reduceIte]; exact sp.2.2.2
          | inr u1 =>
            simp only [hrt] at h
            have sp := reduceThreads_inr b bs c.chains (mtencGet c) c.threads u1 hthr hrt
            by_cases hdef : mtencIsDefault c
            · simp only [hdef, ↓reduceIte, Outcome.ok.injEq] at h
              obtain ⟨h1, h2, h3, h4, h5, h6, _⟩ := h
              subst h1; subst h2; subst h3; subst h4; subst h5; subst h6
              refine ⟨rfl, by simp, fun _ => ⟨hdef, rfl, rfl⟩, hthr, Nat.le_refl _, forall2_refl _, fun _ => ⟨bs, fun _ => rfl, ?_⟩⟩
              simp only [usageOf, ↓reduceIte]; exact sp
            · simp only [hdef, Bool.false_eq_true, ↓reduceIte] at h
              by_cases ha : c.autoAdjust
              · simp only [ha, Bool.not_true, Bool.false_eq_true, ↓reduceIte] at h
                have sa := stageAdjust_spec b c (mtencGet c) 1 _ _ ["S"] rfl rfl t mt cs usage limit soft msgs h
                obtain ⟨s1, s2, s3, s4, s5, s6, s7⟩ := sa
                subst s1; subst s2; subst s3; subst s4
                refine ⟨rfl, fun _ => s5, by simp, hthr, Nat.le_refl _, s6, fun _ => ⟨0, by simp, s7⟩⟩
              · simp [ha] at h
  · simp only [hmt, Bool.false_eq_true, ↓reduceIte] at h ⊢
    split at h
    · simp at h
    · rename_i usage0 hu0
      by_cases hle : usage0 ≤ memlimitGet c
      · simp only [hle, ↓reduceIte, Outcome.ok.injEq] at h
        obtain ⟨h1, h2, h3, h4, h5, h6, _⟩ := h
        subst h1; subst h2; subst h3; subst h4; subst h5; subst h6
        refine ⟨rfl, fun _ => hle, by simp, Nat.le_refl _, hthr, forall2_refl _, fun hc => ⟨0, by simp, ?_⟩⟩
        simp only [hc, ↓reduceIte] at hu0
        simp only [usageOf, Bool.false_eq_true, ↓reduceIte]
        exact (maxOpt_listMax _ _ hu0).symm
      · simp only [hle, ↓reduceIte] at h
        by_cases hraw : c.format = Format.raw
        · simp [hraw] at h
        · simp only [hraw, ↓reduceIte] at h
          by_cases hc : c.mode = Mode.compress
          · simp only [hc, ne_eq, not_true_eq_false, ↓reduceIte] at h hu0
            have sa := stageAdjust_spec b c (memlimitGet c) c.threads _ usage0 [] rfl
              (maxOpt_listMax _ _ hu0).symm t mt cs usage limit soft msgs h
            obtain ⟨s1, s2, s3, s4, s5, s6, s7⟩ := sa
            subst s1; subst s2; subst s3; subst s4
            exact ⟨rfl, fun _ => s5, by simp, Nat.le_refl _, hthr, s6, fun _ => ⟨0, by simp, s7⟩⟩
          · simp [hc] at h

/-- `hardware_memlimit_get(mode)`: MODE_DECOMPRESS, MODE_TEST and MODE_LIST are all governed by --memlimit-decompress
    (0 = no limit); only MODE_COMPRESS reads the compression limit. -/
theorem hardware_memlimit_get_modes (mlc mld : Nat) (mode : Mode) :
    hardwareMemlimitGet mode mlc mld
      = (if mode = .compress then (if mlc ≠ 0 then mlc else UINT64_MAX) else (if mld ≠ 0 then mld else UINT64_MAX)) := by
  cases mode <;> simp [hardwareMemlimitGet]

/-! ## Non-vacuity -/

/-- A valid chain with all four slots used; its estimate on this build. -/
example : rawDecoderMemusage thisBuild [.delta (some 1), .bcj 4 none, .bcj 6 (some 16), .lzma2 { dict := 8388608 }]
    = some 8457208 := by decide +kernel

/-- SEQ_BLOCK_INIT with limit 1: LZMA_MEMLIMIT_ERROR; after `lzma_memlimit_set(needed)` the same step succeeds. -/
example :
    let c : Core := { memlimit := 1, memusage := MEMUSAGE_BASE, heap := {} }
    let fs : List Filter := [.lzma2 { dict := 8388608 }]
    (blockInit thisBuild c 112 fs).1 = .memlimit
    ∧ (blockInit thisBuild { c with memlimit := 8454808 } 112 fs).1 = .done 0 := by decide +kernel

/-- A 64-byte .xz file (one Block, LZMA2 with an 8 MiB dictionary declared, "hello world\n"). -/
def helloXz : List UInt8 :=
  [0xfd, 0x37, 0x7a, 0x58, 0x5a, 0x00, 0x00, 0x01, 0x69, 0x22, 0xde, 0x36, 0x02, 0xc0, 0x10, 0x0c, 0x21, 0x01, 0x16, 0x00,
   0xbe, 0xbf, 0xe8, 0x28, 0x01, 0x00, 0x0b, 0x68, 0x65, 0x6c, 0x6c, 0x6f, 0x20, 0x77, 0x6f, 0x72, 0x6c, 0x64, 0x0a, 0x00,
   0x2d, 0x3b, 0x08, 0xaf, 0x00, 0x01, 0x20, 0x0c, 0xa2, 0xdd, 0xb4, 0xbc, 0x90, 0x42, 0x99, 0x0d, 0x01, 0x00, 0x00, 0x00,
   0x00, 0x01, 0x59, 0x5a]

/-- Whole-run restartability is not vacuous: started with limit 1 and one "set the limit to lzma_memusage()" answer the
    run ends with LZMA_STREAM_END, all 64 bytes consumed, the Block handed to the decoder, limit 8454808, peak below it
    — the same result as the run with limit UINT64_MAX; without an answer it gives up with LZMA_MEMLIMIT_ERROR. -/
example :
    (xzRun thisBuild 0 1 [.needed] helloXz).1 = 1 ∧ (xzRun thisBuild 0 UINT64_MAX [] helloXz).1 = 1
    ∧ runResult (xzRun thisBuild 0 1 [.needed] helloXz) = runResult (xzRun thisBuild 0 UINT64_MAX [] helloXz)
    ∧ (xzRun thisBuild 0 1 [.needed] helloXz).2.consumed = 64
    ∧ (xzRun thisBuild 0 1 [.needed] helloXz).2.decoded.length = 1
    ∧ (xzRun thisBuild 0 1 [.needed] helloXz).2.core.memlimit = 8454808
    ∧ (xzRun thisBuild 0 1 [.needed] helloXz).2.core.heap.peak ≤ 8454808
    ∧ (xzRun thisBuild 0 1 [] helloXz).1 = 6 ∧ (xzRun thisBuild 0 1 [] helloXz).2.sets = [] := by
  decide +kernel

/-- xz -9 -T4 --memlimit-compress=100MiB: switch to one thread, then shrink the dictionary from 64 MiB to 8 MiB. -/
example :
    (match coderSetCompressionSettings thisBuild
        { mode := .compress, format := .xz, threads := 4, isMt := true, threadsAuto := false,
          memlimitCompress := 104857600, memlimitDecompress := 0, memlimitMtDefault := 0, autoAdjust := true,
          blockSize := 0, blockListLargest := 0,
          chains := [(0, [.lzma2 { dict := 67108864, mode := 2, nice := 64, mf := 0x14 }])] } with
     | .ok t mt cs _ _ _ _ => (t, mt, cs.map (fun p => chainDict p.2))
     | .fatal _ _ => (0, true, [])) = (1, false, [some 8388608]) := by decide +kernel

/-! ## Call order: create → lzma_memlimit_set()* → first lzma_code() -/

theorem initLimit_pos (l : Nat) : 1 ≤ initLimit l := by
  unfold initLimit; split <;> omega

theorem memlimitSet_limit_pos (usage limit v : Nat) (h : 1 ≤ limit) : 1 ≤ (memlimitSet usage limit v).2 := by
  unfold memlimitSet
  by_cases hv : v = 0 <;> simp only [hv, ↓reduceIte] <;> split <;> simp <;> omega

theorem applyPre_limit_pos (usage : Nat) : ∀ (pre : List SetTok) (limit : Nat), 1 ≤ limit → 1 ≤ (applyPre usage limit pre).2 := by
  intro pre
  induction pre with
  | nil => intro limit h; simpa [applyPre] using h
  | cons t rest ih =>
    intro limit h
    simp only [applyPre]
    exact ih _ (memlimitSet_limit_pos usage limit _ h)

/-- `lzma_memlimit_set(strm, v)` on a decoder that has not seen input yet (`usage` = what `lzma_memusage()` reports for a
    fresh decoder): a value that is at least `usage` (0 counts as 1) becomes THE limit — it is what `lzma_memlimit_get()`
    returns and what the decoder starts decoding with, whether it lowers or raises the creation-time limit; a smaller value
    is rejected and the creation-time limit stays. -/
theorem pre_set_stored (usage limit v : Nat) :
    (usage ≤ (if v = 0 then 1 else v) → preLimit usage limit [.abs v] = (if v = 0 then 1 else v))
    ∧ ((if v = 0 then 1 else v) < usage → preLimit usage limit [.abs v] = initLimit limit) := by
  have h := memconfig_rejects_low usage (initLimit limit) v
  constructor
  · intro hv
    simp only [preLimit, applyPre, SetTok.value, h.2 hv]
  · intro hv
    simp only [preLimit, applyPre, SetTok.value, h.1 hv]

/-- `lzma_auto_decoder` before the format is detected: its memconfig callback ("No coder is configured yet") accepts and
    rejects exactly like every other decoder's with usage LZMA_MEMUSAGE_BASE, and the value it stores in its own
    `coder->memlimit` is the limit the .xz / .lzma / .lz decoder is created with on the first input byte. -/
theorem auto_pre_limit_reaches_subdecoder (pre : List SetTok) : ∀ (a : AutoPending),
    (a.setAll pre).subLimit = (applyPre MEMUSAGE_BASE a.memlimit pre).2 := by
  induction pre with
  | nil => intro a; rfl
  | cons t rest ih =>
    intro a
    simp only [AutoPending.setAll, applyPre]
    rw [ih]
    have : (a.set (t.value MEMUSAGE_BASE)).2.memlimit = (memlimitSet MEMUSAGE_BASE a.memlimit (t.value MEMUSAGE_BASE)).2 := by
      simp only [AutoPending.set, memlimitSet]
      split <;> split <;> rfl
    rw [this]

theorem autoRunPre_eq (b : Build) (flags limit : Nat) (pre sets : List SetTok) (inp : List UInt8) :
    autoRunPre b flags limit pre sets inp = autoRun b flags (preLimit MEMUSAGE_BASE limit pre) sets inp := by
  simp only [autoRunPre, preLimit, auto_pre_limit_reaches_subdecoder]

/-- WHOLE-RUN RESTARTABILITY for the order create → set* → decode, single-threaded .xz decoder: two applications that
    create the decoder with any limits `l1`, `l2`, make any calls `p1`, `p2` before the first input byte and answer
    LZMA_MEMLIMIT_ERROR with any scripts `s1`, `s2` get the same result (code, Blocks decoded, bytes consumed, check
    notifications, coders allocated) unless one of them gave up. In particular a limit RAISED before the first byte to
    a sufficient amount gives the result of the unlimited run. -/
theorem pre_sets_run_restartable (b : Build) (flags l1 l2 : Nat) (p1 p2 s1 s2 : List SetTok) (inp : List UInt8) :
    GaveUp s1 (xzRunPre b flags l1 p1 s1 inp).1 (xzRunPre b flags l1 p1 s1 inp).2
    ∨ GaveUp s2 (xzRunPre b flags l2 p2 s2 inp).1 (xzRunPre b flags l2 p2 s2 inp).2
    ∨ (runResult (xzRunPre b flags l1 p1 s1 inp) = runResult (xzRunPre b flags l2 p2 s2 inp)
        ∧ sameCoders (xzRunPre b flags l1 p1 s1 inp) (xzRunPre b flags l2 p2 s2 inp)) :=
  memlimit_run_restartable_scripts b flags _ _ s1 s2 inp

/-- The same through `lzma_auto_decoder`, whatever format the first byte selects: the calls made before the format is
    known are not lost. -/
theorem pre_sets_run_restartable_auto (b : Build) (flags l1 l2 : Nat) (p1 p2 s1 s2 : List SetTok) (inp : List UInt8) :
    GaveUp s1 (autoRunPre b flags l1 p1 s1 inp).1 (autoRunPre b flags l1 p1 s1 inp).2
    ∨ GaveUp s2 (autoRunPre b flags l2 p2 s2 inp).1 (autoRunPre b flags l2 p2 s2 inp).2
    ∨ (runResult (autoRunPre b flags l1 p1 s1 inp) = runResult (autoRunPre b flags l2 p2 s2 inp)
        ∧ sameCoders (autoRunPre b flags l1 p1 s1 inp) (autoRunPre b flags l2 p2 s2 inp)) := by
  rw [autoRunPre_eq, autoRunPre_eq]
  rcases autoRun_agree b flags _ _ s1 s2 inp with g | g | ⟨hc, hsim, hcons, hdec, hchk⟩
  · exact Or.inl g
  · exact Or.inr (Or.inl g)
  · exact Or.inr (Or.inr ⟨by simp only [runResult, hc, hcons, hdec, hchk], hsim.2.1, hsim.1, hsim.2.2⟩)

/-- A limit LOWERED (or set at all) before the first byte is enforced: at no point of the run are more bytes live than
    max(LZMA_MEMUSAGE_BASE, the limit in force), where the limit in force starts as the one the pre-input calls left
    (`preLimit`) and afterwards changes only by accepted `lzma_memlimit_set` answers — for the .xz decoder and, with the
    auto decoder's own struct as allowance, through `lzma_auto_decoder`. -/
theorem pre_sets_run_peak (b : Build) (hb : b.Ok) (flags limit : Nat) (pre sets : List SetTok) (inp : List UInt8) :
    (xzRunPre b flags limit pre sets inp).2.core.heap.peak ≤ max MEMUSAGE_BASE (xzRunPre b flags limit pre sets inp).2.core.memlimit
    ∧ (autoRunPre b flags limit pre sets inp).2.core.heap.peak
        ≤ max MEMUSAGE_BASE (autoRunPre b flags limit pre sets inp).2.core.memlimit + b.szAutoDecoder := by
  refine ⟨memlimit_run_peak b hb flags _ sets inp, ?_⟩
  rw [autoRunPre_eq]
  exact (memlimit_run_peak_others b hb flags _ sets inp).2.2

/-- Non-vacuity: created unlimited, `lzma_memlimit_set(1 MiB)` before the first byte, the first Block of `helloXz`… -/
example : preLimit MEMUSAGE_BASE UINT64_MAX [.abs 1048576] = 1048576
    ∧ preLimit MEMUSAGE_BASE 1 [.abs 0, .abs 32767, .needed, .abs 33554432] = 33554432
    ∧ (({ memlimit := 1 } : AutoPending).setAll [.abs 0, .abs 32767, .needed, .abs 33554432]).subLimit = 33554432 := by decide

end XzVerif.C09
