/- C15 placeholder while the model/correspondence is brought up. -/
import XzVerif.Model.Simple
namespace XzVerif.C15
theorem placeholder : True := trivial
end XzVerif.C15
