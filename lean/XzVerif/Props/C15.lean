/-
  C15 — BCJ and delta filters are exact inverses, size-preserving and stable.
  Only property theorems and non-vacuity examples live here; helper lemmas are in Lemmas/ (word-level facts proved by
  `bv_decide` are confined to Lemmas/BitWordsBcj*.lean, namespace XzVerif.BitWords).

  Models: Model/Delta.lean, Model/Bcj.lean (ARM, ARM64, PowerPC, SPARC, IA-64, ARM-Thumb), Model/BcjX86.lean,
  Model/BcjRiscv.lean, Model/Simple.lean (simple_coder.c buffering, one-shot API).
-/
import XzVerif.Model.Simple
import XzVerif.Gen.C15
import XzVerif.Lemmas.Delta
import XzVerif.Lemmas.BcjBlocks
import XzVerif.Lemmas.BitWordsBcj
import XzVerif.Lemmas.BcjThumb
import XzVerif.Lemmas.BcjX86
import XzVerif.Lemmas.BcjRiscv

namespace XzVerif.C15
open XzVerif.Bcj XzVerif.BitWords

/-! ## Delta -/

/-- The 256-byte circular-history implementation computes `out[i] = in[i] - in[i-d]` (bytes before the start are 0). -/
theorem delta_impl_eq_spec (d : Nat) (hd1 : 1 ≤ d) (hd2 : d ≤ 256) (x : List UInt8) (i : Nat) (hi : i < x.length) :
    (Delta.encodeAll d x).getD i 0 = x.getD i 0 - (if d ≤ i then x.getD (i - d) 0 else 0) := by
  have h := Delta.encode_eq_spec d hd1 hd2 x (Delta.State.init d) [] (Delta.inv_init d) rfl
  have h2 := Delta.specEnc_getD d hd1 x [] i hi
  simp only [Delta.encodeAll, h, h2, List.getD_nil]

/-- The decoder computes `out[i] = in[i] + out[i-d]`. -/
theorem delta_decoder_eq_spec (d : Nat) (hd1 : 1 ≤ d) (hd2 : d ≤ 256) (y : List UInt8) :
    Delta.decodeAll d y = Delta.specDec d [] y :=
  Delta.decode_eq_spec d hd1 hd2 y (Delta.State.init d) [] (Delta.inv_init d) rfl

/-- Round trip and size preservation for every distance 1..256 and every byte string. -/
theorem delta_roundtrip (d : Nat) (hd1 : 1 ≤ d) (hd2 : d ≤ 256) (x : List UInt8) :
    Delta.decodeAll d (Delta.encodeAll d x) = x ∧ (Delta.encodeAll d x).length = x.length := by
  have he := Delta.encode_eq_spec d hd1 hd2 x (Delta.State.init d) [] (Delta.inv_init d) rfl
  have hdec := delta_decoder_eq_spec d hd1 hd2 (Delta.encodeAll d x)
  simp only [Delta.encodeAll] at hdec ⊢
  rw [hdec, he]
  exact ⟨Delta.specDec_specEnc d x [], Delta.specEnc_length d x []⟩

/-- The encoder is also a left inverse of the decoder (the filter is a bijection on byte strings). -/
theorem delta_roundtrip_rev (d : Nat) (hd1 : 1 ≤ d) (hd2 : d ≤ 256) (y : List UInt8) :
    Delta.encodeAll d (Delta.decodeAll d y) = y ∧ (Delta.decodeAll d y).length = y.length := by
  have hd := Delta.decode_eq_spec d hd1 hd2 y (Delta.State.init d) [] (Delta.inv_init d) rfl
  have he := Delta.encode_eq_spec d hd1 hd2 (Delta.decodeAll d y) (Delta.State.init d) [] (Delta.inv_init d) rfl
  simp only [Delta.encodeAll, Delta.decodeAll] at he hd ⊢
  rw [he, hd]
  exact ⟨Delta.specEnc_specDec d y [], Delta.specDec_length d y []⟩

/-- Slicing independence of the delta loops: processing `a ++ b` = processing `a`, then `b` with the carried state
    (`copy_and_encode` / `encode_in_place` / `decode_buffer` are called once per `lzma_code` piece). -/
theorem delta_chunk_stable (s : Delta.State) (a b : List UInt8) :
    Delta.encode s (a ++ b) = ((Delta.encode (Delta.encode s a).1 b).1, (Delta.encode s a).2 ++ (Delta.encode (Delta.encode s a).1 b).2)
    ∧ Delta.decode s (a ++ b) = ((Delta.decode (Delta.decode s a).1 b).1, (Delta.decode s a).2 ++ (Delta.decode (Delta.decode s a).1 b).2) :=
  ⟨Delta.run_append _ a b s, Delta.run_append _ a b s⟩

/-- non-vacuity: distance 2 on a ramp, distance 256 reaching back exactly one history length -/
example : Delta.encodeAll 2 [1, 2, 3, 4, 5, 6] = [1, 2, 2, 2, 2, 2] := by decide
example : Delta.decodeAll 2 [1, 2, 2, 2, 2, 2] = [1, 2, 3, 4, 5, 6] := by decide
example : (Delta.encodeAll 256 (List.replicate 257 7)).getD 256 1 = 0 ∧ (Delta.encodeAll 256 (List.replicate 257 7)).getD 255 1 = 7 := by
  decide +kernel

/-! ## Fixed-width filters: per-word inverse and class preservation -/

/-- For every 32-bit word and every (aligned) program counter: decoding the encoded word gives the word back, encoding the
    decoded word too, and the test that selects the instructions to convert gives the same answer before and after
    (so encoder and decoder convert the same positions).  ARM64 needs no alignment. -/
theorem bcj_word_inverse (pc v : BitVec 32) (h4 : pc &&& 3#32 = 0#32) :
    (armWord false pc (armWord true pc v) = v ∧ armWord true pc (armWord false pc v) = v)
    ∧ (arm64Word false pc (arm64Word true pc v) = v ∧ arm64Word true pc (arm64Word false pc v) = v)
    ∧ (powerpcWord false pc (powerpcWord true pc v) = v ∧ powerpcWord true pc (powerpcWord false pc v) = v)
    ∧ (sparcWord false pc (sparcWord true pc v) = v ∧ sparcWord true pc (sparcWord false pc v) = v) :=
  ⟨⟨arm_dec_enc pc v h4, arm_enc_dec pc v h4⟩, ⟨arm64_dec_enc pc v, arm64_enc_dec pc v⟩,
   ⟨powerpc_dec_enc pc v h4, powerpc_enc_dec pc v h4⟩, ⟨sparc_dec_enc pc v h4, sparc_enc_dec pc v h4⟩⟩

/-- The instruction class tests are invariant under the transforms (either direction). -/
theorem bcj_word_class (e : Bool) (pc v : BitVec 32) (h4 : pc &&& 3#32 = 0#32) :
    getB (armWord e pc v) 3 = getB v 3
    ∧ (((arm64Word e pc v) >>> 26 = 0x25#32) = (v >>> 26 = 0x25#32))
    ∧ ((getB (powerpcWord e pc v) 0 >>> 2 = 0x12#32 ∧ getB (powerpcWord e pc v) 3 &&& 3#32 = 1#32)
        = (getB v 0 >>> 2 = 0x12#32 ∧ getB v 3 &&& 3#32 = 1#32)) :=
  ⟨arm_class e pc v, arm64_class_bl e pc v, powerpc_class e pc v h4⟩

/-- ARM64 ADRP: converted iff in the ±512 MiB window, and the converted instruction is again an ADRP inside the window. -/
theorem arm64_adrp_gate_preserved (e : Bool) (pc v : BitVec 32) :
    let src := fun (i : BitVec 32) => ((i >>> 29) &&& 3#32) ||| ((i >>> 3) &&& 0x001FFFFC#32)
    let w := arm64Word e pc v
    (w &&& 0x9F000000#32 = 0x90000000#32 ∧ (src w + 0x00020000#32) &&& 0x001C0000#32 = 0#32)
      = (v &&& 0x9F000000#32 = 0x90000000#32 ∧ (src v + 0x00020000#32) &&& 0x001C0000#32 = 0#32) :=
  arm64_class_adrp e pc v

/-- SPARC: the `call` + sign-bits test is invariant. -/
theorem sparc_class_preserved (e : Bool) (pc v : BitVec 32) :
    let c := fun (x : BitVec 32) => (getB x 0 = 0x40#32 ∧ getB x 1 &&& 0xC0#32 = 0x00#32) ∨ (getB x 0 = 0x7F#32 ∧ getB x 1 &&& 0xC0#32 = 0xC0#32)
    c (sparcWord e pc v) = c v :=
  sparc_class e pc v

/-- non-vacuity: an ARM `bl`, an ARM64 `bl` and an in-range ADRP are really changed, an out-of-range ADRP is not -/
example : armWord true 0x1000#32 0xEB000010#32 = 0xEB000412#32 := by decide
example : arm64Word true 0x1000#32 0x94000001#32 = 0x94000401#32 := by decide
example : arm64Word true 0x5000#32 0x90000001#32 ≠ 0x90000001#32 := by decide
example : arm64Word true 0x5000#32 0x90800001#32 = 0x90800001#32 := by decide

/-! ## Fixed-width filters: whole buffers -/

/-- What "decode undoes encode on the whole buffer" means for a `*_code` function pair. -/
def RoundTrip (code : Bool → BitVec 32 → List UInt8 → List UInt8 × Nat) (align : Nat) : Prop :=
  ∀ (off : BitVec 32) (x : List UInt8), off.toNat % align = 0 →
    (code false off (code true off x).1).1 = x ∧ (code true off x).1.length = x.length
      ∧ (code false off (code true off x).1).2 = (code true off x).2

theorem arm_roundtrip : RoundTrip armCode 4 := by
  intro off x h
  have h4 : off &&& 3#32 = 0#32 := and_of_mod (k := 2) off (by omega) h
  exact blockCode_roundtrip3 (w := 4) (f := armWord true) (g := armWord false) (P := fun pc => pc &&& 3#32 = 0#32) al4_add4 arm_dec_enc off x h4

theorem arm64_roundtrip : RoundTrip arm64Code 4 := by
  intro off x _
  exact blockCode_roundtrip3 (w := 4) (f := arm64Word true) (g := arm64Word false) (P := fun _ => True) (fun _ _ => trivial)
    (fun pc v _ => arm64_dec_enc pc v) off x trivial

theorem powerpc_roundtrip : RoundTrip powerpcCode 4 := by
  intro off x h
  have h4 : off &&& 3#32 = 0#32 := and_of_mod (k := 2) off (by omega) h
  exact blockCode_roundtrip3 (w := 4) (f := powerpcWord true) (g := powerpcWord false) (P := fun pc => pc &&& 3#32 = 0#32) al4_add4 powerpc_dec_enc off x h4

theorem sparc_roundtrip : RoundTrip sparcCode 4 := by
  intro off x h
  have h4 : off &&& 3#32 = 0#32 := and_of_mod (k := 2) off (by omega) h
  exact blockCode_roundtrip3 (w := 4) (f := sparcWord true) (g := sparcWord false) (P := fun pc => pc &&& 3#32 = 0#32) al4_add4 sparc_dec_enc off x h4

/-- IA-64 per-bundle inverse: all 128-bit bundles, all templates, 16-byte aligned pc. -/
theorem ia64_bundle_inverse (pc : BitVec 32) (v : BitVec 128) (h : pc &&& 15#32 = 0#32) :
    ia64Bundle false pc (ia64Bundle true pc v) = v ∧ ia64Bundle true pc (ia64Bundle false pc v) = v := by
  simp only [ia64Bundle]
  rw [ia64_template true _ (ia64_mask_lt _) pc v, ia64_template false _ (ia64_mask_lt _) pc v]
  exact ⟨ia64_dec_enc _ (ia64_mask_lt _) pc v h, ia64_enc_dec _ (ia64_mask_lt _) pc v h⟩

theorem ia64_roundtrip : RoundTrip ia64Code 16 := by
  intro off x h
  have h16 : off &&& 15#32 = 0#32 := and_of_mod (k := 4) off (by omega) h
  exact blockCode_roundtrip3 (w := 16) (f := ia64Bundle true) (g := ia64Bundle false) (P := fun pc => pc &&& 15#32 = 0#32) al16_add16
    (fun pc v hp => (ia64_bundle_inverse pc v hp).1) off x h16

theorem armthumb_roundtrip : RoundTrip armthumbCode 2 := by
  intro off x h
  have h2 : off &&& 1#32 = 0#32 := and_of_mod (k := 1) off (by omega) h
  have := thumbGo_roundtrip x.length x off (Nat.le_refl _) h2
  simp only [armthumbCode]
  rw [this]
  exact ⟨rfl, thumbGo_length true x.length x off (Nat.le_refl _), rfl⟩

/-- The six filters with a fixed instruction grid: decode undoes encode on every buffer at every permitted start offset;
    the length never changes; both directions report the same processed count. -/
theorem bcj_fixed_roundtrip :
    RoundTrip armCode 4 ∧ RoundTrip armthumbCode 2 ∧ RoundTrip arm64Code 4 ∧ RoundTrip powerpcCode 4 ∧ RoundTrip sparcCode 4
      ∧ RoundTrip ia64Code 16 :=
  ⟨arm_roundtrip, armthumb_roundtrip, arm64_roundtrip, powerpc_roundtrip, sparc_roundtrip, ia64_roundtrip⟩

/-- processed = size rounded down to the block size (ARM, ARM64, PowerPC, SPARC: 4; IA-64: 16). -/
theorem bcj_fixed_processed (e : Bool) (off : BitVec 32) (x : List UInt8) :
    (armCode e off x).2 = x.length - x.length % 4 ∧ (arm64Code e off x).2 = x.length - x.length % 4
    ∧ (powerpcCode e off x).2 = x.length - x.length % 4 ∧ (sparcCode e off x).2 = x.length - x.length % 4
    ∧ (ia64Code e off x).2 = x.length - x.length % 16 :=
  ⟨blockCode_processed (w := 4) _ _ _, blockCode_processed (w := 4) _ _ _, blockCode_processed (w := 4) _ _ _,
   blockCode_processed (w := 4) _ _ _, blockCode_processed (w := 16) _ _ _⟩

/-- non-vacuity: a buffer with a BL at offset 4 and a 3-byte tail; start offset near 2^32 (wraps inside the buffer) -/
example : armCode true 0xFFFFFFFC#32 [1, 2, 3, 4, 0x10, 0, 0, 0xEB, 9, 9, 9] = ([1, 2, 3, 4, 0x12, 0, 0, 0xEB, 9, 9, 9], 8) := by
  decide +kernel
example : armthumbCode true 0#32 [0, 0xF0, 0, 0xF8, 1] = ([0, 0xF0, 2, 0xF8, 1], 4) := by decide +kernel

/-! ## Chunk stability (prefix-stability contract used by simple_coder.c) -/

/-- One call on `a ++ b` equals: a call on `a` (which leaves a tail unprocessed), then a call at `now_pos + processed` on
    (that tail) ++ `b`. The processed parts concatenate and the counts add up. -/
def ChunkStable (code : BitVec 32 → List UInt8 → List UInt8 × Nat) : Prop :=
  ∀ (off : BitVec 32) (a b : List UInt8),
    code off (a ++ b) =
      ((code off a).1.take (code off a).2 ++ (code (off + BitVec.ofNat 32 (code off a).2) ((code off a).1.drop (code off a).2 ++ b)).1,
       (code off a).2 + (code (off + BitVec.ofNat 32 (code off a).2) ((code off a).1.drop (code off a).2 ++ b)).2)

theorem bcj_chunk_stable (e : Bool) :
    ChunkStable (armCode e) ∧ ChunkStable (armthumbCode e) ∧ ChunkStable (arm64Code e) ∧ ChunkStable (powerpcCode e)
      ∧ ChunkStable (sparcCode e) ∧ ChunkStable (ia64Code e) :=
  ⟨fun off a b => blockCode_chunk (w := 4) (by omega) (armWord e) off a b,
   fun off a b => thumbGo_chunk e a.length a b off (Nat.le_refl _),
   fun off a b => blockCode_chunk (w := 4) (by omega) (arm64Word e) off a b,
   fun off a b => blockCode_chunk (w := 4) (by omega) (powerpcWord e) off a b,
   fun off a b => blockCode_chunk (w := 4) (by omega) (sparcWord e) off a b,
   fun off a b => blockCode_chunk (w := 16) (by omega) (ia64Bundle e) off a b⟩

/-! ## x86 -/

/-- **Mask invariant.** `MaskOK μ l` (Lemmas/BcjX86.lean): `μ` is the value `prev_mask` has after the shift at a candidate at the head
    of `l`; bit `k ∈ {1,2,3}` stands for a rejected candidate `k` bytes back, bit `4+k` for "its byte 4 (= `l[4-k]`) was 00/FF".
    It holds for `prev_mask = 0`, is kept by every step of the main loop, and at a convertible candidate it gives
    `prev_mask ∈ {0,2,4,8}` with the byte the inner loop inspects being non-00/FF. -/
theorem x86_mask_inv :
    (∀ l, MaskOK 0#32 l)
    ∧ (∀ μ b0 tail, MaskOK μ (b0 :: tail) → MaskOK (shift1 μ) tail)
    ∧ (∀ μ b0 b1 b2 b3 b4 rest, MaskOK μ (b0 :: b1 :: b2 :: b3 :: b4 :: rest) →
        MaskOK (shift1 (noconvMask μ b4)) (b1 :: b2 :: b3 :: b4 :: rest))
    ∧ (∀ μ b0 b1 b2 b3 b4 rest, MaskOK μ (b0 :: b1 :: b2 :: b3 :: b4 :: rest) → x86Convertible b4 μ = true →
        (μ = 0#32 ∨ μ = 2#32 ∨ μ = 4#32 ∨ μ = 8#32)
        ∧ (μ = 2#32 → test86 b3 = false) ∧ (μ = 4#32 → test86 b2 = false) ∧ (μ = 8#32 → test86 b1 = false)) := by
  refine ⟨maskOK_zero, fun _ _ _ h => maskOK_skip h, fun _ _ _ _ _ _ _ h => maskOK_noconv h, ?_⟩
  intro μ b0 b1 b2 b3 b4 rest hm hc
  obtain ⟨_, hrange⟩ := (convertible_iff b4 μ).1 hc
  refine ⟨convertible_mask μ (bit0_and μ hm.b0) hrange, ?_, ?_, ?_⟩
  · intro h; subst h; rw [hm.k1 bits_of_2.1 b3 rfl]; exact bits_of_2.2.2.2
  · intro h; subst h; rw [hm.k2 bits_of_4.2.1 b2 rfl]; exact bits_of_4.2.2.2
  · intro h; subst h; rw [hm.k3 bits_of_8.2.2.1 b1 rfl]; exact bits_of_8.2.2.2

/-- The virtual mask really is what the code computes: moving one byte forward shifts it once (no candidate), a rejected candidate
    ors in its flags, a conversion clears it. (`NoWrap`: fewer than 2^32 bytes since the last candidate.) -/
theorem x86_mask_tracks (st : X86State) (pc m : BitVec 32) (h : (pc - st.prevPos).toNat + 1 < 2 ^ 32) :
    x86NewMask st (pc + 1#32) = shift1 (x86NewMask st pc)
    ∧ x86NewMask ⟨m, pc⟩ (pc + 1#32) = shift1 m
    ∧ x86NewMask ⟨0#32, pc⟩ (pc + 5#32) = 0#32 :=
  ⟨newMask_skip st pc h, newMask_after_noconv m pc, newMask_after_conv pc⟩

/-- **Inner loop.** Under the mask invariant the C `while (true)` exits within two iterations: any fuel ≥ 2 gives the same value
    (so the model's fuel of 4 is the C result), for encoder and decoder. -/
theorem x86_inner_loop_2 (e : Bool) (pc5 mask src : BitVec 32) (fuel : Nat)
    (hm : mask = 0#32 ∨ mask = 2#32 ∨ mask = 4#32 ∨ mask = 8#32)
    (h3 : mask = 2#32 → test86 (u8 (src >>> 16)) = false) (h2 : mask = 4#32 → test86 (u8 (src >>> 8)) = false)
    (h1 : mask = 8#32 → test86 (u8 src) = false) :
    x86Loop e pc5 mask (fuel + 2) src = x86Loop e pc5 mask 2 src :=
  x86_loop_two e pc5 mask src fuel hm h3 h2 h1

/-- Without the invariant the loop need not terminate: for this operand the inspected byte is 00/FF in `src` and the iterates cycle
    (the value keeps changing with the fuel). -/
example : x86Loop true 0xCB00E324#32 2#32 4 0x00FFDD21#32 ≠ x86Loop true 0xCB00E324#32 2#32 5 0x00FFDD21#32 := by decide
example : test86 (u8 (0x00FFDD21#32 >>> 16)) = true := by decide

/-- One converted operand: the decoder restores the four bytes; byte 4 stays 00/FF; the byte a rejected earlier candidate has
    looked at stays non-00/FF, so the decoder takes the same decisions. -/
theorem x86_operand_roundtrip (pc5 mask : BitVec 32) (b1 b2 b3 b4 : UInt8)
    (hm : mask = 0#32 ∨ mask = 2#32 ∨ mask = 4#32 ∨ mask = 8#32) (h4 : test86 b4 = true)
    (h3 : mask = 2#32 → test86 b3 = false) (h2 : mask = 4#32 → test86 b2 = false) (h1 : mask = 8#32 → test86 b1 = false) :
    x86Conv false pc5 mask (x86Conv true pc5 mask b1 b2 b3 b4).1 (x86Conv true pc5 mask b1 b2 b3 b4).2.1
        (x86Conv true pc5 mask b1 b2 b3 b4).2.2.1 (x86Conv true pc5 mask b1 b2 b3 b4).2.2.2 = (b1, b2, b3, b4)
    ∧ test86 (x86Conv true pc5 mask b1 b2 b3 b4).2.2.2 = true
    ∧ (mask = 2#32 → test86 (x86Conv true pc5 mask b1 b2 b3 b4).2.2.1 = false)
    ∧ (mask = 4#32 → test86 (x86Conv true pc5 mask b1 b2 b3 b4).2.1 = false)
    ∧ (mask = 8#32 → test86 (x86Conv true pc5 mask b1 b2 b3 b4).1 = false) :=
  x86_conv_dec_enc pc5 mask b1 b2 b3 b4 hm h4 h3 h2 h1

/-- **Round trip of `x86_code`** from any state whose mask is consistent with the buffer (in particular `prev_mask = 0`, the state
    after init and after every conversion), for every start offset and every buffer shorter than 2^32 - 5 bytes: the decoder
    returns the original bytes, the same processed count and the same `prev_mask` / `prev_pos`. -/
theorem x86_roundtrip_state (st : X86State) (off : BitVec 32) (x : List UInt8) (hlen : x.length + 5 < 2 ^ 32)
    (hm : MaskOK (x86NewMask ⟨st.prevMask, if off - st.prevPos > 5#32 then off - 5#32 else st.prevPos⟩ off) x) :
    x86Code false st off (x86Code true st off x).1 = (x, (x86Code true st off x).2.1, (x86Code true st off x).2.2) := by
  unfold x86Code
  by_cases h5 : x.length < 5
  · simp [h5]
  · simp only [h5, if_false]
    have hw := noWrap_clamp st.prevMask st.prevPos off x hlen
    have hp := x86Go_enc_pres _ x off _ (Nat.le_refl _) hw hm
    rw [hp.len, if_neg h5]
    exact x86Go_roundtrip _ x off _ (Nat.le_refl _) hw hm

theorem x86_roundtrip (off : BitVec 32) (x : List UInt8) (hlen : x.length + 5 < 2 ^ 32) :
    x86Code false X86State.init off (x86Code true X86State.init off x).1
      = (x, (x86Code true X86State.init off x).2.1, (x86Code true X86State.init off x).2.2)
    ∧ (x86Code true X86State.init off x).1.length = x.length := by
  have hm : ∀ pp, MaskOK (x86NewMask ⟨0#32, pp⟩ off) x := fun pp => by rw [newMask_zero]; exact maskOK_zero _
  refine ⟨x86_roundtrip_state X86State.init off x hlen (hm _), ?_⟩
  unfold x86Code
  by_cases h5 : x.length < 5
  · simp [h5]
  · simp only [h5, if_false]
    exact (x86Go_enc_pres _ x off _ (Nat.le_refl _) (noWrap_clamp _ _ off x hlen) (hm _)).len

/-- non-vacuity: the candidate at 0 is rejected (its byte 4 is FE), the candidate at 1 sees `prev_mask = 2`; plain addition would
    put FF where the rejected candidate looked, so the inner loop runs a second iteration and stores 01 there; the decoder undoes it -/
example : x86Code true X86State.init 0#32 [0xE8, 0xE8, 0xFA, 0xFF, 0xFE, 0x00, 9, 9, 9, 9]
    = ([0xE8, 0xE8, 0x05, 0x00, 0x01, 0x00, 9, 9, 9, 9], 6, ⟨0#32, 1#32⟩) := by decide +kernel
example : x86Code false X86State.init 0#32 [0xE8, 0xE8, 0x05, 0x00, 0x01, 0x00, 9, 9, 9, 9]
    = ([0xE8, 0xE8, 0xFA, 0xFF, 0xFE, 0x00, 9, 9, 9, 9], 6, ⟨0#32, 1#32⟩) := by decide +kernel

/-- **Chunk stability of the main loop**: one pass over `a ++ b` = a pass over `a`, then a pass at the position and with the
    `prev_mask`/`prev_pos` state where the first one stopped, over (its unprocessed tail) ++ `b`. -/
theorem x86_chunk_stable_loop (e : Bool) (pc : BitVec 32) (st : X86State) (a b : List UInt8) :
    x86Go e pc st (a ++ b) =
      ((x86Go e pc st a).1.take (x86Go e pc st a).2.1
          ++ (x86Go e (pc + BitVec.ofNat 32 (x86Go e pc st a).2.1) (x86Go e pc st a).2.2 ((x86Go e pc st a).1.drop (x86Go e pc st a).2.1 ++ b)).1,
       (x86Go e pc st a).2.1
          + (x86Go e (pc + BitVec.ofNat 32 (x86Go e pc st a).2.1) (x86Go e pc st a).2.2 ((x86Go e pc st a).1.drop (x86Go e pc st a).2.1 ++ b)).2.1,
       (x86Go e (pc + BitVec.ofNat 32 (x86Go e pc st a).2.1) (x86Go e pc st a).2.2 ((x86Go e pc st a).1.drop (x86Go e pc st a).2.1 ++ b)).2.2) :=
  x86Go_chunk e a.length a b pc st (Nat.le_refl _)

/-- **Chunk stability of `x86_code` itself**: the second *call* re-clamps `prev_pos` to `now_pos - 5` and leaves buffers shorter than five
    bytes alone; neither changes a byte or a count (the final `prev_pos` may be a different but equivalent value, more than 5 bytes back
    either way). For buffers below 4 GiB. -/
theorem x86_chunk_stable (e : Bool) (st : X86State) (off : BitVec 32) (a b : List UInt8) (hlen : (a ++ b).length + 5 < 2 ^ 32) :
    (x86Code e st off (a ++ b)).1 =
        (x86Code e st off a).1.take (x86Code e st off a).2.1
          ++ (x86Code e (x86Code e st off a).2.2 (off + BitVec.ofNat 32 (x86Code e st off a).2.1)
                ((x86Code e st off a).1.drop (x86Code e st off a).2.1 ++ b)).1
    ∧ (x86Code e st off (a ++ b)).2.1 =
        (x86Code e st off a).2.1
          + (x86Code e (x86Code e st off a).2.2 (off + BitVec.ofNat 32 (x86Code e st off a).2.1)
                ((x86Code e st off a).1.drop (x86Code e st off a).2.1 ++ b)).2.1 :=
  x86Code_chunk e st off a b hlen

/-! ## RISC-V -/

/-- JAL (rd ∈ {x1, x5}): per-instruction inverse at every even pc; the rd test is preserved. -/
theorem riscv_jal_inverse (pc : BitVec 32) (b1 b2 b3 : UInt8) (hpc : pc &&& 1#32 = 0#32) (h : (u32 b1 &&& 0x0D#32 != 0#32) = false) :
    (u32 (rvJalEnc pc b1 b2 b3).1 &&& 0x0D#32 != 0#32) = false
    ∧ rvJalDec pc (rvJalEnc pc b1 b2 b3).1 (rvJalEnc pc b1 b2 b3).2.1 (rvJalEnc pc b1 b2 b3).2.2 = (b1, b2, b3) :=
  jal_dec_enc pc b1 b2 b3 hpc h

/-- AUIPC + inst2 pair (rd ∉ {x0,x2}, rd = rs1 of inst2, inst2 a 32-bit instruction): the encoder's output is a special-form AUIPC
    (rd = x2, opcode bits of the packed inst2 = 11, packed rs1 ∉ {x0,x2}) that the decoder recognises, and decoding it restores both
    instructions for every pc — including the sign-extension compensation `(addr + 0x800) & 0xFFFFF000`. -/
theorem riscv_pair_inverse (pc inst inst2 : BitVec 32) (hA : (inst &&& 0x7F#32 == 0x17#32) = true)
    (hE : (inst &&& 0xE80#32 != 0#32) = true) (hP : notAuipcPair inst inst2 = false) :
    (pairEncX inst2 &&& 0xE80#32 != 0#32) = false ∧ notSpecialAuipc (pairEncX inst2) (pairEncX inst2 >>> 27) = false
    ∧ rvSpecialDec pc (pairEncX inst2) (pairEncY pc inst inst2) = le32x2 inst inst2 := by
  obtain ⟨_, _, w3, w4, w5, w6, _⟩ := pair_words pc inst inst2 hA hE hP
  exact ⟨w3, w4, by rw [rvSpecialDec_eq, w5, w6]⟩

/-- A special-form AUIPC that occurs in the *input* is "fake-decoded" by the encoder into something the decoder sees as a pair and
    re-encodes to the original bytes: this is what makes the filter a bijection on arbitrary data. -/
theorem riscv_special_inverse (inst fa : BitVec 32) (hA : (inst &&& 0x7F#32 == 0x17#32) = true)
    (hE : (inst &&& 0xE80#32 != 0#32) = false) (hS : notSpecialAuipc inst (inst >>> 27) = false) :
    (specEncX inst fa &&& 0xE80#32 != 0#32) = true ∧ notAuipcPair (specEncX inst fa) (specEncY inst fa) = false
    ∧ rvPairDec (specEncX inst fa) (specEncY inst fa) = le32x2 inst fa := by
  obtain ⟨_, _, w3, w4, w5, w6, _⟩ := special_words inst fa hA hE hS
  exact ⟨w3, w4, by rw [rvPairDec_eq, w5, w6]⟩

/-- **Round trip of the RISC-V filter** on every buffer at every even start offset (all cases: JAL, skipped JAL, real pair,
    non-pair with the 6-byte skip, special form, non-special AUIPC, everything else; candidates in the last 8 bytes untouched). -/
theorem riscv_roundtrip : RoundTrip riscvCode 2 := by
  intro off x h
  have h2 : off &&& 1#32 = 0#32 := and_of_mod (k := 1) off (by omega) h
  have := rv_roundtrip x.length x off (Nat.le_refl _) h2
  simp only [riscvCode, if_true, Bool.false_eq_true, if_false]
  rw [this]
  exact ⟨rfl, rvEncGo_length _ x off (Nat.le_refl _), rfl⟩

/-- non-vacuity: `auipc ra,0x12345; jalr ra,-42(ra)` at pc 0x1000 becomes special form + big-endian absolute address 0x12345FD6 -/
example : riscvCode true 0x1000#32 [0x97, 0x50, 0x34, 0x12, 0xE7, 0x80, 0x60, 0xFD] = ([0x17, 0x71, 0x0E, 0x08, 0x12, 0x34, 0x5F, 0xD6], 8) := by
  decide +kernel
example : riscvCode false 0x1000#32 [0x17, 0x71, 0x0E, 0x08, 0x12, 0x34, 0x5F, 0xD6] = ([0x97, 0x50, 0x34, 0x12, 0xE7, 0x80, 0x60, 0xFD], 8) := by
  decide +kernel

/-- **Chunk stability of the RISC-V filter**, encoder and decoder (same contract as `bcj_chunk_stable`). -/
theorem riscv_chunk_stable (e : Bool) : ChunkStable (riscvCode e) := by
  intro off a b
  cases e
  · exact rvDecGo_chunk a.length a b off (Nat.le_refl _)
  · exact rvEncGo_chunk a.length a b off (Nat.le_refl _)

/-! ## One-shot API = streaming coder -/

open XzVerif.Simple in
/-- `lzma_bcj_{x86,arm64,riscv}_{encode,decode}(start_offset, buf, size)` leave in `buf` exactly the bytes that the streaming coder
    (`lzma_simple_coder` set up by the init function with the same start offset, a pass-through next filter, the whole input offered with
    LZMA_FINISH and enough output space) produces, whatever the size of its temporary buffer; that call consumes everything and returns
    LZMA_STREAM_END. -/
theorem oneshot_eq_stream (id : FilterId) (hid : id = .x86 ∨ id = .arm64 ∨ id = .riscv) (enc : Bool) (off : BitVec 32) (x : List UInt8)
    (cap : Nat) (hal : off.toNat % id.alignment = 0) (hcap : x.length ≤ cap) (hx : x ≠ []) (alloc : Nat) :
    ∃ c r, Coder.init id enc Next.passthrough off alloc = some c ∧ oneShot id enc off x = some r
      ∧ (simpleCode c x cap Action.finish).2 = ⟨x.length, r.1, LZMA_STREAM_END⟩ := by
  have hlen : 0 < x.length := List.length_pos_iff.mpr hx
  have hmin : min x.length cap = x.length := Nat.min_eq_left hcap
  have hne : (x.length == 0) = false := by simp; omega
  have hcap0 : cap > 0 := by omega
  rcases hid with rfl | rfl | rfl
  · refine ⟨⟨.x86, enc, Next.passthrough, false, off, alloc, 0, 0, 0, [], X86State.init⟩, _, by simp [Coder.init, FilterId.alignment, Nat.mod_one], rfl, ?_⟩
    simp [simpleCode, simpleCodeMain, copyOrCode, callFilter, filterCode, hmin, hne, hcap0, LZMA_STREAM_END]
    rfl
  · have h4 : off &&& 3#32 = 0#32 := and_of_mod (k := 2) off (by omega) hal
    have hoff : off &&& 4294967292#32 = off := and_not3 off h4
    have hal' : off.toNat % 4 = 0 := hal
    refine ⟨⟨.arm64, enc, Next.passthrough, false, off, alloc, 0, 0, 0, [], X86State.init⟩, _, by simp [Coder.init, FilterId.alignment, hal'], rfl, ?_⟩
    simp [simpleCode, simpleCodeMain, copyOrCode, callFilter, filterCode, hmin, hne, hcap0, hoff, LZMA_STREAM_END]
  · have h2 : off &&& 1#32 = 0#32 := and_of_mod (k := 1) off (by omega) hal
    have hoff : off &&& 4294967294#32 = off := and_not1 off h2
    have hal' : off.toNat % 2 = 0 := hal
    refine ⟨⟨.riscv, enc, Next.passthrough, false, off, alloc, 0, 0, 0, [], X86State.init⟩, _, by simp [Coder.init, FilterId.alignment, hal'], rfl, ?_⟩
    simp [simpleCode, simpleCodeMain, copyOrCode, callFilter, filterCode, hmin, hne, hcap0, hoff, LZMA_STREAM_END]

/-! ## Handle reuse: initialisation does not depend on what the coder object was used for before -/

/-- `lzma_delta_coder_init` on a used coder (next Block, re-initialised `lzma_stream`, next file) leaves nothing of the previous data:
    the filter output is a function of the new distance and the new input only. -/
theorem delta_init_independent_of_previous (prev : Delta.State) (d : Nat) (x : List UInt8) :
    prev.reinit d = Delta.State.init d
    ∧ Delta.encode (prev.reinit d) x = Delta.encode (Delta.State.init d) x
    ∧ Delta.decode (prev.reinit d) x = Delta.decode (Delta.State.init d) x :=
  ⟨rfl, rfl, rfl⟩

open XzVerif.Simple in
/-- Same for `lzma_simple_coder_init` (+ the x86 init): a reused coder starts at `now_pos = start_offset`, `prev_mask = 0`,
    `prev_pos = -5`, an empty buffer and no end flag, exactly like a new one. -/
theorem simple_init_independent_of_previous (prev : Coder) (enc : Bool) (next : Next) (off : BitVec 32) :
    prev.reinit enc next off = Coder.init prev.id enc next off prev.allocated := by
  unfold Coder.reinit Coder.init
  split <;> rfl

/-! ## Bridges to what the code under test does today (lean/XzVerif/Gen/C15.lean is regenerated on every check by running it) -/

open XzVerif.Simple in
/-- `lzma_simple_coder_init` parameters of the eight filters as observed on the tree: the start-offset alignment is the reference one, and
    the temporary buffer has room for at least `2 × unfiltered_max` bytes (what `simple_code` needs to always make progress; the exact
    size only changes how a stream is split over calls, never its bytes), encoder and decoder. -/
theorem gen_filter_params :
    Gen.C15.filterParams.length = 8
    ∧ ((List.zip [FilterId.x86, .powerpc, .ia64, .arm, .armthumb, .sparc, .arm64, .riscv] Gen.C15.filterParams).all
        fun (f, ae, me, ad, md) => ae == f.alignment && ad == f.alignment && decide (2 * f.unfilteredMax ≤ me)
          && decide (2 * f.unfilteredMax ≤ md)) = true := by decide

/-- delta distances accepted by the init function are exactly 1..256 -/
theorem gen_delta_dist :
    Gen.C15.deltaDistMin = 1 ∧ Gen.C15.deltaDistMax = 256 ∧ Gen.C15.deltaAccepted = (List.range 261).filter Delta.distValid := by
  decide +kernel

/-- IA-64 template → slot mask, as observed through `ia64_code` -/
theorem gen_ia64_table : Gen.C15.ia64Masks = ia64BranchTable := by decide

/-- x86: which `prev_mask` values let a candidate with a 00 byte 4 be converted, and which operand byte the inner loop inspects -/
theorem gen_x86_tables :
    (Gen.C15.x86Convertible.all fun (m, c) => x86Convertible 0 (BitVec.ofNat 32 m) == c) = true
    ∧ (Gen.C15.x86Inspected.all fun (m, k) => 4 - maskToBitNumber.getD (m / 2) 0 == k) = true := by
  decide +kernel

/-- the per-word transforms on the regenerated grids (class members, near misses, extreme immediates × five program counters) -/
theorem gen_word_grids :
    gridOK armCode Gen.C15.armGrid = true ∧ gridOK arm64Code Gen.C15.arm64Grid = true ∧ gridOK powerpcCode Gen.C15.powerpcGrid = true
    ∧ gridOK sparcCode Gen.C15.sparcGrid = true ∧ gridOK armthumbCode Gen.C15.armthumbGrid = true := by
  decide +kernel

end XzVerif.C15
