/-
  C15 — BCJ and delta filters are exact inverses, size-preserving and stable.
  Only property theorems and non-vacuity examples live here; helper lemmas are in Lemmas/ (word-level facts proved by
  `bv_decide` are confined to Lemmas/BitWordsBcj*.lean, namespace XzVerif.BitWords).

  Models: Model/Delta.lean, Model/Bcj.lean (ARM, ARM64, PowerPC, SPARC, IA-64, ARM-Thumb), Model/BcjX86.lean,
  Model/BcjRiscv.lean, Model/Simple.lean (simple_coder.c buffering, one-shot API).
-/
import XzVerif.Model.Simple
import XzVerif.Lemmas.Delta
import XzVerif.Lemmas.BcjBlocks
import XzVerif.Lemmas.BitWordsBcj
import XzVerif.Lemmas.BcjThumb

namespace XzVerif.C15
open XzVerif.Bcj XzVerif.BitWords

/-! ## Delta -/

/-- The 256-byte circular-history implementation computes `out[i] = in[i] - in[i-d]` (bytes before the start are 0). -/
theorem delta_impl_eq_spec (d : Nat) (hd1 : 1 ≤ d) (hd2 : d ≤ 256) (x : List UInt8) (i : Nat) (hi : i < x.length) :
    (Delta.encodeAll d x).getD i 0 = x.getD i 0 - (if d ≤ i then x.getD (i - d) 0 else 0) := by
  have h := Delta.encode_eq_spec d hd1 hd2 x (Delta.State.init d) [] (Delta.inv_init d) rfl
  have h2 := Delta.specEnc_getD d hd1 x [] i hi
  simp only [Delta.encodeAll, h, h2, List.getD_nil]

/-- The decoder computes `out[i] = in[i] + out[i-d]`. -/
theorem delta_decoder_eq_spec (d : Nat) (hd1 : 1 ≤ d) (hd2 : d ≤ 256) (y : List UInt8) :
    Delta.decodeAll d y = Delta.specDec d [] y :=
  Delta.decode_eq_spec d hd1 hd2 y (Delta.State.init d) [] (Delta.inv_init d) rfl

/-- Round trip and size preservation for every distance 1..256 and every byte string. -/
theorem delta_roundtrip (d : Nat) (hd1 : 1 ≤ d) (hd2 : d ≤ 256) (x : List UInt8) :
    Delta.decodeAll d (Delta.encodeAll d x) = x ∧ (Delta.encodeAll d x).length = x.length := by
  have he := Delta.encode_eq_spec d hd1 hd2 x (Delta.State.init d) [] (Delta.inv_init d) rfl
  have hdec := delta_decoder_eq_spec d hd1 hd2 (Delta.encodeAll d x)
  simp only [Delta.encodeAll] at hdec ⊢
  rw [hdec, he]
  exact ⟨Delta.specDec_specEnc d x [], Delta.specEnc_length d x []⟩

/-- The encoder is also a left inverse of the decoder (the filter is a bijection on byte strings). -/
theorem delta_roundtrip_rev (d : Nat) (hd1 : 1 ≤ d) (hd2 : d ≤ 256) (y : List UInt8) :
    Delta.encodeAll d (Delta.decodeAll d y) = y ∧ (Delta.decodeAll d y).length = y.length := by
  have hd := Delta.decode_eq_spec d hd1 hd2 y (Delta.State.init d) [] (Delta.inv_init d) rfl
  have he := Delta.encode_eq_spec d hd1 hd2 (Delta.decodeAll d y) (Delta.State.init d) [] (Delta.inv_init d) rfl
  simp only [Delta.encodeAll, Delta.decodeAll] at he hd ⊢
  rw [he, hd]
  exact ⟨Delta.specEnc_specDec d y [], Delta.specDec_length d y []⟩

/-- Slicing independence of the delta loops: processing `a ++ b` = processing `a`, then `b` with the carried state
    (`copy_and_encode` / `encode_in_place` / `decode_buffer` are called once per `lzma_code` piece). -/
theorem delta_chunk_stable (s : Delta.State) (a b : List UInt8) :
    Delta.encode s (a ++ b) = ((Delta.encode (Delta.encode s a).1 b).1, (Delta.encode s a).2 ++ (Delta.encode (Delta.encode s a).1 b).2)
    ∧ Delta.decode s (a ++ b) = ((Delta.decode (Delta.decode s a).1 b).1, (Delta.decode s a).2 ++ (Delta.decode (Delta.decode s a).1 b).2) :=
  ⟨Delta.run_append _ a b s, Delta.run_append _ a b s⟩

/-- non-vacuity: distance 2 on a ramp, distance 256 reaching back exactly one history length -/
example : Delta.encodeAll 2 [1, 2, 3, 4, 5, 6] = [1, 2, 2, 2, 2, 2] := by decide
example : Delta.decodeAll 2 [1, 2, 2, 2, 2, 2] = [1, 2, 3, 4, 5, 6] := by decide
example : (Delta.encodeAll 256 (List.replicate 257 7)).getD 256 1 = 0 ∧ (Delta.encodeAll 256 (List.replicate 257 7)).getD 255 1 = 7 := by
  decide +kernel

/-! ## Fixed-width filters: per-word inverse and class preservation -/

/-- For every 32-bit word and every (aligned) program counter: decoding the encoded word gives the word back, encoding the
    decoded word too, and the test that selects the instructions to convert gives the same answer before and after
    (so encoder and decoder convert the same positions).  ARM64 needs no alignment. -/
theorem bcj_word_inverse (pc v : BitVec 32) (h4 : pc &&& 3#32 = 0#32) :
    (armWord false pc (armWord true pc v) = v ∧ armWord true pc (armWord false pc v) = v)
    ∧ (arm64Word false pc (arm64Word true pc v) = v ∧ arm64Word true pc (arm64Word false pc v) = v)
    ∧ (powerpcWord false pc (powerpcWord true pc v) = v ∧ powerpcWord true pc (powerpcWord false pc v) = v)
    ∧ (sparcWord false pc (sparcWord true pc v) = v ∧ sparcWord true pc (sparcWord false pc v) = v) :=
  ⟨⟨arm_dec_enc pc v h4, arm_enc_dec pc v h4⟩, ⟨arm64_dec_enc pc v, arm64_enc_dec pc v⟩,
   ⟨powerpc_dec_enc pc v h4, powerpc_enc_dec pc v h4⟩, ⟨sparc_dec_enc pc v h4, sparc_enc_dec pc v h4⟩⟩

/-- The instruction class tests are invariant under the transforms (either direction). -/
theorem bcj_word_class (e : Bool) (pc v : BitVec 32) (h4 : pc &&& 3#32 = 0#32) :
    getB (armWord e pc v) 3 = getB v 3
    ∧ (((arm64Word e pc v) >>> 26 = 0x25#32) = (v >>> 26 = 0x25#32))
    ∧ ((getB (powerpcWord e pc v) 0 >>> 2 = 0x12#32 ∧ getB (powerpcWord e pc v) 3 &&& 3#32 = 1#32)
        = (getB v 0 >>> 2 = 0x12#32 ∧ getB v 3 &&& 3#32 = 1#32)) :=
  ⟨arm_class e pc v, arm64_class_bl e pc v, powerpc_class e pc v h4⟩

/-- ARM64 ADRP: converted iff in the ±512 MiB window, and the converted instruction is again an ADRP inside the window. -/
theorem arm64_adrp_gate_preserved (e : Bool) (pc v : BitVec 32) :
    let src := fun (i : BitVec 32) => ((i >>> 29) &&& 3#32) ||| ((i >>> 3) &&& 0x001FFFFC#32)
    let w := arm64Word e pc v
    (w &&& 0x9F000000#32 = 0x90000000#32 ∧ (src w + 0x00020000#32) &&& 0x001C0000#32 = 0#32)
      = (v &&& 0x9F000000#32 = 0x90000000#32 ∧ (src v + 0x00020000#32) &&& 0x001C0000#32 = 0#32) :=
  arm64_class_adrp e pc v

/-- SPARC: the `call` + sign-bits test is invariant. -/
theorem sparc_class_preserved (e : Bool) (pc v : BitVec 32) :
    let c := fun (x : BitVec 32) => (getB x 0 = 0x40#32 ∧ getB x 1 &&& 0xC0#32 = 0x00#32) ∨ (getB x 0 = 0x7F#32 ∧ getB x 1 &&& 0xC0#32 = 0xC0#32)
    c (sparcWord e pc v) = c v :=
  sparc_class e pc v

/-- non-vacuity: an ARM `bl`, an ARM64 `bl` and an in-range ADRP are really changed, an out-of-range ADRP is not -/
example : armWord true 0x1000#32 0xEB000010#32 = 0xEB000412#32 := by decide
example : arm64Word true 0x1000#32 0x94000001#32 = 0x94000401#32 := by decide
example : arm64Word true 0x5000#32 0x90000001#32 ≠ 0x90000001#32 := by decide
example : arm64Word true 0x5000#32 0x90800001#32 = 0x90800001#32 := by decide

/-! ## Fixed-width filters: whole buffers -/

/-- What "decode undoes encode on the whole buffer" means for a `*_code` function pair. -/
def RoundTrip (code : Bool → BitVec 32 → List UInt8 → List UInt8 × Nat) (align : Nat) : Prop :=
  ∀ (off : BitVec 32) (x : List UInt8), off.toNat % align = 0 →
    (code false off (code true off x).1).1 = x ∧ (code true off x).1.length = x.length
      ∧ (code false off (code true off x).1).2 = (code true off x).2

theorem arm_roundtrip : RoundTrip armCode 4 := by
  intro off x h
  have h4 : off &&& 3#32 = 0#32 := and_of_mod (k := 2) off (by omega) h
  exact blockCode_roundtrip3 (w := 4) (f := armWord true) (g := armWord false) (P := fun pc => pc &&& 3#32 = 0#32) al4_add4 arm_dec_enc off x h4

theorem arm64_roundtrip : RoundTrip arm64Code 4 := by
  intro off x _
  exact blockCode_roundtrip3 (w := 4) (f := arm64Word true) (g := arm64Word false) (P := fun _ => True) (fun _ _ => trivial)
    (fun pc v _ => arm64_dec_enc pc v) off x trivial

theorem powerpc_roundtrip : RoundTrip powerpcCode 4 := by
  intro off x h
  have h4 : off &&& 3#32 = 0#32 := and_of_mod (k := 2) off (by omega) h
  exact blockCode_roundtrip3 (w := 4) (f := powerpcWord true) (g := powerpcWord false) (P := fun pc => pc &&& 3#32 = 0#32) al4_add4 powerpc_dec_enc off x h4

theorem sparc_roundtrip : RoundTrip sparcCode 4 := by
  intro off x h
  have h4 : off &&& 3#32 = 0#32 := and_of_mod (k := 2) off (by omega) h
  exact blockCode_roundtrip3 (w := 4) (f := sparcWord true) (g := sparcWord false) (P := fun pc => pc &&& 3#32 = 0#32) al4_add4 sparc_dec_enc off x h4

/-- IA-64 per-bundle inverse: all 128-bit bundles, all templates, 16-byte aligned pc. -/
theorem ia64_bundle_inverse (pc : BitVec 32) (v : BitVec 128) (h : pc &&& 15#32 = 0#32) :
    ia64Bundle false pc (ia64Bundle true pc v) = v ∧ ia64Bundle true pc (ia64Bundle false pc v) = v := by
  simp only [ia64Bundle]
  rw [ia64_template true _ (ia64_mask_lt _) pc v, ia64_template false _ (ia64_mask_lt _) pc v]
  exact ⟨ia64_dec_enc _ (ia64_mask_lt _) pc v h, ia64_enc_dec _ (ia64_mask_lt _) pc v h⟩

theorem ia64_roundtrip : RoundTrip ia64Code 16 := by
  intro off x h
  have h16 : off &&& 15#32 = 0#32 := and_of_mod (k := 4) off (by omega) h
  exact blockCode_roundtrip3 (w := 16) (f := ia64Bundle true) (g := ia64Bundle false) (P := fun pc => pc &&& 15#32 = 0#32) al16_add16
    (fun pc v hp => (ia64_bundle_inverse pc v hp).1) off x h16

theorem armthumb_roundtrip : RoundTrip armthumbCode 2 := by
  intro off x h
  have h2 : off &&& 1#32 = 0#32 := and_of_mod (k := 1) off (by omega) h
  have := thumbGo_roundtrip x.length x off (Nat.le_refl _) h2
  simp only [armthumbCode]
  rw [this]
  exact ⟨rfl, thumbGo_length true x.length x off (Nat.le_refl _), rfl⟩

/-- The six filters with a fixed instruction grid: decode undoes encode on every buffer at every permitted start offset;
    the length never changes; both directions report the same processed count. -/
theorem bcj_fixed_roundtrip :
    RoundTrip armCode 4 ∧ RoundTrip armthumbCode 2 ∧ RoundTrip arm64Code 4 ∧ RoundTrip powerpcCode 4 ∧ RoundTrip sparcCode 4
      ∧ RoundTrip ia64Code 16 :=
  ⟨arm_roundtrip, armthumb_roundtrip, arm64_roundtrip, powerpc_roundtrip, sparc_roundtrip, ia64_roundtrip⟩

/-- processed = size rounded down to the block size (ARM, ARM64, PowerPC, SPARC: 4; IA-64: 16). -/
theorem bcj_fixed_processed (e : Bool) (off : BitVec 32) (x : List UInt8) :
    (armCode e off x).2 = x.length - x.length % 4 ∧ (arm64Code e off x).2 = x.length - x.length % 4
    ∧ (powerpcCode e off x).2 = x.length - x.length % 4 ∧ (sparcCode e off x).2 = x.length - x.length % 4
    ∧ (ia64Code e off x).2 = x.length - x.length % 16 :=
  ⟨blockCode_processed (w := 4) _ _ _, blockCode_processed (w := 4) _ _ _, blockCode_processed (w := 4) _ _ _,
   blockCode_processed (w := 4) _ _ _, blockCode_processed (w := 16) _ _ _⟩

/-- non-vacuity: a buffer with a BL at offset 4 and a 3-byte tail; start offset near 2^32 (wraps inside the buffer) -/
example : armCode true 0xFFFFFFFC#32 [1, 2, 3, 4, 0x10, 0, 0, 0xEB, 9, 9, 9] = ([1, 2, 3, 4, 0x12, 0, 0, 0xEB, 9, 9, 9], 8) := by
  decide +kernel
example : armthumbCode true 0#32 [0, 0xF0, 0, 0xF8, 1] = ([0, 0xF0, 2, 0xF8, 1], 4) := by decide +kernel

/-! ## Chunk stability (prefix-stability contract used by simple_coder.c) -/

/-- One call on `a ++ b` equals: a call on `a` (which leaves a tail unprocessed), then a call at `now_pos + processed` on
    (that tail) ++ `b`. The processed parts concatenate and the counts add up. -/
def ChunkStable (code : BitVec 32 → List UInt8 → List UInt8 × Nat) : Prop :=
  ∀ (off : BitVec 32) (a b : List UInt8),
    code off (a ++ b) =
      ((code off a).1.take (code off a).2 ++ (code (off + BitVec.ofNat 32 (code off a).2) ((code off a).1.drop (code off a).2 ++ b)).1,
       (code off a).2 + (code (off + BitVec.ofNat 32 (code off a).2) ((code off a).1.drop (code off a).2 ++ b)).2)

theorem bcj_chunk_stable (e : Bool) :
    ChunkStable (armCode e) ∧ ChunkStable (armthumbCode e) ∧ ChunkStable (arm64Code e) ∧ ChunkStable (powerpcCode e)
      ∧ ChunkStable (sparcCode e) ∧ ChunkStable (ia64Code e) :=
  ⟨fun off a b => blockCode_chunk (w := 4) (by omega) (armWord e) off a b,
   fun off a b => thumbGo_chunk e a.length a b off (Nat.le_refl _),
   fun off a b => blockCode_chunk (w := 4) (by omega) (arm64Word e) off a b,
   fun off a b => blockCode_chunk (w := 4) (by omega) (powerpcWord e) off a b,
   fun off a b => blockCode_chunk (w := 4) (by omega) (sparcWord e) off a b,
   fun off a b => blockCode_chunk (w := 16) (by omega) (ia64Bundle e) off a b⟩

end XzVerif.C15
