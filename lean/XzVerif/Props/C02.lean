/-
  C02 — encoder output is a valid instance of the published file formats; stored metadata is truthful; the bound
  functions are sufficient. Only property theorems and non-vacuity examples live here; helper lemmas are in Lemmas/.
-/
import XzVerif.Model.Container
import XzVerif.Gen.C02

namespace XzVerif.C02
open XzVerif XzVerif.Vli XzVerif.Container

/-! ## Gen bridges: what the source says today equals what the model assumes -/

/-- Every `#define`/macro limit the model uses has the value the headers and `.c` files give it. -/
theorem gen_constants :
    Gen.C02.LZMA_VLI_MAX = VLI_MAX ∧ Gen.C02.LZMA_VLI_UNKNOWN = VLI_UNKNOWN ∧ Gen.C02.LZMA_VLI_BYTES_MAX = VLI_BYTES_MAX
    ∧ Gen.C02.LZMA_STREAM_HEADER_SIZE = STREAM_HEADER_SIZE
    ∧ Gen.C02.LZMA_BACKWARD_SIZE_MIN = BACKWARD_SIZE_MIN ∧ Gen.C02.LZMA_BACKWARD_SIZE_MAX = BACKWARD_SIZE_MAX
    ∧ Gen.C02.UNPADDED_SIZE_MIN = UNPADDED_SIZE_MIN ∧ Gen.C02.UNPADDED_SIZE_MAX = UNPADDED_SIZE_MAX
    ∧ Gen.C02.LZMA_BLOCK_HEADER_SIZE_MIN = BLOCK_HEADER_SIZE_MIN ∧ Gen.C02.LZMA_BLOCK_HEADER_SIZE_MAX = BLOCK_HEADER_SIZE_MAX
    ∧ Gen.C02.LZMA_CHECK_ID_MAX = CHECK_ID_MAX ∧ Gen.C02.LZMA_CHECK_SIZE_MAX = CHECK_SIZE_MAX
    ∧ Gen.C02.LZMA_FILTERS_MAX = FILTERS_MAX ∧ Gen.C02.LZMA_FILTER_RESERVED_START = FILTER_RESERVED_START
    ∧ Gen.C02.INDEX_INDICATOR = INDEX_INDICATOR ∧ Gen.C02.COMPRESSED_SIZE_MAX = COMPRESSED_SIZE_MAX
    ∧ Gen.C02.LZMA2_CHUNK_MAX = LZMA2_CHUNK_MAX ∧ Gen.C02.LZMA2_UNCOMPRESSED_MAX = LZMA2_UNCOMPRESSED_MAX
    ∧ Gen.C02.LZMA2_HEADER_MAX = LZMA2_HEADER_MAX ∧ Gen.C02.LZMA2_HEADER_UNCOMPRESSED = LZMA2_HEADER_UNCOMPRESSED
    ∧ Gen.C02.BLOCK_HEADERS_BOUND = BLOCK_HEADERS_BOUND ∧ Gen.C02.INDEX_BOUND = INDEX_BOUND
    ∧ Gen.C02.STREAM_HEADERS_BOUND = STREAM_HEADERS_BOUND
    ∧ Gen.C02.LZMA_DICT_SIZE_MIN = DICT_SIZE_MIN ∧ Gen.C02.LZMA_LCLP_MAX = LCLP_MAX ∧ Gen.C02.LZMA_PB_MAX = PB_MAX
    ∧ Gen.C02.LZMA_DELTA_DIST_MIN = 1 ∧ Gen.C02.LZMA_DELTA_DIST_MAX = 256
    ∧ Gen.C02.SIZE_MAX_ = UINT64_MAX ∧ Gen.C02.UINT32_MAX_ = UINT32_MAX := by decide

theorem gen_filter_ids :
    Gen.C02.FILTER_LZMA1 = FILTER_LZMA1 ∧ Gen.C02.FILTER_LZMA1EXT = FILTER_LZMA1EXT ∧ Gen.C02.FILTER_LZMA2 = FILTER_LZMA2
    ∧ Gen.C02.FILTER_DELTA = FILTER_DELTA ∧ Gen.C02.FILTER_X86 = FILTER_X86 ∧ Gen.C02.FILTER_POWERPC = FILTER_POWERPC
    ∧ Gen.C02.FILTER_IA64 = FILTER_IA64 ∧ Gen.C02.FILTER_ARM = FILTER_ARM ∧ Gen.C02.FILTER_ARMTHUMB = FILTER_ARMTHUMB
    ∧ Gen.C02.FILTER_SPARC = FILTER_SPARC ∧ Gen.C02.FILTER_ARM64 = FILTER_ARM64 ∧ Gen.C02.FILTER_RISCV = FILTER_RISCV := by decide

/-- `Ret.toNat` is the numeric value of the C enumerator, in declaration order. -/
theorem gen_ret_values : Ret.all.map Ret.toNat = Gen.C02.retValues := by decide

theorem gen_magic :
    HEADER_MAGIC.map (·.toNat) = Gen.C02.headerMagic ∧ FOOTER_MAGIC.map (·.toNat) = Gen.C02.footerMagic := by decide

/-- `lzma_check_size` run for every Check ID 0..15 and for the invalid ID 16. -/
theorem gen_check_sizes : (List.range 17).map checkSize = Gen.C02.checkSizes := by decide

/-- The `features[]` table of filter_common.c (order, IDs and all three flags). -/
theorem gen_features :
    features.map (fun f => (f.id, f.nonLastOk, f.lastOk, f.changesSize)) = Gen.C02.features := by decide

/-- `lzma_properties_decode` for LZMA2 run on all 256 property bytes. -/
theorem gen_dict_decode : (List.range 256).map lzma2DictDecode = Gen.C02.dictDecodeTable := by decide +kernel

/-- `lzma_properties_decode` for LZMA1 run on all 256 first bytes. -/
theorem gen_lclppb_decode : (List.range 256).map lclppbDecode = Gen.C02.lclppbDecodeTable := by decide +kernel

/-- `lzma_properties_encode` for LZMA1 run on all lc, lp, pb in 0..5. -/
theorem gen_lclppb_encode :
    ((List.range 6).flatMap fun lc => (List.range 6).flatMap fun lp => (List.range 6).map fun pb => lclppbEncode lc lp pb)
      = Gen.C02.lclppbEncodeTable := by decide +kernel

/-- `lzma_properties_encode` for LZMA2 run on the boundary dictionary sizes. -/
theorem gen_dict_encode : Gen.C02.dictEncodeSamples.all (fun p => lzma2DictEncode p.1 == p.2) = true := by decide +kernel

theorem gen_delta_decode :
    Gen.C02.deltaDecodeSamples.all (fun p => match propsDecode FILTER_DELTA [UInt8.ofNat p.1] with
      | .ok (.delta d) => d == p.2
      | _ => false) = true := by
  decide +kernel

/-- The start-offset alignment each BCJ decoder enforces, found by running `lzma_raw_decoder`. -/
theorem gen_bcj_alignment : Gen.C02.bcjAlignments.all (fun p => bcjAlignment p.1 == p.2) = true := by decide

theorem gen_vli_size : Gen.C02.vliSizeSamples.all (fun p => vliSize p.1 == p.2) = true := by decide +kernel

/-- `lzma2_bound`, `lzma_block_buffer_bound64`, `lzma_stream_buffer_bound` run on the boundary grid (chunk multiples,
    powers of two, both overflow guards, 2^64−1). -/
theorem gen_bounds :
    Gen.C02.boundSamples.all (fun p => lzma2Bound p.1 == p.2.1 && blockBufferBound64 p.1 == p.2.2.1 && streamBufferBound p.1 == p.2.2.2) = true := by
  decide +kernel

end XzVerif.C02
