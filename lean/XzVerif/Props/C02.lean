/-
  C02 — encoder output is a valid instance of the published file formats; stored metadata is truthful; the bound
  functions are sufficient. Only property theorems and non-vacuity examples live here; helper lemmas are in Lemmas/.
-/
import XzVerif.Model.Container
import XzVerif.Model.XzStruct
import XzVerif.Gen.C02
import XzVerif.Lemmas.C02Vli
import XzVerif.Lemmas.C02Stream
import XzVerif.Lemmas.C02Dict
import XzVerif.Lemmas.C02Bound
import XzVerif.Lemmas.C02Filter
import XzVerif.Lemmas.C02Block
import XzVerif.Lemmas.C02Index
import XzVerif.Lemmas.C02Uncomp
import XzVerif.Model.XzEncode
import XzVerif.Lemmas.XzEncodeStd
import XzVerif.Lemmas.XzEncodeAlone

namespace XzVerif.C02
open XzVerif XzVerif.Vli XzVerif.Container XzVerif.XzDecode XzVerif.XzEncode

/-! ## Gen bridges: what the source says today equals what the model assumes -/

/-- Every `#define`/macro limit the model uses has the value the headers and `.c` files give it. -/
theorem gen_constants :
    Gen.C02.LZMA_VLI_MAX = VLI_MAX ∧ Gen.C02.LZMA_VLI_UNKNOWN = VLI_UNKNOWN ∧ Gen.C02.LZMA_VLI_BYTES_MAX = VLI_BYTES_MAX
    ∧ Gen.C02.LZMA_STREAM_HEADER_SIZE = STREAM_HEADER_SIZE
    ∧ Gen.C02.LZMA_BACKWARD_SIZE_MIN = BACKWARD_SIZE_MIN ∧ Gen.C02.LZMA_BACKWARD_SIZE_MAX = BACKWARD_SIZE_MAX
    ∧ Gen.C02.UNPADDED_SIZE_MIN = UNPADDED_SIZE_MIN ∧ Gen.C02.UNPADDED_SIZE_MAX = UNPADDED_SIZE_MAX
    ∧ Gen.C02.LZMA_BLOCK_HEADER_SIZE_MIN = BLOCK_HEADER_SIZE_MIN ∧ Gen.C02.LZMA_BLOCK_HEADER_SIZE_MAX = BLOCK_HEADER_SIZE_MAX
    ∧ Gen.C02.LZMA_CHECK_ID_MAX = CHECK_ID_MAX ∧ Gen.C02.LZMA_CHECK_SIZE_MAX = CHECK_SIZE_MAX
    ∧ Gen.C02.LZMA_FILTERS_MAX = FILTERS_MAX ∧ Gen.C02.LZMA_FILTER_RESERVED_START = FILTER_RESERVED_START
    ∧ Gen.C02.INDEX_INDICATOR = INDEX_INDICATOR ∧ Gen.C02.COMPRESSED_SIZE_MAX = COMPRESSED_SIZE_MAX
    ∧ Gen.C02.LZMA2_CHUNK_MAX = LZMA2_CHUNK_MAX ∧ Gen.C02.LZMA2_UNCOMPRESSED_MAX = LZMA2_UNCOMPRESSED_MAX
    ∧ Gen.C02.LZMA2_HEADER_MAX = LZMA2_HEADER_MAX ∧ Gen.C02.LZMA2_HEADER_UNCOMPRESSED = LZMA2_HEADER_UNCOMPRESSED
    ∧ Gen.C02.BLOCK_HEADERS_BOUND = BLOCK_HEADERS_BOUND ∧ Gen.C02.INDEX_BOUND = INDEX_BOUND
    ∧ Gen.C02.STREAM_HEADERS_BOUND = STREAM_HEADERS_BOUND
    ∧ Gen.C02.LZMA_DICT_SIZE_MIN = DICT_SIZE_MIN ∧ Gen.C02.LZMA_LCLP_MAX = LCLP_MAX ∧ Gen.C02.LZMA_PB_MAX = PB_MAX
    ∧ Gen.C02.LZMA_DELTA_DIST_MIN = 1 ∧ Gen.C02.LZMA_DELTA_DIST_MAX = 256
    ∧ Gen.C02.SIZE_MAX_ = UINT64_MAX ∧ Gen.C02.UINT32_MAX_ = UINT32_MAX := by decide

theorem gen_filter_ids :
    Gen.C02.FILTER_LZMA1 = FILTER_LZMA1 ∧ Gen.C02.FILTER_LZMA1EXT = FILTER_LZMA1EXT ∧ Gen.C02.FILTER_LZMA2 = FILTER_LZMA2
    ∧ Gen.C02.FILTER_DELTA = FILTER_DELTA ∧ Gen.C02.FILTER_X86 = FILTER_X86 ∧ Gen.C02.FILTER_POWERPC = FILTER_POWERPC
    ∧ Gen.C02.FILTER_IA64 = FILTER_IA64 ∧ Gen.C02.FILTER_ARM = FILTER_ARM ∧ Gen.C02.FILTER_ARMTHUMB = FILTER_ARMTHUMB
    ∧ Gen.C02.FILTER_SPARC = FILTER_SPARC ∧ Gen.C02.FILTER_ARM64 = FILTER_ARM64 ∧ Gen.C02.FILTER_RISCV = FILTER_RISCV := by decide

/-- `Ret.toNat` is the numeric value of the C enumerator, in declaration order. -/
theorem gen_ret_values : Ret.all.map Ret.toNat = Gen.C02.retValues := by decide

theorem gen_magic :
    HEADER_MAGIC.map (·.toNat) = Gen.C02.headerMagic ∧ FOOTER_MAGIC.map (·.toNat) = Gen.C02.footerMagic := by decide

/-- `lzma_check_size` run for every Check ID 0..15 and for the invalid ID 16. -/
theorem gen_check_sizes : (List.range 17).map checkSize = Gen.C02.checkSizes := by decide

/-- The `features[]` table of filter_common.c (order, IDs and all three flags). -/
theorem gen_features :
    features.map (fun f => (f.id, f.nonLastOk, f.lastOk, f.changesSize)) = Gen.C02.features := by decide

/-- `lzma_properties_decode` for LZMA2 run on all 256 property bytes. -/
theorem gen_dict_decode : (List.range 256).map lzma2DictDecode = Gen.C02.dictDecodeTable := by decide +kernel

/-- `lzma_properties_decode` for LZMA1 run on all 256 first bytes. -/
theorem gen_lclppb_decode : (List.range 256).map lclppbDecode = Gen.C02.lclppbDecodeTable := by decide +kernel

/-- `lzma_properties_encode` for LZMA1 run on all lc, lp, pb in 0..5. -/
theorem gen_lclppb_encode :
    ((List.range 6).flatMap fun lc => (List.range 6).flatMap fun lp => (List.range 6).map fun pb => lclppbEncode lc lp pb)
      = Gen.C02.lclppbEncodeTable := by decide +kernel

/-- `lzma_properties_encode` for LZMA2 run on the boundary dictionary sizes. -/
theorem gen_dict_encode : Gen.C02.dictEncodeSamples.all (fun p => lzma2DictEncode p.1 == p.2) = true := by decide +kernel

theorem gen_delta_decode :
    Gen.C02.deltaDecodeSamples.all (fun p => match propsDecode FILTER_DELTA [UInt8.ofNat p.1] with
      | .ok (.delta d) => d == p.2
      | _ => false) = true := by
  decide +kernel

/-- The start-offset alignment each BCJ decoder enforces, found by running `lzma_raw_decoder`. -/
theorem gen_bcj_alignment : Gen.C02.bcjAlignments.all (fun p => bcjAlignment p.1 == p.2) = true := by decide

theorem gen_vli_size : Gen.C02.vliSizeSamples.all (fun p => vliSize p.1 == p.2) = true := by decide +kernel

/-- `lzma2_bound`, `lzma_block_buffer_bound64`, `lzma_stream_buffer_bound` run on the boundary grid (chunk multiples,
    powers of two, both overflow guards, 2^64−1). -/
theorem gen_bounds :
    Gen.C02.boundSamples.all (fun p => lzma2Bound p.1 == p.2.1 && blockBufferBound64 p.1 == p.2.2.1 && streamBufferBound p.1 == p.2.2.2) = true := by
  decide +kernel

/-! ## Variable-length integers -/

/-- Decoding an encoded VLI gives the value back and leaves the rest of the buffer untouched. -/
theorem vli_roundtrip (v : Nat) (t : List UInt8) (h : v ≤ VLI_MAX) : vliDecode (vliEncode v ++ t) = some (v, t) :=
  vliDecode_encode v h t

/-- `lzma_vli_size` is the length of what `lzma_vli_encode` writes: 1 to 9 bytes. -/
theorem vli_size_eq_length (v : Nat) (h : v ≤ VLI_MAX) :
    (vliEncode v).length = vliSize v ∧ 1 ≤ vliSize v ∧ vliSize v ≤ VLI_BYTES_MAX :=
  ⟨vliEncode_length v h, vliSize_pos v h, vliSize_le v⟩

/-- No padded (non-minimal) or over-long encoding is accepted: whatever the decoder accepts is exactly the encoder's
    output for the decoded value, and that value is a valid VLI. -/
theorem vli_minimal (b t : List UInt8) (v : Nat) (h : vliDecode b = some (v, t)) : b = vliEncode v ++ t ∧ v ≤ VLI_MAX := by
  obtain ⟨h1, -, h3⟩ := vliDecodeAux_minimal b 0 v t (by omega) h
  refine ⟨h1, ?_⟩
  have : (128 : Nat) ^ (9 - 0) = 9223372036854775808 := by decide
  simp only [VLI_MAX]; omega

/-- Single-call `lzma_vli_encode` succeeds exactly when the value is valid and fits, and then writes `vliEncode v`. -/
theorem vli_encode_single (v avail : Nat) (b : List UInt8) (h : vliEncodeSingle v avail = .ok b) :
    b = vliEncode v ∧ v ≤ VLI_MAX ∧ b.length ≤ avail := vliEncodeSingle_ok v avail b h

/-- Multi-call mode (`lzma_vli_decode` with a `vli_pos`, as the Index and Block decoders use it) run over a whole
    buffer finishes an integer exactly when the single-call specification decoder accepts it, with the same value and
    the same number of bytes consumed. -/
theorem vli_multicall_agrees (inp : List UInt8) (v used : Nat) :
    (∃ p, vliDecLoop inp 0 0 0 = (.streamEnd, v, p, used)) ↔ (0 < used ∧ used ≤ inp.length ∧ vliDecode inp = some (v, inp.drop used)) := by
  constructor
  · rintro ⟨p, h⟩
    obtain ⟨h1, h2, h3, -⟩ := vliDecLoop_streamEnd inp v p used h
    exact ⟨h2, h3, h1⟩
  · rintro ⟨h0, hle, h⟩
    obtain ⟨hl, hlen⟩ := vliDecLoop_of_decodeAux inp 0 0 0 v (inp.drop used) h
    refine ⟨0 + (inp.length - (inp.drop used).length), ?_⟩
    rw [hl]
    simp only [Nat.zero_mul, Nat.shiftLeft_zero, Nat.zero_add, List.length_drop]
    have : inp.length - (inp.length - used) = used := by omega
    rw [this]

example : vliDecode (vliEncode 300 ++ [7]) = some (300, [7]) := by decide
example : vliDecode [0x80, 0x00] = none := by decide                       -- padded encoding of 0 is rejected
example : vliEncode VLI_MAX = [255, 255, 255, 255, 255, 255, 255, 255, 127] := by decide

/-! ## Stream Header / Stream Footer -/

/-- What `lzma_stream_header_encode` writes is 12 bytes that `lzma_stream_header_decode` maps back to the same flags. -/
theorem stream_header_roundtrip (f : StreamFlags) (b t : List UInt8) (h : streamHeaderEncode f = .ok b) :
    b.length = STREAM_HEADER_SIZE ∧ streamHeaderDecode (b ++ t) = .ok f := streamHeader_roundtrip f b t h

/-- Footer: the flags and the Backward Size (in bytes) come back exactly. -/
theorem stream_footer_roundtrip (f : StreamFlags) (bs : Nat) (b t : List UInt8) (h : streamFooterEncode f bs = .ok b) :
    b.length = STREAM_HEADER_SIZE ∧ streamFooterDecode (b ++ t) = .ok (f, bs) := streamFooter_roundtrip f bs b t h

example : ∃ b, streamHeaderEncode { check := 4 } = .ok b := ⟨_, rfl⟩
example : ∃ b, streamFooterEncode { check := 1 } 24 = .ok b := ⟨_, rfl⟩

/-! ## Filter Flags and Block Header -/

/-- `lzma_filter_flags_encode` followed by `lzma_filter_flags_decode`: same ID, the stored properties are the
    encoder's, they decode to the same options (LZMA2 dictionary size: to a size that covers the requested one), and
    the decoder consumes exactly the encoder's bytes. -/
theorem filter_flags_roundtrip (o : FilterOpts) (hw : o.wf) (avail : Nat) (bs : List UInt8)
    (h : filterFlagsEncodeOpts o avail = .ok bs) :
    ∃ props o', propsEncode o = .ok props ∧ bs = filterFlagsEncode ⟨o.id, props⟩ ∧ bs.length ≤ avail
      ∧ propsDecode o.id props = .ok o' ∧ decodesTo o o'
      ∧ ∀ t, filterFlagsDecode (bs ++ t) = .ok (⟨o.id, props⟩, t) := filterFlags_roundtrip o hw avail bs h

/-- `lzma_block_header_decode` reads back exactly the sizes and filters `lzma_block_header_encode` was given
    (any `header_size` the caller chose, any version ≤ 1). -/
theorem block_header_roundtrip (version hs check : Nat) (cs us : Option Nat) (fs : List FilterOpts) (b t : List UInt8)
    (hw : ∀ o ∈ fs, o.wf) (h : blockHeaderEncodeWith version hs check cs us fs = .ok b) :
    ∃ raws, Forall2 FilterMatches fs raws ∧
      blockHeaderDecode check (b ++ t) = .ok { compressedSize := cs, uncompressedSize := us, filters := raws } :=
  (blockHeader_roundtrip version hs check cs us fs b t hw h).2.2.2.2.2

/-- The Block Header is exactly as long as its first byte says, a multiple of four between 8 and 1024. -/
theorem header_size_truthful (version hs check : Nat) (cs us : Option Nat) (fs : List FilterOpts) (b : List UInt8)
    (hw : ∀ o ∈ fs, o.wf) (h : blockHeaderEncodeWith version hs check cs us fs = .ok b) :
    b.length = hs ∧ ((b.getD 0 0).toNat + 1) * 4 = b.length ∧ b.length % 4 = 0 ∧ 8 ≤ b.length ∧ b.length ≤ 1024 := by
  obtain ⟨h1, h2, h3, h4, h5, -⟩ := blockHeader_roundtrip version hs check cs us fs b [] hw h
  rw [h1]; exact ⟨rfl, h5, h2, h3, h4⟩

example : (blockHeaderEncode 4 (some 1000) (some 70000) [.bcj 4 0, .delta 3, .lzma2 8388608]).toOption.isSome = true := by
  decide +kernel

/-! ## Index -/

/-- `lzma_index_buffer_decode` returns the Records `lzma_index_buffer_encode` wrote (for any Records
    `lzma_index_append` accepts) and consumes exactly the Index field, whose size is `lzma_index_size`. -/
theorem index_roundtrip (rs : List IndexRecord) (a : IndexAcc) (t : List UInt8)
    (hlen : rs.length ≤ VLI_MAX) (h : indexAppendAll rs {} = .ok a) :
    indexDecode (indexEncode rs ++ t) = .ok (rs, t) ∧ (indexEncode rs).length = indexSize rs.length (indexListSize rs) :=
  Container.index_roundtrip rs a t hlen h

/-- The Index size is a multiple of four (so Backward Size can store it) and Index Padding is 0..3 bytes. -/
theorem index_size_aligned (count listSize : Nat) :
    indexSize count listSize % 4 = 0 ∧ indexPaddingSize count listSize ≤ 3 ∧
    indexSize count listSize = indexSizeUnpadded count listSize + indexPaddingSize count listSize := by
  simp only [indexSize, indexPaddingSize, ceil4]
  omega

example : (indexAppendAll [⟨100, 1000⟩, ⟨5, 0⟩] {}).toOption.isSome = true := by decide +kernel

/-! ## LZMA2 dictionary size and lc/lp/pb -/

/-- The dictionary size declared in the Block Header is never smaller than the one the encoder was configured with. -/
theorem lzma2_dict_covers (d : Nat) (h : d < 4294967296) :
    ∃ s, lzma2DictDecode (lzma2DictEncode d) = some s ∧ max d 4096 ≤ s ∧ s ≤ UINT32_MAX := lzma2Dict_covers d h

/-- Every valid dictionary-size byte is a fixed point: encoding the size it declares gives the byte back. -/
theorem lzma2_dict_codes_fixed :
    (List.range 41).all (fun c => match lzma2DictDecode c with
      | some d => lzma2DictEncode d == c
      | none => false) = true := by decide +kernel

theorem lclppb_roundtrip (lc lp pb b : Nat) :
    (lclppbEncode lc lp pb = some b → lclppbDecode b = some (lc, lp, pb)) ∧
    (lclppbDecode b = some (lc, lp, pb) → lclppbEncode lc lp pb = some b) :=
  ⟨lclppb_decode_encode lc lp pb b, lclppb_encode_decode b lc lp pb⟩

/-- Of the 225 bytes 0..224 exactly the 75 with lc + lp ≤ 4 are accepted; nothing above 224 is. -/
theorem lclppb_accepts_count : ((List.range 256).filter fun b => (lclppbDecode b).isSome).length = 75 := by decide +kernel

/-! ## Bound functions -/

/-- The bound functions return 0 exactly on their overflow guards: when the worst-case (uncompressed LZMA2 chunks)
    payload for `n` bytes would exceed COMPRESSED_SIZE_MAX. Otherwise `lzma2_bound` is that payload size exactly. -/
theorem bound_zero_iff_overflow (n : Nat) :
    (lzma2Bound n = 0 ↔ uncompressedChunksSize n > COMPRESSED_SIZE_MAX) ∧
    (blockBufferBound64 n = 0 ↔ lzma2Bound n = 0) ∧
    (streamBufferBound n = 0 ↔ blockBufferBound64 n = 0) ∧
    (lzma2Bound n ≠ 0 → lzma2Bound n = uncompressedChunksSize n) :=
  ⟨(lzma2Bound_spec n).1, blockBufferBound64_zero_iff n, (streamBufferBound_spec n).1, (lzma2Bound_spec n).2⟩

/-- No intermediate `uint64_t` expression of the bound functions wraps for an argument that passes the first guard. -/
theorem bound_no_wrap (n : Nat) (h : n ≤ COMPRESSED_SIZE_MAX) :
    n + LZMA2_CHUNK_MAX - 1 < 2 ^ 64 ∧
    (n + LZMA2_CHUNK_MAX - 1) / LZMA2_CHUNK_MAX * LZMA2_HEADER_UNCOMPRESSED + 1 < 2 ^ 64 ∧
    lzma2Bound n + 3 < 2 ^ 64 ∧ blockBufferBound64 n < 2 ^ 64 ∧ streamBufferBound n < 2 ^ 64 := bounds_no_wrap n h

/-- A Block that stores `n` bytes as uncompressed LZMA2 chunks (what every single-call encoder falls back to) fits in
    `lzma_block_buffer_bound64(n)`: Block Header (both size fields + the LZMA2 filter) + chunk headers + data + end
    marker + Block Padding + the largest Check. -/
theorem block_bound_sufficient (n check hs : Nat) (hb : lzma2Bound n ≠ 0) (hc : check ≤ CHECK_ID_MAX)
    (hh : blockHeaderSize 0 (some (lzma2Bound n)) (some n) [.lzma2 DICT_SIZE_MIN] = .ok hs) :
    hs + ceil4 (uncompressedChunksSize n) + checkSize check ≤ blockBufferBound64 n := by
  have hl2 := (lzma2Bound_spec n).2 hb
  have hcs := checkSize_le check (by simpa [CHECK_ID_MAX] using hc)
  have h1 := vliSize_le (lzma2Bound n)
  have h2 := vliSize_le n
  have hhs : hs ≤ 28 := by
    have hA : ∀ a, sizeOptVli true (some (lzma2Bound n)) = .ok a → a ≤ 9 := by
      intro a ha
      simp only [sizeOptVli] at ha
      split at ha
      · simp at ha
      · simp only [Except.ok.injEq] at ha; omega
    have hB : ∀ a, sizeOptVli false (some n) = .ok a → a ≤ 9 := by
      intro a ha
      simp only [sizeOptVli] at ha
      split at ha
      · simp at ha
      · simp only [Except.ok.injEq] at ha; omega
    unfold blockHeaderSize at hh
    rw [if_neg (by omega)] at hh
    cases ha : sizeOptVli true (some (lzma2Bound n)) with
    | error e => simp [ha] at hh
    | ok a =>
      cases hb' : sizeOptVli false (some n) with
      | error e => simp [ha, hb'] at hh
      | ok b =>
        have := hA a ha
        have := hB b hb'
        have hff : filterFlagsSize (.lzma2 DICT_SIZE_MIN) = .ok 3 := by decide
        simp [ha, hb', headerSizeFilters, hff, FILTERS_MAX] at hh
        omega
  rw [blockBufferBound64_eq, if_neg hb, ← hl2]
  unfold ceil4
  omega

/-- The LZMA2 stream `block_encode_uncompressed` writes (3-byte header per chunk of ≤ 64 KiB, data, end marker) has
    exactly the size `lzma2_bound` computes. -/
theorem uncompressed_chunks_length (data : List UInt8) :
    (lzma2UncompressedChunks data).length = uncompressedChunksSize data.length := lzma2UncompressedChunks_length data

/-- `lzma_block_uncomp_encode` — the fall-back every single-call encoder takes when the data does not compress —
    given `out_size − out_pos ≥ lzma_block_buffer_bound64(n) ≠ 0` succeeds (so never LZMA_BUF_ERROR) and writes at most
    `lzma_block_buffer_bound64(n)` bytes. (Check None/CRC32/CRC64; SHA-256 has the largest Check the bound already
    budgets for, but its digest is not modelled in this file.) -/
theorem block_uncomp_encode_fits (check : Nat) (data cv : List UInt8) (avail : Nat)
    (hcv : checkValue check data = some cv) (hb : blockBufferBound64 data.length ≠ 0)
    (ha : blockBufferBound64 data.length ≤ avail) :
    ∃ b, blockUncompEncode check data avail = .ok b ∧ b.length ≤ blockBufferBound64 data.length :=
  blockUncompEncode_fits check data cv avail hcv hb ha

example : (blockUncompEncode 1 [1, 2, 3] (blockBufferBound64 3)).toOption.isSome = true := by decide +kernel

/-- Every stored field of the Block that `lzma_block_uncomp_encode` writes is truthful: the header's first byte gives its
    length, it decodes to Compressed Size = real length of the LZMA2 data that follows, Uncompressed Size = input length,
    filter = LZMA2 with the minimum dictionary; then the chunks, 0–3 zero bytes to a multiple of four, and the Check of
    the input; and nothing is written past `out_size`. -/
theorem block_uncomp_encode_valid (check : Nat) (data b : List UInt8) (avail : Nat)
    (h : blockUncompEncode check data avail = .ok b) :
    ∃ hdr cv, checkValue check data = some cv ∧
      b = hdr ++ lzma2UncompressedChunks data ++ List.replicate ((4 - (lzma2UncompressedChunks data).length % 4) % 4) (0 : UInt8) ++ cv ∧
      hdr.length = ((hdr.getD 0 0).toNat + 1) * 4 ∧
      (∀ t, blockHeaderDecode check (hdr ++ t) = .ok { compressedSize := some (lzma2UncompressedChunks data).length,
                                                         uncompressedSize := some data.length,
                                                         filters := [⟨FILTER_LZMA2, [0x00]⟩] }) ∧
      b.length ≤ avail := blockUncompEncode_valid check data b avail h

/-! ## Whole containers: the encoder models of Model/XzEncode.lean against the decoder model of Model/XzDecode.lean

  `DE : XzDecode.Env` is the decoder side (raw filter-chain decoder, check function), `E : XzEncode.EncEnv` the encoder
  side (raw filter-chain encoder `encPayload`, `lzma_raw_encoder_init`'s verdict, check function).  Hypotheses:
    `hw`      the options are API values (`uint32_t` fields, IDs of the coder tables);
    `hchain`  `lzma_validate_chain` accepts the chain (the model's `rawInit` is a parameter and does not imply it);
    `hck`     both sides compute the same Check, `lzma_check_size` bytes long (`stdCheck_agrees`: true for Model/Check.lean);
    `hpc`     the PAYLOAD CONTRACT: the raw decoder, given the chain as the Block Header stores it, maps
              `encPayload chain x ++ anything` to `x`, stops by itself and reports exactly `|encPayload chain x|` bytes
              consumed (discharged for the concrete LZMA2 / delta / BCJ models in Props/C01EndToEnd.lean:
              `payload_contract_std_on` per input, `payload_contract_std`; inhabited for ALL inputs by the literal and run
              parsers in Props/C01EndToEndAll.lean: `c02_hypotheses_discharged_literal`);
    `huc`     the same for uncompressed LZMA2 chunks (only where the encoder can fall back to them;
              `C01E2E.uncomp_contract_std`).
  A Check ID the build does not support and every other failing initialisation make the encoder model return an error,
  so "`= .ok out`" covers "valid chain and supported check". -/

/-- **encoder_output_valid** (multi-call Stream encoder, `lzma_stream_encoder` + LZMA_FULL_FLUSH between the pieces +
    LZMA_FINISH).  Whatever the encoder model returns with LZMA_OK is, for every combination of decoder flags,
    (1) accepted by `lzma_stream_decoder` + `lzma_code(LZMA_FINISH)` with LZMA_STREAM_END, decoding to the concatenation of
    the pieces and consuming every byte, and therefore (2) an instance of the declarative grammar `ValidXz` (Stream Header
    with valid CRC32 and flags; per Block: a header whose size byte, filter flags and CRC32 are right, Compressed Data,
    zero Block Padding to a multiple of four, the Check of the data; an Index whose Records are exactly the Blocks'
    (Unpadded Size, Uncompressed Size) in order with zero padding and right CRC32; a footer whose Backward Size is the
    real Index size and whose flags equal the header's). -/
theorem encoder_output_valid (DE : Env) (E : EncEnv) (cfg : Cfg) (blocks : List (List UInt8)) (out : List UInt8)
    (fl : Flags) (cap n : Nat)
    (hw : ∀ o ∈ cfg.filters, o.wf) (hchain : validateChain (cfg.filters.map (·.id)) = .ok n)
    (hck : CheckAgrees DE E) (hpc : PayloadContract DE E cfg.filters)
    (henc : streamEncodeST E cfg blocks = .ok out) (hcap : blocks.flatten.length ≤ cap) :
    xzDecode DE fl out cap
      = { ret := .streamEnd, out := blocks.flatten, consumed := out.length, events := headerEvents DE fl cfg.check }
    ∧ ValidXz DE fl out cap blocks.flatten out.length := by
  have h := streamEncodeST_decodes DE E cfg blocks out fl cap n hw hchain hck hpc henc hcap
  refine ⟨h, ?_⟩
  have hv := validXz_of_xzDecode DE fl out cap (by rw [h])
  rw [h] at hv
  exact hv

/-- **encoder_output_valid** for the single-call encoders (`lzma_stream_buffer_encode`, `lzma_easy_buffer_encode`), including
    the case where the data did not compress and the Block was rewritten as uncompressed LZMA2 chunks under a header that
    names LZMA2 with the minimum dictionary; and nothing is written past `out_size`. -/
theorem encoder_output_valid_buffer (DE : Env) (E : EncEnv) (cfg : Cfg) (data out : List UInt8) (avail : Nat)
    (fl : Flags) (cap n : Nat)
    (hw : ∀ o ∈ cfg.filters, o.wf) (hchain : validateChain (cfg.filters.map (·.id)) = .ok n)
    (hck : CheckAgrees DE E) (hpc : PayloadContract DE E cfg.filters) (huc : UncompContract DE)
    (henc : streamBufferEncode E cfg data avail = .ok out) (hcap : data.length ≤ cap) :
    xzDecode DE fl out cap
      = { ret := .streamEnd, out := data, consumed := out.length, events := headerEvents DE fl cfg.check }
    ∧ ValidXz DE fl out cap data out.length ∧ out.length ≤ avail := by
  obtain ⟨h, hle⟩ := streamBufferEncode_decodes DE E cfg data out avail fl cap n hw hchain hck hpc huc henc hcap
  refine ⟨h, ?_, hle⟩
  have hv := validXz_of_xzDecode DE fl out cap (by rw [h])
  rw [h] at hv
  exact hv

/-- **encoder_output_valid** for the container part of the threaded encoder (`lzma_stream_encoder_mt`): Block Headers
    written late into space reserved from the largest possible size fields, a new Block every `blockSize` bytes and at
    every flush, uncompressed fall-back per Block. -/
theorem encoder_output_valid_mt (DE : Env) (E : EncEnv) (cfg : Cfg) (blockSize : Nat) (pieces : List (List UInt8))
    (out : List UInt8) (fl : Flags) (cap n : Nat)
    (hw : ∀ o ∈ cfg.filters, o.wf) (hchain : validateChain (cfg.filters.map (·.id)) = .ok n)
    (hck : CheckAgrees DE E) (hpc : PayloadContract DE E cfg.filters) (huc : UncompContract DE)
    (henc : streamEncodeMT E cfg blockSize pieces = .ok out) (hcap : pieces.flatten.length ≤ cap) :
    xzDecode DE fl out cap
      = { ret := .streamEnd, out := pieces.flatten, consumed := out.length, events := headerEvents DE fl cfg.check }
    ∧ ValidXz DE fl out cap pieces.flatten out.length := by
  have h := streamEncodeMT_decodes DE E cfg blockSize pieces out fl cap n hw hchain hck hpc huc henc hcap
  refine ⟨h, ?_⟩
  have hv := validXz_of_xzDecode DE fl out cap (by rw [h])
  rw [h] at hv
  exact hv

/-- Every Block the three encoders write is truthful on its own (`GoodBlock`: header decodes, size fields absent or equal
    to the real sizes, raw decoder stops at the end of the Compressed Data, zero padding, Check of the data), and the value
    handed to `lzma_index_append` is the Block's real Unpadded Size. -/
theorem encoder_block_truthful (DE : Env) (E : EncEnv) (check : Nat) (fs : List FilterOpts) (n : Nat)
    (hw : ∀ o ∈ fs, o.wf) (hchain : validateChain (fs.map (·.id)) = .ok n)
    (hck : CheckAgrees DE E) (hpc : PayloadContract DE E fs) (huc : UncompContract DE) (data : List UInt8) (b : BlockOut) :
    (blockEncodeST E check fs data = .ok b → GoodBlock DE check data b.bytes b.unpadded ∧ b.uncompressed = data.length) ∧
    (∀ tc avail, blockBufferEncode E tc check fs data avail = .ok b →
        GoodBlock DE check data b.bytes b.unpadded ∧ b.uncompressed = data.length) ∧
    (∀ bs, blockEncodeMT E check fs bs data = .ok b → GoodBlock DE check data b.bytes b.unpadded ∧ b.uncompressed = data.length) :=
  ⟨blockEncodeST_good DE E check fs n hw hchain hck hpc data b,
   fun tc avail => blockBufferEncode_good DE E tc check fs n hw hchain hck hpc huc data avail b,
   fun bs => blockEncodeMT_good DE E check fs n hw hchain hck hpc huc bs data b⟩

/-- `.lzma`: the 13-byte header `lzma_alone_encoder` writes is read back by `lzma_alone_decoder` as the same lc/lp/pb, the
    stored (rounded-up) dictionary size and "uncompressed size unknown", and the file decodes to the input. -/
theorem alone_output_valid (P : Alone.Payload) (E : EncEnv) (lc lp pb dict : Nat) (data out : List UInt8) (cfg : Alone.Cfg)
    (hd : dict < 4294967296) (hnp : cfg.picky = false)
    (hmem : cfg.memK + aloneDictField dict ≤ Alone.effMemlimit cfg.memlimit)
    (hpc : P (Alone.aloneOpts lc lp pb (aloneDictField dict) Alone.UNKNOWN64)
              (E.encPayload [.lzma1 FILTER_LZMA1 lc lp pb dict] data)
            = ⟨.streamEnd, data, (E.encPayload [.lzma1 FILTER_LZMA1 lc lp pb dict] data).length⟩)
    (h : aloneEncode E lc lp pb dict data = .ok out) :
    Alone.aloneDecode P cfg out = { ret := .streamEnd, out := data, consumed := out.length } :=
  aloneEncode_decodes P E lc lp pb dict data out cfg hd hnp hmem hpc h

/-- The integrity checks of Model/Check.lean meet `CheckAgrees`: the encoder's function IS the one the standard decoder
    environment `XzEnv.stdEnv` compares against, and it returns 0 / 4 / 8 / 32 bytes for None / CRC32 / CRC64 / SHA-256. -/
theorem stdCheck_agrees (enc : List FilterOpts → List UInt8 → List UInt8) (rawInit : List FilterOpts → Ret) :
    CheckAgrees XzEnv.stdEnv { encPayload := enc, rawInit := rawInit, check := stdCheck } :=
  ⟨fun _ _ => rfl, stdCheck_len rawInit enc⟩

-- The payload contract is satisfiable: a toy self-delimiting coder (`01 b` per byte, `00` at the end) meets it for every chain …
example (fs : List FilterOpts) : PayloadContract toyDE toyE fs := toy_contract fs
example : CheckAgrees toyDE toyE := toy_checkAgrees
-- … the other hypotheses hold for the default chain, and the encoder model does return LZMA_OK (a 3-byte piece, an empty
-- piece that creates no Block, a 1-byte piece; CRC32) with a file the decoder model accepts:
example : (∀ o ∈ [FilterOpts.lzma2 8388608], o.wf) ∧ validateChain ([FilterOpts.lzma2 8388608].map (·.id)) = .ok 1 :=
  ⟨by intro o ho; simp only [List.mem_singleton] at ho; subst ho; simp [FilterOpts.wf], by decide⟩
example : (match streamEncodeST toyE ⟨1, [.lzma2 8388608]⟩ [[0x61, 0x62, 0x63], [], [0x64]] with
    | .ok out => (xzDecode toyDE {} out).ret == .streamEnd && (xzDecode toyDE {} out).out == [0x61, 0x62, 0x63, 0x64]
        && out.length == 80
    | .error _ => false) = true := by decide +kernel
-- an empty input gives the 32-byte empty Stream (tests/files/good-0-empty.xz)
example : streamEncodeST toyE ⟨1, [.lzma2 8388608]⟩ [] = .ok
    [0xfd, 0x37, 0x7a, 0x58, 0x5a, 0x00, 0x00, 0x01, 0x69, 0x22, 0xde, 0x36, 0x00, 0x00, 0x00, 0x00, 0x1c, 0xdf, 0x44, 0x21,
     0x90, 0x42, 0x99, 0x0d, 0x01, 0x00, 0x00, 0x00, 0x00, 0x01, 0x59, 0x5a] := by decide +kernel

/-- `lzma_stream_buffer_bound(n)` = Block bound + both 12-byte headers + the largest possible one-Record Index;
    a one-Record Index never needs more than INDEX_BOUND, an empty one needs 8 bytes. -/
theorem stream_bound_sufficient_partial (n u c : Nat) (hb : streamBufferBound n ≠ 0) :
    streamBufferBound n = blockBufferBound64 n + 2 * STREAM_HEADER_SIZE + INDEX_BOUND ∧
    indexSize 1 (vliSize u + vliSize c) ≤ INDEX_BOUND ∧ indexSize 0 0 ≤ INDEX_BOUND :=
  ⟨(streamBufferBound_spec n).2 hb, indexSize_one_le u c, by decide⟩

/-- **stream_bound_sufficient.**  With `out_size = lzma_stream_buffer_bound(n) ≠ 0` the single-call Stream encoder model
    (`lzma_stream_buffer_encode`: Stream Header, `lzma_block_buffer_encode` with its fall-back to uncompressed LZMA2 chunks
    when the raw encoder's output does not fit into min(space left, `lzma2_bound(n)`), Index, Stream Footer) never returns
    LZMA_BUF_ERROR — for ANY payload encoder and any `lzma_raw_encoder_init` verdict; the only requirements are that the
    options are API values and that the check function returns `lzma_check_size` bytes.  (Where the margin comes from: a
    Block Header of a ≤ 4-filter chain is ≤ 48 bytes, a supported Check ≤ 32 bytes, HEADERS_BOUND budgets 92; the
    fall-back header is ≤ 28 bytes; a one-Record Index is ≤ INDEX_BOUND.) -/
theorem stream_bound_sufficient (E : EncEnv) (cfg : Cfg) (data : List UInt8)
    (hw : ∀ o ∈ cfg.filters, o.wf) (hckl : CheckLen E) (hb : streamBufferBound data.length ≠ 0) :
    Res.ret (streamBufferEncode E cfg data (streamBufferBound data.length)) ≠ Ret.bufError :=
  streamBufferEncode_no_bufError E cfg data hw hckl hb

/-- The Block step alone: with at least `lzma_block_buffer_bound64(n)` bytes `lzma_block_buffer_encode` /
    `lzma_block_uncomp_encode` never answer LZMA_BUF_ERROR, and the Block written is at least 12 bytes shorter than the bound. -/
theorem block_bound_sufficient_encoder (E : EncEnv) (tc : Bool) (check : Nat) (fs : List FilterOpts) (data : List UInt8)
    (avail : Nat) (hw : ∀ o ∈ fs, o.wf) (hckl : CheckLen E) (hl0 : blockBufferBound64 data.length ≠ 0)
    (ha : blockBufferBound64 data.length ≤ avail) :
    (∀ e, blockBufferEncode E tc check fs data avail = .error e → e ≠ .bufError) ∧
    (∀ b, blockBufferEncode E tc check fs data avail = .ok b → b.bytes.length + 12 ≤ blockBufferBound64 data.length) :=
  blockBufferEncode_at_bound E tc check fs data avail hw hckl
    (fun h0 => hl0 ((blockBufferBound64_zero_iff _).2 h0)) ha

/-- The model of `lzma_block_uncomp_encode` in Model/XzEncode.lean and the earlier one in Model/Container.lean
    (`blockUncompEncode`, tied to the C function by the `buenc` correspondence) are the same function wherever the latter
    is defined (Check None / CRC32 / CRC64 with the reference CRCs). -/
example : (blockBufferEncode toyE false 1 [] [1, 2, 3] 40).toOption.map (·.bytes) = (blockUncompEncode 1 [1, 2, 3] 40).toOption := by
  decide +kernel

example : lzma2Bound 65537 = 65544 ∧ blockBufferBound64 65537 = 65636 ∧ streamBufferBound 65537 = 65684 := by decide
example : blockHeaderSize 0 (some (lzma2Bound 65537)) (some 65537) [.lzma2 DICT_SIZE_MIN] = .ok 16 := by decide

end XzVerif.C02
