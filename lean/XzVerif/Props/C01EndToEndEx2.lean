/-
  C01 end to end: two more kernel-evaluated instances (see Props/C01EndToEndEx.lean):
    * single-call encoder without Check where the LZMA2 stream fits (20 bytes → 15);
    * .lzma with lc/lp/pb = 3/0/2 and a 64 KiB dictionary.
-/
import XzVerif.Props.C01EndToEndEx

namespace XzVerif.C01E2E
open XzVerif XzVerif.Container XzVerif.XzDecode XzVerif.XzEncode XzVerif.XzEncEnv XzVerif.XzEnv XzVerif.E2E
open XzVerif.LzmaEnc XzVerif.Lzma2Enc

/-! ### single-call encoder, no Check: the LZMA2 stream fits -/

def ex4Cfg : Cfg := { check := 0, filters := [.lzma2 4096] }

def ex4Out : List UInt8 :=
  [253, 55, 122, 88, 90, 0, 0, 0, 255, 18, 217, 65, 2, 192, 15, 20, 33, 1, 0, 0, 100, 102, 96, 150, 224, 0, 19,
   0, 7, 0, 0, 48, 217, 67, 192, 0, 0, 0, 0, 0, 0, 1, 27, 20, 204, 170, 106, 147, 6, 114, 158, 122, 1, 0, 0, 0, 0, 0, 89,
   90]

theorem ex4_payload : rawEncodeK exP ex2Parser ex4Cfg.filters (aaa 20) = some [224, 0, 19, 0, 7, 0, 0, 48, 217, 67, 192, 0, 0, 0, 0] := by
  decide +kernel

theorem ex4Out_table :
    streamBufferEncode (tableEnv exP [(aaa 20, [224, 0, 19, 0, 7, 0, 0, 48, 217, 67, 192, 0, 0, 0, 0])]) ex4Cfg (aaa 20) 200
      = .ok ex4Out := by decide +kernel

theorem ex4_roundtrip :
    streamBufferEncode (stdEncEnv exP ex2Parser) ex4Cfg (aaa 20) 200 = .ok ex4Out ∧
    xzDecode stdEnv {} ex4Out = { ret := .streamEnd, out := aaa 20, consumed := ex4Out.length,
                                  events := headerEvents stdEnv {} ex4Cfg.check } := by
  obtain ⟨hacc, henc⟩ := buffer_of_table exP ex2Parser ex4Cfg (aaa 20) _ 200 ex4_payload
  have he : streamBufferEncode (stdEncEnv exP ex2Parser) ex4Cfg (aaa 20) 200 = .ok ex4Out := by rw [henc]; exact ex4Out_table
  exact ⟨he, (xz_roundtrip_std_buffer exP ex2Parser ex4Cfg (aaa 20) ex4Out 200 {} UNLIMITED (by decide)
    (fun _ => ⟨hacc, fun h => by simp [ex4Cfg, isX86] at h⟩) he (by decide)).1⟩

/-! ### .lzma (`lzma1Encode` uses `for` loops: the kernel evaluates it directly; only "it returns LZMA_OK" is evaluated) -/

def ex5Parser : Parser := fun _ _ _ => #[{ kind := 0, back := 4, len := 8, pos := 1, ra := 0 }]

def ex5Cfg : Alone.Cfg := { picky := false, memlimit := 1073741824, memK := 100000 }

theorem ex5_roundtrip :
    ∃ out, aloneEncode (stdEncEnv exP ex5Parser) 3 0 2 65536 (aaa 9) = .ok out ∧
      Alone.aloneDecode C16.lzmaPayload ex5Cfg out = { ret := .streamEnd, out := aaa 9, consumed := out.length } := by
  obtain ⟨out, hout⟩ := exists_of_isSome (aloneEncode (stdEncEnv exP ex5Parser) 3 0 2 65536 (aaa 9)) (by decide +kernel)
  exact ⟨out, hout, alone_roundtrip_std exP ex5Parser 3 0 2 65536 (aaa 9) out ex5Cfg rfl (by decide)
    (exists_of_isSome _ (by decide +kernel)) (by decide) hout⟩

end XzVerif.C01E2E
