/-
  C13 — the Index and file-info APIs describe files exactly; random access is correct.
  Only property theorems and non-vacuity examples live here; helper lemmas are in Lemmas/Index*.lean.

  Models: `Spec` = list-of-records specification (Model/IndexSpec.lean), `Impl` = concrete model of index.c
  (Model/IndexImpl.lean, trees/groups/cumulative sums), `Impl.abs` the abstraction, `Impl.Inv` the representation
  invariant, `Hist` the op histories (Lemmas/IndexHist.lean). The tie of `Impl` to the C code is the correspondence
  run by tools/props/c13.py plus the `gen_*` bridges below.
-/
import XzVerif.Model.IndexSpec
import XzVerif.Model.IndexImpl
import XzVerif.Model.FileInfo
import XzVerif.Gen.C13
import XzVerif.Lemmas.IndexHist
import XzVerif.Lemmas.IndexLocate
import XzVerif.Lemmas.IndexCodec

namespace XzVerif.C13
open XzVerif.Index

/-! ### Bridges to the regenerated `Gen.C13` (constants, sizeof, kernels tabulated by running the real code) -/

/-- constants of index.c / index.h / the API headers as compiled today equal the model's -/
theorem gen_constants :
    Gen.C13.indexGroupSize = INDEX_GROUP_SIZE ∧ Gen.C13.sizeofIndexStream = SIZEOF_INDEX_STREAM
    ∧ Gen.C13.sizeofIndexGroup = SIZEOF_INDEX_GROUP ∧ Gen.C13.sizeofIndexRecord = SIZEOF_INDEX_RECORD
    ∧ Gen.C13.sizeofLzmaIndex = SIZEOF_LZMA_INDEX ∧ Gen.C13.sizeofVoidPtr = SIZEOF_VOID_PTR
    ∧ Gen.C13.preallocMax = PREALLOC_MAX ∧ Gen.C13.vliMax = VLI_MAX ∧ Gen.C13.vliUnknown = VLI_UNKNOWN
    ∧ Gen.C13.vliBytesMax = VLI_BYTES_MAX ∧ Gen.C13.unpaddedSizeMin = UNPADDED_SIZE_MIN
    ∧ Gen.C13.unpaddedSizeMax = UNPADDED_SIZE_MAX ∧ Gen.C13.backwardSizeMin = BACKWARD_SIZE_MIN
    ∧ Gen.C13.backwardSizeMax = BACKWARD_SIZE_MAX ∧ Gen.C13.streamHeaderSize = STREAM_HEADER_SIZE
    ∧ Gen.C13.checkIdMax = CHECK_ID_MAX ∧ Gen.C13.uint32Max = UINT32_MAX ∧ Gen.C13.sizeMax = U64 - 1
    ∧ Gen.C13.indexIndicator = 0 ∧ Gen.C13.headerMagic = headerMagic.map (·.toNat) := by decide

/-- the `lzma_ret` values and iterator modes the model and the driver use -/
theorem gen_ret_codes :
    Gen.C13.retOk = Ret.ok.toNat ∧ Gen.C13.retStreamEnd = Ret.streamEnd.toNat ∧ Gen.C13.retMemError = Ret.memError.toNat
    ∧ Gen.C13.retMemlimitError = Ret.memlimitError.toNat ∧ Gen.C13.retFormatError = Ret.formatError.toNat
    ∧ Gen.C13.retOptionsError = Ret.optionsError.toNat ∧ Gen.C13.retDataError = Ret.dataError.toNat
    ∧ Gen.C13.retBufError = Ret.bufError.toNat ∧ Gen.C13.retProgError = Ret.progError.toNat
    ∧ Gen.C13.retSeekNeeded = Ret.seekNeeded.toNat
    ∧ Gen.C13.iterModeAny = 0 ∧ Gen.C13.iterModeStream = 1 ∧ Gen.C13.iterModeBlock = 2
    ∧ Gen.C13.iterModeNonemptyBlock = 3 := by decide

theorem gen_vli_size : Gen.C13.vliSizeSamples.all (fun p => vliSize p.1 == p.2) = true := by decide
theorem gen_vli_ceil4 : Gen.C13.ceil4Samples.all (fun p => vliCeil4 p.1 == p.2) = true := by decide +kernel
theorem gen_index_size : Gen.C13.indexSizeSamples.all (fun p =>
    indexSizeUnpadded p.1 p.2.1 == p.2.2.1 && indexSize p.1 p.2.1 == p.2.2.2.1 && indexPadding p.1 p.2.1 == p.2.2.2.2) = true := by
  decide +kernel
theorem gen_index_stream_size : Gen.C13.streamSizeSamples.all (fun p => indexStreamSize p.1 p.2.1 p.2.2.1 == p.2.2.2) = true := by
  decide +kernel
theorem gen_index_file_size : Gen.C13.fileSizeSamples.all (fun p =>
    indexFileSize p.1 p.2.1 p.2.2.1 p.2.2.2.1 p.2.2.2.2.1 == p.2.2.2.2.2) = true := by decide +kernel
theorem gen_index_memusage : Gen.C13.memusageSamples.all (fun p => memusage p.1 p.2.1 == p.2.2) = true := by decide +kernel

/-- the REAL `index_tree_append` builds trees of the same shape as the model's (height and size of the root's left
    subtree after n sequential appends, n around every 2^k and 3·2^k up to 1025) -/
theorem gen_tree_shape : Gen.C13.treeShapeSamples.all (fun p => treeShape p.1 == p) = true := by decide +kernel

/-! ### Arithmetic kernels -/

/-- `vli_ceil4`: the next multiple of four -/
theorem vli_ceil4_spec (v : Nat) : vliCeil4 v % 4 = 0 ∧ v ≤ vliCeil4 v ∧ vliCeil4 v < v + 4 :=
  ⟨vliCeil4_mod v, vliCeil4_ge v, vliCeil4_lt v⟩

/-- `lzma_vli_size` is the number of bytes `lzma_vli_encode` produces, between 1 and 9 for every valid VLI -/
theorem vli_size_spec (v : Nat) (h : v ≤ VLI_MAX) :
    vliSize v = (vliEncode v).length ∧ 1 ≤ vliSize v ∧ vliSize v ≤ VLI_BYTES_MAX :=
  ⟨vliSize_eq_length h, vliSize_pos h, vliSize_le_nine h⟩

/-- decoding an encoded VLI gives the value back and consumes exactly its bytes (whatever follows) -/
theorem vli_roundtrip (v : Nat) (h : v ≤ VLI_MAX) (rest : List UInt8) :
    vliDecodeGo (vliEncode v ++ rest) 0 0 0 = .done v (vliEncode v).length := by
  simpa using vliDecode_encode h rest 0

/-! ### tree_append_inorder -/

/-- `index_tree_append`: the in-order sequence is the insertion order and the count is the number of nodes
    (for every count, i.e. whatever rotation the count selects) -/
theorem tree_append_inorder {α : Type} (t : CTree α) (x : α) :
    (t.append x).toList = t.toList ++ [x] ∧ (t.append x).count = t.count + 1 :=
  ⟨CTree.toList_append t x, CTree.count_append t x⟩

/-- full-strength height statement: after n sequential appends the height is at most ⌊log₂ n⌋ + 1 -/
def tree_append_height_statement : Prop := ∀ n : Nat, balancedUpTo n = true

/-- partial: checked by kernel evaluation for every node count up to 2100 (covers 2^k ± 1 for k ≤ 11); after each append
    height ≤ ⌊log₂ count⌋ + 1 and size = count. Missing: the induction over the count-driven rotation for all n.
    (Parent links are not part of the functional model.) -/
theorem tree_append_height_partial : balancedUpTo 2100 = true := by decide +kernel

/-! ### limits_atomic -/

/-- specification: a failing append/stream_flags/stream_padding/cat leaves the index unchanged -/
theorem limits_atomic_spec (i s : Index) (u c p : Nat) (f : StreamFlags) :
    ((Spec.append i u c).1 ≠ .ok → (Spec.append i u c).2 = i)
    ∧ ((Spec.streamFlags i f).1 ≠ .ok → (Spec.streamFlags i f).2 = i)
    ∧ ((Spec.streamPadding i p).1 ≠ .ok → (Spec.streamPadding i p).2 = i)
    ∧ ((Spec.cat i s).1 ≠ .ok → (Spec.cat i s).2 = i) :=
  ⟨Spec.append_atomic i u c, Spec.streamFlags_atomic i f, Spec.streamPadding_atomic i p, Spec.cat_atomic i s⟩

/-- concrete model: the same, including `lzma_index_stream_padding` which temporarily writes the padding and
    `lzma_index_append` whose checks all precede the first modification (also on allocation failure) -/
theorem limits_atomic (i s : Impl.Index) (hi : Impl.Inv i) (hs : Impl.Inv s) (u c p : Nat) (f : StreamFlags) :
    ((Impl.append i u c).1 ≠ .ok → (Impl.append i u c).2 = i)
    ∧ ((Impl.streamFlags i f).1 ≠ .ok → (Impl.streamFlags i f).2 = i)
    ∧ ((Impl.streamPadding i p).1 ≠ .ok → (Impl.streamPadding i p).2 = i)
    ∧ ((Impl.cat i s).1 ≠ .ok → (Impl.cat i s).2 = i) :=
  ⟨Impl.append_atomic i u c, Impl.streamFlags_atomic i f, (Impl.streamPadding_refines hi p).2.2.2,
   (Impl.cat_refines hi hs).2.2.2⟩

/-- successful operations never leave the format limits (`Spec.Valid`: Unpadded Sizes in [5, UNPADDED_SIZE_MAX],
    sizes ≤ LZMA_VLI_MAX, file size and total uncompressed size ≤ LZMA_VLI_MAX, padding multiple of 4, valid flags):
    an operation that would exceed one of them must therefore have failed -/
theorem limits_preserved (i s : Index) (hi : Spec.Valid i) (hs : Spec.Valid s) (u c p : Nat) (f : StreamFlags) :
    Spec.Valid Spec.init
    ∧ Spec.Valid (Spec.append i u c).2 ∧ Spec.Valid (Spec.streamFlags i f).2
    ∧ Spec.Valid (Spec.streamPadding i p).2 ∧ Spec.Valid (Spec.cat i s).2 := by
  refine ⟨Spec.valid_init, ?_, ?_, ?_, ?_⟩
  · by_cases h : (Spec.append i u c).1 = .ok
    · exact Spec.append_valid hi (Prod.ext h rfl)
    · rw [Spec.append_atomic i u c h]; exact hi
  · by_cases h : (Spec.streamFlags i f).1 = .ok
    · exact Spec.streamFlags_valid hi (Prod.ext h rfl)
    · rw [Spec.streamFlags_atomic i f h]; exact hi
  · by_cases h : (Spec.streamPadding i p).1 = .ok
    · exact Spec.streamPadding_valid hi (Prod.ext h rfl)
    · rw [Spec.streamPadding_atomic i p h]; exact hi
  · by_cases h : (Spec.cat i s).1 = .ok
    · exact Spec.cat_valid hi hs (Prod.ext h rfl)
    · rw [Spec.cat_atomic i s h]; exact hi

/-- the size of the combined Index field stays within Backward Size after a successful append -/
theorem append_respects_backward_size (i : Index) (u c : Nat) (h : (Spec.append i u c).1 = .ok) :
    indexSize (Spec.blockCount i + 1) (Spec.listSizeAll i + (vliSize u + vliSize c)) ≤ BACKWARD_SIZE_MAX := by
  have hc := (Spec.append_ok_eq (Prod.ext h rfl : Spec.append i u c = (.ok, (Spec.append i u c).2))).1
  unfold Spec.appendCheck at hc
  split at hc; · simp at hc
  split at hc; · simp at hc
  dsimp only at hc
  split at hc; · simp at hc
  split at hc; · simp at hc
  split at hc; · simp at hc
  split at hc
  · simp at hc
  · next h5 => omega

/-! ### index_refines_spec -/

/-- For every history of init/append/stream_flags/stream_padding/cat/dup (sizes over all naturals, failing calls
    included; `h.impl = some i` excludes only histories in which an allocation failed): the abstraction of the concrete
    state is the specification state, the representation invariant holds, and every scalar getter agrees. -/
theorem index_refines_spec (h : Hist) (i : Impl.Index) (hi : h.impl = some i) :
    Impl.abs i = h.spec ∧ Impl.Inv i
    ∧ Impl.streamCount i = Spec.streamCount h.spec ∧ Impl.blockCount i = Spec.blockCount h.spec
    ∧ Impl.indexSizeAll i = Spec.indexSizeAll h.spec ∧ Impl.streamSize i = Spec.streamSize h.spec
    ∧ i.totalSize = Spec.totalSize h.spec ∧ Impl.fileSize i = Spec.fileSize h.spec
    ∧ i.uncompressedSize = Spec.uncompressedSize h.spec ∧ Impl.checks i = Spec.checks h.spec
    ∧ Impl.memused i = Spec.memused h.spec ∧ Impl.paddingSize i = Spec.paddingSize h.spec := by
  obtain ⟨ha, hinv⟩ := Hist.refines h i hi
  have := Impl.getters_refine hinv
  rw [ha] at this
  exact ⟨ha, hinv, this⟩

/-- the return code of every operation agrees too (allocation failure of append apart) -/
theorem index_refines_spec_ret (i s : Impl.Index) (hi : Impl.Inv i) (hs : Impl.Inv s) (u c p : Nat) (f : StreamFlags) :
    ((Impl.append i u c).1 = .memError ∨ (Impl.append i u c).1 = (Spec.append (Impl.abs i) u c).1)
    ∧ (Impl.streamFlags i f).1 = (Spec.streamFlags (Impl.abs i) f).1
    ∧ (Impl.streamPadding i p).1 = (Spec.streamPadding (Impl.abs i) p).1
    ∧ (Impl.cat i s).1 = (Spec.cat (Impl.abs i) (Impl.abs s)).1 := by
  refine ⟨?_, (Impl.streamFlags_refines hi f).1, (Impl.streamPadding_refines hi p).1, (Impl.cat_refines hi hs).1⟩
  rcases Impl.append_refines hi u c with h | h
  · left; rw [h]
  · right; exact h.1

/-- `lzma_index_buffer_decode` / `lzma_index_decoder` on arbitrary bytes (valid, truncated, corrupt, hostile sizes):
    the concrete decoder (appending to trees/groups) answers exactly like the decoder over the list-of-records
    specification — same lzma_ret, same number of consumed bytes, same memory figure, and on success an index whose
    abstraction is the specification's result and that satisfies the invariant (so it can start a history). -/
theorem index_refines_spec_decode (memlimit : Nat) (bs : List UInt8) :
    (Impl.decode memlimit bs).ret = .memError
    ∨ ((Impl.decode memlimit bs).ret = (Spec.decode memlimit bs).ret
       ∧ (Impl.decode memlimit bs).used = (Spec.decode memlimit bs).used
       ∧ (Impl.decode memlimit bs).memNeeded = (Spec.decode memlimit bs).memNeeded
       ∧ (Impl.decode memlimit bs).index.map Impl.abs = (Spec.decode memlimit bs).index
       ∧ ∀ i, (Impl.decode memlimit bs).index = some i → Impl.Inv i) :=
  Impl.decode_refines memlimit bs

/-- full-strength iterator/locate part of the refinement: the concrete iterator (tree positions, ITER_METHOD_*
    indirection, binary search) shows exactly what the specification iterator shows -/
def index_refines_spec_iter_statement : Prop :=
  ∀ (h : Hist) (i : Impl.Index), h.impl = some i →
    (∀ mode, Impl.iterAll i mode = Spec.iterAll h.spec mode)
    ∧ (∀ t, (Impl.iterLocate i t).map (·.2) = Spec.locate h.spec t)

/-- partial: on concrete histories (evaluated by the kernel); the general proof needs group bases / number bases in
    `Impl.Inv` and an induction over `nextLoop`. The model driver additionally checks this equality at run time on
    every `iter`/`locate`/`inext` op of the correspondence (answer gets " SPECDIFF" otherwise). -/
theorem index_refines_spec_iter_partial :
    let h : Hist := .cat (.padding (.flags (.append (.append (.append .init 39 100) 57 0) 81 50) ⟨0, VLI_UNKNOWN, 1⟩) 8)
                         (.dup (.append (.cat .init (.append .init 9 0)) 5 7))
    ∃ i, h.impl = some i ∧ (∀ mode ∈ [0, 1, 2, 3, 4], Impl.iterAll i mode = Spec.iterAll h.spec mode)
      ∧ (∀ t ∈ [0, 99, 100, 149, 150, 156, 157], (Impl.iterLocate i t).map (·.2) = Spec.locate h.spec t) := by
  decide +kernel

/-! ### locate_unique -/

/-- `lzma_index_iter_locate` on the list of records: for `target < uncompressed size` it returns a Block that contains
    `target` (so it is non-empty), and no other Block contains `target`; otherwise it fails -/
theorem locate_unique (i : Index) (t : Nat) :
    (t < Spec.uncompressedSize i → ∃ p, Spec.locatePos i t = some p ∧ Spec.Contains i p.1 p.2 t
        ∧ ∀ si bi, Spec.Contains i si bi t → si = p.1 ∧ bi = p.2)
    ∧ (Spec.uncompressedSize i ≤ t → Spec.locatePos i t = none) := by
  refine ⟨fun h => ?_, Spec.locatePos_none⟩
  obtain ⟨p, hp⟩ := Spec.locatePos_some h
  have hc := Spec.locatePos_contains hp
  exact ⟨p, hp, hc, fun si bi h' => Spec.contains_unique h' hc⟩

/-! ### iter_visits_once (statement + partial) and index_codec_roundtrip -/

/-- full strength: in every mode (a) calling `next` on the specification iterator until it fails shows exactly the
    listing `Spec.iterAll` (every Stream / Block / non-empty Block once, in file order, offsets = prefix sums), and
    (b) the concrete iterator shows the same, also when the index is the destination of a `cat` between two calls -/
def iter_visits_once_statement : Prop :=
  ∀ (h : Hist) (i : Impl.Index), h.impl = some i → ∀ mode : Nat,
    ((Spec.iterSeq h.spec mode (Spec.iterFuel h.spec) none).filterMap fun p => Spec.infoAt h.spec p.1 p.2) = Spec.iterAll h.spec mode
    ∧ Impl.iterAll i mode = Spec.iterAll h.spec mode

/-- partial (kernel evaluation on a concrete multi-Stream index with empty Streams and empty Blocks, all mode values):
    the persistent iterator returns the listing; BLOCK mode visits every Block once in order with consecutive numbers;
    NONEMPTY_BLOCK skips the empty ones; STREAM visits every Stream. Missing: the general induction (the model driver
    checks both equalities at run time on every iter/inext op of the correspondence). -/
theorem iter_visits_once_partial :
    let i : Index := [⟨none, 0, [⟨5, 0⟩, ⟨6, 3⟩]⟩, ⟨none, 4, []⟩, ⟨some ⟨0, 8, 4⟩, 0, [⟨7, 0⟩, ⟨9, 9⟩, ⟨5, 0⟩]⟩, ⟨none, 0, []⟩]
    (∀ mode ∈ [0, 1, 2, 3, 4, 5],
      ((Spec.iterSeq i mode (Spec.iterFuel i) none).filterMap fun p => Spec.infoAt i p.1 p.2) = Spec.iterAll i mode)
    ∧ (Spec.iterAll i 2).filterMap (fun x => x.block.map fun b => (⟨b.unpaddedSize, b.uncompressedSize⟩ : Block)) = Spec.allBlocks i
    ∧ (Spec.iterAll i 2).filterMap (fun x => x.block.map (·.numberInFile)) = [1, 2, 3, 4, 5]
    ∧ (Spec.iterAll i 3).filterMap (fun x => x.block.map (·.uncompressedFileOffset)) = [0, 3]
    ∧ (Spec.iterAll i 1).map (·.stream.number) = [1, 2, 3, 4]
    ∧ (Spec.iterAll i 0).length = 7 ∧ Spec.iterAll i 4 = [] := by decide +kernel

/-- partial: an iterator survives a `cat` performed between two `next` calls (the last group of the destination is
    reallocated by the C code; the ITER_METHOD_* indirection of the model's iterator is what this exercises) -/
theorem iter_survives_cat_partial :
    let d := (Impl.append (Impl.append Impl.init 10 5).2 12 6).2
    let s := (Impl.append Impl.init 9 7).2
    let c := (Impl.cat d s).2
    ∃ it1 it2 it3 x1 x2 x3,
      Impl.iterNext d Impl.Iter.rewind 2 = some (it1, x1) ∧ Impl.iterNext d it1 2 = some (it2, x2)
      ∧ Impl.iterNext c it2 2 = some (it3, x3) ∧ Impl.iterNext c it3 2 = none
      ∧ [x1, x2, x3] = Spec.iterAll (Impl.abs c) 2 := by
  refine ⟨_, _, _, _, _, _, rfl, rfl, rfl, ?_, ?_⟩ <;> decide +kernel

/-- Decoding the encoded Index field of a valid single-Stream index gives that index back (Stream Flags and Stream
    Padding are not part of the Index field), for every list of Blocks within the format limits: the decoder answers
    LZMA_STREAM_END, consumes exactly `lzma_index_size` bytes (= the encoder's output length, padding and CRC32
    included) and every `lzma_index_append` on the way succeeds. -/
theorem index_codec_roundtrip (bs : List Block) (hv : Spec.Valid [⟨none, 0, bs⟩])
    (hb : indexSize bs.length (listSize bs) ≤ BACKWARD_SIZE_MAX) :
    Spec.encode [⟨none, 0, bs⟩] = encodeBlocks bs
    ∧ (Spec.decode (U64 - 1) (encodeBlocks bs)).ret = .streamEnd
    ∧ (Spec.decode (U64 - 1) (encodeBlocks bs)).index = some [⟨none, 0, bs⟩]
    ∧ (Spec.decode (U64 - 1) (encodeBlocks bs)).used = indexSize bs.length (listSize bs)
    ∧ (encodeBlocks bs).length = indexSize bs.length (listSize bs) :=
  ⟨by simp [Spec.encode, Spec.allBlocks], decode_encode (blocksOk_of_valid hv hb)⟩

/-- concrete instances covering every VLI length boundary (also shows the hypotheses are satisfiable) -/
example :
    ∀ bs ∈ ([[], [⟨5, 0⟩], [⟨127, 128⟩, ⟨16383, 16384⟩, ⟨2097152, 268435455⟩],
             [⟨34359738368, 4398046511103⟩, ⟨562949953421312, 72057594037927935⟩, ⟨5, 72057594037927936⟩]] : List (List Block)),
      (Spec.decode (U64 - 1) (encodeBlocks bs)).ret = .streamEnd
      ∧ (Spec.decode (U64 - 1) (encodeBlocks bs)).index = some [⟨none, 0, bs⟩] := by decide +kernel

/-! ### non-vacuity -/

/-- the hypotheses of the refinement theorems are satisfiable: a history with every kind of op evaluates -/
example : (Hist.cat (.padding (.flags (.append .init 39 100) ⟨0, VLI_UNKNOWN, 1⟩) 8) (.dup (.append .init 5 7))).impl.isSome = true := by
  decide +kernel

/-- limits do bite: an append that would push the file size over LZMA_VLI_MAX fails and changes nothing -/
example : Spec.append [⟨none, VLI_MAX - 39, []⟩] 8 0 = (.dataError, [⟨none, VLI_MAX - 39, []⟩]) := by decide +kernel
example : (Spec.append [⟨none, VLI_MAX - 43, []⟩] 8 0).1 = .ok := by decide +kernel

/-- locate: the Block after an empty Block is found -/
example : Spec.locatePos [⟨none, 0, [⟨5, 10⟩, ⟨6, 0⟩, ⟨7, 4⟩]⟩] 10 = some (0, 2) := by decide +kernel

/-- Stream Header / Footer of tests/files/good-0-empty.xz decode to Check CRC32 and Backward Size 8 -/
example : (match headerDecode [0xFD, 0x37, 0x7A, 0x58, 0x5A, 0x00, 0x00, 0x01, 0x69, 0x22, 0xDE, 0x36] with
           | .ok c => c == 1 | .error _ => false) = true
    ∧ (match footerDecode [0x90, 0x42, 0x99, 0x0D, 0x01, 0x00, 0x00, 0x00, 0x00, 0x01, 0x59, 0x5A] with
       | .ok p => p == (1, 8) | .error _ => false) = true := by
  decide +kernel

end XzVerif.C13
