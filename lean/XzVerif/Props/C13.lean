/-
  C13 — the Index and file-info APIs describe files exactly; random access is correct.
  Only property theorems and non-vacuity examples live here; helper lemmas are in Lemmas/Index*.lean.

  Models: `Spec` = list-of-records specification (Model/IndexSpec.lean), `Impl` = concrete model of index.c
  (Model/IndexImpl.lean, trees/groups/cumulative sums), `Impl.abs` the abstraction, `Impl.Inv` the representation
  invariant, `Hist` the op histories (Lemmas/IndexHist.lean). The tie of `Impl` to the C code is the correspondence
  run by tools/props/c13.py plus the `gen_*` bridges below.
-/
import XzVerif.Model.IndexSpec
import XzVerif.Model.IndexImpl
import XzVerif.Model.FileInfo
import XzVerif.Gen.C13
import XzVerif.Lemmas.IndexHist
import XzVerif.Lemmas.IndexLocate
import XzVerif.Lemmas.IndexCodec
import XzVerif.Lemmas.IndexIterAll
import XzVerif.Lemmas.IndexIterStable
import XzVerif.Lemmas.IndexTreeBalance
import XzVerif.Lemmas.FileInfoMain
import XzVerif.Lemmas.RandomAccessIndex
import XzVerif.Lemmas.RandomAccessAccept
import XzVerif.Lemmas.RandomAccessExample
import XzVerif.Lemmas.XzStd

namespace XzVerif.C13
open XzVerif.Index

/-! ### Bridges to the regenerated `Gen.C13` (constants, sizeof, kernels tabulated by running the real code) -/

/-- constants of index.c / index.h / the API headers as compiled today equal the model's -/
theorem gen_constants :
    Gen.C13.indexGroupSize = INDEX_GROUP_SIZE ∧ Gen.C13.sizeofIndexStream = SIZEOF_INDEX_STREAM
    ∧ Gen.C13.sizeofIndexGroup = SIZEOF_INDEX_GROUP ∧ Gen.C13.sizeofIndexRecord = SIZEOF_INDEX_RECORD
    ∧ Gen.C13.sizeofLzmaIndex = SIZEOF_LZMA_INDEX ∧ Gen.C13.sizeofVoidPtr = SIZEOF_VOID_PTR
    ∧ Gen.C13.preallocMax = PREALLOC_MAX ∧ Gen.C13.vliMax = VLI_MAX ∧ Gen.C13.vliUnknown = VLI_UNKNOWN
    ∧ Gen.C13.vliBytesMax = VLI_BYTES_MAX ∧ Gen.C13.unpaddedSizeMin = UNPADDED_SIZE_MIN
    ∧ Gen.C13.unpaddedSizeMax = UNPADDED_SIZE_MAX ∧ Gen.C13.backwardSizeMin = BACKWARD_SIZE_MIN
    ∧ Gen.C13.backwardSizeMax = BACKWARD_SIZE_MAX ∧ Gen.C13.streamHeaderSize = STREAM_HEADER_SIZE
    ∧ Gen.C13.checkIdMax = CHECK_ID_MAX ∧ Gen.C13.uint32Max = UINT32_MAX ∧ Gen.C13.sizeMax = U64 - 1
    ∧ Gen.C13.indexIndicator = 0 ∧ Gen.C13.headerMagic = headerMagic.map (·.toNat) := by decide

/-- the `lzma_ret` values and iterator modes the model and the driver use -/
theorem gen_ret_codes :
    Gen.C13.retOk = Ret.ok.toNat ∧ Gen.C13.retStreamEnd = Ret.streamEnd.toNat ∧ Gen.C13.retMemError = Ret.memError.toNat
    ∧ Gen.C13.retMemlimitError = Ret.memlimitError.toNat ∧ Gen.C13.retFormatError = Ret.formatError.toNat
    ∧ Gen.C13.retOptionsError = Ret.optionsError.toNat ∧ Gen.C13.retDataError = Ret.dataError.toNat
    ∧ Gen.C13.retBufError = Ret.bufError.toNat ∧ Gen.C13.retProgError = Ret.progError.toNat
    ∧ Gen.C13.retSeekNeeded = Ret.seekNeeded.toNat
    ∧ Gen.C13.iterModeAny = 0 ∧ Gen.C13.iterModeStream = 1 ∧ Gen.C13.iterModeBlock = 2
    ∧ Gen.C13.iterModeNonemptyBlock = 3 := by decide

theorem gen_vli_size : Gen.C13.vliSizeSamples.all (fun p => vliSize p.1 == p.2) = true := by decide
theorem gen_vli_ceil4 : Gen.C13.ceil4Samples.all (fun p => vliCeil4 p.1 == p.2) = true := by decide +kernel
theorem gen_index_size : Gen.C13.indexSizeSamples.all (fun p =>
    indexSizeUnpadded p.1 p.2.1 == p.2.2.1 && indexSize p.1 p.2.1 == p.2.2.2.1 && indexPadding p.1 p.2.1 == p.2.2.2.2) = true := by
  decide +kernel
theorem gen_index_stream_size : Gen.C13.streamSizeSamples.all (fun p => indexStreamSize p.1 p.2.1 p.2.2.1 == p.2.2.2) = true := by
  decide +kernel
theorem gen_index_file_size : Gen.C13.fileSizeSamples.all (fun p =>
    indexFileSize p.1 p.2.1 p.2.2.1 p.2.2.2.1 p.2.2.2.2.1 == p.2.2.2.2.2) = true := by decide +kernel
theorem gen_index_memusage : Gen.C13.memusageSamples.all (fun p => memusage p.1 p.2.1 == p.2.2) = true := by decide +kernel

/-- the REAL `index_tree_append` builds trees of the same shape as the model's (height and size of the root's left
    subtree after n sequential appends, n around every 2^k and 3·2^k up to 1025) -/
theorem gen_tree_shape : Gen.C13.treeShapeSamples.all (fun p => treeShape p.1 == p) = true := by decide +kernel

/-! ### Arithmetic kernels -/

/-- `vli_ceil4`: the next multiple of four -/
theorem vli_ceil4_spec (v : Nat) : vliCeil4 v % 4 = 0 ∧ v ≤ vliCeil4 v ∧ vliCeil4 v < v + 4 :=
  ⟨vliCeil4_mod v, vliCeil4_ge v, vliCeil4_lt v⟩

/-- `lzma_vli_size` is the number of bytes `lzma_vli_encode` produces, between 1 and 9 for every valid VLI -/
theorem vli_size_spec (v : Nat) (h : v ≤ VLI_MAX) :
    vliSize v = (vliEncode v).length ∧ 1 ≤ vliSize v ∧ vliSize v ≤ VLI_BYTES_MAX :=
  ⟨vliSize_eq_length h, vliSize_pos h, vliSize_le_nine h⟩

/-- decoding an encoded VLI gives the value back and consumes exactly its bytes (whatever follows) -/
theorem vli_roundtrip (v : Nat) (h : v ≤ VLI_MAX) (rest : List UInt8) :
    vliDecodeGo (vliEncode v ++ rest) 0 0 0 = .done v (vliEncode v).length := by
  simpa using vliDecode_encode h rest 0

/-! ### tree_append_inorder -/

/-- `index_tree_append`: the in-order sequence is the insertion order and the count is the number of nodes
    (for every count, i.e. whatever rotation the count selects) -/
theorem tree_append_inorder {α : Type} (t : CTree α) (x : α) :
    (t.append x).toList = t.toList ++ [x] ∧ (t.append x).count = t.count + 1 :=
  ⟨CTree.toList_append t x, CTree.count_append t x⟩

/-- **Balance of `index_tree_append` for every node count** (the count is a `uint32_t`; the model's `ctz32` is the
    32-bit one, hence the bound). `CTree.Shaped t` describes the tree after `t.count` sequential appends exactly: with
    `k = ⌊log₂ count⌋` the right spine has `k + 1` nodes, the left subtree of the spine node at bit position `p`
    (`p = k-1 … 0` from the root down) is a perfect tree of height `p + bit_p(count)`, the last spine node has no
    children. The empty tree has the shape; `index_tree_append` keeps it whatever the count (insert at the right end,
    and — unless the count becomes a power of two — one left rotation `ctz(count) + 2` parents up, a binary carry that
    merges two perfect subtrees of equal height); updating the last node keeps it; and the shape gives
    height ≤ ⌊log₂ count⌋ + 1. (Parent links are not part of the functional model.) -/
theorem tree_append_height {α : Type} (t : CTree α) (x : α) (f : α → α) (h : CTree.Shaped t) (hlt : t.count + 1 < 2 ^ 32) :
    CTree.Shaped (CTree.empty : CTree α)
    ∧ CTree.Shaped (t.append x)
    ∧ CTree.Shaped ⟨t.root.modifyRightmost f, t.count⟩
    ∧ t.root.height ≤ Nat.log2 t.count + 1
    ∧ (t.append x).root.height ≤ Nat.log2 (t.count + 1) + 1 := by
  have h' := CTree.shaped_append h x hlt
  refine ⟨CTree.shaped_empty, h', CTree.shaped_modifyRightmost h f, CTree.shaped_height h, ?_⟩
  have := CTree.shaped_height h'
  rwa [CTree.count_append] at this

/-- the evaluated balance test (after each of `n` appends to the empty tree: node count right and
    height ≤ ⌊log₂ count⌋ + 1) succeeds for every `n < 2^32` -/
theorem tree_append_height_all (n : Nat) (h : n < 2 ^ 32) : balancedUpTo n = true :=
  balancedGo_of_shaped n CTree.empty CTree.shaped_empty rfl (by simpa [CTree.empty] using h)

/-! ### limits_atomic -/

/-- specification: a failing append/stream_flags/stream_padding/cat leaves the index unchanged -/
theorem limits_atomic_spec (i s : Index) (u c p : Nat) (f : StreamFlags) :
    ((Spec.append i u c).1 ≠ .ok → (Spec.append i u c).2 = i)
    ∧ ((Spec.streamFlags i f).1 ≠ .ok → (Spec.streamFlags i f).2 = i)
    ∧ ((Spec.streamPadding i p).1 ≠ .ok → (Spec.streamPadding i p).2 = i)
    ∧ ((Spec.cat i s).1 ≠ .ok → (Spec.cat i s).2 = i) :=
  ⟨Spec.append_atomic i u c, Spec.streamFlags_atomic i f, Spec.streamPadding_atomic i p, Spec.cat_atomic i s⟩

/-- concrete model: the same, including `lzma_index_stream_padding` which temporarily writes the padding and
    `lzma_index_append` whose checks all precede the first modification (also on allocation failure) -/
theorem limits_atomic (i s : Impl.Index) (hi : Impl.Inv i) (hs : Impl.Inv s) (u c p : Nat) (f : StreamFlags) :
    ((Impl.append i u c).1 ≠ .ok → (Impl.append i u c).2 = i)
    ∧ ((Impl.streamFlags i f).1 ≠ .ok → (Impl.streamFlags i f).2 = i)
    ∧ ((Impl.streamPadding i p).1 ≠ .ok → (Impl.streamPadding i p).2 = i)
    ∧ ((Impl.cat i s).1 ≠ .ok → (Impl.cat i s).2 = i) :=
  ⟨Impl.append_atomic i u c, Impl.streamFlags_atomic i f, (Impl.streamPadding_refines hi p).2.2.2,
   (Impl.cat_refines hi hs).2.2.2⟩

/-- successful operations never leave the format limits (`Spec.Valid`: Unpadded Sizes in [5, UNPADDED_SIZE_MAX],
    sizes ≤ LZMA_VLI_MAX, file size and total uncompressed size ≤ LZMA_VLI_MAX, padding multiple of 4, valid flags):
    an operation that would exceed one of them must therefore have failed -/
theorem limits_preserved (i s : Index) (hi : Spec.Valid i) (hs : Spec.Valid s) (u c p : Nat) (f : StreamFlags) :
    Spec.Valid Spec.init
    ∧ Spec.Valid (Spec.append i u c).2 ∧ Spec.Valid (Spec.streamFlags i f).2
    ∧ Spec.Valid (Spec.streamPadding i p).2 ∧ Spec.Valid (Spec.cat i s).2 := by
  refine ⟨Spec.valid_init, ?_, ?_, ?_, ?_⟩
  · by_cases h : (Spec.append i u c).1 = .ok
    · exact Spec.append_valid hi (Prod.ext h rfl)
    · rw [Spec.append_atomic i u c h]; exact hi
  · by_cases h : (Spec.streamFlags i f).1 = .ok
    · exact Spec.streamFlags_valid hi (Prod.ext h rfl)
    · rw [Spec.streamFlags_atomic i f h]; exact hi
  · by_cases h : (Spec.streamPadding i p).1 = .ok
    · exact Spec.streamPadding_valid hi (Prod.ext h rfl)
    · rw [Spec.streamPadding_atomic i p h]; exact hi
  · by_cases h : (Spec.cat i s).1 = .ok
    · exact Spec.cat_valid hi hs (Prod.ext h rfl)
    · rw [Spec.cat_atomic i s h]; exact hi

/-- the size of the combined Index field stays within Backward Size after a successful append -/
theorem append_respects_backward_size (i : Index) (u c : Nat) (h : (Spec.append i u c).1 = .ok) :
    indexSize (Spec.blockCount i + 1) (Spec.listSizeAll i + (vliSize u + vliSize c)) ≤ BACKWARD_SIZE_MAX := by
  have hc := (Spec.append_ok_eq (Prod.ext h rfl : Spec.append i u c = (.ok, (Spec.append i u c).2))).1
  unfold Spec.appendCheck at hc
  split at hc; · simp at hc
  split at hc; · simp at hc
  dsimp only at hc
  split at hc; · simp at hc
  split at hc; · simp at hc
  split at hc; · simp at hc
  split at hc
  · simp at hc
  · next h5 => omega

/-! ### index_refines_spec -/

/-- For every history of init/append/stream_flags/stream_padding/cat/dup (sizes over all naturals, failing calls
    included; `h.impl = some i` excludes only histories in which an allocation failed): the abstraction of the concrete
    state is the specification state, the representation invariant holds, and every scalar getter agrees. -/
theorem index_refines_spec (h : Hist) (i : Impl.Index) (hi : h.impl = some i) :
    Impl.abs i = h.spec ∧ Impl.Inv i
    ∧ Impl.streamCount i = Spec.streamCount h.spec ∧ Impl.blockCount i = Spec.blockCount h.spec
    ∧ Impl.indexSizeAll i = Spec.indexSizeAll h.spec ∧ Impl.streamSize i = Spec.streamSize h.spec
    ∧ i.totalSize = Spec.totalSize h.spec ∧ Impl.fileSize i = Spec.fileSize h.spec
    ∧ i.uncompressedSize = Spec.uncompressedSize h.spec ∧ Impl.checks i = Spec.checks h.spec
    ∧ Impl.memused i = Spec.memused h.spec ∧ Impl.paddingSize i = Spec.paddingSize h.spec := by
  obtain ⟨ha, hinv⟩ := Hist.refines h i hi
  have := Impl.getters_refine hinv
  rw [ha] at this
  exact ⟨ha, hinv, this⟩

/-- the return code of every operation agrees too (allocation failure of append apart) -/
theorem index_refines_spec_ret (i s : Impl.Index) (hi : Impl.Inv i) (hs : Impl.Inv s) (u c p : Nat) (f : StreamFlags) :
    ((Impl.append i u c).1 = .memError ∨ (Impl.append i u c).1 = (Spec.append (Impl.abs i) u c).1)
    ∧ (Impl.streamFlags i f).1 = (Spec.streamFlags (Impl.abs i) f).1
    ∧ (Impl.streamPadding i p).1 = (Spec.streamPadding (Impl.abs i) p).1
    ∧ (Impl.cat i s).1 = (Spec.cat (Impl.abs i) (Impl.abs s)).1 := by
  refine ⟨?_, (Impl.streamFlags_refines hi f).1, (Impl.streamPadding_refines hi p).1, (Impl.cat_refines hi hs).1⟩
  rcases Impl.append_refines hi u c with h | h
  · left; rw [h]
  · right; exact h.1

/-- `lzma_index_buffer_decode` / `lzma_index_decoder` on arbitrary bytes (valid, truncated, corrupt, hostile sizes):
    the concrete decoder (appending to trees/groups) answers exactly like the decoder over the list-of-records
    specification — same lzma_ret, same number of consumed bytes, same memory figure, and on success an index whose
    abstraction is the specification's result and that satisfies the invariant (so it can start a history). -/
theorem index_refines_spec_decode (memlimit : Nat) (bs : List UInt8) :
    (Impl.decode memlimit bs).ret = .memError
    ∨ ((Impl.decode memlimit bs).ret = (Spec.decode memlimit bs).ret
       ∧ (Impl.decode memlimit bs).used = (Spec.decode memlimit bs).used
       ∧ (Impl.decode memlimit bs).memNeeded = (Spec.decode memlimit bs).memNeeded
       ∧ (Impl.decode memlimit bs).index.map Impl.abs = (Spec.decode memlimit bs).index
       ∧ ∀ i, (Impl.decode memlimit bs).index = some i → Impl.Inv i) :=
  Impl.decode_refines memlimit bs

/-- Iterator / locate part of the refinement, for every history: a full iteration of the CONCRETE iterator (tree
    positions, groups, Records as cumulative sums, the ITER_METHOD_* indirection) in any mode shows exactly the
    specification's listing, and the concrete `lzma_index_iter_locate` (descent in the Stream tree, descent in the group
    tree, binary search over the cumulative sums) shows exactly what the specification's `locate` shows. -/
theorem index_refines_spec_iter (h : Hist) (i : Impl.Index) (hi : h.impl = some i) :
    (∀ mode, Impl.iterAll i mode = Spec.iterAll h.spec mode)
    ∧ (∀ t, (Impl.iterLocate i t).map (·.2) = Spec.locate h.spec t) := by
  obtain ⟨ha, hinv⟩ := Hist.refines h i hi
  exact ⟨fun mode => by rw [← ha]; exact Impl.iterAll_refines hinv mode,
         fun t => by rw [← ha]; exact Impl.iterLocate_refines hinv t⟩

/-- one `lzma_index_iter_next` at a time, any mode per call (modes may be mixed), from any iterator state reachable by
    `rewind`/`next`/`locate` (`IterOk`, `IterCanon`): the concrete call fails iff the specification's `next` fails from
    the iterator's position, and otherwise lands on the position the specification lands on and publishes exactly the
    specification's fields (numbers, offsets = prefix sums, sizes, flags, padding) for it; the new iterator is again of
    that kind. Fresh iterators and the iterators set by `lzma_index_iter_locate` are of that kind. -/
theorem iter_next_refines_spec (h : Hist) (i : Impl.Index) (hi : h.impl = some i) :
    (Impl.IterOk i Impl.Iter.rewind ∧ Impl.IterCanon i Impl.Iter.rewind ∧ Impl.specPos i Impl.Iter.rewind = none)
    ∧ (∀ t it info, Impl.iterLocate i t = some (it, info) → Impl.IterOk i it ∧ Impl.IterCanon i it)
    ∧ ∀ it, Impl.IterOk i it → ∀ mode,
        (Impl.iterNext i it mode = none →
          Spec.iterNextPos h.spec mode (Spec.iterFuel h.spec) (Impl.specPos i it) = none)
        ∧ ∀ it' info, Impl.iterNext i it mode = some (it', info) →
            ∃ p, Spec.iterNextPos h.spec mode (Spec.iterFuel h.spec) (Impl.specPos i it) = some p
              ∧ Impl.specPos i it' = some p ∧ Spec.infoAt h.spec p.1 p.2 = some info
              ∧ Impl.IterOk i it' ∧ Impl.IterCanon i it' := by
  obtain ⟨ha, hinv⟩ := Hist.refines h i hi
  refine ⟨⟨Impl.iterOk_rewind i, Impl.iterCanon_rewind i, rfl⟩, ?_, ?_⟩
  · intro t it info hloc
    exact Impl.iterLocate_ok hinv hloc
  · intro it hok mode
    rw [← ha]
    exact Impl.iterNext_sim hinv hok mode

/-- kernel-evaluated instance of the two theorems above on a history with every kind of op (kept as a sanity check that
    the hypotheses are satisfiable and the statement computes) -/
example :
    let h : Hist := .cat (.padding (.flags (.append (.append (.append .init 39 100) 57 0) 81 50) ⟨0, VLI_UNKNOWN, 1⟩) 8)
                         (.dup (.append (.cat .init (.append .init 9 0)) 5 7))
    ∃ i, h.impl = some i ∧ (∀ mode ∈ [0, 1, 2, 3, 4], Impl.iterAll i mode = Spec.iterAll h.spec mode)
      ∧ (∀ t ∈ [0, 99, 100, 149, 150, 156, 157], (Impl.iterLocate i t).map (·.2) = Spec.locate h.spec t) := by
  decide +kernel

/-! ### locate_unique -/

/-- `lzma_index_iter_locate` on the list of records: for `target < uncompressed size` it returns a Block that contains
    `target` (so it is non-empty), and no other Block contains `target`; otherwise it fails -/
theorem locate_unique (i : Index) (t : Nat) :
    (t < Spec.uncompressedSize i → ∃ p, Spec.locatePos i t = some p ∧ Spec.Contains i p.1 p.2 t
        ∧ ∀ si bi, Spec.Contains i si bi t → si = p.1 ∧ bi = p.2)
    ∧ (Spec.uncompressedSize i ≤ t → Spec.locatePos i t = none) := by
  refine ⟨fun h => ?_, Spec.locatePos_none⟩
  obtain ⟨p, hp⟩ := Spec.locatePos_some h
  have hc := Spec.locatePos_contains hp
  exact ⟨p, hp, hc, fun si bi h' => Spec.contains_unique h' hc⟩

/-- `lzma_index_iter_locate` of the CONCRETE model, for every history and every target below the total uncompressed
    size: it succeeds, and what it shows is the specification's Block `p` that contains the target — the unique Block
    of the file that contains it (hence a non-empty one). For targets at or beyond the end it fails. -/
theorem locate_unique_concrete (h : Hist) (i : Impl.Index) (hi : h.impl = some i) (t : Nat) :
    (t < Spec.uncompressedSize h.spec →
      ∃ (it : Impl.Iter) (info : Spec.IterInfo) (p : Nat × Nat),
        Impl.iterLocate i t = some (it, info) ∧ Spec.infoAt h.spec p.1 (some p.2) = some info
        ∧ Spec.Contains h.spec p.1 p.2 t ∧ ∀ si bi, Spec.Contains h.spec si bi t → si = p.1 ∧ bi = p.2)
    ∧ (Spec.uncompressedSize h.spec ≤ t → Impl.iterLocate i t = none) := by
  obtain ⟨ha, hinv⟩ := Hist.refines h i hi
  have href := Impl.iterLocate_refines hinv t
  rw [ha] at href
  constructor
  · intro hlt
    obtain ⟨p, hp, hc, huniq⟩ := (locate_unique h.spec t).1 hlt
    unfold Spec.locate at href
    rw [hp] at href
    simp only [Option.bind_some] at href
    cases hl : Impl.iterLocate i t with
    | none =>
      rw [hl] at href
      -- the specification shows something: Stream and Block exist
      obtain ⟨s, b, hs, hb, _, _⟩ := hc
      unfold Spec.infoAt at href
      rw [hs] at href
      simp at href
    | some x =>
      obtain ⟨it, info⟩ := x
      rw [hl] at href
      simp only [Option.map_some] at href
      exact ⟨it, info, p, rfl, href.symm, hc, huniq⟩
  · intro hge
    unfold Impl.iterLocate
    rw [if_pos (by rw [hinv.unc, ha]; exact hge)]

/-! ### iter_visits_once and iter_survives -/

/-- In every mode (a) calling `next` on the specification's persistent iterator until it fails shows exactly the listing
    `Spec.iterAll` and (b) a full iteration of the concrete iterator shows the same listing. -/
theorem iter_visits_once (h : Hist) (i : Impl.Index) (hi : h.impl = some i) (mode : Nat) :
    ((Spec.iterSeq h.spec mode (Spec.iterFuel h.spec) none).filterMap fun p => Spec.infoAt h.spec p.1 p.2) = Spec.iterAll h.spec mode
    ∧ Impl.iterAll i mode = Spec.iterAll h.spec mode :=
  ⟨Spec.iterSeq_infos h.spec mode, (index_refines_spec_iter h i hi).1 mode⟩

/-- What the listing is ("every element exactly once, in file order"): for ANY (0), STREAM (1) and BLOCK (2) the
    positions of `Spec.iterAll` are strictly increasing in file order (so none occurs twice) and are exactly:
    STREAM — every Stream; BLOCK — every (Stream, Block) pair; ANY — these plus every Stream without Blocks.
    NONEMPTY_BLOCK (3) is the BLOCK listing without the Blocks of Uncompressed Size 0. The fields shown for a position
    are `Spec.infoAt` (numbers and offsets = prefix sums over the records before it). -/
theorem iter_listing_exact (i : Index) (mode : Nat) :
    Spec.iterAll i mode = (Spec.listingM i mode).filterMap (fun p => Spec.infoAt i p.1 p.2)
    ∧ (Spec.listingM i mode).Pairwise Spec.plt
    ∧ (mode ≤ 2 → ∀ y, y ∈ Spec.listingM i mode ↔ Spec.Listed i mode y)
    ∧ Spec.listingM i 3 = (Spec.listingM i 2).filter (fun p => !Spec.blockEmptyAt i p)
    ∧ (3 < mode → Spec.listingM i mode = []) := by
  refine ⟨Spec.iterAll_eq_listing i mode, Spec.listingM_sorted i mode, ?_, rfl, ?_⟩
  · intro hm y
    have : Spec.listingM i mode = Spec.listing i mode := by unfold Spec.listingM; rw [if_pos hm]
    rw [this]; exact Spec.mem_listing hm y
  · intro hm
    unfold Spec.listingM
    rw [if_neg (by omega), if_neg (by omega)]

/-- **An iterator survives `lzma_index_append` and `lzma_index_cat` between two `next` calls.** `i` is a reachable index,
    `it` an iterator on it (any state reachable by rewind/next/locate), `i'` the index after an append (successful or
    not) or after `i` was the destination of a cat (successful or not; the C code reallocates the last group of `i`
    there, which is what the ITER_METHOD_* indirection is for). Then (1) `it` is a valid iterator of `i'`; (2) the next
    call on `i'` does what the specification's `next` does on the new list of records from the position `it` had; and
    (3) the rest of the iteration on `i'` shows exactly the elements of the new listing after that position, each
    once, in order.
    Exception made explicit (finding F6b; the specification mirrors the code): an iterator parked on a Stream without
    Blocks has position `(si, none)`, which counts as "Block 0 of Stream `si` already returned"; if an append gives
    that Stream its first Block, that Block is NOT among "the elements after the position" (see the example below). -/
theorem iter_survives_append_cat (h : Hist) (i : Impl.Index) (hi : h.impl = some i)
    (it : Impl.Iter) (hok : Impl.IterOk i it) (hc : Impl.IterCanon i it) (i' : Impl.Index)
    (hstep : (∃ u c, i' = (Impl.append i u c).2)
           ∨ (∃ (hs : Hist) (src : Impl.Index), hs.impl = some src ∧ i' = (Impl.cat i src).2)) (mode : Nat) :
    (Impl.IterOk i' it ∧ Impl.IterCanon i' it)
    ∧ (Impl.iterNext i' it mode = none →
        Spec.iterNextPos (Impl.abs i') mode (Spec.iterFuel (Impl.abs i')) (Impl.specPos i it) = none)
    ∧ (∀ it' info, Impl.iterNext i' it mode = some (it', info) →
        ∃ p, Spec.iterNextPos (Impl.abs i') mode (Spec.iterFuel (Impl.abs i')) (Impl.specPos i it) = some p
          ∧ Impl.specPos i' it' = some p ∧ Spec.infoAt (Impl.abs i') p.1 p.2 = some info
          ∧ Impl.IterOk i' it' ∧ Impl.IterCanon i' it')
    ∧ Impl.iterAllGo i' mode (Impl.iterFuel i') it
        = ((Spec.listingM (Impl.abs i') mode).filter fun y => decide (Spec.above (Impl.specPos i it) y)).filterMap
            fun p => Spec.infoAt (Impl.abs i') p.1 p.2 := by
  obtain ⟨_, hinv⟩ := Hist.refines h i hi
  have hboth : Impl.Inv i' ∧ Impl.Grows i i' := by
    rcases hstep with ⟨u, c, rfl⟩ | ⟨hs, src, hsrc, rfl⟩
    · refine ⟨?_, Impl.append_grows hinv u c⟩
      rcases Impl.append_refines hinv u c with hm | ⟨_, _, h3⟩
      · rw [hm]; exact hinv
      · exact h3
    · obtain ⟨_, hsinv⟩ := Hist.refines hs src hsrc
      exact ⟨(Impl.cat_refines hinv hsinv).2.2.1, Impl.cat_grows hinv⟩
  obtain ⟨hinv', hg⟩ := hboth
  obtain ⟨a1, a2, _⟩ := Impl.survive_pos hinv' hg hok hc
  obtain ⟨b1, b2⟩ := Impl.iterNext_survives hinv' hg hok hc mode
  exact ⟨⟨a1, a2⟩, b1, b2, Impl.iterRest_survives hinv' hg hok hc mode⟩

/-- **Nothing is shown twice and nothing is left out across the append / cat.** Same setting as
    `iter_survives_append_cat`, outside the F6b corner (`NotParkedGrown`: the iterator is not parked on a Stream
    without Blocks that has Blocks afterwards): the positions of the old listing up to the iterator's position (what
    has been shown so far, if the iteration was a single-mode one) followed by the positions shown after the
    operation are exactly the listing of the new index — every Stream / Block / non-empty Block once, in file order. -/
theorem iter_survives_exact (h : Hist) (i : Impl.Index) (hi : h.impl = some i)
    (it : Impl.Iter) (hok : Impl.IterOk i it) (hc : Impl.IterCanon i it) (i' : Impl.Index)
    (hstep : (∃ u c, i' = (Impl.append i u c).2)
           ∨ (∃ (hs : Hist) (src : Impl.Index), hs.impl = some src ∧ i' = (Impl.cat i src).2)) (mode : Nat)
    (hf : Spec.NotParkedGrown (Impl.abs i') (Impl.specPos i it)) :
    Spec.listingM (Impl.abs i') mode
      = (Spec.listingM h.spec mode).filter (fun y => !decide (Spec.above (Impl.specPos i it) y))
        ++ (Spec.listingM (Impl.abs i') mode).filter (fun y => decide (Spec.above (Impl.specPos i it) y))
    ∧ Impl.iterAllGo i' mode (Impl.iterFuel i') it
        = ((Spec.listingM (Impl.abs i') mode).filter fun y => decide (Spec.above (Impl.specPos i it) y)).filterMap
            fun p => Spec.infoAt (Impl.abs i') p.1 p.2 := by
  obtain ⟨ha, hinv⟩ := Hist.refines h i hi
  have hp : Spec.PrefixOf (Impl.abs i) (Impl.abs i') := by
    rcases hstep with ⟨u, c, rfl⟩ | ⟨hs, src, hsrc, rfl⟩
    · exact Impl.append_prefixOf hinv u c
    · exact Impl.cat_prefixOf hinv (Hist.refines hs src hsrc).2
  refine ⟨?_, (iter_survives_append_cat h i hi it hok hc i' hstep mode).2.2.2⟩
  rw [← ha]
  exact Spec.listing_split hp (Impl.specPos_curIn hinv hok) hf mode

/-- instance: BLOCK iteration over two Blocks, the index then becomes the destination of a `cat` (its last group is
    reallocated in the C code), iteration continues into the moved Stream and ends -/
example :
    let d := (Impl.append (Impl.append Impl.init 10 5).2 12 6).2
    let s := (Impl.append Impl.init 9 7).2
    let c := (Impl.cat d s).2
    ∃ it1 it2 it3 x1 x2 x3,
      Impl.iterNext d Impl.Iter.rewind 2 = some (it1, x1) ∧ Impl.iterNext d it1 2 = some (it2, x2)
      ∧ Impl.iterNext c it2 2 = some (it3, x3) ∧ Impl.iterNext c it3 2 = none
      ∧ [x1, x2, x3] = Spec.iterAll (Impl.abs c) 2 := by
  refine ⟨_, _, _, _, _, _, rfl, rfl, rfl, ?_, ?_⟩ <;> decide +kernel

/-- the F6b corner, as the code behaves: an ANY-mode iterator parked on the (empty) only Stream; an append gives the
    Stream its first Block; the next call does not return that Block -/
example :
    let d := Impl.init
    let d' := (Impl.append d 10 5).2
    ∃ it1 x1, Impl.iterNext d Impl.Iter.rewind 0 = some (it1, x1) ∧ x1.block = none
      ∧ Impl.iterNext d' it1 0 = none ∧ (Spec.iterAll (Impl.abs d') 0).length = 1 := by
  refine ⟨_, _, rfl, ?_, ?_, ?_⟩ <;> decide +kernel

/-- concrete multi-Stream index with empty Streams and empty Blocks, all mode values (kernel evaluation) -/
example :
    let i : Index := [⟨none, 0, [⟨5, 0⟩, ⟨6, 3⟩]⟩, ⟨none, 4, []⟩, ⟨some ⟨0, 8, 4⟩, 0, [⟨7, 0⟩, ⟨9, 9⟩, ⟨5, 0⟩]⟩, ⟨none, 0, []⟩]
    (∀ mode ∈ [0, 1, 2, 3, 4, 5],
      ((Spec.iterSeq i mode (Spec.iterFuel i) none).filterMap fun p => Spec.infoAt i p.1 p.2) = Spec.iterAll i mode)
    ∧ (Spec.iterAll i 2).filterMap (fun x => x.block.map fun b => (⟨b.unpaddedSize, b.uncompressedSize⟩ : Block)) = Spec.allBlocks i
    ∧ (Spec.iterAll i 2).filterMap (fun x => x.block.map (·.numberInFile)) = [1, 2, 3, 4, 5]
    ∧ (Spec.iterAll i 3).filterMap (fun x => x.block.map (·.uncompressedFileOffset)) = [0, 3]
    ∧ (Spec.iterAll i 1).map (·.stream.number) = [1, 2, 3, 4]
    ∧ (Spec.iterAll i 0).length = 7 ∧ Spec.iterAll i 4 = [] := by decide +kernel

/-- Decoding the encoded Index field of a valid single-Stream index gives that index back (Stream Flags and Stream
    Padding are not part of the Index field), for every list of Blocks within the format limits: the decoder answers
    LZMA_STREAM_END, consumes exactly `lzma_index_size` bytes (= the encoder's output length, padding and CRC32
    included) and every `lzma_index_append` on the way succeeds. -/
theorem index_codec_roundtrip (bs : List Block) (hv : Spec.Valid [⟨none, 0, bs⟩])
    (hb : indexSize bs.length (listSize bs) ≤ BACKWARD_SIZE_MAX) :
    Spec.encode [⟨none, 0, bs⟩] = encodeBlocks bs
    ∧ (Spec.decode (U64 - 1) (encodeBlocks bs)).ret = .streamEnd
    ∧ (Spec.decode (U64 - 1) (encodeBlocks bs)).index = some [⟨none, 0, bs⟩]
    ∧ (Spec.decode (U64 - 1) (encodeBlocks bs)).used = indexSize bs.length (listSize bs)
    ∧ (encodeBlocks bs).length = indexSize bs.length (listSize bs) :=
  ⟨by simp [Spec.encode, Spec.allBlocks], decode_encode (blocksOk_of_valid hv hb)⟩

/-- concrete instances covering every VLI length boundary (also shows the hypotheses are satisfiable) -/
example :
    ∀ bs ∈ ([[], [⟨5, 0⟩], [⟨127, 128⟩, ⟨16383, 16384⟩, ⟨2097152, 268435455⟩],
             [⟨34359738368, 4398046511103⟩, ⟨562949953421312, 72057594037927935⟩, ⟨5, 72057594037927936⟩]] : List (List Block)),
      (Spec.decode (U64 - 1) (encodeBlocks bs)).ret = .streamEnd
      ∧ (Spec.decode (U64 - 1) (encodeBlocks bs)).index = some [⟨none, 0, bs⟩] := by decide +kernel

/-! ### file_info_correct -/

/-- **`lzma_file_info_decoder` on every well-formed multi-Stream file.**
    The file is described at the specification level by `ds : List StreamDesc` (per Stream: Check ID, the Records of
    its Blocks, the bytes of the Blocks as an abstract byte string of the recorded total size, the Stream Padding) and
    its bytes are `fileBytes ds` = for each Stream: `lzma_stream_header_encode` ++ Block bytes ++ Index field
    (`index_encode`) ++ `lzma_stream_footer_encode` (Backward Size = size of the Index field) ++ Stream Padding zeros —
    the container codecs of Model/Container.lean (first conjunct: they accept every Stream and these are their outputs).
    Hypotheses: each Stream is within the format limits (`StreamDesc.Ok`: Check ID ≤ 15, padding ≡ 0 mod 4, Unpadded Sizes
    in range, sizes ≤ LZMA_VLI_MAX, Index ≤ Backward Size limit); the limits that `lzma_index_stream_padding` /
    `lzma_index_cat` enforce hold for every suffix of the file (`Combinable`: file size and uncompressed size
    ≤ LZMA_VLI_MAX, combined Index size); the memory limit suffices (`MemOk`).
    Conclusion (allocation failure of the model's allocator oracle apart, as in `index_refines_spec_decode`): the
    backward parser (Stream Padding counted through the 8 KiB window with re-seeks, Stream Footer, Index decoded from
    exactly Backward Size bytes, seek back over the Blocks, Stream Header compared, flags + padding set, `lzma_index_cat`
    in front of the Streams parsed before) ends with LZMA_STREAM_END and an index whose abstraction is exactly
    the list of the Streams' Records with their Stream Flags (version 0, Backward Size, Check) and Stream Padding, in
    file order; the index satisfies the representation invariant (so every theorem above applies to it), and its
    `lzma_index_file_size` is the length of the file.
    Not stated: the chunked reading / explicit LZMA_SEEK_NEEDED machine (seek targets ≤ file size) — only the whole-file
    semantics is modelled in Lean; the correspondence run compares the real decoder under many read sizes. -/
theorem file_info_correct (ds : List StreamDesc) (hne : ds ≠ []) (hall : ∀ d ∈ ds, d.Ok) (hcomb : Combinable ds)
    (memlimit : Nat) (hmem : MemOk (max 1 memlimit) ds) :
    (∀ d ∈ ds, Container.streamHeaderEncode d.flags = .ok d.hdr
        ∧ Container.streamFooterEncode d.flags d.bsz = .ok d.ftr
        ∧ d.idx = Container.indexEncode (d.blocks.map toRecord)
        ∧ d.bytes = d.hdr ++ d.payload ++ d.idx ++ d.ftr ++ List.replicate d.padding 0)
    ∧ ((fileInfo memlimit (fileBytes ds).toArray).1 = .memError
       ∨ ∃ idx, fileInfo memlimit (fileBytes ds).toArray = (.streamEnd, some idx)
          ∧ Impl.abs idx = expectedIndex ds ∧ Impl.Inv idx
          ∧ Impl.fileSize idx = (fileBytes ds).length ∧ Impl.streamCount idx = ds.length) := by
  refine ⟨fun d hd => ⟨(hall d hd).hdr_eq, (hall d hd).ftr_eq, rfl, rfl⟩, ?_⟩
  rcases fileInfo_correct ds hne hall hcomb memlimit hmem with h | ⟨idx, h1, h2, h3⟩
  · exact Or.inl h
  · right
    refine ⟨idx, h1, h2, h3, ?_, ?_⟩
    · have := (Impl.getters_refine h3).2.2.2.2.2.1
      rw [this, h2, Spec.fileSize_of_valid (by rw [← h2]; exact h3.valid), fileBytes_length hall]
    · have := (Impl.getters_refine h3).1
      rw [this, h2]; simp [Spec.streamCount, expectedIndex]

/-- what `expectedIndex` is: per Stream, flags (version 0, Backward Size = Index size, Check), padding, Records -/
example (d : StreamDesc) (r : List StreamDesc) :
    expectedIndex (d :: r) = ⟨some ⟨0, indexSize d.blocks.length (listSize d.blocks), d.check⟩, d.padding, d.blocks⟩ :: expectedIndex r := rfl

/-- the hypotheses are satisfiable, e.g. by two Streams (CRC32 without Blocks and 4 bytes of padding; CRC64 with two
    Blocks), and `fileBytes` of a Stream without Blocks is tests/files/good-0-empty.xz -/
example :
    let d1 : StreamDesc := ⟨1, [], [], 4⟩
    let d2 : StreamDesc := ⟨4, [⟨9, 100⟩, ⟨21, 0⟩], List.replicate 36 7, 0⟩
    (∀ d ∈ [d1, d2], d.Ok) ∧ Combinable [d1, d2] ∧ MemOk (max 1 100000) [d1, d2]
    ∧ fileBytes [⟨1, [], [], 0⟩] = [0xFD, 0x37, 0x7A, 0x58, 0x5A, 0x00, 0x00, 0x01, 0x69, 0x22, 0xDE, 0x36,
        0x00, 0x00, 0x00, 0x00, 0x1C, 0xDF, 0x44, 0x21, 0x90, 0x42, 0x99, 0x0D, 0x01, 0x00, 0x00, 0x00, 0x00, 0x01, 0x59, 0x5A] := by
  refine ⟨?_, ?_, ?_, ?_⟩
  · intro d hd
    simp only [List.mem_cons, List.mem_singleton, List.not_mem_nil, or_false] at hd
    rcases hd with rfl | rfl
    · exact ⟨by decide, rfl, by decide, Spec.valid_init, by decide +kernel⟩
    · refine ⟨by decide, by decide +kernel, by decide, ?_, by decide +kernel⟩
      have h1 := Spec.append_valid Spec.valid_init (u := 9) (c := 100) (i' := [⟨none, 0, [⟨9, 100⟩]⟩]) (by decide +kernel)
      exact Spec.append_valid h1 (u := 21) (c := 0) (i' := [⟨none, 0, [⟨9, 100⟩, ⟨21, 0⟩]⟩]) (by decide +kernel)
  · refine ⟨⟨trivial, by decide +kernel, fun h => absurd rfl h⟩, by decide +kernel, fun _ => by decide +kernel⟩
  · refine ⟨⟨trivial, by decide +kernel, by decide +kernel⟩, by decide +kernel, by decide +kernel⟩
  · decide +kernel

/-! ### random_access -/

/-- **Random access is correct: for every valid .xz file — any number of Streams, Blocks and Stream Padding — decoding the
    Block found at the compressed file offset the index shows yields exactly the data range the index shows.**

    The file.  `xs : List XStream` describes it Block by Block: per Stream the Check ID, the Stream Padding and the Blocks
    (`BlockDesc`: Block Header bytes `hb` decoding to `h`, Compressed Data `c`, the data `o` it holds, Block Padding, Check
    field).  Its bytes are `fileOf xs = fileBytes (descs xs)` — Stream Header, the Blocks, Index (`index_encode` of the
    Blocks' size pairs), Stream Footer, Stream Padding, for each Stream — i.e. the file of `file_info_correct`; its data is
    `fileOut xs`, the Blocks' data in file order.
    Hypotheses.  `XStream.Ok`: Check ID ≤ 15, Stream Padding ≡ 0 mod 4, the Records within the format limits, every Block
    Header is well formed (`BlockDesc.Wf`: first byte ≠ 0, `lzma_block_header_decode` accepts it, valid filter chain,
    Compressed Data not empty).  `SeqFile E ign cap xs`: every Block is a declarative Block (`DBlock` of
    Lemmas/XzGrammar.lean: payload decoder maps exactly `c` to `o` with LZMA_STREAM_END, size fields if present are right,
    Block Padding zero, Check field right) for the output allowance it gets when the file is decoded front to back with
    `cap` bytes of output space (`cap` minus the data before it).  `E` is any payload environment with `PayloadLocal` (proved
    for the model of the real decoder: `XzEnv.payloadLocal_std`); `Combinable`/`MemOk` as in `file_info_correct`.
    That the Block bytes of each Stream have the total size its Records say is NOT assumed: it is derived (first conjunct:
    the hypotheses of `file_info_correct` hold).
    Conclusions.
    (1) `lzma_stream_decoder` with LZMA_CONCATENATED + LZMA_FINISH on the file returns LZMA_STREAM_END, the output
        `fileOut xs`, having consumed the whole file.
    (2) `lzma_file_info_decoder` on the file (allocation failure of the model's allocator apart) returns an index `idx` such
        that
        (a) every Block `b` that a BLOCK-mode iteration of `idx` shows is served (`RandomAccess.BlockServed`): it is Block
            `j` of Stream `i` of the file, the Stream Flags shown carry that Stream's Check ID, `b.compressedFileOffset` is
            the position of the Block's first byte (`coff`), `b.uncompressedFileOffset` the position of its data in the
            file's data (`uoff`), `b.uncompressedSize` / `b.unpaddedSize` / `b.totalSize` its sizes, the file continues
            with the Block's bytes at `b.compressedFileOffset`, and for EVERY output capacity `cap'` for which the Block is
            a declarative Block — in particular `cap - b.uncompressedFileOffset`, what the front-to-back decoder had —
            `blockAt` (Block Header size byte, `lzma_block_header_decode`, chain validation, `block_decode`) started at
            that offset returns LZMA_STREAM_END, exactly
            `(data.drop b.uncompressedFileOffset).take b.uncompressedSize`, having consumed `b.totalSize` bytes;
        (b) every Block of the file is shown by that iteration, with those offsets;
        (c) `lzma_index_iter_locate(target)` succeeds for every `target` below the data size and shows a served Block
            whose range contains `target`, so byte `target - b.uncompressedFileOffset` of what the Block decoder returns
            at `b.compressedFileOffset` is byte `target` of the file's data; for larger targets it fails.
    Not covered: the seek/read machinery of an actual reader (file_info.c's is C04 `seek_within_file_model`), and Blocks
    that are valid only for some capacities when the header has no Uncompressed Size (see `random_access_sized`). -/
theorem random_access (E : XzDecode.Env) (hloc : XzDecode.PayloadLocal E) (fl : XzDecode.Flags) (hc : fl.concatenated = true)
    (cap : Nat) (xs : List RandomAccess.XStream) (hne : xs ≠ []) (hok : ∀ x ∈ xs, x.Ok)
    (hseq : RandomAccess.SeqFile E fl.ignoreCheck cap xs) (hcomb : Combinable (RandomAccess.descs xs))
    (memlimit : Nat) (hmem : MemOk (max 1 memlimit) (RandomAccess.descs xs)) :
    (RandomAccess.descs xs ≠ [] ∧ ∀ d ∈ RandomAccess.descs xs, d.Ok)
    ∧ ((XzDecode.xzDecode E fl (RandomAccess.fileOf xs) cap).ret = .streamEnd
       ∧ (XzDecode.xzDecode E fl (RandomAccess.fileOf xs) cap).out = RandomAccess.fileOut xs
       ∧ (XzDecode.xzDecode E fl (RandomAccess.fileOf xs) cap).consumed = (RandomAccess.fileOf xs).length)
    ∧ ((fileInfo memlimit (RandomAccess.fileOf xs).toArray).1 = .memError
       ∨ ∃ idx, fileInfo memlimit (RandomAccess.fileOf xs).toArray = (.streamEnd, some idx) ∧ Impl.Inv idx
          ∧ (∀ info ∈ Impl.iterAll idx 2, ∀ b, info.block = some b →
              RandomAccess.BlockServed E fl.ignoreCheck cap xs info.stream.flags b)
          ∧ (∀ i j x B, xs[i]? = some x → x.blocks[j]? = some B →
              ∃ info ∈ Impl.iterAll idx 2, ∃ b, info.block = some b
                ∧ b.compressedFileOffset = RandomAccess.coff xs i j ∧ b.uncompressedFileOffset = RandomAccess.uoff xs i j)
          ∧ (∀ t, t < (RandomAccess.fileOut xs).length →
              ∃ it info b, Impl.iterLocate idx t = some (it, info) ∧ info.block = some b
                ∧ RandomAccess.BlockServed E fl.ignoreCheck cap xs info.stream.flags b
                ∧ b.uncompressedFileOffset ≤ t ∧ t < b.uncompressedFileOffset + b.uncompressedSize
                ∧ (((RandomAccess.fileOut xs).drop b.uncompressedFileOffset).take b.uncompressedSize)[t - b.uncompressedFileOffset]?
                    = (RandomAccess.fileOut xs)[t]?)
          ∧ (∀ t, (RandomAccess.fileOut xs).length ≤ t → Impl.iterLocate idx t = none)) := by
  have hds := RandomAccess.descs_ok xs cap hok hseq
  have hdne : RandomAccess.descs xs ≠ [] := by
    cases xs with
    | nil => exact absurd rfl hne
    | cons x r => simp [RandomAccess.descs]
  obtain ⟨h1, h2, h3⟩ := RandomAccess.random_access_spec E hloc fl hc cap xs hne hok hseq
  refine ⟨⟨hdne, hds⟩, h1, ?_⟩
  rcases fileInfo_correct (RandomAccess.descs xs) hdne hds hcomb memlimit hmem with h | ⟨idx, hfi, habs, hinv⟩
  · exact Or.inl h
  · right
    have hit : Impl.iterAll idx 2 = Spec.iterAll (expectedIndex (RandomAccess.descs xs)) 2 := by
      rw [← habs]; exact Impl.iterAll_refines hinv 2
    have hloc' : ∀ t, (Impl.iterLocate idx t).map (·.2) = Spec.locate (expectedIndex (RandomAccess.descs xs)) t := by
      intro t; rw [← habs]; exact Impl.iterLocate_refines hinv t
    refine ⟨idx, hfi, hinv, ?_, ?_, ?_, ?_⟩
    · rw [hit]; exact h2
    · rw [hit]; exact h3
    · intro t ht
      obtain ⟨info, b, hl, hb, hrest⟩ := RandomAccess.random_access_locate_spec E hloc fl.ignoreCheck cap xs hok hseq t ht
      have := hloc' t
      rw [hl] at this
      cases hx : Impl.iterLocate idx t with
      | none => rw [hx] at this; simp at this
      | some p =>
        obtain ⟨it, info'⟩ := p
        rw [hx] at this
        simp only [Option.map_some, Option.some.injEq] at this
        subst this
        exact ⟨it, info', b, rfl, hb, hrest⟩
    · intro t ht
      unfold Impl.iterLocate
      rw [if_pos (by
        rw [hinv.unc, habs, RandomAccess.uncompressedSize_index]; exact ht)]

/-- **The statement in the shape of the design** (`blockDecode (bytes.drop b.compressed_file_offset) = data[b.uncompressed_file_offset, + b.uncompressed_size)`),
    same setting as `random_access`: for every index `idx` the file-info decoder returns for the file, every Block `b` of a
    BLOCK-mode iteration with the Stream Flags `f` shown next to it, the Block decoder — given the Check ID `f.check` from
    the index and the output space the front-to-back decoder had at that Block — started at `b.compressedFileOffset`
    returns LZMA_STREAM_END, the bytes `[b.uncompressedFileOffset, + b.uncompressedSize)` of the whole file's decoded data
    (= the output of `xzDecode`), having consumed `b.totalSize` bytes. -/
theorem random_access_decode (E : XzDecode.Env) (hloc : XzDecode.PayloadLocal E) (fl : XzDecode.Flags) (hc : fl.concatenated = true)
    (cap : Nat) (xs : List RandomAccess.XStream) (hne : xs ≠ []) (hok : ∀ x ∈ xs, x.Ok)
    (hseq : RandomAccess.SeqFile E fl.ignoreCheck cap xs) (hcomb : Combinable (RandomAccess.descs xs))
    (memlimit : Nat) (hmem : MemOk (max 1 memlimit) (RandomAccess.descs xs)) :
    ∀ idx, fileInfo memlimit (RandomAccess.fileOf xs).toArray = (.streamEnd, some idx) →
      ∀ info ∈ Impl.iterAll idx 2, ∀ b f, info.block = some b → info.stream.flags = some f →
        RandomAccess.blockAt E f.check fl.ignoreCheck ((RandomAccess.fileOf xs).drop b.compressedFileOffset)
            (cap - b.uncompressedFileOffset)
          = { ret := .streamEnd,
              out := ((XzDecode.xzDecode E fl (RandomAccess.fileOf xs) cap).out.drop b.uncompressedFileOffset).take b.uncompressedSize,
              consumed := b.totalSize,
              compressed := b.unpaddedSize - ((((RandomAccess.fileOf xs).getD b.compressedFileOffset 0).toNat + 1) * 4
                              + Container.checkSize f.check) } := by
  intro idx hfi info hinfo b f hb hf
  obtain ⟨_, ⟨_, hout, _⟩, hr⟩ := random_access E hloc fl hc cap xs hne hok hseq hcomb memlimit hmem
  rcases hr with hm | ⟨idx', hfi', _, hserved, _⟩
  · rw [hfi] at hm; cases hm
  · rw [hfi] at hfi'
    simp only [Prod.mk.injEq, Option.some.injEq, true_and] at hfi'
    subst hfi'
    obtain ⟨i, j, x, B, hx, hB, hfl, h1, h2, h3, h4, h5, _, ⟨rest, hrest⟩, hd, hall⟩ := hserved info hinfo b hb
    rw [hf] at hfl
    simp only [Option.some.injEq] at hfl
    have hck : f.check = x.check := by rw [hfl]
    have := hall _ hd
    rw [hck, this, hout]
    have hxm : x ∈ xs := List.mem_of_getElem? hx
    have hBm : B ∈ x.blocks := List.mem_of_getElem? hB
    obtain ⟨b0, tl, hhb, _⟩ := ((hok x hxm).wf B hBm).hb_cons
    obtain ⟨hsz, _⟩ := XzDecode.blockHeaderDecodeWith_size _ _ _ _ ((hok x hxm).wf B hBm).hdr
    have hg : (RandomAccess.fileOf xs).getD b.compressedFileOffset 0 = B.hb.getD 0 0 := by
      have h0 : ((RandomAccess.fileOf xs).drop b.compressedFileOffset)[0]? = (RandomAccess.fileOf xs)[b.compressedFileOffset]? := by
        rw [List.getElem?_drop]; rfl
      rw [hrest] at h0
      rw [List.getD_eq_getElem?_getD, ← h0]
      simp [RandomAccess.BlockDesc.bytes, hhb]
    rw [hg, hsz, h4]
    simp only [RandomAccess.BlockDesc.unpadded, XzDecode.BRes.mk.injEq, true_and]
    omega

/-- When a Block Header states the Uncompressed Size — as the headers written by the multi-threaded encoder and by
    `lzma_block_buffer_encode` do — the capacity does not matter: a Block that is valid in the front-to-back decode is
    decoded at its offset with ANY output space that holds its data, e.g. exactly `b.uncompressedSize` bytes. -/
theorem random_access_sized (E : XzDecode.Env) (ign : Bool) (cap : Nat)
    (xs : List RandomAccess.XStream) (flags : Option StreamFlags) (b : Spec.BlockInfo)
    (h : RandomAccess.BlockServed E ign cap xs flags b) (hcap : b.uncompressedFileOffset + b.uncompressedSize ≤ cap) :
    ∃ (i j : Nat) (x : RandomAccess.XStream) (B : RandomAccess.BlockDesc), xs[i]? = some x ∧ x.blocks[j]? = some B ∧
      ∀ u, B.h.uncompressedSize = some u → ∀ cap', b.uncompressedSize ≤ cap' →
        RandomAccess.blockAt E x.check ign ((RandomAccess.fileOf xs).drop b.compressedFileOffset) cap'
          = { ret := .streamEnd, out := ((RandomAccess.fileOut xs).drop b.uncompressedFileOffset).take b.uncompressedSize,
              consumed := b.totalSize, compressed := B.c.length } := by
  obtain ⟨i, j, x, B, hx, hB, _, _, _, h3, _, _, _, _, hd, hall⟩ := h
  refine ⟨i, j, x, B, hx, hB, ?_⟩
  intro u hu cap' hcap'
  exact hall cap' (hd.of_usize hu (by omega) (by omega))

/-- **`random_access` is about every file the decoder accepts.**  If `lzma_stream_decoder` with LZMA_CONCATENATED +
    LZMA_FINISH accepts the bytes `F` (any payload environment with `PayloadLocal` and `PayloadBounded`, both proved for the
    model of the real decoder), then `F` is `fileOf xs` for a non-empty list of Streams `xs` that meets the Block-level
    hypotheses of `random_access` (`XStream.Ok`, `SeqFile` for the same capacity), the decoder's output is `fileOut xs` and
    it consumed the whole file.  (Stream Header, Stream Footer and Index have exactly one encoding; Stream Padding is
    zeros in multiples of four; the Blocks are the declarative Blocks of the soundness theorem `xz_decode_sound_decl`;
    the limits of `lzma_index_hash_append` give `Spec.Valid` and the Backward Size bound.)  So `random_access` and
    `random_access_decode` apply to every accepted file whose description passes the limits `lzma_index_cat` /
    `lzma_index_stream_padding` and the memory limit impose on the file-info decoder (`Combinable`, `MemOk`). -/
theorem random_access_accepted (E : XzDecode.Env) (hloc : XzDecode.PayloadLocal E) (hbd : XzDecode.PayloadBounded E)
    (fl : XzDecode.Flags) (hc : fl.concatenated = true) (F : List UInt8) (cap : Nat)
    (h : (XzDecode.xzDecode E fl F cap).ret = .streamEnd) :
    ∃ xs : List RandomAccess.XStream, xs ≠ [] ∧ F = RandomAccess.fileOf xs
      ∧ (XzDecode.xzDecode E fl F cap).out = RandomAccess.fileOut xs
      ∧ (XzDecode.xzDecode E fl F cap).consumed = F.length ∧ (∀ x ∈ xs, x.Ok)
      ∧ RandomAccess.SeqFile E fl.ignoreCheck cap xs :=
  RandomAccess.accepted_is_described E hloc hbd fl hc F cap h

/-- **The headline for the model of the real decoder** (`XzEnv.stdEnv`: raw LZMA1/LZMA2/BCJ/Delta chains, CRC32/CRC64/SHA-256;
    no hypothesis about the payload decoder is left).  For every byte string `F` that `lzma_stream_decoder`
    (LZMA_CONCATENATED, LZMA_FINISH, `cap` bytes of output space) accepts: `F` has a description `xs` (so `F` consists of
    any number of Streams, Blocks and Stream Padding), and — if the description passes the limits of `lzma_index_cat` /
    `lzma_index_stream_padding` and the memory limit — for every index `idx` that `lzma_file_info_decoder` returns for
    `F`, every Block `b` of a BLOCK-mode iteration of `idx`, and the Stream Flags `f` shown next to it: the Block decoder
    started at `b.compressedFileOffset` returns LZMA_STREAM_END and exactly the bytes
    `[b.uncompressedFileOffset, + b.uncompressedSize)` of the data the whole-file decoder produced, consuming
    `b.totalSize` bytes; and the file-info decoder does return such an index unless the model's allocator fails. -/
theorem random_access_std (fl : XzDecode.Flags) (hc : fl.concatenated = true) (F : List UInt8) (cap : Nat)
    (h : (XzDecode.xzDecode XzEnv.stdEnv fl F cap).ret = .streamEnd) :
    ∃ xs : List RandomAccess.XStream, xs ≠ [] ∧ F = RandomAccess.fileOf xs ∧
      (Combinable (RandomAccess.descs xs) → ∀ memlimit, MemOk (max 1 memlimit) (RandomAccess.descs xs) →
        ((fileInfo memlimit F.toArray).1 = .memError ∨ ∃ idx, fileInfo memlimit F.toArray = (.streamEnd, some idx))
        ∧ ∀ idx, fileInfo memlimit F.toArray = (.streamEnd, some idx) →
            ∀ info ∈ Impl.iterAll idx 2, ∀ b f, info.block = some b → info.stream.flags = some f →
              RandomAccess.blockAt XzEnv.stdEnv f.check fl.ignoreCheck (F.drop b.compressedFileOffset) (cap - b.uncompressedFileOffset)
                = { ret := .streamEnd,
                    out := ((XzDecode.xzDecode XzEnv.stdEnv fl F cap).out.drop b.uncompressedFileOffset).take b.uncompressedSize,
                    consumed := b.totalSize,
                    compressed := b.unpaddedSize - (((F.getD b.compressedFileOffset 0).toNat + 1) * 4
                                    + Container.checkSize f.check) }) := by
  obtain ⟨xs, hne, hF, _, _, hok, hseq⟩ :=
    random_access_accepted XzEnv.stdEnv XzEnv.payloadLocal_std XzEnv.payloadBounded_std fl hc F cap h
  refine ⟨xs, hne, hF, ?_⟩
  intro hcomb memlimit hmem
  subst hF
  refine ⟨?_, random_access_decode XzEnv.stdEnv XzEnv.payloadLocal_std fl hc cap xs hne hok hseq hcomb memlimit hmem⟩
  rcases (random_access XzEnv.stdEnv XzEnv.payloadLocal_std fl hc cap xs hne hok hseq hcomb memlimit hmem).2.2 with hm | ⟨idx, hfi, _⟩
  · exact Or.inl hm
  · exact Or.inr ⟨idx, hfi⟩

/-- the hypotheses of `random_access` are satisfiable by the model of the real decoder (`XzEnv.stdEnv`: raw LZMA2 decoder,
    CRC32): a two-Stream file with three Blocks and Stream Padding (Lemmas/RandomAccessExample.lean, kernel evaluation) -/
example :
    XzDecode.PayloadLocal XzEnv.stdEnv ∧ (∀ x ∈ RandomAccess.Example.xs, x.Ok)
    ∧ RandomAccess.SeqFile XzEnv.stdEnv false XzDecode.UNLIMITED RandomAccess.Example.xs
    ∧ Combinable (RandomAccess.descs RandomAccess.Example.xs) ∧ MemOk (max 1 100000) (RandomAccess.descs RandomAccess.Example.xs)
    ∧ (RandomAccess.fileOf RandomAccess.Example.xs).length = 168
    ∧ RandomAccess.coff RandomAccess.Example.xs 0 1 = 48 ∧ RandomAccess.coff RandomAccess.Example.xs 1 0 = 112
    ∧ RandomAccess.uoff RandomAccess.Example.xs 1 0 = 14 :=
  ⟨XzEnv.payloadLocal_std, RandomAccess.Example.xs_ok, RandomAccess.Example.xs_seq, RandomAccess.Example.xs_combinable,
   RandomAccess.Example.xs_memOk, by rw [RandomAccess.Example.file_bytes]; rfl, by decide +kernel, by decide +kernel,
   by decide +kernel⟩

/-- … and, evaluated independently by the kernel: the whole-file decoder accepts that file (so the hypothesis of
    `random_access_std` holds for it) and the Block decoder at the offsets 12, 48, 112 the real `xz --list` shows for it
    returns "Hello\nWorld!\n", "A", "Hello\nWorld!\n" -/
example :
    let F := RandomAccess.fileOf RandomAccess.Example.xs
    (XzDecode.xzDecode XzEnv.stdEnv { concatenated := true } F XzDecode.UNLIMITED).ret = .streamEnd
    ∧ (XzDecode.xzDecode XzEnv.stdEnv { concatenated := true } F XzDecode.UNLIMITED).out
        = RandomAccess.Example.hello ++ [65] ++ RandomAccess.Example.hello
    ∧ (RandomAccess.blockAt XzEnv.stdEnv 1 false (F.drop 12) 13).out = RandomAccess.Example.hello
    ∧ (RandomAccess.blockAt XzEnv.stdEnv 1 false (F.drop 48) 1) = ⟨.streamEnd, [65], 24, 5⟩
    ∧ (RandomAccess.blockAt XzEnv.stdEnv 1 false (F.drop 112) XzDecode.UNLIMITED).out = RandomAccess.Example.hello := by
  decide +kernel

/-! ### non-vacuity -/

/-- the hypotheses of the refinement theorems are satisfiable: a history with every kind of op evaluates -/
example : (Hist.cat (.padding (.flags (.append .init 39 100) ⟨0, VLI_UNKNOWN, 1⟩) 8) (.dup (.append .init 5 7))).impl.isSome = true := by
  decide +kernel

/-- limits do bite: an append that would push the file size over LZMA_VLI_MAX fails and changes nothing -/
example : Spec.append [⟨none, VLI_MAX - 39, []⟩] 8 0 = (.dataError, [⟨none, VLI_MAX - 39, []⟩]) := by decide +kernel
example : (Spec.append [⟨none, VLI_MAX - 43, []⟩] 8 0).1 = .ok := by decide +kernel

/-- locate: the Block after an empty Block is found -/
example : Spec.locatePos [⟨none, 0, [⟨5, 10⟩, ⟨6, 0⟩, ⟨7, 4⟩]⟩] 10 = some (0, 2) := by decide +kernel

/-- Stream Header / Footer of tests/files/good-0-empty.xz decode to Check CRC32 and Backward Size 8 -/
example : (match headerDecode [0xFD, 0x37, 0x7A, 0x58, 0x5A, 0x00, 0x00, 0x01, 0x69, 0x22, 0xDE, 0x36] with
           | .ok c => c == 1 | .error _ => false) = true
    ∧ (match footerDecode [0x90, 0x42, 0x99, 0x0D, 0x01, 0x00, 0x00, 0x00, 0x00, 0x01, 0x59, 0x5A] with
       | .ok p => p == (1, 8) | .error _ => false) = true := by
  decide +kernel

end XzVerif.C13
