/-
  C13 — the Index and file-info APIs describe files exactly; random access is correct.
  Only property theorems and non-vacuity examples live here; helper lemmas are in Lemmas/Index*.lean.
-/
import XzVerif.Model.IndexSpec
import XzVerif.Model.IndexImpl
import XzVerif.Model.FileInfo
import XzVerif.Gen.C13

namespace XzVerif.C13
open XzVerif.Index

/-- constants of index.c / index.h / the API headers as compiled today equal the model's -/
theorem gen_constants :
    Gen.C13.indexGroupSize = INDEX_GROUP_SIZE ∧ Gen.C13.sizeofIndexStream = SIZEOF_INDEX_STREAM
    ∧ Gen.C13.sizeofIndexGroup = SIZEOF_INDEX_GROUP ∧ Gen.C13.sizeofIndexRecord = SIZEOF_INDEX_RECORD
    ∧ Gen.C13.sizeofLzmaIndex = SIZEOF_LZMA_INDEX ∧ Gen.C13.sizeofVoidPtr = SIZEOF_VOID_PTR
    ∧ Gen.C13.preallocMax = PREALLOC_MAX ∧ Gen.C13.vliMax = VLI_MAX ∧ Gen.C13.vliUnknown = VLI_UNKNOWN
    ∧ Gen.C13.vliBytesMax = VLI_BYTES_MAX ∧ Gen.C13.unpaddedSizeMin = UNPADDED_SIZE_MIN
    ∧ Gen.C13.unpaddedSizeMax = UNPADDED_SIZE_MAX ∧ Gen.C13.backwardSizeMin = BACKWARD_SIZE_MIN
    ∧ Gen.C13.backwardSizeMax = BACKWARD_SIZE_MAX ∧ Gen.C13.streamHeaderSize = STREAM_HEADER_SIZE
    ∧ Gen.C13.checkIdMax = CHECK_ID_MAX ∧ Gen.C13.uint32Max = UINT32_MAX ∧ Gen.C13.sizeMax = U64 - 1
    ∧ Gen.C13.indexIndicator = 0 := by decide

end XzVerif.C13
