/-
  C19 — xz naming, overwrite protection and metadata handling are safe and invertible.

  Statements are over `Model/Suffix.lean` (POSIX branch of src/xz/suffix.c, refusal rules of file_io.c, exit status of
  main.c). The predicates `GoodBase`, `ValidSuffix`, `RawConsistent`, `BuiltinShadows`, `SuffixEndsInBuiltin`,
  `BuiltinSpansName` are defined at the top of `Lemmas/Suffix.lean`.

  Tie to the code: the `gen_*` theorems below prove that what `harness/c19_*.c` measured on the real functions
  (suffix tables in test order, io_open_src on every constructible file kind × mode bits × flags, io_open_dest/io_close
  on every kind of pre-existing target × flags, io_copy_attrs on all 4096 modes × 3 group scenarios, set_exit_status on
  all states) equals the model; `tools/props/c19.py` additionally runs model vs real functions vs real `xz` binary.

  Metadata as a SEQUENCE (section "metadata: the order of the system calls"): statements over `Model/Attrs.lean`
  (write phase with the sparse-file logic + io_close() as a list of system calls with a clock; `OkRun`, `okCloseEvents`,
  `okAfterClose` are defined in `Lemmas/Attrs.lean`). Tie: `gen_order_rows` — the system calls of the real `xz` binary
  observed through an LD_PRELOAD shim on nine scenarios (incl. output ending in a sparse hole) are exactly the model's
  trace; `tools/props/c19.py` compares the model's predicted mode/uid/gid/atime/mtime(ns)/size with lstat of the real
  target on every in-process and end-to-end case that produces a file.
-/
import XzVerif.Model.Suffix
import XzVerif.Lemmas.Suffix
import XzVerif.Model.Attrs
import XzVerif.Lemmas.Attrs
import XzVerif.Gen.C19

namespace XzVerif.C19
open XzVerif.Suffix

/-! ## bridges: Gen (measured on the running code) = Model -/

theorem gen_enums :
    Gen.C19.formatAuto = Format.auto.toNat ∧ Gen.C19.formatXz = Format.xz.toNat ∧
    Gen.C19.formatLzma = Format.lzma.toNat ∧ Gen.C19.formatLzip = Format.lzip.toNat ∧
    Gen.C19.formatRaw = Format.raw.toNat ∧
    Gen.C19.eSuccess = Status.success.toNat ∧ Gen.C19.eError = Status.error.toNat ∧
    Gen.C19.eWarning = Status.warning.toNat ∧
    Gen.C19.modeCompress = 0 ∧ Gen.C19.modeDecompress = 1 := by decide

/-- the decompression table, in the order the code tests it; under `--format=raw` no built-in suffix is tested -/
theorem gen_uncomp_table : Gen.C19.uncompTable = uncompTable ∧ Gen.C19.uncompRawTested = 0 := by decide

/-- the per-format compression tables and default suffixes -/
theorem gen_comp_tables :
    Gen.C19.compSuffixesXz = compSuffixes .xz ∧ Gen.C19.compDefaultXz = (compSuffixes .xz).head? ∧
    Gen.C19.compSuffixesLzma = compSuffixes .lzma ∧ Gen.C19.compDefaultLzma = (compSuffixes .lzma).head? ∧
    Gen.C19.compSuffixesRaw = compSuffixes .raw ∧ Gen.C19.compDefaultRaw = (compSuffixes .raw).head? := by decide

/-- index decoding of a `srcRows` entry, see the comment in Gen/C19.lean -/
def srcRowExpected (j i : Nat) : Nat :=
  let kind := Kind.ofCode (j / 2)
  let symlink := j % 2 == 1
  let bits := i / 16
  let multi := (i / 8) % 2 == 1
  let fl := i % 8
  if (kind = .missing && (bits != 0 || multi)) || (kind = .dir && multi) then 99
  else (srcDecisionCore kind symlink (bits / 4 % 2 == 1) (bits / 2 % 2 == 1) (bits % 2 == 1) multi
          ⟨fl / 4 % 2 == 1, fl / 2 % 2 == 1, fl % 2 == 1⟩).toNat

/-- `io_open_src()` on every constructible (kind, symlink, setuid, setgid, sticky, hard link, -c, -f, -k): 952 real calls. -/
theorem gen_src_rows :
    Gen.C19.srcRows = (List.range 10).map fun j => (List.range 128).map fun i => srcRowExpected j i := by
  decide +kernel

def destRowExpected (dk fl : Nat) : List Nat :=
  let f : Flags := ⟨fl / 4 % 2 == 1, fl / 2 % 2 == 1, fl % 2 == 1⟩
  [dk, fl / 4 % 2, fl / 2 % 2, fl % 2] ++ destRow (DestKind.ofCode dk) f

/-- `io_open_dest()` + `io_close()` on every kind of pre-existing target × flags -/
theorem gen_dest_rows :
    Gen.C19.destRows = (List.range 5).flatMap fun dk => (List.range 8).map fun fl => destRowExpected dk fl := by
  decide +kernel

def modeTableExpected (groupFail : Bool) : List (List Nat) :=
  (List.range 16).map fun c => (List.range 256).map fun i => destMode (256 * c + i) groupFail

/-- `io_copy_attrs()`: the mode given to fchmod, all 4096 source modes × {same gid, group set, group not settable} -/
theorem gen_mode_same_gid : Gen.C19.modeSameGid = modeTableExpected false := by decide +kernel
theorem gen_mode_group_set : Gen.C19.modeGroupSet = modeTableExpected false := by decide +kernel
theorem gen_mode_group_fail : Gen.C19.modeGroupFail = modeTableExpected true := by decide +kernel

/-- `set_exit_status()` on all (old, new) -/
theorem gen_exit_rows :
    Gen.C19.exitRows = [0, 1, 2].flatMap fun o => [1, 2].map fun n =>
      [o, n, (setExitStatus (Status.ofCode o) (Status.ofCode n)).toNat] := by decide

/-- `IO_BUFFER_SIZE`, the unit of the sparse-file logic -/
theorem gen_io_buffer_size : Gen.C19.ioBufferSize = Attrs.ioBufferSize := by decide

/-- The model run that belongs to a row of `Gen.C19.orderParams` / `orderChunks` (see the comment in Gen/C19.lean):
    the options as given to `xz`, the source's lstat, and the io_write() calls implied by the output data. -/
def orderRun (p : List Nat) (chunks : List (Nat × Nat)) : Attrs.Run :=
  match p with
  | [d, keep, noSparse, noSync, smode, suid, sgid, sat, smt, puid, dgid, gfail] =>
    Attrs.cliRun (d == 1) (keep == 1) (noSparse == 1) (noSync == 1) smode suid sgid sat smt puid dgid false (gfail == 1)
      (chunks.map fun c => List.replicate c.1 (if c.2 == 1 then 0 else 1))
  | _ => default

/-- **Order bridge.** On every measured scenario (small file; output ending in a sparse hole; hole in the middle; all-zero
    output; `--keep`; `--no-sparse`; `--no-sync`; compression; fchown(group) failing) the system calls the REAL `xz` made
    on its file pair after opening the destination — names, order and arguments (sizes, seek offsets, uid, gid, mode,
    atime/mtime in ns) — are exactly the trace of `Attrs.run`. -/
theorem gen_order_rows :
    Gen.C19.orderObserved =
      List.zipWith (fun p c => (Attrs.run (orderRun p c)).st.trace.map Attrs.Ev.code)
        Gen.C19.orderParams Gen.C19.orderChunks := by decide +kernel

/-- the `Attrs.Run` of a row of Gen `privParams` -/
def privRowRun (p : List Nat) (chunks : List (Nat × Nat)) : Attrs.Run :=
  match p with
  | [sit, d, smode, suid, sgid, sat, smt, puid, pgid] =>
    Attrs.privRun (Attrs.Priv.ofCode sit) (d == 1) false false false smode suid sgid sat smt puid pgid
      (chunks.map fun c => List.replicate c.1 (if c.2 == 1 then 0 else 1))
  | _ => default

/-- **Privilege bridge.** Under every privilege situation the launcher could create (root; a non-root euid with CAP_CHOWN;
    a plain user; a member of the source's group) the system calls of the REAL `xz` on its file pair — including the
    fchown(owner) call, which is attempted whatever the euid, and the mode given to fchmod, which is narrowed exactly when
    the group could not be set — are the trace of `Attrs.run (privRun …)`; the exit status and the kernel's verdict on each
    fchown call agreed with chown(2) (otherwise the row carries a [96,…] / [95,…] marker and this fails). -/
theorem gen_priv_rows :
    Gen.C19.privObserved =
      List.zipWith (fun p c => (Attrs.run (privRowRun p c)).st.trace.map Attrs.Ev.code)
        Gen.C19.privParams Gen.C19.privChunks := by decide +kernel

/-- a [lseek n] [write 1] pair directly followed by the first attribute call: the "last write" of io_close() -/
def hasLastWrite : List (List Nat) → Bool
  | [2, _] :: [1, 1] :: [3, u] :: rest => true || hasLastWrite ([3, u] :: rest)
  | _ :: rest => hasLastWrite rest
  | [] => false

/-- The measurement is not vacuous: nine scenarios, at least four of which end in the last write of a sparse hole,
    and at least one without it. -/
theorem gen_order_covers :
    Gen.C19.orderObserved.length = 9 ∧ Gen.C19.orderParams.length = 9 ∧ Gen.C19.orderChunks.length = 9 ∧
    (Gen.C19.orderObserved.filter hasLastWrite).length ≥ 4 ∧
    (Gen.C19.orderObserved.filter fun t => !hasLastWrite t).length ≥ 1 := by decide

/-- `args_parse()` on 7 program names × 6 environment variants × 8 × 8 command-line option pairs (2688 real calls) -/
theorem gen_args_rows :
    Gen.C19.argsRows = (List.range 42).map fun j => (List.range 64).map fun i =>
      (parseArgs (Prog.ofCode (j / 6)) (envVariant (j % 6)).1 (envVariant (j % 6)).2
        (Opt.ofCode (i / 8) ++ Opt.ofCode (i % 8))).code := by
  decide +kernel

/-- the real `main()` (args_parse + both loops over names + read_name) with coder_run() replaced by a recorder, on 185 scenarios:
    operands × list mode (none, --files=F, --files0=F, list on stdin) × list contents (incl. "-", "--help", empty entries,
    missing final delimiter, NUL in a newline list) -/
theorem gen_main_rows :
    Gen.C19.mainRows.all (fun r => mainPlanCode r.1 r.2.1 r.2.2.1 == r.2.2.2) = true ∧ Gen.C19.mainRows.length = 185 := by
  decide +kernel

/-! ## naming: round trip -/

/-- Exact form. If compressing `name` (format `fmt`, optional custom suffix) yields `t`, then decompressing `t` with the
    same suffix option yields `name` again **iff** no built-in suffix shadows the cut. -/
theorem name_roundtrip_iff (fmt dfmt : Format) (custom : Option Name) (name t : Name)
    (hname : GoodBase name) (hsfx : ValidSuffix custom) (hraw : RawConsistent fmt dfmt)
    (hc : compressedName fmt custom name = some t) :
    uncompressedName dfmt custom t = some name ↔ ¬BuiltinShadows dfmt name t := by
  obtain ⟨_, _, s, rfl, hs⟩ := compressedNameT_some hc
  have hsne : s ≠ [] := by
    rcases hs with h | ⟨_, h⟩
    · exact (hsfx s h).1
    · exact (compSuffixes_head_in_uncompTable fmt s h).2
  have hts : testSuffix s (name ++ s) = name.length := testSuffix_append hname
  have hlen : name.length ≠ 0 := Nat.ne_of_gt (List.length_pos_iff.mpr hname.1)
  unfold uncompressedName uncompressedNameT BuiltinShadows
  by_cases hr : dfmt = .raw
  · -- raw on both sides: only the custom suffix exists
    have hfr : fmt = .raw := hraw.mpr hr
    subst hr; subst hfr
    rcases hs with h | ⟨_, h⟩
    · subst h
      simp [hts, hlen]
    · simp [compSuffixes] at h
  · simp only [ne_eq, hr, not_false_eq_true, if_true, true_and]
    cases hf : firstMatch uncompTable (name ++ s) with
    | none =>
      have hnone : ¬∃ n u, (none : Option (Nat × Name)) = some (n, u) ∧ ¬(n = name.length ∧ u = []) := by
        rintro ⟨n, u, h, _⟩; cases h
      rcases hs with h | ⟨_, h⟩
      · subst h
        simp [hts, hlen]
      · -- the default suffix is in the table, so the table cannot fail to match
        have hin := (compSuffixes_head_in_uncompTable fmt s h).1
        have := firstMatch_none hf (s, []) hin
        simp [hts] at this
        exact absurd this hname.1
    | some nu =>
      obtain ⟨n, u⟩ := nu
      obtain ⟨e, he, h1, h2⟩ := firstMatch_some hf
      obtain ⟨b, hb, _, hbn⟩ := testSuffix_pos (h1 ▸ h2 : testSuffix e (name ++ s) ≠ 0)
      have hn : n = b.length := by rw [← h1, hbn]
      have htake : (name ++ s).take n = b := by rw [hb, hn]; simp
      simp only [htake]
      have key : b ++ u = name ↔ (n = name.length ∧ u = []) := by
        constructor
        · intro hbu
          -- b ++ u = name and name ++ s = b ++ e  ⇒  u ++ s = e  ⇒  u = []
          have : b ++ (u ++ s) = b ++ e := by rw [← List.append_assoc, hbu, hb]
          have hue : u ++ s = e := List.append_cancel_left this
          rcases uncompTable_repl_len (e, u) he with hu | hl
          · simp only at hu; subst hu
            simp only [List.append_nil] at hbu
            exact ⟨by rw [hn, hbu], rfl⟩
          · have hlen2 := congrArg List.length hue
            simp only [List.length_append] at hlen2
            simp only at hl
            have : s.length = 0 := by omega
            exact absurd (List.length_eq_zero_iff.mp this) hsne
        · rintro ⟨hn', hu'⟩
          subst hu'
          have hbl : b.length = name.length := by omega
          have h3 := List.append_inj hb.symm hbl
          simp [h3.1]
      constructor
      · intro h
        rintro ⟨n', u', heq, hne⟩
        cases heq
        exact hne (key.mp (Option.some.inj h))
      · intro h
        by_cases hk : n = name.length ∧ u = []
        · exact congrArg some (key.mpr hk)
        · exact absurd ⟨n, u, rfl, hk⟩ h

/-- **name_roundtrip.** The target name chosen when compressing maps back to the original name when decompressing,
    unless a built-in suffix shadows the cut (`shadow_characterised` says exactly when that is). -/
theorem name_roundtrip (fmt dfmt : Format) (custom : Option Name) (name t : Name)
    (hname : GoodBase name) (hsfx : ValidSuffix custom) (hraw : RawConsistent fmt dfmt)
    (hc : compressedName fmt custom name = some t) (hns : ¬BuiltinShadows dfmt name t) :
    uncompressedName dfmt custom t = some name :=
  (name_roundtrip_iff fmt dfmt custom name t hname hsfx hraw hc).mpr hns

/-- Without a custom suffix there is no exception at all. -/
theorem name_roundtrip_builtin (fmt dfmt : Format) (name t : Name)
    (hname : GoodBase name) (hraw : RawConsistent fmt dfmt)
    (hc : compressedName fmt none name = some t) :
    uncompressedName dfmt none t = some name := by
  refine name_roundtrip fmt dfmt none name t hname (by intro c h; cases h) hraw hc ?_
  obtain ⟨_, _, s, rfl, hs⟩ := compressedNameT_some hc
  rcases hs with h | ⟨_, h⟩
  · cases h
  · have hin := (compSuffixes_head_in_uncompTable fmt s h).1
    have hts : testSuffix s (name ++ s) = name.length := testSuffix_append hname
    have hlen : name.length ≠ 0 := Nat.ne_of_gt (List.length_pos_iff.mpr hname.1)
    have := firstMatch_of_match (t := name ++ s) hin (by rw [hts]; exact hlen)
    rintro ⟨_, n, u, hf, hne⟩
    rw [this, hts] at hf
    cases hf
    exact hne ⟨rfl, rfl⟩

/-- **shadow_characterised.** For a valid custom suffix `s`, shadowing of `name ++ s` happens exactly when
    (A) `s` itself ends in a built-in suffix with something in front or with a ".tar" replacement (finding F3), or
    (B) `s` is a proper tail of a built-in suffix and `name` supplies the front part (the documented exception). -/
theorem shadow_characterised (dfmt : Format) (name s : Name)
    (hname : GoodBase name) (hslash : slash ∉ s) :
    BuiltinShadows dfmt name (name ++ s) ↔
      dfmt ≠ .raw ∧ (SuffixEndsInBuiltin s ∨ BuiltinSpansName name s) := by
  unfold BuiltinShadows
  constructor
  · rintro ⟨hr, n, u, hf, hne⟩
    refine ⟨hr, ?_⟩
    obtain ⟨e, he, h1, h2⟩ := firstMatch_some hf
    obtain ⟨b, hb, hgb, hbn⟩ := testSuffix_pos (h1 ▸ h2 : testSuffix e (name ++ s) ≠ 0)
    have hn : n = b.length := by rw [← h1, hbn]
    rcases List.append_eq_append_iff.mp hb with ⟨a, hba, hsa⟩ | ⟨c, hnc, hec⟩
    · -- the cut is inside (or at the start of) the suffix
      left
      refine ⟨(e, u), he, a, hsa, ?_⟩
      by_cases ha : a = []
      · right
        subst ha
        intro hu
        apply hne
        simp at hba
        exact ⟨by rw [hn, hba], hu⟩
      · exact Or.inl ha
    · by_cases hcn : c = []
      · left
        subst hcn
        simp at hnc hec
        refine ⟨(e, u), he, [], by simp [hec], Or.inr ?_⟩
        intro hu
        exact hne ⟨by rw [hn, hnc], hu⟩
      · right
        exact ⟨(e, u), he, c, b, hcn, hec, hnc, hgb⟩
  · rintro ⟨hr, hA | hB⟩
    · obtain ⟨⟨e, u⟩, he, r, hsr, hru⟩ := hA
      have hrs : slash ∉ r := by
        intro h; exact hslash (by rw [hsr]; exact List.mem_append_left _ h)
      have hg : GoodBase (name ++ r) := goodBase_append hname hrs
      have hts : testSuffix e (name ++ s) = (name ++ r).length := by
        have : name ++ s = (name ++ r) ++ e := by rw [hsr]; simp
        rw [this]; exact testSuffix_append hg
      have hpos : testSuffix e (name ++ s) ≠ 0 := by
        rw [hts]; exact Nat.ne_of_gt (List.length_pos_iff.mpr hg.1)
      refine ⟨hr, _, _, firstMatch_of_match he hpos, ?_⟩
      rintro ⟨hl, hu⟩
      rw [hts] at hl
      rcases hru with h | h
      · simp only [List.length_append] at hl
        exact h (List.length_eq_zero_iff.mp (by omega))
      · exact h hu
    · obtain ⟨⟨e, u⟩, he, q, b, hq, heq, hnb, hgb⟩ := hB
      have hts : testSuffix e (name ++ s) = b.length := by
        have : name ++ s = b ++ e := by
          simp only at heq
          rw [hnb, heq]; simp
        rw [this]; exact testSuffix_append hgb
      have hpos : testSuffix e (name ++ s) ≠ 0 := by
        rw [hts]; exact Nat.ne_of_gt (List.length_pos_iff.mpr hgb.1)
      refine ⟨hr, _, _, firstMatch_of_match he hpos, ?_⟩
      rintro ⟨hl, _⟩
      rw [hts, hnb] at hl
      simp only [List.length_append] at hl
      exact hq (List.length_eq_zero_iff.mp (by omega))

/-- Class B is the property's stated exception: it needs a **dot-less** custom suffix. -/
theorem shadow_span_is_dotless (name s : Name) (h : BuiltinSpansName name s) : dot ∉ s := by
  obtain ⟨⟨e, u⟩, he, q, b, hq, heq, _, _⟩ := h
  intro hd
  apply uncompTable_dot_first (e, u) he
  simp only at heq
  cases q with
  | nil => exact absurd rfl hq
  | cons x q' =>
    rw [heq]
    simp only [List.cons_append, List.tail_cons]
    exact List.mem_append_right _ hd

/-- Class A needs a dot in the custom suffix, so the two classes are disjoint and class A is never covered by the
    "dot-less custom suffix" exception: these are the instances recorded as finding F3. -/
theorem shadow_suffix_has_dot (s : Name) (h : SuffixEndsInBuiltin s) : dot ∈ s := by
  obtain ⟨⟨e, u⟩, he, r, hsr, _⟩ := h
  have := uncompTable_starts_with_dot (e, u) he
  simp only at this hsr
  rw [hsr]
  apply List.mem_append_right
  cases e with
  | nil => simp at this
  | cons x e' =>
    simp at this
    subst this
    exact List.mem_cons_self

/-! ## naming: skipping -/

/-- **already_suffixed_skipped.** A name that already ends in a suffix of the target format, or in the custom suffix,
    is not compressed (warning). -/
theorem already_suffixed_skipped (fmt : Format) (custom : Option Name) (b s : Name) (hb : GoodBase b)
    (hs : s ∈ compSuffixes fmt ∨ custom = some s) :
    compressedName fmt custom (b ++ s) = none := by
  have hts : testSuffix s (b ++ s) ≠ 0 := by
    rw [testSuffix_append hb]; exact Nat.ne_of_gt (List.length_pos_iff.mpr hb.1)
  unfold compressedName compressedNameT
  by_cases h1 : ((compSuffixes fmt).any fun s' => testSuffix s' (b ++ s) != 0) = true
  · rw [if_pos h1]
  · rw [if_neg h1]
    rcases hs with h | h
    · exfalso; apply h1
      simp only [List.any_eq_true]
      exact ⟨s, h, by simpa using hts⟩
    · subst h
      have : customMatches (some s) (b ++ s) = true := by simpa [customMatches] using hts
      rw [if_pos this]

/-- … and conversely a produced name is the source plus a non-empty suffix: never equal to the source,
    and nothing was refused that does not carry one of those suffixes. -/
theorem compressed_name_shape (fmt : Format) (custom : Option Name) (name t : Name) (hsfx : ValidSuffix custom)
    (hc : compressedName fmt custom name = some t) :
    ∃ s, s ≠ [] ∧ t = name ++ s ∧ t ≠ name := by
  obtain ⟨_, _, s, rfl, hs⟩ := compressedNameT_some hc
  have hsne : s ≠ [] := by
    rcases hs with h | ⟨_, h⟩
    · exact (hsfx s h).1
    · exact (compSuffixes_head_in_uncompTable fmt s h).2
  refine ⟨s, hsne, rfl, ?_⟩
  intro h
  have := congrArg List.length h
  simp only [List.length_append] at this
  exact hsne (List.length_eq_zero_iff.mp (by omega))

theorem compressed_none_iff (fmt : Format) (custom : Option Name) (name : Name) :
    compressedName fmt custom name = none ↔
      (∃ s ∈ compSuffixes fmt, testSuffix s name ≠ 0) ∨ (∃ c, custom = some c ∧ testSuffix c name ≠ 0) ∨
      (custom = none ∧ compSuffixes fmt = []) := by
  unfold compressedName compressedNameT
  by_cases h1 : ((compSuffixes fmt).any fun s' => testSuffix s' name != 0) = true
  · rw [if_pos h1]
    simp only [List.any_eq_true] at h1
    obtain ⟨s, hs, hm⟩ := h1
    simp only [true_iff]
    exact Or.inl ⟨s, hs, by simpa using hm⟩
  · rw [if_neg h1]
    have h1' : ¬∃ s ∈ compSuffixes fmt, testSuffix s name ≠ 0 := by
      rintro ⟨s, hs, hm⟩
      apply h1
      simp only [List.any_eq_true]
      exact ⟨s, hs, by simpa using hm⟩
    cases custom with
    | some c =>
      by_cases h2 : testSuffix c name = 0
      · simp [customMatches, h2, h1']
      · simp [customMatches, h2]
    | none =>
      cases hh : compSuffixes fmt with
      | nil => simp [customMatches]
      | cons a l => simp [customMatches, hh] at h1' ⊢; exact h1'

/-- **unknown_suffix_skipped.** If neither a built-in suffix (unless raw) nor the custom suffix matches, nothing is
    produced (warning) — and this is the only way to get nothing. -/
theorem unknown_suffix_skipped (dfmt : Format) (custom : Option Name) (t : Name) :
    uncompressedName dfmt custom t = none ↔
      (dfmt = .raw ∨ ∀ p ∈ uncompTable, testSuffix p.1 t = 0) ∧ (∀ c, custom = some c → testSuffix c t = 0) := by
  unfold uncompressedName uncompressedNameT
  by_cases hr : dfmt = .raw
  · subst hr
    cases custom with
    | none => simp
    | some c =>
      by_cases h : testSuffix c t = 0 <;> simp [h]
  · simp only [ne_eq, hr, not_false_eq_true, if_true, false_or]
    cases hf : firstMatch uncompTable t with
    | none =>
      have := firstMatch_none hf
      cases custom with
      | none => simp; exact fun a b hab => this (a, b) hab
      | some c =>
        by_cases h : testSuffix c t = 0
        · simp [h]; exact fun a b hab => this (a, b) hab
        · simp [h]
    | some nu =>
      obtain ⟨n, u⟩ := nu
      obtain ⟨e, he, h1, h2⟩ := firstMatch_some hf
      simp only [reduceCtorEq, false_iff, not_and]
      intro hall
      exact absurd (h1 ▸ hall (e, u) he) h2

/-- **at_least_one_char.** A produced uncompressed name consists of a non-empty part of the source name that does not
    end in '/', followed by nothing or ".tar": the last path component is never empty ("/.xz" is not turned into "/"),
    and the result differs from the source (the source is never overwritten by its own output). -/
theorem at_least_one_char (dfmt : Format) (custom : Option Name) (t r : Name) (hsfx : ValidSuffix custom)
    (h : uncompressedName dfmt custom t = some r) :
    ∃ b u, GoodBase b ∧ b <+: t ∧ r = b ++ u ∧ slash ∉ u ∧ GoodBase r ∧ r ≠ t := by
  unfold uncompressedName uncompressedNameT at h
  -- common conclusion from "entry (e,u) matched"
  have key : ∀ e u, testSuffix e t ≠ 0 → slash ∉ u → e ≠ u → r = t.take (testSuffix e t) ++ u →
      ∃ b u, GoodBase b ∧ b <+: t ∧ r = b ++ u ∧ slash ∉ u ∧ GoodBase r ∧ r ≠ t := by
    intro e u hm hu heu hr
    obtain ⟨b, hb, hgb, hbn⟩ := testSuffix_pos hm
    have htake : t.take (testSuffix e t) = b := by rw [hbn, hb]; simp
    rw [htake] at hr
    refine ⟨b, u, hgb, ⟨e, hb.symm⟩, hr, hu, hr ▸ goodBase_append hgb hu, ?_⟩
    rw [hr, hb]
    intro h
    exact heu (List.append_cancel_left h).symm
  by_cases hr : dfmt = .raw
  · subst hr
    simp only [ne_eq, not_true_eq_false, if_false] at h
    cases custom with
    | none => cases h
    | some c =>
      by_cases hm : testSuffix c t ≠ 0
      · simp only [hm, not_false_eq_true, if_true, Option.some.injEq] at h
        exact key c [] hm (by simp) (hsfx c rfl).1 (by simp [h])
      · simp [hm] at h
  · simp only [ne_eq, hr, not_false_eq_true, if_true] at h
    cases hf : firstMatch uncompTable t with
    | none =>
      rw [hf] at h
      cases custom with
      | none => cases h
      | some c =>
        by_cases hm : testSuffix c t ≠ 0
        · simp only [hm, not_false_eq_true, if_true, Option.some.injEq] at h
          exact key c [] hm (by simp) (hsfx c rfl).1 (by simp [h])
        · simp [hm] at h
    | some nu =>
      obtain ⟨n, u⟩ := nu
      rw [hf] at h
      obtain ⟨e, he, h1, h2⟩ := firstMatch_some hf
      simp only [Option.some.injEq] at h
      have hne : e ≠ u := uncompTable_repl_ne (e, u) he
      exact key e u (h1 ▸ h2) (uncompTable_no_slash (e, u) he).2.1 hne (by rw [h1]; exact h.symm)

/-- **suffix_set_rejects.** `suffix_set` is fatal exactly for the empty suffix and for suffixes containing '/';
    everything else is installed unchanged. -/
theorem suffix_set_rejects (s : Name) :
    (suffixSet s = none ↔ s = [] ∨ slash ∈ s) ∧ (∀ c, suffixSet s = some c → c = s ∧ ValidSuffix (some c)) := by
  unfold suffixSet
  have hb : (s.isEmpty || s.contains slash) = true ↔ (s = [] ∨ slash ∈ s) := by
    simp [List.isEmpty_iff]
  constructor
  · by_cases h : (s.isEmpty || s.contains slash) = true
    · rw [if_pos h]; simp only [true_iff]; exact hb.mp h
    · rw [if_neg h]; simp only [reduceCtorEq, false_iff]; exact fun h' => h (hb.mpr h')
  · intro c h
    by_cases hb : (s.isEmpty || s.contains slash) = true
    · rw [if_pos hb] at h; cases h
    · rw [if_neg hb] at h
      cases h
      refine ⟨rfl, ?_⟩
      intro c' hc'
      cases hc'
      have hb' := fun h' => hb (‹(s.isEmpty || s.contains slash) = true ↔ _›.mpr h')
      exact ⟨fun h' => hb' (Or.inl h'), fun h' => hb' (Or.inr h')⟩

/-! ## source refusal, overwrite protection, metadata -/

/-- The documented predicate, stated outright. -/
def SrcAccepted (s : Src) (f : Flags) : Prop :=
  -- it can be opened and is not a directory
  s.kind ≠ .missing ∧ s.kind ≠ .sock ∧ s.kind ≠ .dir ∧
  -- only regular files, unless writing to stdout
  (s.kind = .reg ∨ f.stdout = true) ∧
  -- no symbolic links, unless -c / -f / -k
  (s.symlink = false ∨ f.stdout = true ∨ f.force = true ∨ f.keep = true) ∧
  -- no setuid / setgid / sticky files and no files with several hard links, unless -c / -f / -k
  ((s.setuid = false ∧ s.setgid = false ∧ s.sticky = false ∧ s.nlink ≤ 1)
      ∨ f.stdout = true ∨ f.force = true ∨ f.keep = true)

instance (s : Src) (f : Flags) : Decidable (SrcAccepted s f) := by unfold SrcAccepted; infer_instance

theorem src_core_exact : ∀ (kind : Kind) (symlink setuid setgid sticky multi c fo k : Bool),
    srcDecisionCore kind symlink setuid setgid sticky multi ⟨c, fo, k⟩ = .ok ↔
      (kind ≠ .missing ∧ kind ≠ .sock ∧ kind ≠ .dir ∧ (kind = .reg ∨ c = true) ∧
       (symlink = false ∨ c = true ∨ fo = true ∨ k = true) ∧
       ((setuid = false ∧ setgid = false ∧ sticky = false ∧ multi = false) ∨ c = true ∨ fo = true ∨ k = true)) := by
  intro kind symlink setuid setgid sticky
  cases kind <;> cases symlink <;> cases setuid <;> cases setgid <;> cases sticky <;> decide

/-- **src_refusal_exact.** A file is processed iff the documented predicate holds
    (5 kinds × 2^8 combinations of link/mode/flag bits, kernel-decided; the same table is measured on the real
    `io_open_src()` in `gen_src_rows`). -/
theorem src_refusal_exact (s : Src) (f : Flags) : srcDecision s f = .ok ↔ SrcAccepted s f := by
  obtain ⟨c, fo, k⟩ := f
  unfold srcDecision SrcAccepted
  rw [src_core_exact]
  simp only [decide_eq_false_iff_not, Nat.not_lt]

/-- Everything that is not `ok` is a skip: a warning (exit status 2) for the policy refusals, an error for open(). -/
theorem src_refusal_kinds (s : Src) (f : Flags) :
    (srcDecision s f = .warnSymlink → s.symlink = true ∧ !(f.stdout || f.force || f.keep)) ∧
    (srcDecision s f = .warnNotRegular → s.kind ≠ .reg ∧ f.stdout = false) ∧
    (srcDecision s f = .warnSetuidSetgid → (s.setuid || s.setgid) = true) ∧
    (srcDecision s f = .warnSticky → s.sticky = true) ∧
    (srcDecision s f = .warnLinks → s.nlink > 1) := by
  obtain ⟨c, fo, k⟩ := f
  obtain ⟨kind, sy, su, sg, st, n⟩ := s
  unfold srcDecision
  by_cases hn : n > 1 <;> simp only [hn, decide_true, decide_false] <;>
    cases kind <;> cases sy <;> cases su <;> cases sg <;> cases st <;> cases c <;> cases fo <;> cases k <;> decide

/-- **mode_never_broader.** For every source mode 0..07777: the mode given to the target is a subset of the source's
    permission bits, never carries setuid/setgid/sticky; when the group can be set it is exactly the permission bits;
    when it cannot, group and other both get only what BOTH group and other had on the source. -/
theorem mode_never_broader (m : Nat) (hm : m < 4096) (groupFail : Bool) :
    destMode m groupFail &&& m = destMode m groupFail ∧
    destMode m groupFail &&& 0o7000 = 0 ∧ destMode m groupFail < 512 ∧
    (groupFail = false → destMode m groupFail = m &&& 0o777) ∧
    (groupFail = true →
      destMode m groupFail &&& 0o700 = m &&& 0o700 ∧
      (destMode m groupFail >>> 3) &&& 7 = ((m >>> 3) &&& 7) &&& (m &&& 7) ∧
      destMode m groupFail &&& 7 = ((m >>> 3) &&& 7) &&& (m &&& 7)) := by
  have key : (List.range 4096).all (fun m => [false, true].all fun g =>
      decide (destMode m g &&& m = destMode m g ∧
        destMode m g &&& 0o7000 = 0 ∧ destMode m g < 512 ∧
        (g = false → destMode m g = m &&& 0o777) ∧
        (g = true →
          destMode m g &&& 0o700 = m &&& 0o700 ∧
          (destMode m g >>> 3) &&& 7 = ((m >>> 3) &&& 7) &&& (m &&& 7) ∧
          destMode m g &&& 7 = ((m >>> 3) &&& 7) &&& (m &&& 7)))) = true := by decide +kernel
  have h1 := (List.all_eq_true.mp key) m (List.mem_range.mpr hm)
  have h2 := (List.all_eq_true.mp h1) groupFail (by cases groupFail <;> simp)
  exact of_decide_eq_true h2

/-- **exit_status_lattice.** With events that are warnings or errors: ERROR is absorbing, otherwise WARNING if anything
    was reported, otherwise SUCCESS; `--no-warn` maps WARNING (2) to SUCCESS (0) and nothing else. -/
theorem exit_status_lattice (events : List Status) (noWarn : Bool)
    (hev : ∀ e ∈ events, e = .warning ∨ e = .error) :
    runStatus events noWarn =
      if .error ∈ events then .error
      else if .warning ∈ events then (if noWarn then .success else .warning)
      else .success := by
  have fold : ∀ (evs : List Status) (init : Status), (∀ e ∈ evs, e = .warning ∨ e = .error) →
      evs.foldl setExitStatus init =
        if init = .error then .error else if .error ∈ evs then .error
        else if evs = [] then init else .warning := by
    intro evs
    induction evs with
    | nil => intro init _; cases init <;> simp
    | cons e rest ih =>
      intro init h
      have he := h e List.mem_cons_self
      have hrest : ∀ x ∈ rest, x = .warning ∨ x = .error := fun x hx => h x (List.mem_cons_of_mem _ hx)
      rw [List.foldl_cons, ih _ hrest]
      rcases he with rfl | rfl <;> cases init <;> simp [setExitStatus] <;>
        (by_cases hr : rest = [] <;> simp [hr])
  unfold runStatus
  rw [fold events .success hev]
  by_cases h1 : Status.error ∈ events
  · simp [h1, finalStatus]
  · by_cases h2 : events = []
    · subst h2; simp [finalStatus]
    · have hw : Status.warning ∈ events := by
        cases events with
        | nil => exact absurd rfl h2
        | cons e rest =>
          rcases hev e List.mem_cons_self with rfl | rfl
          · exact List.mem_cons_self
          · exact absurd List.mem_cons_self h1
      cases noWarn <;> simp [h1, h2, hw, finalStatus]

/-! ## which names are files, which is standard input (main.c) -/

/-- **files_list_name_never_stdin.** A name that comes from a `--files` / `--files0` list is always treated as a file,
    whatever it looks like ("-", "--", "-c", "--help", …); only the command-line operand "-" means standard input. -/
theorem files_list_name_never_stdin (listOnStdin : Bool) (name : Name) :
    nameTarget .filesList listOnStdin name = .file name := rfl

/-- … and that is the only way to get standard input (and not even that while the list itself is read from stdin). -/
theorem stdin_iff (src : NameSource) (listOnStdin : Bool) (name : Name) :
    nameTarget src listOnStdin name = .stdin ↔ (src = .cmdline ∧ name = dash ∧ listOnStdin = false) := by
  cases src <;> cases listOnStdin <;> by_cases h : name = dash <;> simp [nameTarget, h]

/-- `read_name()` never returns an empty name -/
theorem readNames_nonempty (d : UInt8) (l : List UInt8) (acc : Name) : ∀ n ∈ (readNames d l acc).1, n ≠ [] := by
  induction l generalizing acc with
  | nil => intro n hn; simp [readNames] at hn
  | cons b rest ih =>
    intro n hn
    unfold readNames at hn
    by_cases hb : (b == d) = true
    · rw [if_pos hb] at hn
      by_cases ha : acc.isEmpty = true
      · rw [if_pos ha] at hn; exact ih [] n hn
      · rw [if_neg ha] at hn
        rcases List.mem_cons.mp hn with rfl | h
        · intro h; exact ha (by simp [h])
        · exact ih [] n h
    · rw [if_neg hb] at hn
      by_cases h0 : (b == 0) = true
      · rw [if_pos h0] at hn; simp at hn
      · rw [if_neg h0] at hn; exact ih _ n hn

theorem readNames_append (d : UInt8) (n rest : List UInt8) (acc : Name)
    (hd : d ∉ n) (h0 : (0 : UInt8) ∉ n) :
    readNames d (n ++ rest) acc = readNames d rest (acc ++ n) := by
  induction n generalizing acc with
  | nil => simp
  | cons b t ih =>
    have hb : (b == d) = false := by
      simp only [List.mem_cons, not_or] at hd
      simpa using fun h => hd.1 h.symm
    have hz : (b == 0) = false := by
      simp only [List.mem_cons, not_or] at h0
      simpa using fun h => h0.1 h.symm
    simp only [List.cons_append]
    rw [readNames, hb, hz]
    simp only [Bool.false_eq_true, if_false]
    rw [ih _ (fun h => hd (List.mem_cons_of_mem _ h)) (fun h => h0 (List.mem_cons_of_mem _ h))]
    simp

/-- a well-formed list (every name non-empty, free of the delimiter and of NUL, each followed by the delimiter) is read back
    exactly, whatever bytes the names consist of otherwise ("-", "--help", "-c", …) -/
theorem readNames_join (d : UInt8) (names : List Name)
    (h : ∀ n ∈ names, n ≠ [] ∧ d ∉ n ∧ (0 : UInt8) ∉ n) :
    readNames d (names.flatMap fun n => n ++ [d]) [] = (names, false) := by
  induction names with
  | nil => simp [readNames]
  | cons n rest ih =>
    obtain ⟨hne, hd, h0⟩ := h n List.mem_cons_self
    simp only [List.flatMap_cons, List.append_assoc]
    rw [readNames_append d n _ [] hd h0]
    simp only [List.nil_append, List.singleton_append]
    rw [readNames]
    have hemp : n.isEmpty = false := by cases n <;> simp_all
    simp only [beq_self_eq_true, if_true, hemp, Bool.false_eq_true, if_false]
    rw [ih (fun m hm => h m (List.mem_cons_of_mem _ hm))]

/-- every entry of the list reaches `coder_run()` as a (non-empty) file name -/
theorem list_entry_is_file (d : UInt8) (bytes : List UInt8) (onStdin : Bool) :
    ∀ t ∈ (readNames d bytes []).1.map (nameTarget .filesList onStdin), ∃ n, n ≠ [] ∧ t = .file n := by
  intro t ht
  obtain ⟨n, hn, rfl⟩ := List.mem_map.mp ht
  exact ⟨n, readNames_nonempty d bytes [] n hn, rfl⟩

/-! ## how stdout mode is selected (args.c) -/

theorem foldl_applyOpt_flags (l : List Opt) (s : Settings) :
    ((l.foldl applyOpt s).flags.stdout = (s.flags.stdout || decide (Opt.stdout ∈ l))) ∧
    ((l.foldl applyOpt s).flags.keep = (s.flags.keep || decide (Opt.keep ∈ l))) ∧
    ((l.foldl applyOpt s).flags.force = (s.flags.force || decide (Opt.force ∈ l))) := by
  induction l generalizing s with
  | nil => simp
  | cons o rest ih =>
    rw [List.foldl_cons]
    have := ih (applyOpt s o)
    cases o <;> simp [applyOpt] at this ⊢ <;> (obtain ⟨h1, h2, h3⟩ := this; simp [h1, h2, h3])

/-- **stdout_implies_keep.** However stdout mode is selected — `-c`/`--stdout` on the command line, in `XZ_OPT`, in
    `XZ_DEFAULTS`, by the program name (`xzcat`, `lzcat`), or implicitly by `--test` — the source is kept. -/
theorem stdout_implies_keep (p : Prog) (envDefaults envOpt cmdline : List Opt) :
    (parseArgs p envDefaults envOpt cmdline).flags.stdout = true →
    (parseArgs p envDefaults envOpt cmdline).flags.keep = true := by
  unfold parseArgs finalizeSettings
  simp only
  split <;> simp_all

/-- … and these are all the ways: stdout mode is on iff the program is `xzcat`/`lzcat`, or the stdout option occurs in one
    of the three option sources, or the final mode is `--test`. -/
theorem stdout_selected_iff (p : Prog) (envDefaults envOpt cmdline : List Opt) :
    (parseArgs p envDefaults envOpt cmdline).flags.stdout = true ↔
      (p = .xzcat ∨ p = .lzcat ∨ Opt.stdout ∈ envDefaults ∨ Opt.stdout ∈ envOpt ∨ Opt.stdout ∈ cmdline ∨
       (parseArgs p envDefaults envOpt cmdline).mode = .test) := by
  have hf := (foldl_applyOpt_flags (envDefaults ++ envOpt ++ cmdline) (progDefaults p)).1
  have hp : (progDefaults p).flags.stdout = true ↔ (p = .xzcat ∨ p = .lzcat) := by cases p <;> simp [progDefaults]
  unfold parseArgs finalizeSettings
  simp only
  split
  · rename_i h
    simp only [true_iff]
    rw [hf] at h
    simp only [Bool.or_eq_true, decide_eq_true_eq, List.mem_append, beq_iff_eq] at h
    rcases h with (h | h) | h
    · rcases hp.mp h with h | h
      · exact Or.inl h
      · exact Or.inr (Or.inl h)
    · rcases h with (h | h) | h
      · exact Or.inr (Or.inr (Or.inl h))
      · exact Or.inr (Or.inr (Or.inr (Or.inl h)))
      · exact Or.inr (Or.inr (Or.inr (Or.inr (Or.inl h))))
    · exact Or.inr (Or.inr (Or.inr (Or.inr (Or.inr h))))
  · rename_i h
    rw [hf] at h ⊢
    simp only [Bool.or_eq_true, decide_eq_true_eq, List.mem_append, beq_iff_eq, not_or] at h ⊢
    constructor
    · intro h'
      rcases h' with h' | h'
      · exact absurd h' h.1.1
      · rcases h' with (h' | h') | h'
        · exact absurd h' h.1.2.1.1
        · exact absurd h' h.1.2.1.2
        · exact absurd h' h.1.2.2
    · intro h'
      rcases h' with h' | h' | h' | h' | h' | h'
      · exact absurd (hp.mpr (Or.inl h')) h.1.1
      · exact absurd (hp.mpr (Or.inr h')) h.1.1
      · exact absurd h' h.1.2.1.1
      · exact absurd h' h.1.2.1.2
      · exact absurd h' h.1.2.2
      · exact absurd h' h.2

/-- Outside `--test`, what `args_parse()` hands to file_io.c is `normFlags` of the collected options. -/
theorem parse_flags_norm (p : Prog) (envDefaults envOpt cmdline : List Opt)
    (h : (parseArgs p envDefaults envOpt cmdline).mode ≠ .test) :
    (parseArgs p envDefaults envOpt cmdline).flags =
      normFlags ((envDefaults ++ envOpt ++ cmdline).foldl applyOpt (progDefaults p)).flags := by
  unfold parseArgs finalizeSettings normFlags at *
  generalize (envDefaults ++ envOpt ++ cmdline).foldl applyOpt (progDefaults p) = s at *
  obtain ⟨m, ⟨so, fo, ke⟩, fm⟩ := s
  simp only at h ⊢
  cases m <;> cases so <;> simp_all

/-! ## one file through xz -/

/-- **keep_never_unlinks.** With `--keep` or `--stdout` (args.c turns the latter into the former) the source is never
    removed; and the source is removed only after a target file was completely written. -/
theorem keep_never_unlinks (c : FileCase) :
    ((c.flags.keep = true ∨ c.flags.stdout = true) → (runFile c).srcRemoved = false) ∧
    ((runFile c).srcRemoved = true → ∃ t m, (runFile c).action = .done t m) := by
  have hk : (c.flags.keep = true ∨ c.flags.stdout = true) → (normFlags c.flags).keep = true := by
    intro hk; unfold normFlags; rcases hk with h | h <;> simp [h]
  by_cases he : c.name.isEmpty = true
  · simp [runFile, he]
  · by_cases hst : (normFlags c.flags).stdout = true
    · cases hs : srcDecision c.src (normFlags c.flags) <;> simp [runFile, he, hs, hst]
    · cases hs : srcDecision c.src (normFlags c.flags) <;>
      cases hn : destName c.mode c.fmt c.custom c.name <;>
      cases hd : destDecision c.dest (normFlags c.flags) <;>
      simp [runFile, he, hs, hst, hn, hd] <;> exact fun h => hk h

/-- **overwrite_needs_force / never_from_nonregular.** A target file is written only if the source is a regular file that
    passed the refusal rules, the name mapping produced a name, and either nothing existed at that name or `--force`
    was given; then it gets the mode of `mode_never_broader`. -/
theorem done_requires (c : FileCase) (t : Name) (m : Nat) (h : (runFile c).action = .done t m) :
    c.name ≠ [] ∧ c.src.kind = .reg ∧ SrcAccepted c.src (normFlags c.flags) ∧ c.flags.stdout = false ∧
    destName c.mode c.fmt c.custom c.name = some t ∧
    (c.dest = .none ∨ c.flags.force = true) ∧ c.dest ≠ .dir ∧
    m = destMode c.srcMode c.groupFail := by
  by_cases he : c.name.isEmpty = true
  · simp [runFile, he] at h
  · by_cases hst : (normFlags c.flags).stdout = true
    · cases hs : srcDecision c.src (normFlags c.flags) <;> simp [runFile, he, hs, hst] at h
    · cases hs : srcDecision c.src (normFlags c.flags) <;>
      cases hn : destName c.mode c.fmt c.custom c.name <;>
      cases hd : destDecision c.dest (normFlags c.flags) <;>
      simp [runFile, he, hs, hst, hn, hd] at h
      -- only  ok / some t' / create  remains
      rename_i t'
      obtain ⟨rfl, rfl⟩ := h
      have hacc := (src_refusal_exact _ _).mp hs
      have hstd : c.flags.stdout = false := by simpa [normFlags] using hst
      have hreg : c.src.kind = .reg := by
        rcases hacc.2.2.2.1 with h | h
        · exact h
        · exact absurd h hst
      have hne : c.name ≠ [] := by simpa using he
      refine ⟨hne, hreg, hacc, hstd, rfl, ?_, ?_, rfl⟩
      · unfold destDecision at hd
        rw [if_neg hst] at hd
        by_cases hf : (normFlags c.flags).force = true
        · right; simpa [normFlags] using hf
        · left
          rw [if_neg hf] at hd
          by_cases hnn : c.dest = .none
          · exact hnn
          · rw [if_neg hnn] at hd; cases hd
      · unfold destDecision at hd
        rw [if_neg hst] at hd
        intro hdir
        by_cases hf : (normFlags c.flags).force = true
        · rw [if_pos hf, if_pos hdir] at hd; cases hd
        · rw [if_neg hf, hdir] at hd; simp at hd

/-- A skipped file (any warning or error before the target is opened) leaves source and target untouched:
    no removal, and the only outcome that creates or replaces something is `done`. -/
theorem skip_touches_nothing (c : FileCase) (h : ∀ t m, (runFile c).action ≠ .done t m) :
    (runFile c).srcRemoved = false := by
  cases hr : (runFile c).srcRemoved with
  | false => rfl
  | true =>
    obtain ⟨t, m, hd⟩ := (keep_never_unlinks c).2 hr
    exact absurd hd (h t m)

/-! ## metadata: the order of the system calls (Model/Attrs.lean) -/

/-- **attrs_copied_exactly.** After a successful run to a regular file (`OkRun`: coding succeeded and none of lseek /
    write / fchmod / futimens / fsync / close failed; fchown MAY fail), for EVERY sequence of io_write() calls — including
    one that ends in all-zero buffers, i.e. in a pending sparse hole that io_close() finishes with lseek + a one-byte
    write — with or without `dest_try_sparse`, `--keep`, `opt_synchronous`, as root or not:
    the target's content is the concatenation of the written buffers (holes read as zeros), its mtime and atime are the
    source's (ns), its mode is `destMode` of the source's mode with the group-fallback rule applied iff the new file got
    another group and fchown(group) failed (`mode_never_broader` is about that value), its owner is the source's iff
    fchown(owner) succeeded, its group the source's iff fchown(group) succeeded or it already was.
    Every write(2) of the model sets mtime to the strictly increasing clock, so `mtime = src.mtime` says that no write
    happens after futimens. -/
theorem attrs_copied_exactly (r : Attrs.Run) (h : Attrs.OkRun r) :
    (Attrs.run r).st.dest.content = r.chunks.flatten ∧
    (Attrs.run r).st.dest.mtime = r.src.mtime ∧ (Attrs.run r).st.dest.atime = r.src.atime ∧
    (Attrs.run r).st.dest.mode = destMode r.src.mode (decide (r.destGid ≠ r.src.gid) && !r.env.groupOk) ∧
    (Attrs.run r).st.dest.uid = (if r.env.ownerOk then r.src.uid else r.procUid) ∧
    (Attrs.run r).st.dest.gid = (if r.env.groupOk then r.src.gid else r.destGid) ∧
    (Attrs.run r).success = true ∧
    (Attrs.run r).srcRemoved = (!r.cfg.srcIsStdin && !r.cfg.keep && r.env.srcSame && r.env.srcUnlinkOk) := by
  have hd := Attrs.run_ok_dest r h
  obtain ⟨_, _, _, hs, hr⟩ := Attrs.run_ok_trace r h
  rw [hd]
  exact ⟨rfl, rfl, rfl, rfl, rfl, rfl, hs, hr⟩

/-- **Shape of the trace.** A successful run consists of writes and seeks only, followed by exactly
    fchown(owner), [fchown(group) iff the gid differs], fchmod, futimens, [fsync, fsync(dir), close(dir) iff synchronous],
    close(dest), [close(src), [unlink(src) iff not --keep and the name still is the opened file]]. -/
theorem attrs_trace_shape (r : Attrs.Run) (h : Attrs.OkRun r) :
    ∃ ws, (∀ e ∈ ws, e.isData = true) ∧ (Attrs.run r).st.trace = ws ++ Attrs.okCloseEvents r := by
  obtain ⟨ws, hd, ht, _, _⟩ := Attrs.run_ok_trace r h
  exact ⟨ws, hd, ht⟩

/-- a command-line run in which every system call but the two fchown calls succeeds is an `OkRun` -/
theorem privRun_ok (p : Attrs.Priv) (d keep noSparse noSync : Bool) (sm su sg sa smt pu pg : Nat) (chunks : List (List UInt8)) :
    Attrs.OkRun (Attrs.privRun p d keep noSparse noSync sm su sg sa smt pu pg chunks) := by
  constructor <;> simp [Attrs.privRun, Attrs.cliRun, Attrs.Env.allOk]

/-- **owner_chown_attempted.** fchown(owner) is ATTEMPTED in every successful run, whatever the effective uid: being root
    (`warn_fchown`) decides only whether a failure is reported. (The seeded change `warn_fchown && fchown(...)` breaks this.) -/
theorem owner_chown_attempted (r : Attrs.Run) (h : Attrs.OkRun r) :
    Attrs.Ev.chownOwner r.src.uid ∈ (Attrs.run r).st.trace := by
  obtain ⟨ws, _, ht⟩ := attrs_trace_shape r h
  rw [ht]
  apply List.mem_append_right
  simp [Attrs.okCloseEvents, Attrs.attrEvents]

/-- **owner_group_where_permitted.** Under each privilege situation (root; non-root with CAP_CHOWN; plain user; member of the
    source's group) the target gets the source's owner iff changing the owner is permitted, the source's group iff changing
    the group is permitted (or it already is that group), and the permission bits are narrowed by the group-fallback rule
    exactly when the group could not be set. -/
theorem owner_group_where_permitted (p : Attrs.Priv) (d keep noSparse noSync : Bool) (sm su sg sa smt pu pg : Nat)
    (chunks : List (List UInt8)) :
    let r := Attrs.privRun p d keep noSparse noSync sm su sg sa smt pu pg chunks
    (Attrs.run r).st.dest.uid = (if Attrs.ownerPermitted p pu su then su else pu) ∧
    (Attrs.run r).st.dest.gid = (if Attrs.groupPermitted p pg sg then sg else pg) ∧
    (Attrs.run r).st.dest.mode = destMode sm (decide (pg ≠ sg) && !Attrs.groupPermitted p pg sg) ∧
    (Attrs.run r).st.dest.mtime = smt ∧ (Attrs.run r).st.dest.atime = sa := by
  intro r
  have h := attrs_copied_exactly r (privRun_ok p d keep noSparse noSync sm su sg sa smt pu pg chunks)
  obtain ⟨_, hm, ha, hmode, hu, hg, _, _⟩ := h
  refine ⟨?_, ?_, ?_, hm, ha⟩
  · rw [hu]; simp [r, Attrs.privRun, Attrs.cliRun, Attrs.Env.allOk]
  · rw [hg]; simp [r, Attrs.privRun, Attrs.cliRun, Attrs.Env.allOk]
  · rw [hmode]; simp [r, Attrs.privRun, Attrs.cliRun, Attrs.Env.allOk]

/-- with CAP_CHOWN (or as root) owner and group are always the source's, whoever owns the source -/
theorem capable_copies_owner_and_group (p : Attrs.Priv) (hp : p = .root ∨ p = .capChown) (d keep noSparse noSync : Bool)
    (sm su sg sa smt pu pg : Nat) (chunks : List (List UInt8)) :
    let r := Attrs.privRun p d keep noSparse noSync sm su sg sa smt pu pg chunks
    (Attrs.run r).st.dest.uid = su ∧ (Attrs.run r).st.dest.gid = sg ∧ (Attrs.run r).st.dest.mode = sm &&& 0o777 := by
  intro r
  obtain ⟨h1, h2, h3, _, _⟩ := owner_group_where_permitted p d keep noSparse noSync sm su sg sa smt pu pg chunks
  rcases hp with rfl | rfl <;> simp_all [Attrs.ownerPermitted, Attrs.groupPermitted, destMode, r]

/-- **Every write precedes futimens**: wherever a futimens call sits in the trace of a successful run, it carries the
    source's times and no write to the destination follows it. -/
theorem no_write_after_futimens (r : Attrs.Run) (h : Attrs.OkRun r) (pre post : List Attrs.Ev) (a m : Nat)
    (hsplit : (Attrs.run r).st.trace = pre ++ .utimens a m :: post) :
    a = r.src.atime ∧ m = r.src.mtime ∧ ∀ e ∈ post, e.isWrite = false :=
  Attrs.no_write_after_utimens r h pre post a m hsplit

/-- **futimens precedes close(dest)**, and nothing but close(src) / unlink(src) follows close(dest). -/
theorem futimens_before_close (r : Attrs.Run) (h : Attrs.OkRun r) (pre post : List Attrs.Ev)
    (hsplit : (Attrs.run r).st.trace = pre ++ .closeDest :: post) :
    .utimens r.src.atime r.src.mtime ∈ pre ∧ (∀ e ∈ pre, e ≠ .closeSrc ∧ e ≠ .unlinkSrc ∧ e ≠ .unlinkDest) ∧
    post = Attrs.okAfterClose r :=
  Attrs.utimens_before_close r h pre post hsplit

/-- **unlink(src) is last, only after close(dest) succeeded, only without `--keep`** — for EVERY run of the model
    (any destination kind, any combination of failing system calls, `success` true or false). -/
theorem unlink_src_last (r : Attrs.Run) (h : Attrs.Ev.unlinkSrc ∈ (Attrs.run r).st.trace) :
    r.cfg.keep = false ∧ r.cfg.srcIsStdin = false ∧ r.success = true ∧ (Attrs.run r).success = true ∧
    (r.cfg.destKind = .file → r.env.closeOk = true) ∧
    ∃ pre, (Attrs.run r).st.trace = pre ++ [.closeSrc, .unlinkSrc] ∧ Attrs.Ev.unlinkSrc ∉ pre ∧ Attrs.Ev.closeSrc ∉ pre ∧
      Attrs.Ev.unlinkDest ∉ pre ∧ (r.cfg.destKind = .file → Attrs.Ev.closeDest ∈ pre) :=
  Attrs.unlink_src_last r h

/-! ## non-vacuity: the hypotheses are satisfiable, the exception classes are inhabited -/

/-- 8192 data bytes followed by two all-zero buffers and the final empty io_write(): the output ends in a sparse hole -/
private def sparseTailRun (keep : Bool) : Attrs.Run :=
  Attrs.cliRun true keep false false 0o4754 1234 2345 111 222 0 0 false true
    [List.replicate 8192 1, List.replicate 8192 0, List.replicate 8192 0, []]

example : Attrs.OkRun (sparseTailRun false) := by constructor <;> decide
example : (Attrs.run (sparseTailRun false)).st.trace =
    [.write 8192, .seek 16383, .write 1, .chownOwner 1234, .chownGroup 2345, .chmod 0o744, .utimens 111 222,
     .fsync, .fsyncDir, .closeDir, .closeDest, .closeSrc, .unlinkSrc] := by decide +kernel
-- the last write really moves mtime (to the clock: the 3rd system call), and futimens afterwards sets it to the source's
example : (Attrs.lastWrite (sparseTailRun false).cfg (sparseTailRun false).env true
      (Attrs.runWrites true (Attrs.initSt 0 0 0) (sparseTailRun false).chunks)).1.dest.mtime = 3 ∧
    (Attrs.run (sparseTailRun false)).st.dest.mtime = 222 := by decide +kernel
-- a failing close(dest): the junk is unlinked, the source stays
example : (Attrs.run { sparseTailRun false with env := { (sparseTailRun false).env with closeOk := false } }).st.trace =
    [.write 8192, .seek 16383, .write 1, .chownOwner 1234, .chownGroup 2345, .chmod 0o744, .utimens 111 222,
     .fsync, .fsyncDir, .closeDir, .closeDest, .unlinkDest, .closeSrc] := by decide +kernel

private def foo : Name := [0x66, 0x6f, 0x6f]
private def bXz : Name := [0x2e, 0x62] ++ sXz          -- ".b.xz"

example : GoodBase foo ∧ ValidSuffix (some bXz) ∧ RawConsistent .xz .auto := by
  refine ⟨by decide, ?_, by decide⟩
  intro c h; cases h; decide
example : compressedName .xz none foo = some (foo ++ sXz) := by decide
example : uncompressedName .auto none (foo ++ sXz) = some foo := by decide
example : compressedName .lzma none (foo ++ sTar) = some (foo ++ sTar ++ sLzma) := by decide
example : uncompressedName .auto none (foo ++ sTxz) = some (foo ++ sTar) := by decide
example : compressedName .xz none (foo ++ sXz) = none := by decide
example : uncompressedName .auto none foo = none := by decide
example : uncompressedName .auto none ([0x64, slash] ++ sXz) = none := by decide      -- "d/.xz": nothing would remain
example : compressedName .raw (some [0x2e, 0x72]) foo = some (foo ++ [0x2e, 0x72]) := by decide
example : uncompressedName .raw (some [0x2e, 0x72]) (foo ++ [0x2e, 0x72]) = some foo := by decide
-- finding F3 (class A): `-S .b.xz`
example : compressedName .xz (some bXz) foo = some (foo ++ bXz) ∧
    uncompressedName .auto (some bXz) (foo ++ bXz) = some (foo ++ [0x2e, 0x62]) := by decide
example : SuffixEndsInBuiltin bXz := ⟨(sXz, []), by decide, [0x2e, 0x62], rfl, Or.inl (by decide)⟩
-- documented exception (class B): "a.t" with `-S lz` spells ".tlz"
example : compressedName .xz (some [0x6c, 0x7a]) [0x61, 0x2e, 0x74] = some [0x61, 0x2e, 0x74, 0x6c, 0x7a] ∧
    uncompressedName .auto (some [0x6c, 0x7a]) [0x61, 0x2e, 0x74, 0x6c, 0x7a] = some ([0x61] ++ sTar) := by decide
example : BuiltinSpansName [0x61, 0x2e, 0x74] [0x6c, 0x7a] :=
  ⟨(sTlz, sTar), by decide, [0x2e, 0x74], [0x61], by decide, rfl, rfl, by decide⟩
example : (parseArgs .xzcat [] [] []).flags = ⟨true, false, true⟩ ∧ (parseArgs .xz [] [.stdout] [.force]).flags = ⟨true, true, true⟩ ∧
    (parseArgs .unxz [] [] []).flags = ⟨false, false, false⟩ ∧ (parseArgs .lzma [] [] []).fmt = .lzma := by decide
example : srcDecision ⟨.reg, false, false, false, false, 1⟩ ⟨false, false, false⟩ = .ok := by decide
example : srcDecision ⟨.reg, false, true, false, false, 1⟩ ⟨false, false, false⟩ = .warnSetuidSetgid := by decide
example : destMode 0o4755 false = 0o755 ∧ destMode 0o4754 true = 0o744 := by decide
example : runStatus [.warning, .error, .warning] true = .error ∧ runStatus [.warning] true = .success ∧
    runStatus [.warning] false = .warning := by decide

end XzVerif.C19
