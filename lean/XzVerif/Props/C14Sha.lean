/-
  C14 (second file) — SHA-256 and the integrity-check dispatch. Property theorems and non-vacuity examples only;
  helper lemmas are in Lemmas/Sha256Bits.lean, Sha256Transform.lean, Sha256Stream.lean, Check.lean.
  `sha256` is the FIPS 180-4 definition (Model/Sha256.lean part i); `transformC`/`updateC`/`finishC`/`sha256C` model
  sha256.c as written (part ii); `Gen.C14.*` is regenerated from the source on every run.
-/
import XzVerif.Model.Sha256
import XzVerif.Model.Check
import XzVerif.Gen.C14
import XzVerif.Lemmas.Sha256Bits
import XzVerif.Lemmas.Sha256Transform
import XzVerif.Lemmas.Sha256Stream
import XzVerif.Lemmas.Check

namespace XzVerif.C14
open XzVerif.Sha256

/-- `SHA256_K[64]` in sha256.c is the FIPS 180-4 table (which Model/Sha256.lean derives from the first 64 primes). -/
theorem sha256K_correct : Gen.C14.sha256K.map (BitVec.ofNat 32) = K := by decide +kernel

/-- The state written by `lzma_sha256_init` is the FIPS 180-4 initial hash value, and the byte counter starts at 0. -/
theorem sha256Init_correct : Gen.C14.sha256Init.map (BitVec.ofNat 32) = H0 ∧ Gen.C14.sha256InitSize = 0 := by
  decide +kernel

/-- The nested-rotate forms of the macros `S0 S1 s0 s1` and the `Ch`/`Maj` variants of sha256.c equal the textbook
    functions Σ0 Σ1 σ0 σ1 Ch Maj of FIPS 180-4 §4.1.2, for all 32-bit words. -/
theorem sha_sigma_forms (x y z : W32) :
    S0 x = bsig0 x ∧ S1 x = bsig1 x ∧ s0 x = ssig0 x ∧ s1 x = ssig1 x ∧ ChC x y z = Ch x y z ∧ MajC x y z = Maj x y z :=
  ⟨S0_eq x, S1_eq x, s0_eq x, s1_eq x, ChC_eq x y z, MajC_eq x y z⟩

/-- `transform()` (16-word rolling `W`, rotating `T[(k-i)&7]`, unrolled R0/R2) with the `SHA256_K` of the source
    computes the FIPS compression function, for every 8-word state and every 16-word block. -/
theorem sha_transform_eq (state data : List W32) (hs : state.length = 8) (hd : data.length = 16) :
    transformC (Gen.C14.sha256K.map (BitVec.ofNat 32)) state data = (compress (St.ofList state) data).toList := by
  rw [sha256K_correct]; exact transformC_eq state data hs hd

/-- init / update over ANY consecutive pieces (empty pieces allowed) / finish, as sha256.c does it (64-byte buffering,
    padding loop, big-endian bit length), with the constants of the source, yields FIPS 180-4 SHA-256 of the
    concatenation. `buf0` is whatever the 64-byte buffer contained before. (`sha256` is the standard for messages
    shorter than 2^61 bytes; beyond that both sides use the bit length modulo 2^64.) -/
theorem sha_stream_eq (buf0 : List UInt8) (hb : buf0.length = 64) (pieces : List (List UInt8)) :
    sha256C (Gen.C14.sha256K.map (BitVec.ofNat 32)) (Gen.C14.sha256Init.map (BitVec.ofNat 32)) buf0 pieces
      = sha256 pieces.flatten := by
  rw [sha256K_correct, sha256Init_correct.1]; exact sha256C_eq buf0 hb pieces

/-- Chunking independence of SHA-256 as computed by the C code: only the concatenation matters. -/
theorem sha_chunking (b1 b2 : List UInt8) (h1 : b1.length = 64) (h2 : b2.length = 64) (p1 p2 : List (List UInt8))
    (h : p1.flatten = p2.flatten) :
    sha256C (Gen.C14.sha256K.map (BitVec.ofNat 32)) (Gen.C14.sha256Init.map (BitVec.ofNat 32)) b1 p1
      = sha256C (Gen.C14.sha256K.map (BitVec.ofNat 32)) (Gen.C14.sha256Init.map (BitVec.ofNat 32)) b2 p2 := by
  rw [sha_stream_eq b1 h1, sha_stream_eq b2 h2, h]

/-- The buffering of `lzma_sha256_update/finish` is chunking independent for ANY block function (so this does not
    rest on `sha_transform_eq`): the final state is the fold over the blocks of the padded concatenation. -/
theorem sha_buffering_generic (tr : List W32 → List UInt8 → List W32) (s0 : List W32) (buf0 : List UInt8)
    (hb : buf0.length = 64) (pieces : List (List UInt8)) :
    (finishC tr (pieces.foldl (updateC tr) (initC s0 buf0))).state = (blocks (pad pieces.flatten)).foldl tr s0 :=
  (stream_generic tr s0 buf0 hb pieces).1

/-- The length field: for a grid of byte counts (0 … 2^61−1, including 2^29−1, 2^29, 2^32−1, 2^32) the eight bytes that
    the compiled `lzma_sha256_finish` leaves in `buffer.u8[56..63]` (tabulated by running it) are the big-endian value
    of `size * 8 mod 2^64`, as the model's `finishC` writes them — a carry lost between 32-bit halves breaks this. -/
theorem sha_length_field_bridge :
    Gen.C14.shaLenField.all (fun p => p.2 == lengthBitsC p.1) = true ∧ 12 ≤ Gen.C14.shaLenField.length := by
  decide +kernel

/-- … and that value is the FIPS 180-4 bit length `8·ℓ` for every message shorter than 2^61 bytes. -/
theorem sha_length_field (size : Nat) (h : size < 2 ^ 61) : lengthBitsC size = 8 * size := by
  unfold lengthBitsC; omega

/-! ### check.c -/

/-- `lzma_check_size()` for IDs 0…15 and above agrees with the sizes of file-format.txt 2.1.1.2. -/
theorem check_sizes_correct : Gen.C14.checkSizes = (List.range 17).map Check.checkSize ∧ Gen.C14.checkIdMax = Check.idMax := by
  decide +kernel

/-- `lzma_check_is_supported()`: None, CRC32, CRC64, SHA-256 and nothing else (in the build at hand). -/
theorem check_supported_correct : Gen.C14.checkSupported = (List.range 17).map Check.isSupported := by decide +kernel

/-- The parameters of the dispatch model taken from the source. -/
def implOfSource : Check.Impl :=
  { crc32 := Crc.crc32Ref, crc64 := Crc.crc64Ref,
    shaK := Gen.C14.sha256K.map (BitVec.ofNat 32), shaInit := Gen.C14.sha256Init.map (BitVec.ofNat 32) }

/-- `lzma_check_init/update*/finish` over any pieces: the Check field (first `lzma_check_size(id)` bytes of the buffer)
    is the little-endian CRC32 / CRC64 or the SHA-256 of the concatenation; for every other ID nothing is written. -/
theorem check_dispatch (s0 : Check.State) (hb : s0.buf.length = 64) (pieces : List (List UInt8)) :
    Check.run implOfSource 1 s0 pieces = Check.le32bytes (Crc.crc32Ref pieces.flatten 0) ∧
    Check.run implOfSource 4 s0 pieces = Check.le64bytes (Crc.crc64Ref pieces.flatten 0) ∧
    Check.run implOfSource 10 s0 pieces = sha256 pieces.flatten ∧
    ∀ id, id ≠ 1 → id ≠ 4 → id ≠ 10 →
      Check.run implOfSource id s0 pieces = s0.buf.take (if Check.checkSize id ≤ 64 then Check.checkSize id else 0) :=
  ⟨Check.run_crc32 _ rfl s0 pieces, Check.run_crc64 _ rfl s0 pieces,
   Check.run_sha256 _ sha256K_correct sha256Init_correct.1 s0 hb pieces,
   fun id h1 h4 h10 => Check.run_other _ id h1 h4 h10 s0 pieces⟩

/-! ### non-vacuity: FIPS 180-4 / NIST example values -/

example : sha256 [0x61, 0x62, 0x63] =
    [0xba, 0x78, 0x16, 0xbf, 0x8f, 0x01, 0xcf, 0xea, 0x41, 0x41, 0x40, 0xde, 0x5d, 0xae, 0x22, 0x23,
     0xb0, 0x03, 0x61, 0xa3, 0x96, 0x17, 0x7a, 0x9c, 0xb4, 0x10, 0xff, 0x61, 0xf2, 0x00, 0x15, 0xad] := by decide +kernel

example : sha256 [] =
    [0xe3, 0xb0, 0xc4, 0x42, 0x98, 0xfc, 0x1c, 0x14, 0x9a, 0xfb, 0xf4, 0xc8, 0x99, 0x6f, 0xb9, 0x24,
     0x27, 0xae, 0x41, 0xe4, 0x64, 0x9b, 0x93, 0x4c, 0xa4, 0x95, 0x99, 0x1b, 0x78, 0x52, 0xb8, 0x55] := by decide +kernel

end XzVerif.C14
