/-
  C14 (second file) — SHA-256 and the integrity-check dispatch. Property theorems only.
-/
import XzVerif.Model.Sha256
import XzVerif.Model.Check
import XzVerif.Gen.C14

namespace XzVerif.C14
open XzVerif.Sha256

/-- SHA256_K in sha256.c (regenerated from the source) is the FIPS 180-4 table. -/
theorem sha256K_correct : Gen.C14.sha256K.map (BitVec.ofNat 32) = K := by decide +kernel

end XzVerif.C14
