/-
  C01, END TO END, ALL INPUTS — the parser hypothesis discharged for two concrete parsers.

  Props/C01EndToEnd.lean leaves one abstract input, the parser, under the per-input contract `Accepts` (the executable chunker
  accepts its trace).  Here that contract is PROVED, for every input, for
    `literalParser`   every byte a literal;
    `runParser`       every run of ≥ 2 bytes repeating the byte before them is ONE normal match at distance 1 (up to 273 bytes),
                      everything else literals — so match symbols (length coder, distance slot 0) are covered;
  in general for every "stateless" parser (`E2E.ParserOk`: literals and normal matches that are valid where they are met, no
  rep symbols, `mf->read_ahead = 0`).  What has to be shown is that the chunker's OTHER checks can never fail: an LZMA chunk never
  exceeds 64 KiB compressed / 2 MiB uncompressed, an uncompressed chunk never exceeds 64 KiB, every chunk makes progress — this
  is the chunk-size rule at the top of the loop of `lzma_lzma_encode` (stop at `out_total + rc_pending ≥ 64 KiB − LOOP_INPUT_MAX`)
  together with "a symbol queues ≤ 60 range-coder operations and each shifts out ≤ 1 byte" (Lemmas/E2EAccept1–3.lean).

  Hence the round-trip theorems below have NO parser hypothesis.  Left: "the encoder model returned LZMA_OK" (`henc`; it returns
  an error only on the size limits of the format — LZMA_VLI_MAX, Index limits — and on unsupported chains/Checks), the output
  space `cap`, and for chains with the x86 filter pieces below 4 GiB − 5 (C15's hypothesis).
-/
import XzVerif.Props.C01EndToEnd
import XzVerif.Lemmas.E2EParsers

namespace XzVerif.C01E2E
open XzVerif XzVerif.Container XzVerif.XzDecode XzVerif.XzEncode XzVerif.XzEncEnv XzVerif.XzEnv XzVerif.E2E
open XzVerif.LzmaEnc XzVerif.Lzma2Enc

/-- **The chunker accepts every valid stateless trace**: `lzma2Encode` returns a result for every input `buf` (no preset
    dictionary) and every trace that is `TraceOk` — whatever chunking results. -/
theorem chunker_total (p : Lzma.Props) (d : Nat) (buf : ByteArray) (tr : Array TraceRec) (h : LzmaExec.TraceOk d buf tr) :
    ∃ res, lzma2Encode p d buf 0 tr = .ok res :=
  LzmaExec.lzma2Encode_total p d buf tr h

/-- a parser with the stateless contract is accepted on every input of every supported chain -/
theorem stateless_parser_accepts (p : Lzma.Props) (parser : Parser) (hp : ParserOk parser) (fs : List FilterOpts)
    (hfs : xzChain p fs = true) (x : List UInt8) : Accepts p parser fs x :=
  accepts_of_parserOk p parser hp fs hfs x

/-- **literalParser_accepts**: for every supported chain (LZMA2 alone, or behind any delta / BCJ filters) and EVERY input. -/
theorem literalParser_accepts (p : Lzma.Props) (fs : List FilterOpts) (hfs : xzChain p fs = true) (x : List UInt8) :
    Accepts p literalParser fs x :=
  accepts_of_parserOk p literalParser literalParser_ok fs hfs x

/-- **runParser_accepts**: the same for the parser that emits matches. -/
theorem runParser_accepts (p : Lzma.Props) (fs : List FilterOpts) (hfs : xzChain p fs = true) (x : List UInt8) :
    Accepts p runParser fs x :=
  accepts_of_parserOk p runParser runParser_ok fs hfs x

/-- `GoodInput` for a stateless parser is only the x86 length bound -/
theorem goodInput_of_parserOk (p : Lzma.Props) (parser : Parser) (hp : ParserOk parser) (fs : List FilterOpts)
    (hfs : xzChain p fs = true) (x : List UInt8) (hx : fs.any isX86 = true → x.length + 5 < 2 ^ 32) :
    GoodInput p parser fs x :=
  ⟨accepts_of_parserOk p parser hp fs hfs x, hx⟩

/-- **c02_hypotheses_discharged_literal**: every hypothesis of `C02.encoder_output_valid`, `_buffer`, `_mt` holds for the
    concrete environments with the literal parser (chains without x86) — the all-inputs `PayloadContract` is inhabited by the
    real LZMA2 models.  (Same for `runParser`.) -/
theorem c02_hypotheses_discharged_literal (p : Lzma.Props) (cfg : Cfg) (hfs : xzChain p cfg.filters = true)
    (hx86 : cfg.filters.any isX86 = false) :
    (∀ o ∈ cfg.filters, o.wf) ∧ (∃ n, validateChain (cfg.filters.map (·.id)) = .ok n) ∧
    CheckAgrees stdEnv (stdEncEnv p literalParser) ∧ PayloadContract stdEnv (stdEncEnv p literalParser) cfg.filters ∧
    UncompContract stdEnv :=
  c02_hypotheses_discharged p literalParser cfg hfs (literalParser_accepts p cfg.filters hfs) hx86

theorem c02_hypotheses_discharged_run (p : Lzma.Props) (cfg : Cfg) (hfs : xzChain p cfg.filters = true)
    (hx86 : cfg.filters.any isX86 = false) :
    (∀ o ∈ cfg.filters, o.wf) ∧ (∃ n, validateChain (cfg.filters.map (·.id)) = .ok n) ∧
    CheckAgrees stdEnv (stdEncEnv p runParser) ∧ PayloadContract stdEnv (stdEncEnv p runParser) cfg.filters ∧
    UncompContract stdEnv :=
  c02_hypotheses_discharged p runParser cfg hfs (runParser_accepts p cfg.filters hfs) hx86

/-- **xz_roundtrip_std for every stateless parser, no parser hypothesis per input** (multi-call encoder). -/
theorem xz_roundtrip_std_stateless (p : Lzma.Props) (parser : Parser) (hp : ParserOk parser) (cfg : Cfg)
    (blocks : List (List UInt8)) (out : List UInt8) (fl : Flags) (cap : Nat) (hfs : xzChain p cfg.filters = true)
    (hx86 : cfg.filters.any isX86 = true → ∀ d ∈ blocks, d.length + 5 < 2 ^ 32)
    (henc : streamEncodeST (stdEncEnv p parser) cfg blocks = .ok out) (hcap : blocks.flatten.length ≤ cap) :
    xzDecode stdEnv fl out cap
      = { ret := .streamEnd, out := blocks.flatten, consumed := out.length, events := headerEvents stdEnv fl cfg.check }
    ∧ ValidXz stdEnv fl out cap blocks.flatten out.length ∧ DValidXz stdEnv fl out cap blocks.flatten out.length :=
  xz_roundtrip_std p parser cfg blocks out fl cap hfs
    (fun d hd _ => goodInput_of_parserOk p parser hp cfg.filters hfs d (fun h => hx86 h d hd)) henc hcap

/-- **xz_roundtrip_std_literal**: for every supported chain, every Check, EVERY list of pieces (size guard only for x86
    chains): what the multi-call encoder model writes with the literal parser decodes to the input, LZMA_STREAM_END, all
    consumed, and is valid per both grammars. -/
theorem xz_roundtrip_std_literal (p : Lzma.Props) (cfg : Cfg) (blocks : List (List UInt8)) (out : List UInt8) (fl : Flags)
    (cap : Nat) (hfs : xzChain p cfg.filters = true)
    (hx86 : cfg.filters.any isX86 = true → ∀ d ∈ blocks, d.length + 5 < 2 ^ 32)
    (henc : streamEncodeST (stdEncEnv p literalParser) cfg blocks = .ok out) (hcap : blocks.flatten.length ≤ cap) :
    xzDecode stdEnv fl out cap
      = { ret := .streamEnd, out := blocks.flatten, consumed := out.length, events := headerEvents stdEnv fl cfg.check }
    ∧ ValidXz stdEnv fl out cap blocks.flatten out.length ∧ DValidXz stdEnv fl out cap blocks.flatten out.length :=
  xz_roundtrip_std_stateless p literalParser literalParser_ok cfg blocks out fl cap hfs hx86 henc hcap

/-- … and with the parser that emits matches. -/
theorem xz_roundtrip_std_run (p : Lzma.Props) (cfg : Cfg) (blocks : List (List UInt8)) (out : List UInt8) (fl : Flags)
    (cap : Nat) (hfs : xzChain p cfg.filters = true)
    (hx86 : cfg.filters.any isX86 = true → ∀ d ∈ blocks, d.length + 5 < 2 ^ 32)
    (henc : streamEncodeST (stdEncEnv p runParser) cfg blocks = .ok out) (hcap : blocks.flatten.length ≤ cap) :
    xzDecode stdEnv fl out cap
      = { ret := .streamEnd, out := blocks.flatten, consumed := out.length, events := headerEvents stdEnv fl cfg.check }
    ∧ ValidXz stdEnv fl out cap blocks.flatten out.length ∧ DValidXz stdEnv fl out cap blocks.flatten out.length :=
  xz_roundtrip_std_stateless p runParser runParser_ok cfg blocks out fl cap hfs hx86 henc hcap

/-- single-call encoder (incl. the uncompressed fall-back), every stateless parser, every input -/
theorem xz_roundtrip_std_buffer_stateless (p : Lzma.Props) (parser : Parser) (hp : ParserOk parser) (cfg : Cfg)
    (data out : List UInt8) (avail : Nat) (fl : Flags) (cap : Nat) (hfs : xzChain p cfg.filters = true)
    (hx86 : cfg.filters.any isX86 = true → data.length + 5 < 2 ^ 32)
    (henc : streamBufferEncode (stdEncEnv p parser) cfg data avail = .ok out) (hcap : data.length ≤ cap) :
    xzDecode stdEnv fl out cap
      = { ret := .streamEnd, out := data, consumed := out.length, events := headerEvents stdEnv fl cfg.check }
    ∧ ValidXz stdEnv fl out cap data out.length ∧ DValidXz stdEnv fl out cap data out.length ∧ out.length ≤ avail :=
  xz_roundtrip_std_buffer p parser cfg data out avail fl cap hfs
    (fun _ => goodInput_of_parserOk p parser hp cfg.filters hfs data hx86) henc hcap

/-- threaded encoder's container, every stateless parser, every input -/
theorem xz_roundtrip_std_mt_stateless (p : Lzma.Props) (parser : Parser) (hp : ParserOk parser) (cfg : Cfg) (blockSize : Nat)
    (pieces : List (List UInt8)) (out : List UInt8) (fl : Flags) (cap : Nat) (hfs : xzChain p cfg.filters = true)
    (hx86 : cfg.filters.any isX86 = true → blockSize + 5 < 2 ^ 32)
    (henc : streamEncodeMT (stdEncEnv p parser) cfg blockSize pieces = .ok out) (hcap : pieces.flatten.length ≤ cap) :
    xzDecode stdEnv fl out cap
      = { ret := .streamEnd, out := pieces.flatten, consumed := out.length, events := headerEvents stdEnv fl cfg.check }
    ∧ ValidXz stdEnv fl out cap pieces.flatten out.length ∧ DValidXz stdEnv fl out cap pieces.flatten out.length := by
  refine xz_roundtrip_std_mt p parser cfg blockSize pieces out fl cap hfs ?_ henc hcap
  intro d hd _
  refine goodInput_of_parserOk p parser hp cfg.filters hfs d (fun h => ?_)
  have hb := hx86 h
  -- every piece `chunksOf` cuts is at most `blockSize` long
  have hlen : ∀ (fuel : Nat) (l : List UInt8), ∀ c ∈ chunksOf blockSize fuel l, c.length ≤ blockSize := by
    intro fuel
    induction fuel with
    | zero => intro l c hc; simp [chunksOf] at hc
    | succ fuel ih =>
      intro l c hc
      simp only [chunksOf] at hc
      split at hc
      · cases hc
      · rcases List.mem_cons.mp hc with rfl | hc
        · rw [List.length_take]; exact Nat.min_le_left _ _
        · exact ih _ c hc
  obtain ⟨q, _, hq⟩ := List.mem_flatMap.mp hd
  have := hlen q.length q d hq
  omega

/-! non-vacuity: both parsers really differ, and the run parser's trace for "abbbbbc" has a match of length 4 -/
example : (runParser exP 4096 (toBuf [0x61, 0x62, 0x62, 0x62, 0x62, 0x62, 0x63])).toList.map (fun r => (r.back, r.len, r.pos))
    = [(4294967295, 1, 1), (4, 4, 2), (4294967295, 1, 6)] := by decide +kernel

/-! the run parser through the whole stack: "a" + 12 × "b" + "c" is coded as literal, literal, MATCH(len 11), literal in one LZMA
    chunk; the encoder model returns LZMA_OK (kernel, via the payload table as in Props/C01EndToEnd.lean), so
    `xz_roundtrip_std_run` applies with nothing left to assume -/

def exRunData : List UInt8 := [0x61] ++ List.replicate 12 0x62 ++ [0x63]

def exRunTable : List (List UInt8 × List UInt8) :=
  [(exRunData, [224, 0, 13, 0, 8, 0, 0, 48, 153, 205, 221, 231, 147, 40, 0, 0])]

def exRunOut : List UInt8 :=
  [253, 55, 122, 88, 90, 0, 0, 1, 105, 34, 222, 54, 2, 0, 33, 1, 0, 0, 0, 0, 55, 39, 151, 214, 224, 0, 13, 0, 8,
   0, 0, 48, 153, 205, 221, 231, 147, 40, 0, 0, 251, 177, 181, 180, 0, 1, 32, 14, 142, 188, 186, 82, 144, 66, 153, 13, 1,
   0, 0, 0, 0, 1, 89, 90]

theorem exRunTable_ok : ∀ e ∈ exRunTable, rawEncodeK exP runParser exCfg.filters e.1 = some e.2 := by decide +kernel

theorem exRunOut_table : streamEncodeST (tableEnv exP exRunTable) exCfg [exRunData] = .ok exRunOut := by decide +kernel

theorem exRun_roundtrip :
    streamEncodeST (stdEncEnv exP runParser) exCfg [exRunData] = .ok exRunOut ∧
    xzDecode stdEnv {} exRunOut = { ret := .streamEnd, out := exRunData, consumed := exRunOut.length,
                                    events := headerEvents stdEnv {} exCfg.check } := by
  obtain ⟨_, henc⟩ := stream_of_table exP runParser exCfg [exRunData] exRunTable exRunTable_ok (by decide +kernel)
  have he : streamEncodeST (stdEncEnv exP runParser) exCfg [exRunData] = .ok exRunOut := by rw [henc]; exact exRunOut_table
  have := (xz_roundtrip_std_run exP exCfg [exRunData] exRunOut {} UNLIMITED (by decide)
    (fun h => by simp [exCfg, isX86] at h) he (by decide)).1
  exact ⟨he, by simpa using this⟩

/-! ### MicroLZMA's first byte -/

/-- `lzma_microlzma_encoder` overwrites the FIRST byte of the LZMA1 stream with `~props` (bitwise-not of the lc/lp/pb byte) and
    `lzma_microlzma_decoder` puts 0x00 back before decoding.  `C01.outlimit_prefix` is stated on the range coder's own bytes
    (`res.out`, before that replacement); this theorem says the replaced byte is always 0x00, so the replacement loses nothing:
    the decoder's 0x00 restores exactly `res.out`.  For every trace the limited encoder model accepts. -/
theorem microlzma_first_byte (p : Lzma.Props) (hp : LzmaSym.PropsOk p) (dictSize : Nat) (hd : dictSize ≤ 4294967295) (limit : Nat)
    (hlim : limit ≠ 0) (preset data : ByteArray) (trace : Array TraceRec) (res : EncResult)
    (h : lzma1Encode p dictSize false limit (preset ++ data) preset.size trace = .ok res) :
    res.out.head? = some 0 := by
  have hsz : (preset ++ data).size = preset.size + data.size := ByteArray.size_append
  obtain ⟨syms, ops, posF, stF, henc, hout, _⟩ :=
    LzmaExec.lzma1Encode_sound_limit p dictSize limit hlim (preset ++ data) preset.size trace res (by omega) h
  have hall := (LzmaExec.encSyms_allLt p hp dictSize hd syms 0 {} (by decide) _ henc).1
  rw [hout]
  exact C01.rc_first_byte_zero _ _ (LzmaSym.initProbs_ok p ops hall)

end XzVerif.C01E2E
