/-
  C17 — xz never loses user data when I/O fails, a signal arrives or the process dies.
  Theorems over the state-machine model of the file-pair protocol (Model/XzIo.lean).  `run c de n` is the state after
  at most `n` system calls: quantifying over `n` covers every prefix of every run, i.e. every instant at which the
  process may be killed.  All theorems hold for every option set, fault function, signal position, foreign rename,
  source size and coder schedule (`c : Cfg α` is universally quantified).
-/
import XzVerif.Lemmas.XzIoStep
import XzVerif.Gen.C17
import XzVerif.Lemmas.XzIoBlkStep
import XzVerif.Lemmas.XzIoQ4
import XzVerif.Lemmas.XzIoQ5
import XzVerif.Lemmas.XzIoQ2c
import XzVerif.Lemmas.XzIoQ7
import XzVerif.Lemmas.XzIoQ9

namespace XzVerif.C17
open XzVerif.XzIo
variable {α : Type}

/-- The source inode exists, or the target created by this run holds the complete coder output (and has been
    fsync'ed, file and directory, when syncing is on).  Holds after every number of system calls = at every crash point. -/
theorem src_or_complete_target (c : Cfg α) (hsp : SparseOk c.zero c.ops) (dstExists : Bool) (n : Nat) :
    let s := run c dstExists n
    s.fs.srcLinked = true ∨
      (s.fs.ownLinked = true ∧ content s.fs.own = payload c.ops ∧ (c.o.syncEff = true → s.fs.durable = true)) := by
  intro s
  have i := inv_run hsp dstExists n
  cases h : s.fs.srcLinked with
  | true => exact Or.inl rfl
  | false => exact Or.inr (i.srcGone h).2.2.2.2

/-- The source is never removed with -k, -c, --test or when reading standard input, and only by a successful run. -/
theorem src_kept_when_requested (c : Cfg α) (hsp : SparseOk c.zero c.ops) (dstExists : Bool) (n : Nat)
    (h : c.o.keep = true ∨ c.o.stdout = true ∨ c.o.mode = .test ∨ c.o.stdin = true) :
    (run c dstExists n).fs.srcLinked = true := by
  have i := inv_run hsp dstExists n
  cases hs : (run c dstExists n).fs.srcLinked with
  | true => rfl
  | false =>
    obtain ⟨_, _, hk, hi, _⟩ := i.srcGone hs
    simp [Opts.keepEff, Opts.toStdout] at hk
    rcases h with h | h | h | h <;> simp_all

/-- Without --force a target that existed before xz started is never unlinked, whatever fails and whenever the
    process dies.  If moreover no other process renames it away, it keeps its name, xz creates no file of its own
    (open() uses O_CREAT|O_EXCL and fails with EEXIST) and the source is kept. -/
theorem never_overwrite (c : Cfg α) (hsp : SparseOk c.zero c.ops) (hf : c.o.force = false) (n : Nat) :
    let s := run c true n
    s.fs.preLinked = true ∧
      (c.moveAt = none → s.fs.dstName = some inoPre ∧ s.fs.ownLinked = false ∧ s.fs.srcLinked = true) := by
  intro s
  have q := q4_runN hf n _ (q4_start (c := c) hf true 0 0)
  refine ⟨q.pre, fun hm => ?_⟩
  have := q.still hm rfl
  refine ⟨this.1, this.2, ?_⟩
  rcases src_or_complete_target c hsp true n with h | h
  · exact h
  · have h1 : s.fs.ownLinked = true := h.1
    have h2 : s.fs.ownLinked = false := this.2
    rw [h2] at h1; exact absurd h1 (by simp)

/-- Every `unlink(target)` in every trace is directly preceded by the lstat()/stat() of io_unlink whose inode is
    the one fstat() returned right after this run created the target (traces are newest first).  The unlink of
    `--force` before the creation is a different call (`Call.unlinkForce`). -/
theorem only_own_target_unlinked (c : Cfg α) (dstExists : Bool) (n : Nat) (pre post : List Event) (r : Res)
    (h : (run c dstExists n).trace = pre ++ ⟨.unlink .dst, r⟩ :: post) :
    ∃ follow v rest, post = ⟨.stat .dst follow, .ok v⟩ :: rest ∧ ⟨.fstat .dst, .ok v⟩ ∈ rest ∧ v ≠ 0 := by
  have q : UnlinkGuarded (run c dstExists n).trace :=
    (q5_runN (c := c) n _ (q5_start (c := c) dstExists 0 0)).guarded
  have key : ∀ (tr : List Event), UnlinkGuarded tr → ∀ pre, tr = pre ++ ⟨.unlink .dst, r⟩ :: post →
      ∃ follow v rest, post = ⟨.stat .dst follow, .ok v⟩ :: rest ∧ ⟨.fstat .dst, .ok v⟩ ∈ rest ∧ v ≠ 0 := by
    intro tr hg pre
    induction pre generalizing tr with
    | nil => intro e; subst e; exact hg.1 rfl
    | cons p ps ih => intro e; subst e; exact ih _ hg.2 rfl
  exact key _ q pre h

/-- `unlink(source)` appears in a trace only after, in this order (oldest first): futimens (end of io_copy_attrs),
    fsync(target) ok, fsync(directory) ok (both only when syncing is on), close(target) ok — and then the target holds
    the complete coder output, the run was successful, and none of -k, -c, --test, stdin was in force.
    (`SubPat` reads newest first: the head of the pattern is the most recent event.) -/
theorem unlink_src_last (c : Cfg α) (hsp : SparseOk c.zero c.ops) (dstExists : Bool) (n : Nat)
    (h : ∃ e ∈ (run c dstExists n).trace, e.call = .unlink .src) :
    let s := run c dstExists n
    SubPat (isUnlinkSrc :: isCloseDstOk ::
        (if c.o.syncEff then [isFsyncDirOk, isFsyncDstOk, isFutimens] else [isFutimens])) s.trace = true ∧
      content s.fs.own = payload c.ops ∧ s.fs.ownLinked = true ∧ s.success = true ∧
      c.o.keepEff = false ∧ c.o.stdin = false := by
  intro s
  have i := inv_run hsp dstExists n
  have q := q2_runN hsp n _ (inv_start hsp dstExists 0 0) (q2_start (c := c) dstExists 0 0)
  obtain ⟨hp, hs, hk, hi, hpat⟩ := q.srcUnl h
  have fd := fileDest_of_noKeep hk hi
  have hg := i.pcinv
  have hp' : s.pc = .done := hp
  simp only [PcInv] at hg
  have hg' : Good c s := by
    have : PcInv c s := i.pcinv
    unfold PcInv at this
    rw [hp'] at this
    exact this hs fd.1 fd.2
  exact ⟨hpat, hg'.2.1, hg'.1, hs, hk, hi⟩

/-- A run that has ended with success (coding loop finished, every call of io_close that matters succeeded) and writes
    to a file has produced exactly the coder output: nothing lost, nothing duplicated, whatever EINTR / EAGAIN /
    short counts were injected on the way (`c.fault` is arbitrary), and it is durable when syncing is on. -/
theorem success_complete (c : Cfg α) (hsp : SparseOk c.zero c.ops) (dstExists : Bool) (n : Nat)
    (hd : (run c dstExists n).pc = .done) (hs : (run c dstExists n).success = true)
    (hf : c.o.destStdout = false) (ht : c.o.mode ≠ .test) :
    let s := run c dstExists n
    s.fs.ownLinked = true ∧ content s.fs.own = payload c.ops ∧ (c.o.syncEff = true → s.fs.durable = true) := by
  intro s
  have : PcInv c s := (inv_run hsp dstExists n).pcinv
  unfold PcInv at this
  rw [show s.pc = .done from hd] at this
  exact this hs hf ht

/-- `failure_cleanup`, for every fault function, signal position, foreign rename and schedule:
    (1) once a hard I/O error is in the trace (read/write/poll failing with anything but EINTR/EAGAIN, a failing
        open, fstat(source), fsync, close(target) or `--force` unlink), a finished run has `success = false`
        (so has a run that saw invalid input, `c.fin = .error`, or a signal before the coding loop completed — these set
        `success = false` directly in the model);
    (2) as long as the run has not succeeded — at every prefix, hence at every crash point — the source inode exists
        and no `unlink(source)` has been attempted;
    (3) a finished unsuccessful run is "loud": non-zero exit status, or a signal was seen (xz then dies by it);
        this includes EPIPE without SIGPIPE (findings/C17-epipe-with-sigpipe-ignored.json, fixed in /repo by fad6dfb);
    (4) when no other process renames the target, a finished unsuccessful run has unlinked the target it created,
        unless fstat / lstat / unlink of that target were themselves made to fail. -/
theorem failure_cleanup (c : Cfg α) (hsp : SparseOk c.zero c.ops) (dstExists : Bool) (n : Nat) :
    let s := run c dstExists n
    (s.pc = .done → (∃ e ∈ s.trace, hardErr e = true) → s.success = false) ∧
    (s.success = false → s.fs.srcLinked = true ∧ ∀ e ∈ s.trace, e.call ≠ .unlink .src) ∧
    (s.pc = .done → s.success = false → s.exitSt ≠ 0 ∨ s.userAbort = true) ∧
    (c.moveAt = none → s.pc = .done → s.success = false → s.fs.ownLinked = true →
      ∃ e ∈ s.trace, cleanupFault e = true) := by
  intro s
  have i := inv_run hsp dstExists n
  have q := q2_runN hsp n _ (inv_start hsp dstExists 0 0) (q2_start (c := c) dstExists 0 0)
  have q7 : Q7 s := q7_runN n _ (q7_start (c := c) dstExists 0 0)
  refine ⟨?_, ?_, ?_, ?_⟩
  · intro hd hh
    rcases (q7.hard hh).1 with h | h
    · exact h
    · rw [show s.pc = .done from hd] at h; simp at h
  · intro hs
    constructor
    · cases h : s.fs.srcLinked with
      | true => rfl
      | false =>
        have h1 : s.success = true := (i.srcGone h).2.1
        rw [hs] at h1; exact absurd h1 (by simp)
    · intro e he hc
      have h1 : s.success = true := (q.srcUnl ⟨e, he, hc⟩).2.1
      rw [hs] at h1; exact absurd h1 (by simp)
  · intro hd hs
    exact q7.sad (by rw [show s.pc = .done from hd]; rfl) hs
  · intro hm hd hs ho
    have q9 : Q9 s := q9_runN hm n _ (q9_start (c := c) dstExists 0 0)
    exact q9.n3 (by rw [show s.pc = .done from hd]; rfl) hs ho

/-- EINTR, EAGAIN and short counts never turn into failure and never lose or duplicate bytes.  If every failed call
    in the trace is an EINTR/EAGAIN on read/write/poll (or the ENOENT of the `--force` unlink) — short counts are not
    failures at all —, no signal arrived, the input is valid and the source acceptable, then a finished run has
    succeeded, and (writing to a file) the target holds exactly the coder output, durably when syncing is on.
    (Exit status: such a run emits no error; warnings can still come from a source renamed by another process.) -/
theorem eintr_eagain_retry (c : Cfg α) (hsp : SparseOk c.zero c.ops) (dstExists : Bool) (n : Nat)
    (hi : c.init = .ok) (hf : c.fin = .ok) (hk : c.srcSkip = false)
    (hb : ∀ e ∈ (run c dstExists n).trace, benign e = true)
    (hua : (run c dstExists n).userAbort = false) (hd : (run c dstExists n).pc = .done) :
    let s := run c dstExists n
    s.success = true ∧
      (c.o.destStdout = false → c.o.mode ≠ .test →
        s.fs.ownLinked = true ∧ content s.fs.own = payload c.ops ∧ (c.o.syncEff = true → s.fs.durable = true)) := by
  intro s
  have q6 : Q6 s := q6_runN hi hf hk n _ (q6_start (c := c) hi hf dstExists 0 0)
  have hs : s.success = true := (q6 hb hua).ok (by rw [show s.pc = .done from hd]; rfl)
  exact ⟨hs, fun h1 h2 => success_complete c hsp dstExists n hd hs h1 h2⟩

/-- While a write is in progress nothing has been lost yet: what is on disk, the hole being skipped, the rest of the
    buffer in flight and the requests still to come always add up to the whole output — whatever short counts,
    EINTR or EAGAIN occurred so far. -/
theorem write_layout (c : Cfg α) (hsp : SparseOk c.zero c.ops) (dstExists : Bool) (n : Nat)
    (hw : (run c dstExists n).pc = .write ∨ (run c dstExists n).pc = .writePoll) :
    let s := run c dstExists n
    s.destOpen = true →
      content s.fs.own ++ List.replicate (s.hole + s.pending) c.zero ++ s.wr ++ payload s.ops = payload c.ops := by
  intro s
  have : PcInv c s := (inv_run hsp dstExists n).pcinv
  unfold PcInv at this
  rcases hw with hw | hw <;> rw [show s.pc = _ from hw] at this <;> exact this.2.2.2.1

/-- Signal blocking is balanced on every path.  `blk` is signals_block_count (signals.c): it is 1 exactly inside
    io_open_src / io_open_dest / io_close and 0 everywhere else, for every option set, fault function, signal position
    and schedule, after any number of system calls.  In particular it is 0 while the coding loop reads, writes and polls
    (a termination signal is then delivered at once) and 0 when a file is finished, i.e. at the boundary to the next
    file of the same invocation.  The message and progress paths (vmessage, progress_flush with its two early returns,
    message_progress_start) are proved to give the state back unchanged whatever the verbosity, `finished`,
    `progress_active` and the positions are (`vmessage_id`, `progressFlush_id`, `progressStart_id`), which is why the
    step function elides them.  The tie to the code: the interposer records the blocked set at every call and the
    correspondence compares it with `blk` (runs with -q, -v, -vv, files failing before any output, several files). -/
theorem signals_balanced (c : Cfg α) (dstExists : Bool) (n : Nat) :
    let s := run c dstExists n
    s.blk = (if s.pc.region then 1 else 0) ∧
    (s.pc = .done → s.blk = 0) ∧
    (s.pc = .read ∨ s.pc = .readPoll ∨ s.pc = .write ∨ s.pc = .writePoll → s.blk = 0) ∧
    (∀ a b f g p, progressFlush a b f g p s = s) ∧ (∀ p, vmessage p s = s) := by
  intro s
  have q : QB s := qb_runN n _ (qb_start (c := c) dstExists 0 0)
  refine ⟨q, ?_, ?_, fun a b f g p => progressFlush_id a b f g p s, fun p => vmessage_id p s⟩
  · intro h; rw [q, h]; rfl
  · rintro (h | h | h | h) <;> rw [q, h] <;> rfl

/-- The exit path (src/common/tuklib_exit.c, shared by xz, xzdec and lzmainfo): a failing close of standard output is
    never answered with exit status 0, an earlier error status is kept, and without such a failure the status is
    unchanged.  The model has no verbosity at all: the exit status and the handling of the files do not depend on
    -q / -qq / -v (message_error()/message_warning() set the status whether or not the text is shown); the
    correspondence runs the failure scenarios under each verbosity against this one model. -/
theorem exit_path (status : Nat) :
    tuklibExit status true ≠ 0 ∧ tuklibExit 1 true = 1 ∧ tuklibExit status false = status := by
  unfold tuklibExit
  refine ⟨?_, by simp, by simp⟩
  split
  · simp
  · rename_i h
    intro h0
    exact h ⟨by omega, rfl⟩

/-- The model does not contain IO_BUFFER_SIZE at all: the sizes of the io_read()/io_write() requests come from the
    schedule `c.ops`, over which every theorem above quantifies; so they hold for every buffer size.  What the code
    itself needs from the constant (regenerated from src/xz/file_io.h on every run) is checked here: positive, a
    multiple of 8 (is_sparse reads uint64_t words), and `io_buf` has exactly that size. -/
theorem io_buffer_size_ok :
    0 < Gen.C17.ioBufferSize ∧ Gen.C17.ioBufferSize % 8 = 0 ∧ Gen.C17.ioBufSizeof = Gen.C17.ioBufferSize := by decide

/-! ### non-vacuity: concrete runs of the model -/

/-- compress 3 bytes, output 2+1 bytes, no fault: 19 system calls, source removed, target complete and durable -/
def exCfg : Cfg Nat :=
  { o := {}, srcSize := 3, ops := [.tick, .read 8192, .tick, .write [1, 2] false, .write [3] false], fin := .ok,
    fault := fun _ => none, zero := 0 }

example : (run exCfg false 30).pc = .done ∧ (run exCfg false 30).fs.srcLinked = false ∧
    content (run exCfg false 30).fs.own = [1, 2, 3] ∧ (run exCfg false 30).fs.durable = true ∧
    (run exCfg false 30).k = 19 := by decide +kernel

/-- the same run with close(target) failing (call 16): target unlinked, source kept, exit status 1 -/
example : let c := { exCfg with fault := fun k => if k = 16 then some (.err 5) else none }
    (run c false 30).pc = .done ∧ (run c false 30).fs.srcLinked = true ∧ (run c false 30).fs.ownLinked = false ∧
    (run c false 30).exitSt = 1 ∧ (run c false 30).success = false := by decide +kernel

/-- a signal before the first read: nothing is converted, the created target is removed, the source is kept -/
example : let c := { exCfg with signalAt := some 6 }
    (run c false 30).pc = .done ∧ (run c false 30).fs.srcLinked = true ∧ (run c false 30).fs.ownLinked = false ∧
    (run c false 30).userAbort = true := by decide +kernel

/-- an existing target without --force: `unlink source` never happens and the old target stays -/
example : (run exCfg true 30).pc = .done ∧ (run exCfg true 30).fs.preLinked = true ∧
    (run exCfg true 30).fs.srcLinked = true ∧ (run exCfg true 30).exitSt = 1 := by decide +kernel

/-- the hypotheses of `unlink_src_last` are satisfiable: the fault-free run does unlink the source -/
example : ∃ e ∈ (run exCfg false 30).trace, e.call = .unlink .src := by decide +kernel

/-- EINTR on the write, then a short count: the target still holds exactly the output -/
example : let c := { exCfg with fault := fun k => if k = 8 then some (.err EINTR) else if k = 9 then some (.short 1) else none }
    (run c false 40).pc = .done ∧ content (run c false 40).fs.own = [1, 2, 3] ∧ (run c false 40).success = true := by decide +kernel

/-- the hypotheses of `eintr_eagain_retry` are satisfiable by a run that did see EINTR and a short count -/
example : let c := { exCfg with fault := fun k => if k = 8 then some (.err EINTR) else if k = 9 then some (.short 1) else none }
    (∀ e ∈ (run c false 40).trace, benign e = true) ∧ (run c false 40).userAbort = false ∧ (run c false 40).pc = .done ∧
    (⟨.write 2, .err EINTR⟩ : Event) ∈ (run c false 40).trace := by decide +kernel

/-- the hypotheses of `failure_cleanup` (1) are satisfiable: ENOSPC on the first write; the target is removed -/
example : let c := { exCfg with fault := fun k => if k = 8 then some (.err 28) else none }
    (run c false 40).pc = .done ∧ (∃ e ∈ (run c false 40).trace, hardErr e = true) ∧ (run c false 40).fs.ownLinked = false ∧
    (run c false 40).exitSt = 1 := by decide +kernel

/-- clause (4) of `failure_cleanup` is not vacuous: fstat(target) fails (call 5), then the write fails (call 8):
    xz does not know the inode of its target, refuses to unlink it, and the partial file stays — with the fault in the trace -/
example : let c := { exCfg with fault := fun k => if k = 5 then some (.err 5) else if k = 8 then some (.err 28) else none }
    (run c false 40).pc = .done ∧ (run c false 40).success = false ∧ (run c false 40).fs.ownLinked = true ∧
    (∃ e ∈ (run c false 40).trace, cleanupFault e = true) := by decide +kernel

/-- EPIPE on a write while SIGPIPE is ignored (no signal in the model): exit status 1, target removed -/
example : let c := { exCfg with fault := fun k => if k = 8 then some (.err EPIPE) else none }
    (run c false 40).pc = .done ∧ (run c false 40).exitSt = 1 ∧ (run c false 40).userAbort = false ∧
    (run c false 40).fs.ownLinked = false ∧ (run c false 40).fs.srcLinked = true := by decide +kernel

end XzVerif.C17
