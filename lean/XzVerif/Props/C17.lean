import XzVerif.Model.XzIo
namespace XzVerif.C17
end XzVerif.C17
