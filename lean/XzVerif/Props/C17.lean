/-
  C17 — xz never loses user data when I/O fails, a signal arrives or the process dies.
  Theorems over the state-machine model of the file-pair protocol (Model/XzIo.lean).  `run c de n` is the state after
  at most `n` system calls: quantifying over `n` covers every prefix of every run, i.e. every instant at which the
  process may be killed.  All theorems hold for every option set, fault function, signal position, foreign rename,
  source size and coder schedule (`c : Cfg α` is universally quantified).
-/
import XzVerif.Lemmas.XzIoStep
import XzVerif.Lemmas.XzIoQ4
import XzVerif.Lemmas.XzIoQ5

namespace XzVerif.C17
open XzVerif.XzIo
variable {α : Type}

/-- The source inode exists, or the target created by this run holds the complete coder output (and has been
    fsync'ed, file and directory, when syncing is on).  Holds after every number of system calls = at every crash point. -/
theorem src_or_complete_target (c : Cfg α) (hsp : SparseOk c.zero c.ops) (dstExists : Bool) (n : Nat) :
    let s := run c dstExists n
    s.fs.srcLinked = true ∨
      (s.fs.ownLinked = true ∧ content s.fs.own = payload c.ops ∧ (c.o.syncEff = true → s.fs.durable = true)) := by
  intro s
  have i := inv_run hsp dstExists n
  cases h : s.fs.srcLinked with
  | true => exact Or.inl rfl
  | false => exact Or.inr (i.srcGone h).2.2.2.2

/-- The source is never removed with -k, -c, --test or when reading standard input, and only by a successful run. -/
theorem src_kept_when_requested (c : Cfg α) (hsp : SparseOk c.zero c.ops) (dstExists : Bool) (n : Nat)
    (h : c.o.keep = true ∨ c.o.stdout = true ∨ c.o.mode = .test ∨ c.o.stdin = true) :
    (run c dstExists n).fs.srcLinked = true := by
  have i := inv_run hsp dstExists n
  cases hs : (run c dstExists n).fs.srcLinked with
  | true => rfl
  | false =>
    obtain ⟨_, _, hk, hi, _⟩ := i.srcGone hs
    simp [Opts.keepEff, Opts.toStdout] at hk
    rcases h with h | h | h | h <;> simp_all

/-- Without --force a target that existed before xz started is never unlinked, whatever fails and whenever the
    process dies.  If moreover no other process renames it away, it keeps its name, xz creates no file of its own
    (open() uses O_CREAT|O_EXCL and fails with EEXIST) and the source is kept. -/
theorem never_overwrite (c : Cfg α) (hsp : SparseOk c.zero c.ops) (hf : c.o.force = false) (n : Nat) :
    let s := run c true n
    s.fs.preLinked = true ∧
      (c.moveAt = none → s.fs.dstName = some inoPre ∧ s.fs.ownLinked = false ∧ s.fs.srcLinked = true) := by
  intro s
  have q := q4_runN hf n _ (q4_start (c := c) hf true 0 0)
  refine ⟨q.pre, fun hm => ?_⟩
  have := q.still hm rfl
  refine ⟨this.1, this.2, ?_⟩
  rcases src_or_complete_target c hsp true n with h | h
  · exact h
  · have h1 : s.fs.ownLinked = true := h.1
    have h2 : s.fs.ownLinked = false := this.2
    rw [h2] at h1; exact absurd h1 (by simp)

/-- Every `unlink(target)` in every trace is directly preceded by the lstat()/stat() of io_unlink whose inode is
    the one fstat() returned right after this run created the target (traces are newest first).  The unlink of
    `--force` before the creation is a different call (`Call.unlinkForce`). -/
theorem only_own_target_unlinked (c : Cfg α) (dstExists : Bool) (n : Nat) (pre post : List Event) (r : Res)
    (h : (run c dstExists n).trace = pre ++ ⟨.unlink .dst, r⟩ :: post) :
    ∃ follow v rest, post = ⟨.stat .dst follow, .ok v⟩ :: rest ∧ ⟨.fstat .dst, .ok v⟩ ∈ rest ∧ v ≠ 0 := by
  have q : UnlinkGuarded (run c dstExists n).trace :=
    (q5_runN (c := c) n _ (q5_start (c := c) dstExists 0 0)).guarded
  have key : ∀ (tr : List Event), UnlinkGuarded tr → ∀ pre, tr = pre ++ ⟨.unlink .dst, r⟩ :: post →
      ∃ follow v rest, post = ⟨.stat .dst follow, .ok v⟩ :: rest ∧ ⟨.fstat .dst, .ok v⟩ ∈ rest ∧ v ≠ 0 := by
    intro tr hg pre
    induction pre generalizing tr with
    | nil => intro e; subst e; exact hg.1 rfl
    | cons p ps ih => intro e; subst e; exact ih _ hg.2 rfl
  exact key _ q pre h

end XzVerif.C17
