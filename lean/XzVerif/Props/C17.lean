/-
  C17 — xz never loses user data when I/O fails, a signal arrives or the process dies.
  Theorems over the state-machine model of the file-pair protocol (Model/XzIo.lean).  `run c de n` is the state after
  at most `n` system calls: quantifying over `n` covers every prefix of every run, i.e. every instant at which the
  process may be killed.  All theorems hold for every option set, fault function, signal position, foreign rename,
  source size and coder schedule (`c : Cfg α` is universally quantified).
-/
import XzVerif.Lemmas.XzIoStep

namespace XzVerif.C17
open XzVerif.XzIo
variable {α : Type}

/-- The source inode exists, or the target created by this run holds the complete coder output (and has been
    fsync'ed, file and directory, when syncing is on).  Holds after every number of system calls = at every crash point. -/
theorem src_or_complete_target (c : Cfg α) (hsp : SparseOk c.zero c.ops) (dstExists : Bool) (n : Nat) :
    let s := run c dstExists n
    s.fs.srcLinked = true ∨
      (s.fs.ownLinked = true ∧ content s.fs.own = payload c.ops ∧ (c.o.syncEff = true → s.fs.durable = true)) := by
  intro s
  have i := inv_run hsp dstExists n
  cases h : s.fs.srcLinked with
  | true => exact Or.inl rfl
  | false => exact Or.inr (i.srcGone h).2.2.2.2

/-- The source is never removed with -k, -c, --test or when reading standard input, and only by a successful run. -/
theorem src_kept_when_requested (c : Cfg α) (hsp : SparseOk c.zero c.ops) (dstExists : Bool) (n : Nat)
    (h : c.o.keep = true ∨ c.o.stdout = true ∨ c.o.mode = .test ∨ c.o.stdin = true) :
    (run c dstExists n).fs.srcLinked = true := by
  have i := inv_run hsp dstExists n
  cases hs : (run c dstExists n).fs.srcLinked with
  | true => rfl
  | false =>
    obtain ⟨_, _, hk, hi, _⟩ := i.srcGone hs
    simp [Opts.keepEff, Opts.toStdout] at hk
    rcases h with h | h | h | h <;> simp_all

end XzVerif.C17
