/-
  C12 — flush actions make all prior input decodable; mid-stream option changes are safe.
  Only property theorems, Gen bridges and non-vacuity examples live here; helper lemmas are in Lemmas/Flush*.lean.

  The statements are about the model of Model/Flush.lean: the control logic of lz_encode/fill_window, lzma2_encode,
  lzma2_encoder_options_update, block_encode, stream_encode, stream_encoder_update and lzma_code, with the compressor
  ABSTRACT: `Codec.choose` decides chunk sizes and payloads, `Codec.dec` is the chunk decoder, and the theorems assume
  the contract `Codec.Sound` as an explicit hypothesis (`hE : ∀ i, (E.codec i).Sound`). A history is a `List Op` of
  `Op.code action data` (RUN data | SYNC_FLUSH | FULL_FLUSH | FULL_BARRIER | FINISH, each possibly with new input)
  and `Op.update chain` (lzma_filters_update); "at every flush completion" is expressed by quantifying over ALL
  histories `ops` that end in the flush in question.
-/
import XzVerif.Lemmas.FlushRaw
import XzVerif.Gen.C12

namespace XzVerif.C12
open XzVerif XzVerif.Flush

/-! ## Gen bridges: tables produced by RUNNING the real functions of /repo on stub coders equal what the model's
    decision kernels say (kernel evaluation). -/

theorem action_values : Gen.C12.actionValues = Action.all.map Action.code := by decide

theorem ret_values : (Gen.C12.retOk, Gen.C12.retStreamEnd, Gen.C12.retOptionsError, Gen.C12.retProgError)
    = (Ret.ok.toNat, Ret.streamEnd.toNat, Ret.optionsError.toNat, Ret.progError.toNat) := by decide

/-- Model row for `stream_encode()` at SEQ_BLOCK_ENCODE when the Block encoder answers `blockRet`:
    (action handed to the Block encoder, return value, sequence afterwards, Index Records added). -/
def streamBlockEncodeRow (a : Action) (blockRet : Ret) : Nat × Nat × Nat × Nat :=
  if returnsInnerRet a blockRet then ((convert a).code, blockRet.toNat, SSeq.blockEncode.code, 0)
  else match blockInitNoInput a with
    | some r => ((convert a).code, r.toNat, SSeq.blockInit.code, 1)
    | none => ((convert a).code, Ret.streamEnd.toNat, SSeq.streamFooter.code, 1)

/-- `convert[]`, the "return unless the Block ended" test, the Index append and what follows it. -/
theorem stream_block_encode_table :
    Gen.C12.streamBlockEncode = Action.all.flatMap fun a => [Ret.ok, Ret.streamEnd].map fun r =>
      let (seen, ret, seq, n) := streamBlockEncodeRow a r
      (a.code, r.toNat, seen, ret, seq, n) := by decide

/-- SEQ_BLOCK_INIT without input: no Block is started for any action; only LZMA_FINISH goes on (to the Index). -/
theorem stream_block_init_table :
    Gen.C12.streamBlockInitNoInput.map (fun (a, ret, seq, _) => (a, ret, seq)) = Action.all.map fun a =>
      match blockInitNoInput a with
      | some r => (a.code, r.toNat, SSeq.blockInit.code)
      | none => (a.code, Ret.streamEnd.toNat, SSeq.streamFooter.code) := by decide

theorem stream_seq_values : Gen.C12.streamSeqValues =
    [SSeq.streamHeader, .blockInit, .blockHeader, .blockEncode, .indexEncode, .streamFooter].map SSeq.code := by decide

/-- `block_encode()`: SYNC_FLUSH never ends the Block, FINISH + STREAM_END pads and writes the Check. -/
theorem block_encode_table :
    Gen.C12.blockEncode = ([(Action.run, Ret.ok), (.syncFlush, .ok), (.syncFlush, .streamEnd), (.finish, .ok), (.finish, .streamEnd)].map
      fun (a, r) =>
        if returnsInnerRet a r then (a.code, r.toNat, a.code, r.toNat, 0, 0)
        else (a.code, r.toNat, a.code, Ret.streamEnd.toNat, 2, (4 - 5 % 4) % 4 + checkSize 1)) := by decide

theorem lzma2_limits : (Gen.C12.LZMA2_CHUNK_MAX, Gen.C12.LZMA2_UNCOMPRESSED_MAX) = (LZMA2_CHUNK_MAX, LZMA2_UNCOMPRESSED_MAX) := by decide

/-- `lzma2_encode()` at SEQ_INIT with nothing unencoded: STREAM_END for every flush, end marker only for FINISH. -/
theorem lzma2_seq_init_table :
    Gen.C12.lzma2SeqInitNoInput = Action.all.map fun a =>
      let (ret, marker) := lzma2SeqInitNoInput a
      (a.code, ret.toNat, if marker then 1 else 0, if marker then 0 else 999) := by decide

/-- chunk header control bytes, header lengths and the properties byte for all eight flag combinations -/
theorem lzma2_header_table :
    Gen.C12.lzma2HeaderLzma.all (fun (np, ns, nd, ctl, len, props, after) =>
      let h := lzmaHeader (np == 1) (ns == 1) (nd == 1) ⟨1, 2, 3⟩ 1 1
      ctl == lzmaControl (np == 1) (ns == 1) (nd == 1) && (h.headD 0).toNat == ctl && h.length == len
        && (if np == 1 then (h.getD 5 0).toNat else 999) == props && after == 0) = true
    ∧ Gen.C12.lzma2HeaderLzma.map (fun (np, ns, nd, _) => (np, ns, nd))
        = [(0, 0, 0), (0, 0, 1), (0, 1, 0), (0, 1, 1), (1, 0, 0), (1, 0, 1), (1, 1, 0), (1, 1, 1)] := by decide

theorem lzma2_stored_table :
    Gen.C12.lzma2HeaderStored = [false, true].map fun nd => (nd.toNat, ((storedHeader nd 1).headD 0).toNat, 0) := by decide

/-- `lzma2_encoder_options_update()` for every sequence value and a set of valid/invalid new options. -/
theorem lzma2_options_update_table :
    Gen.C12.lzma2OptionsUpdate.all (fun (seq, lc, lp, pb, ret, np, ns, lcAfter) =>
      let l : L2 Unit := { opt := ⟨3, 0, 2⟩, needProps := false, needStateReset := false, needDictReset := false,
                           st := (), hist := [], unenc := if seq = 0 then [] else [0] }
      let (l', r) := l.optionsUpdate ⟨lc, lp, pb⟩
      r.toNat == ret && l'.needProps.toNat == np && l'.needStateReset.toNat == ns && l'.opt.lc == lcAfter) = true := by decide

/-- `fill_window()`: only a flush/finish action whose input has all been taken lets the encoder reach the end of
    the window (read_limit = write_pos) and is recorded in mf.action. -/
theorem fill_window_table :
    Gen.C12.fillWindow.all (fun (a, take, ret, mfa, limit, wpos) =>
      match Action.ofCode a with
      | none => false
      | some act =>
        let (ma, rl) := fillWindow act (take == 10) take 4 0
        ret == 0 && wpos == take && ma.code == mfa && rl == limit
          && (lzFlushing act (take == 10) == (limit == wpos))) = true := by decide

/-- the `pending` replay: every skipped byte is handed to the match finder again and read_pos returns to where it was -/
theorem fill_window_pending : Gen.C12.fillWindowPending = (0, 3, 5) := by decide

/-- BCJ (`simple_code`) and LZMA1 (`lzma_encode`) answer SYNC_FLUSH with LZMA_OPTIONS_ERROR without taking input. -/
theorem refusal_tables :
    Gen.C12.simpleCode = ([Action.run, .syncFlush, .finish].map fun a =>
      if refusesSync a then (a.code, Ret.optionsError.toNat, 0) else (a.code, (if a == .finish then Ret.streamEnd else Ret.ok).toNat, 3))
    ∧ Gen.C12.lzma1SyncFlush = (Ret.optionsError.toNat, 0) := by decide

/-- `supported_actions[]` of the public encoders -/
theorem supported_actions :
    Gen.C12.supported.lookup "lzma_stream_encoder" = some supportedStream ∧
    Gen.C12.supported.lookup "lzma_easy_encoder" = some supportedStream ∧
    Gen.C12.supported.lookup "lzma_stream_encoder_mt" = some supportedMt ∧
    Gen.C12.supported.lookup "lzma_raw_encoder" = some supportedRaw ∧
    Gen.C12.supported.lookup "lzma_block_encoder" = some supportedBlock := by decide

/-! ## Property theorems -/

variable {σ : Type}

/-- **sync_flush_decodable** (raw LZMA2 stream, i.e. also the Compressed Data of a Block): after ANY history of
    RUN / SYNC_FLUSH / update operations, a SYNC_FLUSH (with or without new input) returns LZMA_STREAM_END and the
    output so far is a sequence of whole LZMA2 chunks — the decoder is left at a chunk boundary (SEQ_CONTROL) without
    having seen an end marker — that decodes to exactly all input supplied so far. -/
theorem sync_flush_decodable (E : Env σ) (hE : ∀ i, (E.codec i).Sound) (fs : Chain) (hfs : SyncChain fs)
    (ops : List Op) (data : Bytes)
    (hrun : (Enc.execAll E (Enc.rawInit E fs) ops).1.finished = false) :
    let r := Enc.execAll E (Enc.rawInit E fs) (ops ++ [.code .syncFlush data])
    r.2.rets.getLast? = some .streamEnd ∧
    ∃ d, Decodes (E.codec 0) (Dec.init (E.codec 0)) (bodies r.2.segs) d [] ∧ d.ended = false ∧ d.out = r.2.input := by
  intro r
  have hinv := RawInv.execAll hE (RawInv.init E hfs) ops
  have hr : r = Enc.exec E (Enc.execAll E (Enc.rawInit E fs) ops) (.code .syncFlush data) := execAll_append _ _ _ _
  obtain ⟨f1, f2, f3, r', f4, f5⟩ := RawInv.flush hE hinv hrun data
  have hinv' := RawInv.step hE hinv (.code .syncFlush data)
  rw [← hr] at f1 f2 f3 f4 hinv'
  obtain ⟨⟨r'', hc, hok⟩, _, _⟩ := hinv'
  rw [f4] at hc; cases hc
  obtain ⟨d, hd, ha, hh⟩ := hok.running f3 []
  refine ⟨by simp [f1], d, by simpa using hd, ha.notEnded, ?_⟩
  rw [ha.out, ← hh, f5, List.append_nil]

end XzVerif.C12
