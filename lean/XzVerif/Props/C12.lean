/-
  C12 — flush actions make all prior input decodable; mid-stream option changes are safe.
  Only property theorems, Gen bridges and non-vacuity examples live here; helper lemmas are in Lemmas/Flush*.lean.

  The statements are about the model of Model/Flush.lean: the control logic of lz_encode/fill_window, lzma2_encode,
  lzma2_encoder_options_update, block_encode, stream_encode, stream_encoder_update and lzma_code, with the compressor
  ABSTRACT: `Codec.choose` decides chunk sizes and payloads, `Codec.dec` is the chunk decoder, and the theorems assume
  the contract `Codec.Sound` as an explicit hypothesis (`hE : ∀ i, (E.codec i).Sound`). A history is a `List Op` of
  `Op.code action data` (RUN data | SYNC_FLUSH | FULL_FLUSH | FULL_BARRIER | FINISH, each possibly with new input)
  and `Op.update chain` (lzma_filters_update); "at every flush completion" is expressed by quantifying over ALL
  histories `ops` that end in the flush in question.

  The last two sections remove the abstraction: with C01's models of the LZMA symbol coder as the codec
  (`FlushC01.lzmaCodec`; `lzma2Codec_sound_literal` is an instance without any hypothesis), "decodable" is stated for the
  EXECUTABLE decoder models — `Lzma2.lzma2Decode` on exactly the bytes written after LZMA_SYNC_FLUSH
  (`sync_flush_real_decoder`, lc/lp/pb changes included) and `XzDecode.xzDecode XzEnv.stdEnv` / the grammar `DValidXz` on
  the .xz rendering with the container encoders (`full_flush_blocks_xz_partial`, `finished_stream_xz_partial`).
-/
import XzVerif.Lemmas.FlushStream2
import XzVerif.Lemmas.FlushC01
import XzVerif.Lemmas.FlushC01Chunks
import XzVerif.Lemmas.FlushC01Props
import XzVerif.Lemmas.FlushXzLink
import XzVerif.Gen.C12

namespace XzVerif.C12
open XzVerif XzVerif.Flush

/-! ## Gen bridges: tables produced by RUNNING the real functions of /repo on stub coders equal what the model's
    decision kernels say (kernel evaluation). -/

theorem action_values : Gen.C12.actionValues = Action.all.map Action.code := by decide

theorem ret_values : (Gen.C12.retOk, Gen.C12.retStreamEnd, Gen.C12.retOptionsError, Gen.C12.retProgError)
    = (Ret.ok.toNat, Ret.streamEnd.toNat, Ret.optionsError.toNat, Ret.progError.toNat) := by decide

/-- Model row for `stream_encode()` at SEQ_BLOCK_ENCODE when the Block encoder answers `blockRet`:
    (action handed to the Block encoder, return value, sequence afterwards, Index Records added). -/
def streamBlockEncodeRow (a : Action) (blockRet : Ret) : Nat × Nat × Nat × Nat :=
  if returnsInnerRet a blockRet then ((convert a).code, blockRet.toNat, SSeq.blockEncode.code, 0)
  else match blockInitNoInput a with
    | some r => ((convert a).code, r.toNat, SSeq.blockInit.code, 1)
    | none => ((convert a).code, Ret.streamEnd.toNat, SSeq.streamFooter.code, 1)

/-- `convert[]`, the "return unless the Block ended" test, the Index append and what follows it. -/
theorem stream_block_encode_table :
    Gen.C12.streamBlockEncode = Action.all.flatMap fun a => [Ret.ok, Ret.streamEnd].map fun r =>
      let (seen, ret, seq, n) := streamBlockEncodeRow a r
      (a.code, r.toNat, seen, ret, seq, n) := by decide

/-- SEQ_BLOCK_INIT without input: no Block is started for any action; only LZMA_FINISH goes on (to the Index). -/
theorem stream_block_init_table :
    Gen.C12.streamBlockInitNoInput.map (fun (a, ret, seq, _) => (a, ret, seq)) = Action.all.map fun a =>
      match blockInitNoInput a with
      | some r => (a.code, r.toNat, SSeq.blockInit.code)
      | none => (a.code, Ret.streamEnd.toNat, SSeq.streamFooter.code) := by decide

theorem stream_seq_values : Gen.C12.streamSeqValues =
    [SSeq.streamHeader, .blockInit, .blockHeader, .blockEncode, .indexEncode, .streamFooter].map SSeq.code := by decide

/-- `block_encode()`: SYNC_FLUSH never ends the Block, FINISH + STREAM_END pads and writes the Check. -/
theorem block_encode_table :
    Gen.C12.blockEncode = ([(Action.run, Ret.ok), (.syncFlush, .ok), (.syncFlush, .streamEnd), (.finish, .ok), (.finish, .streamEnd)].map
      fun (a, r) =>
        if returnsInnerRet a r then (a.code, r.toNat, a.code, r.toNat, 0, 0)
        else (a.code, r.toNat, a.code, Ret.streamEnd.toNat, 2, (4 - 5 % 4) % 4 + checkSize 1)) := by decide

theorem lzma2_limits : (Gen.C12.LZMA2_CHUNK_MAX, Gen.C12.LZMA2_UNCOMPRESSED_MAX) = (LZMA2_CHUNK_MAX, LZMA2_UNCOMPRESSED_MAX) := by decide

/-- `lzma2_encode()` at SEQ_INIT with nothing unencoded: STREAM_END for every flush, end marker only for FINISH. -/
theorem lzma2_seq_init_table :
    Gen.C12.lzma2SeqInitNoInput = Action.all.map fun a =>
      let (ret, marker) := lzma2SeqInitNoInput a
      (a.code, ret.toNat, if marker then 1 else 0, if marker then 0 else 999) := by decide

/-- chunk header control bytes, header lengths and the properties byte for all eight flag combinations -/
theorem lzma2_header_table :
    Gen.C12.lzma2HeaderLzma.all (fun (np, ns, nd, ctl, len, props, after) =>
      let h := lzmaHeader (np == 1) (ns == 1) (nd == 1) ⟨1, 2, 3⟩ 1 1
      ctl == lzmaControl (np == 1) (ns == 1) (nd == 1) && (h.headD 0).toNat == ctl && h.length == len
        && (if np == 1 then (h.getD 5 0).toNat else 999) == props && after == 0) = true
    ∧ Gen.C12.lzma2HeaderLzma.map (fun (np, ns, nd, _) => (np, ns, nd))
        = [(0, 0, 0), (0, 0, 1), (0, 1, 0), (0, 1, 1), (1, 0, 0), (1, 0, 1), (1, 1, 0), (1, 1, 1)] := by decide

theorem lzma2_stored_table :
    Gen.C12.lzma2HeaderStored = [false, true].map fun nd => (nd.toNat, ((storedHeader nd 1).headD 0).toNat, 0) := by decide

/-- `lzma2_encoder_options_update()` for every sequence value and a set of valid/invalid new options. -/
theorem lzma2_options_update_table :
    Gen.C12.lzma2OptionsUpdate.all (fun (seq, lc, lp, pb, ret, np, ns, lcAfter) =>
      let l : L2 Unit := { opt := ⟨3, 0, 2⟩, needProps := false, needStateReset := false, needDictReset := false,
                           st := (), hist := [], unenc := if seq = 0 then [] else [0] }
      let (l', r) := l.optionsUpdate ⟨lc, lp, pb⟩
      r.toNat == ret && l'.needProps.toNat == np && l'.needStateReset.toNat == ns && l'.opt.lc == lcAfter) = true := by decide

/-- `fill_window()`: only a flush/finish action whose input has all been taken lets the encoder reach the end of
    the window (read_limit = write_pos) and is recorded in mf.action. -/
theorem fill_window_table :
    Gen.C12.fillWindow.all (fun (a, take, ret, mfa, limit, wpos) =>
      match Action.ofCode a with
      | none => false
      | some act =>
        let (ma, rl) := fillWindow act (take == 10) take 4 0
        ret == 0 && wpos == take && ma.code == mfa && rl == limit
          && (lzFlushing act (take == 10) == (limit == wpos))) = true := by decide

/-- the `pending` replay: every skipped byte is handed to the match finder again and read_pos returns to where it was -/
theorem fill_window_pending : Gen.C12.fillWindowPending = (0, 3, 5) := by decide

/-- BCJ (`simple_code`) and LZMA1 (`lzma_encode`) answer SYNC_FLUSH with LZMA_OPTIONS_ERROR without taking input. -/
theorem refusal_tables :
    Gen.C12.simpleCode = ([Action.run, .syncFlush, .finish].map fun a =>
      if refusesSync a then (a.code, Ret.optionsError.toNat, 0) else (a.code, (if a == .finish then Ret.streamEnd else Ret.ok).toNat, 3))
    ∧ Gen.C12.lzma1SyncFlush = (Ret.optionsError.toNat, 0) := by decide

/-- `supported_actions[]` of the public encoders -/
theorem supported_actions :
    Gen.C12.supported.lookup "lzma_stream_encoder" = some supportedStream ∧
    Gen.C12.supported.lookup "lzma_easy_encoder" = some supportedStream ∧
    Gen.C12.supported.lookup "lzma_stream_encoder_mt" = some supportedMt ∧
    Gen.C12.supported.lookup "lzma_raw_encoder" = some supportedRaw ∧
    Gen.C12.supported.lookup "lzma_block_encoder" = some supportedBlock := by decide

/-! ## Property theorems -/

variable {σ : Type}

/-- **sync_flush_decodable** (raw LZMA2 stream, i.e. also the Compressed Data of a Block): after ANY history of
    RUN / SYNC_FLUSH / update operations, a SYNC_FLUSH (with or without new input) returns LZMA_STREAM_END and the
    output so far is a sequence of whole LZMA2 chunks — the decoder is left at a chunk boundary (SEQ_CONTROL) without
    having seen an end marker — that decodes to exactly all input supplied so far. -/
theorem sync_flush_decodable (E : Env σ) (hE : ∀ i, (E.codec i).Sound) (fs : Chain) (hfs : SyncChain fs)
    (ops : List Op) (data : Bytes)
    (hrun : (Enc.execAll E (Enc.rawInit E fs) ops).1.finished = false) :
    let r := Enc.execAll E (Enc.rawInit E fs) (ops ++ [.code .syncFlush data])
    r.2.rets.getLast? = some .streamEnd ∧
    ∃ d, Decodes (E.codec 0) (Dec.init (E.codec 0)) (bodies r.2.segs) d [] ∧ d.ended = false ∧ d.out = r.2.input := by
  intro r
  have hinv := RawInv.execAll hE (RawInv.init E hfs) ops
  have hr : r = Enc.exec E (Enc.execAll E (Enc.rawInit E fs) ops) (.code .syncFlush data) := execAll_append _ _ _ _
  obtain ⟨f1, f2, f3, r', f4, f5⟩ := RawInv.flush hE hinv hrun data
  have hinv' := RawInv.step hE hinv (.code .syncFlush data)
  rw [← hr] at f1 f2 f3 f4 hinv'
  obtain ⟨⟨r'', hc, hok⟩, _, _⟩ := hinv'
  rw [f4] at hc; cases hc
  obtain ⟨d, hd, ha, hh⟩ := hok.running f3 []
  refine ⟨by simp [f1], d, by simpa using hd, ha.notEnded, ?_⟩
  rw [ha.out, ← hh, f5, List.append_nil]

/-- **flush_then_continue** (raw LZMA2 stream): finishing after any history of RUN / SYNC_FLUSH / update operations
    returns LZMA_STREAM_END and the whole output is LZMA2 chunks plus the end marker, decoding to the whole input. -/
theorem raw_finish_decodable (E : Env σ) (hE : ∀ i, (E.codec i).Sound) (fs : Chain) (hfs : SyncChain fs)
    (ops : List Op) (data : Bytes)
    (hrun : (Enc.execAll E (Enc.rawInit E fs) ops).1.finished = false) :
    let r := Enc.execAll E (Enc.rawInit E fs) (ops ++ [.code .finish data])
    r.2.rets.getLast? = some .streamEnd ∧
    ∃ d, Decodes (E.codec 0) (Dec.init (E.codec 0)) (bodies r.2.segs) d [] ∧ d.ended = true ∧ d.out = r.2.input := by
  intro r
  have hinv := RawInv.execAll hE (RawInv.init E hfs) ops
  have hr : r = Enc.exec E (Enc.execAll E (Enc.rawInit E fs) ops) (.code .finish data) := execAll_append _ _ _ _
  obtain ⟨f1, f2, f3⟩ := RawInv.finish hE hinv hrun data
  have hinv' := RawInv.step hE hinv (.code .finish data)
  rw [← hr] at f1 f2 f3 hinv'
  obtain ⟨⟨r'', _, hok⟩, _, _⟩ := hinv'
  obtain ⟨d, hd, he, ho⟩ := hok.ended f3 []
  exact ⟨by simp [f1], d, by simpa using hd, he, ho⟩

/-- **sync_flush_refused**: a chain whose LZ coder is LZMA1, or that has a BCJ filter, answers LZMA_SYNC_FLUSH with
    LZMA_OPTIONS_ERROR in every state (`lzma_code` then makes the error sticky, see `refused_is_fatal`) ... -/
theorem sync_flush_refused (E : Env σ) (C : Codec σ) (r : RawEnc σ) (h : r.isLzma1 = true ∨ r.pre.canSync = false) (inp : Bytes) :
    (r.code E C inp .syncFlush).2.2.2 = .optionsError :=
  RawEnc.sync_refused E C r h inp

/-- ... and emits nothing undecodable: it takes no input, and what a BCJ + LZMA2 chain may still write while refusing
    are whole LZMA2 chunks of input it had accepted before (a decoder that agreed with the encoder still does). -/
theorem sync_flush_refused_output (E : Env σ) (C : Codec σ) (hC : C.Sound) (r : RawEnc σ) (h : r.pre.canSync = false)
    (h1 : r.isLzma1 = false) (inp : Bytes) (d : Dec σ) (ha : Agree C r.l2 d) (tail : Bytes) :
    (r.code E C inp .syncFlush).2.2.1 = 0 ∧
    ∃ d', Decodes C d ((r.code E C inp .syncFlush).2.1 ++ tail) d' tail ∧ Agree C (r.code E C inp .syncFlush).1.l2 d'
      ∧ (r.code E C inp .syncFlush).1.l2.hist ++ (r.code E C inp .syncFlush).1.l2.unenc = r.l2.hist ++ r.l2.unenc :=
  RawEnc.sync_refused_output hC r h h1 inp d ha tail

/-- the chains the property names: a freshly initialised chain with a BCJ filter, or ending in LZMA1, is in that state -/
theorem refusing_chains (C : Codec σ) (fs : Chain)
    (h : chainHasBcj fs = true ∨ (fs.getLast?.map (·.kind == .lzma1)).getD false = true) :
    (RawEnc.init C fs).isLzma1 = true ∨ (RawEnc.init C fs).pre.canSync = false := by
  rcases h with h | h
  · right; simp [RawEnc.init, h]
  · left; simpa [RawEnc.init] using h

/-- a refused action is a fatal error for `lzma_code`: every later call answers LZMA_PROG_ERROR and writes nothing -/
theorem refused_is_fatal (E : Env σ) (e : Enc σ) (hd : e.dead = true) (a : Action) (data : Bytes) :
    (e.codeOp E a data).2.ret = .progError ∧ (e.codeOp E a data).2.segs = [] ∧ (e.codeOp E a data).2.used = 0
      ∧ (e.codeOp E a data).1 = e := by
  simp [Enc.codeOp, hd]

/-- **sync_flush_decodable inside a .xz Stream** and **full_flush_ends_block**, in one statement about the state
    after ANY history followed by a flush that did not fail: with `F` any byte encoding of the container fields,
    the output so far is Stream Header ++ finished Blocks ++ (an open Block: its header and whole LZMA2 chunks).
    Every finished Block is non-empty, its chunks + end marker decode to its data, then come Padding and Check;
    the data of the Blocks (and of the open Block, which the chunks written so far decode to completely)
    is exactly all input supplied so far. After FULL_FLUSH / FULL_BARRIER no Block is open. -/
theorem flush_state (E : Env σ) (hE : ∀ i, (E.codec i).Sound) (F : Fmt) (fs : Chain) (check : Nat)
    (hacc : (StreamEnc.init (E.codec 0) fs check).2 = .ok) (ops : List Op) (a : Action) (ha : a ≠ .run) (data : Bytes)
    (hrun : (Enc.execAll E (Enc.streamInit E fs check) ops).1.finished = false)
    (hlive : (Enc.execAll E (Enc.streamInit E fs check) (ops ++ [.code a data])).1.dead = false) :
    let r := Enc.execAll E (Enc.streamInit E fs check) (ops ++ [.code a data])
    r.2.rets.getLast? = some .streamEnd ∧
    ∃ s, r.1.core = .stream s ∧ s.check = check ∧
      (∀ i b, s.done[i]? = some b → BodyOk E (E.codec i) check b) ∧
      (a ≠ .syncFlush → s.seq ≠ .blockEncode) ∧
      (s.seq ≠ .blockEncode → a ≠ .finish →
          render F r.2.segs = F.streamHeader check ++ doneBytes F s.done ∧ doneData s.done = r.2.input) ∧
      (s.seq = .blockEncode →
          render F r.2.segs = F.streamHeader check ++ doneBytes F s.done ++ (F.blockHeader s.openChain none none ++ s.block.emitted) ∧
          doneData s.done ++ s.block.data = r.2.input ∧ s.block.data ≠ [] ∧
          ∃ d, Decodes (E.codec s.done.length) (Dec.init (E.codec s.done.length)) s.block.emitted d [] ∧
            d.ended = false ∧ d.out = s.block.data) := by
  intro r
  have hinv := StreamInv.execAll hE (F := F) (StreamInv.init E F hacc) ops
  have hchk := CheckIs.execAll E (CheckIs.init E fs check) ops
  have hr : r = Enc.exec E (Enc.execAll E (Enc.streamInit E fs check) ops) (.code a data) := execAll_append _ _ _ _
  rw [← show r = Enc.execAll E (Enc.streamInit E fs check) (ops ++ [.code a data]) from rfl] at hlive
  generalize Enc.execAll E (Enc.streamInit E fs check) ops = et at hinv hchk hr hrun
  obtain ⟨e, t⟩ := et
  have hal : e.dead = false := by
    cases hd : e.dead
    · rfl
    · rw [hr, Enc.exec_dead E e t _ hd] at hlive; cases hlive
  rw [hr] at hlive ⊢
  obtain ⟨s, hcore, hok, c1, c2, c3, c4, c5, c6, hstep⟩ := StreamInv.code_step hE hinv hal hrun a data hlive
  have hsc : s.check = check := hchk s hcore
  have hret : (StreamEnc.code E 8 s data a).2.2.2 = .streamEnd := by rw [hstep.ret]; simp [ha]
  have hso := hstep.ok
  obtain ⟨hsame1, _⟩ := hstep.same
  refine ⟨by rw [c4, hret]; simp, _, c1, by rw [hsame1, hsc], ?_, ?_, ?_, ?_⟩
  · intro i b hib; have := hso.doneOk i b hib; rwa [hsame1, hsc] at this
  · intro hns; exact hstep.blockEnded ha hns
  · intro hnb hnf
    have hfin : (a == Action.finish) = false := by cases a <;> simp at hnf ⊢
    rw [hfin] at hso
    have ho := hso.outEq rfl
    have hi := hso.inEq rfl
    have hnh := hstep.started
    simp only [hnh, hnb, if_false, List.append_nil] at ho hi
    rw [c2, c3, render_append, ho, hi, hsame1, hsc]
    exact ⟨rfl, rfl⟩
  · intro hbe
    have hfin : (a == Action.finish) = false := by
      cases hf : (a == Action.finish)
      · rfl
      · rw [hf] at hso; have := (hso.ended rfl).1; rw [hbe] at this; cases this
    rw [hfin] at hso
    have ho := hso.outEq rfl
    have hi := hso.inEq rfl
    have hnh := hstep.started
    simp only [hbe, if_true] at ho hi
    obtain ⟨hbok, _⟩ := hso.openOk hbe
    have hsync : a = .syncFlush := by
      cases a
      · exact absurd rfl ha
      · rfl
      · exact absurd hbe (hstep.blockEnded (by simp) (by simp))
      · exact absurd hbe (hstep.blockEnded (by simp) (by simp))
      · exact absurd hbe (hstep.blockEnded (by simp) (by simp))
    obtain ⟨hun, hheld⟩ := hstep.synced hsync hbe
    obtain ⟨d, hd, hag, hdata⟩ := hbok.dec []
    refine ⟨?_, ?_, hso.openNe hbe, d, by simpa using hd, hag.notEnded, ?_⟩
    · rw [c2, render_append, ho, hsame1, hsc]; simp
    · rw [c3, hi]
    · rw [hag.out, ← hdata, hun, hheld]; simp

/-- **full_flush_ends_block**: after ANY history, a FULL_FLUSH or FULL_BARRIER that did not fail returns
    LZMA_STREAM_END and leaves no Block open: the output so far is Stream Header ++ whole Blocks (each non-empty, each
    decoding to its data with end marker, Padding and Check), their data is all input so far, and a new Block was
    created exactly if one was open or the flush brought input — never for a flush as first call or back-to-back flushes. -/
theorem full_flush_ends_block (E : Env σ) (hE : ∀ i, (E.codec i).Sound) (F : Fmt) (fs : Chain) (check : Nat)
    (hacc : (StreamEnc.init (E.codec 0) fs check).2 = .ok) (ops : List Op) (a : Action)
    (ha : a = .fullFlush ∨ a = .fullBarrier) (data : Bytes)
    (hrun : (Enc.execAll E (Enc.streamInit E fs check) ops).1.finished = false)
    (hlive : (Enc.execAll E (Enc.streamInit E fs check) (ops ++ [.code a data])).1.dead = false) :
    let before := Enc.execAll E (Enc.streamInit E fs check) ops
    let r := Enc.execAll E (Enc.streamInit E fs check) (ops ++ [.code a data])
    r.2.rets.getLast? = some .streamEnd ∧
    ∃ s0 s, before.1.core = .stream s0 ∧ r.1.core = .stream s ∧
      render F r.2.segs = F.streamHeader check ++ doneBytes F s.done ∧
      doneData s.done = r.2.input ∧
      (∀ i b, s.done[i]? = some b → BodyOk E (E.codec i) check b) ∧
      s.done.length = s0.done.length + (if s0.seq = .blockEncode ∨ data ≠ [] then 1 else 0) := by
  intro before r
  have hnr : a ≠ .run := by rcases ha with h | h <;> subst h <;> simp
  have hns : a ≠ .syncFlush := by rcases ha with h | h <;> subst h <;> simp
  have hnf : a ≠ .finish := by rcases ha with h | h <;> subst h <;> simp
  obtain ⟨h1, s, hc, hchk, hdone, hnb, hflat, _⟩ := flush_state E hE F fs check hacc ops a hnr data hrun hlive
  obtain ⟨hrender, hdata⟩ := hflat (hnb hns) hnf
  -- the Block count
  have hinv := StreamInv.execAll hE (F := F) (StreamInv.init E F hacc) ops
  have hr : r = Enc.exec E before (.code a data) := execAll_append _ _ _ _
  have hlive' : (Enc.exec E before (.code a data)).1.dead = false := by rw [← hr]; exact hlive
  have hal : before.1.dead = false := by
    cases hd : before.1.dead
    · rfl
    · rw [Enc.exec_dead E before.1 before.2 _ hd] at hlive'; cases hlive'
  obtain ⟨s0, hcore0, _, c1, _, _, _, _, _, hstep⟩ := StreamInv.code_step hE hinv hal hrun a data hlive'
  rw [← hr] at c1
  rw [hc] at c1; cases c1
  refine ⟨h1, s0, _, hcore0, hc, hrender, hdata, hdone, ?_⟩
  rw [hstep.count]
  have : (a = .fullFlush ∨ a = .fullBarrier ∨ a = .finish) := by rcases ha with h | h <;> simp [h]
  simp [this]

/-- **flush_then_continue**: finishing after ANY history (flushes with or without input, back-to-back flushes, accepted
    and refused updates, ...) that did not fail returns LZMA_STREAM_END, and the whole output is
    Stream Header ++ Blocks ++ Index ++ Stream Footer, where every Block is non-empty and decodes (chunks, end marker,
    Padding, Check) to its data, the data of all Blocks is the whole input, and the Index has one Record per Block
    with that Block's Uncompressed Size. -/
theorem flush_then_continue (E : Env σ) (hE : ∀ i, (E.codec i).Sound) (F : Fmt) (fs : Chain) (check : Nat)
    (hacc : (StreamEnc.init (E.codec 0) fs check).2 = .ok) (ops : List Op) (data : Bytes)
    (hrun : (Enc.execAll E (Enc.streamInit E fs check) ops).1.finished = false)
    (hlive : (Enc.execAll E (Enc.streamInit E fs check) (ops ++ [.code .finish data])).1.dead = false) :
    let r := Enc.execAll E (Enc.streamInit E fs check) (ops ++ [.code .finish data])
    r.2.rets.getLast? = some .streamEnd ∧ r.1.finished = true ∧
    ∃ (blocks : List DoneBlock) (records : List (Nat × Nat)),
      render F r.2.segs = F.streamHeader check ++ doneBytes F blocks ++ F.index records ++ F.streamFooter check records ∧
      doneData blocks = r.2.input ∧
      (∀ i b, blocks[i]? = some b → BodyOk E (E.codec i) check b) ∧
      records.map (·.2) = blocks.map (·.data.length) := by
  intro r
  have hinv := StreamInv.execAll hE (F := F) (StreamInv.init E F hacc) ops
  have hchk := CheckIs.execAll E (CheckIs.init E fs check) ops
  have hr : r = Enc.exec E (Enc.execAll E (Enc.streamInit E fs check) ops) (.code .finish data) := execAll_append _ _ _ _
  rw [← show r = Enc.execAll E (Enc.streamInit E fs check) (ops ++ [.code .finish data]) from rfl] at hlive
  generalize Enc.execAll E (Enc.streamInit E fs check) ops = et at hinv hchk hr hrun
  obtain ⟨e, t⟩ := et
  have hal : e.dead = false := by
    cases hd : e.dead
    · rfl
    · rw [hr, Enc.exec_dead E e t _ hd] at hlive; cases hlive
  rw [hr] at hlive ⊢
  obtain ⟨s, hcore, hok, c1, c2, c3, c4, c5, c6, hstep⟩ := StreamInv.code_step hE hinv hal hrun .finish data hlive
  have hsc : s.check = check := hchk s hcore
  have hso := hstep.ok
  obtain ⟨hsame1, _⟩ := hstep.same
  obtain ⟨_, hout, hin⟩ := hso.ended rfl
  refine ⟨by rw [c4, hstep.ret]; simp, by rw [c5]; rfl, _, _, ?_, ?_, ?_, hso.usizes⟩
  · rw [c2, render_append, hout, hsame1, hsc]
  · rw [c3, hin]
  · intro i b hib; have := hso.doneOk i b hib; rwa [hsame1, hsc] at this

/-- **update_between_blocks**: `lzma_filters_update` while no Block is open (before the first Block or after a
    FULL_FLUSH/FULL_BARRIER) replaces the whole chain iff the Block encoder accepts it; the next Block is made with
    it (`update_between_blocks_header`), and by `flush_then_continue` (which ranges over histories WITH updates) the
    finished Stream still decodes to the whole input. A chain that is not accepted leaves the old one in place. -/
theorem update_between_blocks (C : Codec σ) (s : StreamEnc σ) (fs : Chain)
    (hseq : s.seq = .streamHeader ∨ s.seq = .blockInit) (hlen : fs.length ≤ FILTERS_MAX) :
    (∀ b h, streamBlockInit C fs s.check = .ok (b, h) →
        s.update C fs = ({ s with blockInited := true, block := b, headerSize := h, filters := fs }, .ok)) ∧
    (∀ r, streamBlockInit C fs s.check = .error r → s.update C fs = ({ s with blockInited := false }, r)) := by
  have h1 : ¬ fs.length > FILTERS_MAX := by omega
  have h2 : s.seq.code ≤ SSeq.blockInit.code := by rcases hseq with h | h <;> rw [h] <;> decide
  constructor
  · intro b h hok; simp [StreamEnc.update, h1, h2, hok]
  · intro r herr; simp [StreamEnc.update, h1, h2, herr]

/-- the Block started after an accepted update carries the new chain in its Block Header -/
theorem update_between_blocks_header (E : Env σ) (s : StreamEnc σ) (hs : s.seq = .blockInit) (hbi : s.blockInited = true)
    (inp : Bytes) (hne : inp ≠ []) (a : Action) (fuel : Nat) :
    (StreamEnc.code E (fuel + 1) s inp a).2.1.head? = some (Seg.blockHeader s.filters none none) := by
  rw [StreamEnc.code_init_data E fuel s hs inp hne a]
  simp [hbi]

/-- **update_after_sync**: right after a completed SYNC_FLUSH (nothing unencoded, i.e. lzma2_encode is at SEQ_INIT)
    a change of lc/lp/pb to valid values is accepted; it takes effect at the next chunk, whose header carries the new
    properties byte (control >= 0xC0) and which is encoded from a reset state. That the stream stays decodable is
    `sync_flush_decodable` / `flush_state`, whose histories include such updates. -/
theorem update_after_sync (l : L2 σ) (p : Props) (hflushed : l.unenc = []) (hp : p.valid = true) (hne : l.opt ≠ p) :
    (l.optionsUpdate p).2 = .ok ∧ (l.optionsUpdate p).1.opt = p ∧
    (l.optionsUpdate p).1.needProps = true ∧ (l.optionsUpdate p).1.needStateReset = true ∧
    (l.optionsUpdate p).1.hist = l.hist ∧ (l.optionsUpdate p).1.unenc = l.unenc ∧
    ∀ (C : Codec σ) (nd : Bool) (n cs : Nat),
      lzmaHeader true true nd p n cs = [byte ((if nd then 0xE0 else 0xC0) + (n - 1) / 65536), byte ((n - 1) / 256), byte (n - 1),
        byte ((cs - 1) / 256), byte (cs - 1), byte p.byte] ∧
      L2.startState C (l.optionsUpdate p).1 = C.reset p := by
  have hi : l.atSeqInit = true := by simp [L2.atSeqInit, hflushed]
  have hb : (l.opt != p) = true := by simpa using hne
  refine ⟨by simp [L2.optionsUpdate, hi, hb, hp], by simp [L2.optionsUpdate, hi, hb, hp], by simp [L2.optionsUpdate, hi, hb, hp],
    by simp [L2.optionsUpdate, hi, hb, hp], by simp [L2.optionsUpdate, hi, hb, hp], by simp [L2.optionsUpdate, hi, hb, hp], ?_⟩
  intro C nd n cs
  constructor
  · cases nd <;> simp [lzmaHeader, lzmaControl]
  · simp [L2.startState, L2.optionsUpdate, hi, hb, hp]

/-- an update in the middle of a chunk (input has been handed in since the last flush) is refused -/
theorem update_mid_chunk_refused (l : L2 σ) (p : Props) (h : l.unenc ≠ []) : (l.optionsUpdate p).2 = .progError := by
  have : l.atSeqInit = false := by simpa [L2.atSeqInit] using h
  simp [L2.optionsUpdate, this]

/-- **update_refused_safe** (LZMA2 coder): a refused option change leaves the coder exactly as it was. -/
theorem update_refused_safe_lzma2 (l : L2 σ) (p : Props) (h : (l.optionsUpdate p).2 ≠ .ok) : (l.optionsUpdate p).1 = l :=
  optionsUpdate_refused p h

/-- **update_refused_safe** (Stream encoder): whatever `lzma_filters_update` answers, the invariant behind
    `flush_state` / `full_flush_ends_block` / `flush_then_continue` keeps holding, so encoding continues to a valid
    Stream of the whole input; and a refused update changes neither the chain for future Blocks, nor the position in
    the Stream, nor the Index, nor anything already written. -/
theorem update_refused_safe (E : Env σ) (F : Fmt) (s : StreamEnc σ) (out input : Bytes) (fin : Bool)
    (h : StreamOk E F s out input fin) (fs : Chain) :
    StreamOk E F (s.update (E.codec s.records.length) fs).1 out input fin ∧
    ((s.update (E.codec s.records.length) fs).2 ≠ .ok →
      (s.update (E.codec s.records.length) fs).1.filters = s.filters ∧
      (s.update (E.codec s.records.length) fs).1.seq = s.seq ∧
      (s.update (E.codec s.records.length) fs).1.records = s.records ∧
      (s.update (E.codec s.records.length) fs).1.done = s.done ∧
      (s.update (E.codec s.records.length) fs).1.block.emitted = s.block.emitted) := by
  refine ⟨StreamEnc.update_ok h fs, ?_⟩
  intro hne
  unfold StreamEnc.update at hne ⊢
  by_cases hlen : fs.length > FILTERS_MAX
  · simp [hlen]
  simp only [hlen, if_false] at hne ⊢
  by_cases h1 : s.seq.code ≤ SSeq.blockInit.code
  · simp only [h1, if_true] at hne ⊢
    cases hsi : streamBlockInit (E.codec s.records.length) fs s.check with
    | error r => simp
    | ok p => simp [hsi] at hne
  · simp only [h1, if_false] at hne ⊢
    by_cases h2 : s.seq.code ≤ SSeq.blockEncode.code
    · simp only [h2, if_true] at hne ⊢
      by_cases hr : (s.block.update fs).2 = .ok
      · simp [hr] at hne
      · have : ((s.block.update fs).2 != .ok) = true := by simpa using hr
        simp only [this, if_true]
        refine ⟨trivial, trivial, trivial, trivial, ?_⟩
        -- block_encoder_update never touches what was written
        unfold BlockEnc.update
        split
        · rfl
        · split
          · split <;> rfl
          · rfl
    · simp [h2]

/-- The threaded encoder's flush theorems are C08's (`mtenc_full_flush`, `mtenc_full_barrier`); the part modelled here
    is its update rule: refused while a Block is being collected, otherwise the chain for future Blocks is replaced. -/
theorem mt_update_rule (m : MtEnc) (fs : Chain) :
    (m.cur ≠ [] → m.update fs = (m, .progError) ∨ m.ended = true) ∧
    (m.ended = false → m.cur = [] → memusageOk fs = true → fs.length ≤ FILTERS_MAX → m.update fs = ({ m with filters := fs }, .ok)) := by
  constructor
  · intro h
    by_cases he : m.ended = true
    · right; exact he
    · left
      have : m.cur.isEmpty = false := by cases hc : m.cur <;> simp_all
      simp [MtEnc.update, he, this]
  · intro he hc hm hl
    have : ¬ fs.length > FILTERS_MAX := by omega
    simp [MtEnc.update, he, hc, hm, this]

/-! ## Link to the real chunk coder models (C01) -/

open XzVerif.FlushC01 in
/-- **lzma2Codec_sound_partial**: the abstract contract `Codec.Sound`, instantiated with C01's models of the LZMA symbol
    coder and the C range coder (`encSyms`, `encOps`/`encFlush` on the encoder side; `readInit`, `decBytes`, `normalizeL`
    on the decoder side) for ANY match finder / parser `P`.
    DISCHARGED from C01 (`lzma2_chunk_roundtrip`, `encSyms_of_expand`) for every parser:
      * `Sound.inv` — every LZMA chunk `choose` emits is decoded by `dec` to exactly the bytes it covers, leaving the
        decoder in the encoder's state (probabilities, state machine, reps);
      * of `Sound.wf`: a chunk covers between 1 and all of the unencoded bytes; an LZMA payload is never empty.
    REMAIN HYPOTHESES (statements about the parser and the chunk-limit logic of lzma_lzma_encode / lzma2_encode, for which
    there is no model here):
      * `hlimits` — the rest of `Sound.wf`: a chunk covers at most 2 MiB, its payload is at most 64 KiB, and a chunk that
        did not shrink (stored uncompressed) covers at most 64 KiB;
      * `hlive` — `Sound.live`, reduced to the parser: when flushing, on a coder state that can occur, it describes a
        non-empty prefix of the unencoded bytes (`lzma_lzma_encode` runs until read_pos == read_limit, read_ahead == 0);
      * `hlag` — `Sound.lag`: under LZMA_RUN it never describes all unencoded bytes (keep_size_after stays back). -/
theorem lzma2Codec_sound_partial (dictSize : Nat) (hd : dictSize ≤ 4294967295) (P : Parser)
    (hlimits : ∀ (fl : Bool) (p : Props) (s : St) (d a : Bytes) (ch : Choice) (s' : St),
      (lzmaCodec dictSize P).choose fl p s d a = some (ch, s') →
        ch.n ≤ LZMA2_UNCOMPRESSED_MAX ∧ (ch.isLzma = true → ch.payload.length ≤ LZMA2_CHUNK_MAX) ∧
        (ch.isLzma = false → ch.n ≤ LZMA2_CHUNK_MAX))
    (hlive : P.Live dictSize) (hlag : P.Lag) :
    (lzmaCodec dictSize P).Sound := by
  refine ⟨?_, lzmaCodec_lag dictSize P hlag, lzmaCodec_live dictSize hd P hlive, lzmaCodec_inv dictSize hd P⟩
  intro fl p s d a ch s' h
  obtain ⟨c1, c2⟩ := lzmaCodec_covers dictSize P fl p s d a ch s' h
  obtain ⟨l1, l2, l3⟩ := hlimits fl p s d a ch s' h
  exact ⟨c1, c2, l1, fun hz => ⟨lzmaCodec_payload dictSize hd P fl p s d a ch s' h, l2 hz⟩, l3⟩

open XzVerif.FlushC01 in
/-- the part that needs no hypothesis at all, for reference: decodability of every emitted chunk, for every parser -/
theorem lzma2Codec_inv (dictSize : Nat) (hd : dictSize ≤ 4294967295) (P : Parser)
    (fl : Bool) (p : Props) (s : St) (d a : Bytes) (ch : Choice) (s' : St)
    (h : (lzmaCodec dictSize P).choose fl p s d a = some (ch, s')) (hz : ch.isLzma = true) :
    (lzmaCodec dictSize P).dec p s d ch.payload ch.n = some (a.take ch.n, s') :=
  lzmaCodec_inv dictSize hd P fl p s d a ch s' h hz

open XzVerif.FlushC01 in
/-- **lzma2Codec_sound_literal**: a hypothesis-free instance. `literalParser` codes, when flushing, the next (at most
    64 KiB = LZMA2_CHUNK_MAX) unencoded bytes as LZMA literals and never closes a chunk under LZMA_RUN. For it all three
    remaining hypotheses of `lzma2Codec_sound_partial` hold — `hlimits` in its stated form: a chunk covers at most 64 KiB,
    so an LZMA chunk (payload shorter than the data) has at most 64 KiB of payload and a stored one at most 64 KiB of
    data; these are the limits `lzma2_encode` asserts — hence the C01 symbol coder + range coder with this parser IS a
    sound codec, and the flush theorems hold for it without any assumption on the compressor:
    (1) the contract; (2) after ANY history a SYNC_FLUSH (with or without new input) returns LZMA_STREAM_END and the
    output so far decodes, chunk by chunk with C01's range decoder + symbol decoder, to exactly the input so far, the
    decoder resting at a chunk boundary, and the history may go on; (3) finishing after any history gives chunks + end
    marker that decode to the whole input. -/
theorem lzma2Codec_sound_literal (dictSize : Nat) (hd : dictSize ≤ 4294967295) :
    (lzmaCodec dictSize literalParser).Sound ∧
    (∀ (fs : Chain), SyncChain fs → ∀ (ops : List Op) (data : Bytes),
      (Enc.execAll (lzmaEnv dictSize literalParser) (Enc.rawInit (lzmaEnv dictSize literalParser) fs) ops).1.finished = false →
      let r := Enc.execAll (lzmaEnv dictSize literalParser) (Enc.rawInit (lzmaEnv dictSize literalParser) fs) (ops ++ [.code .syncFlush data])
      r.2.rets.getLast? = some .streamEnd ∧
      ∃ d, Decodes (lzmaCodec dictSize literalParser) (Dec.init (lzmaCodec dictSize literalParser)) (bodies r.2.segs) d [] ∧
        d.ended = false ∧ d.out = r.2.input) ∧
    (∀ (fs : Chain), SyncChain fs → ∀ (ops : List Op) (data : Bytes),
      (Enc.execAll (lzmaEnv dictSize literalParser) (Enc.rawInit (lzmaEnv dictSize literalParser) fs) ops).1.finished = false →
      let r := Enc.execAll (lzmaEnv dictSize literalParser) (Enc.rawInit (lzmaEnv dictSize literalParser) fs) (ops ++ [.code .finish data])
      r.2.rets.getLast? = some .streamEnd ∧
      ∃ d, Decodes (lzmaCodec dictSize literalParser) (Dec.init (lzmaCodec dictSize literalParser)) (bodies r.2.segs) d [] ∧
        d.ended = true ∧ d.out = r.2.input) := by
  have hS : (lzmaCodec dictSize literalParser).Sound :=
    lzma2Codec_sound_partial dictSize hd literalParser (literalParser_limits dictSize hd) (literalParser_live dictSize) literalParser_lag
  refine ⟨hS, ?_, ?_⟩
  · intro fs hfs ops data hrun
    exact sync_flush_decodable (lzmaEnv dictSize literalParser) (fun _ => hS) fs hfs ops data hrun
  · intro fs hfs ops data hrun
    exact raw_finish_decodable (lzmaEnv dictSize literalParser) (fun _ => hS) fs hfs ops data hrun

open XzVerif.FlushC01 in
/-- **"Decodable" by the decoder model of C01/C03, truncated form** (`Lzma2.lzma2Decode`, the executable model of
    lzma2_decoder.c over lz_decoder.c and lzma_decoder.c). With C01's chunk codec and ANY parser for which the codec is
    sound, after ANY history of RUN / SYNC_FLUSH / `lzma_filters_update` calls (including updates that change lc/lp/pb at
    a chunk boundary), when a SYNC_FLUSH completes the decoder run on EXACTLY the output so far
      * produces exactly the input so far,
      * consumes every byte, and
      * stops with LZMA_OK, waiting for the next chunk at SEQ_CONTROL (never an error);
    and on the output closed with the end-marker byte it ends with LZMA_STREAM_END, same data.
    Proof: the bytes written are a chunk sequence of C01's chunk specification extended by lc/lp/pb changes (`ChunksP`,
    Lemmas/FlushChunksP.lean; invariant `RawChunkInvP`), and the executable decoder is proved correct on such sequences
    with and without end marker (Lemmas/FlushTrunc.lean, FlushTruncP.lean). -/
theorem sync_flush_real_decoder (dictSize : Nat) (hd : dictSize ≤ 4294967295) (P : Parser)
    (hS : (lzmaCodec dictSize P).Sound) (fs : Chain) (hfs : SyncChain fs) (ops : List Op) (data : Bytes)
    (hrun : (Enc.execAll (lzmaEnv dictSize P) (Enc.rawInit (lzmaEnv dictSize P) fs) ops).1.finished = false)
    (cap : Nat) :
    let r := Enc.execAll (lzmaEnv dictSize P) (Enc.rawInit (lzmaEnv dictSize P) fs) (ops ++ [.code .syncFlush data])
    r.2.input.length < cap →
    Lzma2.lzma2Decode dictSize (bodies r.2.segs) [] cap
      = { ret := .ok, out := r.2.input, consumed := (bodies r.2.segs).length } ∧
    Lzma2.lzma2Decode dictSize (bodies r.2.segs ++ [0]) [] cap
      = { ret := .streamEnd, out := r.2.input, consumed := (bodies r.2.segs).length + 1 } := by
  intro r hcap
  have hE : ∀ i, ((lzmaEnv dictSize P).codec i).Sound := fun _ => hS
  obtain ⟨f, hl, hkind, hv⟩ := hfs.last
  have hp0 : (lastProps fs).valid = true := by simp [lastProps, hl, hv]
  have hinv0 := RawChunkInvP.execAll dictSize hd P hS (lastProps fs) ops _ _ (RawChunkInvP.init dictSize P hfs)
  have hr : r = Enc.exec (lzmaEnv dictSize P) (Enc.execAll (lzmaEnv dictSize P) (Enc.rawInit (lzmaEnv dictSize P) fs) ops)
      (.code .syncFlush data) := execAll_append _ _ _ _
  change RawChunkInvP dictSize P (lastProps fs) (Enc.execAll (lzmaEnv dictSize P) (Enc.rawInit (lzmaEnv dictSize P) fs) ops).1
    (Enc.execAll (lzmaEnv dictSize P) (Enc.rawInit (lzmaEnv dictSize P) fs) ops).2 at hinv0
  obtain ⟨f1, f2, f3, r', f4, f5⟩ := RawInv.flush hE hinv0.raw hrun data
  have hinv := RawChunkInvP.step dictSize hd P hS (lastProps fs) hinv0 (.code .syncFlush data)
  rw [← hr] at f1 f2 f3 f4 hinv
  obtain ⟨r'', sw, hc, hci⟩ := hinv.running f3
  rw [f4] at hc; cases hc
  obtain ⟨⟨r3, hc3, hok⟩, _, _⟩ := hinv.raw
  rw [f4] at hc3; cases hc3
  obtain ⟨d, _, _, hh⟩ := hok.running f3 []
  rw [f5, List.append_nil] at hh
  have h1 := chunkInvP_decodes_trunc dictSize hd (lastProps fs) hp0 hci f5 cap (by rw [hh]; exact hcap)
  have h2 := chunkInvP_decodes dictSize hd (lastProps fs) hp0 hci f5 cap (by rw [hh]; exact hcap)
  rw [hh] at h1 h2
  exact ⟨h1, h2⟩

open XzVerif.FlushC01 in
/-- ... and the finished raw LZMA2 stream (after any history of RUN / SYNC_FLUSH / updates, lc/lp/pb changes included) is
    decoded by the executable decoder model to the whole input, LZMA_STREAM_END, every byte consumed. -/
theorem finish_real_decoder (dictSize : Nat) (hd : dictSize ≤ 4294967295) (P : Parser)
    (hS : (lzmaCodec dictSize P).Sound) (fs : Chain) (hfs : SyncChain fs) (ops : List Op) (data : Bytes)
    (hrun : (Enc.execAll (lzmaEnv dictSize P) (Enc.rawInit (lzmaEnv dictSize P) fs) ops).1.finished = false)
    (cap : Nat) :
    let r := Enc.execAll (lzmaEnv dictSize P) (Enc.rawInit (lzmaEnv dictSize P) fs) (ops ++ [.code .finish data])
    r.2.input.length < cap →
    Lzma2.lzma2Decode dictSize (bodies r.2.segs) [] cap
      = { ret := .streamEnd, out := r.2.input, consumed := (bodies r.2.segs).length } := by
  intro r hcap
  have hE : ∀ i, ((lzmaEnv dictSize P).codec i).Sound := fun _ => hS
  obtain ⟨f, hl, hkind, hv⟩ := hfs.last
  have hp0 : (lastProps fs).valid = true := by simp [lastProps, hl, hv]
  have hinv0 := RawChunkInvP.execAll dictSize hd P hS (lastProps fs) ops _ _ (RawChunkInvP.init dictSize P hfs)
  have hr : r = Enc.exec (lzmaEnv dictSize P) (Enc.execAll (lzmaEnv dictSize P) (Enc.rawInit (lzmaEnv dictSize P) fs) ops)
      (.code .finish data) := execAll_append _ _ _ _
  change RawChunkInvP dictSize P (lastProps fs) (Enc.execAll (lzmaEnv dictSize P) (Enc.rawInit (lzmaEnv dictSize P) fs) ops).1
    (Enc.execAll (lzmaEnv dictSize P) (Enc.rawInit (lzmaEnv dictSize P) fs) ops).2 at hinv0
  obtain ⟨_, _, f3⟩ := RawInv.finish hE hinv0.raw hrun data
  have hinv := RawChunkInvP.step dictSize hd P hS (lastProps fs) hinv0 (.code .finish data)
  rw [← hr] at f3 hinv
  obtain ⟨bytes, l, sw, hb, hci, hun, hh⟩ := hinv.ended f3
  have := chunkInvP_decodes dictSize hd (lastProps fs) hp0 hci hun cap (by rw [hh]; exact hcap)
  rw [hb, ← hh]
  simpa using this

open XzVerif.FlushC01 in
/-- both, for the hypothesis-free literal codec: no hypothesis about the compressor is left -/
theorem literal_flush_real_decoder (dictSize : Nat) (hd : dictSize ≤ 4294967295) (fs : Chain) (hfs : SyncChain fs)
    (ops : List Op) (data : Bytes)
    (hrun : (Enc.execAll (lzmaEnv dictSize literalParser) (Enc.rawInit (lzmaEnv dictSize literalParser) fs) ops).1.finished = false)
    (cap : Nat) :
    (let r := Enc.execAll (lzmaEnv dictSize literalParser) (Enc.rawInit (lzmaEnv dictSize literalParser) fs) (ops ++ [.code .syncFlush data])
     r.2.input.length < cap →
     Lzma2.lzma2Decode dictSize (bodies r.2.segs) [] cap
       = { ret := .ok, out := r.2.input, consumed := (bodies r.2.segs).length } ∧
     Lzma2.lzma2Decode dictSize (bodies r.2.segs ++ [0]) [] cap
       = { ret := .streamEnd, out := r.2.input, consumed := (bodies r.2.segs).length + 1 }) ∧
    (let r := Enc.execAll (lzmaEnv dictSize literalParser) (Enc.rawInit (lzmaEnv dictSize literalParser) fs) (ops ++ [.code .finish data])
     r.2.input.length < cap →
     Lzma2.lzma2Decode dictSize (bodies r.2.segs) [] cap
       = { ret := .streamEnd, out := r.2.input, consumed := (bodies r.2.segs).length }) :=
  ⟨sync_flush_real_decoder dictSize hd literalParser (lzma2Codec_sound_literal dictSize hd).1 fs hfs ops data hrun cap,
   finish_real_decoder dictSize hd literalParser (lzma2Codec_sound_literal dictSize hd).1 fs hfs ops data hrun cap⟩

/-! ## Link to the .xz container decoder (C02): `Fmt` := the container encoders, decoder := `XzDecode.xzDecode XzEnv.stdEnv` -/

open XzVerif.FlushC01 XzVerif.FlushXz XzVerif.Container XzVerif.XzDecode in
/-- **Every Block closed by LZMA_FULL_FLUSH / LZMA_FULL_BARRIER is a Block of the .xz grammar.**
    Setting: the single-threaded Stream encoder model with C01's chunk codec (ANY parser for which it is sound) for every
    Block and liblzma's Check (`StdEnv`), rendered with the container encoders of Model/Container.lean (`stdFmt`:
    `streamHeaderEncode`, `blockHeaderEncodeWith`, `indexEncode`, `streamFooterEncode`). After ANY history of RUN /
    SYNC_FLUSH / FULL_FLUSH / FULL_BARRIER / `lzma_filters_update` (lc/lp/pb and dict_size may change, also in the middle
    of a Block), when a full flush completes without a fatal error the output is Stream Header ++ whole Blocks, their
    data is all input so far, and EVERY Block written so far
      * is a truthful Block for the container decoder (`GoodBlock XzEnv.stdEnv`: its header decodes, the payload decoder
        of `stdEnv` — the executable LZMA2 decoder — returns the Block's data from the Compressed Data field with
        LZMA_STREAM_END whatever follows, Block Padding and Check are right, and the Index Record the encoder stored is the
        Block's Unpadded Size), and
      * is a `DBlock` of the declarative grammar (Lemmas/XzGrammar.lean).
    `_partial`: chains are restricted to ONE LZMA2 filter (`SingleL2`: in the flush model delta/BCJ filters are the
    identity on data, so only such chains correspond to real streams); the threaded encoder is not covered. -/
theorem full_flush_blocks_xz_partial {E : Env St} (dictSize : Nat) (hd : dictSize ≤ 4294967295) (P : Parser)
    (hS : (lzmaCodec dictSize P).Sound) (hE : StdEnv E dictSize P) (fs : Chain) (check : Nat)
    (hsup : checkIsSupported check = true) (hfs : SingleL2 dictSize fs)
    (hacc : (StreamEnc.init (E.codec 0) fs check).2 = .ok)
    (ops : List Op) (hops : ∀ op ∈ ops, SingleOp dictSize op) (a : Action) (ha : a = .fullFlush ∨ a = .fullBarrier) (data : Bytes)
    (hrun : (Enc.execAll E (Enc.streamInit E fs check) ops).1.finished = false)
    (hlive : (Enc.execAll E (Enc.streamInit E fs check) (ops ++ [.code a data])).1.dead = false) :
    let r := Enc.execAll E (Enc.streamInit E fs check) (ops ++ [.code a data])
    ∃ s, r.1.core = .stream s ∧
      render (stdFmt check) r.2.segs = (stdFmt check).streamHeader check ++ doneBytes (stdFmt check) s.done ∧
      doneData s.done = r.2.input ∧
      ∀ (i : Nat) (b : DoneBlock), s.done[i]? = some b → ∃ rec, s.records[i]? = some rec ∧
        GoodBlock XzEnv.stdEnv check b.data ((stdFmt check).blockHeader b.chain none none ++ b.body) rec.1 ∧
        ∃ (f : Flush.Filter) (hdr comp : List UInt8) (ds : Nat),
          b.chain = [f] ∧ (stdFmt check).blockHeader b.chain none none = hdr ∧ hdr.length = 12 ∧
          (∀ t, blockHeaderDecode check (hdr ++ t) = .ok (lzma2Header f.dict)) ∧
          propsDecode FILTER_LZMA2 [UInt8.ofNat (lzma2DictEncode f.dict)] = .ok (.lzma2 ds) ∧ f.dict ≤ ds ∧ ds ≤ 4294967295 ∧
          Container.validateChain ((lzma2Header f.dict).filters.map (·.id)) = .ok 1 ∧
          b.body = comp ++ List.replicate (blockPadLen comp.length) 0 ++ (if check = 0 then [] else XzEnv.check check b.data) ∧
          rec = (comp.length + 12 + Container.checkSize check, b.data.length) ∧
          ∀ (cap : Nat) (ign : Bool), b.data.length ≤ cap →
            DBlock XzEnv.stdEnv check ign (lzma2Header f.dict) cap comp b.data
              (List.replicate (blockPadLen comp.length) 0) (if check = 0 then [] else XzEnv.check check b.data) := by
  intro r
  have hEs : ∀ i, (E.codec i).Sound := fun i => by rw [hE.codec]; exact hS
  have hops' : ∀ op ∈ ops ++ [Op.code a data], SingleOp dictSize op := by
    intro op hop
    rcases List.mem_append.mp hop with h | h
    · exact hops op h
    · simp only [List.mem_singleton] at h; subst h; trivial
  obtain ⟨_, s0, s, _, hc, hrender, hdata, _, _⟩ := full_flush_ends_block E hEs (stdFmt check) fs check hacc ops a ha data hrun hlive
  obtain ⟨s', hc', _, _, hfacts⟩ := stream_blocks_facts dictSize hd P hS hE (stdFmt check) fs check hfs hacc _ hops' hlive
  rw [hc] at hc'; cases hc'
  refine ⟨s, hc, hrender, hdata, ?_⟩
  intro i b hb
  obtain ⟨rec, hr, hf⟩ := hfacts i b hb
  exact ⟨rec, hr, doneBlock_good check hsup b rec hf, doneBlock_dblock check hsup b rec hf⟩

open XzVerif.FlushC01 XzVerif.FlushXz XzVerif.Container XzVerif.XzDecode in
/-- **The finished Stream is a valid .xz file and decodes to the whole input.** Same setting; after ANY history, when
    LZMA_FINISH completes without a fatal error, the complete output (rendered with the container encoders) is decoded by
    the container decoder model `XzDecode.xzDecode XzEnv.stdEnv` (any flags, any sufficient output capacity) to exactly
    the input of the whole history, LZMA_STREAM_END, every byte consumed, and it satisfies the declarative grammar
    `DValidXz`. Hypothesis `hidx`: `lzma_index_append` accepted every Record the encoder stored (stream_encoder.c fails
    with its error otherwise; the flush model has no such error path — `FlushXz.finished_stream_valid_small` replaces it
    by: at most 2^29 Blocks, sizes summing to at most 2^62).
    `_partial` for the same restriction as above (one LZMA2 filter per chain, single-threaded encoder). -/
theorem finished_stream_xz_partial {E : Env St} (dictSize : Nat) (hd : dictSize ≤ 4294967295) (P : Parser)
    (hS : (lzmaCodec dictSize P).Sound) (hE : StdEnv E dictSize P) (fs : Chain) (check : Nat)
    (hsup : checkIsSupported check = true) (hfs : SingleL2 dictSize fs)
    (hacc : (StreamEnc.init (E.codec 0) fs check).2 = .ok)
    (ops : List Op) (hops : ∀ op ∈ ops, SingleOp dictSize op) (data : Bytes)
    (hrun : (Enc.execAll E (Enc.streamInit E fs check) ops).1.finished = false)
    (hlive : (Enc.execAll E (Enc.streamInit E fs check) (ops ++ [.code .finish data])).1.dead = false) :
    let r := Enc.execAll E (Enc.streamInit E fs check) (ops ++ [.code .finish data])
    ∃ s, r.1.core = .stream s ∧ doneData s.done = r.2.input ∧
      ∀ acc, indexAppendAll (s.records.map recOf) {} = .ok acc → ∀ (fl : Flags) (cap : Nat), r.2.input.length ≤ cap →
        xzDecode XzEnv.stdEnv fl (render (stdFmt check) r.2.segs) cap
          = { ret := .streamEnd, out := r.2.input, consumed := (render (stdFmt check) r.2.segs).length,
              events := headerEvents XzEnv.stdEnv fl check } ∧
        DValidXz XzEnv.stdEnv fl (render (stdFmt check) r.2.segs) cap r.2.input (render (stdFmt check) r.2.segs).length :=
  finished_stream_xz dictSize hd P hS hE fs check hsup hfs hacc ops hops data hrun hlive

open XzVerif.FlushC01 XzVerif.FlushXz XzVerif.Container XzVerif.XzDecode in
/-- the same for the hypothesis-free literal codec (`lzma2Codec_sound_literal`) with match-distance bound 4 KiB, which
    every accepted LZMA2 dictionary size covers: nothing is assumed about the compressor -/
theorem finished_stream_xz_literal_partial (f : Flush.Filter) (hid : f.id = ID_LZMA2) (hm : f.memOk = true) (check : Nat)
    (hsup : checkIsSupported check = true)
    (hacc : (StreamEnc.init ((xzEnv 4096 literalParser).codec 0) [f] check).2 = .ok)
    (ops : List Op) (hops : ∀ op ∈ ops, SingleOp 4096 op) (data : Bytes)
    (hrun : (Enc.execAll (xzEnv 4096 literalParser) (Enc.streamInit (xzEnv 4096 literalParser) [f] check) ops).1.finished = false)
    (hlive : (Enc.execAll (xzEnv 4096 literalParser) (Enc.streamInit (xzEnv 4096 literalParser) [f] check)
      (ops ++ [.code .finish data])).1.dead = false) :
    let r := Enc.execAll (xzEnv 4096 literalParser) (Enc.streamInit (xzEnv 4096 literalParser) [f] check) (ops ++ [.code .finish data])
    ∃ s, r.1.core = .stream s ∧ doneData s.done = r.2.input ∧
      ∀ acc, indexAppendAll (s.records.map recOf) {} = .ok acc → ∀ (fl : Flags) (cap : Nat), r.2.input.length ≤ cap →
        xzDecode XzEnv.stdEnv fl (render (stdFmt check) r.2.segs) cap
          = { ret := .streamEnd, out := r.2.input, consumed := (render (stdFmt check) r.2.segs).length,
              events := headerEvents XzEnv.stdEnv fl check } ∧
        DValidXz XzEnv.stdEnv fl (render (stdFmt check) r.2.segs) cap r.2.input (render (stdFmt check) r.2.segs).length :=
  finished_stream_xz 4096 (by decide) literalParser (lzma2Codec_sound_literal 4096 (by decide)).1 (xzEnv_std 4096 literalParser)
    [f] check hsup ⟨f, rfl, hid, hm, (memOk_dict f hid hm).2.1⟩ hacc ops hops data hrun hlive

/-! ## Non-vacuity: a concrete compressor that satisfies the contract, and concrete histories -/

/-- A toy compressor: two equal bytes become a one-byte LZMA chunk ("run of two"), anything else a stored chunk of one
    byte; under LZMA_RUN it never closes a chunk. -/
def toyCodec : Codec Unit :=
  { reset := fun _ => ()
    choose := fun fl _ _ _ a =>
      if !fl then none
      else match a with
        | x :: y :: _ => if x == y then some (⟨2, [x]⟩, ()) else some (⟨1, [x]⟩, ())
        | [x] => some (⟨1, [x]⟩, ())
        | [] => none
    dec := fun _ _ _ payload n =>
      match payload with
      | [x] => some (List.replicate n x, ())
      | _ => none }

theorem toyCodec_sound : toyCodec.Sound := by
  constructor
  · intro fl p s d a ch s' h
    cases fl
    · simp [toyCodec] at h
    · match a, h with
      | [], h => simp [toyCodec] at h
      | [x], h =>
        simp [toyCodec] at h; obtain ⟨rfl, _⟩ := h
        simp [Choice.isLzma, LZMA2_UNCOMPRESSED_MAX, LZMA2_CHUNK_MAX]
      | x :: y :: rest, h =>
        simp only [toyCodec, Bool.not_true, Bool.false_eq_true, if_false] at h
        by_cases hxy : (x == y) = true
        · simp [hxy] at h; obtain ⟨rfl, _⟩ := h
          simp [Choice.isLzma, LZMA2_UNCOMPRESSED_MAX, LZMA2_CHUNK_MAX]
        · simp [hxy] at h; obtain ⟨rfl, _⟩ := h
          simp [Choice.isLzma, LZMA2_UNCOMPRESSED_MAX, LZMA2_CHUNK_MAX]
  · intro p s d a ch s' h; simp [toyCodec] at h
  · intro p s d a _ ha
    match a, ha with
    | [x], _ => simp [toyCodec]
    | x :: y :: rest, _ =>
      simp only [toyCodec, Bool.not_true, Bool.false_eq_true, if_false]
      by_cases hxy : (x == y) = true <;> simp [hxy]
  · intro fl p s d a ch s' h hz
    cases fl
    · simp [toyCodec] at h
    · match a, h with
      | [], h => simp [toyCodec] at h
      | [x], h =>
        simp [toyCodec] at h; obtain ⟨rfl, _⟩ := h
        simp [Choice.isLzma] at hz
      | x :: y :: rest, h =>
        simp only [toyCodec, Bool.not_true, Bool.false_eq_true, if_false] at h
        by_cases hxy : (x == y) = true
        · simp [hxy] at h; obtain ⟨rfl, rfl⟩ := h
          have : x = y := by simpa using hxy
          subst this
          simp [toyCodec, List.replicate]
        · simp [hxy] at h; obtain ⟨rfl, _⟩ := h
          simp [Choice.isLzma] at hz

def toyEnv : Env Unit :=
  { codec := fun _ => toyCodec, hold := fun _ _ => 0, checkBytes := fun id _ => List.replicate (checkSize id) 0,
    mtStored := fun _ _ => false, mtHeaderSize := fun _ _ => 16 }

def lzma2Chain : Chain := [{ id := ID_LZMA2, props := ⟨3, 0, 2⟩, dict := 65536 }]
def deltaLzma2 : Chain := [{ id := ID_DELTA, dist := 1 }, { id := ID_LZMA2, props := ⟨0, 2, 1⟩, dict := 4096 }]
def x86Lzma2 : Chain := [{ id := ID_X86 }, { id := ID_LZMA2, props := ⟨3, 0, 2⟩, dict := 65536 }]
def lzma1Chain : Chain := [{ id := ID_LZMA1, props := ⟨3, 0, 2⟩, dict := 65536 }]

example : SyncChain lzma2Chain := ⟨⟨_, rfl, by decide, by decide⟩, by decide⟩
example : SyncChain deltaLzma2 := ⟨⟨_, rfl, by decide, by decide⟩, by decide⟩
example : (StreamEnc.init (toyEnv.codec 0) lzma2Chain 4).2 = .ok := by decide
example : (StreamEnc.init (toyEnv.codec 0) deltaLzma2 1).2 = .ok := by decide
/-- LZMA1 cannot be put into a .xz Block (filter_flags: ID >= LZMA_FILTER_RESERVED_START) -/
example : (StreamEnc.init (toyEnv.codec 0) lzma1Chain 4).2 = .progError := by decide

/-- a history with a flush as first call, back-to-back flushes, an update after SYNC_FLUSH, a mid-chunk (refused)
    update, an update between Blocks, and flushes carrying input -/
def demoOps : List Op :=
  [.code .fullFlush [], .code .syncFlush [], .code .run [7, 7, 1], .code .syncFlush [2],
   .update [{ id := ID_LZMA2, props := ⟨0, 0, 0⟩, dict := 65536 }], .code .run [5, 5],
   .update [{ id := ID_LZMA2, props := ⟨1, 1, 1⟩, dict := 65536 }],
   .code .fullFlush [], .code .fullBarrier [], .update deltaLzma2, .code .fullBarrier [9, 9, 9], .code .finish [4]]

/-- ... runs without error, ends finished, and its return codes are what liblzma gives (update mid-chunk: PROG_ERROR) -/
example : ((Enc.execAll toyEnv (Enc.streamInit toyEnv lzma2Chain 4) demoOps).1.dead,
           (Enc.execAll toyEnv (Enc.streamInit toyEnv lzma2Chain 4) demoOps).1.finished,
           (Enc.execAll toyEnv (Enc.streamInit toyEnv lzma2Chain 4) demoOps).2.rets.map Ret.toNat)
    = (false, true, [1, 1, 0, 1, 0, 0, 11, 1, 1, 0, 1, 1]) := by decide

/-- ... and the executable chunk decoder reads back all input after the SYNC_FLUSH of the raw encoder -/
example :
    let r := Enc.execAll toyEnv (Enc.rawInit toyEnv lzma2Chain)
      [.code .syncFlush [], .code .run [7, 7, 1], .code .syncFlush [2],
       .update [{ id := ID_LZMA2, props := ⟨0, 0, 0⟩, dict := 65536 }], .code .run [5, 5], .code .syncFlush []]
    (lzma2Decode toyCodec (bodies r.2.segs)).map (fun d => (d.1.out, d.1.ended, d.2)) = some (r.2.input, false, [])
      ∧ r.2.input = [7, 7, 1, 2, 5, 5] := by decide

/-- chains that cannot honour a sync flush refuse it -/
example : ((Enc.execAll toyEnv (Enc.rawInit toyEnv x86Lzma2) [.code .run [1, 2, 3], .code .syncFlush [], .code .run [4]]).2.rets.map Ret.toNat)
    = [0, 8, 11] := by decide
example : ((Enc.execAll toyEnv (Enc.rawInit toyEnv lzma1Chain) [.code .run [1, 2, 3], .code .syncFlush []]).2.rets.map Ret.toNat)
    = [0, 8] := by decide

/-- the theorems apply to the toy instance: all their hypotheses are satisfiable together -/
example := sync_flush_decodable toyEnv (fun _ => toyCodec_sound) lzma2Chain ⟨⟨_, rfl, by decide, by decide⟩, by decide⟩
  [.code .run [7, 7, 1], .code .syncFlush [], .update [{ id := ID_LZMA2, props := ⟨0, 0, 0⟩, dict := 65536 }]] [5, 5] (by decide)

example (F : Fmt) := flush_then_continue toyEnv (fun _ => toyCodec_sound) F lzma2Chain 4 (by decide) (demoOps.dropLast) [4]
  (by decide) (by decide)

example (F : Fmt) := full_flush_ends_block toyEnv (fun _ => toyCodec_sound) F lzma2Chain 4 (by decide)
  [.code .fullFlush [], .code .run [1, 1]] .fullBarrier (Or.inr rfl) [] (by decide) (by decide)


/-- the hypothesis-free theorems apply: SYNC_FLUSH (and FINISH) of three bytes as the first call on the C01 literal codec;
    the executable decoder model returns exactly these bytes -/
example := literal_flush_real_decoder 65536 (by decide) lzma2Chain ⟨⟨_, rfl, by decide, by decide⟩, by decide⟩
  [] [1, 2, 3] rfl 100

/-- ... and after a history with a change of lc/lp/pb in the middle -/
example := literal_flush_real_decoder 65536 (by decide) lzma2Chain ⟨⟨_, rfl, by decide, by decide⟩, by decide⟩
  [.code .syncFlush [1, 2], .update [{ id := ID_LZMA2, props := ⟨0, 2, 1⟩, dict := 65536 }], .code .run [3]] [4]
  (Enc.execAll_finished _ _ _ rfl (by decide)) 100

example := (lzma2Codec_sound_literal 65536 (by decide)).2.1 deltaLzma2 ⟨⟨_, rfl, by decide, by decide⟩, by decide⟩
  [] [7, 7, 7] rfl

end XzVerif.C12
