/-
  C11 — the `lzma_code` calling protocol is enforced and accounted exactly.

  All theorems are about `Model/LzmaCode.lean` (a line-by-line model of lzma_strm_init / lzma_code /
  lzma_end of src/liblzma/common/common.c) and hold for EVERY inner coder behaviour (`code`), every
  stream state and every history of calls. The model is tied to the C code by
    * the bridge theorems at the end (tables regenerated from /repo by harness/gen_c11.c on every run:
      the complete control table of the real lzma_code(), the supported_actions of every public init
      function, the enum values), and
    * the correspondence run (tools/props/c11.py: the real lzma_code() vs the driver xzm_c11).
  Only property theorems and non-vacuity examples live here; helper lemmas are in Lemmas/LzmaCode.lean.
-/
import XzVerif.Model.LzmaCode
import XzVerif.Lemmas.LzmaCode
import XzVerif.Gen.C11

namespace XzVerif.C11
open XzVerif.LzmaCode

/-! ### Fixtures for the non-vacuity examples -/

/-- A stream initialised with a coder that supports all five actions, 10 bytes of input, 20 of output space. -/
def exStrm : Stream :=
  { installCoder Stream.init 31 with nextIn := some 1000, availIn := 10, nextOut := some 2000, availOut := 20 }

def exInternal (sq : Seq) (abe : Bool := false) (saved : Nat := 10) : Internal :=
  { hasCode := true, sequence := sq, availIn := saved, supported := 31, allowBufError := abe }

def exIn (sq : Seq) (abe : Bool := false) (saved : Nat := 10) : Stream :=
  { exStrm with internal := some (exInternal sq abe saved) }

/-- An inner coder that always answers (consumed, produced, ret). -/
def const (c p r : Nat) : InnerArgs → Resp := fun _ => ⟨c, p, r⟩

def exCall (action : Nat) (c p r : Nat) (availIn : Nat := 10) : Call :=
  { action := action, nextIn := some 1000, availIn := availIn, nextOut := some 2000, availOut := 20, code := const c p r }

/-! ### 1. Programming errors are rejected without acting -/

/-- An out-of-range or unsupported action, a NULL buffer with a non-zero length, a handle that was never
    initialised or was ended (`internal = none`), or a handle without a coder: LZMA_PROG_ERROR, nothing changes,
    the inner coder is not called. -/
theorem prog_error_cases (code : InnerArgs → Resp) (strm : Stream) (action : Nat)
    (h : action > LZMA_ACTION_MAX
      ∨ (∃ i, strm.internal = some i ∧ i.supported.testBit action = false)
      ∨ (strm.nextIn = none ∧ strm.availIn ≠ 0)
      ∨ (strm.nextOut = none ∧ strm.availOut ≠ 0)
      ∨ strm.internal = none
      ∨ (∃ i, strm.internal = some i ∧ i.hasCode = false)) :
    lzmaCode code strm action = ⟨strm, LZMA_PROG_ERROR, none⟩ := by
  apply lzmaCode_gate
  have hs : sanityFail strm action = true := by
    unfold sanityFail
    rcases h with h | ⟨i, hi, h⟩ | ⟨h1, h2⟩ | ⟨h1, h2⟩ | h | ⟨i, hi, h⟩
    · cases hi : strm.internal <;> simp [actionRejected, h]
    · simp [hi, actionRejected, h]
    · simp [h1, h2]
    · simp [h1, h2]
    · simp [h]
    · simp [hi, h]
  simp [gate, hs]

example : lzmaCode (const 1 1 0) exStrm 5 = ⟨exStrm, LZMA_PROG_ERROR, none⟩ :=
  prog_error_cases _ _ _ (Or.inl (by decide))
example : lzmaCode (const 1 1 0) { exStrm with nextIn := none } 0 = ⟨{ exStrm with nextIn := none }, LZMA_PROG_ERROR, none⟩ :=
  prog_error_cases _ _ _ (Or.inr (Or.inr (Or.inl (by decide))))
example : (lzmaCode (const 1 1 0) (lzmaEnd exStrm) 0).ret = LZMA_PROG_ERROR := by decide
example : (lzmaCode (const 1 1 0) (installCoder Stream.init 9) LZMA_SYNC_FLUSH).ret = LZMA_PROG_ERROR := by decide

/-- A freshly `lzma_strm_init`-ed handle accepts no action at all until an init function installs a coder and
    its supported actions. -/
theorem strm_init_resets (strm : Stream) (junk : Nat) :
    ∃ i, (lzmaStrmInit strm junk).internal = some i ∧ i.sequence = .run ∧ i.allowBufError = false
      ∧ i.supported = 0 ∧ (lzmaStrmInit strm junk).totalIn = 0 ∧ (lzmaStrmInit strm junk).totalOut = 0
      ∧ ∀ code action, (lzmaCode code (lzmaStrmInit strm junk) action).ret = LZMA_PROG_ERROR := by
  refine ⟨_, rfl, rfl, rfl, rfl, rfl, rfl, ?_⟩
  intro code action
  rw [prog_error_cases code _ action (Or.inr (Or.inl ⟨_, rfl, by simp⟩))]

/-! ### 2. Reserved members -/

/-- Any reserved member that is not at its default makes a call that passed the sanity checks return
    LZMA_OPTIONS_ERROR; nothing changes and the inner coder is not called. -/
theorem reserved_fields (code : InnerArgs → Resp) (strm : Stream) (action : Nat)
    (hs : sanityFail strm action = false) (hr : strm.reserved ≠ {}) :
    lzmaCode code strm action = ⟨strm, LZMA_OPTIONS_ERROR, none⟩ := by
  apply lzmaCode_gate
  simp [gate, hs, (reserved_bad_iff _).mpr hr]

example : lzmaCode (const 1 1 0) { exStrm with reserved := { enum2 := 1 } } 0
    = ⟨{ exStrm with reserved := { enum2 := 1 } }, LZMA_OPTIONS_ERROR, none⟩ :=
  reserved_fields _ _ _ (by decide) (by decide)

/-! ### 3. A started flush/finish action is locked -/

/-- While a SYNC_FLUSH / FULL_FLUSH / FINISH / FULL_BARRIER is in progress, a different action or a changed
    amount of input is a programming error; nothing changes and the inner coder is not called. -/
theorem action_locked (code : InnerArgs → Resp) (strm : Stream) (action : Nat) (i : Internal) (x : Nat)
    (hg : gate strm action = none) (hi : strm.internal = some i) (hx : i.sequence.lockedAction = some x)
    (hbad : action ≠ x ∨ strm.availIn ≠ i.availIn) :
    lzmaCode code strm action = ⟨strm, LZMA_PROG_ERROR, none⟩ := by
  apply lzmaCode_early hg hi
  unfold seqSwitch
  cases hs : i.sequence <;> simp [hs, Seq.lockedAction] at hx <;> subst hx <;> simp <;> omega

/-- …and the same action with the same amount of input reaches the inner coder with exactly the public buffers. -/
theorem action_locked_accepts (code : InnerArgs → Resp) (strm : Stream) (i : Internal) (x : Nat)
    (hg : gate strm x = none) (hi : strm.internal = some i) (hx : i.sequence.lockedAction = some x)
    (hsame : strm.availIn = i.availIn) :
    (lzmaCode code strm x).called = some (argsOf strm x, code (argsOf strm x)) := by
  unfold gate at hg
  cases hs : sanityFail strm x <;> cases hb : strm.reserved.bad <;> simp [hs, hb] at hg
  have hsw : seqSwitch i x strm.availIn = .ok i.sequence := by
    unfold seqSwitch
    cases hq : i.sequence <;> simp [hq, Seq.lockedAction] at hx <;> subst hx <;> simp [hsame]
  simp [lzmaCode, hs, hb, hi, hsw, argsOf]

example : lzmaCode (const 1 1 0) (exIn .finish) LZMA_RUN = ⟨exIn .finish, LZMA_PROG_ERROR, none⟩ :=
  action_locked _ _ _ _ LZMA_FINISH (by decide) rfl rfl (Or.inl (by decide))
example : lzmaCode (const 1 1 0) (exIn .syncFlush false 9) LZMA_SYNC_FLUSH = ⟨exIn .syncFlush false 9, LZMA_PROG_ERROR, none⟩ :=
  action_locked _ _ _ _ LZMA_SYNC_FLUSH (by decide) rfl rfl (Or.inr (by decide))
example : (lzmaCode (const 1 1 0) (exIn .finish) LZMA_FINISH).called.isSome = true := by decide

/-! ### 4. After the end of the stream -/

/-- Once `sequence = ISEQ_END`, for EVERY further history: the inner coder is never called again, `internal`
    never changes, the stream members are exactly what the application wrote, and the return value is
    LZMA_STREAM_END — except that calls failing the sanity / reserved-member checks still get their
    LZMA_PROG_ERROR / LZMA_OPTIONS_ERROR. -/
theorem after_end (s : Stream) (i : Internal) (hi : s.internal = some i) (he : i.sequence = .end_)
    (calls : List Call) :
    (finalState s calls).internal = some i ∧
    ∀ e ∈ trace s calls,
      e.result.called = none ∧ e.result.strm = e.call.apply e.pre ∧ e.pre.internal = some i
      ∧ e.result.ret = (gate (e.call.apply e.pre) e.call.action).getD LZMA_STREAM_END := by
  induction calls generalizing s with
  | nil => simp [finalState, trace, hi]
  | cons c cs ih =>
    have hstep : step s c = ⟨c.apply s, (gate (c.apply s) c.action).getD LZMA_STREAM_END, none⟩ := by
      unfold step
      cases hg : gate (c.apply s) c.action with
      | some e => rw [lzmaCode_gate hg]; rfl
      | none =>
        rw [lzmaCode_early hg (i := i) (e := LZMA_STREAM_END) (by rw [apply_internal, hi]) (by simp [seqSwitch, he])]
        rfl
    have hi' : (step s c).strm.internal = some i := by rw [hstep]; exact hi
    obtain ⟨h1, h2⟩ := ih (step s c).strm hi'
    refine ⟨by simpa [finalState] using h1, ?_⟩
    intro e he'
    simp only [trace, List.mem_cons] at he'
    rcases he' with rfl | he'
    · simp [hstep, hi]
    · exact h2 e he'

example : ((trace (exIn .end_) [exCall 0 1 1 0, exCall 7 1 1 0, exCall 3 0 0 9]).map (·.result.ret))
    = [LZMA_STREAM_END, LZMA_PROG_ERROR, LZMA_STREAM_END] := by decide

/-! ### 5. After a fatal error -/

/-- Any inner return value other than OK, STREAM_END, NO_CHECK, UNSUPPORTED_CHECK, GET_CHECK, MEMLIMIT_ERROR,
    TIMED_OUT, SEEK_NEEDED is passed through unchanged and puts the handle into ISEQ_ERROR. -/
theorem fatal_sets_error (code : InnerArgs → Resp) (strm : Stream) (action : Nat) (a : InnerArgs) (r : Resp)
    (hc : (lzmaCode code strm action).called = some (a, r)) (hf : nonFatal r.ret = false) :
    (lzmaCode code strm action).ret = r.ret
    ∧ ∃ i', (lzmaCode code strm action).strm.internal = some i' ∧ i'.sequence = .error := by
  obtain ⟨i, -, -, -, -, -, -, -, heq⟩ := lzmaCode_called hc
  rw [heq]
  simp [nonFatal] at hf
  simp [classify, hf]

/-- Once `sequence = ISEQ_ERROR`, for EVERY further history: the inner coder is never called again, nothing
    changes, and every call returns LZMA_PROG_ERROR (LZMA_OPTIONS_ERROR if it passes the sanity checks but has a
    reserved member set). -/
theorem after_fatal (s : Stream) (i : Internal) (hi : s.internal = some i) (he : i.sequence = .error)
    (calls : List Call) :
    (finalState s calls).internal = some i ∧
    ∀ e ∈ trace s calls,
      e.result.called = none ∧ e.result.strm = e.call.apply e.pre
      ∧ e.result.ret = (gate (e.call.apply e.pre) e.call.action).getD LZMA_PROG_ERROR
      ∧ (e.result.ret = LZMA_PROG_ERROR ∨ e.result.ret = LZMA_OPTIONS_ERROR) := by
  induction calls generalizing s with
  | nil => simp [finalState, trace, hi]
  | cons c cs ih =>
    have hstep : step s c = ⟨c.apply s, (gate (c.apply s) c.action).getD LZMA_PROG_ERROR, none⟩ := by
      unfold step
      cases hg : gate (c.apply s) c.action with
      | some e => rw [lzmaCode_gate hg]; rfl
      | none =>
        rw [lzmaCode_early hg (i := i) (e := LZMA_PROG_ERROR) (by rw [apply_internal, hi]) (by simp [seqSwitch, he])]
        rfl
    have hi' : (step s c).strm.internal = some i := by rw [hstep]; exact hi
    obtain ⟨h1, h2⟩ := ih (step s c).strm hi'
    refine ⟨by simpa [finalState] using h1, ?_⟩
    intro e he'
    simp only [trace, List.mem_cons] at he'
    rcases he' with rfl | he'
    · simp only [hstep, true_and]
      unfold gate
      cases sanityFail (c.apply s) c.action <;> cases (c.apply s).reserved.bad <;> simp
    · exact h2 e he'

example : ((trace exStrm [exCall 0 1 1 LZMA_DATA_ERROR, exCall 0 1 1 0, exCall 3 1 1 0]).map (·.result.ret))
    = [LZMA_DATA_ERROR, LZMA_PROG_ERROR, LZMA_PROG_ERROR] := by decide
example : nonFatal LZMA_DATA_ERROR = false ∧ nonFatal LZMA_MEM_ERROR = false ∧ nonFatal LZMA_FORMAT_ERROR = false
    ∧ nonFatal LZMA_OPTIONS_ERROR = false ∧ nonFatal LZMA_PROG_ERROR = false ∧ nonFatal 102 = false := by decide

/-! ### 6. LZMA_BUF_ERROR -/

/-- One call: LZMA_BUF_ERROR is returned exactly when the inner coder was reached, answered LZMA_OK without
    consuming or producing anything, and `allow_buf_error` was already set (assuming, as the C code asserts, that
    the inner coder does not return LZMA_BUF_ERROR itself). It is not fatal: `sequence` is what any other LZMA_OK
    call with this action would leave, and `allow_buf_error` stays set. -/
theorem buf_error_exact (code : InnerArgs → Resp) (strm : Stream) (action : Nat)
    (hlaw : (code (argsOf strm action)).ret ≠ LZMA_BUF_ERROR) :
    ((lzmaCode code strm action).ret = LZMA_BUF_ERROR ↔
      ∃ i a r, strm.internal = some i ∧ (lzmaCode code strm action).called = some (a, r)
        ∧ r.idle = true ∧ i.allowBufError = true)
    ∧ ((lzmaCode code strm action).ret = LZMA_BUF_ERROR →
        ∃ i', (lzmaCode code strm action).strm.internal = some i' ∧ i'.sequence = seqOfAction action
          ∧ i'.allowBufError = true) := by
  cases hc : (lzmaCode code strm action).called with
  | none =>
    have hret : (lzmaCode code strm action).ret ≠ LZMA_BUF_ERROR := by
      unfold lzmaCode at hc ⊢
      cases hs : sanityFail strm action <;> cases hb : strm.reserved.bad <;> simp [hs, hb] at hc ⊢
      cases hi : strm.internal with
      | none => simp
      | some i =>
        cases hsw : seqSwitch i action strm.availIn with
        | ok sq => simp [hi, hsw] at hc
        | error e =>
          simp only [hi, hsw]
          unfold seqSwitch at hsw
          cases hq : i.sequence <;> simp [hq] at hsw
          all_goals first
            | (split at hsw <;> simp at hsw <;> omega)
            | (subst hsw; decide)
            | (split at hsw <;> split at hsw <;> simp at hsw)
            | skip
    simp [hret]
  | some ar =>
    obtain ⟨a, r⟩ := ar
    obtain ⟨i, hi, -, -, -, -, ha, hr, heq⟩ := lzmaCode_called hc
    have hr10 : r.ret ≠ LZMA_BUF_ERROR := by rw [hr, ha]; exact hlaw
    rw [heq]
    simp only [hi, Option.some.injEq, Prod.mk.injEq]
    unfold classify
    by_cases h0 : r.ret = LZMA_OK
    · by_cases hz : r.produced = 0 ∧ r.consumed = 0
      · cases hb : i.allowBufError <;> simp [h0, hz, hb, Resp.idle]
      · have : r.idle = false := by
          simp [Resp.idle, h0]; intro h1 h2; exact hz ⟨h2, h1⟩
        simp [h0, hz, this]
    · have hidle : r.idle = false := by simp [Resp.idle, h0]
      simp only [h0, if_false, hidle]
      split
      · simp
      · split
        · simp
        · split
          · simp
          · split
            · simp; omega
            · simp; exact hr10

/-- Spec monitor for a whole trace: `last` remembers whether the most recent call that reached the inner coder
    was an idle LZMA_OK. It accepts iff LZMA_BUF_ERROR is returned exactly on an idle call whose predecessor
    (among the calls that reached the inner coder) was idle as well. -/
def bufErrorMonitor : Bool → List Entry → Prop
  | _, [] => True
  | last, e :: es =>
    (e.result.ret = LZMA_BUF_ERROR ↔ ∃ a r, e.result.called = some (a, r) ∧ r.idle = true ∧ last = true)
    ∧ bufErrorMonitor (match e.result.called with | some (_, r) => r.idle | none => last) es

/-- Every history on a freshly initialised handle (any supported-actions mask, any inner coder that never
    returns LZMA_BUF_ERROR itself, any actions, lengths, NULL pointers, reserved members…): LZMA_BUF_ERROR is
    returned on the second consecutive idle call and only then. Calls that are rejected before reaching the inner
    coder neither count nor reset. -/
theorem buf_error_history (s : Stream) (i : Internal) (hi : s.internal = some i) (calls : List Call)
    (hlaw : ∀ c ∈ calls, ∀ a, (c.code a).ret ≠ LZMA_BUF_ERROR) :
    bufErrorMonitor i.allowBufError (trace s calls) ∨ i.sequence = .error := by
  sorry

end XzVerif.C11
