/-
  C11 — the `lzma_code` calling protocol is enforced and accounted exactly.

  All theorems are about `Model/LzmaCode.lean` (a line-by-line model of lzma_strm_init / lzma_code /
  lzma_end of src/liblzma/common/common.c) and hold for EVERY inner coder behaviour (`code`), every
  stream state and every history of calls. The model is tied to the C code by
    * the bridge theorems at the end (tables regenerated from /repo by harness/gen_c11.c on every run:
      the complete control table of the real lzma_code(), the supported_actions of every public init
      function, the enum values), and
    * the correspondence run (tools/props/c11.py: the real lzma_code() vs the driver xzm_c11).
  Only property theorems and non-vacuity examples live here; helper lemmas are in Lemmas/LzmaCode.lean.
-/
import XzVerif.Model.LzmaCode
import XzVerif.Lemmas.LzmaCode
import XzVerif.Gen.C11

set_option linter.unusedSimpArgs false

namespace XzVerif.C11
open XzVerif.LzmaCode

/-! ### Fixtures for the non-vacuity examples -/

/-- A stream initialised with a coder that supports all five actions, 10 bytes of input, 20 of output space. -/
def exStrm : Stream :=
  { installCoder Stream.init 31 with nextIn := some 1000, availIn := 10, nextOut := some 2000, availOut := 20 }

def exInternal (sq : Seq) (abe : Bool := false) (saved : Nat := 10) : Internal :=
  { hasCode := true, sequence := sq, availIn := saved, supported := 31, allowBufError := abe }

def exIn (sq : Seq) (abe : Bool := false) (saved : Nat := 10) : Stream :=
  { exStrm with internal := some (exInternal sq abe saved) }

/-- An inner coder that always answers (consumed, produced, ret). -/
def const (c p r : Nat) : InnerArgs → Resp := fun _ => ⟨c, p, r⟩

def exCall (action : Nat) (c p r : Nat) (availIn : Nat := 10) : Call :=
  { action := action, nextIn := some 1000, availIn := availIn, nextOut := some 2000, availOut := 20, code := const c p r }

/-! ### 1. Programming errors are rejected without acting -/

/-- An out-of-range or unsupported action, a NULL buffer with a non-zero length, a handle that was never
    initialised or was ended (`internal = none`), or a handle without a coder: LZMA_PROG_ERROR, nothing changes,
    the inner coder is not called. -/
theorem prog_error_cases (code : InnerArgs → Resp) (strm : Stream) (action : Nat)
    (h : action > LZMA_ACTION_MAX
      ∨ (∃ i, strm.internal = some i ∧ i.supported.testBit action = false)
      ∨ (strm.nextIn = none ∧ strm.availIn ≠ 0)
      ∨ (strm.nextOut = none ∧ strm.availOut ≠ 0)
      ∨ strm.internal = none
      ∨ (∃ i, strm.internal = some i ∧ i.hasCode = false)) :
    lzmaCode code strm action = ⟨strm, LZMA_PROG_ERROR, none⟩ := by
  apply lzmaCode_gate
  have hs : sanityFail strm action = true := by
    unfold sanityFail
    rcases h with h | ⟨i, hi, h⟩ | ⟨h1, h2⟩ | ⟨h1, h2⟩ | h | ⟨i, hi, h⟩
    · cases hi : strm.internal <;> simp [actionRejected, h]
    · simp [hi, actionRejected, h]
    · simp [h1, h2]
    · simp [h1, h2]
    · simp [h]
    · simp [hi, h]
  simp [gate, hs]

example : lzmaCode (const 1 1 0) exStrm 5 = ⟨exStrm, LZMA_PROG_ERROR, none⟩ :=
  prog_error_cases _ _ _ (Or.inl (by decide))
example : lzmaCode (const 1 1 0) { exStrm with nextIn := none } 0 = ⟨{ exStrm with nextIn := none }, LZMA_PROG_ERROR, none⟩ :=
  prog_error_cases _ _ _ (Or.inr (Or.inr (Or.inl (by decide))))
example : (lzmaCode (const 1 1 0) (lzmaEnd exStrm) 0).ret = LZMA_PROG_ERROR := by decide
example : (lzmaCode (const 1 1 0) (installCoder Stream.init 9) LZMA_SYNC_FLUSH).ret = LZMA_PROG_ERROR := by decide

/-- A freshly `lzma_strm_init`-ed handle accepts no action at all until an init function installs a coder and
    its supported actions. -/
theorem strm_init_resets (strm : Stream) (junk : Nat) :
    ∃ i, (lzmaStrmInit strm junk).internal = some i ∧ i.sequence = .run ∧ i.allowBufError = false
      ∧ i.supported = 0 ∧ (lzmaStrmInit strm junk).totalIn = 0 ∧ (lzmaStrmInit strm junk).totalOut = 0
      ∧ ∀ code action, (lzmaCode code (lzmaStrmInit strm junk) action).ret = LZMA_PROG_ERROR := by
  refine ⟨_, rfl, rfl, rfl, rfl, rfl, rfl, ?_⟩
  intro code action
  rw [prog_error_cases code _ action (Or.inr (Or.inl ⟨_, rfl, by simp⟩))]

/-- Re-initialisation. Whatever the handle did before — any earlier coder with any supported actions, any
    `sequence` (END, ERROR, a flush in progress), `allow_buf_error`, totals; a fresh handle or one after `lzma_end` —
    after `lzma_strm_init` + a coder's init function (which only ENABLES its own actions) the supported actions are
    EXACTLY the new coder's set `mask`, `sequence = ISEQ_RUN`, `allow_buf_error = false`, both totals are 0 and a
    coder is installed. Hence every action outside `mask` is LZMA_PROG_ERROR with nothing changed and the coder not
    called, and every action in `mask` reaches the new coder (given non-NULL-or-empty buffers and default reserved
    members). No supported action of a previous coder survives. -/
theorem reinit_resets_supported (strm : Stream) (mask junk : Nat) (hm : mask < 32) :
    ∃ i, (installCoder strm mask junk).internal = some i
      ∧ i.supported = mask ∧ i.sequence = .run ∧ i.allowBufError = false ∧ i.hasCode = true
      ∧ (installCoder strm mask junk).totalIn = 0 ∧ (installCoder strm mask junk).totalOut = 0
      ∧ (∀ code action, mask.testBit action = false →
          lzmaCode code (installCoder strm mask junk) action = ⟨installCoder strm mask junk, LZMA_PROG_ERROR, none⟩)
      ∧ (∀ (c : Call), mask.testBit c.action = true → (c.nextIn = none → c.availIn = 0) →
          (c.nextOut = none → c.availOut = 0) → c.reserved = {} →
          (step (installCoder strm mask junk) c).called.isSome = true) := by
  have hsup : ∀ s : Stream, ∃ i, (installCoder s mask junk).internal = some i ∧ i.supported = mask
      ∧ i.sequence = .run ∧ i.allowBufError = false ∧ i.hasCode = true := by
    intro s
    cases hs : s.internal <;> simp [installCoder, lzmaStrmInit, hs]
  obtain ⟨i, hi, h1, h2, h3, h4⟩ := hsup strm
  refine ⟨i, hi, h1, h2, h3, h4, rfl, rfl, ?_, ?_⟩
  · intro code action hbit
    exact prog_error_cases code _ action (Or.inr (Or.inl ⟨i, hi, by rw [h1]; exact hbit⟩))
  · intro c hbit hin hout hres
    have ha : c.action ≤ 4 := by
      by_cases h : c.action ≤ 4
      · exact h
      · exfalso
        have : mask.testBit c.action = false := by
          apply Nat.testBit_lt_two_pow
          calc mask < 32 := hm
            _ = 2 ^ 5 := rfl
            _ ≤ 2 ^ c.action := Nat.pow_le_pow_right (by decide) (by omega)
        rw [this] at hbit; cases hbit
    have hI : (c.apply (installCoder strm mask junk)).internal = some i := by rw [apply_internal, hi]
    have hg : gate (c.apply (installCoder strm mask junk)) c.action = none := by
      have hs : sanityFail (c.apply (installCoder strm mask junk)) c.action = false := by
        unfold sanityFail
        rw [hI]
        have e1 : (c.apply (installCoder strm mask junk)).nextIn = c.nextIn := rfl
        have e2 : (c.apply (installCoder strm mask junk)).availIn = c.availIn := rfl
        have e3 : (c.apply (installCoder strm mask junk)).nextOut = c.nextOut := rfl
        have e4 : (c.apply (installCoder strm mask junk)).availOut = c.availOut := rfl
        rw [e1, e2, e3, e4]
        have hin' : (c.nextIn.isNone && c.availIn != 0) = false := by
          cases hn : c.nextIn <;> simp [hin, hn]
        have hout' : (c.nextOut.isNone && c.availOut != 0) = false := by
          cases hn : c.nextOut <;> simp [hout, hn]
        simp [hin', hout', h4, actionRejected, h1, hbit]
        simp [LZMA_ACTION_MAX, LZMA_FULL_BARRIER]; omega
      have hb : (c.apply (installCoder strm mask junk)).reserved.bad = false := by
        have : (c.apply (installCoder strm mask junk)).reserved = c.reserved := rfl
        rw [this, hres]; rfl
      simp [gate, hs, hb]
    have hsw : seqSwitch i c.action (c.apply (installCoder strm mask junk)).availIn = .ok (seqOfAction c.action) := by
      have hcases : c.action = 0 ∨ c.action = 1 ∨ c.action = 2 ∨ c.action = 3 ∨ c.action = 4 := by omega
      unfold seqSwitch
      rw [h2]
      rcases hcases with h | h | h | h | h <;> rw [h] <;> simp [seqOfAction, LZMA_RUN, LZMA_SYNC_FLUSH, LZMA_FULL_FLUSH, LZMA_FINISH, LZMA_FULL_BARRIER]
    unfold step
    rw [lzmaCode_ok hg hI hsw]
    rfl

/-- The previous coder's actions really are gone: an easy-encoder handle (all five actions) re-initialised as a
    decoder (RUN, FINISH) rejects SYNC_FLUSH; then re-initialised as the MicroLZMA encoder (FINISH only) rejects RUN. -/
example : (lzmaCode (const 1 1 0) (installCoder (exIn .finish true) 9) LZMA_SYNC_FLUSH).ret = LZMA_PROG_ERROR
    ∧ (lzmaCode (const 1 1 0) (installCoder (installCoder (exIn .end_) 9) 8) LZMA_RUN).ret = LZMA_PROG_ERROR
    ∧ (lzmaCode (const 1 1 0) (installCoder (exIn .error true) 9) LZMA_RUN).ret = LZMA_OK := by decide

/-! ### 2. Reserved members -/

/-- Any reserved member that is not at its default makes a call that passed the sanity checks return
    LZMA_OPTIONS_ERROR; nothing changes and the inner coder is not called. -/
theorem reserved_fields (code : InnerArgs → Resp) (strm : Stream) (action : Nat)
    (hs : sanityFail strm action = false) (hr : strm.reserved ≠ {}) :
    lzmaCode code strm action = ⟨strm, LZMA_OPTIONS_ERROR, none⟩ := by
  apply lzmaCode_gate
  simp [gate, hs, (reserved_bad_iff _).mpr hr]

example : lzmaCode (const 1 1 0) { exStrm with reserved := { enum2 := 1 } } 0
    = ⟨{ exStrm with reserved := { enum2 := 1 } }, LZMA_OPTIONS_ERROR, none⟩ :=
  reserved_fields _ _ _ (by decide) (by decide)

/-! ### 3. A started flush/finish action is locked -/

/-- While a SYNC_FLUSH / FULL_FLUSH / FINISH / FULL_BARRIER is in progress, a different action or a changed
    amount of input is a programming error; nothing changes and the inner coder is not called. -/
theorem action_locked (code : InnerArgs → Resp) (strm : Stream) (action : Nat) (i : Internal) (x : Nat)
    (hg : gate strm action = none) (hi : strm.internal = some i) (hx : i.sequence.lockedAction = some x)
    (hbad : action ≠ x ∨ strm.availIn ≠ i.availIn) :
    lzmaCode code strm action = ⟨strm, LZMA_PROG_ERROR, none⟩ := by
  apply lzmaCode_early hg hi
  unfold seqSwitch
  cases hs : i.sequence <;> simp [hs, Seq.lockedAction] at hx <;> subst hx <;> simp <;> omega

/-- …and the same action with the same amount of input reaches the inner coder with exactly the public buffers. -/
theorem action_locked_accepts (code : InnerArgs → Resp) (strm : Stream) (i : Internal) (x : Nat)
    (hg : gate strm x = none) (hi : strm.internal = some i) (hx : i.sequence.lockedAction = some x)
    (hsame : strm.availIn = i.availIn) :
    (lzmaCode code strm x).called = some (argsOf strm x, code (argsOf strm x)) := by
  unfold gate at hg
  cases hs : sanityFail strm x <;> cases hb : strm.reserved.bad <;> simp [hs, hb] at hg
  have hsw : seqSwitch i x strm.availIn = .ok i.sequence := by
    unfold seqSwitch
    cases hq : i.sequence <;> simp [hq, Seq.lockedAction] at hx <;> subst hx <;> simp [hsame]
  simp [lzmaCode, hs, hb, hi, hsw, argsOf]

example : lzmaCode (const 1 1 0) (exIn .finish) LZMA_RUN = ⟨exIn .finish, LZMA_PROG_ERROR, none⟩ :=
  action_locked _ _ _ _ LZMA_FINISH (by decide) rfl rfl (Or.inl (by decide))
example : lzmaCode (const 1 1 0) (exIn .syncFlush false 9) LZMA_SYNC_FLUSH = ⟨exIn .syncFlush false 9, LZMA_PROG_ERROR, none⟩ :=
  action_locked _ _ _ _ LZMA_SYNC_FLUSH (by decide) rfl rfl (Or.inr (by decide))
example : (lzmaCode (const 1 1 0) (exIn .finish) LZMA_FINISH).called.isSome = true := by decide

/-! ### 4. After the end of the stream -/

/-- Once `sequence = ISEQ_END`, for EVERY further history: the inner coder is never called again, `internal`
    never changes, the stream members are exactly what the application wrote, and the return value is
    LZMA_STREAM_END — except that calls failing the sanity / reserved-member checks still get their
    LZMA_PROG_ERROR / LZMA_OPTIONS_ERROR. -/
theorem after_end (s : Stream) (i : Internal) (hi : s.internal = some i) (he : i.sequence = .end_)
    (calls : List Call) :
    (finalState s calls).internal = some i ∧
    ∀ e ∈ trace s calls,
      e.result.called = none ∧ e.result.strm = e.call.apply e.pre ∧ e.pre.internal = some i
      ∧ e.result.ret = (gate (e.call.apply e.pre) e.call.action).getD LZMA_STREAM_END := by
  induction calls generalizing s with
  | nil => simp [finalState, trace, hi]
  | cons c cs ih =>
    have hstep : step s c = ⟨c.apply s, (gate (c.apply s) c.action).getD LZMA_STREAM_END, none⟩ := by
      unfold step
      cases hg : gate (c.apply s) c.action with
      | some e => rw [lzmaCode_gate hg]; rfl
      | none =>
        rw [lzmaCode_early hg (i := i) (e := LZMA_STREAM_END) (by rw [apply_internal, hi]) (by simp [seqSwitch, he])]
        rfl
    have hi' : (step s c).strm.internal = some i := by rw [hstep]; exact hi
    obtain ⟨h1, h2⟩ := ih (step s c).strm hi'
    refine ⟨by simpa [finalState] using h1, ?_⟩
    intro e he'
    simp only [trace, List.mem_cons] at he'
    rcases he' with rfl | he'
    · simp [hstep, hi]
    · exact h2 e he'

example : ((trace (exIn .end_) [exCall 0 1 1 0, exCall 7 1 1 0, exCall 3 0 0 9]).map (·.result.ret))
    = [LZMA_STREAM_END, LZMA_PROG_ERROR, LZMA_STREAM_END] := by decide

/-! ### 5. After a fatal error -/

/-- Any inner return value other than OK, STREAM_END, NO_CHECK, UNSUPPORTED_CHECK, GET_CHECK, MEMLIMIT_ERROR,
    TIMED_OUT, SEEK_NEEDED is passed through unchanged and puts the handle into ISEQ_ERROR. -/
theorem fatal_sets_error (code : InnerArgs → Resp) (strm : Stream) (action : Nat) (a : InnerArgs) (r : Resp)
    (hc : (lzmaCode code strm action).called = some (a, r)) (hf : nonFatal r.ret = false) :
    (lzmaCode code strm action).ret = r.ret
    ∧ ∃ i', (lzmaCode code strm action).strm.internal = some i' ∧ i'.sequence = .error := by
  obtain ⟨i, -, -, -, -, -, -, -, heq⟩ := lzmaCode_called hc
  rw [heq]
  simp [nonFatal] at hf
  simp [classify, hf]

/-- Once `sequence = ISEQ_ERROR`, for EVERY further history: the inner coder is never called again, nothing
    changes, and every call returns LZMA_PROG_ERROR (LZMA_OPTIONS_ERROR if it passes the sanity checks but has a
    reserved member set). -/
theorem after_fatal (s : Stream) (i : Internal) (hi : s.internal = some i) (he : i.sequence = .error)
    (calls : List Call) :
    (finalState s calls).internal = some i ∧
    ∀ e ∈ trace s calls,
      e.result.called = none ∧ e.result.strm = e.call.apply e.pre
      ∧ e.result.ret = (gate (e.call.apply e.pre) e.call.action).getD LZMA_PROG_ERROR
      ∧ (e.result.ret = LZMA_PROG_ERROR ∨ e.result.ret = LZMA_OPTIONS_ERROR) := by
  induction calls generalizing s with
  | nil => simp [finalState, trace, hi]
  | cons c cs ih =>
    have hstep : step s c = ⟨c.apply s, (gate (c.apply s) c.action).getD LZMA_PROG_ERROR, none⟩ := by
      unfold step
      cases hg : gate (c.apply s) c.action with
      | some e => rw [lzmaCode_gate hg]; rfl
      | none =>
        rw [lzmaCode_early hg (i := i) (e := LZMA_PROG_ERROR) (by rw [apply_internal, hi]) (by simp [seqSwitch, he])]
        rfl
    have hi' : (step s c).strm.internal = some i := by rw [hstep]; exact hi
    obtain ⟨h1, h2⟩ := ih (step s c).strm hi'
    refine ⟨by simpa [finalState] using h1, ?_⟩
    intro e he'
    simp only [trace, List.mem_cons] at he'
    rcases he' with rfl | he'
    · simp only [hstep, true_and]
      unfold gate
      cases sanityFail (c.apply s) c.action <;> cases (c.apply s).reserved.bad <;> simp
    · exact h2 e he'

example : ((trace exStrm [exCall 0 1 1 LZMA_DATA_ERROR, exCall 0 1 1 0, exCall 3 1 1 0]).map (·.result.ret))
    = [LZMA_DATA_ERROR, LZMA_PROG_ERROR, LZMA_PROG_ERROR] := by decide
example : nonFatal LZMA_DATA_ERROR = false ∧ nonFatal LZMA_MEM_ERROR = false ∧ nonFatal LZMA_FORMAT_ERROR = false
    ∧ nonFatal LZMA_OPTIONS_ERROR = false ∧ nonFatal LZMA_PROG_ERROR = false ∧ nonFatal 102 = false := by decide

/-! ### 6. LZMA_BUF_ERROR -/

/-- One call: LZMA_BUF_ERROR is returned exactly when the inner coder was reached, answered LZMA_OK without
    consuming or producing anything, and `allow_buf_error` was already set (assuming, as the C code asserts, that
    the inner coder does not return LZMA_BUF_ERROR itself). It is not fatal: `sequence` is what any other LZMA_OK
    call with this action would leave, and `allow_buf_error` stays set. -/
theorem buf_error_exact (code : InnerArgs → Resp) (strm : Stream) (action : Nat)
    (hlaw : (code (argsOf strm action)).ret ≠ LZMA_BUF_ERROR) :
    ((lzmaCode code strm action).ret = LZMA_BUF_ERROR ↔
      ∃ i a r, strm.internal = some i ∧ (lzmaCode code strm action).called = some (a, r)
        ∧ r.idle = true ∧ i.allowBufError = true)
    ∧ ((lzmaCode code strm action).ret = LZMA_BUF_ERROR →
        ∃ i', (lzmaCode code strm action).strm.internal = some i' ∧ i'.sequence = seqOfAction action
          ∧ i'.allowBufError = true) := by
  have hiff := lzmaCode_buf_error_iff code strm action hlaw
  refine ⟨hiff, ?_⟩
  intro h
  obtain ⟨i, a, r, hi, hc, hidle, habe⟩ := hiff.mp h
  obtain ⟨i2, hi2, -, -, -, -, -, -, heq⟩ := lzmaCode_called hc
  rw [hi] at hi2; cases hi2
  rw [heq]
  simp [Resp.idle] at hidle
  simp [classify, hidle, habe]

example : (lzmaCode (const 0 0 0) (exIn .run true) 0).ret = LZMA_BUF_ERROR := by decide
example : (lzmaCode (const 0 0 0) (exIn .run false) 0).ret = LZMA_OK := by decide

/-- Every history on any handle (any supported-actions mask, any inner coder that never returns LZMA_BUF_ERROR
    itself, any actions, lengths, NULL pointers, reserved members…): LZMA_BUF_ERROR is returned on an idle call
    whose predecessor — among the calls that reached the inner coder — idled as well, and only then. Calls that
    are rejected before reaching the inner coder neither count nor reset. (`bufErrorMonitor` is the spec monitor
    in Lemmas/LzmaCode.lean; it starts from the handle's current `allow_buf_error`, which is `false` after
    every initialisation by `strm_init_resets`.) -/
theorem buf_error_history (s : Stream) (i : Internal) (hi : s.internal = some i) (calls : List Call)
    (hlaw : ∀ c ∈ calls, ∀ a, (c.code a).ret ≠ LZMA_BUF_ERROR) :
    bufErrorMonitor i.allowBufError (trace s calls) :=
  bufErrorMonitor_trace calls hlaw s i _ hi (Or.inr rfl)

/-- first idle call OK, a rejected call in between does not reset, second idle call BUF_ERROR, third too,
    then progress returns normally and re-arms the grace call. -/
example : ((trace exStrm [exCall 0 0 0 0, exCall 9 0 0 0, exCall 0 0 0 0, exCall 0 0 0 0, exCall 0 1 0 0 10,
                          exCall 0 0 0 0 9, exCall 0 0 0 0 9]).map (·.result.ret))
    = [LZMA_OK, LZMA_PROG_ERROR, LZMA_BUF_ERROR, LZMA_BUF_ERROR, LZMA_OK, LZMA_OK, LZMA_BUF_ERROR] := by decide

/-- After LZMA_BUF_ERROR (or at any time) a call in which the inner coder makes progress returns normally and
    clears `allow_buf_error`. -/
theorem buf_error_recovers (code : InnerArgs → Resp) (strm : Stream) (action : Nat) (a : InnerArgs) (r : Resp)
    (hc : (lzmaCode code strm action).called = some (a, r)) (hok : r.ret = LZMA_OK)
    (hprog : r.consumed ≠ 0 ∨ r.produced ≠ 0) :
    (lzmaCode code strm action).ret = LZMA_OK
    ∧ ∃ i', (lzmaCode code strm action).strm.internal = some i' ∧ i'.allowBufError = false
        ∧ i'.sequence = seqOfAction action := by
  obtain ⟨i, -, -, -, -, -, -, -, heq⟩ := lzmaCode_called hc
  rw [heq]
  have : ¬(r.produced = 0 ∧ r.consumed = 0) := by omega
  simp [classify, hok, this]

example : (lzmaCode (const 1 0 0) (exIn .run true) 0).ret = LZMA_OK := by decide

/-! ### 7./8. End of a flush, LZMA_SEEK_NEEDED, LZMA_TIMED_OUT, non-fatal codes -/

/-- LZMA_STREAM_END from the inner coder ends a SYNC_FLUSH / FULL_FLUSH / FULL_BARRIER by going back to ISEQ_RUN
    (coding continues); under LZMA_FINISH or LZMA_RUN it is the end of the stream (ISEQ_END). -/
theorem flush_returns_to_run (code : InnerArgs → Resp) (strm : Stream) (action : Nat) (a : InnerArgs) (r : Resp)
    (hc : (lzmaCode code strm action).called = some (a, r)) (hr : r.ret = LZMA_STREAM_END) :
    (lzmaCode code strm action).ret = LZMA_STREAM_END
    ∧ ∃ i', (lzmaCode code strm action).strm.internal = some i' ∧ i'.allowBufError = false
        ∧ i'.sequence = (if action = LZMA_SYNC_FLUSH ∨ action = LZMA_FULL_FLUSH ∨ action = LZMA_FULL_BARRIER
                         then .run else .end_) := by
  obtain ⟨i, -, -, -, ha, -, -, -, heq⟩ := lzmaCode_called hc
  rw [heq]
  have hcases : action = 0 ∨ action = 1 ∨ action = 2 ∨ action = 3 ∨ action = 4 := by omega
  rcases hcases with rfl | rfl | rfl | rfl | rfl <;> simp [classify, hr, seqOfAction, LZMA_OK, LZMA_STREAM_END, LZMA_NO_CHECK, LZMA_UNSUPPORTED_CHECK, LZMA_GET_CHECK, LZMA_MEMLIMIT_ERROR, LZMA_TIMED_OUT, LZMA_RET_INTERNAL1, LZMA_SEEK_NEEDED, LZMA_RUN, LZMA_SYNC_FLUSH, LZMA_FULL_FLUSH, LZMA_FINISH, LZMA_FULL_BARRIER]

example : ((trace exStrm [exCall 1 1 1 0, exCall 1 0 1 1 9, exCall 0 1 1 0 9, exCall 3 1 1 1 8, exCall 0 1 1 0 7]).map
    (fun e => (e.result.ret, e.result.strm.internal.map (·.sequence))))
    = [(LZMA_OK, some .syncFlush), (LZMA_STREAM_END, some .run), (LZMA_OK, some .run), (LZMA_STREAM_END, some .end_),
       (LZMA_STREAM_END, some .end_)] := by decide

/-- LZMA_SEEK_NEEDED is passed through; under LZMA_FINISH the handle goes back to ISEQ_RUN so that the
    application may supply different input; under any other action the sequence is simply that action's. -/
theorem seek_needed_resets (code : InnerArgs → Resp) (strm : Stream) (action : Nat) (a : InnerArgs) (r : Resp)
    (hc : (lzmaCode code strm action).called = some (a, r)) (hr : r.ret = LZMA_SEEK_NEEDED) :
    (lzmaCode code strm action).ret = LZMA_SEEK_NEEDED
    ∧ ∃ i', (lzmaCode code strm action).strm.internal = some i' ∧ i'.allowBufError = false
        ∧ i'.sequence = (if action = LZMA_FINISH then .run else seqOfAction action) := by
  obtain ⟨i, -, -, -, ha, -, -, -, heq⟩ := lzmaCode_called hc
  rw [heq]
  have hcases : action = 0 ∨ action = 1 ∨ action = 2 ∨ action = 3 ∨ action = 4 := by omega
  rcases hcases with rfl | rfl | rfl | rfl | rfl <;> simp [classify, hr, seqOfAction, LZMA_OK, LZMA_STREAM_END, LZMA_NO_CHECK, LZMA_UNSUPPORTED_CHECK, LZMA_GET_CHECK, LZMA_MEMLIMIT_ERROR, LZMA_TIMED_OUT, LZMA_RET_INTERNAL1, LZMA_SEEK_NEEDED, LZMA_RUN, LZMA_SYNC_FLUSH, LZMA_FULL_FLUSH, LZMA_FINISH, LZMA_FULL_BARRIER]

example : ((trace exStrm [exCall 3 1 1 LZMA_SEEK_NEEDED, exCall 0 1 1 0 3]).map
    (fun e => (e.result.ret, e.result.strm.internal.map (·.sequence))))
    = [(LZMA_SEEK_NEEDED, some .run), (LZMA_OK, some .run)] := by decide

/-- NO_CHECK, UNSUPPORTED_CHECK, GET_CHECK and MEMLIMIT_ERROR are passed through and coding may continue. -/
theorem nonfatal_continues (code : InnerArgs → Resp) (strm : Stream) (action : Nat) (a : InnerArgs) (r : Resp)
    (hc : (lzmaCode code strm action).called = some (a, r))
    (hr : r.ret = LZMA_NO_CHECK ∨ r.ret = LZMA_UNSUPPORTED_CHECK ∨ r.ret = LZMA_GET_CHECK ∨ r.ret = LZMA_MEMLIMIT_ERROR) :
    (lzmaCode code strm action).ret = r.ret
    ∧ ∃ i', (lzmaCode code strm action).strm.internal = some i' ∧ i'.allowBufError = false
        ∧ i'.sequence = seqOfAction action := by
  obtain ⟨i, -, -, -, -, -, -, -, heq⟩ := lzmaCode_called hc
  rw [heq]
  rcases hr with hr | hr | hr | hr <;> simp [classify, hr, LZMA_OK, LZMA_STREAM_END, LZMA_NO_CHECK, LZMA_UNSUPPORTED_CHECK, LZMA_GET_CHECK, LZMA_MEMLIMIT_ERROR, LZMA_TIMED_OUT, LZMA_RET_INTERNAL1, LZMA_SEEK_NEEDED, LZMA_RUN, LZMA_SYNC_FLUSH, LZMA_FULL_FLUSH, LZMA_FINISH, LZMA_FULL_BARRIER]

example : (lzmaCode (const 0 0 LZMA_MEMLIMIT_ERROR) exStrm 0).ret = LZMA_MEMLIMIT_ERROR
    ∧ ((lzmaCode (const 0 0 LZMA_MEMLIMIT_ERROR) exStrm 0).strm.internal.map (·.sequence)) = some .run := by decide

/-- The internal LZMA_TIMED_OUT becomes LZMA_OK, never LZMA_BUF_ERROR, and clears `allow_buf_error`. -/
theorem timed_out_is_ok (code : InnerArgs → Resp) (strm : Stream) (action : Nat) (a : InnerArgs) (r : Resp)
    (hc : (lzmaCode code strm action).called = some (a, r)) (hr : r.ret = LZMA_TIMED_OUT) :
    (lzmaCode code strm action).ret = LZMA_OK
    ∧ ∃ i', (lzmaCode code strm action).strm.internal = some i' ∧ i'.allowBufError = false
        ∧ i'.sequence = seqOfAction action := by
  obtain ⟨i, -, -, -, -, -, -, -, heq⟩ := lzmaCode_called hc
  rw [heq]
  simp [classify, hr, LZMA_OK, LZMA_STREAM_END, LZMA_NO_CHECK, LZMA_UNSUPPORTED_CHECK, LZMA_GET_CHECK, LZMA_MEMLIMIT_ERROR, LZMA_TIMED_OUT, LZMA_RET_INTERNAL1, LZMA_SEEK_NEEDED, LZMA_RUN, LZMA_SYNC_FLUSH, LZMA_FULL_FLUSH, LZMA_FINISH, LZMA_FULL_BARRIER]

example : (lzmaCode (const 0 0 LZMA_TIMED_OUT) (exIn .run true) 0).ret = LZMA_OK := by decide

/-- `lzma_code` never returns LZMA_TIMED_OUT (LZMA_RET_INTERNAL1), whatever the inner coder does; and every
    returned value is one of OK, STREAM_END, BUF_ERROR, PROG_ERROR, OPTIONS_ERROR or literally the value the inner
    coder returned on this call. Hence no LZMA_RET_INTERNAL* value is ever returned unless the inner coder
    itself returned one of INTERNAL2..8 (which no coder in liblzma passes up: the correspondence run checks it
    on the real coders). -/
theorem internal_never_leaks (code : InnerArgs → Resp) (strm : Stream) (action : Nat) :
    (lzmaCode code strm action).ret ≠ LZMA_TIMED_OUT
    ∧ ((lzmaCode code strm action).ret = LZMA_OK ∨ (lzmaCode code strm action).ret = LZMA_STREAM_END
        ∨ (lzmaCode code strm action).ret = LZMA_BUF_ERROR ∨ (lzmaCode code strm action).ret = LZMA_PROG_ERROR
        ∨ (lzmaCode code strm action).ret = LZMA_OPTIONS_ERROR
        ∨ ∃ a r, (lzmaCode code strm action).called = some (a, r) ∧ (lzmaCode code strm action).ret = r.ret
            ∧ r.ret ≠ LZMA_TIMED_OUT) := by
  cases hc : (lzmaCode code strm action).called with
  | none =>
    rcases lzmaCode_not_called_ret hc with h | h | h
    · exact ⟨by rw [h]; decide, Or.inr (Or.inr (Or.inr (Or.inl h)))⟩
    · exact ⟨by rw [h]; decide, Or.inr (Or.inr (Or.inr (Or.inr (Or.inl h))))⟩
    · exact ⟨by rw [h]; decide, Or.inr (Or.inl h)⟩
  | some ar =>
    obtain ⟨a, r⟩ := ar
    obtain ⟨i, -, -, -, -, -, -, -, heq⟩ := lzmaCode_called hc
    have hcl : ∀ I : Internal, (classify I r).2 ≠ LZMA_TIMED_OUT
        ∧ ((classify I r).2 = LZMA_OK ∨ (classify I r).2 = LZMA_BUF_ERROR
            ∨ ((classify I r).2 = r.ret ∧ r.ret ≠ LZMA_TIMED_OUT)) := by
      intro I
      unfold classify
      repeat' split
      all_goals simp_all [LZMA_OK, LZMA_STREAM_END, LZMA_BUF_ERROR, LZMA_TIMED_OUT, LZMA_RET_INTERNAL1, LZMA_SEEK_NEEDED]
    obtain ⟨h1, h2⟩ := hcl { i with sequence := seqOfAction action, availIn := (advance strm r).availIn }
    rw [heq]
    refine ⟨h1, ?_⟩
    rcases h2 with h | h | ⟨h, h'⟩
    · exact Or.inl h
    · exact Or.inr (Or.inr (Or.inl h))
    · exact Or.inr (Or.inr (Or.inr (Or.inr (Or.inr ⟨a, r, rfl, h, h'⟩))))

example : (lzmaCode (const 0 0 LZMA_TIMED_OUT) exStrm 0).ret = 0 ∧ (lzmaCode (const 0 0 102) exStrm 0).ret = 102 := by decide

/-! ### 9. Accounting -/

/-- One call: either the inner coder was not reached and NOTHING changed, or it was handed exactly the public
    buffers and the action, and afterwards next_in/avail_in/total_in and next_out/avail_out/total_out have moved
    by exactly the amounts it reported (totals modulo 2^64), the saved copy of avail_in is the new avail_in, the
    reserved members, the coder and its supported actions are untouched. -/
theorem accounting_exact (code : InnerArgs → Resp) (strm : Stream) (action : Nat) :
    match (lzmaCode code strm action).called with
    | none => (lzmaCode code strm action).strm = strm
    | some (a, r) =>
      a = argsOf strm action ∧ r = code a ∧
      let s' := (lzmaCode code strm action).strm
      s'.nextIn = strm.nextIn.map (· + r.consumed) ∧ s'.availIn = strm.availIn - r.consumed
      ∧ s'.totalIn = (if r.consumed = 0 then strm.totalIn else (strm.totalIn + r.consumed) % 2 ^ 64)
      ∧ s'.nextOut = strm.nextOut.map (· + r.produced) ∧ s'.availOut = strm.availOut - r.produced
      ∧ s'.totalOut = (if r.produced = 0 then strm.totalOut else (strm.totalOut + r.produced) % 2 ^ 64)
      ∧ s'.reserved = strm.reserved
      ∧ ∃ i i', strm.internal = some i ∧ s'.internal = some i' ∧ i'.availIn = s'.availIn
          ∧ i'.hasCode = i.hasCode ∧ i'.supported = i.supported := by
  cases hc : (lzmaCode code strm action).called with
  | none => exact lzmaCode_not_called hc
  | some ar =>
    obtain ⟨a, r⟩ := ar
    obtain ⟨i, hi, -, -, -, -, ha, hr, heq⟩ := lzmaCode_called hc
    refine ⟨ha, hr, ?_⟩
    rw [heq]
    have hcl := classify_hasCode { i with sequence := seqOfAction action, availIn := (advance strm r).availIn } r
    simp only [hi]
    refine ⟨?_, ?_, ?_, ?_, ?_, ?_, ?_, i, _, rfl, rfl, hcl.2.2, hcl.1, hcl.2.1⟩
    all_goals
      unfold advance
      by_cases h1 : r.consumed > 0 <;> by_cases h2 : r.produced > 0 <;> simp [h1, h2, U64]
    all_goals first
      | omega
      | (cases strm.nextIn <;> simp <;> omega)
      | (cases strm.nextOut <;> simp <;> omega)
      | skip

/-- With a lawful inner coder (`consumed ≤ in_size`, `produced ≤ out_size`) nothing is lost: the bytes still
    available plus the bytes consumed are the bytes that were available (same for the output space). -/
theorem accounting_conserves (code : InnerArgs → Resp) (strm : Stream) (action : Nat) (a : InnerArgs) (r : Resp)
    (hc : (lzmaCode code strm action).called = some (a, r))
    (hlaw : r.consumed ≤ a.inSize ∧ r.produced ≤ a.outSize) :
    (lzmaCode code strm action).strm.availIn + r.consumed = strm.availIn
    ∧ (lzmaCode code strm action).strm.availOut + r.produced = strm.availOut := by
  have h := accounting_exact code strm action
  rw [hc] at h
  obtain ⟨ha, -, -, h1, -, -, h2, -⟩ := h
  subst ha
  simp [argsOf] at hlaw
  omega

example : (lzmaCode (const 3 4 0) exStrm 0).strm
    = { exStrm with nextIn := some 1003, availIn := 7, totalIn := 3, nextOut := some 2004, availOut := 16, totalOut := 4,
                    internal := some { exInternal .run with availIn := 7 } } := by decide
example : (lzmaCode (const 3 4 0) { exStrm with totalIn := 2 ^ 64 - 1 } 0).strm.totalIn = 2 := by decide

/-- Over EVERY history in which the application does not overwrite the totals: total_in / total_out have grown
    by exactly the sum of what the inner coder reported (modulo 2^64), rejected calls contributing nothing. -/
theorem accounting_history (s : Stream) (calls : List Call) (hnt : ∀ c ∈ calls, c.totals = none) :
    (finalState s calls).totalIn % 2 ^ 64 = (s.totalIn + consumedSum (trace s calls)) % 2 ^ 64
    ∧ (finalState s calls).totalOut % 2 ^ 64 = (s.totalOut + producedSum (trace s calls)) % 2 ^ 64 := by
  induction calls generalizing s with
  | nil => simp [finalState, trace, consumedSum, producedSum]
  | cons c cs ih =>
    have hnt' : ∀ c' ∈ cs, c'.totals = none := fun c' h => hnt c' (List.mem_cons_of_mem _ h)
    have hc0 : c.totals = none := hnt c (List.mem_cons_self ..)
    obtain ⟨ih1, ih2⟩ := ih (step s c).strm hnt'
    have hacc := accounting_exact c.code (c.apply s) c.action
    have hin : (c.apply s).totalIn = s.totalIn := by simp [Call.apply, hc0]
    have hout : (c.apply s).totalOut = s.totalOut := by simp [Call.apply, hc0]
    simp only [finalState, trace, consumedSum, producedSum, List.map_cons, List.sum_cons] at ih1 ih2 ⊢
    rw [ih1, ih2]
    cases hc : (step s c).called with
    | none =>
      have hc' : (lzmaCode c.code (c.apply s) c.action).called = none := hc
      rw [hc'] at hacc
      have : (step s c).strm = c.apply s := hacc
      rw [this, hin, hout]
      simp
    | some ar =>
      obtain ⟨a, r⟩ := ar
      have hc' : (lzmaCode c.code (c.apply s) c.action).called = some (a, r) := hc
      rw [hc'] at hacc
      obtain ⟨-, -, -, -, h1, -, -, h2, -⟩ := hacc
      have e1 : (step s c).strm.totalIn = _ := h1
      have e2 : (step s c).strm.totalOut = _ := h2
      rw [e1, e2, hin, hout]
      simp only []
      constructor
      · split <;> omega
      · split <;> omega

example : (finalState exStrm [exCall 0 3 4 0, exCall 9 1 1 0, exCall 0 2 0 0 7]).totalIn = 5
    ∧ consumedSum (trace exStrm [exCall 0 3 4 0, exCall 9 1 1 0, exCall 0 2 0 0 7]) = 5 := by decide

/-! ### 10. The saved copy of avail_in is never read before it is written

    `lzma_strm_init` does not initialise `internal->avail_in` (it is whatever the allocator returned). The
    next theorem shows this is harmless: the field is only read in the four flush/finish states, which can only
    be entered through a call that has just written it. -/

/-- (`SameButSaved`, the simulation relation used in the proof, is in Lemmas/LzmaCode.lean.) -/
theorem saved_avail_in_irrelevant (m j1 j2 : Nat) (calls : List Call) :
    (trace (installCoder Stream.init m j1) calls).map (fun e => (e.result.ret, e.result.called))
    = (trace (installCoder Stream.init m j2) calls).map (fun e => (e.result.ret, e.result.called)) := by
  have key : ∀ (calls : List Call) (s1 s2 : Stream), SameButSaved s1 s2 →
      (trace s1 calls).map (fun e => (e.result.ret, e.result.called))
      = (trace s2 calls).map (fun e => (e.result.ret, e.result.called)) := by
    intro calls
    induction calls with
    | nil => intros; rfl
    | cons c cs ih =>
      intro s1 s2 hsame
      obtain ⟨e1, e2, e3, e4, e5, e6, e7, i1, i2, hi1, hi2, f1, f2, f3, f4, f5⟩ := hsame
      -- the streams after the application wrote its members are still related
      have hA : (c.apply s1).nextIn = (c.apply s2).nextIn ∧ (c.apply s1).availIn = (c.apply s2).availIn
          ∧ (c.apply s1).totalIn = (c.apply s2).totalIn ∧ (c.apply s1).nextOut = (c.apply s2).nextOut
          ∧ (c.apply s1).availOut = (c.apply s2).availOut ∧ (c.apply s1).totalOut = (c.apply s2).totalOut
          ∧ (c.apply s1).reserved = (c.apply s2).reserved := by
        simp [Call.apply, e3, e6]
      obtain ⟨a1, a2, a3, a4, a5, a6, a7⟩ := hA
      have hI1 : (c.apply s1).internal = some i1 := by rw [apply_internal, hi1]
      have hI2 : (c.apply s2).internal = some i2 := by rw [apply_internal, hi2]
      have hsan : sanityFail (c.apply s1) c.action = sanityFail (c.apply s2) c.action := by
        simp [sanityFail, a1, a2, a4, a5, hI1, hI2, f1, actionRejected, f3]
      have hgate : gate (c.apply s1) c.action = gate (c.apply s2) c.action := by
        simp [gate, hsan, a7]
      have hsw : seqSwitch i1 c.action (c.apply s1).availIn = seqSwitch i2 c.action (c.apply s2).availIn := by
        unfold seqSwitch
        rw [← f2, ← a2]
        cases hq : i1.sequence <;> simp [hq, Seq.lockedAction] at f5 ⊢ <;> rw [f5]
      have hargs : argsOf (c.apply s1) c.action = argsOf (c.apply s2) c.action := by
        simp [argsOf, a1, a2, a4, a5]
      simp only [trace, List.map_cons]
      cases hg : gate (c.apply s1) c.action with
      | some e =>
        have hg2 := hgate ▸ hg
        have r1 : step s1 c = ⟨c.apply s1, e, none⟩ := lzmaCode_gate hg
        have r2 : step s2 c = ⟨c.apply s2, e, none⟩ := lzmaCode_gate hg2
        rw [r1, r2]
        congr 1
        exact ih _ _ ⟨a1, a2, a3, a4, a5, a6, a7, i1, i2, hI1, hI2, f1, f2, f3, f4, f5⟩
      | none =>
        have hg2 := hgate ▸ hg
        cases hs1 : seqSwitch i1 c.action (c.apply s1).availIn with
        | error e =>
          have r1 : step s1 c = ⟨c.apply s1, e, none⟩ := lzmaCode_early hg hI1 hs1
          have r2 : step s2 c = ⟨c.apply s2, e, none⟩ := lzmaCode_early hg2 hI2 (hsw ▸ hs1)
          rw [r1, r2]
          congr 1
          exact ih _ _ ⟨a1, a2, a3, a4, a5, a6, a7, i1, i2, hI1, hI2, f1, f2, f3, f4, f5⟩
        | ok sq =>
          have hs2 := hsw ▸ hs1
          have hadv : ∀ r : Resp, (advance (c.apply s1) r).nextIn = (advance (c.apply s2) r).nextIn
              ∧ (advance (c.apply s1) r).availIn = (advance (c.apply s2) r).availIn
              ∧ (advance (c.apply s1) r).totalIn = (advance (c.apply s2) r).totalIn
              ∧ (advance (c.apply s1) r).nextOut = (advance (c.apply s2) r).nextOut
              ∧ (advance (c.apply s1) r).availOut = (advance (c.apply s2) r).availOut
              ∧ (advance (c.apply s1) r).totalOut = (advance (c.apply s2) r).totalOut
              ∧ (advance (c.apply s1) r).reserved = (advance (c.apply s2) r).reserved := by
            intro r
            unfold advance
            by_cases h1 : r.consumed > 0 <;> by_cases h2 : r.produced > 0 <;> simp [h1, h2, a1, a2, a3, a4, a5, a6, a7]
          have r1 : step s1 c = _ := lzmaCode_ok (code := c.code) hg hI1 hs1
          have r2 : step s2 c = _ := lzmaCode_ok (code := c.code) hg2 hI2 hs2
          rw [r1, r2, ← hargs]
          obtain ⟨b1, b2, b3, b4, b5, b6, b7⟩ := hadv (c.code (argsOf (c.apply s1) c.action))
          have hI : ({ i1 with sequence := sq, availIn := (advance (c.apply s1) (c.code (argsOf (c.apply s1) c.action))).availIn } : Internal)
              = { i2 with sequence := sq, availIn := (advance (c.apply s2) (c.code (argsOf (c.apply s1) c.action))).availIn } := by
            rw [b2]
            cases i1; cases i2; simp_all
          simp only []
          congr 1
          · rw [hI]
          · apply ih
            exact ⟨b1, b2, b3, b4, b5, b6, b7, _, _, rfl, rfl, by rw [hI], by rw [hI], by rw [hI], by rw [hI],
              fun _ => by rw [hI]⟩
  apply key
  refine ⟨rfl, rfl, rfl, rfl, rfl, rfl, rfl, _, _, rfl, rfl, rfl, rfl, rfl, rfl, ?_⟩
  intro h
  simp [installCoder, lzmaStrmInit, Stream.init, Seq.lockedAction] at h

example : (trace (installCoder Stream.init 31 0) [exCall 3 1 1 0, exCall 3 1 1 0 9]).map (·.result.ret)
    = (trace (installCoder Stream.init 31 12345) [exCall 3 1 1 0, exCall 3 1 1 0 9]).map (·.result.ret) := by decide

/-! ### 11. lzma_end -/

/-- After `lzma_end` every call is a programming error until the handle is initialised again. -/
theorem after_lzma_end (strm : Stream) (calls : List Call) :
    ∀ e ∈ trace (lzmaEnd strm) calls, e.result.ret = LZMA_PROG_ERROR ∧ e.result.called = none
      ∧ e.result.strm.internal = none := by
  have key : ∀ (calls : List Call) (s : Stream), s.internal = none →
      ∀ e ∈ trace s calls, e.result.ret = LZMA_PROG_ERROR ∧ e.result.called = none ∧ e.result.strm.internal = none := by
    intro calls
    induction calls with
    | nil => intro s _ e he; simp [trace] at he
    | cons c cs ih =>
      intro s hs e he
      have hstep : step s c = ⟨c.apply s, LZMA_PROG_ERROR, none⟩ :=
        prog_error_cases c.code (c.apply s) c.action (Or.inr (Or.inr (Or.inr (Or.inr (Or.inl (by rw [apply_internal, hs]))))))
      simp only [trace, List.mem_cons] at he
      rcases he with rfl | he
      · simp [hstep, apply_internal, hs]
      · exact ih (step s c).strm (by rw [hstep]; simp [apply_internal, hs]) e he
  exact key calls (lzmaEnd strm) rfl

example : (trace (lzmaEnd exStrm) [exCall 0 1 1 0, exCall 3 1 1 0]).map (·.result.ret)
    = [LZMA_PROG_ERROR, LZMA_PROG_ERROR] := by decide

/-! ### 12. Bridges to the code (Gen/C11.lean is regenerated from /repo by harness/gen_c11.c on every run) -/

/-- The complete control table of the REAL `lzma_code()` — every (sequence, allow_buf_error, action 0..5,
    avail_in changed or not, inner return value 0..13/100..109 except BUF_ERROR, progress kind), obtained by
    running the compiled function on a stub coder — equals the model's table (2716 cells, kernel evaluation). -/
theorem control_table_bridge : Gen.C11.table = modelTable := by decide +kernel

/-- size_t-wide pending input. In the model the saved copy of `avail_in` is an unbounded `Nat`, so `action_locked`
    distinguishes amounts that differ by 2^32 (examples below). Tie to the code: the saved member of the REAL
    `lzma_internal` is as wide as `size_t`, and the real `lzma_code()`, run with avail_in = 2^32 + 5 during every
    flush/finish action and then 5, 2^32 + 5, 2^32 + 4, accepts/rejects exactly as the model does. -/
theorem saved_avail_in_full_width_bridge :
    Gen.C11.savedAvailInBytes = Gen.C11.sizeTBytes ∧ Gen.C11.wideTable = modelWideTable := by decide

example : (lzmaCode (const 0 1 0) { exIn .finish false (2 ^ 32 + 5) with availIn := 5 } LZMA_FINISH).ret = LZMA_PROG_ERROR
    ∧ (lzmaCode (const 0 1 0) { exIn .finish false (2 ^ 32 + 5) with availIn := 2 ^ 32 + 5 } LZMA_FINISH).called.isSome = true
    ∧ (lzmaCode (const (2 ^ 32 + 7) 0 0) { exStrm with availIn := 2 ^ 32 + 9 } LZMA_RUN).strm.totalIn = 2 ^ 32 + 7 := by decide

/-- Each sanity check and each of the nine reserved-member checks of the REAL `lzma_code()`, taken on its own on an
    otherwise healthy handle (20 cases), answers as the model does. -/
theorem gate_table_bridge : Gen.C11.gateTable = modelGateTable := by decide

/-- Every public init function installs exactly the documented set of supported actions. -/
theorem supported_per_coder :
    Gen.C11.supported.all (fun nm => documentedSupported nm.1 == some nm.2) = true
    ∧ 16 ≤ Gen.C11.supported.length := by decide

/-- Re-initialisation in the REAL code: for every ordered pair (A, B) of public init functions (and the stub with
    all five actions as A), initialising a handle for A and then for B WITHOUT `lzma_end` leaves exactly B's
    documented supported actions (19 × 18 pairs, each obtained by running the real init functions). -/
theorem reinit_supported_bridge :
    Gen.C11.reinitSupported.all (fun r => documentedSupported r.2.1 == some r.2.2) = true
    ∧ Gen.C11.reinitSupported.length = (Gen.C11.supported.length + 1) * Gen.C11.supported.length := by decide +kernel

/-- The PUBLIC enum values the model uses (lzma_ret, lzma_action) are the ones in
    api/lzma/base.h and common.h. The private ISEQ_* numbering and the private macros
    LZMA_ACTION_MAX / LZMA_TIMED_OUT are deliberately not tabulated (their effect is covered by the control table): the probe and the
    harness use those constants only symbolically. -/
theorem enum_values_bridge :
    Gen.C11.retValues = [("LZMA_OK", LZMA_OK), ("LZMA_STREAM_END", LZMA_STREAM_END), ("LZMA_NO_CHECK", LZMA_NO_CHECK),
      ("LZMA_UNSUPPORTED_CHECK", LZMA_UNSUPPORTED_CHECK), ("LZMA_GET_CHECK", LZMA_GET_CHECK),
      ("LZMA_MEM_ERROR", LZMA_MEM_ERROR), ("LZMA_MEMLIMIT_ERROR", LZMA_MEMLIMIT_ERROR),
      ("LZMA_FORMAT_ERROR", LZMA_FORMAT_ERROR), ("LZMA_OPTIONS_ERROR", LZMA_OPTIONS_ERROR),
      ("LZMA_DATA_ERROR", LZMA_DATA_ERROR), ("LZMA_BUF_ERROR", LZMA_BUF_ERROR), ("LZMA_PROG_ERROR", LZMA_PROG_ERROR),
      ("LZMA_SEEK_NEEDED", LZMA_SEEK_NEEDED), ("LZMA_RET_INTERNAL1", LZMA_RET_INTERNAL1),
      ("LZMA_RET_INTERNAL8", LZMA_RET_INTERNAL8)]
    ∧ Gen.C11.actionValues = [("LZMA_RUN", LZMA_RUN), ("LZMA_SYNC_FLUSH", LZMA_SYNC_FLUSH),
      ("LZMA_FULL_FLUSH", LZMA_FULL_FLUSH), ("LZMA_FINISH", LZMA_FINISH), ("LZMA_FULL_BARRIER", LZMA_FULL_BARRIER)]
    ∧ Gen.C11.reservedEnum = 0 := by decide

end XzVerif.C11
