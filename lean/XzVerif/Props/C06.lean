/-
  C06 — results do not depend on buffer slicing; encoder output is deterministic.
  Only property theorems and non-vacuity examples live here; helper lemmas are in Lemmas/Coder*.lean.
-/
import XzVerif.Lemmas.Coder

namespace XzVerif.C06
open XzVerif XzVerif.Coder

/-! ## The generic theorem -/

/-- Every coder that is the image of a byte machine obeys the buffer law. -/
theorem ofByteMachine_wellFormed {μ : Type} (m : ByteMachine μ) : (Coder.ofByteMachine m).WellFormed := by
  intro s inp cap a
  have h := exec_spec m (a == .finish) (a == .finish) s.1 s.2 inp cap [] (by intro h; exact ⟨rfl, h⟩)
  exact ⟨h.2.1, h.2.2.1⟩

/-- **Slicing independence.** For every byte machine, start state, input, and any two slicings (lists of `(inLen, outCap)` pieces,
    zero lengths allowed) that are *fair* — i.e. run until the coder is settled: a call returned something other than `LZMA_OK`, or
    was offered all remaining input and spare output room and still had nothing to do — the concatenated output, the final return
    code and the total number of input bytes consumed are the same. `fin` says whether the caller finishes the stream
    (`LZMA_FINISH` once all input has been offered) or only ever uses `LZMA_RUN`. -/
theorem ofByteMachine_slicing_independent {μ : Type} (m : ByteMachine μ) (s₀ : μ) (input : List UInt8) (fin : Bool)
    (sl₁ sl₂ : List (Nat × Nat)) :
    let r₁ := runSliced (Coder.ofByteMachine m) fin sl₁ (Run.init (s₀, false) input)
    let r₂ := runSliced (Coder.ofByteMachine m) fin sl₂ (Run.init (s₀, false) input)
    r₁.settled = true → r₂.settled = true → r₁.out = r₂.out ∧ r₁.ret = r₂.ret ∧ r₁.consumed = r₂.consumed := by
  intro r₁ r₂ h₁ h₂
  have i₁ : RunInv m fin s₀ input r₁ := (RunInv.init m fin s₀ input).sliced sl₁
  have i₂ : RunInv m fin s₀ input r₂ := (RunInv.init m fin s₀ input).sliced sl₂
  obtain ⟨q₁, e₁⟩ := i₁.settled h₁
  obtain ⟨q₂, e₂⟩ := i₂.settled h₂
  obtain ⟨ho, hs, _, hr⟩ := i₁.reach.quiescent_unique i₂.reach q₁ q₂
  refine ⟨ho, by rw [e₁, e₂, hs], ?_⟩
  have l₁ := i₁.len
  have l₂ := i₂.len
  rw [hr] at l₁
  omega

/-- Without fairness: two arbitrary slicings still move along one and the same trace — one output is a prefix of the other, and
    the run that has written more has consumed at least as much. -/
theorem ofByteMachine_prefix_consistent {μ : Type} (m : ByteMachine μ) (s₀ : μ) (input : List UInt8) (fin : Bool)
    (sl₁ sl₂ : List (Nat × Nat)) :
    let r₁ := runSliced (Coder.ofByteMachine m) fin sl₁ (Run.init (s₀, false) input)
    let r₂ := runSliced (Coder.ofByteMachine m) fin sl₂ (Run.init (s₀, false) input)
    (∃ o, r₂.out = r₁.out ++ o) ∨ (∃ o, r₁.out = r₂.out ++ o) := by
  intro r₁ r₂
  have i₁ : RunInv m fin s₀ input r₁ := (RunInv.init m fin s₀ input).sliced sl₁
  have i₂ : RunInv m fin s₀ input r₂ := (RunInv.init m fin s₀ input).sliced sl₂
  rcases i₁.reach.linear i₂.reach with ⟨o, _, h⟩ | ⟨o, _, h⟩
  · exact Or.inl ⟨o, h⟩
  · exact Or.inr ⟨o, h⟩

/-- A settled run stays what it is: further pieces change nothing observable. -/
theorem ofByteMachine_settled_stable {μ : Type} (m : ByteMachine μ) (s₀ : μ) (input : List UInt8) (fin : Bool)
    (sl more : List (Nat × Nat)) :
    let r₁ := runSliced (Coder.ofByteMachine m) fin sl (Run.init (s₀, false) input)
    let r₂ := runSliced (Coder.ofByteMachine m) fin more r₁
    r₁.settled = true → r₂.settled = true → r₂.out = r₁.out ∧ r₂.ret = r₁.ret ∧ r₂.consumed = r₁.consumed := by
  intro r₁ r₂ h₁ h₂
  have i₁ : RunInv m fin s₀ input r₁ := (RunInv.init m fin s₀ input).sliced sl
  have i₂ : RunInv m fin s₀ input r₂ := i₁.sliced more
  obtain ⟨q₁, e₁⟩ := i₁.settled h₁
  obtain ⟨q₂, e₂⟩ := i₂.settled h₂
  obtain ⟨ho, hs, _, hr⟩ := i₂.reach.quiescent_unique i₁.reach q₂ q₁
  refine ⟨ho, by rw [e₁, e₂, hs], ?_⟩
  have l₁ := i₁.len
  have l₂ := i₂.len
  rw [hr] at l₂
  omega

/-! ### Non-vacuity: a small machine with both blocking directions, an error path and the end-of-input signal -/

/-- Run-length decoder: reads pairs `(count, byte)` and writes `byte` `count` times; a count ≥ 200 is a data error; the end of input
    between pairs is the end of the stream, in the middle of a pair it is a data error. -/
inductive RleState where
  | idle | gotCount (n : Nat) | emitting (n : Nat) (b : UInt8) | finished (r : Ret)

def rle : ByteMachine RleState where
  step
    | .idle => .read fun | some c => if c.toNat ≥ 200 then .finished .dataError else .gotCount c.toNat | none => .finished .streamEnd
    | .gotCount n => .read fun | some b => .emitting n b | none => .finished .dataError
    | .emitting 0 _ => .read fun | some c => if c.toNat ≥ 200 then .finished .dataError else .gotCount c.toNat | none => .finished .streamEnd
    | .emitting (n + 1) b => .emit b (.emitting n b)
    | .finished r => .done r

def showRun (r : Run (RleState × Bool)) : List UInt8 × Nat × Ret × Bool := (r.out, r.consumed, r.ret, r.settled)

/-- whole buffer, byte-at-a-time with empty calls, and a ragged slicing: all settled, all equal -/
example : showRun (runSliced (Coder.ofByteMachine rle) true [(100, 100), (100, 100)] (Run.init (.idle, false) [3, 65, 0, 66, 2, 67]))
    = ([65, 65, 65, 67, 67], 6, .streamEnd, true) := by decide +kernel
example : showRun (runSliced (Coder.ofByteMachine rle) true
      [(1, 1), (0, 0), (1, 0), (0, 1), (1, 1), (1, 1), (0, 0), (0, 1), (1, 1), (1, 1), (1, 1), (1, 1), (1, 0), (0, 1), (0, 1), (0, 1), (1, 1)]
      (Run.init (.idle, false) [3, 65, 0, 66, 2, 67]))
    = ([65, 65, 65, 67, 67], 6, .streamEnd, true) := by decide +kernel
example : showRun (runSliced (Coder.ofByteMachine rle) true [(4, 2), (0, 7), (9, 1), (9, 0), (9, 9)] (Run.init (.idle, false) [3, 65, 0, 66, 2, 67]))
    = ([65, 65, 65, 67, 67], 6, .streamEnd, true) := by decide +kernel
/-- invalid input: same error, same consumed count, same output before the error -/
example : showRun (runSliced (Coder.ofByteMachine rle) true [(100, 100)] (Run.init (.idle, false) [2, 65, 250, 66]))
    = ([65, 65], 3, .dataError, true) := by decide +kernel
example : showRun (runSliced (Coder.ofByteMachine rle) true [(1, 0), (1, 1), (1, 0), (0, 1), (1, 5)] (Run.init (.idle, false) [2, 65, 250, 66]))
    = ([65, 65], 3, .dataError, true) := by decide +kernel
/-- without LZMA_FINISH the truncated stream settles with LZMA_OK (what lzma_code() turns into LZMA_BUF_ERROR) -/
example : showRun (runSliced (Coder.ofByteMachine rle) false [(2, 1), (5, 5)] (Run.init (.idle, false) [2, 65, 3]))
    = ([65, 65], 3, .ok, true) := by decide +kernel
/-- an unfair slicing (never any output room) is not settled, and the theorem does not apply to it -/
example : (runSliced (Coder.ofByteMachine rle) true [(6, 0), (6, 0)] (Run.init (.idle, false) [3, 65, 0, 66, 2, 67])).settled = false := by
  decide +kernel

end XzVerif.C06
