/-
  C06 — results do not depend on buffer slicing; encoder output is deterministic.
  Only property theorems and non-vacuity examples live here; helper lemmas are in Lemmas/Coder*.lean.
-/
import XzVerif.Lemmas.Coder
import XzVerif.Lemmas.CoderSmall
import XzVerif.Lemmas.CoderSimple

namespace XzVerif.C06
open XzVerif XzVerif.Coder XzVerif.Vli

/-! ## The generic theorem -/

/-- Every coder that is the image of a byte machine obeys the buffer law. -/
theorem ofByteMachine_wellFormed {μ : Type} (m : ByteMachine μ) : (Coder.ofByteMachine m).WellFormed := by
  intro s inp cap a
  have h := exec_spec m (a == .finish) (a == .finish) s.1 s.2 inp cap [] (by intro h; exact ⟨rfl, h⟩)
  exact ⟨h.2.1, h.2.2.1⟩

/-- **Slicing independence.** For every byte machine, start state, input, and any two slicings (lists of `(inLen, outCap)` pieces,
    zero lengths allowed) that are *fair* — i.e. run until the coder is settled: a call returned something other than `LZMA_OK`, or
    was offered all remaining input and spare output room and still had nothing to do — the concatenated output, the final return
    code and the total number of input bytes consumed are the same. `fin` says whether the caller finishes the stream
    (`LZMA_FINISH` once all input has been offered) or only ever uses `LZMA_RUN`. -/
theorem ofByteMachine_slicing_independent {μ : Type} (m : ByteMachine μ) (s₀ : μ) (input : List UInt8) (fin : Bool)
    (sl₁ sl₂ : List (Nat × Nat)) :
    let r₁ := runSliced (Coder.ofByteMachine m) fin sl₁ (Run.init (s₀, false) input)
    let r₂ := runSliced (Coder.ofByteMachine m) fin sl₂ (Run.init (s₀, false) input)
    r₁.settled = true → r₂.settled = true → r₁.out = r₂.out ∧ r₁.ret = r₂.ret ∧ r₁.consumed = r₂.consumed := by
  intro r₁ r₂ h₁ h₂
  have i₁ : RunInv m fin s₀ input r₁ := (RunInv.init m fin s₀ input).sliced sl₁
  have i₂ : RunInv m fin s₀ input r₂ := (RunInv.init m fin s₀ input).sliced sl₂
  obtain ⟨q₁, e₁⟩ := i₁.settled h₁
  obtain ⟨q₂, e₂⟩ := i₂.settled h₂
  obtain ⟨ho, hs, _, hr⟩ := i₁.reach.quiescent_unique i₂.reach q₁ q₂
  refine ⟨ho, by rw [e₁, e₂, hs], ?_⟩
  have l₁ := i₁.len
  have l₂ := i₂.len
  rw [hr] at l₁
  omega

/-- Without fairness: two arbitrary slicings still move along one and the same trace — one output is a prefix of the other, and
    the run that has written more has consumed at least as much. -/
theorem ofByteMachine_prefix_consistent {μ : Type} (m : ByteMachine μ) (s₀ : μ) (input : List UInt8) (fin : Bool)
    (sl₁ sl₂ : List (Nat × Nat)) :
    let r₁ := runSliced (Coder.ofByteMachine m) fin sl₁ (Run.init (s₀, false) input)
    let r₂ := runSliced (Coder.ofByteMachine m) fin sl₂ (Run.init (s₀, false) input)
    (∃ o, r₂.out = r₁.out ++ o) ∨ (∃ o, r₁.out = r₂.out ++ o) := by
  intro r₁ r₂
  have i₁ : RunInv m fin s₀ input r₁ := (RunInv.init m fin s₀ input).sliced sl₁
  have i₂ : RunInv m fin s₀ input r₂ := (RunInv.init m fin s₀ input).sliced sl₂
  rcases i₁.reach.linear i₂.reach with ⟨o, _, h⟩ | ⟨o, _, h⟩
  · exact Or.inl ⟨o, h⟩
  · exact Or.inr ⟨o, h⟩

/-- A settled run stays what it is: further pieces change nothing observable. -/
theorem ofByteMachine_settled_stable {μ : Type} (m : ByteMachine μ) (s₀ : μ) (input : List UInt8) (fin : Bool)
    (sl more : List (Nat × Nat)) :
    let r₁ := runSliced (Coder.ofByteMachine m) fin sl (Run.init (s₀, false) input)
    let r₂ := runSliced (Coder.ofByteMachine m) fin more r₁
    r₁.settled = true → r₂.settled = true → r₂.out = r₁.out ∧ r₂.ret = r₁.ret ∧ r₂.consumed = r₁.consumed := by
  intro r₁ r₂ h₁ h₂
  have i₁ : RunInv m fin s₀ input r₁ := (RunInv.init m fin s₀ input).sliced sl
  have i₂ : RunInv m fin s₀ input r₂ := i₁.sliced more
  obtain ⟨q₁, e₁⟩ := i₁.settled h₁
  obtain ⟨q₂, e₂⟩ := i₂.settled h₂
  obtain ⟨ho, hs, _, hr⟩ := i₂.reach.quiescent_unique i₁.reach q₂ q₁
  refine ⟨ho, by rw [e₁, e₂, hs], ?_⟩
  have l₁ := i₁.len
  have l₂ := i₂.len
  rw [hr] at l₂
  omega

/-! ### Non-vacuity: a small machine with both blocking directions, an error path and the end-of-input signal -/

/-- Run-length decoder: reads pairs `(count, byte)` and writes `byte` `count` times; a count ≥ 200 is a data error; the end of input
    between pairs is the end of the stream, in the middle of a pair it is a data error. -/
inductive RleState where
  | idle | gotCount (n : Nat) | emitting (n : Nat) (b : UInt8) | finished (r : Ret)

def rle : ByteMachine RleState where
  step
    | .idle => .read fun | some c => if c.toNat ≥ 200 then .finished .dataError else .gotCount c.toNat | none => .finished .streamEnd
    | .gotCount n => .read fun | some b => .emitting n b | none => .finished .dataError
    | .emitting 0 _ => .read fun | some c => if c.toNat ≥ 200 then .finished .dataError else .gotCount c.toNat | none => .finished .streamEnd
    | .emitting (n + 1) b => .emit b (.emitting n b)
    | .finished r => .done r

def showRun (r : Run (RleState × Bool)) : List UInt8 × Nat × Ret × Bool := (r.out, r.consumed, r.ret, r.settled)

/-- whole buffer, byte-at-a-time with empty calls, and a ragged slicing: all settled, all equal -/
example : showRun (runSliced (Coder.ofByteMachine rle) true [(100, 100), (100, 100)] (Run.init (.idle, false) [3, 65, 0, 66, 2, 67]))
    = ([65, 65, 65, 67, 67], 6, .streamEnd, true) := by decide +kernel
example : showRun (runSliced (Coder.ofByteMachine rle) true
      [(1, 1), (0, 0), (1, 0), (0, 1), (1, 1), (1, 1), (0, 0), (0, 1), (1, 1), (1, 1), (1, 1), (1, 1), (1, 0), (0, 1), (0, 1), (0, 1), (1, 1)]
      (Run.init (.idle, false) [3, 65, 0, 66, 2, 67]))
    = ([65, 65, 65, 67, 67], 6, .streamEnd, true) := by decide +kernel
example : showRun (runSliced (Coder.ofByteMachine rle) true [(4, 2), (0, 7), (9, 1), (9, 0), (9, 9)] (Run.init (.idle, false) [3, 65, 0, 66, 2, 67]))
    = ([65, 65, 65, 67, 67], 6, .streamEnd, true) := by decide +kernel
/-- invalid input: same error, same consumed count, same output before the error -/
example : showRun (runSliced (Coder.ofByteMachine rle) true [(100, 100)] (Run.init (.idle, false) [2, 65, 250, 66]))
    = ([65, 65], 3, .dataError, true) := by decide +kernel
example : showRun (runSliced (Coder.ofByteMachine rle) true [(1, 0), (1, 1), (1, 0), (0, 1), (1, 5)] (Run.init (.idle, false) [2, 65, 250, 66]))
    = ([65, 65], 3, .dataError, true) := by decide +kernel
/-- without LZMA_FINISH the truncated stream settles with LZMA_OK (what lzma_code() turns into LZMA_BUF_ERROR) -/
example : showRun (runSliced (Coder.ofByteMachine rle) false [(2, 1), (5, 5)] (Run.init (.idle, false) [2, 65, 3]))
    = ([65, 65], 3, .ok, true) := by decide +kernel
/-- an unfair slicing (never any output room) is not settled, and the theorem does not apply to it -/
example : (runSliced (Coder.ofByteMachine rle) true [(6, 0), (6, 0)] (Run.init (.idle, false) [3, 65, 0, 66, 2, 67])).settled = false := by
  decide +kernel

/-! ## Chunk-faithful small coders refine their whole-buffer meaning

  NOT covered by any theorem here: the LZMA symbol decoder of `lzma_decoder.c` (about 25 `SEQ_*` resume points with saved locals),
  the LZ window, the LZMA/LZMA2 encoders and `fill_window`, and the containers built from them. For those the property is checked by the
  C-vs-C slicing oracle of `tools/props/c06.py` only (every two-piece split, byte-at-a-time, random slicings on the real code). -/

/-- `lzma_vli_decode` with a persistent `vli_pos`: decoding `a ++ b` in one call = decoding `a` (which, if the integer is not
    complete, returns `LZMA_OK` having consumed all of `a`), then `b` with the carried `(vli, vli_pos)`; the consumed counts add up.
    This is the statement for every split of the input; more pieces follow by repeating it (`LZMA_OK` leaves a state that is again a
    valid argument: `vli_chunked_state_valid`). -/
theorem vli_chunked_refines (a b : List UInt8) (ha : a ≠ []) (hb : b ≠ []) :
    vliDecodeMulti 0 0 (a ++ b) =
      (if (vliDecodeMulti 0 0 a).1 = .ok then
        ((vliDecodeMulti (vliDecodeMulti 0 0 a).2.1 (vliDecodeMulti 0 0 a).2.2.1 b).1,
         (vliDecodeMulti (vliDecodeMulti 0 0 a).2.1 (vliDecodeMulti 0 0 a).2.2.1 b).2.1,
         (vliDecodeMulti (vliDecodeMulti 0 0 a).2.1 (vliDecodeMulti 0 0 a).2.2.1 b).2.2.1,
         (vliDecodeMulti (vliDecodeMulti 0 0 a).2.1 (vliDecodeMulti 0 0 a).2.2.1 b).2.2.2 + (vliDecodeMulti 0 0 a).2.2.2)
      else vliDecodeMulti 0 0 a) := by
  have hab : (a ++ b).isEmpty = false := by cases a <;> simp_all
  have ha' : a.isEmpty = false := by cases a <;> simp_all
  have hb' : b.isEmpty = false := by cases b <;> simp_all
  have e0 : ∀ l : List UInt8, l.isEmpty = false → vliDecodeMulti 0 0 l = vliDecLoop l 0 0 0 := by
    intro l hl; simp [vliDecodeMulti, VLI_BYTES_MAX, hl]
  rw [e0 _ hab, e0 _ ha', vliDecLoop_append]
  split
  · rename_i hok
    obtain ⟨i1, i2, i3⟩ := vliDecLoop_ok_inv a 0 0 0 (by omega) (by simp) hok
    have i3' := i3 ha
    have hchk : vliDecodeMulti (vliDecLoop a 0 0 0).2.1 (vliDecLoop a 0 0 0).2.2.1 b
        = vliDecLoop b (vliDecLoop a 0 0 0).2.1 (vliDecLoop a 0 0 0).2.2.1 0 := by
      have hz : (vliDecLoop a 0 0 0).2.1 >>> ((vliDecLoop a 0 0 0).2.2.1 * 7) = 0 := by
        rw [Nat.shiftRight_eq_div_pow, Nat.mul_comm]
        exact Nat.div_eq_of_lt i2
      have hp0 : (vliDecLoop a 0 0 0).2.2.1 ≠ 0 := by omega
      have hp9 : ¬ (vliDecLoop a 0 0 0).2.2.1 ≥ VLI_BYTES_MAX := by simp [VLI_BYTES_MAX]; omega
      simp [vliDecodeMulti, hp0, hp9, hz, hb']
    rw [hchk, vliDecLoop_used b _ _ (vliDecLoop a 0 0 0).2.2.2]
  · rfl

/-- … and after `LZMA_OK` the carried state passes the argument check of the next call: `0 < vli_pos < 9`, `vli < 2^(7·vli_pos)`,
    and the whole piece was consumed. -/
theorem vli_chunked_state_valid (a : List UInt8) (ha : a ≠ []) (h : (vliDecodeMulti 0 0 a).1 = .ok) :
    0 < (vliDecodeMulti 0 0 a).2.2.1 ∧ (vliDecodeMulti 0 0 a).2.2.1 < 9
      ∧ (vliDecodeMulti 0 0 a).2.1 < 2 ^ (7 * (vliDecodeMulti 0 0 a).2.2.1) ∧ (vliDecodeMulti 0 0 a).2.2.2 = a.length := by
  have ha' : a.isEmpty = false := by cases a <;> simp_all
  have e0 : vliDecodeMulti 0 0 a = vliDecLoop a 0 0 0 := by simp [vliDecodeMulti, VLI_BYTES_MAX, ha']
  rw [e0] at h ⊢
  obtain ⟨i1, i2, i3⟩ := vliDecLoop_ok_inv a 0 0 0 (by omega) (by simp) h
  exact ⟨i3 ha, i1, i2, by simpa using vliDecLoop_ok_consumed a 0 0 0 h⟩

/-- The multi-call decoder fed the whole buffer at once is the single-call / specification decoder `Vli.vliDecode` (Model/Vli.lean,
    the one C02/C03 reason about): `LZMA_STREAM_END` with value `v` after `c` bytes iff `vliDecode` yields `v` and the rest.
    Together with `vli_chunked_refines`: however the bytes of a VLI arrive, the chunked decoder computes `vliDecode`. -/
theorem vli_chunked_eq_whole (inp : List UInt8) :
    vliDecode inp =
      match vliDecodeMulti 0 0 inp with
      | (.streamEnd, v, _, c) => some (v, inp.drop c)
      | _ => none := by
  cases inp with
  | nil => simp [vliDecode, vliDecodeAux, vliDecodeMulti, VLI_BYTES_MAX]
  | cons b t =>
    have e0 : vliDecodeMulti 0 0 (b :: t) = vliDecLoop (b :: t) 0 0 0 := by simp [vliDecodeMulti, VLI_BYTES_MAX]
    rw [e0]
    have h := vliDecLoop_spec (b :: t) 0 0 0
    simp only [vliDecode]
    cases hd : vliDecodeAux 0 (b :: t) with
    | none =>
      simp only [hd] at h
      split
      · rename_i heq; rw [heq] at h; simp at h
      · rfl
    | some p =>
      obtain ⟨v, r⟩ := p
      simp only [hd] at h
      obtain ⟨h1, h2, _⟩ := h
      rw [h1]
      simp only [Nat.mul_zero, Nat.pow_zero, Nat.mul_one, Nat.zero_add]
      rw [← h2]

/-- non-vacuity: 2^35+5 takes six bytes; split after 1, 2, …, 5 bytes, and with a trailing byte that must stay unread -/
example : vliDecodeMulti 0 0 [0x85, 0x80, 0x80, 0x80, 0x80, 0x01, 0x77] = (.streamEnd, 2 ^ 35 + 5, 6, 6) := by decide +kernel
example : vliDecodeMulti 0 0 [0x85, 0x80, 0x80] = (.ok, 5, 3, 3) := by decide +kernel
example : vliDecodeMulti 5 3 [0x80, 0x80, 0x01, 0x77] = (.streamEnd, 2 ^ 35 + 5, 6, 3) := by decide +kernel
example : vliDecodeMulti 0 0 [0x85, 0x80, 0x00] = (.dataError, 5, 3, 3) := by decide +kernel

/-- `lzma_vli_encode` with a persistent `vli_pos`: writing into one window of `c₁ + c₂` bytes = writing into a window of `c₁` bytes
    and, if that returned `LZMA_OK` (window full), continuing with the carried `vli_pos` into a window of `c₂` bytes: same final
    return code, same final `vli_pos`, and the bytes concatenate. (A window of size 0 is answered with `LZMA_BUF_ERROR` and changes
    nothing.) -/
theorem vli_encode_chunked (v c₁ c₂ : Nat) (hv : v ≤ VLI_MAX) (h₁ : 0 < c₁) (h₂ : 0 < c₂) :
    vliEncodeMulti v 0 (c₁ + c₂) =
      if (vliEncodeMulti v 0 c₁).1 = .ok then
        ((vliEncodeMulti v (vliEncodeMulti v 0 c₁).2.1 c₂).1, (vliEncodeMulti v (vliEncodeMulti v 0 c₁).2.1 c₂).2.1,
          (vliEncodeMulti v 0 c₁).2.2 ++ (vliEncodeMulti v (vliEncodeMulti v 0 c₁).2.1 c₂).2.2)
      else vliEncodeMulti v 0 c₁ := by
  have e0 : ∀ c, 0 < c → vliEncodeMulti v 0 c = vliEncLoop c v 0 := by
    intro c hc
    have : c ≠ 0 := by omega
    have hv' : ¬ v > VLI_MAX := by omega
    simp [vliEncodeMulti, this, VLI_BYTES_MAX, hv']
  rw [e0 _ (by omega), e0 _ h₁, vliEncLoop_append _ _ _ _ h₁ h₂]
  split
  · rename_i hok
    obtain ⟨i1, _, i3⟩ := vliEncLoop_ok c₁ v 0 hok h₁
    have hlt : c₁ < 9 := by
      by_cases h9 : c₁ < 9
      · exact h9
      · exfalso
        have : 128 ^ 9 ≤ 128 ^ c₁ := Nat.pow_le_pow_right (by omega) (by omega)
        have hm : v < 128 ^ 9 := by simp [VLI_MAX] at hv; omega
        omega
    have e1 : vliEncodeMulti v (vliEncLoop c₁ v 0).2.1 c₂ = vliEncLoop c₂ (v / 128 ^ c₁) (0 + c₁) := by
      rw [i1]
      have hc2 : c₂ ≠ 0 := by omega
      have hv' : ¬ v > VLI_MAX := by omega
      have hp : ¬ (0 + c₁ ≥ VLI_BYTES_MAX) := by simp [VLI_BYTES_MAX]; omega
      have hs : v >>> ((0 + c₁) * 7) = v / 128 ^ c₁ := by
        rw [Nat.shiftRight_eq_div_pow, Nat.zero_add, Nat.mul_comm, Nat.pow_mul]
      simp only [vliEncodeMulti, hc2, if_false, hp, hv', or_self, hs]
    rw [e1]
  · rfl

example : vliEncodeMulti 123456789 0 9 = (.streamEnd, 4, [0x95, 0x9A, 0xEF, 0x3A]) := by decide +kernel
example : vliEncodeMulti 123456789 0 1 = (.ok, 1, [0x95]) := by decide +kernel
example : vliEncodeMulti 123456789 1 8 = (.streamEnd, 4, [0x9A, 0xEF, 0x3A]) := by decide +kernel

/-- The `lzma_bufcpy` field reader (`coder->pos` into a buffer of `size` bytes; Stream Header/Footer, Block Header, …): under every
    slicing the buffer holds exactly the first `consumed` bytes of the input, never more than `size`; nothing is written; and a
    settled run has consumed `min size |input|` bytes — the field is complete (`LZMA_STREAM_END` here) iff the input is long enough. -/
theorem field_reader_refines (size : Nat) (input : List UInt8) (fin : Bool) (sl : List (Nat × Nat)) :
    let r := runSliced (fieldCoder size) fin sl (Run.init [] input)
    r.state = input.take r.consumed ∧ r.consumed ≤ size ∧ r.out = [] ∧ r.rest = input.drop r.consumed
      ∧ (r.settled = true → r.consumed = min size input.length)
      ∧ (r.ret ≠ .ok → r.ret = .streamEnd ∧ r.state = input.take size ∧ size ≤ input.length) := by
  intro r
  have h : FieldInv size input r := (FieldInv.init size input).sliced fin sl
  refine ⟨h.buf, h.cap, h.out, h.rest, h.settled, fun hr => ?_⟩
  obtain ⟨e1, e2⟩ := h.ret hr
  refine ⟨e1, by rw [h.buf, e2], ?_⟩
  have := h.le; omega

example : (runSliced (fieldCoder 4) true [(1, 0), (0, 5), (2, 1), (9, 9)] (Run.init [] [1, 2, 3, 4, 5, 6])).state = [1, 2, 3, 4] := by
  decide +kernel

/-- Delta encoder (`delta_encode()` reading the caller's input): under every slicing the output so far is the delta transform of the
    consumed prefix with the history carried in the coder state, and a settled run has transformed the whole input — i.e. exactly
    `Delta.encode` of the whole buffer (which C15 proves equal to `out[i] = in[i] - in[i - dist]`). -/
theorem delta_refines (s₀ : Delta.State) (input : List UInt8) (fin : Bool) (sl : List (Nat × Nat)) :
    let r := runSliced deltaEncCoder fin sl (Run.init s₀ input)
    r.out = (Delta.encode s₀ (input.take r.consumed)).2 ∧ r.state = (Delta.encode s₀ (input.take r.consumed)).1
      ∧ (r.settled = true → r.consumed = input.length ∧ r.out = (Delta.encode s₀ input).2) := by
  intro r
  have h : DeltaInv s₀ input r := (DeltaInv.init s₀ input).sliced fin sl
  refine ⟨h.out, h.st, fun hs => ?_⟩
  have hc := h.settled hs
  refine ⟨hc, ?_⟩
  have := h.out
  rw [hc, List.take_length] at this
  exact this

example : (runSliced deltaEncCoder true [(1, 1), (0, 0), (3, 2), (0, 1), (9, 9)] (Run.init (Delta.State.init 2) [1, 2, 3, 4, 5, 6])).out
    = [1, 2, 2, 2, 2, 2] := by decide +kernel

/-- The LZMA2 chunk-header machine (8 sequences of `lzma2_decode()`, LZMA payload abstract): feeding `a ++ b` = feeding `a`, then `b`
    from the state `a` left (unless `a` already ended the stream or hit an error): same final state, same events in the same order
    (dictionary resets, state resets, properties, chunk sizes, every copied byte, every payload byte, the verdict), counts add up. -/
theorem lzma2_header_refines (s : L2State) (a b : List UInt8) :
    l2Feed s (a ++ b) =
      if (l2Feed s a).2.1.any L2Event.isFinished then l2Feed s a
      else ((l2Feed (l2Feed s a).1 b).1, (l2Feed s a).2.1 ++ (l2Feed (l2Feed s a).1 b).2.1,
            (l2Feed (l2Feed s a).1 b).2.2 + (l2Feed s a).2.2) :=
  l2Feed_append s a b

/-- non-vacuity: an uncompressed chunk with dictionary reset, cut inside its size field and inside its data; a chunk that needs a
    dictionary reset first is rejected at its control byte -/
example : (l2Feed {} [0x01, 0x00, 0x02, 0x41, 0x42, 0x43, 0x00]).2 =
    ([.dictReset, .chunkSizes false 3 3, .copyByte 0x41, .copyByte 0x42, .copyByte 0x43, .finished .streamEnd], 7) := by decide +kernel
example : (l2Feed (l2Feed {} [0x01, 0x00]).1 [0x02, 0x41, 0x42, 0x43, 0x00]).2 =
    ([.chunkSizes false 3 3, .copyByte 0x41, .copyByte 0x42, .copyByte 0x43, .finished .streamEnd], 5) := by decide +kernel
example : (l2Feed {} [0x02, 0x00, 0x02]).2 = ([.finished .dataError], 1) := by decide +kernel

/-- The Index decoder sequence machine (`index_decode()`; VLIs with `coder->pos`, padding, CRC32 over every byte exactly once):
    feeding `a ++ b` = feeding `a`, then `b` with the carried state. -/
theorem index_decoder_refines (s : IxState) (a b : List UInt8) :
    ixFeed s (a ++ b) =
      match (ixFeed s a).2.1 with
      | some _ => ixFeed s a
      | none => ((ixFeed (ixFeed s a).1 b).1, (ixFeed (ixFeed s a).1 b).2.1, (ixFeed (ixFeed s a).1 b).2.2 + (ixFeed s a).2.2) :=
  ixFeed_append s a b

/-- non-vacuity: a real Index (two Records, two padding bytes, CRC32) is accepted whole and in pieces cut inside a VLI and inside
    the CRC; a wrong CRC byte is rejected -/
example : (ixFeed {} [0x00, 0x02, 0x11, 0x05, 0x92, 0x01, 0x06, 0x00, 0x90, 0x74, 0x06, 0xB2]).2 = (some .streamEnd, 12) := by
  decide +kernel
example : (ixFeed (ixFeed {} [0x00, 0x02, 0x11, 0x05, 0x92]).1 [0x01, 0x06, 0x00, 0x90, 0x74]).2 = (none, 5) := by decide +kernel
example : (ixFeed (ixFeed (ixFeed {} [0x00, 0x02, 0x11, 0x05, 0x92]).1 [0x01, 0x06, 0x00, 0x90, 0x74]).1 [0x06, 0xB2]).2
    = (some .streamEnd, 2) := by decide +kernel
example : (ixFeed {} [0x00, 0x02, 0x11, 0x05, 0x92, 0x01, 0x06, 0x00, 0x90, 0x74, 0x05, 0xB2]).2 = (some .dataError, 11) := by
  decide +kernel

/-- **`simple_code()` is slicing independent for every filter with the BCJ contract.**
    `F` is any filter that processes a prefix, leaves the rest untouched (at most `unfilteredMax` bytes) and is prefix-stable
    (`BcjContract`); the coder reads the caller's input directly (`next.code == NULL`, the configuration of every BCJ *encoder*).
    For every slicing: what has been written so far is a prefix of `F` applied to the whole input at once (whose unfilterable tail
    is, by the contract, the input's own bytes: they are copied verbatim at `LZMA_FINISH`); and once a call returns
    `LZMA_STREAM_END` the output is exactly that and all input has been consumed. Hence any two slicings that reach
    `LZMA_STREAM_END` produce identical bytes. -/
theorem simple_coder_slicing {φ : Type} (F : Filter φ) (unfilteredMax : Nat) (hF : BcjContract F unfilteredMax) (isEncoder : Bool)
    (allocated : Nat) (φ₀ : φ) (input : List UInt8) (fin : Bool) (sl : List (Nat × Nat)) :
    let r := runSliced (simpleCoder F (Src.null isEncoder) allocated) fin sl (Run.init (Simple.init φ₀ ()) input)
    (∃ o, (F φ₀ input).1 = r.out ++ o)
      ∧ (r.ret = .streamEnd → r.out = (F φ₀ input).1 ∧ r.consumed = input.length)
      ∧ (r.ret = .ok ∨ r.ret = .streamEnd) := by
  intro r
  have h : SRunInv F φ₀ input r := (SRunInv.init F φ₀ input).sliced hF isEncoder allocated fin sl
  refine ⟨h.result.1, h.result.2, ?_⟩
  by_cases hr : r.ret = .ok
  · exact Or.inl hr
  · exact Or.inr (h.retEnd hr).1

/-- Corollary in the shape of the property: two slicings, both finished ⇒ same bytes, same consumed count. -/
theorem simple_coder_two_slicings {φ : Type} (F : Filter φ) (unfilteredMax : Nat) (hF : BcjContract F unfilteredMax) (isEncoder : Bool)
    (allocated : Nat) (φ₀ : φ) (input : List UInt8) (sl₁ sl₂ : List (Nat × Nat)) :
    let r₁ := runSliced (simpleCoder F (Src.null isEncoder) allocated) true sl₁ (Run.init (Simple.init φ₀ ()) input)
    let r₂ := runSliced (simpleCoder F (Src.null isEncoder) allocated) true sl₂ (Run.init (Simple.init φ₀ ()) input)
    r₁.ret = .streamEnd → r₂.ret = .streamEnd → r₁.out = r₂.out ∧ r₁.consumed = r₂.consumed := by
  intro r₁ r₂ h₁ h₂
  have a := (simple_coder_slicing F unfilteredMax hF isEncoder allocated φ₀ input true sl₁).2.1 h₁
  have b := (simple_coder_slicing F unfilteredMax hF isEncoder allocated φ₀ input true sl₂).2.1 h₂
  exact ⟨a.1.trans b.1.symm, a.2.trans b.2.symm⟩

/-- non-vacuity of the contract: a position-dependent byte filter (unit 1: `out[i] = in[i] + (now_pos + i)`) satisfies it … -/
def posMap : Nat → List UInt8 → List UInt8
  | _, [] => []
  | p, b :: t => (b + UInt8.ofNat p) :: posMap (p + 1) t

def posFilter : Filter Nat := fun pos buf => (posMap pos buf, buf.length, pos + buf.length)

theorem posMap_length (p : Nat) (l : List UInt8) : (posMap p l).length = l.length := by
  induction l generalizing p with
  | nil => rfl
  | cons b t ih => simp [posMap, ih]

theorem posMap_append (p : Nat) (a b : List UInt8) : posMap p (a ++ b) = posMap p a ++ posMap (p + a.length) b := by
  induction a generalizing p with
  | nil => simp [posMap]
  | cons x t ih => simp [posMap, ih, Nat.add_assoc, Nat.add_comm 1]

theorem posFilter_contract : BcjContract posFilter 0 := by
  refine ⟨fun s b => posMap_length s b, fun s b => Nat.le_refl _, fun s b => ?_, fun s b => by simp [posFilter], fun s a b => ?_⟩
  · simp only [posFilter]
    rw [List.drop_of_length_le (by rw [posMap_length]; exact Nat.le_refl _), List.drop_length]
  · simp only [posFilter]
    rw [List.take_of_length_le (by rw [posMap_length]; exact Nat.le_refl _),
      List.drop_of_length_le (by rw [posMap_length]; exact Nat.le_refl _), List.nil_append, posMap_append, List.length_append,
      Nat.add_assoc]

/-- … and with the test filter of the harness (whole units of 4 bytes, position dependent), a 2·4-byte buffer and a ragged slicing the
    chunked run gives exactly the one-shot result, the three unfilterable tail bytes verbatim -/
example : (runSliced (simpleCoder (testFilter 4 true) (Src.null true) 8) true [(3, 2), (1, 1), (0, 5), (2, 0), (5, 3), (9, 2), (9, 9)]
      (Run.init (Simple.init 0 ()) [0, 1, 2, 3, 4, 5, 6, 7, 8, 9, 10])).out
    = (testFilter 4 true 0 [0, 1, 2, 3, 4, 5, 6, 7, 8, 9, 10]).1 := by decide +kernel
example : (testFilter 4 true 0 [0, 1, 2, 3, 4, 5, 6, 7, 8, 9, 10]).1 = [1, 3, 5, 7, 9, 11, 13, 15, 8, 9, 10] := by decide +kernel

/-! ## Encoder determinism across thread counts, timeouts and schedules (deferred to C08) -/

/-- Determinism of the threaded encoder: **not proved here.** `Terminates threads timeout schedule slicing input output` is meant to be
    instantiated with "the MT-encoder labelled transition system of C08 (`Model/MtEnc.lean`) has a terminating run with these
    parameters that returns `LZMA_STREAM_END` having written `output`". The statement: the output depends on the input (and the
    fixed options: block size, filter chain, check) only — not on the number of worker threads (≥ 1), the timeout, the thread
    schedule or the slicing of the caller's buffers. C08's theorem that every terminating run outputs
    `header ++ concat (encodeBlock chunkᵢ) ++ index ++ footer` with chunks cut at `block_size`/flush points only implies it.
    Here it is exercised on the real code: threads 1…8 × timeouts 0/1/50 ms × block sizes × slicings must give identical bytes
    (group `mt-encoder-determinism` of the oracle). -/
def mt_encoder_deterministic_statement
    (Terminates : (threads timeout : Nat) → (schedule : List Nat) → (slicing : List (Nat × Nat)) → (input output : List UInt8) → Prop) :
    Prop :=
  ∀ t₁ t₂ to₁ to₂ sch₁ sch₂ sl₁ sl₂ input o₁ o₂, 1 ≤ t₁ → 1 ≤ t₂ →
    Terminates t₁ to₁ sch₁ sl₁ input o₁ → Terminates t₂ to₂ sch₂ sl₂ input o₂ → o₁ = o₂

/-- What is proved of it here: the trivial but necessary half — if the run relation is a function of the input alone (which is what
    C08 establishes), determinism follows. -/
theorem mt_encoder_deterministic_partial
    (Terminates : (threads timeout : Nat) → (schedule : List Nat) → (slicing : List (Nat × Nat)) → (input output : List UInt8) → Prop)
    (spec : List UInt8 → List UInt8)
    (hspec : ∀ t to sch sl input o, 1 ≤ t → Terminates t to sch sl input o → o = spec input) :
    mt_encoder_deterministic_statement Terminates := by
  intro t₁ t₂ to₁ to₂ sch₁ sch₂ sl₁ sl₂ input o₁ o₂ h₁ h₂ r₁ r₂
  rw [hspec _ _ _ _ _ _ h₁ r₁, hspec _ _ _ _ _ _ h₂ r₂]

end XzVerif.C06
