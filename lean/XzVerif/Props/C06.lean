/-
  C06 — results do not depend on buffer slicing; encoder output is deterministic.
  Only property theorems and non-vacuity examples live here; helper lemmas are in Lemmas/Coder*.lean, Lemmas/BcjShape.lean,
  Lemmas/MtEncChain.lean.

  Layout:
   1. the generic theorem about byte machines (+ a toy machine as non-vacuity witness);
   2. liblzma's small resumable coders as INSTANCES of it (VLI decoder and encoder, `lzma_bufcpy` field reader, LZMA2 chunk-header machine,
      Index decoder): call-by-call simulation by a byte machine, hence independence of ARBITRARY slicings, and what every
      slicing computes; delta (reading the caller's input, and behind any next coder, both directions);
   3. `simple_code()`: slicing theorem for every filter with the BCJ contract; the contract PROVED for the eight real filters
      (bridge to C15); equivalence with the model C15 ties to the C code; the theorem for that model with no hypothesis left;
      and `simple_code()` behind ANY byte-machine next coder that does not fail (the BCJ decoder configuration);
   4. threaded encoder: output bytes are a function of (input, block size, flush offsets, filter updates) — from C08.
  NOT covered by any theorem here (C-vs-C slicing oracle of tools/props/c06.py only): the LZMA symbol decoder's resume points,
  the LZ window, the LZMA/LZMA2 encoders and `fill_window`, the container coders built from them, the error path of
  `simple_code()` when its next coder fails (there only status and consumed count are slicing independent in the C code).
-/
import XzVerif.Lemmas.Coder
import XzVerif.Lemmas.CoderSmall
import XzVerif.Lemmas.CoderSimple
import XzVerif.Lemmas.CoderMachines
import XzVerif.Lemmas.CoderVliEnc
import XzVerif.Lemmas.CoderBcjRun
import XzVerif.Lemmas.CoderSimpleNext
import XzVerif.Lemmas.MtEncChain

namespace XzVerif.C06
open XzVerif XzVerif.Coder XzVerif.Vli

/-! ## The generic theorem -/

/-- Every coder that is the image of a byte machine obeys the buffer law. -/
theorem ofByteMachine_wellFormed {μ : Type} (m : ByteMachine μ) : (Coder.ofByteMachine m).WellFormed := by
  intro s inp cap a
  have h := exec_spec m (a == .finish) (a == .finish) s.1 s.2 inp cap [] (by intro h; exact ⟨rfl, h⟩)
  exact ⟨h.2.1, h.2.2.1⟩

/-- **Slicing independence.** For every byte machine, start state, input, and any two slicings (lists of `(inLen, outCap)` pieces,
    zero lengths allowed) that are *fair* — i.e. run until the coder is settled: a call returned something other than `LZMA_OK`, or
    was offered all remaining input and spare output room and still had nothing to do — the concatenated output, the final return
    code and the total number of input bytes consumed are the same. `fin` says whether the caller finishes the stream
    (`LZMA_FINISH` once all input has been offered) or only ever uses `LZMA_RUN`. -/
theorem ofByteMachine_slicing_independent {μ : Type} (m : ByteMachine μ) (s₀ : μ) (input : List UInt8) (fin : Bool)
    (sl₁ sl₂ : List (Nat × Nat)) :
    let r₁ := runSliced (Coder.ofByteMachine m) fin sl₁ (Run.init (s₀, false) input)
    let r₂ := runSliced (Coder.ofByteMachine m) fin sl₂ (Run.init (s₀, false) input)
    r₁.settled = true → r₂.settled = true → r₁.out = r₂.out ∧ r₁.ret = r₂.ret ∧ r₁.consumed = r₂.consumed := by
  intro r₁ r₂ h₁ h₂
  have i₁ : RunInv m fin s₀ input r₁ := (RunInv.init m fin s₀ input).sliced sl₁
  have i₂ : RunInv m fin s₀ input r₂ := (RunInv.init m fin s₀ input).sliced sl₂
  obtain ⟨q₁, e₁⟩ := i₁.settled h₁
  obtain ⟨q₂, e₂⟩ := i₂.settled h₂
  obtain ⟨ho, hs, _, hr⟩ := i₁.reach.quiescent_unique i₂.reach q₁ q₂
  refine ⟨ho, by rw [e₁, e₂, hs], ?_⟩
  have l₁ := i₁.len
  have l₂ := i₂.len
  rw [hr] at l₁
  omega

/-- Without fairness: two arbitrary slicings still move along one and the same trace — one output is a prefix of the other, and
    the run that has written more has consumed at least as much. -/
theorem ofByteMachine_prefix_consistent {μ : Type} (m : ByteMachine μ) (s₀ : μ) (input : List UInt8) (fin : Bool)
    (sl₁ sl₂ : List (Nat × Nat)) :
    let r₁ := runSliced (Coder.ofByteMachine m) fin sl₁ (Run.init (s₀, false) input)
    let r₂ := runSliced (Coder.ofByteMachine m) fin sl₂ (Run.init (s₀, false) input)
    (∃ o, r₂.out = r₁.out ++ o) ∨ (∃ o, r₁.out = r₂.out ++ o) := by
  intro r₁ r₂
  have i₁ : RunInv m fin s₀ input r₁ := (RunInv.init m fin s₀ input).sliced sl₁
  have i₂ : RunInv m fin s₀ input r₂ := (RunInv.init m fin s₀ input).sliced sl₂
  rcases i₁.reach.linear i₂.reach with ⟨o, _, h⟩ | ⟨o, _, h⟩
  · exact Or.inl ⟨o, h⟩
  · exact Or.inr ⟨o, h⟩

/-- A settled run stays what it is: further pieces change nothing observable. -/
theorem ofByteMachine_settled_stable {μ : Type} (m : ByteMachine μ) (s₀ : μ) (input : List UInt8) (fin : Bool)
    (sl more : List (Nat × Nat)) :
    let r₁ := runSliced (Coder.ofByteMachine m) fin sl (Run.init (s₀, false) input)
    let r₂ := runSliced (Coder.ofByteMachine m) fin more r₁
    r₁.settled = true → r₂.settled = true → r₂.out = r₁.out ∧ r₂.ret = r₁.ret ∧ r₂.consumed = r₁.consumed := by
  intro r₁ r₂ h₁ h₂
  have i₁ : RunInv m fin s₀ input r₁ := (RunInv.init m fin s₀ input).sliced sl
  have i₂ : RunInv m fin s₀ input r₂ := i₁.sliced more
  obtain ⟨q₁, e₁⟩ := i₁.settled h₁
  obtain ⟨q₂, e₂⟩ := i₂.settled h₂
  obtain ⟨ho, hs, _, hr⟩ := i₂.reach.quiescent_unique i₁.reach q₂ q₁
  refine ⟨ho, by rw [e₁, e₂, hs], ?_⟩
  have l₁ := i₁.len
  have l₂ := i₂.len
  rw [hr] at l₂
  omega

/-- The same with the final coder state (machine state and end-of-input flag) — needed for coders whose result lives in the state
    (decoded integers, header fields, Index records). -/
theorem ofByteMachine_slicing_independent_state {μ : Type} (m : ByteMachine μ) (s₀ : μ) (input : List UInt8) (fin : Bool)
    (sl₁ sl₂ : List (Nat × Nat)) :
    let r₁ := runSliced (Coder.ofByteMachine m) fin sl₁ (Run.init (s₀, false) input)
    let r₂ := runSliced (Coder.ofByteMachine m) fin sl₂ (Run.init (s₀, false) input)
    r₁.settled = true → r₂.settled = true → r₁.out = r₂.out ∧ r₁.ret = r₂.ret ∧ r₁.consumed = r₂.consumed ∧ r₁.state = r₂.state :=
  Coder.ofByteMachine_slicing_independent_state m s₀ input fin sl₁ sl₂

/-- **Transfer to chunk-faithful coders.** If every call of a coder `c` (written the way the C function is written: a loop over the
    bytes of this call with its own resume state) equals the corresponding call of `ofByteMachine m` under a state abstraction
    `abs` (`Sim`, for the machine states satisfying `live`, which is preserved while calls return `LZMA_OK`), then `c` itself is
    slicing independent: any two fair slicings, of any number of pieces, give the same output, return code, consumed count and
    final state. -/
theorem chunk_faithful_slicing_independent {σ μ : Type} {c : Coder σ} {m : ByteMachine μ} {abs : μ → σ} {live : μ → Prop}
    (h : Sim c m abs live) (s₀ : μ) (hl : live s₀) (input : List UInt8) (fin : Bool) (sl₁ sl₂ : List (Nat × Nat)) :
    let r₁ := runSliced c fin sl₁ (Run.init (abs s₀) input)
    let r₂ := runSliced c fin sl₂ (Run.init (abs s₀) input)
    r₁.settled = true → r₂.settled = true → r₁.out = r₂.out ∧ r₁.ret = r₂.ret ∧ r₁.consumed = r₂.consumed ∧ r₁.state = r₂.state :=
  h.slicing_independent s₀ hl input fin sl₁ sl₂

/-! ### Non-vacuity: a small machine with both blocking directions, an error path and the end-of-input signal -/

/-- Run-length decoder: reads pairs `(count, byte)` and writes `byte` `count` times; a count ≥ 200 is a data error; the end of input
    between pairs is the end of the stream, in the middle of a pair it is a data error. -/
inductive RleState where
  | idle | gotCount (n : Nat) | emitting (n : Nat) (b : UInt8) | finished (r : Ret)

def rle : ByteMachine RleState where
  step
    | .idle => .read fun | some c => if c.toNat ≥ 200 then .finished .dataError else .gotCount c.toNat | none => .finished .streamEnd
    | .gotCount n => .read fun | some b => .emitting n b | none => .finished .dataError
    | .emitting 0 _ => .read fun | some c => if c.toNat ≥ 200 then .finished .dataError else .gotCount c.toNat | none => .finished .streamEnd
    | .emitting (n + 1) b => .emit b (.emitting n b)
    | .finished r => .done r

def showRun (r : Run (RleState × Bool)) : List UInt8 × Nat × Ret × Bool := (r.out, r.consumed, r.ret, r.settled)

/-- whole buffer, byte-at-a-time with empty calls, and a ragged slicing: all settled, all equal -/
example : showRun (runSliced (Coder.ofByteMachine rle) true [(100, 100), (100, 100)] (Run.init (.idle, false) [3, 65, 0, 66, 2, 67]))
    = ([65, 65, 65, 67, 67], 6, .streamEnd, true) := by decide +kernel
example : showRun (runSliced (Coder.ofByteMachine rle) true
      [(1, 1), (0, 0), (1, 0), (0, 1), (1, 1), (1, 1), (0, 0), (0, 1), (1, 1), (1, 1), (1, 1), (1, 1), (1, 0), (0, 1), (0, 1), (0, 1), (1, 1)]
      (Run.init (.idle, false) [3, 65, 0, 66, 2, 67]))
    = ([65, 65, 65, 67, 67], 6, .streamEnd, true) := by decide +kernel
example : showRun (runSliced (Coder.ofByteMachine rle) true [(4, 2), (0, 7), (9, 1), (9, 0), (9, 9)] (Run.init (.idle, false) [3, 65, 0, 66, 2, 67]))
    = ([65, 65, 65, 67, 67], 6, .streamEnd, true) := by decide +kernel
/-- invalid input: same error, same consumed count, same output before the error -/
example : showRun (runSliced (Coder.ofByteMachine rle) true [(100, 100)] (Run.init (.idle, false) [2, 65, 250, 66]))
    = ([65, 65], 3, .dataError, true) := by decide +kernel
example : showRun (runSliced (Coder.ofByteMachine rle) true [(1, 0), (1, 1), (1, 0), (0, 1), (1, 5)] (Run.init (.idle, false) [2, 65, 250, 66]))
    = ([65, 65], 3, .dataError, true) := by decide +kernel
/-- without LZMA_FINISH the truncated stream settles with LZMA_OK (what lzma_code() turns into LZMA_BUF_ERROR) -/
example : showRun (runSliced (Coder.ofByteMachine rle) false [(2, 1), (5, 5)] (Run.init (.idle, false) [2, 65, 3]))
    = ([65, 65], 3, .ok, true) := by decide +kernel
/-- an unfair slicing (never any output room) is not settled, and the theorem does not apply to it -/
example : (runSliced (Coder.ofByteMachine rle) true [(6, 0), (6, 0)] (Run.init (.idle, false) [3, 65, 0, 66, 2, 67])).settled = false := by
  decide +kernel

/-! ## 2. The small resumable coders of liblzma are instances

  Each coder below is written call by call (what one call of the C function does with the `avail_in` bytes it is given, with the C
  resume state); `*_refines` shows it equal, call by call, to `Coder.ofByteMachine` of a byte machine, so the generic theorem applies:
  `*_slicing_independent` — any two fair slicings with any number of pieces, empty calls included — and `*_sliced_eq_whole` names
  what they all compute. The driver `xzm_c06` runs the same functions (`vliDecodeMulti`, `fieldCoder`, `l2Feed`, `ixFeed`) against
  the C code call by call. -/

/-- `lzma_vli_decode` in multi-call mode (`vli`, `vli_pos` persist): byte machine "read a byte, add seven bits, stop at the first byte
    without continuation bit / at the 9-byte limit / at a non-minimal zero byte". `live` = the argument check of the C function
    passes (`vli_pos < 9`, `vli < 2^(7·vli_pos)`). -/
theorem vli_decoder_refines : Sim vliDecCoder vliMachine VliM.abs VliM.live := vli_sim

theorem vli_decoder_slicing_independent (input : List UInt8) (fin : Bool) (sl₁ sl₂ : List (Nat × Nat)) :
    let r₁ := runSliced vliDecCoder fin sl₁ (Run.init (0, 0) input)
    let r₂ := runSliced vliDecCoder fin sl₂ (Run.init (0, 0) input)
    r₁.settled = true → r₂.settled = true → r₁.out = r₂.out ∧ r₁.ret = r₂.ret ∧ r₁.consumed = r₂.consumed ∧ r₁.state = r₂.state :=
  vli_slicing_independent 0 0 (by omega) (by simp) input fin sl₁ sl₂

/-- … and what they compute is the specification decoder `Vli.vliDecode` (Model/Vli.lean, the one C02/C03 reason about) of the whole
    buffer: `LZMA_STREAM_END` iff it yields a value; then the value is in `*vli`, and exactly the integer's bytes were consumed. -/
theorem vli_decoder_sliced_eq_whole (input : List UInt8) (fin : Bool) (sl : List (Nat × Nat)) :
    let R := runSliced vliDecCoder fin sl (Run.init (0, 0) input)
    R.settled = true →
      match vliDecode input with
      | some (v, rest) => R.ret = .streamEnd ∧ R.state.1 = v ∧ R.consumed = input.length - rest.length ∧ rest = input.drop R.consumed
      | none => R.ret ≠ .streamEnd :=
  vli_sliced_eq_vliDecode input fin sl

/-- non-vacuity: 2^35+5 takes six bytes; whole, and byte-at-a-time with empty calls; a non-minimal encoding is rejected at byte 3 -/
example : (fun r : Run (Nat × Nat) => (r.ret, r.state.1, r.consumed, r.settled))
    (runSliced vliDecCoder true [(100, 0)] (Run.init (0, 0) [0x85, 0x80, 0x80, 0x80, 0x80, 0x01, 0x77]))
    = (.streamEnd, 2 ^ 35 + 5, 6, true) := by decide +kernel
example : (fun r : Run (Nat × Nat) => (r.ret, r.state.1, r.consumed, r.settled))
    (runSliced vliDecCoder true [(1, 0), (0, 0), (1, 0), (1, 0), (0, 5), (1, 0), (1, 0), (1, 0), (1, 0)]
      (Run.init (0, 0) [0x85, 0x80, 0x80, 0x80, 0x80, 0x01, 0x77]))
    = (.streamEnd, 2 ^ 35 + 5, 6, true) := by decide +kernel
example : (fun r : Run (Nat × Nat) => (r.ret, r.consumed))
    (runSliced vliDecCoder true [(2, 0), (5, 0)] (Run.init (0, 0) [0x85, 0x80, 0x00])) = (.dataError, 3) := by decide +kernel

/-- `lzma_vli_encode` in multi-call mode (`vli_pos` persists; no input): byte machine "emit the next base-128 digit with continuation bit,
    the last one without, then `LZMA_STREAM_END`". `live` = `vli_pos < 9`; `v ≤ LZMA_VLI_MAX` is the other half of the argument check. -/
theorem vli_encoder_refines (v : Nat) (hv : v ≤ VLI_MAX) : Sim (vliEncCoder v) (vliEncMachine v) VliE.abs VliE.live := vliEnc_sim v hv

/-- Any sequence of output windows (any sizes, zero included) that ends settled has written exactly the specification encoding
    `Vli.vliEncode v` (Model/Vli.lean) and ended with `LZMA_STREAM_END`, `vli_pos` = the number of bytes. -/
theorem vli_encoder_sliced_eq_whole (v : Nat) (hv : v ≤ VLI_MAX) (input : List UInt8) (fin : Bool) (sl : List (Nat × Nat)) :
    let R := runSliced (vliEncCoder v) fin sl (Run.init 0 input)
    R.settled = true → R.out = vliEncode v ∧ R.ret = .streamEnd ∧ R.consumed = 0 ∧ R.state = (vliEncode v).length :=
  vliEnc_sliced_eq_whole v hv input fin sl

/-- non-vacuity: 123456789 through windows of 1, 0, 2, 0, 1, 5 bytes and through one window of 9 -/
example : (fun r : Run Nat => (r.out, r.ret, r.state, r.settled))
    (runSliced (vliEncCoder 123456789) true [(0, 1), (0, 0), (0, 2), (0, 0), (0, 1), (0, 5)] (Run.init 0 []))
    = ([0x95, 0x9A, 0xEF, 0x3A], .streamEnd, 4, true) := by decide +kernel
example : (fun r : Run Nat => (r.out, r.ret, r.state, r.settled))
    (runSliced (vliEncCoder 123456789) true [(0, 9)] (Run.init 0 [])) = ([0x95, 0x9A, 0xEF, 0x3A], .streamEnd, 4, true) := by
  decide +kernel

/-- The `lzma_bufcpy` field reader (`coder->pos` into a buffer of `size` bytes; Stream Header/Footer, Block Header, `rc_read_init`, …)
    is the byte machine "read until `size` bytes are there". -/
theorem field_reader_machine (size : Nat) : Sim (fieldCoder size) (fieldMachine size) id (fun _ => True) := field_sim size

theorem field_reader_slicing_independent (size : Nat) (input : List UInt8) (fin : Bool) (sl₁ sl₂ : List (Nat × Nat)) :
    let r₁ := runSliced (fieldCoder size) fin sl₁ (Run.init [] input)
    let r₂ := runSliced (fieldCoder size) fin sl₂ (Run.init [] input)
    r₁.settled = true → r₂.settled = true → r₁.out = r₂.out ∧ r₁.ret = r₂.ret ∧ r₁.consumed = r₂.consumed ∧ r₁.state = r₂.state :=
  field_slicing_independent size [] input fin sl₁ sl₂

/-- The `lzma_bufcpy` field reader (`coder->pos` into a buffer of `size` bytes; Stream Header/Footer, Block Header, …): under every
    slicing the buffer holds exactly the first `consumed` bytes of the input, never more than `size`; nothing is written; and a
    settled run has consumed `min size |input|` bytes — the field is complete (`LZMA_STREAM_END` here) iff the input is long enough. -/
theorem field_reader_refines (size : Nat) (input : List UInt8) (fin : Bool) (sl : List (Nat × Nat)) :
    let r := runSliced (fieldCoder size) fin sl (Run.init [] input)
    r.state = input.take r.consumed ∧ r.consumed ≤ size ∧ r.out = [] ∧ r.rest = input.drop r.consumed
      ∧ (r.settled = true → r.consumed = min size input.length)
      ∧ (r.ret ≠ .ok → r.ret = .streamEnd ∧ r.state = input.take size ∧ size ≤ input.length) := by
  intro r
  have h : FieldInv size input r := (FieldInv.init size input).sliced fin sl
  refine ⟨h.buf, h.cap, h.out, h.rest, h.settled, fun hr => ?_⟩
  obtain ⟨e1, e2⟩ := h.ret hr
  refine ⟨e1, by rw [h.buf, e2], ?_⟩
  have := h.le; omega

example : (runSliced (fieldCoder 4) true [(1, 0), (0, 5), (2, 1), (9, 9)] (Run.init [] [1, 2, 3, 4, 5, 6])).state = [1, 2, 3, 4] := by
  decide +kernel

/-- Delta encoder (`delta_encode()` reading the caller's input): under every slicing the output so far is the delta transform of the
    consumed prefix with the history carried in the coder state, and a settled run has transformed the whole input — i.e. exactly
    `Delta.encode` of the whole buffer (which C15 proves equal to `out[i] = in[i] - in[i - dist]`). -/
theorem delta_refines (s₀ : Delta.State) (input : List UInt8) (fin : Bool) (sl : List (Nat × Nat)) :
    let r := runSliced deltaEncCoder fin sl (Run.init s₀ input)
    r.out = (Delta.encode s₀ (input.take r.consumed)).2 ∧ r.state = (Delta.encode s₀ (input.take r.consumed)).1
      ∧ (r.settled = true → r.consumed = input.length ∧ r.out = (Delta.encode s₀ input).2) := by
  intro r
  have h : DeltaInv s₀ input r := (DeltaInv.init s₀ input).sliced fin sl
  refine ⟨h.out, h.st, fun hs => ?_⟩
  have hc := h.settled hs
  refine ⟨hc, ?_⟩
  have := h.out
  rw [hc, List.take_length] at this
  exact this

example : (runSliced deltaEncCoder true [(1, 1), (0, 0), (3, 2), (0, 1), (9, 9)] (Run.init (Delta.State.init 2) [1, 2, 3, 4, 5, 6])).out
    = [1, 2, 2, 2, 2, 2] := by decide +kernel

/-- **Delta behind any next coder** — the only configuration of `delta_decode()` (`next.code != NULL`), and `delta_encode()` in a
    chain: the coder calls the next coder with the caller's buffers unchanged and transforms what it wrote. For EVERY next coder
    (`src`), every slicing: the run is the next coder's run on the same slicing (same consumed, return code, settledness) with the
    output delta-transformed as one stream from the initial history. -/
theorem delta_behind_next_refines {ν : Type} (src : Src ν) (enc : Bool) (sl : List (Nat × Nat)) (fin : Bool) (d₀ : Delta.State) (n₀ : ν)
    (input : List UInt8) :
    let R := runSliced (deltaNextCoder src enc) fin sl (Run.init (d₀, n₀) input)
    let r := runSliced (srcCoder src) fin sl (Run.init n₀ input)
    R.rest = r.rest ∧ R.consumed = r.consumed ∧ R.ret = r.ret ∧ R.settled = r.settled ∧ R.state.2 = r.state
      ∧ R.out = (if enc then Delta.encode d₀ r.out else Delta.decode d₀ r.out).2
      ∧ R.state.1 = (if enc then Delta.encode d₀ r.out else Delta.decode d₀ r.out).1 :=
  delta_behind_next src enc sl fin d₀ n₀ input

/-- Hence delta (encoder or decoder) in front of a next coder is slicing independent on every pair of slicings on which the next
    coder is. -/
theorem delta_behind_next_slicing_independent {ν : Type} (src : Src ν) (enc : Bool) (fin : Bool) (d₀ : Delta.State) (n₀ : ν)
    (input : List UInt8) (sl₁ sl₂ : List (Nat × Nat)) :
    let r₁ := runSliced (srcCoder src) fin sl₁ (Run.init n₀ input)
    let r₂ := runSliced (srcCoder src) fin sl₂ (Run.init n₀ input)
    let R₁ := runSliced (deltaNextCoder src enc) fin sl₁ (Run.init (d₀, n₀) input)
    let R₂ := runSliced (deltaNextCoder src enc) fin sl₂ (Run.init (d₀, n₀) input)
    r₁.out = r₂.out ∧ r₁.ret = r₂.ret ∧ r₁.consumed = r₂.consumed →
      R₁.out = R₂.out ∧ R₁.ret = R₂.ret ∧ R₁.consumed = R₂.consumed ∧ R₁.state.1 = R₂.state.1 :=
  delta_behind_next_slicing src enc fin d₀ n₀ input sl₁ sl₂

/-- non-vacuity: the delta DEcoder behind the harness's stub next coder (ends after 6 bytes), ragged vs. whole -/
example : (runSliced (deltaNextCoder Src.stub false) true [(1, 1), (0, 0), (3, 2), (0, 1), (9, 9)]
      (Run.init (Delta.State.init 2, (6, false)) [1, 2, 2, 2, 2, 2])).out = [1, 2, 3, 4, 5, 6] := by decide +kernel
example : (runSliced (deltaNextCoder Src.stub false) true [(9, 9)]
      (Run.init (Delta.State.init 2, (6, false)) [1, 2, 2, 2, 2, 2])).out = [1, 2, 3, 4, 5, 6] := by decide +kernel

/-- The LZMA2 chunk-header machine (the 8 sequences of `lzma2_decode()`; LZMA payload and dictionary abstract: every copied byte and
    every payload byte is an event, there is no output-capacity limit in this model): one call = `l2Feed` on the offered bytes, the
    events accumulate in the coder state. It is a byte machine (one `l2Step` per input byte). -/
theorem lzma2_header_machine : Sim l2Coder l2Machine id (fun _ => True) := l2_sim

/-- Under any two fair slicings: same final sequence state, same events in the same order (dictionary resets, state resets, properties,
    chunk sizes, every copied byte, every payload byte, the verdict), same consumed count, same return code. -/
theorem lzma2_header_slicing_independent (input : List UInt8) (fin : Bool) (sl₁ sl₂ : List (Nat × Nat)) :
    let r₁ := runSliced l2Coder fin sl₁ (Run.init L2C.init input)
    let r₂ := runSliced l2Coder fin sl₂ (Run.init L2C.init input)
    r₁.settled = true → r₂.settled = true → r₁.out = r₂.out ∧ r₁.ret = r₂.ret ∧ r₁.consumed = r₂.consumed ∧ r₁.state = r₂.state :=
  l2_slicing_independent L2C.init input fin sl₁ sl₂

theorem lzma2_header_sliced_eq_whole (input : List UInt8) (fin : Bool) (sl : List (Nat × Nat)) :
    let R := runSliced l2Coder fin sl (Run.init L2C.init input)
    R.settled = true →
      R.state.1 = (l2Feed {} input).1 ∧ R.state.2.1 = (l2Feed {} input).2.1 ∧ R.consumed = (l2Feed {} input).2.2
        ∧ R.ret = (l2Verdict (l2Feed {} input).2.1).getD .ok :=
  l2_sliced_eq_whole input fin sl

/-- non-vacuity: an uncompressed chunk with dictionary reset, byte-at-a-time with empty calls = whole; a chunk that needs a dictionary
    reset first is rejected at its control byte -/
example : (fun r : Run L2C => (r.state.2.1, r.ret, r.consumed))
    (runSliced l2Coder true [(1, 0), (0, 0), (1, 0), (1, 0), (0, 0), (1, 0), (1, 0), (1, 0), (1, 0)]
      (Run.init L2C.init [0x01, 0x00, 0x02, 0x41, 0x42, 0x43, 0x00]))
    = ([.dictReset, .chunkSizes false 3 3, .copyByte 0x41, .copyByte 0x42, .copyByte 0x43, .finished .streamEnd], .streamEnd, 7) := by
  decide +kernel
example : (l2Feed {} [0x01, 0x00, 0x02, 0x41, 0x42, 0x43, 0x00]).2 =
    ([.dictReset, .chunkSizes false 3 3, .copyByte 0x41, .copyByte 0x42, .copyByte 0x43, .finished .streamEnd], 7) := by decide +kernel
example : (l2Feed {} [0x02, 0x00, 0x02]).2 = ([.finished .dataError], 1) := by decide +kernel

/-- The Index decoder sequence machine (`index_decode()`: VLIs with `coder->pos`, Records, padding, CRC32 over every byte exactly once):
    one call = `ixFeed`; it is a byte machine (one `ixStep` per input byte). -/
theorem index_decoder_machine : Sim ixCoder ixMachine id (fun _ => True) := ix_sim

/-- Under any two fair slicings: same verdict, same consumed count, same final state — in particular the same Records and the same
    CRC32 register. -/
theorem index_decoder_slicing_independent (input : List UInt8) (fin : Bool) (sl₁ sl₂ : List (Nat × Nat)) :
    let r₁ := runSliced ixCoder fin sl₁ (Run.init ({}, none) input)
    let r₂ := runSliced ixCoder fin sl₂ (Run.init ({}, none) input)
    r₁.settled = true → r₂.settled = true → r₁.out = r₂.out ∧ r₁.ret = r₂.ret ∧ r₁.consumed = r₂.consumed ∧ r₁.state = r₂.state :=
  ix_slicing_independent ({}, none) input fin sl₁ sl₂

theorem index_decoder_sliced_eq_whole (input : List UInt8) (fin : Bool) (sl : List (Nat × Nat)) :
    let R := runSliced ixCoder fin sl (Run.init ({}, none) input)
    R.settled = true →
      R.state = ((ixFeed {} input).1, (ixFeed {} input).2.1) ∧ R.consumed = (ixFeed {} input).2.2
        ∧ R.ret = (ixFeed {} input).2.1.getD .ok :=
  ix_sliced_eq_whole input fin sl

/-- non-vacuity: a real Index (two Records, two padding bytes, CRC32) whole and in pieces cut inside a VLI and inside the CRC;
    a wrong CRC byte is rejected -/
example : (fun r : Run (IxState × Option Ret) => (r.ret, r.consumed, r.state.1.records))
    (runSliced ixCoder true [(5, 0), (0, 0), (5, 0), (1, 0), (9, 0)]
      (Run.init ({}, none) [0x00, 0x02, 0x11, 0x05, 0x92, 0x01, 0x06, 0x00, 0x90, 0x74, 0x06, 0xB2]))
    = (.streamEnd, 12, [(146, 6), (17, 5)]) := by decide +kernel
example : (ixFeed {} [0x00, 0x02, 0x11, 0x05, 0x92, 0x01, 0x06, 0x00, 0x90, 0x74, 0x06, 0xB2]).2 = (some .streamEnd, 12) := by
  decide +kernel
example : (ixFeed {} [0x00, 0x02, 0x11, 0x05, 0x92, 0x01, 0x06, 0x00, 0x90, 0x74, 0x05, 0xB2]).2 = (some .dataError, 11) := by
  decide +kernel

/-! ## 3. `simple_code()` with the real BCJ filters -/

/-- **`simple_code()` is slicing independent for every filter with the BCJ contract.**
    `F` is any filter that keeps the size, processes a prefix, leaves the rest untouched (at most `unfilteredMax` bytes) and is
    prefix-stable for buffers shorter than `lim` (`BcjContract`, Lemmas/CoderSimple.lean; the state reached may differ between one
    call and two — only bytes and counts are compared); the coder reads the caller's input directly (`next.code == NULL`, or a next
    coder that behaves like `lzma_bufcpy`). For every slicing of an input shorter than `lim`: what has been written so far is a prefix
    of `F` applied to the whole input at once; and once a call returns `LZMA_STREAM_END` the output is exactly that and all input has
    been consumed. -/
theorem simple_coder_slicing {φ : Type} (F : Filter φ) (unfilteredMax lim : Nat) (hF : BcjContract F unfilteredMax lim) (endsAtFinish : Bool)
    (allocated : Nat) (φ₀ : φ) (input : List UInt8) (hlim : input.length < lim) (fin : Bool) (sl : List (Nat × Nat)) :
    let r := runSliced (simpleCoder F (Src.null endsAtFinish) allocated) fin sl (Run.init (Simple.init φ₀ ()) input)
    (∃ o, (F φ₀ input).1 = r.out ++ o)
      ∧ (r.ret = .streamEnd → r.out = (F φ₀ input).1 ∧ r.consumed = input.length)
      ∧ (r.ret = .ok ∨ r.ret = .streamEnd) := by
  intro r
  have h : SRunInv F lim φ₀ input (NullG input) (fun _ => True) input.length r :=
    (SRunInv.init F lim φ₀ input (NullG input) (fun _ => True) input hlim () (by simp [NullG])).sliced hF
      (nullLaw endsAtFinish fin input) allocated sl
  refine ⟨h.result_null.1, h.result_null.2, ?_⟩
  by_cases hr : r.ret = .ok
  · exact Or.inl hr
  · exact Or.inr (h.retEnd hr).1

/-- **The contract holds for the eight real filters** (`CoderBcj.bcjFilter id enc` = `call_filter()` dispatching to C15's models
    `x86Code` — with its carried `prev_mask`/`prev_pos` —, `powerpcCode`, `ia64Code`, `armCode`, `armthumbCode`, `sparcCode`,
    `arm64Code`, `riscvCode`; encoder and decoder; `unfiltered_max` as passed by the init functions). Prefix stability is
    `C15.bcj_chunk_stable`, `C15.x86_chunk_stable`, `C15.riscv_chunk_stable`; for x86 it is claimed below 4 GiB − 5 bytes (the
    32-bit `prev_pos` distance), for the others without limit. -/
theorem bcj_contract_real (id : XzVerif.Simple.FilterId) (enc : Bool) (lim : Nat) (hx : id = .x86 → lim + 5 ≤ 2 ^ 32) :
    BcjContract (CoderBcj.bcjFilter id enc) id.unfilteredMax lim :=
  CoderBcj.bcj_contract id enc lim hx

/-- The filters covered: all `lzma_simple_coder_init` callers. -/
def realFilters : List XzVerif.Simple.FilterId := [.x86, .powerpc, .ia64, .arm, .armthumb, .sparc, .arm64, .riscv]

theorem realFilters_complete (id : XzVerif.Simple.FilterId) : id ∈ realFilters := by cases id <;> simp [realFilters]

/-- **The two `simple_code()` models agree call by call.** `XzVerif.Simple.simpleCode` (Model/Simple.lean) is the model that C15's
    correspondence compares byte for byte with `simple_code()` running the real filters; `Coder.simpleCode` (Model/CoderSmall.lean) is
    the one the slicing proof is about (tied to the C function with a test filter by this check's own correspondence). For every coder
    object with `size = |buffer|` (true after init, kept by every call), every input, capacity and action: same new state, same
    output bytes, same consumed count, same return code; filter id, direction, next coder and `allocated` never change. -/
theorem simple_model_equiv (c : XzVerif.Simple.Coder) (hsz : c.size = c.buffer.length) (inp : List UInt8) (cap : Nat)
    (a : XzVerif.Simple.Action) :
    CoderBcj.toSimple (XzVerif.Simple.simpleCode c inp cap a).1
        = ((CoderBcj.coderOf c).code (CoderBcj.toSimple c) inp cap (CoderBcj.actOf a)).1
    ∧ (XzVerif.Simple.simpleCode c inp cap a).2.out = ((CoderBcj.coderOf c).code (CoderBcj.toSimple c) inp cap (CoderBcj.actOf a)).2.out
    ∧ (XzVerif.Simple.simpleCode c inp cap a).2.consumed
        = ((CoderBcj.coderOf c).code (CoderBcj.toSimple c) inp cap (CoderBcj.actOf a)).2.consumed
    ∧ (XzVerif.Simple.simpleCode c inp cap a).2.ret
        = ((CoderBcj.coderOf c).code (CoderBcj.toSimple c) inp cap (CoderBcj.actOf a)).2.ret.toNat
    ∧ (XzVerif.Simple.simpleCode c inp cap a).1.size = (XzVerif.Simple.simpleCode c inp cap a).1.buffer.length
    ∧ CoderBcj.SameKind c (XzVerif.Simple.simpleCode c inp cap a).1 :=
  CoderBcj.code_equiv c hsz inp cap a

/-- **`simple_code()` with a real filter is slicing independent** — no abstract hypothesis left. For every filter `id ∈ realFilters`,
    direction, next-coder configuration of C15's model (`next.code == NULL`, or its pass-through next coder), aligned start offset
    (`Coder.init` succeeds), every input (x86: shorter than 4 GiB − 5), every slicing `sl` (any number of `(avail_in, avail_out)`
    pieces, zeros allowed), with or without `LZMA_FINISH` at the end: running C15's model `Simple.simpleCode` call by call
    (`CoderBcj.c15Coder`), the output so far is a prefix of the filter applied ONCE to the whole input from the initial state
    (`Simple.filterCode id enc X86State.init start_offset input`, whose unprocessed tail is the input's own bytes), the return code
    is `LZMA_OK` or `LZMA_STREAM_END`, and at `LZMA_STREAM_END` the output is exactly that and everything was consumed. -/
theorem simple_coder_slicing_bcj (id : XzVerif.Simple.FilterId) (_hid : id ∈ realFilters) (enc : Bool) (next : XzVerif.Simple.Next)
    (off : BitVec 32) (c₀ : XzVerif.Simple.Coder) (hinit : XzVerif.Simple.Coder.init id enc next off = some c₀)
    (input : List UInt8) (hx : id = .x86 → input.length + 5 < 2 ^ 32) (fin : Bool) (sl : List (Nat × Nat)) :
    let r := runSliced CoderBcj.c15Coder fin sl (Run.init c₀ input)
    let whole := (XzVerif.Simple.filterCode id enc Bcj.X86State.init off input).1
    (∃ o, whole = r.out ++ o) ∧ (r.ret = .streamEnd → r.out = whole ∧ r.consumed = input.length)
      ∧ (r.ret = .ok ∨ r.ret = .streamEnd) :=
  CoderBcj.c15_slicing id enc next off c₀ hinit input hx fin sl

/-- Corollary in the shape of the property: two slicings, both finished ⇒ same bytes, same consumed count. -/
theorem simple_coder_two_slicings_bcj (id : XzVerif.Simple.FilterId) (enc : Bool) (next : XzVerif.Simple.Next)
    (off : BitVec 32) (c₀ : XzVerif.Simple.Coder) (hinit : XzVerif.Simple.Coder.init id enc next off = some c₀)
    (input : List UInt8) (hx : id = .x86 → input.length + 5 < 2 ^ 32) (fin₁ fin₂ : Bool) (sl₁ sl₂ : List (Nat × Nat)) :
    let r₁ := runSliced CoderBcj.c15Coder fin₁ sl₁ (Run.init c₀ input)
    let r₂ := runSliced CoderBcj.c15Coder fin₂ sl₂ (Run.init c₀ input)
    r₁.ret = .streamEnd → r₂.ret = .streamEnd → r₁.out = r₂.out ∧ r₁.consumed = r₂.consumed := by
  intro r₁ r₂ h₁ h₂
  have a := (simple_coder_slicing_bcj id (realFilters_complete id) enc next off c₀ hinit input hx fin₁ sl₁).2.1 h₁
  have b := (simple_coder_slicing_bcj id (realFilters_complete id) enc next off c₀ hinit input hx fin₂ sl₂).2.1 h₂
  exact ⟨a.1.trans b.1.symm, a.2.trans b.2.symm⟩

/-- non-vacuity with the REAL x86 filter (C15's example: the candidate at 0 is rejected, the one at 1 is converted with `prev_mask = 2`):
    a ragged slicing that cuts inside the operand and offers 1–3 bytes of output room reaches `LZMA_STREAM_END` with the one-shot bytes -/
def exX86 : XzVerif.Simple.Coder :=
  { id := .x86, isEncoder := true, next := .null, endWasReached := false, nowPos := 0#32, allocated := 10, pos := 0, filtered := 0,
    size := 0, buffer := [], st := Bcj.X86State.init }

example : XzVerif.Simple.Coder.init .x86 true .null 0#32 = some exX86 := by
  simp [XzVerif.Simple.Coder.init, exX86, XzVerif.Simple.FilterId.alignment, XzVerif.Simple.FilterId.unfilteredMax]
example : (fun r : Run XzVerif.Simple.Coder => (r.out, r.ret, r.consumed))
    (runSliced CoderBcj.c15Coder true [(3, 2), (1, 1), (0, 5), (2, 0), (5, 3), (9, 2), (9, 9)]
      (Run.init exX86 [0xE8, 0xE8, 0xFA, 0xFF, 0xFE, 0x00, 9, 9, 9, 9]))
    = ([0xE8, 0xE8, 0x05, 0x00, 0x01, 0x00, 9, 9, 9, 9], .streamEnd, 10) := by decide +kernel
example : (XzVerif.Simple.filterCode .x86 true Bcj.X86State.init 0#32 [0xE8, 0xE8, 0xFA, 0xFF, 0xFE, 0x00, 9, 9, 9, 9]).1
    = [0xE8, 0xE8, 0x05, 0x00, 0x01, 0x00, 9, 9, 9, 9] := by decide +kernel

/-- … and with the test filter of the harness (whole units of 4 bytes, position dependent; the filter the C06 correspondence runs inside
    the real `simple_code()`), a 2·4-byte buffer and a ragged slicing the chunked run gives exactly the one-shot result -/
example : (runSliced (simpleCoder (testFilter 4 true) (Src.null true) 8) true [(3, 2), (1, 1), (0, 5), (2, 0), (5, 3), (9, 2), (9, 9)]
      (Run.init (Simple.init 0 ()) [0, 1, 2, 3, 4, 5, 6, 7, 8, 9, 10])).out
    = (testFilter 4 true 0 [0, 1, 2, 3, 4, 5, 6, 7, 8, 9, 10]).1 := by decide +kernel

/-! ### `simple_code()` behind a real next coder (the BCJ *decoder* configuration) -/

/-- **`simple_code()` ∘ next coder, any slicing, any filter with the contract, ANY byte machine as next coder** (`next.code != NULL`: e.g.
    BCJ decoder after the LZMA2 decoder). `simple_code()` hands the caller's input to the next coder but gives it its own output windows
    (the rest of `out[]`, then the rest of `coder->buffer[]`) — it re-slices the next coder's output. `hb`: on this input the next coder
    writes fewer than `lim` bytes (`lim` = length limit of the filter's prefix stability). After any slicing the next coder is at a
    point `D` of its single trace (`Reach`), `simple_code()`'s output is a prefix of the filter applied to `D`, the return code is
    `LZMA_OK` or `LZMA_STREAM_END`, and at `LZMA_STREAM_END` the next coder has returned `LZMA_STREAM_END` and the output is the filter
    applied once to everything it wrote.
    Limitation of the model (`Src` has no error channel): a next coder that FAILS makes the C function return at once with unfiltered
    bytes in `out[]`; that path is not modelled (the oracle compares only status and consumed count there). -/
theorem simple_behind_next_slicing {φ μ : Type} {F : Filter φ} {umax lim : Nat} (hF : BcjContract F umax lim) (m : ByteMachine μ) (s₀ : μ)
    (input : List UInt8) (fin : Bool) (allocated : Nat) (φ₀ : φ) (sl : List (Nat × Nat))
    (hb : ∀ D st eof rest, Reach m fin s₀ false input D st eof rest → D.length < lim) :
    let R := runSliced (simpleCoder F (machineSrc m) allocated) fin sl (Run.init (Simple.init φ₀ (s₀, false)) input)
    (∃ D, Reach m fin s₀ false input D R.state.next.1 R.state.next.2 R.rest ∧ ∃ o, (F φ₀ D).1 = R.out ++ o)
      ∧ R.consumed + R.rest.length = input.length
      ∧ (R.ret = .streamEnd → ∃ Xf, Reach m fin s₀ false input Xf R.state.next.1 R.state.next.2 R.rest
            ∧ m.step R.state.next.1 = .done .streamEnd ∧ R.out = (F φ₀ Xf).1)
      ∧ (R.ret = .ok ∨ R.ret = .streamEnd) :=
  simple_behind_machine hF m s₀ input fin allocated φ₀ sl hb

/-- With the eight real filters (either direction; the decoder is the one that occurs): two slicings that both reach `LZMA_STREAM_END`
    have written the same bytes and consumed the same input, whatever byte machine the next coder is. -/
theorem simple_behind_next_two_slicings_bcj {μ : Type} (id : XzVerif.Simple.FilterId) (enc : Bool) (lim : Nat)
    (hx : id = .x86 → lim + 5 ≤ 2 ^ 32) (m : ByteMachine μ) (s₀ : μ) (input : List UInt8) (fin : Bool) (off : BitVec 32)
    (sl₁ sl₂ : List (Nat × Nat)) (hb : ∀ D st eof rest, Reach m fin s₀ false input D st eof rest → D.length < lim) :
    let c := simpleCoder (CoderBcj.bcjFilter id enc) (machineSrc m) (2 * id.unfilteredMax)
    let R₁ := runSliced c fin sl₁ (Run.init (Simple.init (Bcj.X86State.init, off) (s₀, false)) input)
    let R₂ := runSliced c fin sl₂ (Run.init (Simple.init (Bcj.X86State.init, off) (s₀, false)) input)
    R₁.ret = .streamEnd → R₂.ret = .streamEnd → R₁.out = R₂.out ∧ R₁.consumed = R₂.consumed :=
  simple_behind_machine_two (CoderBcj.bcj_contract id enc lim hx) m s₀ input fin _ _ sl₁ sl₂ hb

/-- non-vacuity: the real x86 DEcoder behind the run-length decoder `rle` of section 1 as next coder; the RLE stream expands to C15's
    encoded example; whole vs. a ragged slicing with tiny output windows: both `LZMA_STREAM_END`, both the decoded original -/
example : (fun r : Run (Simple CoderBcj.FState (RleState × Bool)) => (r.out, r.ret, r.consumed))
    (runSliced (simpleCoder (CoderBcj.bcjFilter .x86 false) (machineSrc rle) 10) true [(100, 100), (100, 100)]
      (Run.init (Simple.init (Bcj.X86State.init, 0#32) (RleState.idle, false)) [2, 0xE8, 1, 0x05, 1, 0x00, 1, 0x01, 1, 0x00, 4, 9]))
    = ([0xE8, 0xE8, 0xFA, 0xFF, 0xFE, 0x00, 9, 9, 9, 9], .streamEnd, 12) := by decide +kernel
example : (fun r : Run (Simple CoderBcj.FState (RleState × Bool)) => (r.out, r.ret, r.consumed))
    (runSliced (simpleCoder (CoderBcj.bcjFilter .x86 false) (machineSrc rle) 10) true
      [(3, 2), (1, 1), (0, 5), (2, 0), (5, 3), (9, 2), (1, 1), (9, 1), (9, 9), (9, 9)]
      (Run.init (Simple.init (Bcj.X86State.init, 0#32) (RleState.idle, false)) [2, 0xE8, 1, 0x05, 1, 0x00, 1, 0x01, 1, 0x00, 4, 9]))
    = ([0xE8, 0xE8, 0xFA, 0xFF, 0xFE, 0x00, 9, 9, 9, 9], .streamEnd, 12) := by decide +kernel

/-- … and the bound hypothesis `hb` holds there: the next coder comes to rest after writing 10 bytes, so everything it can ever have
    written is a prefix of those (`bound_of_quiescent`) -/
example : ∀ D st eof rest, Reach rle true RleState.idle false [2, 0xE8, 1, 0x05, 1, 0x00, 1, 0x01, 1, 0x00, 4, 9] D st eof rest →
    D.length < 2 ^ 32 - 5 := by
  obtain ⟨h1, _, _, h4, _⟩ := exec_spec rle true true RleState.idle false [2, 0xE8, 1, 0x05, 1, 0x00, 1, 0x01, 1, 0x00, 4, 9] 100 []
    (fun _ => ⟨rfl, rfl⟩)
  have hr : (rle.exec true RleState.idle false [2, 0xE8, 1, 0x05, 1, 0x00, 1, 0x01, 1, 0x00, 4, 9] 100).2.ret = .streamEnd := by
    decide +kernel
  have hlen : (rle.exec true RleState.idle false [2, 0xE8, 1, 0x05, 1, 0x00, 1, 0x01, 1, 0x00, 4, 9] 100).2.out.length = 10 := by
    decide +kernel
  rw [h4] at hr
  simp only [List.append_nil] at h1
  exact bound_of_quiescent h1 (Or.inl ⟨_, retOf_streamEnd hr⟩) _ (by rw [hlen]; decide)

/-! ## 4. Encoder determinism across thread counts, timeouts and schedules -/

/-- **The threaded encoder's output is a function of (input, block size, flush offsets, filter updates).**
    `MtEnc.GReach P c s g`: state `s` of the MT-encoder transition system of C08 (Model/MtEnc.lean: every interleaving of main-thread
    and worker critical sections, spurious wake-ups, time-outs) is reachable from a fresh encoder with configuration `c` (threads,
    timeout, block size, initial filter chain), `g` being the ghost record of the `lzma_filters_update` calls that were accepted
    (input offset, new chain) — Lemmas/MtEncChain.lean. Two runs with ANY thread counts ≥ 1, ANY timeouts, ANY schedules and ANY
    slicing of the application's `lzma_code` calls that have returned `LZMA_STREAM_END` for `LZMA_FINISH` (`seq = ended`) having
    consumed the same input with the same block size, the same flush offsets (`LZMA_FULL_FLUSH`/`LZMA_FULL_BARRIER` requests, as
    input offsets) and the same filter updates have delivered the same Blocks (same cuts, data, filter chains, order) and written
    the same bytes. Uses `C08.mtenc_deterministic` (cuts), `C08.mtenc_output` (layout) and the filter-chain invariant. -/
theorem mt_encoder_deterministic {P : MtEnc.Params} {c₁ c₂ : MtEnc.Cfg} (a₁ : 0 < c₁.bs) (a₂ : 0 < c₁.tmax) (b₁ : 0 < c₂.bs) (b₂ : 0 < c₂.tmax)
    {s₁ s₂ : MtEnc.St} {g₁ g₂ : MtEnc.Upd} (hr₁ : MtEnc.GReach P c₁ s₁ g₁) (hr₂ : MtEnc.GReach P c₂ s₂ g₂)
    (he₁ : s₁.seq = .ended) (he₂ : s₂.seq = .ended) (hbs : s₁.cfg.bs = s₂.cfg.bs) (hF : s₁.flushPts = s₂.flushPts)
    (hin : s₁.consumed = s₂.consumed) (hg : g₁ = g₂) : s₁.done = s₂.done ∧ s₁.out = s₂.out :=
  MtEnc.mtenc_bytes_deterministic a₁ a₂ b₁ b₂ hr₁ hr₂ he₁ he₂ hbs hF hin hg

/-- The ghost record loses nothing: every reachable state of C08's system carries one, and forgetting it gives C08's reachability. -/
theorem mt_encoder_ghost_conservative {P : MtEnc.Params} {c : MtEnc.Cfg} {s : MtEnc.St} :
    MtEnc.Reachable P c s ↔ ∃ g, MtEnc.GReach P c s g :=
  ⟨fun h => h.ghost, fun ⟨_, h⟩ => h.reachable⟩

/-- non-vacuity: two concrete finished runs — two threads vs. one thread with a timeout that fires, different `lzma_code` slicing, one
    accepted filter update at offset 3 — satisfy all hypotheses at once (and indeed wrote the same 14 bytes) -/
example : ∃ s₁ s₂ g, MtEnc.GReach C08.exP C08.exCfg s₁ g ∧ MtEnc.GReach C08.exP MtEnc.exCfgB s₂ g ∧ s₁.seq = .ended ∧ s₂.seq = .ended
    ∧ s₁.cfg.bs = s₂.cfg.bs ∧ s₁.flushPts = s₂.flushPts ∧ s₁.consumed = s₂.consumed ∧ g.upds = [(3, 7)]
    ∧ s₁.cfg.tmax = 2 ∧ s₂.cfg.tmax = 1 ∧ s₁.out = [1, 2, 100, 10, 11, 0, 101, 12, 0, 102, 13, 7, 9, 3] := by
  have hA : ∃ sg, MtEnc.grun C08.exP (MtEnc.initSt C08.exCfg C08.exP, ⟨0, []⟩) (C08.exTrace1 ++ C08.exTrace2) = some sg
      ∧ MtEnc.gobs sg = MtEnc.exObs ∧ sg.1.cfg.tmax = 2 := by decide +kernel
  have hB : ∃ sg, MtEnc.grun C08.exP (MtEnc.initSt MtEnc.exCfgB C08.exP, ⟨0, []⟩) MtEnc.exTraceB = some sg
      ∧ MtEnc.gobs sg = MtEnc.exObs ∧ sg.1.cfg.tmax = 1 := by decide +kernel
  obtain ⟨⟨s₁, g₁⟩, r₁, o₁, t₁⟩ := hA
  obtain ⟨⟨s₂, g₂⟩, r₂, o₂, t₂⟩ := hB
  have q₁ := MtEnc.greach_grun _ MtEnc.GReach.init r₁
  have q₂ := MtEnc.greach_grun _ MtEnc.GReach.init r₂
  have e₁ : MtEnc.gobs (s₁, g₁) = MtEnc.exObs := o₁
  have e₂ : MtEnc.gobs (s₂, g₂) = MtEnc.exObs := o₂
  simp only [MtEnc.gobs, MtEnc.exObs, MtEnc.GObs.mk.injEq] at e₁ e₂
  obtain ⟨x1, x2, x3, x4, x5, x6, x7⟩ := e₁
  obtain ⟨y1, y2, y3, y4, y5, y6, y7⟩ := e₂
  have hg : g₂ = g₁ := y5.trans x5.symm
  subst hg
  exact ⟨s₁, s₂, g₂, q₁, q₂, x1, y1, x2.trans y2.symm, x3.trans y3.symm, x4.trans y4.symm, by rw [x5], t₁, t₂, x7⟩

end XzVerif.C06
