/-
  C01, END TO END — compression is lossless through the whole stack, with no abstract payload hypothesis.

  Props/C02.lean proves that the container encoders of Model/XzEncode.lean write files the container decoder of
  Model/XzDecode.lean accepts and decodes to the input — for an ABSTRACT payload coder, under the hypotheses
  `PayloadContract` / `UncompContract` (audit finding F-04: only a toy coder inhabited them).  This file discharges them
  for the concrete models:

    encoder side  `XzEncEnv.stdEncEnv p parser`   delta / BCJ encoder models (C15) in chain order, then the executable LZMA2
                                                  chunker `Lzma2Enc.lzma2Encode` (resp. `LzmaEnc.lzma1Encode` for .lzma),
                                                  the integrity checks of Model/Check.lean
    decoder side  `XzEnv.stdEnv`                  `Lzma2.rawDecode` (executable LZMA2 / LZMA1 decoder models behind the delta /
                                                  BCJ decoder models), the same checks
    containers    `XzEncode.streamEncodeST / streamBufferEncode / streamEncodeMT / aloneEncode`,
                  `XzDecode.xzDecode`, `Alone.aloneDecode` over `C16.lzmaPayload`.

  THE ONLY ABSTRACT INPUT IS THE PARSER (`XzEncEnv.Parser`: liblzma's match finder + optimum parser are not modelled).
  Its contract is `Accepts p parser chain x`: the executable chunker accepts the trace the parser supplies for the
  (pre-filtered) input of the Block — exactly hypothesis `h` of `C01.lzma2_roundtrip` (`parser_contract_iff`), which the
  chunker decides by checking every symbol against the data (`checkSym`, the per-symbol part of `Describes`).
  ./check C01 tests it on every traced run of the real encoder (hook H2).  It is asked only of the pieces actually encoded.
  Second per-input hypothesis: a chain with the x86 filter needs pieces shorter than 2^32 − 5 bytes (C15's hypothesis).

  Lemmas: Lemmas/E2E*.lean.
-/
import XzVerif.Props.C01
import XzVerif.Props.C02
import XzVerif.Props.C15
import XzVerif.Props.C16
import XzVerif.Props.C03Container
import XzVerif.Lemmas.E2EContainer
import XzVerif.Lemmas.E2EAlone
import XzVerif.Lemmas.E2EExample

namespace XzVerif.C01E2E
open XzVerif XzVerif.Container XzVerif.XzDecode XzVerif.XzEncode XzVerif.XzEncEnv XzVerif.XzEnv XzVerif.E2E
open XzVerif.LzmaEnc XzVerif.Lzma2Enc

/-! ## 1. the contracts -/

/-- **The parser's contract is the hypothesis of `C01.lzma2_roundtrip`.**  For a chain `pre ++ [LZMA2 d]`: the non-last
    filters can be applied (`applyPre`), and the executable chunker returns a result for the filtered input `y` with no
    preset dictionary and the trace the parser supplies. -/
theorem parser_contract_iff (p : Lzma.Props) (parser : Parser) (pre : List FilterOpts) (d : Nat) (x : List UInt8) :
    Accepts p parser (pre ++ [.lzma2 d]) x ↔
      ∃ y res, applyPre pre x = some y ∧
        lzma2Encode p d (ByteArray.empty ++ toBuf y) ByteArray.empty.size (parser p d (toBuf y)) = .ok res :=
  accepts_iff p parser pre d x

/-- **payload_contract_std (per input).**  For every chain accepted by `xzChain p` (that is: `lzma_validate_chain` accepts;
    any number of delta (distance 1..256) / BCJ (x86, PowerPC, IA-64, ARM, ARM-Thumb, SPARC, ARM64, RISC-V; aligned 32-bit
    start offset) filters; LZMA2 last with valid lc/lp/pb and 4 KiB ≤ dict_size ≤ 1.5 GiB — `lzma_validate_chain` limits the
    chain to four filters, i.e. up to three in front of LZMA2) and every input that meets `GoodInput` (parser's contract; below
    4 GiB − 5 if the chain has x86):  the raw decoder of `stdEnv`, initialised from the Filter Flags the Block Header stores
    for the chain (LZMA2 dictionary size rounded UP to the next encodable one), maps `encPayload chain x ++ anything` to
    `x` with LZMA_STREAM_END and reports exactly `|encPayload chain x|` bytes consumed — with output space for exactly `x`. -/
theorem payload_contract_std_on (p : Lzma.Props) (parser : Parser) (fs : List FilterOpts) (hfs : xzChain p fs = true) :
    PayloadContractOn stdEnv (stdEncEnv p parser) fs (GoodInput p parser fs) :=
  fun raws hr x t c hx hc => payload_roundtrip_on p parser fs hfs raws hr x t c hx hc

/-- **payload_contract_std** in the form Props/C02.lean asks for (all inputs): when the parser keeps its contract on every
    input and the chain has no x86 filter (for x86 the round trip of C15 is proved below 4 GiB only; use the per-input form). -/
theorem payload_contract_std (p : Lzma.Props) (parser : Parser) (fs : List FilterOpts) (hfs : xzChain p fs = true)
    (hparser : ∀ x, Accepts p parser fs x) (hx86 : fs.any isX86 = false) :
    PayloadContract stdEnv (stdEncEnv p parser) fs :=
  fun raws hr x t c hc =>
    payload_roundtrip_on p parser fs hfs raws hr x t c ⟨hparser x, fun h => by rw [hx86] at h; cases h⟩ hc

/-- **uncomp_contract_std.**  The uncompressed LZMA2 chunks the single-call and threaded encoders fall back to (both sides
    executable models: `Container.lzma2UncompressedChunks`, `Lzma2.rawDecode`), under the header `LZMA2, dict 4 KiB`. -/
theorem uncomp_contract_std : UncompContract stdEnv := E2E.uncomp_contract_std

/-- encoder and decoder compute the same Check (None / CRC32 / CRC64 / SHA-256), of the size the format prescribes -/
theorem check_agrees_std (p : Lzma.Props) (parser : Parser) : CheckAgrees stdEnv (stdEncEnv p parser) :=
  C02.stdCheck_agrees _ _

/-- every supported chain satisfies the hypotheses `hw` / `hchain` of the C02 theorems, and `lzma_raw_encoder_init` says OK -/
theorem supported_chain (p : Lzma.Props) (parser : Parser) (fs : List FilterOpts) (hfs : xzChain p fs = true) :
    (∀ o ∈ fs, o.wf) ∧ (∃ n, validateChain (fs.map (·.id)) = .ok n) ∧ (stdEncEnv p parser).rawInit fs = .ok :=
  ⟨(xzChain_wf p fs hfs).1, (xzChain_wf p fs hfs).2, rawInitStd_ok p fs hfs⟩

/-- the Check IDs the encoders accept are None (0), CRC32 (1), CRC64 (4), SHA-256 (10) -/
theorem supported_checks (c : Nat) : checkIsSupported c = true ↔ c = 0 ∨ c = 1 ∨ c = 4 ∨ c = 10 := by
  simp [checkIsSupported]

/-! ## 2. whole files -/

theorem grammar_of_decode (fl : Flags) (out : List UInt8) (cap : Nat) (data : List UInt8) (ev : List Ret)
    (h : xzDecode stdEnv fl out cap = { ret := .streamEnd, out := data, consumed := out.length, events := ev }) :
    ValidXz stdEnv fl out cap data out.length ∧ DValidXz stdEnv fl out cap data out.length := by
  have hv := validXz_of_xzDecode stdEnv fl out cap (by rw [h])
  rw [h] at hv
  exact ⟨hv, (C03Container.xz_decode_exact_std fl out cap data out.length).mp ⟨by rw [h], by rw [h], by rw [h]⟩⟩

/-- **xz_roundtrip_std** (multi-call encoder `lzma_stream_encoder`: one Block per non-empty piece, LZMA_FULL_FLUSH between
    the pieces, LZMA_FINISH at the end).  For every supported chain, every Check the encoder accepts (None, CRC32, CRC64,
    SHA-256: otherwise the encoder model returns an error), every list of pieces on which the parser keeps its contract:
    whatever the encoder model — container model over the LZMA2 chunker model over the filter models — returns with LZMA_OK is
    decoded by the decoder model — container decoder over the executable LZMA2 decoder over the filter decoders — with
    LZMA_STREAM_END to exactly the concatenation of the pieces, consuming every byte, for every decoder flag combination and
    any output space that holds the data; and the file is an instance of both .xz grammars: `ValidXz`, and the DECLARATIVE
    grammar `DValidXz` of Props/C03Container.lean, which does not mention the Block decoder (via `xz_decode_exact_std`). -/
theorem xz_roundtrip_std (p : Lzma.Props) (parser : Parser) (cfg : Cfg) (blocks : List (List UInt8)) (out : List UInt8)
    (fl : Flags) (cap : Nat) (hfs : xzChain p cfg.filters = true)
    (hin : ∀ d ∈ blocks, d ≠ [] → GoodInput p parser cfg.filters d)
    (henc : streamEncodeST (stdEncEnv p parser) cfg blocks = .ok out) (hcap : blocks.flatten.length ≤ cap) :
    xzDecode stdEnv fl out cap
      = { ret := .streamEnd, out := blocks.flatten, consumed := out.length, events := headerEvents stdEnv fl cfg.check }
    ∧ ValidXz stdEnv fl out cap blocks.flatten out.length ∧ DValidXz stdEnv fl out cap blocks.flatten out.length := by
  obtain ⟨hw, n, hchain⟩ := xzChain_wf p cfg.filters hfs
  have h := streamEncodeST_decodes_on stdEnv (stdEncEnv p parser) cfg blocks out fl cap n hw hchain (check_agrees_std p parser)
    (GoodInput p parser cfg.filters) (payload_contract_std_on p parser cfg.filters hfs) hin henc hcap
  exact ⟨h, grammar_of_decode fl out cap _ _ h⟩

/-- **xz_roundtrip_std** for the single-call encoders (`lzma_stream_buffer_encode`, `lzma_easy_buffer_encode`), INCLUDING the
    case where the LZMA2 output did not fit into `min(space left, lzma2_bound(n))` and the Block was rewritten as uncompressed
    LZMA2 chunks under a header naming LZMA2 with the minimum dictionary; nothing is written past `out_size`. -/
theorem xz_roundtrip_std_buffer (p : Lzma.Props) (parser : Parser) (cfg : Cfg) (data out : List UInt8) (avail : Nat)
    (fl : Flags) (cap : Nat) (hfs : xzChain p cfg.filters = true)
    (hin : data ≠ [] → GoodInput p parser cfg.filters data)
    (henc : streamBufferEncode (stdEncEnv p parser) cfg data avail = .ok out) (hcap : data.length ≤ cap) :
    xzDecode stdEnv fl out cap
      = { ret := .streamEnd, out := data, consumed := out.length, events := headerEvents stdEnv fl cfg.check }
    ∧ ValidXz stdEnv fl out cap data out.length ∧ DValidXz stdEnv fl out cap data out.length ∧ out.length ≤ avail := by
  obtain ⟨hw, n, hchain⟩ := xzChain_wf p cfg.filters hfs
  obtain ⟨h, hle⟩ := streamBufferEncode_decodes_on stdEnv (stdEncEnv p parser) cfg data out avail fl cap n hw hchain
    (check_agrees_std p parser) (GoodInput p parser cfg.filters) (payload_contract_std_on p parser cfg.filters hfs)
    uncomp_contract_std hin henc hcap
  exact ⟨h, (grammar_of_decode fl out cap _ _ h).1, (grammar_of_decode fl out cap _ _ h).2, hle⟩

/-- **xz_roundtrip_std** for the container part of the threaded encoder (`lzma_stream_encoder_mt`: a new Block every
    `blockSize` bytes and at every flush, Block Headers with both size fields written late into reserved space, per-Block
    uncompressed fall-back; the Blocks in input order, which is C08).  The parser's contract is asked of every Block-sized
    piece (`chunksOf`). -/
theorem xz_roundtrip_std_mt (p : Lzma.Props) (parser : Parser) (cfg : Cfg) (blockSize : Nat) (pieces : List (List UInt8))
    (out : List UInt8) (fl : Flags) (cap : Nat) (hfs : xzChain p cfg.filters = true)
    (hin : ∀ d ∈ (pieces.flatMap fun q => chunksOf blockSize q.length q), d ≠ [] → GoodInput p parser cfg.filters d)
    (henc : streamEncodeMT (stdEncEnv p parser) cfg blockSize pieces = .ok out) (hcap : pieces.flatten.length ≤ cap) :
    xzDecode stdEnv fl out cap
      = { ret := .streamEnd, out := pieces.flatten, consumed := out.length, events := headerEvents stdEnv fl cfg.check }
    ∧ ValidXz stdEnv fl out cap pieces.flatten out.length ∧ DValidXz stdEnv fl out cap pieces.flatten out.length := by
  obtain ⟨hw, n, hchain⟩ := xzChain_wf p cfg.filters hfs
  have h := streamEncodeMT_decodes_on stdEnv (stdEncEnv p parser) cfg blockSize pieces out fl cap n hw hchain
    (check_agrees_std p parser) (GoodInput p parser cfg.filters) (payload_contract_std_on p parser cfg.filters hfs)
    uncomp_contract_std hin henc hcap
  exact ⟨h, grammar_of_decode fl out cap _ _ h⟩

/-- The C02 theorems themselves, instantiated (all-inputs form of the parser's contract, chains without x86):
    `C02.encoder_output_valid`, `_buffer`, `_mt` apply to `stdEnv` / `stdEncEnv` with every hypothesis discharged. -/
theorem c02_hypotheses_discharged (p : Lzma.Props) (parser : Parser) (cfg : Cfg) (hfs : xzChain p cfg.filters = true)
    (hparser : ∀ x, Accepts p parser cfg.filters x) (hx86 : cfg.filters.any isX86 = false) :
    (∀ o ∈ cfg.filters, o.wf) ∧ (∃ n, validateChain (cfg.filters.map (·.id)) = .ok n) ∧
    CheckAgrees stdEnv (stdEncEnv p parser) ∧ PayloadContract stdEnv (stdEncEnv p parser) cfg.filters ∧ UncompContract stdEnv :=
  ⟨(xzChain_wf p cfg.filters hfs).1, (xzChain_wf p cfg.filters hfs).2, check_agrees_std p parser,
    payload_contract_std p parser cfg.filters hfs hparser hx86, uncomp_contract_std⟩

/-- **alone_roundtrip_std** (.lzma).  `lzma_alone_encoder` over the executable LZMA1 encoder model (end marker, the
    dictionary size field rounded up by `alone_encoder.c`), then `lzma_alone_decoder` (not the picky mode of the auto decoder;
    memory limit permitting) over the executable LZMA1 decoder model `C16.lzmaPayload`, which runs with the STORED (larger)
    dictionary size: LZMA_STREAM_END, exactly the data, every byte consumed.  `hacc` is the parser's contract = hypothesis
    `h` of `C01.lzma1_model_roundtrip`; `hlen` keeps the data below the model's "unlimited" output space of 2^62 bytes. -/
theorem alone_roundtrip_std (p : Lzma.Props) (parser : Parser) (lc lp pb dict : Nat) (data out : List UInt8) (cfg : Alone.Cfg)
    (hnp : cfg.picky = false) (hmem : cfg.memK + aloneDictField dict ≤ Alone.effMemlimit cfg.memlimit)
    (hacc : ∃ res, lzma1Encode { lc := lc, lp := lp, pb := pb } dict true 0 (toBuf data) 0
              (parser { lc := lc, lp := lp, pb := pb } dict (toBuf data)) = .ok res)
    (hlen : data.length < Lzma.UNLIMITED)
    (h : aloneEncode (stdEncEnv p parser) lc lp pb dict data = .ok out) :
    Alone.aloneDecode C16.lzmaPayload cfg out = { ret := .streamEnd, out := data, consumed := out.length } := by
  obtain ⟨res, hres⟩ := hacc
  -- `lzma_raw_encoder_init` said OK
  have hinit : rawInitStd p [.lzma1 FILTER_LZMA1 lc lp pb dict] = .ok := by
    unfold aloneEncode at h
    cases hb : lclppbEncode lc lp pb with
    | none => simp [hb] at h
    | some b =>
      simp only [hb] at h
      by_cases g1 : dict < DICT_SIZE_MIN
      · rw [if_pos g1] at h; simp at h
      rw [if_neg g1] at h
      by_cases g2 : (stdEncEnv p parser).rawInit [.lzma1 FILTER_LZMA1 lc lp pb dict] ≠ .ok
      · rw [if_pos g2] at h; simp at h
      · exact Decidable.not_not.mp g2
  obtain ⟨-, hv, hd⟩ := rawInitStd_lzma1 p _ lc lp pb dict hinit
  have hdb := dictOk_bounds dict hd
  have hd32 : dict < 4294967296 := by omega
  have hp : LzmaSym.PropsOk { lc := lc, lp := lp, pb := pb } := by
    have hv' := of_decide_eq_true hv
    simp only [LCLP_MAX, PB_MAX] at hv'
    exact ⟨hv'.2.2.1, hv'.2.2.2⟩
  have hpay : (stdEncEnv p parser).encPayload [.lzma1 FILTER_LZMA1 lc lp pb dict] data = res.out := by
    show (rawEncode p parser [.lzma1 FILTER_LZMA1 lc lp pb dict] data).getD [] = res.out
    simp [rawEncode, applyPre, lastEnc, hres]
  refine C02.alone_output_valid C16.lzmaPayload (stdEncEnv p parser) lc lp pb dict data out cfg hd32 hnp hmem ?_ h
  rw [hpay]
  have hrt := lzma1_roundtrip_mono { lc := lc, lp := lp, pb := pb } hp dict (aloneDictField dict) (aloneDictField_ge dict hd32)
    (by have := aloneDictField_lt dict hd32; omega) data _ res hres Lzma.UNLIMITED hlen
  unfold C16.lzmaPayload
  simp only [Alone.aloneOpts, if_true]
  rw [hrt]
  rfl

/-! ## 3. non-vacuity: a small multi-Block file, literal-only parser and a match, evaluated by the kernel

  `lzma2Encode` is written with `while` loops (`Lean.Loop.forIn`), which the kernel cannot run; its twin
  `LzmaExec.lzma2EncodeK` runs the same loop bodies with explicit fuel and is proved to imply the original
  (Lemmas/E2EKernel.lean: `lzma2Encode_of_K`).  So: each piece's Compressed Data is evaluated once by the kernel
  (`exTable_ok`), which gives the parser's contract for the piece AND lets the Stream be assembled from a payload table
  (`E2E.stream_of_table`); then every hypothesis of `xz_roundtrip_std` is in hand.  More examples (delta + BCJ chain,
  SHA-256, single-call encoder with the uncompressed fall-back, .lzma): Props/C01EndToEndEx.lean. -/

def exP : Lzma.Props := { lc := 0, lp := 0, pb := 0 }

/-- literals only — except for a 9-byte input: first byte by `encode_init`, then ONE match of length 8 at distance 1
    (`back = dist + REPS = 4`) -/
def exParser : Parser := fun p d buf =>
  if buf.size = 9 then #[{ kind := 0, back := 4, len := 8, pos := 1, ra := 0 }] else literalParser p d buf

def exCfg : Cfg := { check := 1, filters := [.lzma2 4096] }

/-- "ab" (two literals: does not compress, the chunker stores it), an empty piece (no Block), "aaaaaaaaa" (an LZMA chunk) -/
def exBlocks : List (List UInt8) := [[0x61, 0x62], [], List.replicate 9 0x61]

def exTable : List (List UInt8 × List UInt8) :=
  [([0x61, 0x62], [1, 0, 1, 97, 98, 0]), ([], [0]),
   (List.replicate 9 0x61, [224, 0, 8, 0, 6, 0, 0, 48, 205, 156, 0, 0, 0, 0])]

/-- the 92-byte file (two Blocks, CRC32) -/
def exOut : List UInt8 :=
  [253, 55, 122, 88, 90, 0, 0, 1, 105, 34, 222, 54, 2, 0, 33, 1, 0, 0, 0, 0, 55, 39, 151, 214, 1, 0, 1, 97, 98,
   0, 0, 0, 109, 72, 131, 158, 2, 0, 33, 1, 0, 0, 0, 0, 55, 39, 151, 214, 224, 0, 8, 0, 6, 0, 0, 48, 205, 156, 0, 0, 0, 0,
   0, 0, 102, 222, 183, 119, 0, 2, 22, 2, 30, 9, 0, 0, 133, 103, 229, 226, 62, 48, 13, 139, 2, 0, 0, 0, 0, 1, 89, 90]

/-- kernel: the chunker's output for each piece (uncompressed chunk / end marker only / LZMA chunk `E0 …` with a
    6-byte range-coder payload) -/
theorem exTable_ok : ∀ e ∈ exTable, rawEncodeK exP exParser exCfg.filters e.1 = some e.2 := by decide +kernel

theorem exTable_covers : ∀ d ∈ exBlocks, (exTable.find? (fun e => e.1 == d)).isSome = true := by decide +kernel

/-- kernel: the container around these payloads -/
theorem exOut_table : streamEncodeST (tableEnv exP exTable) exCfg exBlocks = .ok exOut := by decide +kernel

/-- the supported-chain hypothesis, the parser's contract on every piece, and the encoder's result -/
theorem ex_hypotheses :
    xzChain exP exCfg.filters = true ∧ (∀ d ∈ exBlocks, d ≠ [] → GoodInput exP exParser exCfg.filters d) ∧
    streamEncodeST (stdEncEnv exP exParser) exCfg exBlocks = .ok exOut := by
  obtain ⟨hacc, henc⟩ := stream_of_table exP exParser exCfg exBlocks exTable exTable_ok exTable_covers
  exact ⟨by decide, fun d hd _ => ⟨hacc d hd, fun h => by simp [exCfg, isX86] at h⟩, by rw [henc]; exact exOut_table⟩

/-- **non-vacuity of `xz_roundtrip_std`**: all its hypotheses hold for the example, so the file decodes to the eleven bytes -/
theorem ex_roundtrip :
    xzDecode stdEnv {} exOut = { ret := .streamEnd, out := exBlocks.flatten, consumed := exOut.length,
                                 events := headerEvents stdEnv {} exCfg.check } :=
  (xz_roundtrip_std exP exParser exCfg exBlocks exOut {} UNLIMITED ex_hypotheses.1 ex_hypotheses.2.1 ex_hypotheses.2.2
    (by decide)).1

/-- … and independently of every theorem above: the kernel RUNS the decoder model on the 92 bytes -/
example : xzDecode stdEnv {} exOut = { ret := .streamEnd, out := [0x61, 0x62] ++ List.replicate 9 0x61, consumed := 92 } := by
  decide +kernel

end XzVerif.C01E2E
