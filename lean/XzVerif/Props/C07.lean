/-
  C07 — threaded decompression is equivalent to single-threaded under every schedule.
  Theorems about the labelled transition system Model/MtDec.lean; "every schedule" = every reachable state (`Reachable`
  quantifies over all interleavings of main-thread, worker and environment transitions, including spurious wake-ups and
  expiry of the timed wait). Proofs are in Lemmas/MtDec*.lean.
-/
import XzVerif.Lemmas.MtDecFinal

namespace XzVerif.C07
open XzVerif.MtDec

/-- Every item of the input satisfies the Block decoder contract. -/
def WFInput (blocks : List Block) : Prop := ∀ b ∈ blocks, b.WF

/-- **Invariant.** In every reachable state in which no fatal value is on its way out, the data invariant (queue order =
    Block order, everything before the head delivered and good, finished outbufs complete and carrying their Block's verdict,
    each owning worker owns exactly one unfinished outbuf, free-list members idle / unfailed / owning nothing) and the control
    invariant hold. (`DataInv`, `CtlInv` in Lemmas/MtDecInv.lean, MtDecCtl.lean.) -/
theorem mtdec_inv (cfg : Cfg) (blocks : List Block) (hwf : WFInput blocks) (s : State)
    (hr : Reachable cfg blocks s) (hx : exitCode s = none) : DataInv s ∧ CtlInv s :=
  (GInv.reachable hwf hr).inv hx

/-- Queue order = Block order: the outbufs carry consecutive item numbers ending just below the cursor. -/
theorem mtdec_queue_order (cfg : Cfg) (blocks : List Block) (hwf : WFInput blocks) (s : State)
    (hr : Reachable cfg blocks s) (hx : exitCode s = none) :
    Consec (s.cur - s.queue.length) s.queue ∧ s.queue.length ≤ s.cur :=
  let h := (mtdec_inv cfg blocks hwf s hr hx).1
  ⟨h.consec, h.lenLe⟩

/-- A finished outbuf is final: it holds all the output of its Block, carries the Block decoder's verdict, and no worker
    owns it any more (so nobody can write to it). -/
theorem mtdec_finished_final (cfg : Cfg) (blocks : List Block) (hwf : WFInput blocks) (s : State)
    (hr : Reachable cfg blocks s) (hx : exitCode s = none) (o : Outbuf) (ho : o ∈ s.queue) (hf : o.finished = true) :
    o.pos = (blk s o.blk).data.length ∧ o.finishRet = (blk s o.blk).ret ∧
    ∀ i, i < s.workers.length → (getW s i).hasOut = true → (getW s i).blk ≠ o.blk := by
  have h := (mtdec_inv cfg blocks hwf s hr hx).1
  refine ⟨(h.fin o ho hf).1, (h.fin o ho hf).2, ?_⟩
  intro i hi hown e
  have := ((h.wk i hi).has hown).2.2 o ho e.symm
  rw [hf] at this; exact absurd this.1 (by simp)

/-- Workers that finished a Block with an error are never in the free list, and free-list members own no outbuf. -/
theorem mtdec_failed_not_free (cfg : Cfg) (blocks : List Block) (hwf : WFInput blocks) (s : State)
    (hr : Reachable cfg blocks s) (hx : exitCode s = none) (i : Nat) (hi : i ∈ s.threadsFree) :
    (getW s i).failed = false ∧ (getW s i).hasOut = false ∧ (getW s i).st ≠ .run :=
  let h := ((mtdec_inv cfg blocks hwf s hr hx).1.free i hi)
  ⟨h.2.2.2.1, h.2.1, h.2.2.2.2⟩

/-- **Output prefix.** Under every schedule, whatever has been delivered to the application is a prefix of what the
    single-threaded decoder delivers for the same input. Holds with and without LZMA_FAIL_FAST. -/
theorem mtdec_output_prefix (cfg : Cfg) (blocks : List Block) (hwf : WFInput blocks) (s : State)
    (hr : Reachable cfg blocks s) : s.delivered <+: stOutput blocks :=
  (GInv.reachable hwf hr).pre

/-- With fail-fast the status may come earlier, but the output is still a prefix of the correct data. -/
theorem mtdec_failfast_prefix (cfg : Cfg) (blocks : List Block) (hwf : WFInput blocks) (hff : cfg.failFast = true)
    (s : State) (hr : Reachable cfg blocks s) : s.delivered <+: stOutput blocks := by
  have _ := hff
  exact mtdec_output_prefix cfg blocks hwf s hr

/-- **Final equivalence.** Without LZMA_FAIL_FAST, under every schedule: if stream_decode_mt has returned a final value `r`
    (anything but LZMA_OK / LZMA_TIMED_OUT), then `r` is the single-threaded decoder's status and the delivered bytes are
    exactly the single-threaded decoder's output. In particular errors are reported only after all earlier output. -/
theorem mtdec_final_equiv (cfg : Cfg) (blocks : List Block) (hwf : WFInput blocks) (hff : cfg.failFast = false)
    (s : State) (hr : Reachable cfg blocks s) (r : Ret) (hret : s.returned = some r) :
    r = stStatus blocks ∧ s.delivered = stOutput blocks := by
  have hx : exitCode s = some r := by simp [exitCode, hret]
  have := (GInv2.reachable hwf hr).fin hff r hx
  unfold stStatus stOutput
  rw [← this]; exact ⟨rfl, rfl⟩

/-- The same already holds while the fatal value is on its way out (threads_stop still running). -/
theorem mtdec_final_equiv_early (cfg : Cfg) (blocks : List Block) (hwf : WFInput blocks) (hff : cfg.failFast = false)
    (s : State) (hr : Reachable cfg blocks s) (r : Ret) (hx : exitCode s = some r) :
    r = stStatus blocks ∧ s.delivered = stOutput blocks := by
  have := (GInv2.reachable hwf hr).fin hff r hx
  unfold stStatus stOutput
  rw [← this]; exact ⟨rfl, rfl⟩

/-- The pending-error placeholder (LZMA_PROG_ERROR written by read_output_and_wait) never leaks: whenever it is set, a
    failed finished outbuf is still in the queue and will be returned first. -/
theorem mtdec_flag_never_leaks (cfg : Cfg) (blocks : List Block) (hwf : WFInput blocks) (s : State)
    (hr : Reachable cfg blocks s) (hx : exitCode s = none) (hp : s.pend = .flag) :
    ∃ o ∈ s.queue, o.finished = true ∧ o.finishRet ≠ END :=
  let e := (GInv2.reachable hwf hr).err hx
  e.e1 (e.e2 hp)

end XzVerif.C07
