/-
  C07 — threaded decompression is equivalent to single-threaded under every schedule.
  Theorems about the labelled transition system Model/MtDec.lean; "every schedule" = every reachable state (`Reachable`
  quantifies over all interleavings of main-thread, worker and environment transitions, including spurious wake-ups and
  expiry of the timed wait). Proofs are in Lemmas/MtDec*.lean.
-/
import XzVerif.Lemmas.MtDecProgress3
import XzVerif.Lemmas.MtDecMem
import XzVerif.Gen.C07

namespace XzVerif.C07
open XzVerif.MtDec

-- ---------------------------------------------------------------------------------------------
-- bridge: the protocol constants of the source (regenerated into Gen/C07.lean on every run) are the model's
-- ---------------------------------------------------------------------------------------------

theorem gen_chunk_size : Gen.C07.chunkSize = MtDec.chunkSize := by decide
theorem gen_bufs_limit : Gen.C07.bufsLimitFactor = MtDec.bufsLimitFactor := by decide
theorem gen_ret_codes : Gen.C07.retOK = OK ∧ Gen.C07.retStreamEnd = END ∧ Gen.C07.retDataError = DATA_ERROR ∧
    Gen.C07.retProgError = PROG_ERROR ∧ Gen.C07.retTimedOut = TIMED_OUT ∧ Gen.C07.retMemlimitError = 6 := by decide
/-- worker_state / partial_update_mode have the constructors of `WSt` / `PU` in the same order (the driver compares the
    numeric value of partial_update), and coder->sequence still has the twelve states the model's `Seq` was written from. -/
theorem gen_enums : Gen.C07.workerStates = ["THR_IDLE", "THR_RUN", "THR_EXIT"] ∧
    Gen.C07.partialUpdateModes = ["PARTIAL_DISABLED", "PARTIAL_START", "PARTIAL_ENABLED"] ∧
    Gen.C07.sequences = ["SEQ_STREAM_HEADER", "SEQ_BLOCK_HEADER", "SEQ_BLOCK_INIT", "SEQ_BLOCK_THR_INIT", "SEQ_BLOCK_THR_RUN",
      "SEQ_BLOCK_DIRECT_INIT", "SEQ_BLOCK_DIRECT_RUN", "SEQ_INDEX_WAIT_OUTPUT", "SEQ_INDEX_DECODE", "SEQ_STREAM_FOOTER",
      "SEQ_STREAM_PADDING", "SEQ_ERROR"] := by decide

/-- Every item of the input satisfies the Block decoder contract. -/
def WFInput (blocks : List Block) : Prop := ∀ b ∈ blocks, b.WF

/-- **Invariant.** In every reachable state in which no fatal value is on its way out, the data invariant (queue order =
    Block order, everything before the head delivered and good, finished outbufs complete and carrying their Block's verdict,
    each owning worker owns exactly one unfinished outbuf, free-list members idle / unfailed / owning nothing) and the control
    invariant hold. (`DataInv`, `CtlInv` in Lemmas/MtDecInv.lean, MtDecCtl.lean.) -/
theorem mtdec_inv (cfg : Cfg) (blocks : List Block) (hwf : WFInput blocks) (s : State)
    (hr : Reachable cfg blocks s) (hx : exitCode s = none) : DataInv s ∧ CtlInv s :=
  (GInv.reachable hwf hr).inv hx

/-- Queue order = Block order: the outbufs carry consecutive item numbers ending just below the cursor. -/
theorem mtdec_queue_order (cfg : Cfg) (blocks : List Block) (hwf : WFInput blocks) (s : State)
    (hr : Reachable cfg blocks s) (hx : exitCode s = none) :
    Consec (s.cur - s.queue.length) s.queue ∧ s.queue.length ≤ s.cur :=
  let h := (mtdec_inv cfg blocks hwf s hr hx).1
  ⟨h.consec, h.lenLe⟩

/-- A finished outbuf is final: it holds all the output of its Block, carries the Block decoder's verdict, and no worker
    owns it any more (so nobody can write to it). -/
theorem mtdec_finished_final (cfg : Cfg) (blocks : List Block) (hwf : WFInput blocks) (s : State)
    (hr : Reachable cfg blocks s) (hx : exitCode s = none) (o : Outbuf) (ho : o ∈ s.queue) (hf : o.finished = true) :
    o.pos = (blk s o.blk).data.length ∧ o.finishRet = (blk s o.blk).ret ∧
    ∀ i, i < s.workers.length → (getW s i).hasOut = true → (getW s i).blk ≠ o.blk := by
  have h := (mtdec_inv cfg blocks hwf s hr hx).1
  refine ⟨(h.fin o ho hf).1, (h.fin o ho hf).2, ?_⟩
  intro i hi hown e
  have := ((h.wk i hi).has hown).2.2 o ho e.symm
  rw [hf] at this; exact absurd this.1 (by simp)

/-- Workers that finished a Block with an error are never in the free list, and free-list members own no outbuf. -/
theorem mtdec_failed_not_free (cfg : Cfg) (blocks : List Block) (hwf : WFInput blocks) (s : State)
    (hr : Reachable cfg blocks s) (hx : exitCode s = none) (i : Nat) (hi : i ∈ s.threadsFree) :
    (getW s i).failed = false ∧ (getW s i).hasOut = false ∧ (getW s i).st ≠ .run :=
  let h := ((mtdec_inv cfg blocks hwf s hr hx).1.free i hi)
  ⟨h.2.2.2.1, h.2.1, h.2.2.2.2⟩

/-- **Output prefix.** Under every schedule, whatever has been delivered to the application is a prefix of what the
    single-threaded decoder delivers for the same input. Holds with and without LZMA_FAIL_FAST (with it the status may come
    earlier and need not be the single-threaded one; nothing more is claimed for that mode). -/
theorem mtdec_output_prefix (cfg : Cfg) (blocks : List Block) (hwf : WFInput blocks) (s : State)
    (hr : Reachable cfg blocks s) : s.delivered <+: stOutput blocks :=
  (GInv.reachable hwf hr).pre

/-- **Final equivalence.** Without LZMA_FAIL_FAST, under every schedule: if stream_decode_mt has returned a final value `r`
    (anything but LZMA_OK / LZMA_TIMED_OUT), then `r` is the single-threaded decoder's status and the delivered bytes are
    exactly the single-threaded decoder's output. In particular errors are reported only after all earlier output. -/
theorem mtdec_final_equiv (cfg : Cfg) (blocks : List Block) (hwf : WFInput blocks) (hff : cfg.failFast = false)
    (s : State) (hr : Reachable cfg blocks s) (r : Ret) (hret : s.returned = some r) :
    r = stStatus blocks ∧ s.delivered = stOutput blocks := by
  have hx : exitCode s = some r := by simp [exitCode, hret]
  have := (GInv2.reachable hwf hr).fin hff r hx
  unfold stStatus stOutput
  rw [← this]; exact ⟨rfl, rfl⟩

/-- The same already holds while the fatal value is on its way out (threads_stop still running). -/
theorem mtdec_final_equiv_early (cfg : Cfg) (blocks : List Block) (hwf : WFInput blocks) (hff : cfg.failFast = false)
    (s : State) (hr : Reachable cfg blocks s) (r : Ret) (hx : exitCode s = some r) :
    r = stStatus blocks ∧ s.delivered = stOutput blocks := by
  have := (GInv2.reachable hwf hr).fin hff r hx
  unfold stStatus stOutput
  rw [← this]; exact ⟨rfl, rfl⟩

/-- The pending-error placeholder (LZMA_PROG_ERROR written by read_output_and_wait) never leaks: whenever it is set, a
    failed finished outbuf is still in the queue and will be returned first. -/
theorem mtdec_flag_never_leaks (cfg : Cfg) (blocks : List Block) (hwf : WFInput blocks) (s : State)
    (hr : Reachable cfg blocks s) (hx : exitCode s = none) (hp : s.pend = .flag) :
    ∃ o ∈ s.queue, o.finished = true ∧ o.finishRet ≠ END :=
  let e := (GInv2.reachable hwf hr).err hx
  e.e1 (e.e2 hp)

/-- **thr->in is never freed while the main thread may still write it** (the CVE-2025-31115 shape). Under every schedule,
    whenever the main thread copies at least one input byte into the buffer of the worker it is feeding, that buffer is
    allocated: a worker frees its input buffer only after a successful verdict, which needs the complete input, or when
    threads_end has told it to exit, and then the main thread is not copying. -/
theorem mtdec_in_not_freed (cfg : Cfg) (blocks : List Block) (hwf : WFInput blocks) (s s' : State)
    (hr : Reachable cfg blocks s) (k : Nat) (n : Bool) (hk : 0 < k) (hs : step s (.copyIn k n) = some s') :
    ∃ t, s.thr = some t ∧ (getW s t).inAlloc = true :=
  in_allocated_when_written hwf hr k n hk hs

/-- No worker is exiting (THR_EXIT seen or set) unless threads_end is running; so a worker structure is only torn down
    after the main thread has decided to join it. -/
theorem mtdec_end_only_in_threads_end (cfg : Cfg) (blocks : List Block) (hwf : WFInput blocks) (s : State)
    (hr : Reachable cfg blocks s) (hx : exitCode s = none) (i : Nat) (hi : i < s.workers.length)
    (he : (getW s i).st = .exit ∨ (getW s i).pc = .cleanup ∨ (getW s i).pc = .exited) : isEnding s.pc :=
  (AllocInv.reachable hwf hr hx).noExit ⟨i, hi, he⟩

/-- **No lost wake-up.** Under every schedule: a worker that sits in cond_wait(thr->cond) without a pending signal is idle,
    or is running with all its input consumed and no freshly requested partial update; the main thread sitting in
    cond_wait(coder->cond) without a pending signal has a non-empty queue whose head offers nothing to read and is unfinished,
    the last worker is not stalled, and (if it asked) the next Block still cannot start. Hence every transition that makes one
    of these wait conditions false has signalled the matching condition variable — inside the critical section of the mutex the
    waiter re-checks under, since a transition of the model is such a critical section. -/
theorem mtdec_no_lost_wakeup (cfg : Cfg) (blocks : List Block) (hwf : WFInput blocks) (s : State)
    (hr : Reachable cfg blocks s) :
    (∀ i, i < s.workers.length → (getW s i).pc = .wait → (getW s i).woken = false →
        (getW s i).st = .idle ∨ ((getW s i).st = .run ∧ (getW s i).inFilled = (getW s i).inPos ∧ (getW s i).pu ≠ .start)) ∧
    (∀ k w, s.pc = .rowWait k w → s.mwoken = false → MainIdle s k) := by
  have h := WakeInv.reachable hwf hr
  refine ⟨?_, h.main⟩
  intro i hi hp hw
  rcases h.wk i hi hp with e | e | e
  · rw [hw] at e; cases e
  · exact Or.inl e
  · exact Or.inr e

/-- Every thread is blocked: the main thread waits un-signalled in read_output_and_wait and every worker waits un-signalled or
    has exited. -/
def AllBlocked (s : State) : Prop :=
  (∃ k w, s.pc = .rowWait k w ∧ s.mwoken = false) ∧
  ∀ i, i < s.workers.length → ((getW s i).pc = .wait ∧ (getW s i).woken = false) ∨ (getW s i).pc = .exited

/-- **Deadlock freedom.** Under every schedule, in every reachable state other than the final one (lzma_end completed) some
    transition is enabled that is neither a spurious wake-up nor the expiry of a timed wait; and unless the main thread is
    back in the application (`idle`, where the application's next lzma_code / lzma_end is that transition) it is a transition
    of the library itself. So the library never depends on a timeout to get going again, with any `timeout` setting. -/
theorem mtdec_no_deadlock (cfg : Cfg) (blocks : List Block) (hwf : WFInput blocks) (s : State)
    (hr : Reachable cfg blocks s) (hne : s.pc ≠ .ended) :
    ∃ l s', step s l = some s' ∧ l.isExpiry = false ∧ (s.pc ≠ .idle → l.isApp = false) := by
  obtain ⟨l, s', hs, he⟩ := progress hwf hr hne
  refine ⟨l, s', hs, he, ?_⟩
  intro hi
  cases l <;> first | rfl | (exfalso; simp only [step] at hs; revert hs; simp [hi])

/-- The all-blocked state is unreachable: whenever the main thread waits un-signalled in read_output_and_wait, some worker
    is neither waiting un-signalled nor exited (namely the owner of the head outbuf, `head_owner_not_blocked`). -/
theorem mtdec_not_all_blocked (cfg : Cfg) (blocks : List Block) (hwf : WFInput blocks) (s : State)
    (hr : Reachable cfg blocks s) : ¬ AllBlocked s := by
  rintro ⟨⟨k, w, hp, hm⟩, hws⟩
  obtain ⟨i, hi, h1, h2⟩ := some_worker_runs hwf hr hp hm
  rcases hws i hi with e | e
  · exact h1 e
  · exact h2 e

/-- Every worker that has not exited and is not waiting un-signalled has an enabled transition (a worker never blocks
    anywhere but in its cond_wait). -/
theorem mtdec_worker_progress (cfg : Cfg) (blocks : List Block) (hwf : WFInput blocks) (s : State)
    (hr : Reachable cfg blocks s) (i : Nat) (hi : i < s.workers.length) (hx : (getW s i).pc ≠ .exited)
    (hw : ¬((getW s i).pc = .wait ∧ (getW s i).woken = false)) :
    ∃ l s', step s l = some s' ∧ l.isExpiry = false :=
  worker_can_step (blk_wf_of_reachable hwf hr) (PrivInv.reachable hwf hr) i hi hx hw

/-- What a blocked main thread sees (the content of `mtdec_no_lost_wakeup`, repackaged; kept because the trace inclusion
    checks exactly these conditions at every cond_wait of the C code). -/
theorem mtdec_blocked_main_view (cfg : Cfg) (blocks : List Block) (hwf : WFInput blocks) (s : State)
    (hr : Reachable cfg blocks s) (k : RowK) (w : Bool) (hp : s.pc = .rowWait k w) (hm : s.mwoken = false) :
    MainIdle s k := (mtdec_no_lost_wakeup cfg blocks hwf s hr).2 k w hp hm

/-- **Early lzma_end is safe.** Under every schedule: (1) while threads_end is joining worker `j`, every worker has been
    told to exit and all workers below `j` have exited; (2) an exited worker has no enabled transition, and while joining the
    main thread's only transition is the join itself, so nothing touches the structures of a joined worker; (3) the final
    state, in which the worker array and the queue are freed, is entered only when every worker has exited. -/
theorem mtdec_end_safe (cfg : Cfg) (blocks : List Block) (s : State) (hr : Reachable cfg blocks s) :
    (∀ j k, s.pc = .endJoin j k →
        (∀ i, i < s.workers.length → (getW s i).st = .exit) ∧
        (∀ i, i < j → i < s.workers.length → (getW s i).pc = .exited) ∧
        (∀ l s', step s l = some s' → l = .endJoin ∨ (l.worker?).isSome = true)) ∧
    (∀ i l, l.worker? = some i → (getW s i).pc = .exited → step s l = none) ∧
    (∀ s', step s .endJoin = some s' → s'.pc = .ended → ∀ i, i < s.workers.length → (getW s i).pc = .exited) := by
  have hE := EndInv.reachable hr
  refine ⟨?_, ?_, ?_⟩
  · intro j k hp
    exact ⟨(hE.join j k hp).1, (hE.join j k hp).2, fun l s' hs => joining_only_workers hp hs⟩
  · intro i l hl hp
    exact exited_stuck hl hp
  · intro s' hs hp i hi
    simp only [step] at hs
    split at hs
    case h_2 => cases hs
    rename_i j k hpc
    split at hs
    · split at hs
      · cases hs; cases hp
      · cases hs
    · rename_i hlen
      exact (hE.join j k hpc).2 i (by omega) hi

/-- **Memory bound.** Under every schedule coder->mem_in_use plus the memory of the queued outbufs — plus, between the
    moment read_output_and_wait lets the next Block in and the moment its outbuf is queued, what that Block will take
    (`pendMem`) — never exceeds memlimit_threading. Hence the subtraction `memlimit_threading - mem_in_use - outq.mem_in_use`
    in the can-start test never wraps (second conjunct), which is what makes the model's natural-number arithmetic agree with
    the C code's uint64_t arithmetic. (That mem_in_use is exactly the sum over the busy and failed workers is not proved; the
    trace inclusion compares the model's `memInUse` with the implementation's counter at every Block start, event 109, and the
    can-start decision at every read_output_and_wait exit, event 134.) -/
theorem mtdec_mem_bound (cfg : Cfg) (blocks : List Block) (s : State) (hr : Reachable cfg blocks s) :
    s.memInUse + outqMem s + pendMem s ≤ s.cfg.memLimit ∧
    (s.cfg.memLimit - s.memInUse - outqMem s) + s.memInUse + outqMem s = s.cfg.memLimit := by
  have h : MemInv s := MemInv.reachable hr
  unfold MemInv at h
  refine ⟨h, ?_⟩
  omega

/-- **The main thread never waits while the last worker is stalled.** `stalled` is the model's rendering of the rule
    "thr->in_filled == decoder_in_pos published by the worker and no output to read": in that situation
    read_output_and_wait returns instead of waiting, so an application that stops supplying input in the middle of a Block gets
    control back (LZMA_OK without progress; the LZMA_BUF_ERROR after repeated no-progress calls is produced by lzma_code's
    wrapper, which is C11's model, not this one). The full clause of the property text — finitely many LZMA_OK, then
    LZMA_BUF_ERROR — is NOT proved in Lean; the direct oracle checks it on every truncated file and with the pause/poll
    slicing. -/
theorem mtdec_no_wait_when_stalled (cfg : Cfg) (blocks : List Block) (hwf : WFInput blocks) (s : State)
    (hr : Reachable cfg blocks s) (k : RowK) (w : Bool) (hp : s.pc = .rowWait k w) (hm : s.mwoken = false) :
    stalled s = false :=
  ((mtdec_no_lost_wakeup cfg blocks hwf s hr).2 k w hp hm).2.2.1

-- ---------------------------------------------------------------------------------------------
-- non-vacuity: the hypotheses are satisfiable and multi-Block states with several workers in flight are reachable
-- ---------------------------------------------------------------------------------------------

theorem reachable_of_run {cfg : Cfg} {blocks : List Block} : ∀ (ls : List Label) {s s' : State},
    Reachable cfg blocks s → run s ls = some s' → Reachable cfg blocks s'
  | [], s, s', hr, h => by simp only [run, Option.some.injEq] at h; exact h ▸ hr
  | l :: ls, s, s', hr, h => by
    simp only [run] at h
    split at h
    · rename_i s1 hs1; exact reachable_of_run ls (Reachable.step l hr hs1) h
    · cases h

/-- Two good threaded Blocks (3 and 2 bytes of output) followed by Index + Footer. -/
def exBlocks : List Block :=
  [{ kind := .thr, inSize := 8, needIn := 8, data := [1, 2, 3], ret := END, memThr := 10, memOut := 5 },
   { kind := .thr, inSize := 4, needIn := 4, data := [4, 5], ret := END, memThr := 10, memOut := 5 },
   { kind := .sync, ret := END }]

def exCfg : Cfg := { threadsMax := 2, memLimit := 100 }

example : WFInput exBlocks := by
  intro b hb
  simp only [exBlocks, List.mem_cons, List.mem_nil_iff, or_false] at hb
  rcases hb with rfl | rfl | rfl <;> simp [Block.WF, END, OK, TIMED_OUT]

/-- A schedule that starts both Blocks before the first worker has decoded anything: both workers running, two outbufs queued. -/
def exSchedule : List Label :=
  [.call false false 100, .hdrGot, .blockInit, .thrInitEnter, .rowIter .enter, .rowDone, .rowOk, .memUpdate, .getThread,
   .assign, .startThr, .enablePartial, .copyIn 8 false, .tell, .rowIter .enter, .rowDone, .rowOk,
   .hdrGot, .blockInit, .thrInitEnter, .rowIter .enter, .rowDone, .rowOk, .memUpdate, .getThread, .assign, .startThr,
   .enablePartial, .copyIn 4 true, .tell,
   .wLoop 0 .enter, .wLoop 1 .enter]

example : ∃ s, Reachable exCfg exBlocks s ∧ s.queue.length = 2 ∧ s.workers.length = 2 ∧
    (getW s 0).st = .run ∧ (getW s 1).st = .run ∧ exitCode s = none := by
  have h : (run (init exCfg exBlocks) exSchedule).isSome = true := by decide
  match hr : run (init exCfg exBlocks) exSchedule, h with
  | some s, _ =>
    refine ⟨s, reachable_of_run exSchedule Reachable.init hr, ?_⟩
    have e : some s = run (init exCfg exBlocks) exSchedule := hr.symm
    have : (run (init exCfg exBlocks) exSchedule).map (fun s => (s.queue.length, s.workers.length, (getW s 0).st, (getW s 1).st, exitCode s))
        = some (2, 2, .run, .run, none) := by decide
    rw [← e] at this
    simp only [Option.map_some, Option.some.injEq, Prod.mk.injEq] at this
    exact this

/-- The same input decoded to the end under one schedule: the model returns LZMA_STREAM_END with all five bytes. -/
def exScheduleEnd : List Label :=
  exSchedule ++
  [.wDecode 0 8 3 true, .wFin1 0, .wFin2 0, .wFin3 0, .wDecode 1 4 2 true, .wFin1 1, .wFin2 1, .wFin3 1,
   .rowIter .enter, .rowDone, .rowOk, .hdrGot, .indexStep false, .rowIter .enter, .rowDone, .rowOk, .indexStep true, .ret]

example : (run (init exCfg exBlocks) exScheduleEnd).map (fun s => (s.returned, s.delivered)) = some (some END, [1, 2, 3, 4, 5]) := by
  decide

example : stRun exBlocks = ([1, 2, 3, 4, 5], END) := by decide

/-- Error path: the second Block fails after all of its output; under a schedule in which both workers finish before the main
    thread looks, the model returns LZMA_DATA_ERROR after delivering all five bytes, as the single-threaded decoder does. -/
def exBlocksErr : List Block :=
  [{ kind := .thr, inSize := 8, needIn := 8, data := [1, 2, 3], ret := END, memThr := 10, memOut := 5 },
   { kind := .thr, inSize := 4, needIn := 4, data := [4, 5], ret := DATA_ERROR, memThr := 10, memOut := 5 },
   { kind := .sync, ret := END }]

def exScheduleErr : List Label :=
  exSchedule ++
  [.wDecode 0 8 3 true, .wFin1 0, .wFin2 0, .wFin3 0, .wDecode 1 4 2 true, .wFin1 1, .wFin2 1, .wFin3 1,
   .rowIter .enter, .rowDone, .stopOne, .stopOne, .stopOne, .ret]

example : (run (init exCfg exBlocksErr) exScheduleErr).map (fun s => (s.returned, s.delivered)) =
    some (some DATA_ERROR, [1, 2, 3, 4, 5]) := by decide

example : stRun exBlocksErr = ([1, 2, 3, 4, 5], DATA_ERROR) := by decide

end XzVerif.C07
