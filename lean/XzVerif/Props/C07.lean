/-
  C07 — threaded decompression is equivalent to single-threaded under every schedule.
  Theorems about the labelled transition system Model/MtDec.lean; "every schedule" = every reachable state (`Reachable`
  quantifies over all interleavings of main-thread, worker and environment transitions, including spurious wake-ups and
  expiry of the timed wait). Proofs are in Lemmas/MtDec*.lean.
-/
import XzVerif.Lemmas.MtDecTerm5
import XzVerif.Gen.C07

namespace XzVerif.C07
open XzVerif.MtDec

-- ---------------------------------------------------------------------------------------------
-- bridge: the protocol constants of the source (regenerated into Gen/C07.lean on every run) are the model's
-- ---------------------------------------------------------------------------------------------

theorem gen_bufs_limit : Gen.C07.bufsLimitFactor = MtDec.bufsLimitFactor := by decide
theorem gen_ret_codes : Gen.C07.retOK = OK ∧ Gen.C07.retStreamEnd = END ∧ Gen.C07.retDataError = DATA_ERROR ∧
    Gen.C07.retProgError = PROG_ERROR ∧ Gen.C07.retTimedOut = TIMED_OUT ∧ Gen.C07.retMemlimitError = 6 := by decide
/-- worker_state / partial_update_mode have the constructors of `WSt` / `PU` in the same order (the driver compares the
    numeric value of partial_update), and coder->sequence still has the twelve states the model's `Seq` was written from. -/
theorem gen_enums : Gen.C07.workerStates = ["THR_IDLE", "THR_RUN", "THR_EXIT"] ∧
    Gen.C07.partialUpdateModes = ["PARTIAL_DISABLED", "PARTIAL_START", "PARTIAL_ENABLED"] ∧
    Gen.C07.sequences = ["SEQ_STREAM_HEADER", "SEQ_BLOCK_HEADER", "SEQ_BLOCK_INIT", "SEQ_BLOCK_THR_INIT", "SEQ_BLOCK_THR_RUN",
      "SEQ_BLOCK_DIRECT_INIT", "SEQ_BLOCK_DIRECT_RUN", "SEQ_INDEX_WAIT_OUTPUT", "SEQ_INDEX_DECODE", "SEQ_STREAM_FOOTER",
      "SEQ_STREAM_PADDING", "SEQ_ERROR"] := by decide

/-- Every item of the input satisfies the Block decoder contract. -/
def WFInput (blocks : List Block) : Prop := ∀ b ∈ blocks, b.WF

/-- **Invariant.** In every reachable state in which no fatal value is on its way out, the data invariant (queue order =
    Block order, everything before the head delivered and good, finished outbufs complete and carrying their Block's verdict,
    each owning worker owns exactly one unfinished outbuf, free-list members idle / unfailed / owning nothing) and the control
    invariant hold. (`DataInv`, `CtlInv` in Lemmas/MtDecInv.lean, MtDecCtl.lean.) -/
theorem mtdec_inv (cfg : Cfg) (blocks : List Block) (hwf : WFInput blocks) (s : State)
    (hr : Reachable cfg blocks s) (hx : exitCode s = none) : DataInv s ∧ CtlInv s :=
  (GInv.reachable hwf hr).inv hx

/-- Queue order = Block order: the outbufs carry consecutive item numbers ending just below the cursor. -/
theorem mtdec_queue_order (cfg : Cfg) (blocks : List Block) (hwf : WFInput blocks) (s : State)
    (hr : Reachable cfg blocks s) (hx : exitCode s = none) :
    Consec (s.cur - s.queue.length) s.queue ∧ s.queue.length ≤ s.cur :=
  let h := (mtdec_inv cfg blocks hwf s hr hx).1
  ⟨h.consec, h.lenLe⟩

/-- A finished outbuf is final: it holds all the output of its Block, carries the Block decoder's verdict, and no worker
    owns it any more (so nobody can write to it). -/
theorem mtdec_finished_final (cfg : Cfg) (blocks : List Block) (hwf : WFInput blocks) (s : State)
    (hr : Reachable cfg blocks s) (hx : exitCode s = none) (o : Outbuf) (ho : o ∈ s.queue) (hf : o.finished = true) :
    o.pos = (blk s o.blk).data.length ∧ o.finishRet = (blk s o.blk).ret ∧
    ∀ i, i < s.workers.length → (getW s i).hasOut = true → (getW s i).blk ≠ o.blk := by
  have h := (mtdec_inv cfg blocks hwf s hr hx).1
  refine ⟨(h.fin o ho hf).1, (h.fin o ho hf).2, ?_⟩
  intro i hi hown e
  have := ((h.wk i hi).has hown).2.2 o ho e.symm
  rw [hf] at this; exact absurd this.1 (by simp)

/-- Workers that finished a Block with an error are never in the free list, and free-list members own no outbuf. -/
theorem mtdec_failed_not_free (cfg : Cfg) (blocks : List Block) (hwf : WFInput blocks) (s : State)
    (hr : Reachable cfg blocks s) (hx : exitCode s = none) (i : Nat) (hi : i ∈ s.threadsFree) :
    (getW s i).failed = false ∧ (getW s i).hasOut = false ∧ (getW s i).st ≠ .run :=
  let h := ((mtdec_inv cfg blocks hwf s hr hx).1.free i hi)
  ⟨h.2.2.2.1, h.2.1, h.2.2.2.2⟩

/-- **Output prefix.** Under every schedule, whatever has been delivered to the application is a prefix of what the
    single-threaded decoder delivers for the same input. Holds with and without LZMA_FAIL_FAST (with it the status may come
    earlier and need not be the single-threaded one; nothing more is claimed for that mode). -/
theorem mtdec_output_prefix (cfg : Cfg) (blocks : List Block) (hwf : WFInput blocks) (s : State)
    (hr : Reachable cfg blocks s) : s.delivered <+: stOutput blocks :=
  (GInv.reachable hwf hr).pre

/-- **Final equivalence.** Without LZMA_FAIL_FAST, under every schedule: if stream_decode_mt has returned a final value `r`
    (anything but LZMA_OK / LZMA_TIMED_OUT), then `r` is the single-threaded decoder's status and the delivered bytes are
    exactly the single-threaded decoder's output. In particular errors are reported only after all earlier output. -/
theorem mtdec_final_equiv (cfg : Cfg) (blocks : List Block) (hwf : WFInput blocks) (hff : cfg.failFast = false)
    (s : State) (hr : Reachable cfg blocks s) (r : Ret) (hret : s.returned = some r) :
    r = stStatus blocks ∧ s.delivered = stOutput blocks := by
  have hx : exitCode s = some r := by simp [exitCode, hret]
  have := (GInv2.reachable hwf hr).fin hff r hx
  unfold stStatus stOutput
  rw [← this]; exact ⟨rfl, rfl⟩

/-- The same already holds while the fatal value is on its way out (threads_stop still running). -/
theorem mtdec_final_equiv_early (cfg : Cfg) (blocks : List Block) (hwf : WFInput blocks) (hff : cfg.failFast = false)
    (s : State) (hr : Reachable cfg blocks s) (r : Ret) (hx : exitCode s = some r) :
    r = stStatus blocks ∧ s.delivered = stOutput blocks := by
  have := (GInv2.reachable hwf hr).fin hff r hx
  unfold stStatus stOutput
  rw [← this]; exact ⟨rfl, rfl⟩

/-- The pending-error placeholder (LZMA_PROG_ERROR written by read_output_and_wait) never leaks: whenever it is set, a
    failed finished outbuf is still in the queue and will be returned first. -/
theorem mtdec_flag_never_leaks (cfg : Cfg) (blocks : List Block) (hwf : WFInput blocks) (s : State)
    (hr : Reachable cfg blocks s) (hx : exitCode s = none) (hp : s.pend = .flag) :
    ∃ o ∈ s.queue, o.finished = true ∧ o.finishRet ≠ END :=
  let e := (GInv2.reachable hwf hr).err hx
  e.e1 (e.e2 hp)

/-- **thr->in is never freed while the main thread may still write it** (the CVE-2025-31115 shape). Under every schedule,
    whenever the main thread copies at least one input byte into the buffer of the worker it is feeding, that buffer is
    allocated: a worker frees its input buffer only after a successful verdict, which needs the complete input, or when
    threads_end has told it to exit, and then the main thread is not copying. -/
theorem mtdec_in_not_freed (cfg : Cfg) (blocks : List Block) (hwf : WFInput blocks) (s s' : State)
    (hr : Reachable cfg blocks s) (k : Nat) (n : Bool) (hk : 0 < k) (hs : step s (.copyIn k n) = some s') :
    ∃ t, s.thr = some t ∧ (getW s t).inAlloc = true :=
  in_allocated_when_written hwf hr k n hk hs

/-- No worker is exiting (THR_EXIT seen or set) unless threads_end is running; so a worker structure is only torn down
    after the main thread has decided to join it. -/
theorem mtdec_end_only_in_threads_end (cfg : Cfg) (blocks : List Block) (hwf : WFInput blocks) (s : State)
    (hr : Reachable cfg blocks s) (hx : exitCode s = none) (i : Nat) (hi : i < s.workers.length)
    (he : (getW s i).st = .exit ∨ (getW s i).pc = .cleanup ∨ (getW s i).pc = .exited) : isEnding s.pc :=
  (AllocInv.reachable hwf hr hx).noExit ⟨i, hi, he⟩

/-- **No lost wake-up.** Under every schedule: a worker that sits in cond_wait(thr->cond) without a pending signal is idle,
    or is running with all its input consumed and no freshly requested partial update; the main thread sitting in
    cond_wait(coder->cond) without a pending signal has a non-empty queue whose head offers nothing to read and is unfinished,
    the last worker is not stalled, and (if it asked) the next Block still cannot start. Hence every transition that makes one
    of these wait conditions false has signalled the matching condition variable — inside the critical section of the mutex the
    waiter re-checks under, since a transition of the model is such a critical section. -/
theorem mtdec_no_lost_wakeup (cfg : Cfg) (blocks : List Block) (hwf : WFInput blocks) (s : State)
    (hr : Reachable cfg blocks s) :
    (∀ i, i < s.workers.length → (getW s i).pc = .wait → (getW s i).woken = false →
        (getW s i).st = .idle ∨ ((getW s i).st = .run ∧ (getW s i).inFilled = (getW s i).inPos ∧ (getW s i).pu ≠ .start)) ∧
    (∀ k w, s.pc = .rowWait k w → s.mwoken = false → MainIdle s k) := by
  have h := WakeInv.reachable hwf hr
  refine ⟨?_, h.main⟩
  intro i hi hp hw
  rcases h.wk i hi hp with e | e | e
  · rw [hw] at e; cases e
  · exact Or.inl e
  · exact Or.inr e

/-- Every thread is blocked: the main thread waits un-signalled in read_output_and_wait and every worker waits un-signalled or
    has exited. -/
def AllBlocked (s : State) : Prop :=
  (∃ k w, s.pc = .rowWait k w ∧ s.mwoken = false) ∧
  ∀ i, i < s.workers.length → ((getW s i).pc = .wait ∧ (getW s i).woken = false) ∨ (getW s i).pc = .exited

/-- **Deadlock freedom.** Under every schedule, in every reachable state other than the final one (lzma_end completed) some
    transition is enabled that is neither a spurious wake-up nor the expiry of a timed wait; and unless the main thread is
    back in the application (`idle`, where the application's next lzma_code / lzma_end is that transition) it is a transition
    of the library itself. So the library never depends on a timeout to get going again, with any `timeout` setting. -/
theorem mtdec_no_deadlock (cfg : Cfg) (blocks : List Block) (hwf : WFInput blocks) (s : State)
    (hr : Reachable cfg blocks s) (hne : s.pc ≠ .ended) :
    ∃ l s', step s l = some s' ∧ l.isExpiry = false ∧ (s.pc ≠ .idle → l.isApp = false) := by
  obtain ⟨l, s', hs, he, _⟩ := progress hwf hr hne
  refine ⟨l, s', hs, he, ?_⟩
  intro hi
  cases l <;> first | rfl | (exfalso; simp only [step] at hs; revert hs; simp [hi])

/-- The all-blocked state is unreachable: whenever the main thread waits un-signalled in read_output_and_wait, some worker
    is neither waiting un-signalled nor exited (namely the owner of the head outbuf, `head_owner_not_blocked`). -/
theorem mtdec_not_all_blocked (cfg : Cfg) (blocks : List Block) (hwf : WFInput blocks) (s : State)
    (hr : Reachable cfg blocks s) : ¬ AllBlocked s := by
  rintro ⟨⟨k, w, hp, hm⟩, hws⟩
  obtain ⟨i, hi, h1, h2⟩ := some_worker_runs hwf hr hp hm
  rcases hws i hi with e | e
  · exact h1 e
  · exact h2 e

/-- Every worker that has not exited and is not waiting un-signalled has an enabled transition (a worker never blocks
    anywhere but in its cond_wait). -/
theorem mtdec_worker_progress (cfg : Cfg) (blocks : List Block) (hwf : WFInput blocks) (s : State)
    (hr : Reachable cfg blocks s) (i : Nat) (hi : i < s.workers.length) (hx : (getW s i).pc ≠ .exited)
    (hw : ¬((getW s i).pc = .wait ∧ (getW s i).woken = false)) :
    ∃ l s', step s l = some s' ∧ l.isExpiry = false ∧ Progressive s l :=
  worker_can_step (blk_wf_of_reachable hwf hr) (PrivInv.reachable hwf hr) i hi hx hw

/-- What a blocked main thread sees (the content of `mtdec_no_lost_wakeup`, repackaged; kept because the trace inclusion
    checks exactly these conditions at every cond_wait of the C code). -/
theorem mtdec_blocked_main_view (cfg : Cfg) (blocks : List Block) (hwf : WFInput blocks) (s : State)
    (hr : Reachable cfg blocks s) (k : RowK) (w : Bool) (hp : s.pc = .rowWait k w) (hm : s.mwoken = false) :
    MainIdle s k := (mtdec_no_lost_wakeup cfg blocks hwf s hr).2 k w hp hm

/-- **Early lzma_end is safe.** Under every schedule: (1) while threads_end is joining worker `j`, every worker has been
    told to exit and all workers below `j` have exited; (2) an exited worker has no enabled transition, and while joining the
    main thread's only transition is the join itself, so nothing touches the structures of a joined worker; (3) the final
    state, in which the worker array and the queue are freed, is entered only when every worker has exited. -/
theorem mtdec_end_safe (cfg : Cfg) (blocks : List Block) (s : State) (hr : Reachable cfg blocks s) :
    (∀ j k, s.pc = .endJoin j k →
        (∀ i, i < s.workers.length → (getW s i).st = .exit) ∧
        (∀ i, i < j → i < s.workers.length → (getW s i).pc = .exited) ∧
        (∀ l s', step s l = some s' → l = .endJoin ∨ (l.worker?).isSome = true)) ∧
    (∀ i l, l.worker? = some i → (getW s i).pc = .exited → step s l = none) ∧
    (∀ s', step s .endJoin = some s' → s'.pc = .ended → ∀ i, i < s.workers.length → (getW s i).pc = .exited) := by
  have hE := EndInv.reachable hr
  refine ⟨?_, ?_, ?_⟩
  · intro j k hp
    exact ⟨(hE.join j k hp).1, (hE.join j k hp).2, fun l s' hs => joining_only_workers hp hs⟩
  · intro i l hl hp
    exact exited_stuck hl hp
  · intro s' hs hp i hi
    simp only [step] at hs
    split at hs
    case h_2 => cases hs
    rename_i j k hpc
    split at hs
    · split at hs
      · cases hs; cases hp
      · cases hs
    · rename_i hlen
      exact (hE.join j k hpc).2 i (by omega) hi

/-- **Memory bound.** Under every schedule coder->mem_in_use plus the memory of the queued outbufs — plus, between the
    moment read_output_and_wait lets the next Block in and the moment its outbuf is queued, what that Block will take
    (`pendMem`) — never exceeds memlimit_threading. Hence the subtraction `memlimit_threading - mem_in_use - outq.mem_in_use`
    in the can-start test never wraps (second conjunct), which is what makes the model's natural-number arithmetic agree with
    the C code's uint64_t arithmetic. (That mem_in_use is exactly the sum over the busy and failed workers is not proved; the
    trace inclusion compares the model's `memInUse` with the implementation's counter at every Block start, event 109, and the
    can-start decision at every read_output_and_wait exit, event 134.) -/
theorem mtdec_mem_bound (cfg : Cfg) (blocks : List Block) (s : State) (hr : Reachable cfg blocks s) :
    s.memInUse + outqMem s + pendMem s ≤ s.cfg.memLimit ∧
    (s.cfg.memLimit - s.memInUse - outqMem s) + s.memInUse + outqMem s = s.cfg.memLimit := by
  have h : MemInv s := MemInv.reachable hr
  unfold MemInv at h
  refine ⟨h, ?_⟩
  omega

/-- What SEQ_BLOCK_INIT guarantees about the input, relative to the configuration: an item is sent to the threaded path only
    if mem_next_block = mem_next_filters + mem_next_in + outbuf memory fits memlimit_threading (otherwise it takes the direct
    path). In the model the path is an input (`Block.kind`); this is the condition under which that input is one the C code can
    produce. -/
def FitsInput (cfg : Cfg) (blocks : List Block) : Prop := ∀ b ∈ blocks, b.FitsMem cfg

/-- **Exact memory accounting.** While no fatal value is on its way out, coder->mem_in_use is exactly the sum of
    mem_next_in + mem_next_filters over the workers that own an outbuf or have failed (failed workers keep their memory), plus
    the amount of the Block being set up between the counter update and the outbuf assignment; every initialised worker is
    busy, failed, in the free list, or the one being set up; and a failed worker implies a recorded thread error. -/
theorem mtdec_mem_exact (cfg : Cfg) (blocks : List Block) (hwf : WFInput blocks) (s : State)
    (hr : Reachable cfg blocks s) (hx : exitCode s = none) :
    s.memInUse = memSum s + pendThr s ∧
    (∀ i, i < s.workers.length → (getW s i).hasOut = true ∨ (getW s i).failed = true ∨ i ∈ s.threadsFree ∨
      (s.pc = .init3 ∧ s.thr = some i)) :=
  let h := AcctInv.reachable hwf hr hx
  ⟨h.acct, h.cover⟩

/-- **The invariant stated in read_output_and_wait(): "if the output queue is empty, the next Block can be started".** In
    SEQ_BLOCK_THR_INIT (before the counters are updated for the new Block), with at least one thread configured and input that
    SEQ_BLOCK_INIT can have sent to the threaded path: if the output queue is empty then mem_in_use is 0 and the can-start test
    (memory, queue slots, a free or new thread) succeeds. -/
theorem mtdec_can_start_when_empty (cfg : Cfg) (blocks : List Block) (hwf : WFInput blocks) (hfit : FitsInput cfg blocks)
    (hT : 0 < cfg.threadsMax) (s : State) (hr : Reachable cfg blocks s) (hst : Steady s) (hseq : s.seq = .thrInit)
    (hq : s.queue = []) (hp2 : s.pc ≠ .init2) (hp3 : s.pc ≠ .init3) (hp4 : s.pc ≠ .init4) (hp5 : s.pc ≠ .init5) :
    canStartNow s = true ∧ s.memInUse = 0 :=
  canStart_of_empty hwf hfit hT hr hst hseq hq hp2 hp3 hp4 hp5

/-- Consequently read_output_and_wait never comes back to SEQ_BLOCK_THR_INIT saying "cannot start yet" with an empty queue:
    stream_decode_mt returns LZMA_OK from that state only while there is output to read or a worker to wait for, so a threaded
    Block that could never start does not exist (the spin the second audit pass pointed out is unreachable). -/
theorem mtdec_no_start_only_nonempty (cfg : Cfg) (blocks : List Block) (hwf : WFInput blocks) (hfit : FitsInput cfg blocks)
    (hT : 0 < cfg.threadsMax) (s : State) (hr : Reachable cfg blocks s)
    (hp : s.pc = .rowDone .canStart OK false ∨ s.pc = .rowOk .canStart false) : s.queue ≠ [] :=
  noStart_nonempty hwf hfit hT hr hp

/-- **Termination measure.** `mu` strictly decreases on every transition of a reachable state that is not taken by the
    application (lzma_code / lzma_end being called), is not a wake-up without signal or a timer expiry, and — if it is a Block
    decoder call — makes progress (`Progressive`: a verdict, input consumed, output produced, or the call was given no input).
    Wake-ups without signal and timer expiries never raise it; an application call raises it by at most 33 + 4·threads. -/
theorem mtdec_measure (cfg : Cfg) (blocks : List Block) (hwf : WFInput blocks) (s s' : State) (l : Label)
    (hr : Reachable cfg blocks s) (hs : step s l = some s') :
    (l.isExpiry = false → l.isApp = false → Progressive s l → mu s' < mu s) ∧
    (l.isExpiry = true → mu s' ≤ mu s) ∧
    (l.isApp = true → mu s' ≤ mu s + (33 + 4 * cfg.threadsMax)) := by
  refine ⟨fun h1 h2 h3 => mu_step hwf hr hs h1 h2 h3, fun h => mu_expiry_le hs h, fun h => ?_⟩
  have := mu_app_le hs h
  rw [step_cfg hwf hr] at this
  exact this

/-- **Bounded runs (termination of the scheduler model).** For every run of the model from the initial state — every
    schedule, including any number of spurious wake-ups and timer expiries — in which the Block decoder calls make progress:
    the number of internal transitions (everything except application calls and wake-ups without signal / expiries) is at most
      Σ_items (8·(48 + 4·threads) + 64 + 8·(compressed size + uncompressed size)) + 4·(48 + 4·threads)
        + (33 + 4·threads) · (number of lzma_code / lzma_end calls).
    So no schedule lets the library run forever inside a call, and between two application calls only boundedly many
    transitions happen. -/
theorem mtdec_steps_bounded (cfg : Cfg) (blocks : List Block) (hwf : WFInput blocks) (ls : List Label) (s : State)
    (hrun : run (init cfg blocks) ls = some s) (hprog : ProgRun (init cfg blocks) ls) :
    (ls.filter Label.internal).length ≤
      (blocks.map fun b => 8 * (48 + 4 * cfg.threadsMax) + 64 + 8 * (b.inSize + b.data.length)).sum
        + 4 * (48 + 4 * cfg.threadsMax) + (33 + 4 * cfg.threadsMax) * (ls.filter Label.isApp).length := by
  have h := run_bound hwf ls _ s Reachable.init hrun hprog
  rw [mu_init] at h
  have e : muInit cfg blocks =
      (blocks.map fun b => 8 * (48 + 4 * cfg.threadsMax) + 64 + 8 * (b.inSize + b.data.length)).sum + 4 * (48 + 4 * cfg.threadsMax) := by
    unfold muInit MS
    congr 2
  omega

/-- **Every call returns.** A reachable state in which no progressive internal transition is enabled has the main thread
    back in the application (or the handle freed). With `mtdec_measure` (every such transition lowers `mu`): from any reachable
    state every sequence of internal transitions has length at most `mu s`, and when it cannot be extended lzma_code /
    lzma_end has returned — under every schedule, with any timeout setting, for valid, corrupt and truncated input alike. -/
theorem mtdec_call_returns (cfg : Cfg) (blocks : List Block) (hwf : WFInput blocks) (s : State) (hr : Reachable cfg blocks s) :
    (∀ ls s', run s ls = some s' → ProgRun s ls → (∀ l ∈ ls, l.internal = true) → ls.length ≤ mu s) ∧
    ((∀ l s', step s l = some s' → l.internal = true → ¬ Progressive s l) → s.pc = .idle ∨ s.pc = .ended) := by
  refine ⟨?_, stuck_is_idle hwf hr⟩
  intro ls s' hrun hp hall
  have h := run_bound hwf ls s s' hr hrun hp
  have e1 : ls.filter Label.internal = ls := List.filter_eq_self.mpr hall
  have e2 : ls.filter Label.isApp = [] := by
    apply List.filter_eq_nil_iff.mpr
    intro l hl
    have := hall l hl
    simp only [Label.internal, Bool.and_eq_true, Bool.not_eq_true'] at this
    simp [this.1]
  rw [e1, e2] at h
  simp at h
  omega

/-- **Truncated input (partial).** What the model proves about input that ends in the middle of a Block: every call returns
    after boundedly many transitions under every schedule (`mtdec_call_returns`, no hang whatever the workers are doing), the
    main thread does not wait while the last worker has consumed and published everything it was given
    (`mtdec_no_wait_when_stalled`), and what has been delivered is a prefix of the single-threaded output
    (`mtdec_output_prefix`). NOT proved: that the sequence of return values is finitely many LZMA_OK followed by LZMA_BUF_ERROR —
    the no-progress counter lives in lzma_code's wrapper (C11's model), which this model does not contain; the direct oracle
    checks that clause on every truncated file, also with the pause/poll slicing. -/
theorem mtdec_truncated_input_partial (cfg : Cfg) (blocks : List Block) (hwf : WFInput blocks) (s : State)
    (hr : Reachable cfg blocks s) :
    ((∀ l s', step s l = some s' → l.internal = true → ¬ Progressive s l) → s.pc = .idle ∨ s.pc = .ended) ∧
    (∀ k w, s.pc = .rowWait k w → s.mwoken = false → stalled s = false) ∧
    s.delivered <+: stOutput blocks :=
  ⟨(mtdec_call_returns cfg blocks hwf s hr).2,
   fun k w hp hm => ((mtdec_no_lost_wakeup cfg blocks hwf s hr).2 k w hp hm).2.2.1,
   mtdec_output_prefix cfg blocks hwf s hr⟩

/-- **The main thread never waits while the last worker is stalled.** `stalled` is the model's rendering of the rule
    "thr->in_filled == decoder_in_pos published by the worker and no output to read": in that situation
    read_output_and_wait returns instead of waiting, so an application that stops supplying input in the middle of a Block gets
    control back (LZMA_OK without progress; the LZMA_BUF_ERROR after repeated no-progress calls is produced by lzma_code's
    wrapper, which is C11's model, not this one). The full clause of the property text — finitely many LZMA_OK, then
    LZMA_BUF_ERROR — is NOT proved in Lean; the direct oracle checks it on every truncated file and with the pause/poll
    slicing. -/
theorem mtdec_no_wait_when_stalled (cfg : Cfg) (blocks : List Block) (hwf : WFInput blocks) (s : State)
    (hr : Reachable cfg blocks s) (k : RowK) (w : Bool) (hp : s.pc = .rowWait k w) (hm : s.mwoken = false) :
    stalled s = false :=
  ((mtdec_no_lost_wakeup cfg blocks hwf s hr).2 k w hp hm).2.2.1

-- ---------------------------------------------------------------------------------------------
-- non-vacuity: the hypotheses are satisfiable and multi-Block states with several workers in flight are reachable
-- ---------------------------------------------------------------------------------------------

theorem reachable_of_run {cfg : Cfg} {blocks : List Block} : ∀ (ls : List Label) {s s' : State},
    Reachable cfg blocks s → run s ls = some s' → Reachable cfg blocks s'
  | [], s, s', hr, h => by simp only [run, Option.some.injEq] at h; exact h ▸ hr
  | l :: ls, s, s', hr, h => by
    simp only [run] at h
    split at h
    · rename_i s1 hs1; exact reachable_of_run ls (Reachable.step l hr hs1) h
    · cases h

/-- Two good threaded Blocks (3 and 2 bytes of output) followed by Index + Footer. -/
def exBlocks : List Block :=
  [{ kind := .thr, inSize := 8, needIn := 8, data := [1, 2, 3], ret := END, memThr := 10, memOut := 5 },
   { kind := .thr, inSize := 4, needIn := 4, data := [4, 5], ret := END, memThr := 10, memOut := 5 },
   { kind := .sync, ret := END }]

def exCfg : Cfg := { threadsMax := 2, memLimit := 100 }

example : WFInput exBlocks := by
  intro b hb
  simp only [exBlocks, List.mem_cons, List.mem_nil_iff, or_false] at hb
  rcases hb with rfl | rfl | rfl <;> simp [Block.WF, END, OK, TIMED_OUT]

/-- A schedule that starts both Blocks before the first worker has decoded anything: both workers running, two outbufs queued. -/
def exSchedule : List Label :=
  [.call false false 100, .hdrGot, .blockInit, .thrInitEnter, .rowIter .enter, .rowDone, .rowOk, .memUpdate, .getThread,
   .assign, .startThr, .enablePartial, .copyIn 8 false, .tell, .rowIter .enter, .rowDone, .rowOk,
   .hdrGot, .blockInit, .thrInitEnter, .rowIter .enter, .rowDone, .rowOk, .memUpdate, .getThread, .assign, .startThr,
   .enablePartial, .copyIn 4 true, .tell,
   .wLoop 0 .enter, .wLoop 1 .enter]

example : ∃ s, Reachable exCfg exBlocks s ∧ s.queue.length = 2 ∧ s.workers.length = 2 ∧
    (getW s 0).st = .run ∧ (getW s 1).st = .run ∧ exitCode s = none := by
  have h : (run (init exCfg exBlocks) exSchedule).isSome = true := by decide
  match hr : run (init exCfg exBlocks) exSchedule, h with
  | some s, _ =>
    refine ⟨s, reachable_of_run exSchedule Reachable.init hr, ?_⟩
    have e : some s = run (init exCfg exBlocks) exSchedule := hr.symm
    have : (run (init exCfg exBlocks) exSchedule).map (fun s => (s.queue.length, s.workers.length, (getW s 0).st, (getW s 1).st, exitCode s))
        = some (2, 2, .run, .run, none) := by decide
    rw [← e] at this
    simp only [Option.map_some, Option.some.injEq, Prod.mk.injEq] at this
    exact this

/-- The same input decoded to the end under one schedule: the model returns LZMA_STREAM_END with all five bytes. -/
def exScheduleEnd : List Label :=
  exSchedule ++
  [.wDecode 0 8 3 true, .wFin1 0, .wFin2 0, .wFin3 0, .wDecode 1 4 2 true, .wFin1 1, .wFin2 1, .wFin3 1,
   .rowIter .enter, .rowDone, .rowOk, .hdrGot, .indexStep false, .rowIter .enter, .rowDone, .rowOk, .indexStep true, .ret]

example : (run (init exCfg exBlocks) exScheduleEnd).map (fun s => (s.returned, s.delivered)) = some (some END, [1, 2, 3, 4, 5]) := by
  decide

example : stRun exBlocks = ([1, 2, 3, 4, 5], END) := by decide

/-- The example input satisfies SEQ_BLOCK_INIT's guarantee for `exCfg`, every Block decoder call of the example schedule makes
    progress, and the bound of `mtdec_steps_bounded` for it is 1896 + 41 per application call (the schedule has 1 call and 49
    internal transitions). -/
example : FitsInput exCfg exBlocks := by
  intro b hb
  simp only [exBlocks, List.mem_cons, List.mem_nil_iff, or_false] at hb
  rcases hb with rfl | rfl | rfl <;> simp [Block.FitsMem, exCfg]

example : ProgRun (init exCfg exBlocks) exScheduleEnd := progRunB_sound _ _ (by decide)

example : muInit exCfg exBlocks = 1896 ∧ (exScheduleEnd.filter Label.internal).length = 49 ∧
    (exScheduleEnd.filter Label.isApp).length = 1 := by decide

/-- Error path: the second Block fails after all of its output; under a schedule in which both workers finish before the main
    thread looks, the model returns LZMA_DATA_ERROR after delivering all five bytes, as the single-threaded decoder does. -/
def exBlocksErr : List Block :=
  [{ kind := .thr, inSize := 8, needIn := 8, data := [1, 2, 3], ret := END, memThr := 10, memOut := 5 },
   { kind := .thr, inSize := 4, needIn := 4, data := [4, 5], ret := DATA_ERROR, memThr := 10, memOut := 5 },
   { kind := .sync, ret := END }]

def exScheduleErr : List Label :=
  exSchedule ++
  [.wDecode 0 8 3 true, .wFin1 0, .wFin2 0, .wFin3 0, .wDecode 1 4 2 true, .wFin1 1, .wFin2 1, .wFin3 1,
   .rowIter .enter, .rowDone, .stopOne, .stopOne, .stopOne, .ret]

example : (run (init exCfg exBlocksErr) exScheduleErr).map (fun s => (s.returned, s.delivered)) =
    some (some DATA_ERROR, [1, 2, 3, 4, 5]) := by decide

example : stRun exBlocksErr = ([1, 2, 3, 4, 5], DATA_ERROR) := by decide

end XzVerif.C07
