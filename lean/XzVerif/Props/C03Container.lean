/-
  C03 (container level) — what the .xz container decoder accepts, and that it is a function of the input.

  Model: Model/XzDecode.lean (`blockDecode`, `streamOne`, `xzDecode`; payload decoder and check function are parameters).
  Declarative grammar: `ValidXz` / `ValidStream` / `BlocksRun` / `BlockFacts` / `FooterFacts` in Lemmas/XzDecode*.lean,
  written field by field after doc/xz-file-format.txt (sections 2.1 Stream, 3 Block, 4 Index) in terms of the field
  codecs of Model/Container.lean.
-/
import XzVerif.Lemmas.XzDecodeStream
import XzVerif.Lemmas.XzDecodeFunctional

namespace XzVerif.C03Container
open XzVerif XzVerif.Container XzVerif.XzDecode

/-- **block_sizes_enforced.**  If the Block decoder finishes a Block with LZMA_STREAM_END then (`BlockFacts`):
    the raw decoder ended; the Compressed Size and Uncompressed Size fields of the Block Header, when present, equal the
    number of bytes the raw decoder consumed and produced; the bytes after the Compressed Data are exactly
    `blockPadLen` zero bytes of Block Padding followed by the Check field; and the Check field equals the check of the
    output whenever the Check ID is supported and LZMA_IGNORE_CHECK is off. -/
theorem block_sizes_enforced (E : Env) (check : Nat) (ign : Bool) (hs : Nat) (h : BlockHeader) (inp : List UInt8)
    (cap : Nat) (hb : (blockDecode E check ign hs h inp cap).ret = .streamEnd) :
    BlockFacts E check ign hs h inp cap (blockDecode E check ign hs h inp cap) :=
  blockDecode_streamEnd E check ign hs h inp cap _ rfl hb

/-- **index_matches_blocks.**  If a Stream is accepted, the bytes of its Index field are the canonical encoding
    (`Container.indexEncode`) of the list of (Unpadded Size, Uncompressed Size) pairs of the Blocks that were decoded, in
    order — so the Records of the Index are exactly the Blocks.
    HashInjective: the C code compares SHA-256 digests of the two sequences of pairs (index_hash.c); the model compares the
    sequences themselves, which is the same verdict unless SHA-256 collides on them. -/
theorem index_matches_blocks (E : Env) (fl : Flags) (first : Bool) (inp : List UInt8) (cap : Nat)
    (h : (streamOne E fl first inp cap).ret = .streamEnd) :
    ∃ (hdr : StreamFlags) (out : List UInt8) (c : Nat) (blocks : HashInfo),
      BlocksRun E fl hdr [] (inp.drop STREAM_HEADER_SIZE) cap out c blocks ∧
      (inp.drop (STREAM_HEADER_SIZE + c)).take (indexHashSize blocks) = indexEncode blocks ∧
      (indexEncode blocks).length = indexHashSize blocks := by
  obtain ⟨hdr, c, final, s2, _, _, hrun, hF, _, _⟩ := streamOne_streamEnd E fl first inp cap _ rfl h
  exact ⟨hdr, _, c, final, hrun, hF.index_bytes, hF.index_len⟩

/-- **xz_decode_sound.**  Acceptance implies the declarative grammar (see `C05.accept_implies_checked` for what `ValidXz`
    spells out). -/
theorem xz_decode_sound (E : Env) (fl : Flags) (b : List UInt8) (cap : Nat)
    (h : (xzDecode E fl b cap).ret = .streamEnd) :
    ValidXz E fl b cap (xzDecode E fl b cap).out (xzDecode E fl b cap).consumed := by
  have hcall : xzDecode E fl b cap = xzCall E fl b cap := by
    unfold xzDecode at h ⊢
    simp only [] at h ⊢
    split
    · rename_i hok; rw [if_pos hok] at h; simp at h
    · rfl
  rw [hcall] at h ⊢
  exact xzLoop_streamEnd E fl _ _ _ _ _ rfl h

/-- **xz_decode_functional.**  The grammar is unambiguous: a byte string has at most one reading as valid Stream(s), so
    the decoded data and the consumed length are determined by the input (for fixed flags and environment). -/
theorem xz_decode_functional (E : Env) (fl : Flags) (b : List UInt8) (cap : Nat) (o₁ o₂ : List UInt8) (n₁ n₂ : Nat)
    (h₁ : ValidXz E fl b cap o₁ n₁) (h₂ : ValidXz E fl b cap o₂ n₂) : o₁ = o₂ ∧ n₁ = n₂ :=
  ValidXz_functional h₁ h₂

/-- Completeness (`ValidXz b out n → xzDecode b = ok out n`) is not proved here; it would make `ValidXz` an exact
    characterisation.  What stands in for it: the model is run against the real decoder on valid files from the real
    encoder and on every single-fault variant of them (./check C05, ./check C03). -/
def xz_decode_complete_statement : Prop :=
  ∀ (E : Env) (fl : Flags) (b : List UInt8) (cap : Nat) (out : List UInt8) (n : Nat),
    ValidXz E fl b cap out n →
    (xzDecode E fl b cap).ret = .streamEnd ∧ (xzDecode E fl b cap).out = out ∧ (xzDecode E fl b cap).consumed = n

/-- `xz_decode_complete_partial`: the decoder and the grammar can never disagree on an accepted input — if the decoder
    accepts, any grammatical reading of the same bytes has the decoder's output and length. -/
theorem xz_decode_complete_partial (E : Env) (fl : Flags) (b : List UInt8) (cap : Nat) (out : List UInt8) (n : Nat)
    (hv : ValidXz E fl b cap out n) (h : (xzDecode E fl b cap).ret = .streamEnd) :
    (xzDecode E fl b cap).out = out ∧ (xzDecode E fl b cap).consumed = n :=
  ValidXz_functional (xz_decode_sound E fl b cap h) hv

end XzVerif.C03Container
