/-
  C03 (container level) — what the .xz container decoder accepts, and that it is a function of the input.

  Model: Model/XzDecode.lean (`blockDecode`, `streamOne`, `xzDecode`; payload decoder and check function are parameters).
  Declarative grammar: `ValidXz` / `ValidStream` / `BlocksRun` / `BlockFacts` / `FooterFacts` in Lemmas/XzDecode*.lean,
  written field by field after doc/xz-file-format.txt (sections 2.1 Stream, 3 Block, 4 Index) in terms of the field
  codecs of Model/Container.lean.
-/
import XzVerif.Lemmas.XzDecodeStream
import XzVerif.Lemmas.XzDecodeFunctional
import XzVerif.Lemmas.XzComplete
import XzVerif.Lemmas.XzStd

namespace XzVerif.C03Container
open XzVerif XzVerif.Container XzVerif.XzDecode

/-- **block_sizes_enforced.**  If the Block decoder finishes a Block with LZMA_STREAM_END then (`BlockFacts`):
    the raw decoder ended; the Compressed Size and Uncompressed Size fields of the Block Header, when present, equal the
    number of bytes the raw decoder consumed and produced; the bytes after the Compressed Data are exactly
    `blockPadLen` zero bytes of Block Padding followed by the Check field; and the Check field equals the check of the
    output whenever the Check ID is supported and LZMA_IGNORE_CHECK is off. -/
theorem block_sizes_enforced (E : Env) (check : Nat) (ign : Bool) (hs : Nat) (h : BlockHeader) (inp : List UInt8)
    (cap : Nat) (hb : (blockDecode E check ign hs h inp cap).ret = .streamEnd) :
    BlockFacts E check ign hs h inp cap (blockDecode E check ign hs h inp cap) :=
  blockDecode_streamEnd E check ign hs h inp cap _ rfl hb

/-- **index_matches_blocks.**  If a Stream is accepted, the bytes of its Index field are the canonical encoding
    (`Container.indexEncode`) of the list of (Unpadded Size, Uncompressed Size) pairs of the Blocks that were decoded, in
    order — so the Records of the Index are exactly the Blocks.
    HashInjective: the C code compares SHA-256 digests of the two sequences of pairs (index_hash.c); the model compares the
    sequences themselves, which is the same verdict unless SHA-256 collides on them. -/
theorem index_matches_blocks (E : Env) (fl : Flags) (first : Bool) (inp : List UInt8) (cap : Nat)
    (h : (streamOne E fl first inp cap).ret = .streamEnd) :
    ∃ (hdr : StreamFlags) (out : List UInt8) (c : Nat) (blocks : HashInfo),
      BlocksRun E fl hdr [] (inp.drop STREAM_HEADER_SIZE) cap out c blocks ∧
      (inp.drop (STREAM_HEADER_SIZE + c)).take (indexHashSize blocks) = indexEncode blocks ∧
      (indexEncode blocks).length = indexHashSize blocks := by
  obtain ⟨hdr, c, final, s2, _, _, hrun, hF, _, _⟩ := streamOne_streamEnd E fl first inp cap _ rfl h
  exact ⟨hdr, _, c, final, hrun, hF.index_bytes, hF.index_len⟩

/-- **xz_decode_sound.**  Acceptance implies the declarative grammar (see `C05.accept_implies_checked` for what `ValidXz`
    spells out). -/
theorem xz_decode_sound (E : Env) (fl : Flags) (b : List UInt8) (cap : Nat)
    (h : (xzDecode E fl b cap).ret = .streamEnd) :
    ValidXz E fl b cap (xzDecode E fl b cap).out (xzDecode E fl b cap).consumed := by
  have hcall : xzDecode E fl b cap = xzCall E fl b cap := by
    unfold xzDecode at h ⊢
    simp only [] at h ⊢
    split
    · rename_i hok; rw [if_pos hok] at h; simp at h
    · rfl
  rw [hcall] at h ⊢
  exact xzLoop_streamEnd E fl _ _ _ _ _ rfl h

/-- **xz_decode_functional.**  The grammar is unambiguous: a byte string has at most one reading as valid Stream(s), so
    the decoded data and the consumed length are determined by the input (for fixed flags and environment). -/
theorem xz_decode_functional (E : Env) (fl : Flags) (b : List UInt8) (cap : Nat) (o₁ o₂ : List UInt8) (n₁ n₂ : Nat)
    (h₁ : ValidXz E fl b cap o₁ n₁) (h₂ : ValidXz E fl b cap o₂ n₂) : o₁ = o₂ ∧ n₁ = n₂ :=
  ValidXz_functional h₁ h₂

/-- `xz_decode_complete_partial`: the decoder and the grammar can never disagree on an accepted input — if the decoder
    accepts, any grammatical reading of the same bytes has the decoder's output and length. -/
theorem xz_decode_complete_partial (E : Env) (fl : Flags) (b : List UInt8) (cap : Nat) (out : List UInt8) (n : Nat)
    (hv : ValidXz E fl b cap out n) (h : (xzDecode E fl b cap).ret = .streamEnd) :
    (xzDecode E fl b cap).out = out ∧ (xzDecode E fl b cap).consumed = n :=
  ValidXz_functional (xz_decode_sound E fl b cap h) hv

/-! ## The declarative grammar: "exactly when the specification defines the string as valid"

  `ValidXz` above describes a Block through the executable Block decoder (`BlocksRun.block` has `blockDecode … = b`,
  `b.ret = .streamEnd` among its premises), so `xz_decode_sound` is partly circular at Block level.  `DValidXz`
  (Lemmas/XzGrammar.lean) is a grammar that does not mention the Block decoder: a Block is
    header bytes that parse as a Block Header (field parser `blockHeaderDecodeWith`: size byte, flags, optional sizes, Filter
    Flags, zero Header Padding, CRC32) with a valid chain ∥ Compressed Data `c` that the PAYLOAD decoder maps to `o`
    (`E.payload filters c allowance = ⟨LZMA_STREAM_END, o, |c|⟩`: a premise about the payload only, on exactly the bytes `c`) ∥
    size fields, when present, equal `|c|`, `|o|` ∥ Block Padding = `(4 − |c| mod 4) mod 4` zero bytes ∥ Check = `check_size`
    bytes, equal to `E.check id o` when the ID is supported and LZMA_IGNORE_CHECK is off ∥ numeric limits of the format
    (`BlockLimits`: Compressed Data not empty, Unpadded Size ≤ LZMA_VLI_MAX & ~3, Uncompressed Size ≤ LZMA_VLI_MAX, running totals
    within the limits `lzma_index_hash_append` enforces: Σ sizes ≤ LZMA_VLI_MAX, Index ≤ 16 GiB, Stream ≤ LZMA_VLI_MAX);
  a Stream is Stream Header ∥ Blocks ∥ Index = `indexEncode` of the Blocks' size pairs ∥ Stream Footer (`FooterFacts`); a file is
  one Stream (no LZMA_CONCATENATED) or Streams with Stream Padding in multiples of four zero bytes.
  The decoder accepts EXACTLY these strings, with exactly this output and length.  The output capacity needs no side condition:
  the grammar is indexed by it (each Block's payload premise is stated for that Block's output allowance). -/

/-- **block_decode_exact (⇒).**  An accepted Block is a declarative Block (`DBlock`): the Compressed Data is the first
    `compressed` bytes, followed by zero Block Padding, the Check field and the rest. -/
theorem block_decode_sound_decl (E : Env) (hloc : PayloadLocal E) (hbd : PayloadBounded E) (check : Nat) (ign : Bool) (hs : Nat)
    (h : BlockHeader) (X : List UInt8) (cap : Nat) (hb : (blockDecode E check ign hs h X cap).ret = .streamEnd) :
    let b := blockDecode E check ign hs h X cap
    b.compressed ≤ X.length ∧
    X = X.take b.compressed ++ List.replicate (blockPadLen b.compressed) 0
          ++ (X.drop (b.compressed + blockPadLen b.compressed)).take (if check = 0 then 0 else checkSize check)
          ++ X.drop b.consumed ∧
    DBlock E check ign h cap (X.take b.compressed) b.out (List.replicate (blockPadLen b.compressed) 0)
      ((X.drop (b.compressed + blockPadLen b.compressed)).take (if check = 0 then 0 else checkSize check)) :=
  blockDecode_sound_decl E hloc hbd check ign hs h X cap hb

/-- **block_decode_exact (⇐).**  A declarative Block whose Compressed Data respects the decoder's size limit is accepted, with
    the Block's output, consuming exactly the Block. -/
theorem block_decode_complete (E : Env) (hloc : PayloadLocal E) (check : Nat) (ign : Bool) (hs : Nat) (h : BlockHeader)
    (cap : Nat) (c o pad chk rest : List UInt8) (D : DBlock E check ign h cap c o pad chk)
    (hlim : c.length ≤ compressedLimit hs check h.compressedSize) :
    blockDecode E check ign hs h (c ++ pad ++ chk ++ rest) cap
      = { ret := .streamEnd, out := o, consumed := c.length + pad.length + chk.length, compressed := c.length } :=
  blockDecode_complete E hloc check ign hs h cap c o pad chk rest D hlim

/-- **xz_decode_sound (declarative).**  Acceptance implies the declarative grammar, including the numeric limits. -/
theorem xz_decode_sound_decl (E : Env) (hloc : PayloadLocal E) (hbd : PayloadBounded E) (fl : Flags) (b : List UInt8) (cap : Nat)
    (h : (xzDecode E fl b cap).ret = .streamEnd) :
    DValidXz E fl b cap (xzDecode E fl b cap).out (xzDecode E fl b cap).consumed :=
  xzDecode_sound_decl E hloc hbd fl b cap h

/-- **xz_decode_complete** (formerly the unproved `xz_decode_complete_statement`, now for the declarative grammar): a
    grammatical file is accepted with the grammar's output and length. -/
theorem xz_decode_complete (E : Env) (hloc : PayloadLocal E) (fl : Flags) (b : List UInt8) (cap : Nat) (out : List UInt8) (n : Nat)
    (V : DValidXz E fl b cap out n) :
    (xzDecode E fl b cap).ret = .streamEnd ∧ (xzDecode E fl b cap).out = out ∧ (xzDecode E fl b cap).consumed = n :=
  xzDecode_complete E hloc fl b cap out n V

/-- **xz_decode_exact.**  The decoder accepts a byte string with output `out` and length `n` exactly when the string is valid per
    the declarative grammar with that output and length. -/
theorem xz_decode_exact (E : Env) (hloc : PayloadLocal E) (hbd : PayloadBounded E) (fl : Flags) (b : List UInt8) (cap : Nat)
    (out : List UInt8) (n : Nat) :
    ((xzDecode E fl b cap).ret = .streamEnd ∧ (xzDecode E fl b cap).out = out ∧ (xzDecode E fl b cap).consumed = n)
      ↔ DValidXz E fl b cap out n := by
  constructor
  · rintro ⟨h1, h2, h3⟩
    have := xzDecode_sound_decl E hloc hbd fl b cap h1
    rw [h2, h3] at this
    exact this
  · exact xzDecode_complete E hloc fl b cap out n

/-- … for the concrete decoder model (raw LZMA1/LZMA2 chains, CRC32/CRC64/SHA-256): no hypotheses. -/
theorem xz_decode_exact_std (fl : Flags) (b : List UInt8) (cap : Nat) (out : List UInt8) (n : Nat) :
    ((xzDecode XzEnv.stdEnv fl b cap).ret = .streamEnd ∧ (xzDecode XzEnv.stdEnv fl b cap).out = out
        ∧ (xzDecode XzEnv.stdEnv fl b cap).consumed = n)
      ↔ DValidXz XzEnv.stdEnv fl b cap out n :=
  xz_decode_exact XzEnv.stdEnv XzEnv.payloadLocal_std XzEnv.payloadBounded_std fl b cap out n

/-! ### non-vacuity for the concrete decoder: tests/files/good-1-check-crc32.xz (two uncompressed LZMA2 chunks, CRC32) -/

def good1 : List UInt8 :=
  [253, 55, 122, 88, 90, 0, 0, 1, 105, 34, 222, 54, 2, 0, 33, 1, 8, 0, 0, 0, 216, 15, 35, 19, 1, 0, 5, 72, 101, 108, 108, 111,
   10, 2, 0, 6, 87, 111, 114, 108, 100, 33, 10, 0, 67, 163, 162, 21, 0, 1, 36, 13, 48, 40, 223, 175, 144, 66, 153, 13, 1, 0, 0,
   0, 0, 1, 89, 90]

/-- the model of the real decoder accepts it: "Hello\nWorld!\n", 68 bytes -/
example : xzDecode XzEnv.stdEnv {} good1
    = { ret := .streamEnd, out := [72, 101, 108, 108, 111, 10, 87, 111, 114, 108, 100, 33, 10], consumed := 68 } := by
  decide +kernel

/-- … hence it is valid per the declarative grammar (soundness), and, conversely, completeness applied to that derivation gives
    back the decoder's answer -/
example : DValidXz XzEnv.stdEnv {} good1 UNLIMITED [72, 101, 108, 108, 111, 10, 87, 111, 114, 108, 100, 33, 10] 68 :=
  (xz_decode_exact_std {} good1 UNLIMITED _ 68).1 (by decide +kernel)

end XzVerif.C03Container
