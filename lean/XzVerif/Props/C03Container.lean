/-
  C03 (container level) — what acceptance by the .xz container decoder implies.
-/
import XzVerif.Model.XzDecode

namespace XzVerif.C03Container
open XzVerif XzVerif.Container XzVerif.XzDecode

end XzVerif.C03Container
