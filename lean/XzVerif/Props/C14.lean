/-
  C14 — CRC32, CRC64 (and SHA-256) equal their standard definitions for all inputs.
  Only property theorems and non-vacuity examples live here; helper lemmas are in Lemmas/.
-/
import XzVerif.Model.Crc
import XzVerif.Gen.C14
import XzVerif.Lemmas.Crc
import XzVerif.Lemmas.CrcExtra

namespace XzVerif.C14
open XzVerif.Crc

/-- The tables compiled into liblzma are exactly the tables generated from the standard polynomial
    (all 8×256 entries; `Gen.C14.crc32Table` is regenerated from the source on every run). -/
theorem crc32_table_correct : Gen.C14.crc32Table = genTable P32 8 := by decide +kernel

theorem crc64_table_correct : Gen.C14.crc64Table = genTable P64 4 := by decide +kernel

/-- `lzma_crc32_generic` (alignment prologue, slice-by-eight loop, byte tail) over the tables that are in the source
    today returns the standard CRC-32 for every buffer, every pointer alignment and every initial value. -/
theorem crc32_generic_eq_ref (align : Nat) (bs : List UInt8) (init : BitVec 32) :
    crc32Generic Gen.C14.crc32Table align bs init = crc32Ref bs init := by
  rw [crc32_table_correct]; exact crc32Generic_genTable align bs init

/-- `lzma_crc64_generic` (slice-by-four) likewise. -/
theorem crc64_generic_eq_ref (align : Nat) (bs : List UInt8) (init : BitVec 64) :
    crc64Generic Gen.C14.crc64Table align bs init = crc64Ref bs init := by
  rw [crc64_table_correct]; exact crc64Generic_genTable align bs init

/-- The result does not depend on the memory alignment of the buffer. -/
theorem crc32_alignment_indep (a1 a2 : Nat) (bs : List UInt8) (init : BitVec 32) :
    crc32Generic Gen.C14.crc32Table a1 bs init = crc32Generic Gen.C14.crc32Table a2 bs init := by
  rw [crc32_generic_eq_ref, crc32_generic_eq_ref]

theorem crc64_alignment_indep (a1 a2 : Nat) (bs : List UInt8) (init : BitVec 64) :
    crc64Generic Gen.C14.crc64Table a1 bs init = crc64Generic Gen.C14.crc64Table a2 bs init := by
  rw [crc64_generic_eq_ref, crc64_generic_eq_ref]

/-- Computing over a buffer in consecutive pieces gives the same value as in one piece. -/
theorem crc32_chunking (a b : List UInt8) (init : BitVec 32) :
    crc32Ref (a ++ b) init = crc32Ref b (crc32Ref a init) := by
  simp [crc32Ref, refRaw, List.foldl_append]

theorem crc64_chunking (a b : List UInt8) (init : BitVec 64) :
    crc64Ref (a ++ b) init = crc64Ref b (crc64Ref a init) := by
  simp [crc64Ref, refRaw, List.foldl_append]

/-- Chunking for the table-driven implementation model: any split, any alignments of the two pieces. -/
theorem crc32_generic_chunking (a1 a2 a3 : Nat) (a b : List UInt8) (init : BitVec 32) :
    crc32Generic Gen.C14.crc32Table a2 b (crc32Generic Gen.C14.crc32Table a1 a init)
      = crc32Generic Gen.C14.crc32Table a3 (a ++ b) init := by
  simp only [crc32_generic_eq_ref, crc32_chunking]

theorem crc64_generic_chunking (a1 a2 a3 : Nat) (a b : List UInt8) (init : BitVec 64) :
    crc64Generic Gen.C14.crc64Table a2 b (crc64Generic Gen.C14.crc64Table a1 a init)
      = crc64Generic Gen.C14.crc64Table a3 (a ++ b) init := by
  simp only [crc64_generic_eq_ref, crc64_chunking]

/-! ### the size-optimised variants (crc32_small.c / crc64_small.c) -/

/-- The `HAVE_SMALL` CRC32 (table generated at run time from the polynomial, byte-at-a-time loop) is the standard CRC-32. -/
theorem crc32_small_eq_ref (bs : List UInt8) (init : BitVec 32) : crcSmall P32 bs init = crc32Ref bs init :=
  crcSmall_eq P32 bs init

theorem crc64_small_eq_ref (bs : List UInt8) (init : BitVec 64) : crcSmall P64 bs init = crc64Ref bs init :=
  crcSmall_eq P64 bs init

/-! ### constants of the carry-less-multiplication implementation (crc_x86_clmul.h)

  The CLMUL *data path* (folding, byte shuffles, Barrett reduction) is modelled and proved equal to the reference in
  Props/C14Clmul.lean. What is proved here: the constants the code uses today (extracted by running the compiled
  function, `[]` if the build has no CLMUL code) are the ones defined by crc_clmul_consts_gen.c, i.e.
  `x^k mod P` for the fold distances and `floor(x^128 / P)` for Barrett, in reflected representation. -/

theorem clmul32_consts : Gen.C14.clmul32 = [] ∨ Gen.C14.clmul32 = clmulConsts P32in64 := by decide +kernel

theorem clmul64_consts : Gen.C14.clmul64 = [] ∨ Gen.C14.clmul64 = clmulConsts P64 := by decide +kernel

theorem clmul_vmasks : Gen.C14.clmulVmasks = [] ∨ Gen.C14.clmulVmasks = vmasksSpec := by decide +kernel

/-- The four fold constants are powers of `x` modulo the polynomial: `fold512 = (x^(511) , x^(575)) mod P`,
    `fold128 = (x^127, x^191) mod P` (exponents `bits + 63`). -/
theorem clmul_fold_consts_are_xpow (p : BitVec 64) :
    clrem p (4 * 128 - 64) = xpowMod p 511 ∧ clrem p (4 * 128) = xpowMod p 575 ∧
    clrem p (128 - 64) = xpowMod p 127 ∧ clrem p 128 = xpowMod p 191 :=
  ⟨clrem_eq_xpowMod p _ (by decide), clrem_eq_xpowMod p _ (by decide), clrem_eq_xpowMod p _ (by decide),
   clrem_eq_xpowMod p _ (by decide)⟩

/-! ### error detection (used by C05; proofs in Lemmas/Crc.lean) -/

/-- Any change confined to one byte of the message changes the CRC-32 (whatever the other bytes and the initial value). -/
theorem crc32_byte_error_detected (a t : List UInt8) (b b' : UInt8) (h : b ≠ b') (init : BitVec 32) :
    crc32Ref (a ++ b :: t) init ≠ crc32Ref (a ++ b' :: t) init := crc32_byte_error a t b b' h init

theorem crc64_byte_error_detected (a t : List UInt8) (b b' : UInt8) (h : b ≠ b') (init : BitVec 64) :
    crc64Ref (a ++ b :: t) init ≠ crc64Ref (a ++ b' :: t) init := crc64_byte_error a t b b' h init

/-- A single flipped bit anywhere in the message changes the CRC-32 / CRC-64. -/
theorem crc32_single_bit_detected (m : List UInt8) (i : Nat) (hi : i < 8 * m.length) (init : BitVec 32) :
    crc32Ref (flipBit m i) init ≠ crc32Ref m init := crc32_flip_ne m i hi init

theorem crc64_single_bit_detected (m : List UInt8) (i : Nat) (hi : i < 8 * m.length) (init : BitVec 64) :
    crc64Ref (flipBit m i) init ≠ crc64Ref m init := crc64_flip_ne m i hi init

/-- The slices of the compiled tables are related as crc32_tablegen.c / crc64_tablegen.c build them: slice `s+1` is
    slice `s` advanced by eight more shift steps. -/
theorem crc_table_slices (s b : Nat) :
    tabS P32 (s + 1) b = step8 P32 (tabS P32 s b) ∧ tabS P64 (s + 1) b = step8 P64 (tabS P64 s b) :=
  ⟨tabS_succ P32 s b, tabS_succ P64 s b⟩

/-- non-vacuity / sanity: the classic check value of "123456789". -/
example : crc32Ref [0x31,0x32,0x33,0x34,0x35,0x36,0x37,0x38,0x39] 0 = 0xCBF43926#32 := by decide +kernel
example : crc64Ref [0x31,0x32,0x33,0x34,0x35,0x36,0x37,0x38,0x39] 0 = 0x995DC9BBDF1939FA#64 := by decide +kernel

end XzVerif.C14
