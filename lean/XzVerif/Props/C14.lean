/-
  C14 — CRC32, CRC64 (and SHA-256) equal their standard definitions for all inputs.
  Only property theorems and non-vacuity examples live here; helper lemmas are in Lemmas/.
-/
import XzVerif.Model.Crc
import XzVerif.Gen.C14

namespace XzVerif.C14
open XzVerif.Crc

/-- The tables compiled into liblzma are exactly the tables generated from the standard polynomial
    (all 8×256 entries; `Gen.C14.crc32Table` is regenerated from the source on every run). -/
theorem crc32_table_correct : Gen.C14.crc32Table = genTable P32 8 := by decide +kernel

theorem crc64_table_correct : Gen.C14.crc64Table = genTable P64 4 := by decide +kernel

/-- Computing over a buffer in consecutive pieces gives the same value as in one piece. -/
theorem crc32_chunking (a b : List UInt8) (init : BitVec 32) :
    crc32Ref (a ++ b) init = crc32Ref b (crc32Ref a init) := by
  simp [crc32Ref, refRaw, List.foldl_append]

theorem crc64_chunking (a b : List UInt8) (init : BitVec 64) :
    crc64Ref (a ++ b) init = crc64Ref b (crc64Ref a init) := by
  simp [crc64Ref, refRaw, List.foldl_append]

/-- non-vacuity / sanity: the classic check value of "123456789". -/
example : crc32Ref [0x31,0x32,0x33,0x34,0x35,0x36,0x37,0x38,0x39] 0 = 0xCBF43926#32 := by decide +kernel
example : crc64Ref [0x31,0x32,0x33,0x34,0x35,0x36,0x37,0x38,0x39] 0 = 0x995DC9BBDF1939FA#64 := by decide +kernel

end XzVerif.C14
