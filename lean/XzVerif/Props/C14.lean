/-
  C14 — CRC32, CRC64 (and SHA-256) equal their standard definitions for all inputs.
  Only property theorems and non-vacuity examples live here; helper lemmas are in Lemmas/.
-/
import XzVerif.Model.Crc
import XzVerif.Gen.C14
import XzVerif.Lemmas.Crc

namespace XzVerif.C14
open XzVerif.Crc

/-- The tables compiled into liblzma are exactly the tables generated from the standard polynomial
    (all 8×256 entries; `Gen.C14.crc32Table` is regenerated from the source on every run). -/
theorem crc32_table_correct : Gen.C14.crc32Table = genTable P32 8 := by decide +kernel

theorem crc64_table_correct : Gen.C14.crc64Table = genTable P64 4 := by decide +kernel

/-- `lzma_crc32_generic` (alignment prologue, slice-by-eight loop, byte tail) over the tables that are in the source
    today returns the standard CRC-32 for every buffer, every pointer alignment and every initial value. -/
theorem crc32_generic_eq_ref (align : Nat) (bs : List UInt8) (init : BitVec 32) :
    crc32Generic Gen.C14.crc32Table align bs init = crc32Ref bs init := by
  rw [crc32_table_correct]; exact crc32Generic_genTable align bs init

/-- `lzma_crc64_generic` (slice-by-four) likewise. -/
theorem crc64_generic_eq_ref (align : Nat) (bs : List UInt8) (init : BitVec 64) :
    crc64Generic Gen.C14.crc64Table align bs init = crc64Ref bs init := by
  rw [crc64_table_correct]; exact crc64Generic_genTable align bs init

/-- The result does not depend on the memory alignment of the buffer. -/
theorem crc32_alignment_indep (a1 a2 : Nat) (bs : List UInt8) (init : BitVec 32) :
    crc32Generic Gen.C14.crc32Table a1 bs init = crc32Generic Gen.C14.crc32Table a2 bs init := by
  rw [crc32_generic_eq_ref, crc32_generic_eq_ref]

theorem crc64_alignment_indep (a1 a2 : Nat) (bs : List UInt8) (init : BitVec 64) :
    crc64Generic Gen.C14.crc64Table a1 bs init = crc64Generic Gen.C14.crc64Table a2 bs init := by
  rw [crc64_generic_eq_ref, crc64_generic_eq_ref]

/-- Computing over a buffer in consecutive pieces gives the same value as in one piece. -/
theorem crc32_chunking (a b : List UInt8) (init : BitVec 32) :
    crc32Ref (a ++ b) init = crc32Ref b (crc32Ref a init) := by
  simp [crc32Ref, refRaw, List.foldl_append]

theorem crc64_chunking (a b : List UInt8) (init : BitVec 64) :
    crc64Ref (a ++ b) init = crc64Ref b (crc64Ref a init) := by
  simp [crc64Ref, refRaw, List.foldl_append]

/-- Chunking for the table-driven implementation model: any split, any alignments of the two pieces. -/
theorem crc32_generic_chunking (a1 a2 a3 : Nat) (a b : List UInt8) (init : BitVec 32) :
    crc32Generic Gen.C14.crc32Table a2 b (crc32Generic Gen.C14.crc32Table a1 a init)
      = crc32Generic Gen.C14.crc32Table a3 (a ++ b) init := by
  simp only [crc32_generic_eq_ref, crc32_chunking]

theorem crc64_generic_chunking (a1 a2 a3 : Nat) (a b : List UInt8) (init : BitVec 64) :
    crc64Generic Gen.C14.crc64Table a2 b (crc64Generic Gen.C14.crc64Table a1 a init)
      = crc64Generic Gen.C14.crc64Table a3 (a ++ b) init := by
  simp only [crc64_generic_eq_ref, crc64_chunking]

/-- non-vacuity / sanity: the classic check value of "123456789". -/
example : crc32Ref [0x31,0x32,0x33,0x34,0x35,0x36,0x37,0x38,0x39] 0 = 0xCBF43926#32 := by decide +kernel
example : crc64Ref [0x31,0x32,0x33,0x34,0x35,0x36,0x37,0x38,0x39] 0 = 0x995DC9BBDF1939FA#64 := by decide +kernel

end XzVerif.C14
