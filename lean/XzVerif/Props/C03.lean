/-
  C03 — decoders accept exactly the valid streams and decode them as specified.
  RAW-DECODER LEVEL (LZ dictionary, range decoder, LZMA1 symbol decoder, LZMA2 chunk decoder).
  Only property theorems and non-vacuity examples live here; helper lemmas are in Lemmas/C03*.lean.

  Sections
    1. bridges: the finite-domain functions of the model equal what the REAL code computes (Gen/C03.lean is regenerated
       on every run by running lzma_decoder.c / lzma2_decoder.c on the complete domains)
    2. the same functions equal the FORMAT's tables (LZMA2 control byte, LZMA state machine, lc/lp/pb byte)
    3. invariants of the range decoder and of the probabilities
    4. dictionary: every index is in bounds, the invariant is preserved
    5. probability indices are in bounds
    6. totality / fuel; 6b. the rep-register invariant; 6c. the array accesses of the executable model are in bounds
    7. non-vacuity: concrete streams decoded by the model inside the kernel
    8. filter chains: `lzma_validate_chain` accepts exactly the chains the format allows
  (The container level — Block/Stream/Index — is a separate part of C03, see the section comment at the end.)
-/
import XzVerif.Model.Lzma2
import XzVerif.Gen.C03
import XzVerif.Lemmas.C03Rc
import XzVerif.Lemmas.C03Dict
import XzVerif.Lemmas.C03Probs
import XzVerif.Lemmas.C03Examples
import XzVerif.Lemmas.C03Coder
import XzVerif.Lemmas.C03Fuel
import XzVerif.Lemmas.C03Reps
import XzVerif.Lemmas.C03RepsStream
import XzVerif.Lemmas.C03Chain
import XzVerif.Lemmas.C04CheckedTop
import XzVerif.Model.XzDecode

namespace XzVerif.C03
open XzVerif.RangeDec XzVerif.LzDict XzVerif.Lzma XzVerif.Lzma2

/-! ## 1. bridges to the code (Gen/C03.lean) -/

/-- how the probe prints the result of `lzma_lzma_lclppb_decode` -/
def lclppbCode : Option Props → Nat
  | none => 65535
  | some p => p.lc + 16 * p.lp + 256 * p.pb

/-- `propsDecode` is `lzma_lzma_lclppb_decode` on all 256 bytes. -/
theorem lclppb_matches_code : (List.range 256).map (fun b => lclppbCode (propsDecode b)) = Gen.C03.lclppbTable := by
  decide +kernel

/-- The state-update macros of lzma_common.h on all 12 states (as the compiler expands them) equal the model's. -/
theorem state_machine_matches_code :
    (List.range 12).map updateLiteral = Gen.C03.updateLiteral
    ∧ (List.range 12).map updateMatch = Gen.C03.updateMatch
    ∧ (List.range 12).map updateLongRep = Gen.C03.updateLongRep
    ∧ (List.range 12).map updateShortRep = Gen.C03.updateShortRep
    ∧ (List.range 12).map (fun s => if isLiteralState s then updateLiteralNormal s else updateLiteralMatched s)
        = Gen.C03.updateLiteralSplit
    ∧ (List.range 12).map (fun s => if isLiteralState s then 1 else 0) = Gen.C03.isLiteralState := by
  decide +kernel

/-- `get_dist_state(len)` for every length 2..273. -/
theorem dist_state_matches_code : (List.range 272).map (fun i => getDistState (i + 2)) = Gen.C03.distState := by
  decide +kernel

/-- `rc_update_0` / `rc_update_1` on every 11-bit probability value. -/
theorem prob_update_matches_code :
    (List.range 8).map (fun c => (List.range 256).map (fun i => probUpdate0 (c * 256 + i))) = Gen.C03.prob0
    ∧ (List.range 8).map (fun c => (List.range 256).map (fun i => probUpdate1 (c * 256 + i))) = Gen.C03.prob1 := by
  decide +kernel

/-- `literal_subcoder` for every valid lc/lp, 16 aligned positions and 12 previous bytes. -/
theorem literal_subcoder_matches_code :
    Gen.C03.litSubcoder.all (fun e =>
      e.2.2 == (List.range 16).flatMap (fun pos => Gen.C03.litPrevs.map (fun prev => literalSubcoder e.1 e.2.1 (pos + 576) prev)))
      = true := by
  decide +kernel

/-- how the probe prints the effect of SEQ_CONTROL of the real `lzma2_decode` -/
def controlCode (a : ControlAction) : Nat :=
  if a.isEnd then 1
  else if a.isError then 9
  else
    let seq := if a.isLzma then Gen.C03.SEQ_UNCOMPRESSED_1 else Gen.C03.SEQ_COMPRESSED_0
    let next := if a.isLzma then (if a.newProps then Gen.C03.SEQ_PROPERTIES else Gen.C03.SEQ_LZMA) else Gen.C03.SEQ_COPY
    16 * ((if a.needProps' then 1 else 0) + 2 * (if a.needDictReset' then 1 else 0) + 4 * seq + 32 * next
          + 256 * (if a.stateResetNow then 1 else 0) + 512 * (if a.dictReset then 1 else 0) + 1024 * a.uncompHigh)

/-- `controlStep` does what SEQ_CONTROL of the real `lzma2_decode` does, for all 256 control bytes in all 4 states
    (return code; on LZMA_OK also need_properties, need_dictionary_reset, sequence, next_sequence, whether the LZMA state was
    reset, whether a dictionary reset was requested, and the high bits of the uncompressed size). -/
theorem lzma2_control_matches_code :
    (List.range 4).map (fun st => (List.range 256).map (fun c => controlCode (controlStep c (st / 2 == 1) (st % 2 == 1))))
      = Gen.C03.controlTable := by
  decide +kernel

/-- The constants and the sizes of the probability arrays in the code equal the model's constants and layout. -/
theorem constants_match_code :
    Gen.C03.RC_TOP_VALUE = RC_TOP_VALUE ∧ Gen.C03.RC_BIT_MODEL_TOTAL = RC_BIT_MODEL_TOTAL ∧ Gen.C03.RC_MOVE_BITS = RC_MOVE_BITS
    ∧ Gen.C03.RC_SHIFT_BITS = RC_SHIFT_BITS ∧ Gen.C03.PROB_INIT = PROB_INIT
    ∧ Gen.C03.STATES = STATES ∧ Gen.C03.LIT_STATES = LIT_STATES ∧ Gen.C03.POS_STATES_MAX = POS_STATES_MAX
    ∧ Gen.C03.LITERAL_CODER_SIZE = LITERAL_CODER_SIZE ∧ Gen.C03.LZMA_LCLP_MAX = LZMA_LCLP_MAX ∧ Gen.C03.LZMA_PB_MAX = LZMA_PB_MAX
    ∧ Gen.C03.MATCH_LEN_MIN = MATCH_LEN_MIN ∧ Gen.C03.MATCH_LEN_MAX = LzDict.MATCH_LEN_MAX
    ∧ Gen.C03.LEN_LOW_SYMBOLS = LEN_LOW_SYMBOLS ∧ Gen.C03.LEN_MID_SYMBOLS = LEN_MID_SYMBOLS ∧ Gen.C03.LEN_HIGH_SYMBOLS = LEN_HIGH_SYMBOLS
    ∧ Gen.C03.DIST_STATES = DIST_STATES ∧ Gen.C03.DIST_SLOTS = DIST_SLOTS ∧ Gen.C03.DIST_MODEL_START = DIST_MODEL_START
    ∧ Gen.C03.DIST_MODEL_END = DIST_MODEL_END ∧ Gen.C03.FULL_DISTANCES = FULL_DISTANCES
    ∧ Gen.C03.ALIGN_BITS = ALIGN_BITS ∧ Gen.C03.ALIGN_SIZE = ALIGN_SIZE
    ∧ Gen.C03.LZ_DICT_REPEAT_MAX = LZ_DICT_REPEAT_MAX ∧ Gen.C03.LZ_DICT_INIT_POS = LZ_DICT_INIT_POS
    ∧ Gen.C03.LZ_DICT_EXTRA ≤ LZ_DICT_EXTRA ∧ Gen.C03.LZMA_LZMA1EXT_ALLOW_EOPM = LZMA_LZMA1EXT_ALLOW_EOPM
    -- layout of the flat probability array = the members of lzma_lzma1_decoder, in order
    ∧ P_IS_REP - P_IS_MATCH = Gen.C03.size_is_match ∧ P_IS_REP0 - P_IS_REP = Gen.C03.size_is_rep
    ∧ P_IS_REP1 - P_IS_REP0 = Gen.C03.size_is_rep0 ∧ P_IS_REP2 - P_IS_REP1 = Gen.C03.size_is_rep1
    ∧ P_IS_REP0_LONG - P_IS_REP2 = Gen.C03.size_is_rep2 ∧ P_DIST_SLOT - P_IS_REP0_LONG = Gen.C03.size_is_rep0_long
    ∧ P_POS_SPECIAL - P_DIST_SLOT = Gen.C03.size_dist_slot ∧ P_POS_ALIGN - P_POS_SPECIAL = Gen.C03.size_pos_special
    ∧ P_MATCH_LEN - P_POS_ALIGN = Gen.C03.size_pos_align ∧ P_REP_LEN - P_MATCH_LEN = Gen.C03.size_length_decoder
    ∧ P_LITERAL - P_REP_LEN = Gen.C03.size_length_decoder
    ∧ LEN_MID - LEN_LOW = Gen.C03.size_len_low ∧ LEN_HIGH - LEN_MID = Gen.C03.size_len_mid
    ∧ LEN_CODER_SIZE - LEN_HIGH = Gen.C03.size_len_high
    ∧ probsSize 4 0 - P_LITERAL = Gen.C03.size_literal := by
  decide

/-! ## 2. the format's tables -/

/-- The LZMA2 control byte as the format defines it (xz-file-format §5.3.1 refers to LZMA2; the chunk header is:
    0x00 end of stream; 0x01 uncompressed chunk with dictionary reset; 0x02 uncompressed chunk without; 0x03–0x7F invalid;
    0x80–0xFF LZMA chunk, bits 5–6 = what is reset (0 nothing, 1 state, 2 state + new properties, 3 state + new properties +
    dictionary), bits 0–4 = bits 16–20 of (uncompressed size − 1)).
    Acceptance rules: the first chunk must reset the dictionary (unless a preset dictionary is in use); after a dictionary
    reset the next LZMA chunk must carry properties. -/
def controlSpec (control : Nat) (needProps needDictReset : Bool) : ControlAction :=
  let keep : ControlAction := { needProps' := needProps, needDictReset' := needDictReset }
  if control = 0 then { keep with isEnd := true }
  else if control ≥ 0x80 then
    let level := (control / 32) % 4
    let high := control % 32
    if needDictReset ∧ level < 3 then { keep with isError := true }
    else if needProps ∧ level < 2 then { keep with isError := true, isLzma := true, uncompHigh := high }
    else
      { isLzma := true, dictReset := level = 3, newProps := level ≥ 2, stateResetNow := level = 1, uncompHigh := high,
        needProps' := false, needDictReset' := false }
  else if control = 1 then { dictReset := true, needProps' := true, needDictReset' := false }
  else if control = 2 then
    if needDictReset then { keep with isError := true } else { dictReset := false, needProps' := needProps, needDictReset' := false }
  else { keep with isError := true }

/-- accept/reject and the action taken agree with the format for every control byte in every state -/
def controlAgree (a b : ControlAction) : Bool :=
  a.isEnd == b.isEnd && a.isError == b.isError &&
  (a.isEnd || a.isError || a == b)

theorem lzma2_control_exact :
    ∀ c, c < 256 → ∀ np ndr : Bool, controlAgree (controlStep c np ndr) (controlSpec c np ndr) = true := by
  decide +kernel

/-- The LZMA state machine as the format defines it: next state after a literal / match / long rep / short rep. -/
def specLiteralNext : List Nat := [0, 0, 0, 0, 1, 2, 3, 4, 5, 6, 4, 5]
def specMatchNext : List Nat := [7, 7, 7, 7, 7, 7, 7, 10, 10, 10, 10, 10]
def specRepNext : List Nat := [8, 8, 8, 8, 8, 8, 8, 11, 11, 11, 11, 11]
def specShortRepNext : List Nat := [9, 9, 9, 9, 9, 9, 9, 11, 11, 11, 11, 11]

theorem state_machine_exact :
    (List.range 12).map updateLiteral = specLiteralNext ∧ (List.range 12).map updateMatch = specMatchNext
    ∧ (List.range 12).map updateLongRep = specRepNext ∧ (List.range 12).map updateShortRep = specShortRepNext
    ∧ (∀ s, s < 12 → (if isLiteralState s then updateLiteralNormal s else updateLiteralMatched s) = updateLiteral s)
    ∧ (∀ s, s < 12 → updateLiteral s < 12 ∧ updateMatch s < 12 ∧ updateLongRep s < 12 ∧ updateShortRep s < 12) := by
  decide

/-- lc/lp/pb byte (lzma-file-format.txt §1.1.1 with the XZ Utils restriction lc + lp ≤ 4):
    a byte is accepted iff it is ≤ 224 and its lc + lp ≤ 4, and then lc/lp/pb are the digits of `(pb·5 + lp)·9 + lc`. -/
theorem lzma_props_valid_iff :
    ∀ b, b < 256 →
      ((propsDecode b).isSome = true ↔ (b ≤ (4 * 5 + 4) * 9 + 8 ∧ b % 9 + (b / 9) % 5 ≤ 4))
      ∧ (∀ p, propsDecode b = some p → p.lc = b % 9 ∧ p.lp = (b / 9) % 5 ∧ p.pb = b / 45 ∧ p.valid = true ∧ p.encode = b) := by
  decide +kernel

/-- conversely every valid lc/lp/pb triple is the decoding of its byte -/
theorem lzma_props_roundtrip :
    ∀ lc, lc < 5 → ∀ lp, lp < 5 → ∀ pb, pb < 5 → lc + lp ≤ 4 →
      propsDecode (Props.encode { lc := lc, lp := lp, pb := pb }) = some { lc := lc, lp := lp, pb := pb } := by
  decide +kernel

/-- `lzma_lzma2_props_decode`: the dictionary size byte, all 256 values: bytes > 40 are rejected, 40 is 4 GiB − 1,
    otherwise mantissa 2 or 3 and exponent `b/2 + 11`. -/
theorem lzma2_dict_size_exact :
    ∀ b, b < 256 → lzma2DictSize b = (if b > 40 then none else if b = 40 then some (2 ^ 32 - 1) else some ((2 + b % 2) * 2 ^ (b / 2 + 11))) := by
  decide +kernel

/-! ## 3. range decoder and probabilities -/

/-- Every probability variable stays in `[31, 2017]`: it starts at 1024 and both update rules keep the interval
    (so `0 < bound < range` in every bit decision; the bounds are attained). -/
theorem prob_range_inv :
    ProbInv PROB_INIT ∧ (∀ p, ProbInv p → ProbInv (probUpdate0 p) ∧ ProbInv (probUpdate1 p))
    ∧ probUpdate1 31 = 31 ∧ probUpdate0 2017 = 2017 :=
  ⟨probInv_init, fun _ h => ⟨probInv_update0 h, probInv_update1 h⟩, by decide, by decide⟩

/-- `rc_normalize`: if the range is at least 2^16 (which every operation guarantees, see below) one normalisation step makes
    it `RC_TOP_VALUE ≤ range < 2^32`; the shifts do not overflow 32 bits; `code < range` is preserved. -/
theorem rc_normalize_inv (rc : Rc) (b : Nat) (hb : b < 256) (hw : RcWeak rc) :
    RcNorm (if rc.needsByte then rc.shiftIn b else rc)
    ∧ (rc.code < rc.range → (if rc.needsByte then rc.shiftIn b else rc).code < (if rc.needsByte then rc.shiftIn b else rc).range) :=
  ⟨(normalize_spec rc b hb hw).1, (normalize_spec rc b hb hw).2.1⟩

/-- One decoded bit (`rc_if_0`/`rc_update_0`/`rc_update_1`) on a normalised decoder with a probability in `[31, 2017]`:
    the new probability is in `[31, 2017]`, the new range is ≥ 2^16 and STRICTLY smaller (no bit is free: this is what bounds
    the number of symbols a finite input can encode), `code < range` is preserved, no subtraction wraps. -/
theorem rc_bit_inv (rc : Rc) (p : Nat) (hn : RcNorm rc) (hp : ProbInv p) :
    ProbInv (bitCore rc p).2.2 ∧ RcWeak (bitCore rc p).2.1 ∧ (bitCore rc p).2.1.range < rc.range
    ∧ (rc.code < rc.range → (bitCore rc p).2.1.code < (bitCore rc p).2.1.range) ∧ (bitCore rc p).1 ≤ 1 :=
  let h := bitCore_spec rc p hn hp
  ⟨h.1, h.2.1, h.2.2.1, h.2.2.2.1, h.2.2.2.2.2⟩

/-- One direct bit (`rc_direct`): the range is halved (still ≥ 2^16). `code < range` is preserved when the code lies
    below the doubled half range — the interval a valid encoder leaves; from `code < range` alone only `code ≤ range` follows
    (odd range, code = range − 1: possible only in corrupt input; the arithmetic is mod 2^32 and mirrored exactly). -/
theorem rc_direct_inv (rc : Rc) (hn : RcNorm rc) :
    (directCore rc).2.range = rc.range / 2 ∧ RcWeak (directCore rc).2
    ∧ (rc.code < 2 * (rc.range / 2) → (directCore rc).2.code < (directCore rc).2.range)
    ∧ (rc.code < rc.range → (directCore rc).2.code ≤ (directCore rc).2.range) :=
  let h := directCore_spec rc hn
  ⟨h.1, h.2.1, h.2.2.1, h.2.2.2.1⟩

/-- `rc_read_init`: five bytes, the first one 0x00; afterwards the decoder is normalised and the code has 32 bits. -/
theorem rc_init_inv (inp rest : List UInt8) (rc : Rc) (h : readInit inp = .ok rc rest) :
    RcNorm rc ∧ rc.code < U32 ∧ inp.length = rest.length + 5 ∧ inp.head? = some 0 :=
  readInit_spec inp rc rest h

/-! ## 4. dictionary (index level) — reused by C04 -/

/-- The invariant `PosInv` (pos ≤ limit ≤ size, full ≤ size − 2·288, full = pos − 576 until the first wrap, = size − 576 after)
    holds after initialisation (any dictionary size, any preset length) and is kept by every step the LZ layer and the
    coders take: wrap + limit computation at the top of `decode_buffer`, `dict_put`/`dict_repeat`/`dict_write` (they advance by
    at most `limit − pos`), `lz_decoder_reset`. -/
theorem dict_inv_preserved :
    (∀ dictSize presetLen, PosInv (DictPos.init dictSize presetLen))
    ∧ (∀ p, PosInv p → ∀ outAvail, PosInv ((p.wrap).setLimit outAvail))
    ∧ (∀ p, PosInv p → ∀ n, n ≤ p.avail → PosInv (p.advance n))
    ∧ (∀ p, PosInv p → LZ_DICT_INIT_POS ≤ p.limit → PosInv p.reset) :=
  ⟨posInv_init, fun _ h n => posInv_wrap_setLimit h n, fun _ h n hn => posInv_advance h n hn, fun _ h hl => posInv_reset h hl⟩

/-- (Closed-formula level: GIVEN `PosInv` and `distance < full`. That every dictionary operation of a decoding run happens
    in such a state, and that these index expressions are then inside the buffer at each call, is
    `model_accesses_in_bounds` in section 6c.)
    Under `PosInv`, every buffer index the dictionary functions compute is in bounds:
    * `dict_get(distance)` with `distance < full` (what `dict_is_distance_valid` checks) reads below `size`, and its
      wrapped form is used only after a wrap;
    * `dict_get0` reads `pos − 1 ≥ 0`;
    * `dict_repeat(distance, len)` with `distance < full`, `len ≤ 288`: all reads `back + i` and writes `pos + i`, `i < left`,
      are below `size` resp. `limit`; when `distance ≥ left` (memcpy/SSE2 branch) source and destination are disjoint;
      the 32-byte-block SSE2 variant stays below `size + LZ_DICT_EXTRA` on both sides;
    * the wrap memcpy copies `[size − 288, size)` to `[0, 288)`, disjoint and in bounds. -/
theorem dict_indices_in_bounds (p : DictPos) (h : PosInv p) :
    (∀ d, d < p.full → p.getIndex d < p.size ∧ (p.pos ≤ d → p.hasWrapped = true))
    ∧ (1 ≤ p.pos ∧ p.pos - 1 < p.size)
    ∧ (∀ d len, d < p.full → len ≤ LZ_DICT_REPEAT_MAX →
        p.repeatBack d + p.repeatLeft len ≤ p.size ∧ p.pos + p.repeatLeft len ≤ p.limit ∧ p.repeatLeft len ≤ len
        ∧ (p.repeatLeft len ≤ d → p.repeatBack d + p.repeatLeft len ≤ p.pos ∨ p.pos + p.repeatLeft len ≤ p.repeatBack d)
        ∧ (p.repeatLeft len ≤ d → Dict.sse2WriteEnd p.pos (p.repeatLeft len) ≤ p.size + LZ_DICT_EXTRA
              ∧ p.repeatBack d + (Dict.sse2WriteEnd p.pos (p.repeatLeft len) - p.pos) ≤ p.size + LZ_DICT_EXTRA))
    ∧ (LZ_DICT_REPEAT_MAX ≤ p.size - LZ_DICT_REPEAT_MAX ∧ (p.size - LZ_DICT_REPEAT_MAX) + LZ_DICT_REPEAT_MAX ≤ p.size) :=
  ⟨fun d hd => getIndex_lt h d hd, get0_lt h, fun d len hd hl => repeat_bounds h d len hd hl, wrap_copy_bounds h⟩

/-- The documented relaxation of the dictionary size: at least 4096, rounded up to a multiple of 16, never smaller than asked. -/
theorem dict_size_relaxation (d : Nat) :
    4096 ≤ roundDictSize d ∧ d ≤ roundDictSize d ∧ roundDictSize d % 16 = 0 ∧ roundDictSize d < (if d < 4096 then 4096 else d) + 16 :=
  roundDictSize_ge d

/-! ## 5. probability indices — reused by C04 -/

/-- Every index into the probability arrays that the decoder computes lies in the array (= segment of the flat model array)
    it is meant for, for all states < 12, pos_state < 16 (any pb ≤ 4), lc + lp ≤ 4, any position and previous byte, any bittree node.
    (Closed-formula level. That the indices the EXECUTABLE `decodeSymbol` hands to `probs.getD` / `setIfInBounds` satisfy these
    hypotheses on every input — `state < 12`, array of size `probsSize lc lp`, bit-tree nodes inside their rows — is
    `model_accesses_in_bounds` in section 6c.) -/
theorem prob_indices_in_bounds :
    (∀ pos pb, pb ≤ LZMA_PB_MAX → pos &&& ((1 <<< pb) - 1) < POS_STATES_MAX)
    ∧ (∀ state posState, state < STATES → posState < POS_STATES_MAX →
        P_IS_MATCH + state * POS_STATES_MAX + posState < P_IS_REP
        ∧ P_IS_REP0_LONG + state * POS_STATES_MAX + posState < P_DIST_SLOT)
    ∧ (∀ state, state < STATES → P_IS_REP + state < P_IS_REP0 ∧ P_IS_REP0 + state < P_IS_REP1 ∧ P_IS_REP1 + state < P_IS_REP2
        ∧ P_IS_REP2 + state < P_IS_REP0_LONG)
    ∧ (∀ len sym, sym < DIST_SLOTS → P_DIST_SLOT + getDistState len * DIST_SLOTS + sym < P_POS_SPECIAL)
    ∧ (∀ slot, slot < 14 → ∀ m, m < 32 → (4 ≤ slot ∧ 1 ≤ m ∧ m < 2 ^ ((slot >>> 1) - 1)) →
        P_POS_SPECIAL ≤ P_POS_SPECIAL + ((2 + (slot &&& 1)) <<< ((slot >>> 1) - 1)) - slot - 1 + m
        ∧ P_POS_SPECIAL + ((2 + (slot &&& 1)) <<< ((slot >>> 1) - 1)) - slot - 1 + m < P_POS_ALIGN)
    ∧ (∀ offset sym, (offset = 1 ∨ offset = 2 ∨ offset = 4 ∨ offset = 8) → sym < offset → P_POS_ALIGN + offset + sym < P_MATCH_LEN)
    ∧ (∀ posState, posState < POS_STATES_MAX →
        (∀ sym, sym < LEN_LOW_SYMBOLS → LEN_LOW + posState * LEN_LOW_SYMBOLS + sym < LEN_MID)
        ∧ (∀ sym, sym < LEN_MID_SYMBOLS → LEN_MID + posState * LEN_MID_SYMBOLS + sym < LEN_HIGH)
        ∧ (∀ sym, sym < LEN_HIGH_SYMBOLS → LEN_HIGH + sym < LEN_CODER_SIZE))
    ∧ (∀ lc lp pos prev sub, lc + lp ≤ LZMA_LCLP_MAX → sub < LITERAL_CODER_SIZE →
        P_LITERAL + literalSubcoder lc lp pos prev + sub < probsSize lc lp
        ∧ literalSubcoder lc lp pos prev + sub < LITERAL_CODER_SIZE <<< (lc + lp))
    ∧ (∀ offset len sym, (offset = 0 ∨ offset = 0x100) → sym < 0x100 → offset + (len &&& offset) + sym < LITERAL_CODER_SIZE) :=
  ⟨posState_lt,
   fun st ps hs hp => ⟨(isMatch_idx st ps hs hp).1, (isMatch_idx st ps hs hp).2.2⟩,
   isRep_idx,
   distSlot_idx,
   fun slot hs m hm hc => ⟨(posSpecial_idx slot hs m hm hc).2.2.2, (posSpecial_idx slot hs m hm hc).2.2.1⟩,
   fun o s ho hs => (posAlign_idx o s ho hs).1,
   fun ps hp => ⟨(len_idx ps hp).2.2.1, (len_idx ps hp).2.2.2.1, (len_idx ps hp).2.2.2.2.1⟩,
   fun lc lp pos prev sub h hs => ⟨(literal_idx lc lp pos prev sub h hs).1, (literal_idx lc lp pos prev sub h hs).2.1⟩,
   fun o l s ho hs => (matchedLit_idx o l s ho hs).1⟩

/-- decoded match lengths are within `MATCH_LEN_MIN .. MATCH_LEN_MAX` (≤ LZ_DICT_REPEAT_MAX, as `dict_repeat` needs) -/
theorem match_len_range (s3 s8 : Nat) (h3 : 8 ≤ s3 ∧ s3 < 16) (h8 : 256 ≤ s8 ∧ s8 < 512) :
    2 ≤ MATCH_LEN_MIN + (s3 - LEN_LOW_SYMBOLS) ∧ MATCH_LEN_MIN + LEN_LOW_SYMBOLS + (s3 - LEN_MID_SYMBOLS) ≤ 17
    ∧ 18 ≤ MATCH_LEN_MIN + LEN_LOW_SYMBOLS + LEN_MID_SYMBOLS + (s8 - LEN_HIGH_SYMBOLS)
    ∧ MATCH_LEN_MIN + LEN_LOW_SYMBOLS + LEN_MID_SYMBOLS + (s8 - LEN_HIGH_SYMBOLS) ≤ LzDict.MATCH_LEN_MAX
    ∧ LzDict.MATCH_LEN_MAX ≤ LZ_DICT_REPEAT_MAX :=
  ⟨(len_range s3 s8 h3 h8).1, (len_range s3 s8 h3 h8).2.1, (len_range s3 s8 h3 h8).2.2.1, (len_range s3 s8 h3 h8).2.2.2, by decide⟩

/-! ## 6. totality and the coder law

  Every function of the model is a total Lean function: all recursion is structural (on bit counts, on explicit fuel, on
  `init_bytes_left`), so Lean's acceptance of the definitions already shows that no loop of the MODEL runs forever.
  What ties this to "no unbounded loop in the decoder" is that the fuel is never exhausted (an exhaustion would surface as
  LZMA_PROG_ERROR); that is proved here for all three loops, with the fuels
    * `symLoop`       limit − pos + 2          (every symbol that does not end the call writes ≥ 1 byte)
    * `lzma2Loop`     2·(input left) + 4       (every iteration consumes a byte, except SEQ_LZMA → SEQ_CONTROL, followed by one that does)
    * `decodeBuffer`  input left + output left + 4   (every repetition consumes input (dictionary reset) or fills the dictionary)
  Helper lemmas: Lemmas/C03{Hoare,Frame,Call,Coder,Fuel}.lean (a small Hoare logic for the decoding monad). -/

/-- NO FUEL IS EVER EXHAUSTED: for every last filter that initialises, every input and every output allowance, the first
    call of `code` — and, by induction (`Coder.Ok2` is preserved), every later call — never answers LZMA_PROG_ERROR.
    Together with Lean's acceptance of the (structurally recursive) definitions this is the totality of the decoder in the
    meaningful sense: every loop of the model stops by itself, for a reason the C code also has
    (`symLoop`: every symbol writes a byte; `lzma2Loop`: every iteration consumes a byte or leaves SEQ_LZMA;
    `decodeBuffer`: every repetition consumes input or fills the dictionary). -/
theorem fuel_never_exhausted (last : LastFilter) (input : ByteArray) (c : Coder) (h : last.init input = .ok c) :
    c.Ok2 ∧ ∀ (c' : Coder), c'.Ok2 → ∀ outCap, (c'.code outCap).1 ≠ Ret.progError ∧ (c'.code outCap).2.Ok2 := by
  refine ⟨?_, fun c' h' outCap => Coder.code_no_prog_error c' outCap h'⟩
  cases last with
  | lzma1 props d p =>
    simp only [LastFilter.init] at h
    split at h
    · cases h
    · injection h with h; subst h; exact Coder.ok2_initLzma1 _ _ _ _ _ _
  | lzma1ext props d p f e =>
    simp only [LastFilter.init] at h
    split at h
    · cases h
    · split at h
      · cases h
      · injection h with h; subst h; exact Coder.ok2_initLzma1 _ _ _ _ _ _
  | lzma2 d p =>
    simp only [LastFilter.init] at h
    injection h with h; subst h; exact Coder.ok2_initLzma2 _ _ _

/-- One call of `lzma_decode` (any state whose dictionary position is below its limit): the main loop's fuel
    `limit − pos + 2` is never exhausted and the loop is only left through an exit, so the call never answers
    LZMA_PROG_ERROR; the input cursor only moves forward and stays inside the input; output bytes and dictionary position
    advance together and stay within the caller's limit (which is restored afterwards). -/
theorem lzma_call_total (s : St) (h : s.dp.pos ≤ s.dp.limit) :
    (lzmaCall s).1 ≠ Ret.progError
    ∧ (lzmaCall s).2.inp = s.inp ∧ s.inPos ≤ (lzmaCall s).2.inPos ∧ (s.inPos ≤ s.inp.size → (lzmaCall s).2.inPos ≤ s.inp.size)
    ∧ (lzmaCall s).2.dp.limit = s.dp.limit ∧ (lzmaCall s).2.dp.pos ≤ s.dp.limit
    ∧ (lzmaCall s).2.hist.size + s.dp.pos = s.hist.size + (lzmaCall s).2.dp.pos := by
  have sp := lzmaCall_spec s h
  refine ⟨sp.2, sp.1.inp, sp.1.pos_mono, ?_, sp.1.limit, ?_, sp.1.hist_eq⟩
  · intro hi; have := sp.1.pos_le hi; rw [sp.1.inp] at this; exact this
  · have := sp.1.in_limit h; rw [sp.1.limit] at this; exact this

/-- The symbol decoder proper (everything between two output steps: range decoder, bittrees, state machine, rep
    registers) touches neither the dictionary nor the output, moves the input cursor only forward and never past the
    end of the input, never exhausts fuel, and yields an output step (a literal, a short rep, or a copy of length ≥ 2). -/
theorem symbol_decoder_frame (eopmValid : Bool) (s : St) :
    Fr s (resSt (decodeSymbol eopmValid s))
    ∧ (∀ act s', decodeSymbol eopmValid s = .ok act s' → IsWrite act)
    ∧ (∀ s', decodeSymbol eopmValid s ≠ .error .fuel s') :=
  sat_decodeSymbol eopmValid s

/-- a freshly initialised coder is well formed, has consumed and produced nothing and holds the given input -/
theorem coder_init_ok (last : LastFilter) (input : ByteArray) (c : Coder) (h : last.init input = .ok c) :
    c.Ok ∧ c.consumed = 0 ∧ c.produced = 0 ∧ c.s.inp = input := by
  cases last with
  | lzma1 props d p =>
    simp only [LastFilter.init] at h
    split at h
    · cases h
    · injection h with h; subst h
      refine ⟨Coder.ok_initLzma1 _ _ _ _ _ _, rfl, ?_, rfl⟩
      simp [Coder.produced, St.produced, Coder.initLzma1, St.initLzma1, St.resetLzma, byteArray_mk_size]
  | lzma1ext props d p f e =>
    simp only [LastFilter.init] at h
    split at h
    · cases h
    · split at h
      · cases h
      · injection h with h; subst h
        refine ⟨Coder.ok_initLzma1 _ _ _ _ _ _, rfl, ?_, rfl⟩
        simp [Coder.produced, St.produced, Coder.initLzma1, St.initLzma1, St.resetLzma, byteArray_mk_size]
  | lzma2 d p =>
    simp only [LastFilter.init] at h
    injection h with h; subst h
    refine ⟨Coder.ok_initLzma2 _ _ _, rfl, ?_, rfl⟩
    simp [Coder.produced, St.produced, Coder.initLzma2, Lzma2.initLzma2, byteArray_mk_size]

/-- THE CODER LAW (what every container decoder built on these models relies on): one call of `code` on a well-formed
    coder — the first one with the whole input, or a later one that only adds output space — keeps the coder well
    formed and the input unchanged, moves the cursor only forward and never past the end of the input, adds at most
    `outCap` bytes of output and keeps what was already produced. -/
theorem coder_law (c : Coder) (h : c.Ok) (outCap : Nat) :
    (c.code outCap).2.Ok ∧ (c.code outCap).2.s.inp = c.s.inp
    ∧ c.consumed ≤ (c.code outCap).2.consumed ∧ (c.code outCap).2.consumed ≤ c.s.inp.size
    ∧ c.produced ≤ (c.code outCap).2.produced ∧ (c.code outCap).2.produced ≤ c.produced + outCap :=
  Coder.code_spec c outCap h

/-- The whole-input functions obey the coder law: `consumed ≤ input.length` and `out.length ≤ outCap`
    (for chains without non-last filters the output is the last filter's output). -/
theorem decode_result_bounds (ch : Chain) (input : List UInt8) (outCap : Nat) :
    (rawDecode ch input outCap).consumed ≤ input.length
    ∧ (ch.pre = [] → (rawDecode ch input outCap).out.length ≤ outCap) := by
  unfold rawDecode
  cases hi : ch.last.init (ByteArray.mk input.toArray) with
  | error r => exact ⟨Nat.zero_le _, fun _ => Nat.zero_le _⟩
  | ok c =>
    have hl := coder_init_ok ch.last _ c hi
    have hc := coder_law c hl.1 outCap
    simp only []
    refine ⟨?_, ?_⟩
    · have := hc.2.2.2.1
      rw [hl.2.2.2, byteArray_mk_size] at this
      exact this
    · intro hpre
      have h6 := hc.2.2.2.2.2
      rw [hl.2.2.1] at h6
      unfold Chain.post
      rw [hpre, List.foldr_nil, Coder.output_length]
      omega


/-! ## 6b. the rep-register invariant (why every distance handed to the dictionary is valid) — reused by C04

  `RepsOk s := (state ≥ LIT_STATES → dict.full > 0) ∧ every rep_i is 0 or < dict.full`.
  In the C code the match distance of a simple match is checked (`dict_is_distance_valid(&dict, rep0)`), but repeated
  matches and matched literals use `rep0..rep3` after checking only `dict.full > 0`; that this is enough is this invariant. -/

/-- `RepsOk` holds after `lzma_decoder_reset`; one symbol decode that returns normally keeps it, does not touch the dictionary,
    and when its output step is a short rep or a copy then `rep0 < dict.full`; the matched-literal read `dict_get(rep0)`
    (state not a literal state) has `rep0 < dict.full`; the output step keeps it while the dictionary positions are well
    formed. With `dict_indices_in_bounds` every dictionary index computed between two resets of the dictionary is in bounds
    (across resets, for whole LZMA2 streams: `reps_invariant_lzma2` below). -/
theorem reps_invariant :
    (∀ (s : St) (p : Props), RepsOk (s.resetLzma p))
    ∧ (∀ (ev : Bool) (s : St) (act : Pending) (s' : St), RepsOk s → decodeSymbol ev s = .ok act s' →
          RepsOk s' ∧ s'.dp = s.dp ∧ (usesRep0 act → s'.rep0 < s'.dp.full))
    ∧ (∀ (s : St), RepsOk s → isLiteralState s.state = false → s.rep0 < s.dp.full)
    ∧ (∀ (p : Pending) (s s' : St), RepsOk s → PosInv s.dp → doWrite p s = .ok () s' → RepsOk s' ∧ PosInv s'.dp) :=
  ⟨repsOk_reset, fun ev s act s' h he => decodeSymbol_repsOk ev s act s' h he, matched_literal_read_valid,
   fun p s s' h hp he => doWrite_repsOk p s s' h hp he⟩

/-- ONE CALL of `lzma_decode` in the configuration LZMA2 chunks run in (`NoEopm`: known uncompressed size, `allow_eopm = false`,
    `eopm_is_valid = false`), started from well-formed dictionary positions and a state that is either stuck for good
    (`pending = stuck`: the input ended inside a symbol, or LZMA_DATA_ERROR) or satisfies `RepsOk`: the same holds afterwards.
    Inside the call every iteration of the main loop (`symStep`: end-of-chunk test, one symbol, its output step — complete or
    stopped at the dictionary limit) keeps `RepsOk` and `PosInv` on every way out after which decoding can continue
    (normal return, output full, end of chunk), never changes the configuration, and never switches `eopm_is_valid` on. So
    every `dict_get(rep0)` / `dict_repeat(rep0, …)` of the call happens with `rep0 < dict.full` under `PosInv`
    (`reps_invariant`), i.e. in bounds (`dict_indices_in_bounds`). The end-of-payload marker (which would leave
    `rep0 = UINT32_MAX` behind) cannot be accepted: `decodeSymbol false` never exits with LZMA_STREAM_END. -/
theorem reps_invariant_call :
    (∀ (s : St), PosInv s.dp → NoEopm s → RepsOrStuck s →
        PosInv (lzmaCall s).2.dp ∧ NoEopm (lzmaCall s).2 ∧ RepsOrStuck (lzmaCall s).2)
    ∧ (∀ (mf : Bool) (s : St), RepsOk s → PosInv s.dp → s.allowEopm = false →
        RunInv s (symStep false mf s) ∧ ∀ a s', symStep false mf s = .ok a s' → a = false)
    ∧ (∀ (s : St) (e : Exit) (s' : St), decodeSymbol false s = .error e s' → e = .needInput ∨ e = .dataError) := by
  refine ⟨lzmaCall_inv, symStep_inv, fun s e s' h => ?_⟩
  rcases (sate_decodeSymbol false s).2 e s' h with h1 | h1 | ⟨_, h1⟩
  · exact Or.inl h1
  · exact Or.inr h1
  · cases h1

/-- THE REP-REGISTER INVARIANT ALONG A WHOLE LZMA2 STREAM, for every dictionary size, preset dictionary, input, and every
    slicing of the output space into calls of `code`. Between any two calls the sequence-aware invariant `L2R` holds (what is
    owed depends on `sequence`: a dictionary reset empties the dictionary while the old `state`/`rep` values are still in
    place; then `need_properties` is set or `next_sequence = SEQ_PROPERTIES`, so `lzma_decoder_reset` runs before the next
    symbol — this is where the control-byte rules of `lzma2_control_exact` are used), the dictionary positions are well
    formed (`PosW`; `PosInv` after the limit computation at the top of `decode_buffer`), and no dictionary reset is pending.
    In particular: whenever the coder is in SEQ_LZMA, the chunk configuration excludes the end-of-payload marker, and unless the
    LZMA decoder is stuck for good (no symbol will ever be decoded again) `RepsOk` holds.
    With `reps_invariant_call` (inside a call), `reps_invariant` (per symbol) and `dict_indices_in_bounds` this gives: every
    dictionary access of the model LZMA2 decoder, on ANY input, is in bounds — made formal, on the executable definitions, by
    `model_accesses_in_bounds` (section 6c). -/
theorem reps_invariant_lzma2 (dictSize : Nat) (preset : List UInt8) (input : ByteArray) (calls : List Nat) :
    let c := calls.foldl (fun (c : Coder) cap => (c.code cap).2) (Coder.initLzma2 dictSize preset input)
    (c.s.l2.seq = .lzma → c.s.pending ≠ .stuck → RepsOk c.s)
    ∧ (c.s.l2.seq = .lzma → NoEopm c.s)
    ∧ L2R c.s ∧ PosW c.s.dp ∧ c.s.dp.needReset = false := by
  intro c
  have h := reps_lzma2_stream dictSize preset input calls
  exact ⟨fun hs hn => (h.2 hs).2 hn, fun hs => (h.2 hs).1, h.1.l2r, h.1.pos, h.1.noReset⟩

/-- the dictionary positions between calls (`PosW`) become `PosInv` by the wrap + limit computation at the top of
    `decode_buffer`, whatever the output allowance; `lz_decoder_reset` keeps `PosW` -/
theorem dict_inv_between_calls (p : DictPos) (h : PosW p) :
    (∀ outAvail, PosInv ((p.wrap).setLimit outAvail)) ∧ PosW p.reset :=
  ⟨fun n => posInv_of_posW h n, posW_reset h⟩

/-- non-vacuity: the invariant of a fresh coder, and of a state in SEQ_LZMA -/
example : L2R (Coder.initLzma2 4096 [] (ByteArray.mk #[])).s ∧ PosW (Coder.initLzma2 4096 [] (ByteArray.mk #[])).s.dp :=
  ⟨(Coder.repsInv_init 4096 [] _).2.l2r, (Coder.repsInv_init 4096 [] _).2.pos⟩

/-! ## 6c. the array accesses of the EXECUTABLE model are in bounds (audit finding F-05)

  Sections 4 and 5 are about closed formulas; the executable decoders (what the driver runs) index with totalised
  accessors (`probs.getD idx 0`, `setIfInBounds`, `hist.get!` behind `if distance < hist.size … else 0`, …), which can
  never fail. Lemmas/C04Checked.lean has the same programs with PARTIAL accessors (`a[i]'h`, `a.set i v h`) that stop
  with a distinguished `oob` outcome where the bound is not known, and with the C-level dictionary index expressions of
  section 4 (`getIndex`, `pos − 1`, `pos`, `back + left`, `pos + left`) and `distance < dict.full` tested at every
  dictionary operation. The full statement and the list of what is instrumented are in Props/C04.lean
  (`decoder_accesses_in_bounds`, `symbol_decoder_accesses_in_bounds`, proved in Lemmas/C04Checked*.lean from
  `reps_invariant_lzma2`, `dict_inv_preserved`, the probability layout, lc + lp ≤ 4); restated here for the three
  whole-input functions this property's correspondence runs. -/

/-- On EVERY input the checked decoders (`none` = some array access out of bounds / some C-level dictionary index outside
    the buffer) return `some` of exactly what the executable decoders return: LZMA1 for every valid lc/lp/pb (the others
    are refused at initialisation: `raw_init_exact`), LZMA2, and any raw chain. So no totalised default is ever taken, and
    the instrumentation changes no result. -/
theorem model_accesses_in_bounds :
    (∀ (props : Props), props.valid = true → ∀ (dictSize : Nat) (uncompSize : Option Nat) (allowEopm : Bool)
        (input presetDict : List UInt8) (outCap : Nat),
        lzmaDecodeC props dictSize uncompSize allowEopm input presetDict outCap
          = some (lzmaDecode props dictSize uncompSize allowEopm input presetDict outCap))
    ∧ (∀ (dictSize : Nat) (input presetDict : List UInt8) (outCap : Nat),
        lzma2DecodeC dictSize input presetDict outCap = some (lzma2Decode dictSize input presetDict outCap))
    ∧ (∀ (ch : Chain) (input : List UInt8) (outCap : Nat), rawDecodeC ch input outCap = some (rawDecode ch input outCap)) :=
  ⟨fun props hv d u a i p c => lzmaDecode_checked props hv d u a i p c, fun d i p c => lzma2Decode_checked d i p c,
   fun ch i c => rawDecode_checked ch i c⟩

/-- non-vacuity: the checked decoder runs (uncompressed LZMA2 chunk; LZMA1 literal), and it does report `oob` outside the
    invariant (a probability read before any `lzma_decoder_reset`) -/
example : lzma2DecodeC 4096 [0x01, 0x00, 0x01, 0x41, 0x42, 0x00] = some { ret := .streamEnd, out := [0x41, 0x42], consumed := 6 } := by
  decide +kernel
example : ∃ s', rcBitC M_IS_MATCH 0 (initLzma2 4096 [] (ByteArray.mk #[])) = .error .oob s' := ⟨_, rfl⟩

/-- Initialisation is total and rejects exactly the documented cases: PROG_ERROR for lc/lp/pb outside `is_lclppb_valid`,
    OPTIONS_ERROR for LZMA1EXT flags other than LZMA_LZMA1EXT_ALLOW_EOPM; nothing else fails (allocation aside). -/
theorem raw_init_exact (last : LastFilter) (input : ByteArray) :
    match last with
    | .lzma1 props _ _ => (last.init input).toOption.isSome = props.valid
    | .lzma1ext props _ _ extFlags _ =>
        (last.init input).toOption.isSome = (props.valid && (extFlags &&& (0xFFFFFFFF - LZMA_LZMA1EXT_ALLOW_EOPM) == 0))
    | .lzma2 _ _ => (last.init input).toOption.isSome = true := by
  cases last with
  | lzma1 props d p => simp only [LastFilter.init]; cases props.valid <;> simp [Except.toOption]
  | lzma1ext props d p f e =>
    simp only [LastFilter.init]
    cases props.valid <;> simp [Except.toOption]
    by_cases hf : f &&& 4294967294 = 0 <;> simp [hf]
  | lzma2 d p => simp [LastFilter.init, Except.toOption]

/-! ## 7. non-vacuity: concrete streams through the model, evaluated by the kernel -/

/-- LZMA2: the end marker alone; bytes after it are not consumed. -/
example : lzma2Decode 4096 [0x00, 0x55] = { ret := .streamEnd, out := [], consumed := 1 } := by decide +kernel
/-- LZMA2: the first chunk must reset the dictionary (0x02 = uncompressed chunk without reset is rejected at once). -/
example : lzma2Decode 4096 [0x02, 0x00, 0x00, 0x41, 0x00] = { ret := .dataError, out := [], consumed := 1 } := by decide +kernel
/-- … unless a preset dictionary is in use. -/
example : lzma2Decode 4096 [0x02, 0x00, 0x00, 0x41, 0x00] [0x7A] = { ret := .streamEnd, out := [0x41], consumed := 5 } := by decide +kernel
/-- LZMA2: uncompressed chunk with dictionary reset, then the end marker. -/
example : lzma2Decode 4096 [0x01, 0x00, 0x01, 0x41, 0x42, 0x00] = { ret := .streamEnd, out := [0x41, 0x42], consumed := 6 } := by decide +kernel
/-- LZMA2: after a dictionary reset an LZMA chunk without properties (0x80) is rejected. -/
example : lzma2Decode 4096 [0x01, 0x00, 0x00, 0x41, 0x80, 0x00] = { ret := .dataError, out := [0x41], consumed := 5 } := by decide +kernel
/-- LZMA2: truncated input is `LZMA_OK` with everything consumed; too little output space is `LZMA_OK` with input left. -/
example : lzma2Decode 4096 [0x01, 0x00, 0x01, 0x41] = { ret := .ok, out := [0x41], consumed := 4 } := by decide +kernel
example : lzma2Decode 4096 [0x01, 0x00, 0x01, 0x41, 0x42, 0x00] [] 1 = { ret := .ok, out := [0x41], consumed := 4 } := by decide +kernel
/-- LZMA1: the empty stream of known size 0; a first byte other than 0x00 is a data error and is not consumed. -/
example : lzmaDecode { lc := 0, lp := 0, pb := 0 } 4096 (some 0) false [0, 0, 0, 0, 0] = { ret := .streamEnd, out := [], consumed := 5 } := by
  decide +kernel
example : lzmaDecode { lc := 3, lp := 0, pb := 2 } 4096 none true [1, 0, 0, 0, 0] = { ret := .dataError, out := [], consumed := 0 } := by
  decide +kernel
/-- LZMA1, known size 1 without end marker: one literal. -/
example : lzmaDecode { lc := 0, lp := 0, pb := 0 } 4096 (some 1) false [0, 48, 127, 252, 0, 0] = { ret := .streamEnd, out := [0x61], consumed := 6 } := by
  decide +kernel
/-- LZMA1 with literals, a match, a short rep and the end marker (kernel-evaluated in Lemmas/C03Examples.lean). -/
example : lzmaDecode { lc := 0, lp := 0, pb := 0 } 4096 none true [0, 48, 153, 198, 144, 233, 251, 103, 255, 255, 237, 105, 128, 0]
      = { ret := .streamEnd, out := [0x61, 0x62, 0x61, 0x62, 0x61, 0x62, 0x61], consumed := 14 } := ex_lzma1_eopm
/-- raw chain level: invalid lc/lp/pb is LZMA_PROG_ERROR, unknown LZMA1EXT flags are LZMA_OPTIONS_ERROR. -/
example : (rawDecode { last := .lzma1 { lc := 4, lp := 1, pb := 0 } 4096 [] } [0]).ret = .progError := by decide +kernel
example : (rawDecode { last := .lzma1ext { lc := 3, lp := 0, pb := 2 } 4096 [] 2 0 } [0]).ret = .optionsError := by decide +kernel
/-- the hypotheses of the invariant theorems are satisfiable -/
example : RcNorm Rc.reset ∧ ProbInv 1024 ∧ PosInv (DictPos.init 0 0) :=
  ⟨⟨by decide, by decide⟩, by decide, posInv_init 0 0⟩

/-! ## 8. filter chains (xz-file-format §3.1.5 "List of Filter Flags" / §5.3; filter_common.c `lzma_validate_chain`)

  The `features[]` table the rule is read from is bridged to the source by Props/C02 `gen_features` (regenerated). -/

/-- `lzma_validate_chain` (the test both `lzma_raw_decoder_init` and the Block decoder's `lzma_raw_decoder_memusage` apply)
    accepts EXACTLY the chains the format allows (`Container.ChainValid`): 1 to 4 filters, every one a known filter, every
    filter but the last allowed as a non-last filter (BCJ, Delta), the last one allowed as a last filter (LZMA1, LZMA1EXT,
    LZMA2), at most three size-changing filters; it then returns the number of filters. An empty chain is the API misuse
    LZMA_PROG_ERROR; every other rejection is LZMA_OPTIONS_ERROR. -/
theorem filters_1_to_4 (ids : List Nat) :
    ((∃ n, Container.validateChain ids = .ok n) ↔ Container.ChainValid ids)
    ∧ (∀ n, Container.validateChain ids = .ok n → n = ids.length)
    ∧ Container.validateChain [] = .error .progError
    ∧ (∀ e, Container.validateChain ids = .error e → ids ≠ [] → e = .optionsError) :=
  ⟨Container.validateChain_iff ids, Container.validateChain_count ids, Container.validateChain_empty,
   fun e h hne => Container.validateChain_error ids e h hne⟩

/-- the rule spelled out (this is the definition of `Container.ChainValid`) -/
theorem chain_rule_spelled_out (ids : List Nat) :
    Container.ChainValid ids ↔
      (1 ≤ ids.length ∧ ids.length ≤ 4
       ∧ (∀ id ∈ ids, (Container.findFeature id).isSome = true)
       ∧ (∀ id ∈ ids.dropLast, Container.idNonLastOk id = true)
       ∧ (∀ id ∈ ids.getLast?, Container.idLastOk id = true)
       ∧ (ids.filter Container.idChangesSize).length ≤ 3) := Iff.rfl

/-- In the .xz decoder model the rule is enforced per Block: a Block Header that decodes but whose chain violates the rule
    ends the Stream decoder with LZMA_OPTIONS_ERROR right after the header (`lzma_raw_decoder_memusage() == UINT64_MAX` in
    stream_decoder.c), whatever follows. -/
theorem invalid_chain_rejected (E : XzDecode.Env) (fl : XzDecode.Flags) (hdr : Container.StreamFlags) (fuel : Nat)
    (blocks : XzDecode.HashInfo) (b0 : UInt8) (rest : List UInt8) (outCap : Nat) (h : Container.BlockHeader)
    (hb0 : b0.toNat ≠ Container.INDEX_INDICATOR) (hlen : (b0.toNat + 1) * 4 ≤ (b0 :: rest).length)
    (hh : Container.blockHeaderDecodeWith ((b0.toNat + 1) * 4) hdr.check ((b0 :: rest).take ((b0.toNat + 1) * 4)) = .ok h)
    (hc : ¬ Container.ChainValid (h.filters.map (·.id))) :
    XzDecode.blocksLoop E fl hdr (fuel + 1) blocks (b0 :: rest) outCap
      = { ret := .optionsError, out := [], consumed := (b0.toNat + 1) * 4 } := by
  have hv : ∀ n, Container.validateChain (h.filters.map (·.id)) ≠ .ok n :=
    fun n hn => hc ((Container.validateChain_iff _).mp ⟨n, hn⟩)
  unfold XzDecode.blocksLoop
  simp only [hb0, if_false]
  rw [if_neg (by omega), hh]
  simp only []
  cases hvc : Container.validateChain (h.filters.map (·.id)) with
  | error e => rfl
  | ok n => exact absurd hvc (hv n)

/-- non-vacuity: accepted and refused chains -/
example : Container.ChainValid [Container.FILTER_X86, Container.FILTER_DELTA, Container.FILTER_ARM, Container.FILTER_LZMA2]
    ∧ ¬ Container.ChainValid [Container.FILTER_X86, Container.FILTER_DELTA, Container.FILTER_ARM, Container.FILTER_DELTA, Container.FILTER_LZMA2]
    ∧ ¬ Container.ChainValid [Container.FILTER_LZMA2, Container.FILTER_LZMA2] ∧ ¬ Container.ChainValid [Container.FILTER_X86] := by
  decide

/-! ## CONTAINER LEVEL (Stream / Block / Index / filter chains with delta and BCJ)
  is a separate part of C03: Props/C03Container.lean (`block_sizes_enforced`, `index_matches_blocks`, `xz_decode_sound`,
  `xz_decode_functional`, `xz_decode_complete_partial`; audited by the same check). The filter-chain rule of the format
  (`filters_1_to_4`) is stated above in section 8. -/

end XzVerif.C03
