/-
  C12 — model of the ENCODER-SIDE CONTROL LOGIC that decides what a flush action and a mid-stream
  option change do.  Core Lean only (the driver `xzm_c12` links this file).

  Mirrors (state variables, order of checks, return codes):
    lz/lz_encoder.c        lz_encode / fill_window: action handling ("all input consumed" on a flush makes the
                           whole window encodable: read_limit = write_pos; otherwise keep_size_after bytes stay back)
    lzma/lzma2_encoder.c   lzma2_encode (SEQ_INIT: nothing unencoded + flush -> STREAM_END, end marker only on FINISH;
                           chunk headers from need_properties / need_state_reset / need_dictionary_reset),
                           lzma2_encoder_options_update (only at SEQ_INIT; sets need_properties + need_state_reset)
    lzma/lzma_encoder.c    lzma_encode: LZMA1 answers SYNC_FLUSH with LZMA_OPTIONS_ERROR
    simple/simple_coder.c  simple_code: BCJ answers SYNC_FLUSH with LZMA_OPTIONS_ERROR; bytes may be held back
    delta/delta_encoder.c  pass-through, no delay
    common/block_encoder.c block_encode (size accounting, SEQ_PADDING, SEQ_CHECK), block_encoder_update
    common/stream_encoder.c stream_encode (convert[], SEQ_BLOCK_INIT no-empty-Block rule, Index append),
                           stream_encoder_update (three cases by sequence)
    common/stream_encoder_mt.c  Block boundaries (block_size, FULL_FLUSH/FULL_BARRIER), stream_encoder_mt_update
    common/filter_encoder.c lzma_filters_update (validation first), common/filter_common.c lzma_validate_chain
    common/common.c        lzma_code: supported_actions, fatal errors, ISEQ_END

  ABSTRACT (as in C01): the compressor.  `Codec.choose` stands for the match finder + optimum parser + range
  encoder: it decides how many of the unencoded bytes the next LZMA2 chunk covers and what its payload is;
  `Codec.dec` is the matching chunk decoder.  The laws the theorems assume are `Codec.Sound`.
  The byte TRANSFORMATION of delta/BCJ filters is not modelled (identity; C15 proves they are bijections);
  what matters here is WHEN bytes are handed on: a BCJ filter may hold bytes back under LZMA_RUN (`Env.hold`).
  The match finder's `pending` replay after a flush only changes which matches are found, i.e. `choose`.

  Granularity: one model step = one operation driven to completion with unlimited output space
  (slicing independence is C06; the harness drives every operation to completion under its slicing).
-/
import XzVerif.Model.Ret
import XzVerif.Model.Vli

namespace XzVerif.Flush
open XzVerif

abbrev Bytes := List UInt8

/-! ## lzma_action -/

inductive Action where
  | run | syncFlush | fullFlush | finish | fullBarrier
  deriving DecidableEq, Repr, Inhabited

def Action.code : Action → Nat
  | .run => 0 | .syncFlush => 1 | .fullFlush => 2 | .finish => 3 | .fullBarrier => 4

def Action.ofCode : Nat → Option Action
  | 0 => some .run | 1 => some .syncFlush | 2 => some .fullFlush | 3 => some .finish | 4 => some .fullBarrier
  | _ => none

def Action.all : List Action := [.run, .syncFlush, .fullFlush, .finish, .fullBarrier]

/-- `convert[]` of `stream_encode` (SEQ_BLOCK_ENCODE): the action handed to the Block encoder. -/
def convert : Action → Action
  | .run => .run
  | .syncFlush => .syncFlush
  | .fullFlush => .finish
  | .finish => .finish
  | .fullBarrier => .finish

/-! ## Decision kernels (each is bridged to a table produced by running the real function, see Props/C12) -/

/-- fill_window(): "If end of stream has been reached or flushing completed, we allow the encoder to process all the
    input". `allTaken` = the next coder / memcpy consumed all input (`ret == LZMA_STREAM_END` inside fill_window).
    Returns (mf.action afterwards, read_limit afterwards). -/
def fillWindow (a : Action) (allTaken : Bool) (writePos keepAfter oldLimit : Nat) : Action × Nat :=
  if a != .run && allTaken then (a, writePos)
  else (.run, if writePos > keepAfter then writePos - keepAfter else oldLimit)

/-- The LZ layer lets the compressor reach the end of the window (so that every byte can be encoded) exactly then. -/
def lzFlushing (a : Action) (allTaken : Bool) : Bool := a != .run && allTaken

/-- lzma2_encode(), SEQ_INIT with nothing unencoded: return code and whether the end marker 0x00 is written. -/
def lzma2SeqInitNoInput (a : Action) : Ret × Bool := (if a == .run then .ok else .streamEnd, a == .finish)

/-- block_encode() and stream_encode(): `if (ret != LZMA_STREAM_END || action == LZMA_SYNC_FLUSH) return ret;` -/
def returnsInnerRet (a : Action) (ret : Ret) : Bool := ret != .streamEnd || a == .syncFlush

/-- stream_encode(), SEQ_BLOCK_INIT with `*in_pos == in_size`: `some r` = return r (no Block is started),
    `none` = go on to encode the Index (LZMA_FINISH). -/
def blockInitNoInput (a : Action) : Option Ret :=
  if a != .finish then some (if a == .run then .ok else .streamEnd) else none

/-- simple_code(): `if (action == LZMA_SYNC_FLUSH) return LZMA_OPTIONS_ERROR;`; lzma_encode() likewise for LZMA1. -/
def refusesSync (a : Action) : Bool := a == .syncFlush

/-! ## Filters and chains -/

def ID_LZMA1 : Nat := 0x4000000000000001
def ID_LZMA2 : Nat := 0x21
def ID_DELTA : Nat := 0x03
def ID_X86 : Nat := 0x04
def ID_POWERPC : Nat := 0x05
def ID_IA64 : Nat := 0x06
def ID_ARM : Nat := 0x07
def ID_ARMTHUMB : Nat := 0x08
def ID_SPARC : Nat := 0x09
def ID_ARM64 : Nat := 0x0A
def ID_RISCV : Nat := 0x0B
def FILTER_RESERVED_START : Nat := 4611686018427387904
def FILTERS_MAX : Nat := 4

structure Props where
  lc : Nat
  lp : Nat
  pb : Nat
  deriving DecidableEq, Repr, Inhabited

/-- `is_lclppb_valid` -/
def Props.valid (p : Props) : Bool := p.lc ≤ 4 && p.lp ≤ 4 && p.lc + p.lp ≤ 4 && p.pb ≤ 4

/-- `lzma_lzma_lclppb_encode` -/
def Props.byte (p : Props) : Nat := (p.pb * 5 + p.lp) * 9 + p.lc

/-- `lzma_lzma_lclppb_decode` -/
def Props.ofByte (b : Nat) : Option Props :=
  if b > (4 * 5 + 4) * 9 + 8 then none
  else
    let p : Props := { pb := b / (9 * 5), lp := (b % 45) / 9, lc := b % 9 }
    if p.lc + p.lp > 4 then none else some p

inductive FKind where
  | lzma1 | lzma2 | delta | bcj
  deriving DecidableEq, Repr, Inhabited

structure Filter where
  id : Nat
  props : Props := ⟨3, 0, 2⟩   -- LZMA1/LZMA2: lc/lp/pb
  dict : Nat := 0              -- LZMA1/LZMA2: dict_size
  dist : Nat := 1              -- delta
  start : Nat := 0             -- BCJ start_offset
  deriving DecidableEq, Repr, Inhabited

/-- The coder family a Filter ID selects (every other ID the encoders know is a BCJ filter). -/
def Filter.kind (f : Filter) : FKind :=
  if f.id = ID_LZMA1 then .lzma1 else if f.id = ID_LZMA2 then .lzma2 else if f.id = ID_DELTA then .delta else .bcj

abbrev Chain := List Filter

def Filter.isLzma (f : Filter) : Bool := f.kind == .lzma1 || f.kind == .lzma2

/-- `features[]` of filter_common.c: (non_last_ok, last_ok, changes_size). -/
def Filter.features (f : Filter) : Bool × Bool × Bool :=
  if f.isLzma then (false, true, true) else (true, false, false)

def validateLoop : Chain → Bool → Bool → Nat → Nat → Ret × Bool × Nat × Nat
  | [], _, lastOk, csc, i => (.ok, lastOk, csc, i)
  | f :: rest, nonLastOk, _, csc, i =>
    if !nonLastOk then (.optionsError, false, csc, i)
    else
      let (nl, l, cs) := f.features
      validateLoop rest nl l (csc + (if cs then 1 else 0)) (i + 1)

/-- `lzma_validate_chain` -/
def validateChain (fs : Chain) : Ret :=
  if fs.isEmpty then .progError
  else
    let (r, lastOk, csc, i) := validateLoop fs true false 0 0
    if r != .ok then r
    else if i > FILTERS_MAX || !lastOk || csc > 3 then .optionsError
    else .ok

def DICT_MIN : Nat := 4096
def DICT_ENC_MAX : Nat := 1610612736   -- (1 << 30) + (1 << 29), IS_ENC_DICT_SIZE_VALID

/-- The per-filter `memusage(options) != UINT64_MAX` test as far as the modelled option fields go
    (nice_len, mode, mf, depth are assumed valid; the harness never varies them into invalid values). -/
def Filter.memOk (f : Filter) : Bool :=
  match f.kind with
  | .lzma1 | .lzma2 => f.props.valid && DICT_MIN ≤ f.dict && f.dict ≤ DICT_ENC_MAX
  | .delta => 1 ≤ f.dist && f.dist ≤ 256
  | .bcj => true

/-- `lzma_raw_encoder_memusage(filters) != UINT64_MAX` -/
def memusageOk (fs : Chain) : Bool := validateChain fs == .ok && fs.all Filter.memOk

/-- alignment argument of `lzma_simple_coder_init` per BCJ filter -/
def bcjAlignment (id : Nat) : Nat :=
  if id = ID_X86 then 1 else if id = ID_POWERPC then 4 else if id = ID_IA64 then 16 else if id = ID_ARM then 4
  else if id = ID_ARMTHUMB then 2 else if id = ID_SPARC then 4 else if id = ID_ARM64 then 4 else if id = ID_RISCV then 2 else 1

/-- what the filter's init function answers (beyond what `memOk` already excludes) -/
def Filter.initOk (f : Filter) : Bool :=
  match f.kind with
  | .bcj => f.start % bcjAlignment f.id == 0
  | _ => f.memOk

/-- `lzma_raw_encoder_init` return value (allocation failures not modelled) -/
def rawInitRet (fs : Chain) : Ret :=
  let v := validateChain fs
  if v != .ok then v else if fs.all Filter.initOk then .ok else .optionsError

/-- `lzma_properties_size` -/
def Filter.propsSize (f : Filter) : Nat :=
  match f.kind with
  | .lzma1 => 5
  | .lzma2 => 1
  | .delta => 1
  | .bcj => if f.start = 0 then 0 else 4

/-- `lzma_filter_flags_size` -/
def Filter.flagsSize (f : Filter) : Res Nat :=
  if f.id ≥ FILTER_RESERVED_START then .error .progError
  else .ok (f.propsSize + Vli.vliSize f.id + Vli.vliSize f.propsSize)

def flagsSizeSum : Chain → Nat → Res Nat
  | [], _ => .ok 0
  | f :: rest, i =>
    if i = FILTERS_MAX then .error .progError
    else match f.flagsSize with
      | .error r => .error r
      | .ok a => match flagsSizeSum rest (i + 1) with
        | .error r => .error r
        | .ok b => .ok (a + b)

/-- `lzma_block_header_size` with version 0; `none` = LZMA_VLI_UNKNOWN -/
def blockHeaderSize (fs : Chain) (csize usize : Option Nat) : Res Nat :=
  let base := 1 + 1 + 4
  match (match csize with
         | none => Except.ok 0
         | some c => if Vli.vliSize c = 0 || c = 0 then Except.error Ret.progError else Except.ok (Vli.vliSize c)) with
  | .error r => .error r
  | .ok a =>
    match (match usize with
           | none => Except.ok 0
           | some u => if Vli.vliSize u = 0 then Except.error Ret.progError else Except.ok (Vli.vliSize u)) with
    | .error r => .error r
    | .ok b =>
      if fs.isEmpty then .error .progError
      else match flagsSizeSum fs 0 with
        | .error r => .error r
        | .ok c => .ok ((base + a + b + c + 3) / 4 * 4)

def checkSizes : List Nat := [0, 4, 4, 4, 8, 8, 8, 16, 16, 16, 32, 32, 32, 64, 64, 64]
def checkSize (c : Nat) : Nat := checkSizes.getD c 0

/-! ## The abstract compressor -/

/-- What the compressor decided for one LZMA2 chunk: it covers the first `n` unencoded bytes and the range
    coder produced `payload`. (`compressed_size >= uncompressed_size` makes lzma2_encode store the chunk
    uncompressed instead; then only `n` matters.) -/
structure Choice where
  n : Nat
  payload : Bytes
  deriving Repr, Inhabited

def Choice.isLzma (c : Choice) : Bool := c.payload.length < c.n

def LZMA2_CHUNK_MAX : Nat := 65536
def LZMA2_UNCOMPRESSED_MAX : Nat := 2097152

structure Codec (σ : Type) where
  /-- `lzma_lzma_encoder_reset` / the decoder's reset: the initial coder state for given lc/lp/pb -/
  reset : Props → σ
  /-- Encoder: `choose flushing props state dict avail`. `none` = the chunk stays open (allowed only when not
      flushing). `dict` = everything covered by earlier chunks, `avail` = the unencoded bytes. -/
  choose : Bool → Props → σ → Bytes → Bytes → Option (Choice × σ)
  /-- Decoder of one LZMA chunk: `dec props state dict payload usize` -/
  dec : Props → σ → Bytes → Bytes → Nat → Option (Bytes × σ)

/-- The coder states that can occur: a freshly reset coder (valid lc/lp/pb), and what chunks leave behind. -/
inductive Codec.Reach {σ : Type} (C : Codec σ) : Props → σ → Prop
  | reset (p : Props) (h : p.valid = true) : Codec.Reach C p (C.reset p)
  | step {p : Props} {s : σ} {fl : Bool} {d a : Bytes} {ch : Choice} {s' : σ} :
      Codec.Reach C p s → C.choose fl p s d a = some (ch, s') → Codec.Reach C p s'

/-- The contract between the abstract encoder and decoder. -/
structure Codec.Sound {σ : Type} (C : Codec σ) : Prop where
  /-- sizes fit the chunk header fields (asserts of lzma2_header_lzma / lzma2_header_uncompressed) -/
  wf : ∀ fl p s d a ch s', C.choose fl p s d a = some (ch, s') →
        1 ≤ ch.n ∧ ch.n ≤ a.length ∧ ch.n ≤ LZMA2_UNCOMPRESSED_MAX ∧
        (ch.isLzma = true → 1 ≤ ch.payload.length ∧ ch.payload.length ≤ LZMA2_CHUNK_MAX) ∧
        (ch.isLzma = false → ch.n ≤ LZMA2_CHUNK_MAX)
  /-- under LZMA_RUN the encoder never catches up with the input (keep_size_after bytes stay unencoded) -/
  lag : ∀ p s d a ch s', C.choose false p s d a = some (ch, s') → ch.n < a.length
  /-- when flushing, unencoded input always yields a chunk (lzma_lzma_encode runs until read_pos == read_limit);
      asked only of coder states that can occur -/
  live : ∀ p s d a, C.Reach p s → a ≠ [] → C.choose true p s d a ≠ none
  /-- the decoder inverts the encoder -/
  inv : ∀ fl p s d a ch s', C.choose fl p s d a = some (ch, s') → ch.isLzma = true →
        C.dec p s d ch.payload ch.n = some (a.take ch.n, s')

/-- Everything abstract the model depends on. -/
structure Env (σ : Type) where
  /-- the compressor instance of the Block with the given ordinal in the Stream (every Block gets a freshly
      initialised LZMA2 encoder; raw and Block encoders use ordinal 0) -/
  codec : Nat → Codec σ
  /-- how many of the bytes it has (second argument) the BCJ filter of the chain keeps back under LZMA_RUN
      (at most all of them; e.g. ARM64 needs 4 bytes, x86 5, RISC-V 8 before it hands anything on) -/
  hold : Chain → Bytes → Nat
  /-- the Check field of a Block over its uncompressed data (`lzma_check_finish`) -/
  checkBytes : Nat → Bytes → Bytes
  /-- MT encoder (arguments: Block ordinal, ...): whether a Block is stored with `block_encode_uncompressed` (its LZMA2 output did not fit) -/
  mtStored : Nat → Bytes → Bool
  /-- MT encoder: Block Header size (`lzma_block_header_size` with the size fields of the Block size bound) -/
  mtHeaderSize : Nat → Chain → Nat

/-! ## LZMA2 encoder: `lzma_lzma2_coder` plus the part of `lzma_mf` that matters -/

structure L2 (σ : Type) where
  opt : Props                -- opt_cur.lc/lp/pb
  needProps : Bool
  needStateReset : Bool
  needDictReset : Bool
  st : σ                     -- state of the LZMA coder (probabilities, reps, range coder)
  hist : Bytes               -- bytes covered by closed chunks
  unenc : Bytes              -- mf_unencoded(): bytes in the window not covered by a closed chunk
  deriving Inhabited

/-- `lzma2_encoder_init` (no preset dictionary) -/
def L2.init {σ} (C : Codec σ) (p : Props) : L2 σ :=
  { opt := p, needProps := true, needStateReset := false, needDictReset := true,
    st := C.reset p, hist := [], unenc := [] }

/-- `coder->sequence == SEQ_INIT` between operations -/
def L2.atSeqInit {σ} (l : L2 σ) : Bool := l.unenc.isEmpty

def byte (n : Nat) : UInt8 := UInt8.ofNat (n % 256)

/-- `lzma2_header_lzma`: control byte, sizes, optional properties byte -/
def lzmaControl (needProps needStateReset needDictReset : Bool) : Nat :=
  if needProps then (if needDictReset then 0xE0 else 0xC0) else (if needStateReset then 0xA0 else 0x80)

def storedControl (needDictReset : Bool) : Nat := if needDictReset then 1 else 2

def lzmaHeader (needProps needStateReset needDictReset : Bool) (opt : Props) (n csize : Nat) : Bytes :=
  let base := lzmaControl needProps needStateReset needDictReset
  [byte (base + (n - 1) / 65536), byte ((n - 1) / 256), byte (n - 1), byte ((csize - 1) / 256), byte (csize - 1)]
    ++ (if needProps then [byte opt.byte] else [])

/-- `lzma2_header_uncompressed` -/
def storedHeader (needDictReset : Bool) (n : Nat) : Bytes :=
  [byte (storedControl needDictReset), byte ((n - 1) / 256), byte (n - 1)]

/-- One chunk, from SEQ_INIT (with something unencoded) back to SEQ_INIT. -/
def L2.emit {σ} (l : L2 σ) (st0 : σ) (ch : Choice) (st1 : σ) : L2 σ × Bytes :=
  let data := l.unenc.take ch.n
  if ch.isLzma then
    ({ l with needProps := false, needStateReset := false, needDictReset := false, st := st1,
              hist := l.hist ++ data, unenc := l.unenc.drop ch.n },
     lzmaHeader l.needProps l.needStateReset l.needDictReset l.opt ch.n ch.payload.length ++ ch.payload)
  else
    ({ l with needStateReset := true, needDictReset := false, st := st0,
              hist := l.hist ++ data, unenc := l.unenc.drop ch.n },
     storedHeader l.needDictReset ch.n ++ data)

/-- The coder state a chunk is started with (SEQ_INIT: `if (need_state_reset) lzma_lzma_encoder_reset(...)`). -/
def L2.startState {σ} (C : Codec σ) (l : L2 σ) : σ := if l.needStateReset then C.reset l.opt else l.st

/-- The `while` loop of lzma2_encode as far as whole chunks go: start a chunk while something is unencoded
    (resetting the LZMA coder first when `need_state_reset`), close it when the compressor says so.
    `fuel` bounds the number of chunks (each covers at least one byte). -/
def L2.closeChunks {σ} (C : Codec σ) (flushing : Bool) : Nat → L2 σ → L2 σ × Bytes
  | 0, l => (l, [])
  | fuel + 1, l =>
    if l.unenc.isEmpty then (l, [])
    else
      let st0 := l.startState C
      match C.choose flushing l.opt st0 l.hist l.unenc with
      | none => (l, [])
      | some (ch, st1) =>
        if ch.n = 0 then (l, [])   -- excluded by Codec.Sound.wf; keeps the function total and terminating
        else
          let (l1, o1) := l.emit st0 ch st1
          let (l2, o2) := L2.closeChunks C flushing fuel l1
          (l2, o1 ++ o2)

/-- lz_encode + lzma2_encode for one operation: the new input enters the window (fill_window), the compressor
    runs; on a flush/finish everything must get encoded (read_limit = write_pos), then SEQ_INIT answers
    LZMA_STREAM_END, writing the end marker 0x00 only for LZMA_FINISH. -/
def L2.code {σ} (C : Codec σ) (l : L2 σ) (inp : Bytes) (a : Action) : L2 σ × Bytes × Ret :=
  let l0 := { l with unenc := l.unenc ++ inp }
  let (l1, out) := L2.closeChunks C (lzFlushing a true) (l0.unenc.length + 1) l0
  if !l1.unenc.isEmpty then
    -- SEQ_LZMA_ENCODE: a chunk stays open. Under LZMA_RUN that is the normal case; when flushing it is
    -- unreachable under Codec.Sound (live)
    (l1, out, if a == .run then .ok else .progError)
  else
    let (ret, marker) := lzma2SeqInitNoInput a
    (l1, if marker then out ++ [0] else out, ret)

/-- `lzma2_encoder_options_update` -/
def L2.optionsUpdate {σ} (l : L2 σ) (p : Props) : L2 σ × Ret :=
  if !l.atSeqInit then (l, .progError)
  else if l.opt != p then
    if !p.valid then (l, .optionsError)
    else ({ l with opt := p, needProps := true, needStateReset := true }, .ok)
  else (l, .ok)

/-! ## LZMA2 chunk decoder (specification side: lzma2_decoder.c SEQ_CONTROL rules) -/

structure Dec (σ : Type) where
  needProps : Bool
  needDictReset : Bool
  props : Props
  st : σ
  out : Bytes        -- everything decoded so far (= the dictionary since the last reset, for our streams)
  ended : Bool       -- end marker seen
  deriving Inhabited

def Dec.init {σ} (C : Codec σ) : Dec σ :=
  { needProps := true, needDictReset := true, props := ⟨0, 0, 0⟩, st := C.reset ⟨0, 0, 0⟩, out := [], ended := false }

/-- A parsed chunk header (lzma2_decoder.c SEQ_CONTROL .. SEQ_PROPERTIES). `control = 0` is the end marker. -/
structure ChunkHdr where
  control : Nat
  usize : Nat                -- uncompressed size of the chunk
  csize : Nat                -- number of bytes of chunk data behind the header
  propsByte : Option Nat
  deriving DecidableEq, Repr, Inhabited

/-- Reads one chunk header from the front of the input; returns it and the bytes behind it. -/
def parseChunkHeader : Bytes → Option (ChunkHdr × Bytes)
  | [] => none
  | c :: rest =>
    if c.toNat = 0 then some (⟨0, 0, 0, none⟩, rest)
    else if c.toNat ≥ 0x80 then
      match rest with
      | b1 :: b2 :: b3 :: b4 :: r1 =>
        let usize := (c.toNat % 32) * 65536 + b1.toNat * 256 + b2.toNat + 1
        let csize := b3.toNat * 256 + b4.toNat + 1
        if c.toNat ≥ 0xC0 then
          match r1 with
          | p :: r2 => some (⟨c.toNat, usize, csize, some p.toNat⟩, r2)
          | [] => none
        else some (⟨c.toNat, usize, csize, none⟩, r1)
      | _ => none
    else if c.toNat > 2 then none
    else
      match rest with
      | b1 :: b2 :: r1 => some (⟨c.toNat, b1.toNat * 256 + b2.toNat + 1, b1.toNat * 256 + b2.toNat + 1, none⟩, r1)
      | _ => none

/-- SEQ_CONTROL/SEQ_PROPERTIES for an LZMA chunk: which lc/lp/pb and which coder state it is decoded with
    (new properties reset the state; control >= 0xA0 resets the state; otherwise it continues). `none` = LZMA_DATA_ERROR. -/
def Dec.select {σ} (C : Codec σ) (d : Dec σ) (h : ChunkHdr) (needProps : Bool) : Option (Props × σ) :=
  match h.propsByte with
  | some pb => (Props.ofByte pb).map fun p => (p, C.reset p)
  | none =>
    if needProps then none
    else if h.control ≥ 0xA0 then some (d.props, C.reset d.props)
    else some (d.props, d.st)

/-- The decoder's reaction to a chunk header followed by `body` (the chunk data and whatever follows it).
    `none` = LZMA_DATA_ERROR or truncated input. -/
def Dec.apply {σ} (C : Codec σ) (d : Dec σ) (h : ChunkHdr) (body : Bytes) : Option (Dec σ × Bytes) :=
  if h.control = 0 then some ({ d with ended := true }, body)
  else
    let dictReset := h.control ≥ 0xE0 || h.control = 1
    if !dictReset && d.needDictReset then none
    -- our streams reset the dictionary only at the very first chunk; a later reset would have to clear `out`
    else if dictReset && !d.out.isEmpty then none
    else if body.length < h.csize then none
    else
      let needProps := if dictReset then true else d.needProps
      if h.control ≥ 0x80 then
        match d.select C h needProps with
        | none => none
        | some (p, st) =>
          match C.dec p st d.out (body.take h.csize) h.usize with
          | none => none
          | some (data, st') =>
            some ({ d with needProps := false, needDictReset := false, props := p, st := st', out := d.out ++ data },
                  body.drop h.csize)
      else
        some ({ d with needProps := needProps, needDictReset := false, out := d.out ++ body.take h.csize },
              body.drop h.csize)

/-- Decodes ONE chunk (or the end marker) from the front of `inp`. `none` = LZMA_DATA_ERROR or truncated input. -/
def Dec.chunk {σ} (C : Codec σ) (d : Dec σ) (inp : Bytes) : Option (Dec σ × Bytes) :=
  match parseChunkHeader inp with
  | none => none
  | some (h, body) => d.apply C h body

/-- Decodes whole chunks until the input is used up or the end marker has been read.
    Returns the decoder (at SEQ_CONTROL) and the unread rest (non-empty only behind an end marker). -/
def Dec.run {σ} (C : Codec σ) : Nat → Dec σ → Bytes → Option (Dec σ × Bytes)
  | 0, d, inp => if inp.isEmpty then some (d, []) else none
  | fuel + 1, d, inp =>
    if inp.isEmpty || d.ended then some (d, inp)
    else match d.chunk C inp with
      | none => none
      | some (d', rest) => Dec.run C fuel d' rest

/-- the whole-buffer form used in the theorems -/
def lzma2Decode {σ} (C : Codec σ) (inp : Bytes) : Option (Dec σ × Bytes) := Dec.run C (inp.length + 1) (Dec.init C) inp

/-! ## The filters in front of the LZ encoder -/

/-- Delay behaviour of the non-last filters (delta: none; BCJ: may hold bytes back, cannot sync-flush). -/
structure Pre where
  canSync : Bool
  held : Bytes
  deriving Repr, Inhabited

def chainHasBcj (fs : Chain) : Bool := fs.any (·.kind == .bcj)
def chainHasLzma1 (fs : Chain) : Bool := fs.any (·.kind == .lzma1)
/-- the property's "chains that cannot honour a sync flush" -/
def chainCanSync (fs : Chain) : Bool := !chainHasBcj fs && !chainHasLzma1 fs

/-! ## Raw encoder = the reversed filter chain (lzma_raw_encoder_init) -/

structure RawEnc (σ : Type) where
  chain : Chain          -- filter IDs are fixed for the life of the coder
  pre : Pre
  isLzma1 : Bool
  l2 : L2 σ              -- meaningful when !isLzma1
  deriving Inhabited

def lastProps (fs : Chain) : Props := (fs.getLast?.map (·.props)).getD ⟨3, 0, 2⟩

def RawEnc.init {σ} (C : Codec σ) (fs : Chain) : RawEnc σ :=
  { chain := fs, pre := { canSync := !chainHasBcj fs, held := [] },
    isLzma1 := (fs.getLast?.map (·.kind == .lzma1)).getD false,
    l2 := L2.init C (lastProps fs) }

/-- One operation on the chain (action ∈ RUN, SYNC_FLUSH, FINISH). Returns the coder, the output, the number of
    input bytes consumed and the return code. -/
def RawEnc.code {σ} (E : Env σ) (C : Codec σ) (r : RawEnc σ) (inp : Bytes) (a : Action) : RawEnc σ × Bytes × Nat × Ret :=
  if refusesSync a && !r.pre.canSync then
    -- simple_code: `if (action == LZMA_SYNC_FLUSH) return LZMA_OPTIONS_ERROR;` reached from fill_window once the LZ
    -- encoder has used up what it had; nothing new is consumed
    if r.isLzma1 then (r, [], 0, .optionsError)
    else
      let (l1, out) := L2.closeChunks C false (r.l2.unenc.length + 1) r.l2
      ({ r with l2 := l1 }, out, 0, .optionsError)
  else
    let avail := r.pre.held ++ inp
    let k := if a == .run && !r.pre.canSync then min (E.hold r.chain avail) avail.length else 0
    let delivered := avail.take (avail.length - k)
    let pre' := { r.pre with held := avail.drop (avail.length - k) }
    if r.isLzma1 then
      -- lzma_encode: `if (mf->action == LZMA_SYNC_FLUSH) return LZMA_OPTIONS_ERROR;` after fill_window took the input.
      -- The LZMA1 byte stream itself is not modelled.
      if refusesSync a then ({ r with pre := pre' }, [], inp.length, .optionsError)
      else ({ r with pre := pre' }, [], inp.length, if a == .run then .ok else .streamEnd)
    else
      let (l1, out, ret) := r.l2.code C delivered a
      ({ r with pre := pre', l2 := l1 }, out, inp.length, ret)

/-- `lzma_next_filter_update` down the rest of the reversed chain: IDs must agree, delta/BCJ ignore new options. -/
def nextFilterUpdate : List Nat → List Nat → Ret
  | [], [] => .ok
  | c :: cs, n :: ns => if n != c then .progError else nextFilterUpdate cs ns
  | _, _ => .progError

/-- `lz_encoder_update` on the reversed chain (what `lzma_filters_update` reaches on a raw encoder directly, and
    on Block/Stream encoders behind `lzma_next_filter_update`'s ID test of the last filter). -/
def RawEnc.update {σ} (r : RawEnc σ) (fs : Chain) : RawEnc σ × Ret :=
  match fs.reverse with
  | [] => (r, .progError)
  | f :: rest =>
    if r.isLzma1 then (r, .progError)            -- lz.options_update == NULL
    else
      let (l1, ret) := r.l2.optionsUpdate f.props
      if ret != .ok then (r, ret)
      else ({ r with l2 := l1 }, nextFilterUpdate (r.chain.reverse.drop 1 |>.map (·.id)) (rest.map (·.id)))

/-! ## Block encoder (block_encoder.c) -/

inductive BSeq where
  | code | padding | check
  deriving DecidableEq, Repr, Inhabited

structure BlockEnc (σ : Type) where
  raw : RawEnc σ
  seq : BSeq
  compressedSize : Nat
  uncompressedSize : Nat
  checkId : Nat
  data : Bytes           -- what lzma_check_update has seen
  emitted : Bytes        -- ghost: every byte this Block encoder has written so far
  deriving Inhabited

def COMPRESSED_SIZE_MAX : Nat := (Vli.VLI_MAX - 1024 - 64) / 4 * 4

/-- `lzma_block_encoder_init` (check ID assumed supported) -/
def BlockEnc.init {σ} (C : Codec σ) (fs : Chain) (check : Nat) : Res (BlockEnc σ) :=
  match rawInitRet fs with
  | .ok => .ok { raw := RawEnc.init C fs, seq := .code, compressedSize := 0, uncompressedSize := 0, checkId := check, data := [], emitted := [] }
  | r => .error r

/-- SEQ_PADDING + SEQ_CHECK: Block Padding to a multiple of four, then the Check field -/
def blockTail {σ} (E : Env σ) (checkId compressedSize : Nat) (data : Bytes) : Bytes :=
  List.replicate ((4 - compressedSize % 4) % 4) (0 : UInt8) ++ (if checkId = 0 then [] else E.checkBytes checkId data)

/-- `block_encode` -/
def BlockEnc.code {σ} (E : Env σ) (C : Codec σ) (b : BlockEnc σ) (inp : Bytes) (a : Action) : BlockEnc σ × Bytes × Nat × Ret :=
  if Vli.VLI_MAX - b.uncompressedSize < inp.length then (b, [], 0, .dataError)
  else
    match b.seq with
    | .code =>
      let (r1, out, used, ret) := b.raw.code E C inp a
      if COMPRESSED_SIZE_MAX - b.compressedSize < out.length then ({ b with raw := r1, emitted := b.emitted ++ out }, out, used, .dataError)
      else
        let b1 := { b with raw := r1, compressedSize := b.compressedSize + out.length,
                           uncompressedSize := b.uncompressedSize + used, data := b.data ++ inp.take used,
                           emitted := b.emitted ++ out }
        if returnsInnerRet a ret then (b1, out, used, ret)
        else
          -- SEQ_PADDING, SEQ_CHECK
          let tail := blockTail E b1.checkId b1.compressedSize b1.data
          ({ b1 with seq := .check, emitted := b1.emitted ++ tail }, out ++ tail, used, .streamEnd)
    | _ => (b, [], 0, .streamEnd)   -- a finished Block encoder is never called again by the callers modelled here

/-- `block_encoder_update` -/
def BlockEnc.update {σ} (b : BlockEnc σ) (fs : Chain) : BlockEnc σ × Ret :=
  if b.seq != .code then (b, .progError)
  else
    -- lzma_next_filter_update(&coder->next, reversed_filters): the ID of the last filter is tested first
    match fs.getLast?, b.raw.chain.getLast? with
    | some n, some c =>
      if n.id != c.id then (b, .progError)
      else let (r1, ret) := b.raw.update fs; ({ b with raw := r1 }, ret)
    | _, _ => (b, .progError)

/-! ## Stream encoder (stream_encoder.c) -/

inductive SSeq where
  | streamHeader | blockInit | blockHeader | blockEncode | indexEncode | streamFooter
  deriving DecidableEq, Repr, Inhabited

def SSeq.code : SSeq → Nat
  | .streamHeader => 0 | .blockInit => 1 | .blockHeader => 2 | .blockEncode => 3 | .indexEncode => 4 | .streamFooter => 5

/-- Pieces of a .xz file; the bytes of headers, Index and footer are given by `Fmt`. -/
inductive Seg where
  | streamHeader (check : Nat)
  | blockHeader (fs : Chain) (csize usize : Option Nat)
  | body (b : Bytes)                         -- Compressed Data + Block Padding + Check
  | index (recs : List (Nat × Nat))
  | streamFooter (check : Nat) (recs : List (Nat × Nat))
  deriving Repr, Inhabited

/-- ghost record of a finished Block: the chain in its header, its uncompressed data, everything written behind its header -/
structure DoneBlock where
  chain : Chain
  data : Bytes
  body : Bytes
  deriving Repr, Inhabited

structure StreamEnc (σ : Type) where
  seq : SSeq
  blockInited : Bool       -- block_encoder_is_initialized
  filters : Chain
  check : Nat
  block : BlockEnc σ
  headerSize : Nat         -- block_options.header_size
  records : List (Nat × Nat)   -- the Index: (Unpadded Size, Uncompressed Size) per Block
  openChain : Chain        -- ghost: the chain written into the header of the open Block
  done : List DoneBlock    -- ghost: the Blocks finished so far
  deriving Inhabited

/-- `block_encoder_init` of stream_encoder.c: header size first (this is where LZMA1 is turned down), then the coder -/
def streamBlockInit {σ} (C : Codec σ) (fs : Chain) (check : Nat) : Res (BlockEnc σ × Nat) :=
  match blockHeaderSize fs none none with
  | .error r => .error r
  | .ok h => match BlockEnc.init C fs check with
    | .error r => .error r
    | .ok b => .ok (b, h)

/-- `stream_encoder_update` -/
def StreamEnc.update {σ} (C : Codec σ) (s : StreamEnc σ) (fs : Chain) : StreamEnc σ × Ret :=
  if fs.length > FILTERS_MAX then (s, .optionsError)        -- lzma_filters_copy
  else if s.seq.code ≤ SSeq.blockInit.code then
    match streamBlockInit C fs s.check with
    | .error r => ({ s with blockInited := false }, r)
    | .ok (b, h) => ({ s with blockInited := true, block := b, headerSize := h, filters := fs }, .ok)
  else if s.seq.code ≤ SSeq.blockEncode.code then
    let (b1, ret) := s.block.update fs
    if ret != .ok then ({ s with block := b1 }, ret)
    else ({ s with block := b1, filters := fs }, .ok)
  else (s, .progError)

/-- `stream_encoder_init` (the chain is assumed to be accepted: init returned LZMA_OK) -/
def StreamEnc.init {σ} (C : Codec σ) (fs : Chain) (check : Nat) : StreamEnc σ × Ret :=
  let s0 : StreamEnc σ := { seq := .streamHeader, blockInited := false, filters := [], check := check,
                            block := { raw := RawEnc.init C fs, seq := .code, compressedSize := 0, uncompressedSize := 0,
                                       checkId := check, data := [], emitted := [] },
                            headerSize := 0, records := [], openChain := [], done := [] }
  s0.update C fs

/-- `stream_encode`, driven until it returns (unlimited output). `fuel` bounds the number of sequence steps. -/
def StreamEnc.code {σ} (E : Env σ) : Nat → StreamEnc σ → Bytes → Action → StreamEnc σ × List Seg × Nat × Ret
  | 0, s, _, _ => (s, [], 0, .progError)
  | fuel + 1, s, inp, a =>
    match s.seq with
    | .streamHeader =>
      let (s1, o, u, r) := StreamEnc.code E fuel { s with seq := .blockInit } inp a
      (s1, Seg.streamHeader s.check :: o, u, r)
    | .blockInit =>
      if inp.isEmpty then
        -- "If we are requested to flush or finish the current Block, return LZMA_STREAM_END immediately
        --  since there's nothing to do."
        match blockInitNoInput a with
        | some r => (s, [], 0, r)
        | none => StreamEnc.code E fuel { s with seq := .indexEncode } inp a
      else
        match (if s.blockInited then Except.ok (s.block, s.headerSize) else streamBlockInit (E.codec s.records.length) s.filters s.check) with
        | .error r => (s, [], 0, r)
        | .ok (b, h) =>
          let s1 := { s with blockInited := false, block := b, headerSize := h, seq := .blockEncode, openChain := s.filters }
          let (s2, o, u, r) := StreamEnc.code E fuel s1 inp a
          (s2, Seg.blockHeader s.filters none none :: o, u, r)
    | .blockHeader =>
      -- reached only after `StreamEnc.startHeader` (a call whose output space ended inside the Block Header): the rest of
      -- the header is copied out, then SEQ_BLOCK_ENCODE
      StreamEnc.code E fuel { s with seq := .blockEncode } inp a
    | .blockEncode =>
      let (b1, out, used, ret) := s.block.code E (E.codec s.records.length) inp (convert a)
      let s1 := { s with block := b1 }
      if returnsInnerRet a ret then (s1, [Seg.body out], used, ret)
      else
        -- Add a new Index Record: lzma_block_unpadded_size, uncompressed_size
        let unpadded := s.headerSize + b1.compressedSize + checkSize s.check
        let s2 := { s1 with records := s1.records ++ [(unpadded, b1.uncompressedSize)], seq := .blockInit,
                            done := s1.done ++ [{ chain := s1.openChain, data := b1.data, body := b1.emitted }] }
        let (s3, o, _, r) := StreamEnc.code E fuel s2 [] a
        (s3, Seg.body out :: o, used, r)
    | .indexEncode =>
      ({ s with seq := .streamFooter }, [Seg.index s.records, Seg.streamFooter s.check s.records], 0, .streamEnd)
    | .streamFooter => (s, [], 0, .streamEnd)

/-- ONE `lzma_code(LZMA_RUN)` call on a Stream encoder that is between Blocks, with input, whose output space ends
    INSIDE the Block Header it starts: SEQ_BLOCK_INIT initialises the Block encoder and encodes the header with the chain
    in force, SEQ_BLOCK_HEADER copies out what fits and returns LZMA_OK; no input is consumed yet. The encoder rests at
    SEQ_BLOCK_HEADER, where `stream_encoder_update` applies the middle-of-a-Block rules (the header is committed).
    (Not part of the histories `Op` of the theorems: it is how the correspondence places an update at this point. The
    whole header is accounted to this call.) -/
def StreamEnc.startHeader {σ} (E : Env σ) (s : StreamEnc σ) (inp : Bytes) : StreamEnc σ × List Seg × Nat × Ret :=
  if inp.isEmpty || !(s.seq == .streamHeader || s.seq == .blockInit) then (s, [], 0, .ok)
  else
    let hdr := if s.seq == .streamHeader then [Seg.streamHeader s.check] else []
    match (if s.blockInited then Except.ok (s.block, s.headerSize) else streamBlockInit (E.codec s.records.length) s.filters s.check) with
    | .error r => ({ s with seq := .blockInit }, hdr, 0, r)
    | .ok (b, h) =>
      ({ s with blockInited := false, block := b, headerSize := h, seq := .blockHeader, openChain := s.filters },
       hdr ++ [Seg.blockHeader s.filters none none], 0, .ok)

/-! ## Threaded stream encoder: Block boundaries and update rule (stream_encoder_mt.c) -/

structure MtEnc where
  started : Bool             -- Stream Header written
  ended : Bool               -- sequence > SEQ_BLOCK
  filters : Chain
  check : Nat
  blockSize : Nat
  cur : Bytes                -- input of the Block being collected (coder->thr != NULL iff non-empty)
  curChain : Chain           -- chain captured by get_thread() when the Block was started
  records : List (Nat × Nat)
  deriving Inhabited

def MtEnc.init (fs : Chain) (check blockSize : Nat) : MtEnc :=
  { started := false, ended := false, filters := fs, check := check, blockSize := blockSize, cur := [], curChain := fs, records := [] }

/-- What a worker thread makes of one Block (lzma_block_encoder + LZMA_FINISH on the whole Block input, or
    block_encode_uncompressed when that does not fit). Returns header segment, body, record. -/
def mtStoredBody (fuel : Nat) (first : Bool) (data : Bytes) : Bytes :=
  match fuel with
  | 0 => [0]
  | fuel + 1 =>
    if data.isEmpty then [0]
    else
      let n := min data.length LZMA2_CHUNK_MAX
      storedHeader first n ++ data.take n ++ mtStoredBody fuel false (data.drop n)

def ID_STORED_CHAIN : Chain := [{ id := ID_LZMA2, dict := DICT_MIN }]

def mtEncodeBlock {σ} (E : Env σ) (ord : Nat) (fs : Chain) (check : Nat) (data : Bytes) : List Seg × (Nat × Nat) × Ret :=
  let h := E.mtHeaderSize ord fs
  let fin (chain : Chain) (comp : Bytes) : List Seg × (Nat × Nat) × Ret :=
    let pad := List.replicate ((4 - comp.length % 4) % 4) (0 : UInt8)
    let chk := if check = 0 then [] else E.checkBytes check data
    ([Seg.blockHeader chain (some comp.length) (some data.length), Seg.body (comp ++ pad ++ chk)],
     (h + comp.length + checkSize check, data.length), .ok)
  if E.mtStored ord data then fin ID_STORED_CHAIN (mtStoredBody (data.length + 1) true data)
  else
    match rawInitRet fs, blockHeaderSize fs none none with
    | .ok, .ok _ =>
      let (_, comp, _, ret) := (RawEnc.init (E.codec ord) fs).code E (E.codec ord) data .finish
      if ret != .streamEnd then ([], (0, 0), ret) else fin fs comp
    | .ok, .error r => ([], (0, 0), r)
    | r, _ => ([], (0, 0), r)

/-- `stream_encode_in` + the Block completions it causes, as if all output were drained. -/
def MtEnc.feed {σ} (E : Env σ) : Nat → MtEnc → Bytes → Action → MtEnc × List Seg × Ret
  | 0, m, _, _ => (m, [], .progError)
  | fuel + 1, m, inp, a =>
    if inp.isEmpty && !(!m.cur.isEmpty && a != .run) then (m, [], .ok)
    else
      let chain := if m.cur.isEmpty then m.filters else m.curChain     -- get_thread()
      let k := min inp.length (m.blockSize - m.cur.length)
      let cur := m.cur ++ inp.take k
      let rest := inp.drop k
      let finish := cur.length == m.blockSize || (rest.isEmpty && a != .run)
      if !finish then ({ m with cur := cur, curChain := chain }, [], .ok)
      else
        let (segs, rec, ret) := mtEncodeBlock E m.records.length chain m.check cur
        if ret != .ok then ({ m with cur := [], curChain := chain }, [], ret)
        else
          let m1 := { m with cur := [], curChain := chain, records := m.records ++ [rec] }
          let (m2, o, r) := MtEnc.feed E fuel m1 rest a
          (m2, segs ++ o, r)

/-- `stream_encode_mt` for one operation (action ≠ SYNC_FLUSH: not a supported action) -/
def MtEnc.code {σ} (E : Env σ) (m : MtEnc) (inp : Bytes) (a : Action) : MtEnc × List Seg × Nat × Ret :=
  let hdr := if m.started then [] else [Seg.streamHeader m.check]
  let m0 := { m with started := true }
  let (m1, segs, ret) := MtEnc.feed E (inp.length + 2) m0 inp a
  if ret != .ok then (m1, hdr ++ segs, inp.length, ret)
  else if a == .run then (m1, hdr ++ segs, inp.length, .ok)
  else if a == .finish then
    ({ m1 with ended := true }, hdr ++ segs ++ [Seg.index m1.records, Seg.streamFooter m1.check m1.records], inp.length, .streamEnd)
  else (m1, hdr ++ segs, inp.length, .streamEnd)

/-- `stream_encoder_mt_update` -/
def MtEnc.update (m : MtEnc) (fs : Chain) : MtEnc × Ret :=
  if m.ended then (m, .progError)
  else if !m.cur.isEmpty then (m, .progError)
  else if !memusageOk fs then (m, .optionsError)
  else if fs.length > FILTERS_MAX then (m, .optionsError)
  else ({ m with filters := fs }, .ok)

/-! ## lzma_stream level: supported actions, fatal errors, lzma_filters_update -/

inductive Core (σ : Type) where
  | stream (s : StreamEnc σ)
  | mt (m : MtEnc)
  | raw (r : RawEnc σ)
  | block (b : BlockEnc σ)
  deriving Inhabited

structure Enc (σ : Type) where
  core : Core σ
  supported : Nat          -- supported_actions[] as a bit mask
  dead : Bool              -- ISEQ_ERROR
  finished : Bool          -- ISEQ_END
  deriving Inhabited

def maskOf (as : List Action) : Nat := as.foldl (fun m a => m ||| (1 <<< a.code)) 0

def supportedStream : Nat := maskOf [.run, .syncFlush, .fullFlush, .fullBarrier, .finish]
def supportedMt : Nat := maskOf [.run, .fullFlush, .fullBarrier, .finish]
def supportedRaw : Nat := maskOf [.run, .syncFlush, .finish]
def supportedBlock : Nat := maskOf [.run, .syncFlush, .finish]

inductive Op where
  | code (a : Action) (data : Bytes)
  | update (fs : Chain)
  deriving Repr, Inhabited

/-- Result of one operation: output, input bytes consumed, return code. -/
structure OpResult where
  segs : List Seg
  used : Nat
  ret : Ret
  deriving Inhabited

/-- `lzma_code` driven to completion for one (action, input) pair. -/
def Enc.codeOp {σ} (E : Env σ) (e : Enc σ) (a : Action) (inp : Bytes) : Enc σ × OpResult :=
  if e.dead then (e, ⟨[], 0, .progError⟩)
  else if !e.supported.testBit a.code then (e, ⟨[], 0, .progError⟩)     -- sanity check: nothing changes
  else if e.finished then (e, ⟨[], 0, .streamEnd⟩)
  else
    let (core, segs, used, ret) : Core σ × List Seg × Nat × Ret :=
      match e.core with
      | .stream s => let (s1, o, u, r) := StreamEnc.code E 8 s inp a; (.stream s1, o, u, r)
      | .mt m => let (m1, o, u, r) := m.code E inp a; (.mt m1, o, u, r)
      | .raw r0 => let (r1, o, u, r) := r0.code E (E.codec 0) inp a; (.raw r1, [Seg.body o], u, r)
      | .block b => let (b1, o, u, r) := b.code E (E.codec 0) inp a; (.block b1, [Seg.body o], u, r)
    let fatal := ret != .ok && ret != .streamEnd
    ({ e with core := core, dead := fatal, finished := ret == .streamEnd && a == .finish }, ⟨segs, used, ret⟩)

/-- the single call of `StreamEnc.startHeader` under `lzma_code` (single-threaded Stream encoder only) -/
def Enc.startHeaderOp {σ} (E : Env σ) (e : Enc σ) (inp : Bytes) : Enc σ × OpResult :=
  if e.dead then (e, ⟨[], 0, .progError⟩)
  else if !e.supported.testBit Action.run.code then (e, ⟨[], 0, .progError⟩)
  else if e.finished then (e, ⟨[], 0, .streamEnd⟩)
  else
    match e.core with
    | .stream s =>
      let (s1, o, u, r) := s.startHeader E inp
      ({ e with core := .stream s1, dead := r != .ok && r != .streamEnd }, ⟨o, u, r⟩)
    | _ => e.codeOp E .run inp

/-- `lzma_filters_update` -/
def Enc.updateOp {σ} (E : Env σ) (e : Enc σ) (fs : Chain) : Enc σ × OpResult :=
  if !memusageOk fs then (e, ⟨[], 0, .optionsError⟩)
  else
    match e.core with
    | .stream s => let (s1, r) := s.update (E.codec s.records.length) fs; ({ e with core := .stream s1 }, ⟨[], 0, r⟩)
    | .mt m => let (m1, r) := m.update fs; ({ e with core := .mt m1 }, ⟨[], 0, r⟩)
    | .raw r0 => let (r1, r) := r0.update fs; ({ e with core := .raw r1 }, ⟨[], 0, r⟩)
    | .block b => let (b1, r) := b.update fs; ({ e with core := .block b1 }, ⟨[], 0, r⟩)

def Enc.step {σ} (E : Env σ) (e : Enc σ) : Op → Enc σ × OpResult
  | .code a d => e.codeOp E a d
  | .update fs => e.updateOp E fs

/-- A whole history; results in order. -/
def Enc.run {σ} (E : Env σ) : Enc σ → List Op → Enc σ × List OpResult
  | e, [] => (e, [])
  | e, op :: rest =>
    let (e1, r) := e.step E op
    let (e2, rs) := Enc.run E e1 rest
    (e2, r :: rs)

/-! ## Histories with their observable trace -/

/-- What has been observed so far: everything written, every input byte consumed, the return codes. -/
structure Trace where
  segs : List Seg := []
  input : Bytes := []
  rets : List Ret := []
  deriving Inhabited

def Op.data : Op → Bytes
  | .code _ d => d
  | .update _ => []

def Enc.exec {σ} (E : Env σ) (et : Enc σ × Trace) (op : Op) : Enc σ × Trace :=
  let r := et.1.step E op
  (r.1, { segs := et.2.segs ++ r.2.segs, input := et.2.input ++ op.data.take r.2.used, rets := et.2.rets ++ [r.2.ret] })

def Enc.execAll {σ} (E : Env σ) (e : Enc σ) (ops : List Op) : Enc σ × Trace := ops.foldl (Enc.exec E) (e, {})

/-- the public init functions (the chain is assumed to have been accepted) -/
def Enc.rawInit {σ} (E : Env σ) (fs : Chain) : Enc σ :=
  { core := .raw (RawEnc.init (E.codec 0) fs), supported := supportedRaw, dead := false, finished := false }

def Enc.streamInit {σ} (E : Env σ) (fs : Chain) (check : Nat) : Enc σ :=
  { core := .stream (StreamEnc.init (E.codec 0) fs check).1, supported := supportedStream, dead := false, finished := false }

def Enc.mtInit {σ} (fs : Chain) (check blockSize : Nat) : Enc σ :=
  { core := .mt (MtEnc.init fs check blockSize), supported := supportedMt, dead := false, finished := false }

/-- the bytes of a raw / Block encoder's output (it consists of `Seg.body` pieces only) -/
def bodies : List Seg → Bytes
  | [] => []
  | .body b :: rest => b ++ bodies rest
  | _ :: rest => bodies rest

/-! ## Rendering segments to bytes -/

/-- The byte encodings of the container fields (C02's models); only their existence matters here. -/
structure Fmt where
  streamHeader : Nat → Bytes
  blockHeader : Chain → Option Nat → Option Nat → Bytes
  index : List (Nat × Nat) → Bytes
  streamFooter : Nat → List (Nat × Nat) → Bytes

def Seg.bytes (F : Fmt) : Seg → Bytes
  | .streamHeader c => F.streamHeader c
  | .blockHeader fs cs us => F.blockHeader fs cs us
  | .body b => b
  | .index r => F.index r
  | .streamFooter c r => F.streamFooter c r

def render (F : Fmt) (segs : List Seg) : Bytes := (segs.map (Seg.bytes F)).flatten

end XzVerif.Flush
