/-
  Range decoder of liblzma (src/liblzma/rangecoder/range_decoder.h, range_common.h), arithmetic core.

  Conventions (DESIGN §5): `uint32_t` values are `Nat` with explicit `% 2^32` exactly where the C code can wrap;
  probabilities (`uint16_t probability`) are `Nat`. Shifts by constants are written as `/ 2^k`, `* 2^k` so that `omega`
  applies. Everything here is a pure function; `Model/Lzma.lean` threads these cores through the executable decoder
  state, and the `List`-level decoder at the end of this file is the proof-friendly reading of the same cores
  (`(range, code, rest of the input)`), which the encoder round-trip proofs use.

  C anchors:
    RC_SHIFT_BITS 8, RC_TOP_BITS 24, RC_TOP_VALUE 2^24, RC_BIT_MODEL_TOTAL_BITS 11, RC_BIT_MODEL_TOTAL 2^11, RC_MOVE_BITS 5
    rc_reset            range = UINT32_MAX, code = 0, init_bytes_left = 5
    rc_read_init        5 bytes; the FIRST byte must be 0x00 (else LZMA_DATA_ERROR, byte not consumed);
                        code = (code << 8) | byte
    rc_normalize        if (range < RC_TOP_VALUE) { range <<= 8; code = (code << 8) | *in++; }
    rc_if_0/update_0/1  bound = (range >> 11) * prob; if (code < bound) {range = bound; prob += (2048 - prob) >> 5}
                        else {range -= bound; code -= bound; prob -= prob >> 5}
    rc_direct           range >>= 1; code -= range; bound = 0 - (code >> 31); code += range & bound;  bit = bound + 1
    rc_is_finished      code == 0
  Core Lean only.
-/
namespace XzVerif.RangeDec

/-! ### constants -/

abbrev RC_SHIFT_BITS : Nat := 8
abbrev RC_TOP_BITS : Nat := 24
abbrev RC_TOP_VALUE : Nat := 16777216          -- 1 << 24
abbrev RC_BIT_MODEL_TOTAL_BITS : Nat := 11
abbrev RC_BIT_MODEL_TOTAL : Nat := 2048        -- 1 << 11
abbrev RC_MOVE_BITS : Nat := 5
/-- `bit_reset(prob)`: `RC_BIT_MODEL_TOTAL >> 1` -/
abbrev PROB_INIT : Nat := 1024
abbrev U32 : Nat := 4294967296                 -- 2^32
abbrev UINT32_MAX : Nat := 4294967295

/-! ### probability update -/

/-- `prob += (RC_BIT_MODEL_TOTAL - prob) >> RC_MOVE_BITS` (after a decoded 0) -/
@[inline] def probUpdate0 (p : Nat) : Nat := p + (RC_BIT_MODEL_TOTAL - p) / 32

/-- `prob -= prob >> RC_MOVE_BITS` (after a decoded 1) -/
@[inline] def probUpdate1 (p : Nat) : Nat := p - p / 32

/-- The range every probability variable stays in (reached from 1024 by the two update rules). -/
def ProbInv (p : Nat) : Prop := 31 ≤ p ∧ p ≤ 2017

instance (p : Nat) : Decidable (ProbInv p) := by unfold ProbInv; infer_instance

/-! ### the (range, code) pair -/

structure Rc where
  range : Nat
  code : Nat
  deriving Repr, DecidableEq, Inhabited

/-- `rc_reset` (without `init_bytes_left`, which the callers keep) -/
def Rc.reset : Rc := { range := UINT32_MAX, code := 0 }

/-- one byte of `rc_read_init`: `code = (code << 8) | byte` -/
@[inline] def Rc.initByte (rc : Rc) (b : Nat) : Rc := { rc with code := (rc.code * 256) % U32 + b }

/-- `rc.range < RC_TOP_VALUE` : the next operation must read a byte first -/
@[inline] def Rc.needsByte (rc : Rc) : Bool := rc.range < RC_TOP_VALUE

/-- the body of `rc_normalize` when a byte is read: `range <<= 8; code = (code << 8) | byte` -/
@[inline] def Rc.shiftIn (rc : Rc) (b : Nat) : Rc :=
  { range := (rc.range * 256) % U32, code := (rc.code * 256) % U32 + b }

/-- `rc_bound = (rc.range >> RC_BIT_MODEL_TOTAL_BITS) * prob` -/
@[inline] def rcBound (range p : Nat) : Nat := (range / RC_BIT_MODEL_TOTAL) * p

/-- `rc_if_0 / rc_update_0 / rc_update_1` on a normalised decoder: returns (bit, new rc, new prob). -/
@[inline] def bitCore (rc : Rc) (p : Nat) : Nat × Rc × Nat :=
  let bound := rcBound rc.range p
  if rc.code < bound then
    (0, { range := bound, code := rc.code }, probUpdate0 p)
  else
    (1, { range := rc.range - bound, code := rc.code - bound }, probUpdate1 p)

/-- one iteration of `rc_direct` on a normalised decoder: returns (bit, new rc).
    `range >>= 1; code -= range` (mod 2^32); if the sign bit is set the subtraction is undone and the bit is 0. -/
@[inline] def directCore (rc : Rc) : Nat × Rc :=
  let range := rc.range / 2
  let code := (rc.code + U32 - range) % U32
  if code / 2147483648 = 1 then
    (0, { range := range, code := (code + range) % U32 })
  else
    (1, { range := range, code := code })

/-- `rc_is_finished` -/
@[inline] def Rc.isFinished (rc : Rc) : Bool := rc.code == 0

/-! ### `List`-level decoder (proof-friendly reading of the same cores)

  State `(rc, rest)`; `none` = the input ran out (the C code would return `LZMA_OK` and wait for more input). -/

/-- Outcome of `rc_read_init` on the complete input. -/
inductive InitResult where
  | ok (rc : Rc) (rest : List UInt8)      -- LZMA_STREAM_END of rc_read_init: 5 bytes read
  | needInput                             -- fewer than 5 bytes available (all of them are consumed if the first is 0)
  | dataError                             -- first byte is not 0x00 (it is not consumed)
  deriving Repr

def readInit : List UInt8 → InitResult
  | b0 :: rest =>
    if b0 ≠ 0 then .dataError else
    match rest with
    | b1 :: b2 :: b3 :: b4 :: rest' =>
      .ok ((((Rc.reset.initByte 0).initByte b1.toNat).initByte b2.toNat).initByte b3.toNat |>.initByte b4.toNat) rest'
    | _ => .needInput
  | [] => .needInput

/-- `rc_normalize_safe` -/
def normalizeL (rc : Rc) (rest : List UInt8) : Option (Rc × List UInt8) :=
  if rc.needsByte then
    match rest with
    | [] => none
    | b :: rest' => some (rc.shiftIn b.toNat, rest')
  else some (rc, rest)

/-- `rc_bit_safe` on probability `p`: (bit, rc', p', rest') -/
def decodeBitL (rc : Rc) (p : Nat) (rest : List UInt8) : Option (Nat × Rc × Nat × List UInt8) :=
  match normalizeL rc rest with
  | none => none
  | some (rc, rest) =>
    let (b, rc', p') := bitCore rc p
    some (b, rc', p', rest)

/-- `rc_direct_safe` with `count` bits appended to `dest` (`dest = (dest << 1) + bit`, mod 2^32). -/
def directL : Nat → Nat → Rc → List UInt8 → Option (Nat × Rc × List UInt8)
  | 0, dest, rc, rest => some (dest, rc, rest)
  | n + 1, dest, rc, rest =>
    match normalizeL rc rest with
    | none => none
    | some (rc, rest) =>
      let (b, rc') := directCore rc
      directL n ((dest * 2 + b) % U32) rc' rest

/-- normal bittree of `n` levels over `probs[base ..]`, starting from `sym` (callers pass 1); result in `[2^n, 2^(n+1))`. -/
def bittreeL (probs : Array Nat) (base : Nat) : Nat → Nat → Rc → List UInt8 → Option (Nat × Array Nat × Rc × List UInt8)
  | 0, sym, rc, rest => some (sym, probs, rc, rest)
  | n + 1, sym, rc, rest =>
    match decodeBitL rc (probs.getD (base + sym) 0) rest with
    | none => none
    | some (b, rc', p', rest') => bittreeL (probs.setIfInBounds (base + sym) p') base n (sym * 2 + b) rc' rest'

end XzVerif.RangeDec
