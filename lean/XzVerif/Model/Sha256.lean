/-
  SHA-256.
  (i)  The FIPS 180-4 definition in textbook form (`sha256`): functions of §4.1.2, constants of §4.2.2 (the first 32 bits
       of the fractional parts of the cube roots of the first 64 primes; the literals below were computed from the
       primes, not copied from sha256.c), padding of §5.1.1, parsing §5.2.1, initial hash value §5.3.3, and the
       computation of §6.2.2 with the full 64-word message schedule.
  (ii) A model of src/liblzma/check/sha256.c as written (`transformC`, `initC`, `updateC`, `finishC`): the macros
       rotr_32/blk0/blk2/Ch/Maj/a(i)…h(i)/R/R0/R2/S0/S1/s0/s1, the 16-word rolling `W`, the rotating `T[(k-i)&7]`,
       and the 64-byte buffering of lzma_sha256_update/finish on lzma_check_state.
  Core Lean only.
-/
namespace XzVerif.Sha256

abbrev W32 := BitVec 32

/-! ## (i) FIPS 180-4 -/

def rotr (n : Nat) (x : W32) : W32 := x.rotateRight n

def Ch (x y z : W32) : W32 := (x &&& y) ^^^ (~~~x &&& z)
def Maj (x y z : W32) : W32 := (x &&& y) ^^^ (x &&& z) ^^^ (y &&& z)
def bsig0 (x : W32) : W32 := rotr 2 x ^^^ rotr 13 x ^^^ rotr 22 x
def bsig1 (x : W32) : W32 := rotr 6 x ^^^ rotr 11 x ^^^ rotr 25 x
def ssig0 (x : W32) : W32 := rotr 7 x ^^^ rotr 18 x ^^^ (x >>> 3)
def ssig1 (x : W32) : W32 := rotr 17 x ^^^ rotr 19 x ^^^ (x >>> 10)

/-- §4.2.2 -/
def K : List W32 := [
  0x428a2f98#32, 0x71374491#32, 0xb5c0fbcf#32, 0xe9b5dba5#32, 0x3956c25b#32, 0x59f111f1#32, 0x923f82a4#32, 0xab1c5ed5#32,
  0xd807aa98#32, 0x12835b01#32, 0x243185be#32, 0x550c7dc3#32, 0x72be5d74#32, 0x80deb1fe#32, 0x9bdc06a7#32, 0xc19bf174#32,
  0xe49b69c1#32, 0xefbe4786#32, 0x0fc19dc6#32, 0x240ca1cc#32, 0x2de92c6f#32, 0x4a7484aa#32, 0x5cb0a9dc#32, 0x76f988da#32,
  0x983e5152#32, 0xa831c66d#32, 0xb00327c8#32, 0xbf597fc7#32, 0xc6e00bf3#32, 0xd5a79147#32, 0x06ca6351#32, 0x14292967#32,
  0x27b70a85#32, 0x2e1b2138#32, 0x4d2c6dfc#32, 0x53380d13#32, 0x650a7354#32, 0x766a0abb#32, 0x81c2c92e#32, 0x92722c85#32,
  0xa2bfe8a1#32, 0xa81a664b#32, 0xc24b8b70#32, 0xc76c51a3#32, 0xd192e819#32, 0xd6990624#32, 0xf40e3585#32, 0x106aa070#32,
  0x19a4c116#32, 0x1e376c08#32, 0x2748774c#32, 0x34b0bcb5#32, 0x391c0cb3#32, 0x4ed8aa4a#32, 0x5b9cca4f#32, 0x682e6ff3#32,
  0x748f82ee#32, 0x78a5636f#32, 0x84c87814#32, 0x8cc70208#32, 0x90befffa#32, 0xa4506ceb#32, 0xbef9a3f7#32, 0xc67178f2#32]

/-- §5.3.3 -/
def H0 : List W32 := [
  0x6a09e667#32, 0xbb67ae85#32, 0x3c6ef372#32, 0xa54ff53a#32, 0x510e527f#32, 0x9b05688c#32, 0x1f83d9ab#32, 0x5be0cd19#32]

/-- The eight working variables / the eight words of a hash value. -/
structure St where
  a : W32
  b : W32
  c : W32
  d : W32
  e : W32
  f : W32
  g : W32
  h : W32
deriving Repr, DecidableEq

def St.ofList (l : List W32) : St :=
  ⟨l.getD 0 0, l.getD 1 0, l.getD 2 0, l.getD 3 0, l.getD 4 0, l.getD 5 0, l.getD 6 0, l.getD 7 0⟩
def St.toList (s : St) : List W32 := [s.a, s.b, s.c, s.d, s.e, s.f, s.g, s.h]
def St.add (x y : St) : St := ⟨x.a + y.a, x.b + y.b, x.c + y.c, x.d + y.d, x.e + y.e, x.f + y.f, x.g + y.g, x.h + y.h⟩

/-- §6.2.2 step 1: `schedAux m n` is `W_0 … W_{15+n}`;  `W_t = σ1(W_{t-2}) + W_{t-7} + σ0(W_{t-15}) + W_{t-16}` with `t = n + 16`. -/
def schedAux (m : List W32) : Nat → List W32
  | 0 => m
  | n + 1 =>
    let w := schedAux m n
    w ++ [ssig1 (w.getD (n + 14) 0) + w.getD (n + 9) 0 + ssig0 (w.getD (n + 1) 0) + w.getD n 0]

def schedule (m : List W32) : List W32 := schedAux m 48

/-- §6.2.2 step 3, one value of `t`. -/
def round (s : St) (k w : W32) : St :=
  let t1 := s.h + bsig1 s.e + Ch s.e s.f s.g + k + w
  let t2 := bsig0 s.a + Maj s.a s.b s.c
  ⟨t1 + t2, s.a, s.b, s.c, s.d + t1, s.e, s.f, s.g⟩

/-- Working variables after `t` rounds. -/
def roundsUpTo (Kt W : List W32) (H : St) (t : Nat) : St :=
  (List.range t).foldl (fun s t => round s (Kt.getD t 0) (W.getD t 0)) H

/-- §6.2.2: one message block `m` (16 words). -/
def compress (H : St) (m : List W32) : St :=
  H.add (roundsUpTo K (schedule m) H 64)

def be32 (b0 b1 b2 b3 : UInt8) : W32 :=
  BitVec.ofNat 32 (16777216 * b0.toNat + 65536 * b1.toNat + 256 * b2.toNat + b3.toNat)

/-- §5.2.1: a 64-byte block as sixteen big-endian words. -/
def wordsBE (blk : List UInt8) : List W32 :=
  (List.range 16).map fun i => be32 (blk.getD (4 * i) 0) (blk.getD (4 * i + 1) 0) (blk.getD (4 * i + 2) 0) (blk.getD (4 * i + 3) 0)

def be32bytes (x : W32) : List UInt8 :=
  [UInt8.ofNat (x.toNat / 16777216), UInt8.ofNat (x.toNat / 65536 % 256), UInt8.ofNat (x.toNat / 256 % 256), UInt8.ofNat (x.toNat % 256)]

/-- Big-endian 64-bit encoding of `n mod 2^64`. -/
def be64bytes (n : Nat) : List UInt8 :=
  (List.range 8).map fun i => UInt8.ofNat (n / 2 ^ (8 * (7 - i)) % 256)

/-- §5.1.1: append the bit 1, `k` zero bits, and the 64-bit length in bits (here in whole bytes). -/
def pad (m : List UInt8) : List UInt8 :=
  m ++ [0x80] ++ List.replicate ((119 - m.length % 64) % 64) 0 ++ be64bytes (8 * m.length)

def blocks (bs : List UInt8) : List (List UInt8) :=
  (List.range (bs.length / 64)).map fun i => (bs.drop (64 * i)).take 64

def digest (l : List W32) : List UInt8 := l.flatMap be32bytes

/-- SHA-256 of a byte string (FIPS 180-4; defined for messages shorter than 2^61 bytes). -/
def sha256 (m : List UInt8) : List UInt8 :=
  digest ((blocks (pad m)).foldl (fun H b => compress H (wordsBE b)) (St.ofList H0)).toList

/-! ## (ii) sha256.c as written -/

/-- `rotr_32(num, amount)` -/
def rotr32 (num : W32) (amount : Nat) : W32 := (num >>> amount) ||| (num <<< (32 - amount))

/-- `#define Ch(x, y, z) (z ^ (x & (y ^ z)))` -/
def ChC (x y z : W32) : W32 := z ^^^ (x &&& (y ^^^ z))
/-- `#define Maj(x, y, z) ((x & (y ^ z)) + (y & z))` -/
def MajC (x y z : W32) : W32 := (x &&& (y ^^^ z)) + (y &&& z)
/-- `#define S0(x) rotr_32(x ^ rotr_32(x ^ rotr_32(x, 9), 11), 2)` -/
def S0 (x : W32) : W32 := rotr32 (x ^^^ rotr32 (x ^^^ rotr32 x 9) 11) 2
/-- `#define S1(x) rotr_32(x ^ rotr_32(x ^ rotr_32(x, 14), 5), 6)` -/
def S1 (x : W32) : W32 := rotr32 (x ^^^ rotr32 (x ^^^ rotr32 x 14) 5) 6
/-- `#define s0(x) (rotr_32(x ^ rotr_32(x, 11), 7) ^ (x >> 3))` -/
def s0 (x : W32) : W32 := rotr32 (x ^^^ rotr32 x 11) 7 ^^^ (x >>> 3)
/-- `#define s1(x) (rotr_32(x ^ rotr_32(x, 2), 17) ^ (x >> 10))` -/
def s1 (x : W32) : W32 := rotr32 (x ^^^ rotr32 x 2) 17 ^^^ (x >>> 10)

/-- `(k - i) & 7` for the int constants `0 ≤ k ≤ 7`, `0 ≤ i ≤ 15` of the macros `a(i)`…`h(i)` (two's complement). -/
def idx (k i : Nat) : Nat := (k + 16 - i) % 8

/-- The macro `R(i, j, blk)`; `kc` is `SHA256_K[i + j]`, `blk` the value of `blk0(i)` / `blk2(i)`. `T` is `uint32_t T[8]`. -/
def R (T : List W32) (i : Nat) (kc blk : W32) : List W32 :=
  let a := T.getD (idx 0 i) 0
  let b := T.getD (idx 1 i) 0
  let c := T.getD (idx 2 i) 0
  let e := T.getD (idx 4 i) 0
  let f := T.getD (idx 5 i) 0
  let g := T.getD (idx 6 i) 0
  -- h(i) += S1(e(i)) + Ch(e(i), f(i), g(i)) + SHA256_K[i + j] + blk;
  let T := T.set (idx 7 i) (T.getD (idx 7 i) 0 + (S1 e + ChC e f g + kc + blk))
  -- d(i) += h(i);
  let T := T.set (idx 3 i) (T.getD (idx 3 i) 0 + T.getD (idx 7 i) 0)
  -- h(i) += S0(a(i)) + Maj(a(i), b(i), c(i))
  T.set (idx 7 i) (T.getD (idx 7 i) 0 + (S0 a + MajC a b c))

/-- `blk0(i)`: `W[i] = conv32be(data[i])` (the byte swap is done by `wordsBE` in `process`); returns the new `W` and the value. -/
def blk0 (W data : List W32) (i : Nat) : List W32 × W32 :=
  let v := data.getD i 0
  (W.set i v, v)

/-- `blk2(i)`: `W[i & 15] += s1(W[(i - 2) & 15]) + W[(i - 7) & 15] + s0(W[(i - 15) & 15])`. -/
def blk2 (W : List W32) (i : Nat) : List W32 × W32 :=
  let v := W.getD (i % 16) 0 + (s1 (W.getD ((i + 14) % 16) 0) + W.getD ((i + 9) % 16) 0 + s0 (W.getD ((i + 1) % 16) 0))
  (W.set (i % 16) v, v)

/-- `R0(i)` -/
def R0 (Kt data : List W32) (s : List W32 × List W32) (i : Nat) : List W32 × List W32 :=
  let (W, v) := blk0 s.2 data i
  (R s.1 i (Kt.getD (i + 0) 0) v, W)

/-- `R2(i)` inside the loop over `j` -/
def R2 (Kt : List W32) (j : Nat) (s : List W32 × List W32) (i : Nat) : List W32 × List W32 :=
  let (W, v) := blk2 s.2 i
  (R s.1 i (Kt.getD (i + j) 0) v, W)

def sixteen : List Nat := [0, 1, 2, 3, 4, 5, 6, 7, 8, 9, 10, 11, 12, 13, 14, 15]

/-- `transform(state, data)` with the table `Kt` = `SHA256_K`; `data` already converted from big endian. -/
def transformC (Kt : List W32) (state data : List W32) : List W32 :=
  let s : List W32 × List W32 := (state, List.replicate 16 0)      -- memcpy(T, state, sizeof(T)); W uninitialised
  let s := sixteen.foldl (R0 Kt data) s                           -- R0( 0); … R0(15);
  let s := [16, 32, 48].foldl (fun s j => sixteen.foldl (R2 Kt j) s) s   -- for (j = 16; j < 64; j += 16) { R2( 0); … R2(15); }
  let T := s.1
  -- state[0] += a(0); … state[7] += h(0);
  (List.range 8).map fun k => state.getD k 0 + T.getD (idx k 0) 0

/-- The part of `lzma_check_state` that SHA-256 uses. -/
structure Ck where
  buf : List UInt8      -- check->buffer.u8[64]
  state : List W32      -- check->state.sha256.state[8]
  size : Nat            -- check->state.sha256.size (uint64_t; only `size & 0x3F` and `size * 8 mod 2^64` are observed)
deriving Repr, DecidableEq

/-- `lzma_sha256_init`; `s` is the static table in that function, `buf` whatever the buffer contained. -/
def initC (s : List W32) (buf : List UInt8) : Ck := { buf := buf, state := s, size := 0 }

/-- `process(check)` for a transform function `tr` (state, 64 buffer bytes) -/
def processC (tr : List W32 → List UInt8 → List W32) (ck : Ck) : Ck := { ck with state := tr ck.state ck.buf }

/-- The `while (size > 0)` loop of `lzma_sha256_update` (`fuel` ≥ number of iterations). -/
def updateLoop (tr : List W32 → List UInt8 → List W32) : Nat → List UInt8 → Ck → Ck
  | 0, _, ck => ck
  | fuel + 1, bs, ck =>
    if bs.length > 0 then
      let copyStart := ck.size % 64                          -- size & 0x3F
      let copySize := if 64 - copyStart > bs.length then bs.length else 64 - copyStart
      -- memcpy(check->buffer.u8 + copy_start, buf, copy_size)
      let buf := ck.buf.take copyStart ++ bs.take copySize ++ ck.buf.drop (copyStart + copySize)
      let ck : Ck := { buf := buf, state := ck.state, size := ck.size + copySize }
      let ck := if ck.size % 64 = 0 then processC tr ck else ck
      updateLoop tr fuel (bs.drop copySize) ck
    else ck

def updateC (tr : List W32 → List UInt8 → List W32) (ck : Ck) (bs : List UInt8) : Ck :=
  updateLoop tr bs.length bs ck

/-- The padding loop `while (pos != 64 - 8) { if (pos == 64) { process(check); pos = 0; } buffer.u8[pos++] = 0x00; }` -/
def padLoop (tr : List W32 → List UInt8 → List W32) : Nat → Ck → Nat → Ck
  | 0, ck, _ => ck
  | fuel + 1, ck, pos =>
    if pos ≠ 56 then
      let (ck, pos) := if pos = 64 then (processC tr ck, 0) else (ck, pos)
      padLoop tr fuel { ck with buf := ck.buf.set pos 0 } (pos + 1)
    else ck

/-- `check->state.sha256.size *= 8` (uint64_t): the message length in bits that `lzma_sha256_finish` stores as ONE
    64-bit big-endian integer in `buffer.u64[7]`. -/
def lengthBitsC (size : Nat) : Nat := size * 8 % 2 ^ 64

/-- `lzma_sha256_finish`; the digest is the first 32 bytes of the returned buffer. -/
def finishC (tr : List W32 → List UInt8 → List W32) (ck : Ck) : Ck :=
  let pos := ck.size % 64
  let ck := { ck with buf := ck.buf.set pos 0x80 }
  let ck := padLoop tr 128 ck (pos + 1)
  let ck := { ck with size := lengthBitsC ck.size }
  -- check->buffer.u64[(64 - 8) / 8] = conv64be(check->state.sha256.size);
  let ck := { ck with buf := ck.buf.take 56 ++ be64bytes ck.size }
  let ck := processC tr ck
  -- buffer.u32[i] = conv32be(state[i]) for i < 8
  { ck with buf := digest (ck.state.take 8) ++ ck.buf.drop 32 }

/-- `transform` applied to the buffer (`check->buffer.u32` read as big-endian words by `blk0`). -/
def trC (Kt : List W32) (state : List W32) (buf : List UInt8) : List W32 := transformC Kt state (wordsBE buf)

/-- The FIPS compression function in the same shape. -/
def trF (state : List W32) (buf : List UInt8) : List W32 := (compress (St.ofList state) (wordsBE buf)).toList

/-- Digest computed the way the C code computes it, over consecutive pieces. -/
def sha256C (Kt s : List W32) (buf0 : List UInt8) (pieces : List (List UInt8)) : List UInt8 :=
  (finishC (trC Kt) (pieces.foldl (updateC (trC Kt)) (initC s buf0))).buf.take 32

end XzVerif.Sha256
