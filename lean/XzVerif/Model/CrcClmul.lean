/-
  Model of src/liblzma/check/crc_x86_clmul.h (`crc32_arch_optimized` / `crc64_arch_optimized`) over `BitVec 128`:
  the three size classes (`< 8`, `< 16`, `≥ 16`), the four-lane `fold512` loop, the `fold128` loop, the partial last
  block with the `vmasks` byte shuffles, the 128→64 bit fold and the Barrett reduction, with a carry-less multiply
  defined by shift-and-xor.  The intrinsics are modelled by their documented meaning (`clmulepi64`, `shuffle`,
  `srli/slli_si128`, `insert/extract`).  Core Lean only.
-/
import XzVerif.Model.Crc
namespace XzVerif.Clmul
open XzVerif.Crc

abbrev V := BitVec 128

/-- low / high 64-bit half of an `__m128i` -/
def lo (v : V) : BitVec 64 := v.setWidth 64
def hi (v : V) : BitVec 64 := (v >>> 64).setWidth 64

/-- Carry-less product of `a` with the `n` low bits of `b`: xor of `a << i` over the set bits `i` of `b`. -/
def clmulAux (a : V) (b : BitVec 64) : Nat → V
  | 0 => 0#128
  | n + 1 => if b.getLsbD n then clmulAux a b n ^^^ (a <<< n) else clmulAux a b n

/-- 64×64 → 128 bit carry-less multiplication (PCLMULQDQ). -/
def clmul64 (a b : BitVec 64) : V := clmulAux (a.setWidth 128) b 64

/-- `_mm_clmulepi64_si128(x, y, imm)`: bit 0 of `imm` selects the half of `x`, bit 4 the half of `y`. -/
def clmulepi64 (x y : V) (imm : Nat) : V :=
  clmul64 (if imm % 2 = 1 then hi x else lo x) (if imm / 16 % 2 = 1 then hi y else lo y)

/-- `fold(v, k)`: `clmul(v, k, 0x00) ^ clmul(v, k, 0x11)` -/
def fold (v k : V) : V := clmulepi64 v k 0x00 ^^^ clmulepi64 v k 0x11

/-- little-endian value of a byte list -/
def leNat : List UInt8 → Nat
  | [] => 0
  | b :: r => b.toNat + 256 * leNat r

/-- `my_load128(buf + pos)` (16 bytes; the model never reads past the end where the C code does not) -/
def load128 (bs : List UInt8) (pos : Nat) : V := BitVec.ofNat 128 (leNat ((bs.drop pos).take 16))

def byteOf (v : V) (i : Nat) : V := (v >>> (8 * i)) &&& 0xFF#128

/-- One result byte of `_mm_shuffle_epi8`: zero if bit 7 of the control byte is set, else byte `m & 15` of `v`. -/
def shufByte (v : V) (m i : Nat) : V := if m ≥ 128 then 0#128 else byteOf v (m % 16) <<< (8 * i)

/-- `_mm_shuffle_epi8(v, mask)` with the 16 control bytes given as a list. -/
def shuffle (v : V) (mask : List Nat) : V :=
  (List.range 16).foldl (fun acc i => acc ^^^ shufByte v (mask.getD i 0) i) 0#128

/-- the 16 bytes at `vmasks + off` -/
def maskAt (vm : List Nat) (off : Nat) : List Nat := (vm.drop off).take 16

/-- those 16 bytes as an `__m128i` -/
def maskV (m : List Nat) : V :=
  (List.range 16).foldl (fun acc i => acc ^^^ (BitVec.ofNat 128 (m.getD i 0 % 256) <<< (8 * i))) 0#128

structure Params where
  is64 : Bool
  fold512 : V
  fold128 : V
  muP : V
  vmasks : List Nat
deriving DecidableEq

/-- `_mm_set_epi64x(hi, lo)` -/
def set64x (h l : Nat) : V := BitVec.ofNat 128 (h % 2 ^ 64 * 2 ^ 64 + l % 2 ^ 64)

/-- Parameters from the six constants in the order the code writes them (fold512 hi, lo, fold128 hi, lo, mu_p hi, lo). -/
def Params.ofConsts (is64 : Bool) (c : List Nat) (vm : List Nat) : Params :=
  { is64 := is64, fold512 := set64x (c.getD 0 0) (c.getD 1 0), fold128 := set64x (c.getD 2 0) (c.getD 3 0),
    muP := set64x (c.getD 4 0) (c.getD 5 0), vmasks := vm }

/-- `keep_high_bytes(v, count)` -/
def keepHigh (p : Params) (v : V) (count : Nat) : V := maskV (maskAt p.vmasks count) &&& v
/-- `shift_left(v, amount)` (bytes) -/
def shiftLeft (p : Params) (v : V) (amount : Nat) : V := shuffle v (maskAt p.vmasks (32 - amount))
/-- `shift_right(v, amount)` (bytes) -/
def shiftRight (p : Params) (v : V) (amount : Nat) : V := shuffle v (maskAt p.vmasks (32 + amount))

/-- `fold_xor(v, k, buf)` -/
def foldXor (v k : V) (bs : List UInt8) (pos : Nat) : V := load128 bs pos ^^^ fold v k

/-- `while (size >= 64) { four fold_xor with fold512 }` on the remaining bytes `rest`. -/
def loop64 (p : Params) : Nat → V × V × V × V → List UInt8 → (V × V × V × V) × List UInt8
  | 0, vs, rest => (vs, rest)
  | fuel + 1, (v0, v1, v2, v3), rest =>
    if rest.length ≥ 64 then
      loop64 p fuel (foldXor v0 p.fold512 rest 0, foldXor v1 p.fold512 rest 16, foldXor v2 p.fold512 rest 32,
        foldXor v3 p.fold512 rest 48) (rest.drop 64)
    else ((v0, v1, v2, v3), rest)

/-- `while (size >= 16) { v0 = fold_xor(v0, fold128, buf); … }` -/
def loop16 (p : Params) : Nat → V → List UInt8 → V × List UInt8
  | 0, v0, rest => (v0, rest)
  | fuel + 1, v0, rest =>
    if rest.length ≥ 16 then loop16 p fuel (foldXor v0 p.fold128 rest 0) (rest.drop 16) else (v0, rest)

/-- `v1 = _mm_srli_si128(v0, 8); v0 = _mm_clmulepi64_si128(v0, fold128, 0x10); v0 = _mm_xor_si128(v0, v1);` -/
def reduce128 (p : Params) (v0 : V) : V := clmulepi64 v0 p.fold128 0x10 ^^^ (v0 >>> 64)

/-- The Barrett reduction at the end; the result is the CRC register before the final inversion. -/
def barrett (p : Params) (v0 : V) : BitVec 64 :=
  if p.is64 then
    let v1 := clmulepi64 v0 p.muP 0x10       -- v0 * mu
    let v2 := v1 <<< 64                      -- _mm_slli_si128(v1, 8)
    let v1 := clmulepi64 v1 p.muP 0x00       -- v1 * p
    hi (v0 ^^^ v2 ^^^ v1)                    -- _mm_extract_epi64(v0, 1)
  else
    let v1 := clmulepi64 v0 p.muP 0x10
    let v1 := clmulepi64 v1 p.muP 0x00
    (((v0 ^^^ v1) >>> 64).setWidth 32).setWidth 64   -- (uint32_t)_mm_extract_epi32(v0, 2)

/-- The accumulator `v0` just before the Barrett reduction, for a non-empty buffer; `crc` is the already inverted
    start value zero-extended to 64 bits. -/
def accumulate (p : Params) (bs : List UInt8) (crc : BitVec 64) : V :=
  let size := bs.length
  if size < 8 then
    -- x ^= read32le / read16le << i / byte << i  =  the `size` bytes little endian
    let x := crc ^^^ BitVec.ofNat 64 (leNat bs)
    shiftLeft p (x.setWidth 128) (8 - size)
  else if size < 16 then
    let v0 : V := (crc ^^^ BitVec.ofNat 64 (leNat (bs.take 8))).setWidth 128
    let size' := size - 8
    if size' > 0 then
      let padding := 8 - size'
      -- read64le(buf + size) >> (padding * 8)
      let high := BitVec.ofNat 64 (leNat ((bs.drop size').take 8)) >>> (padding * 8)
      let v0 := (v0 &&& BitVec.ofNat 128 (2 ^ 64 - 1)) ||| (high.setWidth 128 <<< 64)    -- _mm_insert_epi64(v0, high, 1)
      let v0 := shiftLeft p v0 padding
      reduce128 p v0
    else v0
  else
    let v0 := crc.setWidth 128 ^^^ load128 bs 0
    let rest := bs.drop 16
    let (v0, rest) :=
      if rest.length ≥ 48 then
        let v1 := load128 rest 0
        let v2 := load128 rest 16
        let v3 := load128 rest 32
        let rest := rest.drop 48
        let ((v0, v1, v2, v3), rest) := loop64 p rest.length (v0, v1, v2, v3) rest
        let v0 := v1 ^^^ fold v0 p.fold128
        let v0 := v2 ^^^ fold v0 p.fold128
        let v0 := v3 ^^^ fold v0 p.fold128
        (v0, rest)
      else (v0, rest)
    let (v0, rest) := loop16 p rest.length v0 rest
    let v0 :=
      if rest.length > 0 then
        let sz := rest.length
        let v1 := load128 bs (bs.length - 16)          -- my_load128(buf + size - 16)
        let v1 := keepHigh p v1 sz
        let v1 := v1 ||| shiftRight p v0 sz
        let v0 := shiftLeft p v0 (16 - sz)
        v1 ^^^ fold v0 p.fold128
      else v0
    reduce128 p v0

/-- `crc64_arch_optimized(buf, size, crc)` -/
def crc64Clmul (p : Params) (bs : List UInt8) (crc : BitVec 64) : BitVec 64 :=
  if bs.length = 0 then crc else ~~~ (barrett p (accumulate p bs (~~~ crc)))

/-- `crc32_arch_optimized(buf, size, crc)` -/
def crc32Clmul (p : Params) (bs : List UInt8) (crc : BitVec 32) : BitVec 32 :=
  if bs.length = 0 then crc else ~~~ ((barrett p (accumulate p bs ((~~~ crc).setWidth 64))).setWidth 32)

end XzVerif.Clmul
